import Hive.Proofs.DListWF
/-! Preservation of `WF` by `remove`, `move`, `Init` and `lazyInit`. -/
namespace Hive.DList

/-! ### remove -/

theorem wf_remove {s : St} (w : WF s) {l : Bool} {e : Nat} (he : e ∈ s.seq l) : WF (remove s l e) := by
  have he3 := (w.ids l e he).1
  obtain ⟨hp, hn, hpm, hnm⟩ := ring_self_ne (w.ring l) (w.nodupR l) he
  have hseq : ∀ k, (remove s l e).seq k = if k = l then (s.seq l).erase e else s.seq k := by
    intro k; simp [remove, upd]
  have hmem : ∀ x, x ∈ (s.seq l).erase e ↔ x ≠ e ∧ x ∈ s.seq l := fun x => (w.nodup l).mem_erase_iff
  have heo : ∀ k, k ≠ l → e ∉ s.seq k := fun k hk m => w.disj l k (Ne.symm hk) e he m
  have hframe : ∀ j, j ∉ root l :: s.seq l → (remove s l e).heap j = s.heap j := by
    intro j hj
    have hje : j ≠ e := fun q => hj (q ▸ List.mem_cons_of_mem _ he)
    simp only [remove, setOwner, setPrev, setNext, if_neg hje]
    exact unlink_frame s.heap (fun q => hj (q ▸ hpm)) (fun q => hj (q ▸ hnm)) (Ne.symm hp)
  have howner : ∀ j, ((remove s l e).heap j).owner = if j = e then none else (s.heap j).owner := by
    intro j; simp [remove]
  constructor
  · intro k
    rw [hseq]
    by_cases hk : k = l
    · subst hk
      rw [if_pos rfl]
      refine ring_congr (fun x hx => ?_) (ring_unlink (w.ring k) (w.nodupR k) he)
      have hxe : x ≠ e := by
        intro q
        rcases List.mem_cons.1 hx with r | m
        · have := root_lt k; omega
        · exact ((hmem x).1 m).1 q
      simp [remove, hxe]
    · rw [if_neg hk]
      refine ring_congr (fun x hx => ?_) (w.ring k)
      rw [hframe x (fun m => w.ring_disj (Ne.symm hk) m hx)]
      exact ⟨rfl, rfl⟩
  · intro k
    rw [hseq]
    by_cases hk : k = l
    · subst hk; rw [if_pos rfl]; exact (w.nodup k).erase e
    · rw [if_neg hk]; exact w.nodup k
  · intro k x hx
    rw [hseq] at hx
    show 3 ≤ x ∧ x < s.fresh
    by_cases hk : k = l
    · subst hk; rw [if_pos rfl, hmem] at hx; exact w.ids k x hx.2
    · rw [if_neg hk] at hx; exact w.ids k x hx
  · intro k1 k2 hk x hx
    rw [hseq] at hx ⊢
    have hx' : x ∈ s.seq k1 := by
      by_cases h1 : k1 = l
      · subst h1; rw [if_pos rfl, hmem] at hx; exact hx.2
      · rw [if_neg h1] at hx; exact hx
    intro q
    have q' : x ∈ s.seq k2 := by
      by_cases h2 : k2 = l
      · subst h2; rw [if_pos rfl, hmem] at q; exact q.2
      · rw [if_neg h2] at q; exact q
    exact w.disj k1 k2 hk x hx' q'
  · intro k
    rw [hseq]
    by_cases hk : k = l
    · subst hk
      rw [if_pos rfl, List.length_erase_of_mem he]
      have hpos := List.length_pos_of_mem he
      simp [remove, w.len k]
      omega
    · rw [if_neg hk]; simp [remove, upd, hk, w.len k]
  · intro k x hx
    rw [hseq] at hx
    rw [howner]
    by_cases hk : k = l
    · subst hk
      rw [if_pos rfl, hmem] at hx
      rw [if_neg hx.1]; exact w.own k x hx.2
    · rw [if_neg hk] at hx
      rw [if_neg (fun q : x = e => heo k hk (q ▸ hx))]; exact w.own k x hx
  · intro k x hx
    rw [howner] at hx
    rw [hseq]
    by_cases hxe : x = e
    · rw [if_pos hxe] at hx; cases hx
    · rw [if_neg hxe] at hx
      rcases w.own_back k x hx with q | q
      · left
        by_cases hk : k = l
        · subst hk; rw [if_pos rfl, hmem]; exact ⟨hxe, q⟩
        · rw [if_neg hk]; exact q
      · right; exact q
  · exact w.fresh3
  · intro j hj
    have hj' : s.fresh ≤ j := hj
    rw [hframe j (fun m => by have := w.ring_lt m; omega)]
    exact w.unalloc j hj'
  · intro j hj
    rw [howner, if_neg (by omega)]; exact w.lowOwner j hj
  · exact w.staleIds

/-! ### move -/

theorem move_seq_perm {s : St} (w : WF s) {l : Bool} {e a : Nat} (he : e ∈ s.seq l)
    (ha : a ∈ root l :: s.seq l) (hea : e ≠ a) :
    ((insAfter a e (root l :: (s.seq l).erase e)).tail).Perm (s.seq l) := by
  have ha' : a ∈ root l :: (s.seq l).erase e := by
    rcases List.mem_cons.1 ha with q | m
    · rw [q]; exact List.mem_cons_self
    · exact List.mem_cons_of_mem _ ((w.nodup l).mem_erase_iff.2 ⟨Ne.symm hea, m⟩)
  exact (perm_insAfter_tail e ha').trans (List.perm_cons_erase he).symm

theorem wf_move {s : St} (w : WF s) {l : Bool} {e a : Nat} (he : e ∈ s.seq l)
    (ha : a ∈ root l :: s.seq l) : WF (move s l e a) := by
  unfold move
  by_cases hea : e = a
  · rw [if_pos hea]; exact w
  rw [if_neg hea]
  have he3 := (w.ids l e he).1
  obtain ⟨hp, hn, hpm, hnm⟩ := ring_self_ne (w.ring l) (w.nodupR l) he
  have her : e ≠ root l := by have := root_lt l; omega
  have hperm := move_seq_perm w he ha hea
  have hmem : ∀ x, x ∈ (insAfter a e (root l :: (s.seq l).erase e)).tail ↔ x ∈ s.seq l :=
    fun x => hperm.mem_iff
  -- the ring without `e`
  have hr1 := ring_unlink (w.ring l) (w.nodupR l) he
  have hnd1 : (root l :: (s.seq l).erase e).Nodup := by
    have := w.nodupR l
    rw [List.nodup_cons] at this ⊢
    exact ⟨fun m => this.1 (List.mem_of_mem_erase m), this.2.erase e⟩
  have he1 : e ∉ root l :: (s.seq l).erase e := by
    intro m
    rcases List.mem_cons.1 m with q | m
    · exact her q
    · exact ((w.nodup l).mem_erase_iff.1 m).1 rfl
  have ha1 : a ∈ root l :: (s.seq l).erase e := by
    rcases List.mem_cons.1 ha with q | m
    · rw [q]; exact List.mem_cons_self
    · exact List.mem_cons_of_mem _ ((w.nodup l).mem_erase_iff.2 ⟨Ne.symm hea, m⟩)
  have hsub : ∀ x, x ∈ root l :: (s.seq l).erase e → x ∈ root l :: s.seq l := by
    intro x m
    rcases List.mem_cons.1 m with q | m
    · rw [q]; exact List.mem_cons_self
    · exact List.mem_cons_of_mem _ (List.mem_of_mem_erase m)
  have hb1 := hsub _ (ring_next_mem hr1 hnd1 ha1)
  have hframe : ∀ j, j ∉ root l :: s.seq l → link (unlink s.heap e) e a j = s.heap j := by
    intro j hj
    have hje : j ≠ e := fun q => hj (q ▸ List.mem_cons_of_mem _ he)
    rw [link_frame (unlink s.heap e) hje (fun q => hj (q ▸ ha)) (fun q => hj (q ▸ hb1)) hea]
    exact unlink_frame s.heap (fun q => hj (q ▸ hpm)) (fun q => hj (q ▸ hnm)) (Ne.symm hp)
  have hseq : ∀ k, (upd s.seq l (insAfter a e (root l :: (s.seq l).erase e)).tail) k
      = if k = l then (insAfter a e (root l :: (s.seq l).erase e)).tail else s.seq k := by
    intro k; simp [upd]
  have hmemk : ∀ k x, x ∈ (upd s.seq l (insAfter a e (root l :: (s.seq l).erase e)).tail) k ↔ x ∈ s.seq k := by
    intro k x
    rw [hseq]
    by_cases hk : k = l
    · subst hk; rw [if_pos rfl]; exact hmem x
    · rw [if_neg hk]
  constructor
  · intro k
    show Ring (link (unlink s.heap e) e a) (root k) (upd s.seq l (insAfter a e (root l :: (s.seq l).erase e)).tail k)
    rw [hseq]
    by_cases hk : k = l
    · subst hk
      rw [if_pos rfl]
      exact ring_link hr1 hnd1 he1 ha1
    · rw [if_neg hk]
      refine ring_congr (fun x hx => ?_) (w.ring k)
      rw [hframe x (fun m => w.ring_disj (Ne.symm hk) m hx)]
      exact ⟨rfl, rfl⟩
  · intro k
    show (upd s.seq l (insAfter a e (root l :: (s.seq l).erase e)).tail k).Nodup
    rw [hseq]
    by_cases hk : k = l
    · subst hk; rw [if_pos rfl, hperm.nodup_iff]; exact w.nodup k
    · rw [if_neg hk]; exact w.nodup k
  · intro k x hx
    exact w.ids k x ((hmemk k x).1 hx)
  · intro k1 k2 hk x hx q
    exact w.disj k1 k2 hk x ((hmemk k1 x).1 hx) ((hmemk k2 x).1 q)
  · intro k
    show s.len k = (upd s.seq l (insAfter a e (root l :: (s.seq l).erase e)).tail k).length
    rw [hseq]
    by_cases hk : k = l
    · subst hk; rw [if_pos rfl, hperm.length_eq]; exact w.len k
    · rw [if_neg hk]; exact w.len k
  · intro k x hx
    show (link (unlink s.heap e) e a x).owner = some k
    rw [link_owner, unlink_owner]
    exact w.own k x ((hmemk k x).1 hx)
  · intro k x hx
    have hx' : (s.heap x).owner = some k := by
      have : (link (unlink s.heap e) e a x).owner = some k := hx
      rwa [link_owner, unlink_owner] at this
    rcases w.own_back k x hx' with q | q
    · left; exact (hmemk k x).2 q
    · right; exact q
  · exact w.fresh3
  · intro j hj
    have hj' : s.fresh ≤ j := hj
    show link (unlink s.heap e) e a j = {}
    rw [hframe j (fun m => by have := w.ring_lt m; omega)]
    exact w.unalloc j hj'
  · intro j hj
    show (link (unlink s.heap e) e a j).owner = none
    rw [link_owner, unlink_owner]; exact w.lowOwner j hj
  · exact w.staleIds

/-! ### Init / lazyInit -/

theorem wf_initL {s : St} (w : WF s) (l : Bool) : WF (initL s l) := by
  have hseq : ∀ k, (initL s l).seq k = if k = l then [] else s.seq k := by
    intro k; simp [initL, upd]
  have hne : ∀ x, x ≠ root l → (initL s l).heap x = s.heap x := by
    intro x hx; simp [initL, setPrev, setNext, hx]
  have howner : ∀ j, ((initL s l).heap j).owner = (s.heap j).owner := by
    intro j; simp [initL]
  constructor
  · intro k
    rw [hseq]
    by_cases hk : k = l
    · subst hk
      rw [if_pos rfl, ring_nil_iff]
      simp [initL]
    · rw [if_neg hk]
      refine ring_congr (fun x hx => ?_) (w.ring k)
      rw [hne x (fun q => w.ring_disj hk hx (q ▸ List.mem_cons_self))]
      exact ⟨rfl, rfl⟩
  · intro k
    rw [hseq]
    by_cases hk : k = l
    · rw [if_pos hk]; exact List.nodup_nil
    · rw [if_neg hk]; exact w.nodup k
  · intro k x hx
    rw [hseq] at hx
    by_cases hk : k = l
    · rw [if_pos hk] at hx; cases hx
    · rw [if_neg hk] at hx; exact w.ids k x hx
  · intro k1 k2 hk x hx
    rw [hseq] at hx ⊢
    by_cases h1 : k1 = l
    · rw [if_pos h1] at hx; cases hx
    · rw [if_neg h1] at hx
      by_cases h2 : k2 = l
      · rw [if_pos h2]; exact List.not_mem_nil
      · rw [if_neg h2]; exact w.disj k1 k2 hk x hx
  · intro k
    rw [hseq]
    by_cases hk : k = l
    · subst hk; simp [initL]
    · rw [if_neg hk]; simp [initL, upd, hk, w.len k]
  · intro k x hx
    rw [hseq] at hx
    rw [howner]
    by_cases hk : k = l
    · rw [if_pos hk] at hx; cases hx
    · rw [if_neg hk] at hx; exact w.own k x hx
  · intro k x hx
    rw [howner] at hx
    rw [hseq]
    show _ ∨ x ∈ s.seq l ++ s.stale
    rcases w.own_back k x hx with q | q
    · by_cases hk : k = l
      · subst hk; right; exact List.mem_append_left _ q
      · left; rw [if_neg hk]; exact q
    · right; exact List.mem_append_right _ q
  · exact w.fresh3
  · intro j hj
    have hj' : s.fresh ≤ j := hj
    rw [hne j (by have := root_lt l; have := w.fresh3; omega)]
    exact w.unalloc j hj'
  · intro j hj
    rw [howner]; exact w.lowOwner j hj
  · intro x hx
    have hx' : x ∈ s.seq l ++ s.stale := hx
    show 3 ≤ x ∧ x < s.fresh
    rcases List.mem_append.1 hx' with q | q
    · exact w.ids l x q
    · exact w.staleIds x q

/-- `lazyInit` never fires on a list made by `newList` (its sentinel's `next` is never `nil`). -/
theorem lazyInit_eq {s : St} (w : WF s) (l : Bool) : lazyInit s l = s := by
  unfold lazyInit
  have := w.ring_pos (w.next_mem (l := l) List.mem_cons_self)
  rw [if_neg (by omega)]

end Hive.DList
