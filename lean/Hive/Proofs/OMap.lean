import Hive.Model.OMap
/-!
# Lemmas about the abstract ordered map and the set layer (C11)

Characterisation of every operation on the key list (`AMap.keys` / `elems`), the duplicate-freeness
invariant, and membership characterisations of the folds behind `AddAll`/`DeleteAll`/`Apply`/
`Filter`/`Clone`.
-/
namespace Hive.OMap

namespace AMap

theorem get_eq_none_iff (m : AMap) (k : Nat) : get m k = none ↔ k ∉ keys m := by
  induction m with
  | nil => simp [get, keys]
  | cons p r ih =>
    obtain ⟨k', v⟩ := p
    by_cases h : k' = k
    · simp [get, keys, h]
    · have h' : ¬ k = k' := fun e => h e.symm
      simp only [keys] at ih
      simp [get, keys, h, h', ih]

theorem get_some_mem {m : AMap} {k v : Nat} (h : get m k = some v) : (k, v) ∈ m := by
  induction m with
  | nil => simp [get] at h
  | cons p r ih =>
    obtain ⟨k', v'⟩ := p
    by_cases hk : k' = k
    · simp [get, hk] at h; simp [hk, h]
    · simp [get, hk] at h; exact List.mem_cons_of_mem _ (ih h)

theorem has_iff (m : AMap) (k : Nat) : has m k = true ↔ k ∈ keys m := by
  unfold has
  cases h : get m k with
  | none => simp [(get_eq_none_iff m k).1 h]
  | some v =>
    simp only [Option.isSome_some, true_iff]
    exact Classical.byContradiction fun hn => by simp [(get_eq_none_iff m k).2 hn] at h

theorem has_eq_decide (m : AMap) (k : Nat) : has m k = decide (k ∈ keys m) := by
  by_cases h : k ∈ keys m
  · simp [h, (has_iff m k).2 h]
  · have : has m k ≠ true := fun e => h ((has_iff m k).1 e)
    simp [h, this]

theorem keys_update (m : AMap) (k v : Nat) : keys (update m k v) = keys m := by
  induction m with
  | nil => rfl
  | cons p r ih =>
    simp only [update, keys, List.map_cons] at ih ⊢
    by_cases h : p.1 = k <;> simp [h, ih]

theorem keys_append (a b : AMap) : keys (a ++ b) = keys a ++ keys b := by simp [keys]

/-- `Set`: a live key keeps its position, a new key goes to the end. -/
theorem keys_set (m : AMap) (k v : Nat) :
    keys (set m k v).1 = if k ∈ keys m then keys m else keys m ++ [k] := by
  unfold set
  cases h : get m k with
  | none =>
    have hn := (get_eq_none_iff m k).1 h
    simp only [hn, if_false, keys_append]; rfl
  | some old =>
    have : k ∈ keys m := Classical.byContradiction fun hn => by simp [(get_eq_none_iff m k).2 hn] at h
    simp [this, keys_update]

/-- `Set` reports the previous value, i.e. prior presence. -/
theorem set_snd (m : AMap) (k v : Nat) : (set m k v).2 = get m k := by
  unfold set; cases h : get m k <;> simp

theorem keys_remove (m : AMap) (k : Nat) : keys (remove m k) = (keys m).filter (· != k) := by
  induction m with
  | nil => rfl
  | cons p r ih =>
    simp only [remove, keys, List.filter_cons, List.map_cons] at ih ⊢
    by_cases h : p.1 = k <;> simp [h, ih]

theorem filter_ne_of_not_mem {l : List Nat} {k : Nat} (h : k ∉ l) : l.filter (· != k) = l := by
  induction l with
  | nil => rfl
  | cons x r ih =>
    have hx : x ≠ k := fun e => h (by simp [e])
    have hr : k ∉ r := fun e => h (List.mem_cons_of_mem _ e)
    simp [List.filter_cons, hx, ih hr]

/-- `Delete` unlinks exactly the key, the relative order of the others is unchanged. -/
theorem keys_delete (m : AMap) (k : Nat) : keys (delete m k).1 = (keys m).filter (· != k) := by
  unfold delete
  cases h : get m k with
  | none => simp [filter_ne_of_not_mem ((get_eq_none_iff m k).1 h)]
  | some _ => simp [keys_remove]

/-- `Delete` reports prior presence. -/
theorem delete_snd (m : AMap) (k : Nat) : (delete m k).2 = has m k := by
  unfold delete has; cases h : get m k <;> simp

theorem nodup_set {m : AMap} (h : (keys m).Nodup) (k v : Nat) : (keys (set m k v).1).Nodup := by
  rw [keys_set]
  by_cases hk : k ∈ keys m
  · simp [hk, h]
  · simp only [hk, if_false]
    rw [List.nodup_append]
    refine ⟨h, by simp, ?_⟩
    intro a ha b hb
    simp at hb
    intro e; subst e; subst hb; exact hk ha

theorem nodup_delete {m : AMap} (h : (keys m).Nodup) (k : Nat) : (keys (delete m k).1).Nodup := by
  rw [keys_delete]; exact h.sublist List.filter_sublist

theorem mem_keys_set (m : AMap) (k v x : Nat) : x ∈ keys (set m k v).1 ↔ x ∈ keys m ∨ x = k := by
  rw [keys_set]
  by_cases hk : k ∈ keys m
  · simp only [hk, if_true]
    constructor
    · exact Or.inl
    · rintro (h | h)
      · exact h
      · exact h ▸ hk
  · simp [hk]

theorem mem_keys_delete (m : AMap) (k x : Nat) : x ∈ keys (delete m k).1 ↔ x ∈ keys m ∧ x ≠ k := by
  rw [keys_delete]; simp

/-- the value found for a key after `Set` -/
theorem get_update_self {m : AMap} {k : Nat} (v : Nat) (h : k ∈ keys m) : get (update m k v) k = some v := by
  induction m with
  | nil => simp [keys] at h
  | cons p r ih =>
    obtain ⟨k', v'⟩ := p
    by_cases hk : k' = k
    · simp [update, get, hk]
    · have : k ∈ keys r := by
        simp only [keys, List.map_cons, List.mem_cons] at h
        rcases h with h | h
        · exact absurd h.symm hk
        · exact h
      have ih' := ih this
      simp only [update] at ih'
      simp [update, get, hk, ih']

theorem get_update_other {m : AMap} {k k' : Nat} (v : Nat) (h : k' ≠ k) : get (update m k v) k' = get m k' := by
  induction m with
  | nil => rfl
  | cons p r ih =>
    obtain ⟨a, b⟩ := p
    simp only [update] at ih
    by_cases ha : a = k
    · have : ¬ k = k' := fun e => h e.symm
      simp [update, get, ha, this, ih]
    · by_cases hb : a = k'
      · subst hb; simp [update, get, ha]
      · simp [update, get, ha, hb, ih]

theorem get_append (a b : AMap) (k : Nat) : get (a ++ b) k = (get a k).or (get b k) := by
  induction a with
  | nil => simp [get]
  | cons p r ih =>
    obtain ⟨k', v⟩ := p
    by_cases h : k' = k <;> simp [get, h, ih]

/-- `Get` after `Set`. -/
theorem get_set (m : AMap) (k v k' : Nat) :
    get (set m k v).1 k' = if k' = k then some v else get m k' := by
  unfold set
  cases h : get m k with
  | none =>
    by_cases hk : k' = k
    · subst hk; simp [get_append, h, get]
    · have : ¬ k = k' := fun e => hk e.symm
      simp [get_append, get, hk, this]
  | some old =>
    have hm : k ∈ keys m := Classical.byContradiction fun hn => by simp [(get_eq_none_iff m k).2 hn] at h
    by_cases hk : k' = k
    · subst hk; simp [get_update_self v hm]
    · simp [hk, get_update_other v hk]

theorem get_remove (m : AMap) (k k' : Nat) : get (remove m k) k' = if k' = k then none else get m k' := by
  by_cases hk : k' = k
  · subst hk
    simp only [if_true]
    rw [get_eq_none_iff, keys_remove]; simp
  · simp only [hk, if_false]
    induction m with
    | nil => simp [remove, get]
    | cons p r ih =>
      obtain ⟨a, b⟩ := p
      simp only [remove] at ih
      by_cases ha : a = k
      · have : ¬ k = k' := fun e => hk e.symm
        simp [remove, get, ha, this, ih]
      · by_cases hb : a = k'
        · subst hb; simp [remove, get, ha]
        · simp [remove, get, ha, hb, ih]

/-- `Get` after `Delete`. -/
theorem get_delete (m : AMap) (k k' : Nat) :
    get (delete m k).1 k' = if k' = k then none else get m k' := by
  unfold delete
  cases h : get m k with
  | none =>
    by_cases hk : k' = k
    · subst hk; simp [h]
    · simp [hk]
  | some _ => simp [get_remove]

/-- `Clone` (and any refill of an empty map by `Set` in chain order) reproduces a duplicate-free map. -/
theorem foldl_set_append (acc l : AMap) (h : (keys (acc ++ l)).Nodup) :
    l.foldl (fun c p => (set c p.1 p.2).1) acc = acc ++ l := by
  induction l generalizing acc with
  | nil => simp
  | cons p r ih =>
    have hp : get acc p.1 = none := by
      rw [get_eq_none_iff]
      intro hm
      rw [keys_append, List.nodup_append] at h
      exact h.2.2 _ hm p.1 (by simp [keys]) rfl
    have hs : (set acc p.1 p.2).1 = acc ++ [p] := by simp [set, hp]
    simp only [List.foldl_cons, hs]
    have := ih (acc ++ [p]) (by simpa using h)
    simpa using this

theorem clone_eq {m : AMap} (h : (keys m).Nodup) : clone m = m := by
  have := foldl_set_append [] m (by simpa using h)
  simpa [clone] using this

end AMap

/-! ## the set layer -/

theorem mem_sAdd (s : ASet) (e x : Nat) : x ∈ elems (sAdd s e).1 ↔ x ∈ elems s ∨ x = e := by
  simp only [sAdd, elems]; exact AMap.mem_keys_set s e 0 x

/-- `Add` returns true iff the element was not present. -/
theorem sAdd_snd (s : ASet) (e : Nat) : (sAdd s e).2 = !(AMap.has s e) := by
  simp only [sAdd, AMap.set_snd, AMap.has]
  cases AMap.get s e <;> rfl

theorem elems_sAdd (s : ASet) (e : Nat) :
    elems (sAdd s e).1 = if e ∈ elems s then elems s else elems s ++ [e] := by
  simp only [sAdd, elems]; exact AMap.keys_set s e 0

theorem mem_sDelete (s : ASet) (e x : Nat) : x ∈ elems (sDelete s e).1 ↔ x ∈ elems s ∧ x ≠ e := by
  simp only [sDelete, elems]; exact AMap.mem_keys_delete s e x

theorem sDelete_snd (s : ASet) (e : Nat) : (sDelete s e).2 = AMap.has s e := AMap.delete_snd s e

theorem elems_sDelete (s : ASet) (e : Nat) : elems (sDelete s e).1 = (elems s).filter (· != e) :=
  AMap.keys_delete s e

theorem nodup_sAdd {s : ASet} (h : (elems s).Nodup) (e : Nat) : (elems (sAdd s e).1).Nodup :=
  AMap.nodup_set h e 0

theorem nodup_sDelete {s : ASet} (h : (elems s).Nodup) (e : Nat) : (elems (sDelete s e).1).Nodup :=
  AMap.nodup_delete h e

theorem has_iff_mem (s : ASet) (e : Nat) : AMap.has s e = true ↔ e ∈ elems s := AMap.has_iff s e

theorem has_false_iff (s : ASet) (e : Nat) : AMap.has s e = false ↔ e ∉ elems s := by
  rw [← has_iff_mem]; cases AMap.has s e <;> simp

theorem elems_nil : elems ([] : ASet) = [] := rfl

/-! ### `NewSet` -/

theorem mem_foldl_set (l : List Nat) (acc : ASet) (x : Nat) :
    x ∈ elems (l.foldl (fun s e => (AMap.set s e 0).1) acc) ↔ x ∈ elems acc ∨ x ∈ l := by
  induction l generalizing acc with
  | nil => simp
  | cons e r ih =>
    simp only [List.foldl_cons, ih, List.mem_cons]
    have := AMap.mem_keys_set acc e 0 x
    simp only [elems] at this ⊢
    rw [this]
    constructor
    · rintro ((h | h) | h)
      · exact Or.inl h
      · exact Or.inr (Or.inl h)
      · exact Or.inr (Or.inr h)
    · rintro (h | h | h)
      · exact Or.inl (Or.inl h)
      · exact Or.inl (Or.inr h)
      · exact Or.inr h

theorem nodup_foldl_set (l : List Nat) (acc : ASet) (h : (elems acc).Nodup) :
    (elems (l.foldl (fun s e => (AMap.set s e 0).1) acc)).Nodup := by
  induction l generalizing acc with
  | nil => simpa
  | cons e r ih => exact ih _ (AMap.nodup_set h e 0)

theorem mem_newSet (l : List Nat) (x : Nat) : x ∈ elems (newSet l) ↔ x ∈ l := by
  simp [newSet, mem_foldl_set, elems_nil]

theorem nodup_newSet (l : List Nat) : (elems (newSet l)).Nodup :=
  nodup_foldl_set l [] (by simp [elems_nil])

/-- filling a set with a duplicate-free list appends it in order -/
theorem elems_foldl_set_nodup (l : List Nat) (acc : ASet) (h : (elems acc ++ l).Nodup) :
    elems (l.foldl (fun s e => (AMap.set s e 0).1) acc) = elems acc ++ l := by
  induction l generalizing acc with
  | nil => simp
  | cons e r ih =>
    have he : e ∉ elems acc := by
      rw [List.nodup_append] at h
      intro hm; exact h.2.2 e hm e (by simp) rfl
    have h1 : elems (AMap.set acc e 0).1 = elems acc ++ [e] := by
      have := AMap.keys_set acc e 0
      simp only [elems] at he ⊢
      simp [this, he]
    simp only [List.foldl_cons]
    rw [ih _ (by rw [h1]; simpa using h), h1]
    simp

theorem elems_newSet_nodup {l : List Nat} (h : l.Nodup) : elems (newSet l) = l := by
  have := elems_foldl_set_nodup l [] (by simpa [elems_nil] using h)
  simpa [newSet, elems_nil] using this

/-! ### the folds of `AddAll` and `DeleteAll` -/

/-- the loop body of `AddAll` -/
def addStep (acc : ASet × ASet) (e : Nat) : ASet × ASet :=
  let r := sAdd acc.1 e
  (r.1, if r.2 then (sAdd acc.2 e).1 else acc.2)

/-- the loop body of `DeleteAll` -/
def delStep (acc : ASet × ASet) (e : Nat) : ASet × ASet :=
  let r := sDelete acc.1 e
  (r.1, if r.2 then (sAdd acc.2 e).1 else acc.2)

theorem addAll_eq (s : ASet) (els : List Nat) : addAll s els = els.foldl addStep (s, []) := rfl
theorem deleteAll_eq (s : ASet) (els : List Nat) : deleteAll s els = els.foldl delStep (s, []) := rfl

theorem mem_addFold_fst (els : List Nat) (acc : ASet × ASet) (x : Nat) :
    x ∈ elems (els.foldl addStep acc).1 ↔ x ∈ elems acc.1 ∨ x ∈ els := by
  induction els generalizing acc with
  | nil => simp
  | cons e r ih =>
    simp only [List.foldl_cons, ih, addStep, mem_sAdd, List.mem_cons]
    constructor
    · rintro ((h | h) | h)
      · exact Or.inl h
      · exact Or.inr (Or.inl h)
      · exact Or.inr (Or.inr h)
    · rintro (h | h | h)
      · exact Or.inl (Or.inl h)
      · exact Or.inl (Or.inr h)
      · exact Or.inr h

theorem mem_addFold_snd (els : List Nat) (acc : ASet × ASet) (x : Nat) :
    x ∈ elems (els.foldl addStep acc).2 ↔ x ∈ elems acc.2 ∨ (x ∈ els ∧ x ∉ elems acc.1) := by
  induction els generalizing acc with
  | nil => simp
  | cons e r ih =>
    simp only [List.foldl_cons, ih, addStep, mem_sAdd, List.mem_cons, sAdd_snd]
    by_cases he : e ∈ elems acc.1
    · have hh : AMap.has acc.1 e = true := (has_iff_mem _ _).2 he
      simp only [hh, Bool.not_true, Bool.false_eq_true, if_false]
      constructor
      · rintro (h | ⟨h1, h2⟩)
        · exact Or.inl h
        · exact Or.inr ⟨Or.inr h1, fun h => h2 (Or.inl h)⟩
      · rintro (h | ⟨h1 | h1, h2⟩)
        · exact Or.inl h
        · exact absurd (h1 ▸ he) h2
        · refine Or.inr ⟨h1, ?_⟩
          rintro (h | h)
          · exact h2 h
          · exact h2 (h ▸ he)
    · have hh : AMap.has acc.1 e = false := (has_false_iff _ _).2 he
      simp only [hh, Bool.not_false, if_true, mem_sAdd]
      constructor
      · rintro ((h | h) | ⟨h1, h2⟩)
        · exact Or.inl h
        · exact Or.inr ⟨Or.inl h, h ▸ he⟩
        · exact Or.inr ⟨Or.inr h1, fun h => h2 (Or.inl h)⟩
      · rintro (h | ⟨h1 | h1, h2⟩)
        · exact Or.inl (Or.inl h)
        · exact Or.inl (Or.inr h1)
        · by_cases hx : x = e
          · exact Or.inl (Or.inr hx)
          · refine Or.inr ⟨h1, ?_⟩
            rintro (h | h)
            · exact h2 h
            · exact hx h

theorem nodup_addFold (els : List Nat) (acc : ASet × ASet)
    (h1 : (elems acc.1).Nodup) (h2 : (elems acc.2).Nodup) :
    (elems (els.foldl addStep acc).1).Nodup ∧ (elems (els.foldl addStep acc).2).Nodup := by
  induction els generalizing acc with
  | nil => exact ⟨h1, h2⟩
  | cons e r ih =>
    simp only [List.foldl_cons]
    apply ih
    · exact nodup_sAdd h1 e
    · simp only [addStep]
      split
      · exact nodup_sAdd h2 e
      · exact h2

theorem mem_delFold_fst (els : List Nat) (acc : ASet × ASet) (x : Nat) :
    x ∈ elems (els.foldl delStep acc).1 ↔ x ∈ elems acc.1 ∧ x ∉ els := by
  induction els generalizing acc with
  | nil => simp
  | cons e r ih =>
    simp only [List.foldl_cons, ih, delStep, mem_sDelete, List.mem_cons]
    constructor
    · rintro ⟨⟨h1, h2⟩, h3⟩
      exact ⟨h1, fun h => h.elim h2 h3⟩
    · rintro ⟨h1, h2⟩
      exact ⟨⟨h1, fun h => h2 (Or.inl h)⟩, fun h => h2 (Or.inr h)⟩

theorem mem_delFold_snd (els : List Nat) (acc : ASet × ASet) (x : Nat) :
    x ∈ elems (els.foldl delStep acc).2 ↔ x ∈ elems acc.2 ∨ (x ∈ els ∧ x ∈ elems acc.1) := by
  induction els generalizing acc with
  | nil => simp
  | cons e r ih =>
    simp only [List.foldl_cons, ih, delStep, mem_sDelete, List.mem_cons, sDelete_snd]
    by_cases he : e ∈ elems acc.1
    · have hh : AMap.has acc.1 e = true := (has_iff_mem _ _).2 he
      simp only [hh, if_true, mem_sAdd]
      constructor
      · rintro ((h | h) | ⟨h1, h2, _⟩)
        · exact Or.inl h
        · exact Or.inr ⟨Or.inl h, h ▸ he⟩
        · exact Or.inr ⟨Or.inr h1, h2⟩
      · rintro (h | ⟨h1 | h1, h2⟩)
        · exact Or.inl (Or.inl h)
        · exact Or.inl (Or.inr h1)
        · by_cases hx : x = e
          · exact Or.inl (Or.inr hx)
          · exact Or.inr ⟨h1, h2, hx⟩
    · have hh : AMap.has acc.1 e = false := (has_false_iff _ _).2 he
      simp only [hh, Bool.false_eq_true, if_false]
      constructor
      · rintro (h | ⟨h1, h2, _⟩)
        · exact Or.inl h
        · exact Or.inr ⟨Or.inr h1, h2⟩
      · rintro (h | ⟨h1 | h1, h2⟩)
        · exact Or.inl h
        · exact absurd (h1 ▸ h2) he
        · exact Or.inr ⟨h1, h2, fun hx => he (hx ▸ h2)⟩

theorem nodup_delFold (els : List Nat) (acc : ASet × ASet)
    (h1 : (elems acc.1).Nodup) (h2 : (elems acc.2).Nodup) :
    (elems (els.foldl delStep acc).1).Nodup ∧ (elems (els.foldl delStep acc).2).Nodup := by
  induction els generalizing acc with
  | nil => exact ⟨h1, h2⟩
  | cons e r ih =>
    simp only [List.foldl_cons]
    apply ih
    · exact nodup_sDelete h1 e
    · simp only [delStep]
      split
      · exact nodup_sAdd h2 e
      · exact h2

/-! ### `Filter` -/

theorem elems_filterFold (p : Nat → Bool) (l : List Nat) (acc : ASet) (h : (elems acc ++ l.filter p).Nodup) :
    elems (l.foldl (fun a e => if p e then (sAdd a e).1 else a) acc) = elems acc ++ l.filter p := by
  induction l generalizing acc with
  | nil => simp
  | cons e r ih =>
    by_cases hp : p e = true
    · have hf : (e :: r).filter p = e :: r.filter p := by simp [List.filter_cons, hp]
      rw [hf] at h ⊢
      have he : e ∉ elems acc := by
        rw [List.nodup_append] at h
        intro hm; exact h.2.2 e hm e (by simp) rfl
      have h1 : elems (sAdd acc e).1 = elems acc ++ [e] := by simp [elems_sAdd, he]
      simp only [List.foldl_cons, hp, if_true]
      rw [ih _ (by rw [h1]; simpa using h), h1]; simp
    · have hf : (e :: r).filter p = r.filter p := by simp [List.filter_cons, hp]
      rw [hf] at h ⊢
      simp only [List.foldl_cons, hp, Bool.false_eq_true, if_false]
      exact ih _ h

theorem elems_filter {s : ASet} (h : (elems s).Nodup) (p : Nat → Bool) :
    elems (filter s p) = (elems s).filter p := by
  have := elems_filterFold p (elems s) [] (by simpa [elems_nil] using h.sublist List.filter_sublist)
  simpa [filter, elems_nil] using this

/-! ### pigeonhole for `Equals` -/

theorem length_le_of_nodup_subset : ∀ {a b : List Nat}, a.Nodup → (∀ x ∈ a, x ∈ b) → a.length ≤ b.length
  | [], _, _, _ => by simp
  | x :: r, b, hn, hs => by
    have hx : x ∈ b := hs x (by simp)
    have hn' := List.nodup_cons.1 hn
    have : r.length ≤ (b.erase x).length := by
      apply length_le_of_nodup_subset hn'.2
      intro y hy
      have hyx : y ≠ x := fun e => hn'.1 (e ▸ hy)
      exact (List.mem_erase_of_ne hyx).2 (hs y (List.mem_cons_of_mem _ hy))
    have hl := List.length_erase_of_mem hx
    have hpos : 0 < b.length := List.length_pos_of_mem hx
    simp only [List.length_cons]; omega

/-- a duplicate-free list that contains `a` and is not longer than `a` has no further elements -/
theorem subset_of_nodup_subset_length : ∀ {a b : List Nat}, a.Nodup → b.Nodup → (∀ x ∈ a, x ∈ b) →
    b.length ≤ a.length → ∀ y ∈ b, y ∈ a
  | [], b, _, _, _, hl, y, hy => by
    have : b = [] := List.eq_nil_of_length_eq_zero (by simpa using hl)
    simp [this] at hy
  | x :: r, b, hn, hb, hs, hl, y, hy => by
    have hx : x ∈ b := hs x (by simp)
    have hn' := List.nodup_cons.1 hn
    by_cases hyx : y = x
    · simp [hyx]
    · have hsub : ∀ z ∈ r, z ∈ b.erase x := by
        intro z hz
        have hzx : z ≠ x := fun e => hn'.1 (e ▸ hz)
        exact (List.mem_erase_of_ne hzx).2 (hs z (List.mem_cons_of_mem _ hz))
      have hlen : (b.erase x).length ≤ r.length := by
        have := List.length_erase_of_mem hx
        simp only [List.length_cons] at hl; omega
      have := subset_of_nodup_subset_length hn'.2 (hb.sublist List.erase_sublist) hsub hlen y
        ((List.mem_erase_of_ne hyx).2 hy)
      exact List.mem_cons_of_mem _ this

end Hive.OMap
