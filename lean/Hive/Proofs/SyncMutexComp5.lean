import Hive.Proofs.SyncMutexComp4
/-!
Invariants of the composed DAGMutex, part 5: the return from a StarvingMutex method, and the step theorem.
-/
namespace Hive.SyncMutex.Comp
open Hive.Conc
open Hive.SyncMutex.Dag (Mode DOp upd eraseAll below chain pushAll allHeld okD)
open Hive.SyncMutex.Wait (sumL sumL_mid sumL_ge sumL_zero)

theorem cR_grant {t : CTh} (m : Mode) (hb : below t.held t.curEnt = true) (o : Nat) :
    cR (grant t m) o = cR t o + (if m = .r ∧ t.cur = o then 1 else 0) := by
  have hc : (grant t m).held.countP (fun h => h.2 == .r && (grant t m).hobj h.1 == o)
      = (if m = .r ∧ t.cur = o then 1 else 0) + t.held.countP (fun h => h.2 == .r && t.hobj h.1 == o) := by
    simp only [grant, List.countP_cons]
    have : t.held.countP (fun h => h.2 == .r && upd t.hobj t.curEnt t.cur h.1 == o)
        = t.held.countP (fun h => h.2 == .r && t.hobj h.1 == o) := by
      apply List.countP_congr
      intro a ha
      have := below_mem hb a ha
      have hne : a.1 ≠ t.curEnt := by omega
      simp [upd, hne]
    rw [this]
    cases m <;> simp [upd] <;> omega
  simp only [cR]; omega

theorem cW_grant {t : CTh} (m : Mode) (hb : below t.held t.curEnt = true) (o : Nat) :
    cW (grant t m) o = cW t o + (if m = .w ∧ t.cur = o then 1 else 0) := by
  have hc : (grant t m).held.countP (fun h => h.2 == .w && (grant t m).hobj h.1 == o)
      = (if m = .w ∧ t.cur = o then 1 else 0) + t.held.countP (fun h => h.2 == .w && t.hobj h.1 == o) := by
    simp only [grant, List.countP_cons]
    have : t.held.countP (fun h => h.2 == .w && upd t.hobj t.curEnt t.cur h.1 == o)
        = t.held.countP (fun h => h.2 == .w && t.hobj h.1 == o) := by
      apply List.countP_congr
      intro a ha
      have := below_mem hb a ha
      have hne : a.1 ≠ t.curEnt := by omega
      simp [upd, hne]
    rw [this]
    cases m <;> simp [upd] <;> omega
  simp only [cW]; omega

/-- after the grant the goroutine, seen as being outside again, has consistent bookkeeping -/
theorem lk_ret_grant {t : CTh} {k : Kont} (hc : t.ctl = .inner k) (hi : t.ipc = .idle) (hl : LK t)
    (m : Mode) (hop : (t.iop = .lock ∧ m = .w) ∨ (t.iop = .rlock ∧ m = .r)) (hp : pend t = [])
    (hb : below t.held t.curEnt = true) :
    LK { grant t m with ctl := .idle } := by
  rw [lk_outside_iff (by simp [isInner]) (by simpa [grant] using hi)]
  intro o
  have he := hl.eq o
  rw [proj_of_idle o hi, after_idle, hp] at he
  have hin : inA t o = (t.cur == o) := by simp [inA, isInner, hc]
  have h1 : cR { grant t m with ctl := .idle } o = cR (grant t m) o := rfl
  have h2 : cW { grant t m with ctl := .idle } o = cW (grant t m) o := rfl
  have hd := hl.dis o
  rw [h1, h2, cR_grant m hb, cW_grant m hb]
  show t.rd o = _ ∧ t.wr o = _
  simp only [Prod.mk.injEq, bonusR, bonusW, hin, List.count_nil, Nat.add_zero] at he
  rcases hop with ⟨hiop, rfl⟩ | ⟨hiop, rfl⟩
  · rw [hiop] at he
    by_cases ho : t.cur = o
    · have := hd (Or.inl (by rw [hin]; simpa using ho))
      simp [ho, this] at he ⊢
      exact he
    · have hb' : (t.cur == o) = false := by simpa using ho
      simp [ho, hb'] at he ⊢
      exact he
  · rw [hiop] at he
    by_cases ho : t.cur = o
    · have := hd (Or.inl (by rw [hin]; simpa using ho))
      simp [ho, this] at he ⊢
      exact he
    · have hb' : (t.cur == o) = false := by simpa using ho
      simp [ho, hb'] at he ⊢
      exact he

theorem tl_grant {s : CSh} {t : CTh} (m : Mode) (htl : TL s t) (ha : acq t = true)
    (hb : below t.held t.curEnt = true) :
    ∀ a ∈ (grant t m).held, s.ent a.1 = some ((grant t m).hobj a.1) := by
  intro a hmem
  simp only [grant, List.mem_cons] at hmem
  rcases hmem with rfl | hmem
  · simp [grant, upd]; exact htl.t2 ha
  · have := below_mem hb a hmem
    have hne : a.1 ≠ t.curEnt := by omega
    simp [grant, upd, hne]
    exact htl.t1 a hmem

/-- `Lock` / the last `RLock` of a call has returned. -/
theorem cinv_ret_grant {s : CSh} {pre post : List CTh} {t : CTh} (h : CInv s (pre ++ t :: post))
    {k : Kont} (hc : t.ctl = .inner k) (hi : t.ipc = .idle) (m : Mode)
    (hop : (t.iop = .lock ∧ m = .w) ∨ (t.iop = .rlock ∧ m = .r ∧ k = .rl [])) :
    CInv s (pre ++ { grant t m with ctl := .idle } :: post) := by
  have hti := h.th t (by simp)
  have hko := hti.ko
  simp only [KOk, hc] at hko
  have hsi := hti.si
  simp only [SI, hc] at hsi
  have hk : pend t = [] ∧ restPairs t = [] ∧ unrg t = [] := by
    rcases hop with ⟨hiop, _⟩ | ⟨_, _, rfl⟩
    · rw [hiop] at hko; subst hko; simp [pend, restPairs, unrg, hc]
    · simp [pend, restPairs, unrg, hc]
  have hacq : acq t = true := by
    rcases hop with ⟨hiop, _⟩ | ⟨hiop, _, _⟩ <;> simp [acq, isInner, hc, hiop]
  have hb : below t.held t.curEnt = true ∧ okD ((t.curEnt, m) :: t.held) t.script = true := by
    rcases hop with ⟨hiop, rfl⟩ | ⟨hiop, rfl, _⟩
    · rw [hiop] at hsi; exact hsi
    · rw [hiop] at hsi
      simp only [restEnts, hk.2.1, List.map_nil, chain, pushAll, Bool.and_eq_true] at hsi
      exact ⟨hsi.1.1, hsi.2⟩
  have s_eq : ({ s with dm := s.dm } : CSh) = s := rfl
  refine cinv_assemble h (fun o hw => hw) ?_ ?_ ⟨h.rw.z, h.rw.lt, h.rw.inj⟩
    (fun u _ htl _ => ⟨htl.t1, htl.t2, htl.t3⟩) ?_
  · intro k' hk'; simp only [fDm, hc] at hk'; simp only [fDm]; exact hk'
  · intro y k' hk'
    rw [hk']
    have e1 : regc y t = t.held.countP (fun h => h.1 == y) + (if t.curEnt = y then 1 else 0) := by
      simp [regc, hacq, restEnts, hk.2.1, hk.2.2]
    have e2 : regc y { grant t m with ctl := .idle }
        = (if t.curEnt = y then 1 else 0) + t.held.countP (fun h => h.1 == y) := by
      simp [regc, acq, isInner, restEnts, restPairs, unrg, grant, List.countP_cons] <;> omega
    rw [e1, e2]; omega
  · refine ⟨fun _ => by simpa [grant] using hi, by simp [KOk], ?_, ?_, ?_, ?_, by simp [unrg]⟩
    · exact lk_ret_grant hc hi hti.lk m
        (by rcases hop with ⟨a, b⟩ | ⟨a, b, _⟩; exact Or.inl ⟨a, b⟩; exact Or.inr ⟨a, b⟩) hk.1 hb.1
    · simp only [SI, grant]; exact hb.2
    · exact hti.so.cons m hb.1
    · refine ⟨tl_grant m hti.tl hacq hb.1, ?_, ?_⟩
      · intro ha; simp [acq, isInner] at ha
      · intro p hp; simp [restPairs] at hp

/-- An `RLock` of a call has returned and the next entity follows. -/
theorem cinv_ret_rlock_next {s : CSh} {pre post : List CTh} {t : CTh} (h : CInv s (pre ++ t :: post))
    {x o1 : Nat} {rest : List (Nat × Nat)} (hc : t.ctl = .inner (.rl ((x, o1) :: rest))) (hi : t.ipc = .idle)
    (hiop : t.iop = .rlock) :
    CInv s (pre ++ startInner (grant t .r) .rlock x o1 (.rl rest) :: post) := by
  have hti := h.th t (by simp)
  have hsi := hti.si
  simp only [SI, hc, hiop, restEnts, restPairs, List.map_cons, chain, pushAll, Bool.and_eq_true] at hsi
  obtain ⟨⟨hb, hbx, hch⟩, hok⟩ := hsi
  have hacq : acq t = true := by simp [acq, isInner, hc, hiop]
  have hpend : pend t = [] := by simp [pend, hc]
  have hentx : s.ent x = some o1 := hti.tl.t3 (x, o1) (by simp [restPairs, hc])
  -- the goroutine seen as outside, after the grant
  have hlk' : LK { grant t .r with ctl := .idle } :=
    lk_ret_grant hc hi hti.lk .r (Or.inr ⟨hiop, rfl⟩) hpend hb
  have hni' : isInner { grant t .r with ctl := .idle } = false := by simp [isInner]
  have hi' : ({ grant t .r with ctl := .idle } : CTh).ipc = .idle := by simpa [grant] using hi
  have htl1 := tl_grant .r hti.tl hacq hb
  have hz : cR { grant t .r with ctl := .idle } o1 = 0 ∧ cW { grant t .r with ctl := .idle } o1 = 0 := by
    apply counts_zero
    intro a ha ho
    have := held_ent (t := grant t .r) h.rw htl1 ha hentx ho
    have hlt := below_mem hbx a ha
    omega
  have hv := (lk_outside_iff hni' hi').mp hlk' o1
  have hst : startInner (grant t .r) .rlock x o1 (.rl rest)
      = startInner { grant t .r with ctl := .idle } .rlock x o1 (.rl rest) := rfl
  rw [hst]
  refine cinv_assemble h ?_ ?_ ?_ ⟨h.rw.z, h.rw.lt, h.rw.inj⟩
    (fun u _ htl _ => ⟨htl.t1, htl.t2, htl.t3⟩) ?_
  · intro o hw
    have hp : proj o t = proj o { grant t .r with ctl := .idle } := rfl
    rw [hp] at hw
    apply obj_start hi' .rlock x o1 _ o _ hw
    rw [hv.2, hz.2]
    simp [vinv, start]
  · intro k' hk'; simp only [fDm, hc] at hk'; simp only [fDm, startInner]; exact hk'
  · intro y k' hk'
    rw [hk']
    have e1 : regc y t = t.held.countP (fun h => h.1 == y) + (if t.curEnt = y then 1 else 0)
        + ((if x = y then 1 else 0) + (rest.map (·.1)).count y) := by
      simp [regc, hacq, restEnts, restPairs, unrg, hc, List.count_cons]; omega
    have e2 : regc y (startInner { grant t .r with ctl := .idle } .rlock x o1 (.rl rest))
        = ((if t.curEnt = y then 1 else 0) + t.held.countP (fun h => h.1 == y)) + (if x = y then 1 else 0)
          + (rest.map (·.1)).count y := by
      simp [regc, acq, isInner, restEnts, restPairs, unrg, grant, startInner, List.countP_cons] <;> omega
    rw [e1, e2]; omega
  · refine ⟨?_, by simp [KOk, startInner], ?_, ?_, hti.so.cons .r hb, ?_, by simp [unrg, startInner]⟩
    · intro hin; simp [isInner, startInner] at hin
    · exact lk_start_acq hni' hi' hlk' .rlock (Or.inr rfl) x o1 _ (by simp [pend, startInner]) hz
    · simp only [SI, startInner, restEnts, restPairs, grant, chain, pushAll, Bool.and_eq_true]
      exact ⟨⟨hbx, hch⟩, hok⟩
    · refine ⟨htl1, fun _ => hentx, ?_⟩
      intro p hp
      simp only [restPairs, startInner] at hp
      exact hti.tl.t3 p (by simp [restPairs, hc, hp])

/-- `StarvingMutex.Unlock` / the last `RUnlock` of a call has returned: the unregistration follows. -/
theorem cinv_ret_plain {s : CSh} {pre post : List CTh} {t : CTh} (h : CInv s (pre ++ t :: post))
    {k : Kont} (hc : t.ctl = .inner k) (hi : t.ipc = .idle) {c' : Ctl}
    (hop : (t.iop = .unlock ∧ ∃ x, k = .ul x ∧ c' = .unregA x) ∨
      (t.iop = .runlock ∧ ∃ ids, k = .ru [] ids ∧ c' = .runregA ids)) :
    CInv s (pre ++ { t with ctl := c' } :: post) := by
  have hti := h.th t (by simp)
  have hsi := hti.si
  simp only [SI, hc] at hsi
  have hk : pend t = [] ∧ restPairs t = [] ∧ unrg { t with ctl := c' } = unrg t := by
    rcases hop with ⟨_, x, rfl, rfl⟩ | ⟨_, ids, rfl, rfl⟩ <;> simp [pend, restPairs, unrg, hc]
  have hni' : isInner { t with ctl := c' } = false := by
    rcases hop with ⟨_, x, _, rfl⟩ | ⟨_, ids, _, rfl⟩ <;> simp [isInner]
  have hfd : fDm { t with ctl := c' } = 0 := by
    rcases hop with ⟨_, x, _, rfl⟩ | ⟨_, ids, _, rfl⟩ <;> simp [fDm]
  have hacq : acq t = false := by
    rcases hop with ⟨hiop, _⟩ | ⟨hiop, _⟩ <;> simp [acq, hiop]
  have hok : okD t.held t.script = true := by
    rcases hop with ⟨hiop, _⟩ | ⟨hiop, _⟩ <;> (rw [hiop] at hsi; exact hsi)
  have hbR : ∀ o, bonusR t o = 0 := by
    intro o; rcases hop with ⟨hiop, _⟩ | ⟨hiop, _⟩ <;> simp [bonusR, hiop]
  have hbW : ∀ o, bonusW t o = false := by
    intro o; rcases hop with ⟨hiop, _⟩ | ⟨hiop, _⟩ <;> simp [bonusW, hiop]
  have o' := outside_of hni'
  refine cinv_assemble h (fun o hw => hw) ?_ ?_ ⟨h.rw.z, h.rw.lt, h.rw.inj⟩
    (fun u _ htl _ => ⟨htl.t1, htl.t2, htl.t3⟩) ?_
  · intro k' hk'; simp only [fDm, hc] at hk'; rw [hfd]; exact hk'
  · intro y k' hk'
    rw [hk']
    have e1 : regc y t = t.held.countP (fun h => h.1 == y) + (unrg t).count y := by
      simp [regc, hacq, restEnts, hk.2.1]
    have e2 : regc y { t with ctl := c' } = t.held.countP (fun h => h.1 == y) + (unrg t).count y := by
      rw [regc_outside hni', hk.2.2]
    rw [e1, e2]
  · refine ⟨fun _ => hi, ?_, ?_, ?_, hti.so, ⟨hti.tl.t1, ?_, ?_⟩, by rw [hk.2.2]; exact hti.nd⟩
    · rcases hop with ⟨_, x, _, rfl⟩ | ⟨_, ids, _, rfl⟩ <;> simp [KOk]
    · refine (lk_outside_iff (t := { t with ctl := c' }) hni' hi).mpr ?_
      intro o
      have he := hti.lk.eq o
      rw [proj_of_idle o hi, after_idle, hk.1, hbR, hbW] at he
      simp only [List.count_nil, Nat.add_zero, Bool.or_false, Prod.mk.injEq] at he
      exact he
    · rcases hop with ⟨_, x, _, rfl⟩ | ⟨_, ids, _, rfl⟩ <;> (simp only [SI]; exact hok)
    · intro ha; rw [o'.acq] at ha; cases ha
    · intro p hp; rw [o'.rest] at hp; cases hp

/-- An `RUnlock` of a call has returned and the next object follows. -/
theorem cinv_ret_runlock_next {s : CSh} {pre post : List CTh} {t : CTh} (h : CInv s (pre ++ t :: post))
    {o1 : Nat} {rest ids : List Nat} (hc : t.ctl = .inner (.ru (o1 :: rest) ids)) (hi : t.ipc = .idle)
    (hiop : t.iop = .runlock) :
    CInv s (pre ++ startInner t .runlock 0 o1 (.ru rest ids) :: post) := by
  have hti := h.th t (by simp)
  have hsi := hti.si
  simp only [SI, hc, hiop] at hsi
  have hpend : pend t = o1 :: rest := by simp [pend, hc]
  have hnd := hti.lk.pnd
  rw [hpend] at hnd
  have hnd' := List.nodup_cons.mp hnd
  have hz := hti.lk.dis o1 (Or.inr (by rw [hpend]; simp))
  have hbR : ∀ o, bonusR t o = 0 := by intro o; simp [bonusR, hiop]
  have hbW : ∀ o, bonusW t o = false := by intro o; simp [bonusW, hiop]
  have hacq : acq t = false := by simp [acq, hiop]
  have heq : ∀ o, t.rd o = cR t o + (o1 :: rest).count o ∧ t.wr o = decide (0 < cW t o) := by
    intro o
    have he := hti.lk.eq o
    rw [proj_of_idle o hi, after_idle, hpend, hbR, hbW] at he
    simp only [Nat.add_zero, Bool.or_false, Prod.mk.injEq] at he
    exact he
  have hc0 : rest.count o1 = 0 := List.count_eq_zero.mpr hnd'.1
  refine cinv_assemble h ?_ ?_ ?_ ⟨h.rw.z, h.rw.lt, h.rw.inj⟩
    (fun u _ htl _ => ⟨htl.t1, htl.t2, htl.t3⟩) ?_
  · intro o hw
    apply obj_start hi .runlock 0 o1 _ o _ hw
    rw [(heq o1).1, (heq o1).2, hz.1, hz.2]
    simp [vinv, start]
  · intro k' hk'; simp only [fDm, hc] at hk'; simp only [fDm, startInner]; exact hk'
  · intro y k' hk'
    rw [hk']
    have e1 : regc y t = t.held.countP (fun h => h.1 == y) + ids.count y := by
      simp [regc, hacq, restEnts, restPairs, unrg, hc]
    have e2 : regc y (startInner t .runlock 0 o1 (.ru rest ids)) = t.held.countP (fun h => h.1 == y) + ids.count y := by
      simp [regc, acq, isInner, restEnts, restPairs, unrg, startInner]
    rw [e1, e2]
  · have hpend' : pend (startInner t .runlock 0 o1 (.ru rest ids)) = rest := by simp [pend, startInner]
    have hin : ∀ o, inA (startInner t .runlock 0 o1 (.ru rest ids)) o = (o1 == o) := by
      intro o; simp [inA, isInner, startInner]
    have hcR' : ∀ o, cR (startInner t .runlock 0 o1 (.ru rest ids)) o = cR t o := fun _ => rfl
    have hcW' : ∀ o, cW (startInner t .runlock 0 o1 (.ru rest ids)) o = cW t o := fun _ => rfl
    have hnd0 : (unrg (startInner t .runlock 0 o1 (.ru rest ids))).Nodup := by
      have := hti.nd; simpa [unrg, hc, startInner] using this
    refine ⟨?_, by simp [KOk, startInner], ⟨?_, ?_, ?_, ?_⟩, ?_, hti.so, ⟨hti.tl.t1, ?_, ?_⟩, hnd0⟩
    · intro hin'; simp [isInner, startInner] at hin'
    · intro o
      rw [proj_startInner, hpend', hcR', hcW', bonusR_start, bonusW_start]
      obtain ⟨h1, h2⟩ := heq o
      by_cases ho : o1 = o
      · subst ho
        simp [after, start, h1, hz.1, hz.2, hc0]
      · have hb : (o1 == o) = false := by simpa using ho
        simp [ho, hb, after, h1, h2, List.count_cons]
    · intro o ho
      rw [hpend', hin, hcR', hcW'] at *
      apply hti.lk.dis o
      right
      rw [hpend]
      rcases ho with ho | ho
      · have : o1 = o := by simpa using ho
        subst this; simp
      · simp [ho]
    · intro o ho
      rw [hpend']
      rw [hin] at ho
      have : o1 = o := by simpa using ho
      subst this
      exact hnd'.1
    · rw [hpend']; exact hnd'.2
    · simp only [SI, startInner]; exact hsi
    · intro ha; simp [acq, startInner] at ha
    · intro p hp; simp [restPairs, startInner] at hp

end Hive.SyncMutex.Comp
