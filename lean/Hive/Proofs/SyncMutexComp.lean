import Hive.Model.SyncMutexComp
import Hive.Proofs.SyncMutexWB
import Hive.Proofs.SyncMutexDag
/-!
Invariants of the composed DAGMutex (registry + StarvingMutex monitors), part 1: what a goroutine's
DAG-level bookkeeping says about its views of the monitors, the registry, and their preservation.
-/
namespace Hive.SyncMutex.Comp
open Hive.Conc
open Hive.SyncMutex.Dag (Mode DOp upd eraseAll below chain pushAll allHeld okD)
open Hive.SyncMutex.Wait (sumL sumL_mid sumL_ge sumL_zero)

/-! ## lists -/

theorem countP_erase_add {α : Type} [BEq α] [LawfulBEq α] (p : α → Bool) :
    ∀ (l : List α) (a : α), a ∈ l → (l.erase a).countP p + (if p a then 1 else 0) = l.countP p := by
  intro l
  induction l with
  | nil => intro a h; simp at h
  | cons b l ih =>
    intro a h
    by_cases hab : b = a
    · subst hab; simp [List.countP_cons]
    · have hne : (b == a) = false := by simpa using hab
      have hmem : a ∈ l := by
        rcases List.mem_cons.mp h with h | h
        · exact absurd h.symm hab
        · exact h
      rw [List.erase_cons, hne]
      simp only [Bool.false_eq_true, if_false, List.countP_cons]
      have := ih a hmem
      omega

def Sorted (held : List (Nat × Mode)) : Prop := held.Pairwise (fun a b => b.1 < a.1)

theorem Sorted.cons {held : List (Nat × Mode)} (h : Sorted held) {x : Nat} (m : Mode) (hb : below held x = true) :
    Sorted ((x, m) :: held) := by
  simp only [below, List.all_eq_true, decide_eq_true_eq] at hb
  exact List.pairwise_cons.mpr ⟨fun a ha => hb a ha, h⟩

theorem Sorted.erase {held : List (Nat × Mode)} (h : Sorted held) (a : Nat × Mode) : Sorted (held.erase a) :=
  List.Pairwise.erase a h

theorem Sorted.eraseAll {held : List (Nat × Mode)} (h : Sorted held) (m : Mode) (xs : List Nat) :
    Sorted (eraseAll held m xs) := by
  induction xs generalizing held with
  | nil => exact h
  | cons x xs ih => exact ih (h.erase _)

theorem Sorted.unique {held : List (Nat × Mode)} (h : Sorted held) {a b : Nat × Mode}
    (ha : a ∈ held) (hb : b ∈ held) (he : a.1 = b.1) : a = b := by
  induction held with
  | nil => simp at ha
  | cons c l ih =>
    have hc := List.pairwise_cons.mp h
    rcases List.mem_cons.mp ha with rfl | ha' <;> rcases List.mem_cons.mp hb with rfl | hb'
    · rfl
    · have := hc.1 b hb'; omega
    · have := hc.1 a ha'; omega
    · exact ih hc.2 ha' hb'

theorem Sorted.nodup {held : List (Nat × Mode)} (h : Sorted held) : held.Nodup := by
  induction held with
  | nil => exact List.nodup_nil
  | cons c l ih =>
    have hc := List.pairwise_cons.mp h
    refine List.nodup_cons.mpr ⟨?_, ih hc.2⟩
    intro hm
    have := hc.1 c hm
    omega

/-- after erasing its entry, an entity does not occur any more -/
theorem Sorted.not_mem_erase {held : List (Nat × Mode)} (h : Sorted held) {x : Nat} {m : Mode}
    (hm : (x, m) ∈ held) : ∀ b ∈ held.erase (x, m), b.1 ≠ x := by
  intro b hb he
  have hb' := List.mem_of_mem_erase hb
  have : b = (x, m) := h.unique hb' hm he
  subst this
  exact h.nodup.not_mem_erase hb

theorem below_mem {held : List (Nat × Mode)} {x : Nat} (hb : below held x = true) :
    ∀ b ∈ held, b.1 < x := by
  simp only [below, List.all_eq_true, decide_eq_true_eq] at hb
  exact hb

/-! ## per-goroutine bookkeeping -/

def isInner (t : CTh) : Bool := match t.ctl with | .inner _ => true | _ => false
def inA (t : CTh) (o : Nat) : Bool := isInner t && t.cur == o
def cW (t : CTh) (o : Nat) : Nat := t.held.countP (fun h => h.2 == .w && t.hobj h.1 == o)
def cR (t : CTh) (o : Nat) : Nat := t.held.countP (fun h => h.2 == .r && t.hobj h.1 == o)
/-- objects whose `RUnlock` is still to come -/
def pend (t : CTh) : List Nat := match t.ctl with | .inner (.ru rest _) => rest | _ => []
/-- entities given up by the `Unlock`/`RUnlock` the goroutine is in (erased from `held`) whose registration is
still in place: the unregistration is the last thing these methods do -/
def unrg (t : CTh) : List Nat :=
  match t.ctl with
  | .inner (.ru _ ids) => ids
  | .inner (.ul x) => [x]
  | .unregA x | .unregC x => [x]
  | .runregA ids | .runregC ids => ids
  | _ => []
def restPairs (t : CTh) : List (Nat × Nat) := match t.ctl with | .inner (.rl rest) => rest | _ => []
def restEnts (t : CTh) : List Nat := (restPairs t).map (·.1)
/-- registered for `curEnt` and still acquiring it -/
def acq (t : CTh) : Bool := isInner t && (t.iop == .lock || t.iop == .rlock)
/-- registrations of the goroutine for entity x -/
def regc (x : Nat) (t : CTh) : Nat :=
  t.held.countP (fun h => h.1 == x) + (if acq t = true ∧ t.curEnt = x then 1 else 0) + (restEnts t).count x
    + (unrg t).count x

def bonusR (t : CTh) (o : Nat) : Nat := if inA t o = true ∧ t.iop = .rlock then 1 else 0
def bonusW (t : CTh) (o : Nat) : Bool := inA t o && t.iop == .lock

/-- Link between the DAG-level bookkeeping and the goroutine's view of every monitor: what the goroutine
will hold on object `o` once the StarvingMutex method it is in has returned (`after`) is what `held` records
for `o`, plus the read locks whose `RUnlock` is still to come, plus the lock it is acquiring. -/
structure LK (t : CTh) : Prop where
  eq : ∀ o, after (proj o t) = (cR t o + (pend t).count o + bonusR t o, decide (0 < cW t o) || bonusW t o)
  dis : ∀ o, (inA t o = true ∨ o ∈ pend t) → cR t o = 0 ∧ cW t o = 0
  nin : ∀ o, inA t o = true → o ∉ pend t
  pnd : (pend t).Nodup

/-- The continuation fits the method being executed. -/
def KOk (t : CTh) : Prop :=
  match t.ctl with
  | .inner k =>
    match t.iop with
    | .lock => k = .done
    | .unlock => ∃ x, k = .ul x
    | .rlock => ∃ rest, k = .rl rest
    | .runlock => ∃ rest ids, k = .ru rest ids
  | _ => True

/-- Script discipline (ordered acquisition, bracketed releases) at every control point. -/
def SI (t : CTh) : Prop :=
  match t.ctl with
  | .idle => okD t.held t.script = true
  | .lockA x | .lockC x => below t.held x = true ∧ okD ((x, .w) :: t.held) t.script = true
  | .rlockA xs | .rlockC xs => chain t.held xs = true ∧ okD (pushAll t.held xs) t.script = true
  | .unlockA x | .unlockC x => (x, Mode.w) ∈ t.held ∧ okD (t.held.erase (x, .w)) t.script = true
  | .runlockA xs | .runlockC xs => allHeld t.held .r xs = true ∧ okD (eraseAll t.held .r xs) t.script = true
  | .unregA _ | .unregC _ | .runregA _ | .runregC _ => okD t.held t.script = true
  | .inner _ =>
    match t.iop with
    | .lock => below t.held t.curEnt = true ∧ okD ((t.curEnt, .w) :: t.held) t.script = true
    | .rlock => chain t.held (t.curEnt :: restEnts t) = true ∧
        okD (pushAll t.held (t.curEnt :: restEnts t)) t.script = true
    | .unlock | .runlock => okD t.held t.script = true
  | .dead => False

/-- Link between the goroutine and the registry. -/
structure TL (s : CSh) (t : CTh) : Prop where
  t1 : ∀ h ∈ t.held, s.ent h.1 = some (t.hobj h.1)
  t2 : acq t = true → s.ent t.curEnt = some t.cur
  t3 : ∀ p ∈ restPairs t, s.ent p.1 = some p.2

structure TInv (s : CSh) (t : CTh) : Prop where
  ci : isInner t = false → t.ipc = .idle
  ko : KOk t
  lk : LK t
  si : SI t
  so : Sorted t.held
  tl : TL s t
  nd : (unrg t).Nodup

def fDm (t : CTh) : Nat :=
  match t.ctl with | .lockC _ | .rlockC _ | .unlockC _ | .runlockC _ | .unregC _ | .runregC _ => 1 | _ => 0

/-- Registry well-formedness. -/
structure RW (s : CSh) : Prop where
  z : ∀ x, s.cnt x = 0 ↔ s.ent x = none
  lt : ∀ x o, s.ent x = some o → o < s.next
  inj : ∀ x y o, s.ent x = some o → s.ent y = some o → x = y

structure CInv (s : CSh) (ts : List CTh) : Prop where
  obj : ∀ o, WInv (s.heap o) (ts.map (proj o))
  dm : (if s.dm then 1 else 0) = sumL fDm ts
  cnt : ∀ x, s.cnt x = sumL (regc x) ts
  rw : RW s
  th : ∀ t ∈ ts, TInv s t

/-! ## the registry operations -/

theorem upd_eq {α : Type} (f : Nat → α) (x y : Nat) (v : α) : upd f x v y = if y = x then v else f y := rfl

structure RegSpec (s : CSh) (xs : List Nat) (s' : CSh) : Prop where
  rw : RW s'
  mono : ∀ y o, s.ent y = some o → s'.ent y = some o
  cnt : ∀ y, s'.cnt y = s.cnt y + xs.count y
  heap : s'.heap = s.heap
  dm : s'.dm = s.dm
  nx : s.next ≤ s'.next

theorem regOne_spec (s : CSh) (x : Nat) (hrw : RW s) :
    RegSpec s [x] (regOne s x).1 ∧ (regOne s x).1.ent x = some (regOne s x).2 := by
  cases he : s.ent x with
  | some o =>
    simp only [regOne, he]
    refine ⟨⟨⟨?_, hrw.lt, hrw.inj⟩, fun _ _ h => h, ?_, rfl, rfl, Nat.le_refl _⟩, trivial⟩
    · intro y
      simp only [upd_eq]
      by_cases hy : y = x
      · subst hy; simp [he]
      · simp [hy]; exact hrw.z y
    · intro y
      simp only [upd_eq, List.count_cons, List.count_nil]
      by_cases hy : y = x
      · subst hy; simp
      · have : ¬ x = y := fun h => hy h.symm
        simp [hy, this]
  | none =>
    simp only [regOne, he]
    refine ⟨⟨⟨?_, ?_, ?_⟩, ?_, ?_, rfl, rfl, Nat.le_succ _⟩, by simp [upd_eq]⟩
    · intro y
      simp only [upd_eq]
      by_cases hy : y = x
      · subst hy; simp
      · simp [hy]; exact hrw.z y
    · intro y o h
      simp only [upd_eq] at h
      by_cases hy : y = x
      · simp [hy] at h; show o < s.next + 1; omega
      · simp [hy] at h; have := hrw.lt y o h; show o < s.next + 1; omega
    · intro y z o h1 h2
      simp only [upd_eq] at h1 h2
      by_cases hy : y = x <;> by_cases hz : z = x
      · rw [hy, hz]
      · simp [hy] at h1; simp [hz] at h2; have := hrw.lt z o h2; omega
      · simp [hy] at h1; simp [hz] at h2; have := hrw.lt y o h1; omega
      · simp [hy] at h1; simp [hz] at h2; exact hrw.inj y z o h1 h2
    · intro y o h
      simp only [upd_eq]
      by_cases hy : y = x
      · subst hy; rw [he] at h; cases h
      · simp [hy, h]
    · intro y
      simp only [upd_eq, List.count_cons, List.count_nil]
      by_cases hy : y = x
      · subst hy; simp
      · have : ¬ x = y := fun h => hy h.symm
        simp [hy, this]

theorem regAll_spec : ∀ (xs : List Nat) (s : CSh), RW s →
    RegSpec s xs (regAll s xs).1 ∧ (∀ p ∈ (regAll s xs).2, (regAll s xs).1.ent p.1 = some p.2) ∧
      (regAll s xs).2.map (·.1) = xs := by
  intro xs
  induction xs with
  | nil =>
    intro s h
    exact ⟨⟨h, fun _ _ h => h, fun _ => by simp [regAll], rfl, rfl, Nat.le_refl _⟩, by simp [regAll], by simp [regAll]⟩
  | cons x xs ih =>
    intro s h
    obtain ⟨h1, e1⟩ := regOne_spec s x h
    obtain ⟨h2, e2, e3⟩ := ih (regOne s x).1 h1.rw
    simp only [regAll]
    refine ⟨⟨h2.rw, fun y o hy => h2.mono y o (h1.mono y o hy), ?_, ?_, ?_, Nat.le_trans h1.nx h2.nx⟩, ?_, ?_⟩
    · intro y
      rw [h2.cnt, h1.cnt]
      simp only [List.count_cons, List.count_nil]
      omega
    · rw [h2.heap, h1.heap]
    · rw [h2.dm, h1.dm]
    · intro p hp
      rcases List.mem_cons.mp hp with rfl | hp'
      · exact h2.mono _ _ e1
      · exact e2 p hp'
    · simp [e3]

structure UnregSpec (s : CSh) (xs : List Nat) (s' : CSh) : Prop where
  rw : RW s'
  ent : ∀ y, s'.ent y = if y ∈ xs ∧ s.cnt y = 1 then none else s.ent y
  cnt : ∀ y, s'.cnt y = s.cnt y - xs.count y
  heap : s'.heap = s.heap
  dm : s'.dm = s.dm
  nx : s'.next = s.next

theorem unregOne_spec (s : CSh) (x o : Nat) (hrw : RW s) (he : s.ent x = some o) :
    ∃ s', unregOne s x = some (s', o) ∧ UnregSpec s [x] s' := by
  have hc : s.cnt x ≠ 0 := fun h => by have := (hrw.z x).mp h; rw [he] at this; cases this
  unfold unregOne
  rw [he]
  by_cases h1 : s.cnt x = 1
  · simp only [h1, if_true]
    refine ⟨_, rfl, ⟨?_, ?_, ?_⟩, ?_, ?_, rfl, rfl, rfl⟩
    · intro y
      simp only [upd_eq]
      by_cases hy : y = x
      · subst hy; simp
      · simp [hy]; exact hrw.z y
    · intro y o' h
      simp only [upd_eq] at h
      by_cases hy : y = x
      · simp [hy] at h
      · simp [hy] at h; exact hrw.lt y o' h
    · intro y z o' h1' h2'
      simp only [upd_eq] at h1' h2'
      by_cases hy : y = x
      · simp [hy] at h1'
      · by_cases hz : z = x
        · simp [hz] at h2'
        · simp [hy] at h1'; simp [hz] at h2'; exact hrw.inj y z o' h1' h2'
    · intro y
      simp only [upd_eq, List.mem_singleton]
      by_cases hy : y = x
      · subst hy; simp [h1]
      · simp [hy]
    · intro y
      simp only [upd_eq, List.count_cons, List.count_nil]
      by_cases hy : y = x
      · subst hy; simp [h1]
      · have : ¬ x = y := fun h => hy h.symm
        simp [hy, this]
  · simp only [h1, if_false]
    refine ⟨_, rfl, ⟨?_, hrw.lt, hrw.inj⟩, ?_, ?_, rfl, rfl, rfl⟩
    · intro y
      simp only [upd_eq]
      by_cases hy : y = x
      · subst hy; simp [he]; omega
      · simp [hy]; exact hrw.z y
    · intro y
      simp only [List.mem_singleton]
      by_cases hy : y = x
      · subst hy; simp [h1]
      · simp [hy]
    · intro y
      simp only [upd_eq, List.count_cons, List.count_nil]
      by_cases hy : y = x
      · subst hy; simp
      · have : ¬ x = y := fun h => hy h.symm
        simp [hy, this]

theorem unregAll_spec : ∀ (xs : List Nat) (s : CSh), RW s → xs.Nodup → (∀ x ∈ xs, s.ent x ≠ none) →
    ∃ s', unregAll s xs = some (s', xs.map (fun x => (s.ent x).getD 0)) ∧ UnregSpec s xs s' := by
  intro xs
  induction xs with
  | nil =>
    intro s h _ _
    exact ⟨s, rfl, h, fun _ => by simp, fun _ => by simp, rfl, rfl, rfl⟩
  | cons x xs ih =>
    intro s h hnd hne
    have hx := List.nodup_cons.mp hnd
    cases he : s.ent x with
    | none => exact absurd he (hne x (by simp))
    | some o =>
      obtain ⟨s1, e1, u1⟩ := unregOne_spec s x o h he
      have hne1 : ∀ y ∈ xs, s1.ent y ≠ none := by
        intro y hy
        rw [u1.ent]
        have : y ≠ x := fun h => hx.1 (h ▸ hy)
        simp [this]
        exact hne y (by simp [hy])
      obtain ⟨s2, e2, u2⟩ := ih s1 u1.rw hx.2 hne1
      refine ⟨s2, ?_, u2.rw, ?_, ?_, ?_, ?_, ?_⟩
      · have hmap : xs.map (fun x => (s1.ent x).getD 0) = xs.map (fun x => (s.ent x).getD 0) := by
          apply List.map_congr_left
          intro y hy
          rw [u1.ent]
          have : y ≠ x := fun h => hx.1 (h ▸ hy)
          simp [this]
        simp only [unregAll, e1, e2, List.map_cons, he, Option.getD_some, hmap]
      · intro y
        rw [u2.ent, u1.ent, u1.cnt]
        by_cases hy : y = x
        · subst hy
          have : y ∉ xs := hx.1
          simp [this]
        · have : ¬ x = y := fun h => hy h.symm
          simp [hy, this]
      · intro y
        rw [u2.cnt, u1.cnt]
        simp only [List.count_cons, List.count_nil]
        omega
      · rw [u2.heap, u1.heap]
      · rw [u2.dm, u1.dm]
      · rw [u2.nx, u1.nx]

/-- `lookupMutexes` succeeds on distinct registered ids and returns their objects. -/
theorem lookAll_spec (s : CSh) (hrw : RW s) (f : Nat → Nat) : ∀ (xs seen : List Nat), xs.Nodup →
    (∀ x ∈ xs, x ∉ seen) → (∀ x ∈ xs, s.ent x = some (f x)) → lookAll s seen xs = some (xs.map f) := by
  intro xs
  induction xs with
  | nil => intro _ _ _ _; rfl
  | cons x xs ih =>
    intro seen hnd hseen hent
    have hx := List.nodup_cons.mp hnd
    have he := hent x (by simp)
    have hc : s.cnt x ≠ 0 := fun h => by have := (hrw.z x).mp h; rw [he] at this; cases this
    have h0 : seen.count x = 0 := List.count_eq_zero.mpr (hseen x (by simp))
    have ih' := ih (x :: seen) hx.2
      (fun y hy => by
        intro hm
        rcases List.mem_cons.mp hm with rfl | hm
        · exact hx.1 hy
        · exact hseen y (by simp [hy]) hm)
      (fun y hy => hent y (by simp [hy]))
    have hle : seen.count x + 1 ≤ s.cnt x := by omega
    simp only [lookAll, he, hle, if_true, ih', List.map_cons]

end Hive.SyncMutex.Comp
