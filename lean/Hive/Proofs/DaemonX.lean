import Hive.Model.DaemonX
import Hive.Proofs.DaemonRun
/-!
# The extension layer of the daemon model refines the base model (C20)

* `Frame s s'`: what a base step that is not a step of the `stopOnce` body leaves alone (the program point of the
  body — except for entering it —, the stopped flag, the cancellation marks of the worker contexts).
  `step_frame_or_body`: every base step is such a step or a step of the body.
* `InvX`: the stopped context is cancelled only after the stopped flag was stored (`sd` past `taken`), it is
  cancelled once the body is past `stoppedSet`, and no worker context is cancelled before it.
* `reachX_base`: a run of the extension layer (stopped context, context pollers, handlers that call back into the
  daemon) projects to a run of the base model over the projected thread pool, and `InvX` holds.
-/
namespace Hive.Daemon
open Hive.Conc

structure Frame (s s' : St) : Prop where
  sd : s'.sd = s.sd ∨ (s.sd = .idle ∧ s'.sd = .taken)
  stopped : s'.stopped = s.stopped
  canc : ∀ i, (s'.objs i).cancelled = true → (s.objs i).cancelled = true

theorem frame_congr {s s' : St} (h1 : s'.sd = s.sd) (h2 : s'.stopped = s.stopped) (h3 : s'.objs = s.objs) :
    Frame s s' :=
  ⟨Or.inl h1, h2, fun i h => by rw [h3] at h; exact h⟩

theorem frame_refl (s : St) : Frame s s := frame_congr rfl rfl rfl

theorem frame_trans {a b c : St} (h1 : Frame a b) (h2 : Frame b c) : Frame a c := by
  refine ⟨?_, h2.stopped.trans h1.stopped, fun i h => h1.canc i (h2.canc i h)⟩
  rcases h1.sd with e1 | ⟨e1, e1'⟩
  · rcases h2.sd with e2 | ⟨e2, e2'⟩
    · exact Or.inl (e2.trans e1)
    · exact Or.inr ⟨e1 ▸ e2, e2'⟩
  · rcases h2.sd with e2 | ⟨e2, _⟩
    · exact Or.inr ⟨e1, e2.trans e1'⟩
    · rw [e1'] at e2; cases e2

theorem frame_setObj {s s1 : St} {i : Nat} {w' : Wk} (hc : w'.cancelled = true → (s.objs i).cancelled = true)
    (h1 : s1.sd = s.sd) (h2 : s1.stopped = s.stopped) (h3 : s1.objs = (setObj s i w').objs) : Frame s s1 := by
  refine ⟨Or.inl h1, h2, ?_⟩
  intro j hj
  rw [h3] at hj
  by_cases hji : j = i
  · subst hji; rw [setObj_objs_same] at hj; exact hc hj
  · rw [setObj_objs_ne _ _ _ _ hji] at hj; exact hj

theorem frame_wkStep {s s' : St} {i : Nat} (hs : s' ∈ wkStep s i) : Frame s s' := by
  unfold wkStep at hs
  by_cases hi : i < s.n
  · simp only [hi, if_true] at hs
    cases hpc : (s.objs i).pc with
    | reg => simp [hpc] at hs
    | fin => simp [hpc] at hs
    | run =>
      simp only [hpc, List.mem_append, List.mem_singleton] at hs
      rcases hs with hs | hs
      · subst hs
        exact frame_setObj (i := i) (w' := { s.objs i with pc := .ret }) (fun h => h) rfl rfl rfl
      · split at hs
        · simp only [List.mem_singleton] at hs
          subst hs
          exact frame_setObj (i := i) (w' := ⟨(s.objs i).name, (s.objs i).order, .run, (s.objs i).cancelled, true⟩) (fun h => h) rfl rfl rfl
        · simp at hs
    | ret =>
      simp only [hpc, List.mem_singleton] at hs
      subst hs
      exact frame_setObj (i := i) (w' := { s.objs i with pc := .dn }) (fun h => h) rfl rfl rfl
    | dn =>
      simp only [hpc] at hs
      split at hs <;> (simp only [List.mem_singleton] at hs; subst hs) <;>
        exact frame_setObj (i := i) (w' := { s.objs i with pc := .cl }) (fun h => h) rfl rfl rfl
    | cl =>
      simp only [hpc, List.mem_singleton] at hs
      subst hs
      exact frame_setObj (i := i) (w' := { s.objs i with pc := .fin }) (fun h => h) rfl rfl rfl
  · simp [hi] at hs

theorem frame_spawn1 (s : St) (i : Nat) : Frame s (spawn1 s i) := by
  by_cases hpc : (s.objs i).pc = .reg
  · rw [spawn1_reg hpc]
    exact frame_setObj (i := i) (w' := { s.objs i with pc := .run }) (fun h => h) rfl rfl rfl
  · rw [spawn1_not_reg hpc]; exact frame_refl s

theorem frame_spawnAll (l : List Nat) : ∀ (s : St), Frame s (l.foldl spawn1 s) := by
  induction l with
  | nil => intro s; exact frame_refl s
  | cons i l ih =>
    intro s
    simp only [List.foldl_cons]
    exact frame_trans (frame_spawn1 s i) (ih _)

theorem frame_startCrit (s : St) : Frame s (startCrit true s) := by
  by_cases hst : s.stopped = true
  · rw [startCrit_stopped hst]; exact frame_refl s
  · by_cases hr : s.running = true
    · rw [startCrit_running hr]; exact frame_refl s
    · have hst' : s.stopped = false := by simpa using hst
      have hr' : s.running = false := by simpa using hr
      rw [startCrit_go hst' hr']
      exact frame_trans (frame_congr (s' := { s with running := true }) rfl rfl rfl) (frame_spawnAll _ _)

theorem frame_regState (s : St) (c name : Nat) (order : Int) (l : List Nat) :
    Frame s (regState s c name order l) := by
  refine ⟨Or.inl rfl, rfl, ?_⟩
  intro j hj
  by_cases hjn : j = s.n
  · subst hjn; rw [regState_objs_n] at hj; cases hj
  · have : (regState s c name order l).objs j = s.objs j := by
      show (if j = s.n then _ else s.objs j) = s.objs j
      simp [hjn]
    rw [this] at hj; exact hj

theorem frame_bwCrit {s s' : St} {c name : Nat} {order : Int} (hs : s' ∈ bwCrit true s c name order) :
    Frame s s' := by
  have hreg : ∀ base, s' ∈ register s c name order base → Frame s s' := by
    intro base hb
    obtain ⟨l, _, rfl⟩ := mem_register hb
    split
    · exact frame_trans (frame_regState s c name order l) (frame_spawn1 _ _)
    · exact frame_regState s c name order l
  have hem : ∀ e : Ev, Frame s (emit e s) := fun e => frame_congr rfl rfl rfl
  unfold bwCrit at hs
  split at hs
  · simp at hs; subst hs; exact hem _
  · split at hs
    · simp at hs; subst hs; exact hem _
    · split at hs
      · split at hs
        · simp at hs; subst hs; exact hem _
        · split at hs
          · simp at hs; subst hs; exact hem _
          · exact hreg _ hs
      · exact hreg _ hs

/-- Every base step is a step that leaves the shutdown alone, or a step of the `stopOnce` body. -/
theorem step_frame_or_body {s s' : St} {t t' : Th} (hs : (s', t') ∈ step true true s t) :
    Frame s s' ∨ (∃ c, t = .sd c .body ∧ t' = .sd c .body ∧ s' ∈ sdBody s) := by
  have hem : ∀ e : Ev, Frame s (emit e s) := fun e => frame_congr rfl rfl rfl
  cases t with
  | bw c name order pc =>
    left
    cases pc with
    | call =>
      simp only [step] at hs
      split at hs <;> (simp only [List.mem_singleton, Prod.mk.injEq] at hs; obtain ⟨rfl, _⟩ := hs)
      · exact frame_congr rfl rfl rfl
      · exact hem _
    | passed =>
      simp only [step, List.mem_map] at hs
      obtain ⟨s1, hs1, heq⟩ := hs
      injection heq with h1 _
      subst h1
      exact frame_bwCrit hs1
    | fin => simp [step] at hs
  | starter pc =>
    left
    cases pc with
    | call =>
      simp only [step] at hs
      split at hs <;> (simp only [List.mem_singleton, Prod.mk.injEq] at hs; obtain ⟨rfl, _⟩ := hs) <;>
        exact frame_refl _
    | passed =>
      simp only [step, List.mem_singleton, Prod.mk.injEq] at hs
      obtain ⟨rfl, _⟩ := hs
      exact frame_startCrit _
    | fin => simp [step] at hs
  | wk i =>
    left
    simp only [step, List.mem_map] at hs
    obtain ⟨s1, hs1, heq⟩ := hs
    injection heq with h1 _
    subst h1
    exact frame_wkStep hs1
  | sd c pc =>
    cases pc with
    | call =>
      left
      simp only [step, List.mem_singleton, Prod.mk.injEq] at hs
      obtain ⟨rfl, _⟩ := hs
      exact hem _
    | enter =>
      left
      simp only [step] at hs
      cases hsd : s.sd with
      | idle =>
        simp only [hsd, List.mem_singleton, Prod.mk.injEq] at hs
        obtain ⟨rfl, _⟩ := hs
        exact ⟨Or.inr ⟨hsd, rfl⟩, rfl, fun i h => h⟩
      | _ =>
        simp only [hsd, List.mem_singleton, Prod.mk.injEq] at hs
        obtain ⟨rfl, _⟩ := hs
        exact frame_refl _
    | body =>
      simp only [step] at hs
      cases hsd : s.sd with
      | done =>
        left
        simp only [hsd, List.mem_singleton, Prod.mk.injEq] at hs
        obtain ⟨rfl, _⟩ := hs
        exact hem _
      | _ =>
        right
        simp only [hsd, List.mem_map] at hs
        obtain ⟨s1, hs1, heq⟩ := hs
        injection heq with h1 h2
        subst h1
        exact ⟨c, rfl, h2.symm, hs1⟩
    | blocked =>
      left
      simp only [step] at hs
      cases hsd : s.sd with
      | done =>
        simp only [hsd, List.mem_singleton, Prod.mk.injEq] at hs
        obtain ⟨rfl, _⟩ := hs
        exact hem _
      | _ => simp [hsd] at hs
    | fin => simp [step] at hs
  | watcher =>
    left
    simp only [step] at hs
    split at hs
    · simp only [List.mem_singleton, Prod.mk.injEq] at hs
      obtain ⟨rfl, _⟩ := hs
      exact hem _
    · simp at hs
  | runner c pc =>
    left
    cases pc with
    | call =>
      simp only [step] at hs
      split at hs <;> (simp only [List.mem_singleton, Prod.mk.injEq] at hs; obtain ⟨rfl, _⟩ := hs) <;>
        exact hem _
    | passed =>
      simp only [step, List.mem_singleton, Prod.mk.injEq] at hs
      obtain ⟨rfl, _⟩ := hs
      exact frame_startCrit _
    | started =>
      simp only [step, if_true] at hs
      split at hs
      · simp only [List.mem_singleton, Prod.mk.injEq] at hs
        obtain ⟨rfl, _⟩ := hs
        exact hem _
      · simp at hs
    | waiting keys => cases keys <;> simp [step] at hs
    | fin => simp [step] at hs

/-! ## the `stopOnce` body -/

/-- What a step of the body does to its program point, the stopped flag and the worker contexts. -/
theorem sdBody_effect {s s' : St} (hs : s' ∈ sdBody s) :
    s'.sd ≠ .idle ∧ s'.sd ≠ .taken ∧ (s.stopped = true → s'.stopped = true) ∧
      (s.sd = .taken → s'.sd = .stoppedSet ∧ s'.objs = s.objs) ∧
      (s.sd = .stoppedSet → s'.objs = s.objs) := by
  unfold sdBody at hs
  cases hsd : s.sd with
  | idle => simp [hsd] at hs
  | done => simp [hsd] at hs
  | taken =>
    simp only [hsd, List.mem_singleton] at hs; subst hs
    simp
  | stoppedSet =>
    simp only [hsd] at hs
    split at hs <;> (simp only [List.mem_singleton] at hs; subst hs) <;> simp
  | snap =>
    simp only [hsd] at hs
    split at hs <;> (simp only [List.mem_singleton] at hs; subst hs) <;> simp
  | loop prev todo =>
    cases todo with
    | nil =>
      simp only [hsd, List.mem_singleton] at hs; subst hs
      simp
    | cons hd rest =>
      simp only [hsd] at hs
      split at hs
      · simp only [List.mem_singleton] at hs; subst hs; simp [cancelW]
      · split at hs
        · simp only [List.mem_singleton] at hs; subst hs; simp
        · simp only [List.mem_singleton] at hs; subst hs; simp [cancelW]
  | waitMid prev todo =>
    simp only [hsd] at hs
    split at hs
    · cases todo with
      | nil => simp only [List.mem_singleton] at hs; subst hs; simp
      | cons hd rest => simp only [List.mem_singleton] at hs; subst hs; simp
    · simp at hs
  | waitLast prev =>
    simp only [hsd] at hs
    split at hs
    · simp only [List.mem_singleton] at hs; subst hs; simp
    · simp at hs
  | unrun =>
    simp only [hsd, List.mem_singleton] at hs; subst hs
    simp
  | clr =>
    simp only [hsd, List.mem_singleton] at hs; subst hs
    simp

/-! ## the invariant of the extension layer -/

structure InvX (x : StX) : Prop where
  /-- the context is cancelled only after the stopped flag was stored -/
  after : x.ctxDone = true → x.base.sd ≠ .idle ∧ x.base.sd ≠ .taken
  /-- … and before the body reads `IsRunning()`, hence before `stopWorkers` -/
  before : x.base.sd ≠ .idle → x.base.sd ≠ .taken → x.base.sd ≠ .stoppedSet → x.ctxDone = true
  /-- no worker context is cancelled before the stopped context -/
  nocanc : x.ctxDone = false → ∀ i, (x.base.objs i).cancelled = false

theorem invX_init : InvX initX := by
  constructor <;> simp [initX, init, blank]

theorem invX_frame {x : StX} {s' : St} (h : InvX x) (hf : Frame x.base s') : InvX ⟨s', x.ctxDone⟩ := by
  constructor
  · intro hc
    have := h.after hc
    rcases hf.sd with e | ⟨e, _⟩
    · simpa [e] using this
    · exact absurd e this.1
  · intro n1 n2 n3
    rcases hf.sd with e | ⟨_, e'⟩
    · exact h.before (e ▸ n1) (e ▸ n2) (e ▸ n3)
    · exact absurd e' n2
  · intro hc i
    cases hci : (s'.objs i).cancelled with
    | false => rfl
    | true => have := hf.canc i hci; rw [h.nocanc hc i] at this; cases this

theorem invX_body {x : StX} {s' : St} (h : InvX x) (hs : s' ∈ sdBody x.base)
    (hgo : x.base.sd = .stoppedSet → x.ctxDone = true) : InvX ⟨s', x.ctxDone⟩ := by
  obtain ⟨e1, e2, _, e4, e5⟩ := sdBody_effect hs
  by_cases htk : x.base.sd = .taken
  · obtain ⟨e41, e42⟩ := e4 htk
    have hcf : x.ctxDone = false := by
      cases hc : x.ctxDone with
      | false => rfl
      | true => exact absurd htk (h.after hc).2
    constructor
    · intro hc; rw [hcf] at hc; cases hc
    · intro _ _ n3; exact absurd e41 n3
    · intro hc i; show (s'.objs i).cancelled = false; rw [e42]; exact h.nocanc hc i
  · have hct : x.ctxDone = true := by
      by_cases hss : x.base.sd = .stoppedSet
      · exact hgo hss
      · apply h.before _ htk hss
        intro hid
        unfold sdBody at hs
        simp [hid] at hs
    constructor
    · intro _; exact ⟨e1, e2⟩
    · intro _ _ _; exact hct
    · intro hc; rw [hct] at hc; cases hc

/-- A lifted base step is a stutter of the base state (the cancellation of the stopped context) or a base step. -/
theorem liftStep_cases {x x' : StX} {t t' : Th} (hs : (x', t') ∈ liftStep x t) :
    (x'.base = x.base ∧ t' = t ∧ x'.ctxDone = true ∧ x.base.sd = .stoppedSet ∧ ∃ c, t = .sd c .body) ∨
      ((x'.base, t') ∈ step true true x.base t ∧ x'.ctxDone = x.ctxDone ∧
        ((∃ c, t = .sd c .body) → x.base.sd = .stoppedSet → x.ctxDone = true)) := by
  unfold liftStep at hs
  split at hs
  · rename_i c hsd hcd
    left
    simp only [List.mem_singleton, Prod.mk.injEq] at hs
    obtain ⟨rfl, rfl⟩ := hs
    exact ⟨rfl, rfl, rfl, hsd, c, rfl⟩
  · rename_i hne
    right
    simp only [List.mem_map] at hs
    obtain ⟨p, hp, heq⟩ := hs
    injection heq with h1 h2
    subst h1 h2
    refine ⟨hp, rfl, ?_⟩
    rintro ⟨c, rfl⟩ hsd
    cases hcd : x.ctxDone with
    | true => rfl
    | false => exact absurd hcd (by intro h'; exact hne c rfl hsd h')

theorem liftStep_wk {x x' : StX} {i : Nat} {t' : Th} (hs : (x', t') ∈ liftStep x (.wk i)) : t' = .wk i := by
  rcases liftStep_cases hs with ⟨_, e, _⟩ | ⟨hstep, _⟩
  · exact e
  · simp only [step, List.mem_map] at hstep
    obtain ⟨_, _, heq⟩ := hstep
    injection heq with _ h2
    exact h2.symm

theorem invX_lift {x x' : StX} {t t' : Th} (h : InvX x) (hs : (x', t') ∈ liftStep x t) : InvX x' := by
  rcases liftStep_cases hs with ⟨e1, _, e3, e4, _⟩ | ⟨hstep, e2, hgo⟩
  · constructor
    · intro _; rw [e1, e4]; simp
    · intro _ _ _; exact e3
    · intro hc; rw [e3] at hc; cases hc
  · have hx' : x' = ⟨x'.base, x.ctxDone⟩ := by cases x'; simp at e2; simp [e2]
    rw [hx']
    rcases step_frame_or_body hstep with hf | ⟨c, rfl, _, hb⟩
    · exact invX_frame h hf
    · exact invX_body h hb (hgo ⟨c, rfl⟩)

/-! ## projection to the base model -/

/-- A step of the extension layer, seen from the base model: nothing happens to the base state and the projected
threads, or one of the projected threads takes a base step. -/
def ProjStep (x x' : StX) (t t' : ThX) : Prop :=
  (x'.base = x.base ∧ proj t' = proj t) ∨
    ∃ a b u u', proj t = a ++ u :: b ∧ proj t' = a ++ u' :: b ∧ (x'.base, u') ∈ step true true x.base u

theorem projStep_lift {x x' : StX} {u u' : Th} (hs : (x', u') ∈ liftStep x u) (a b : List Th)
    {t t' : ThX} (h1 : proj t = a ++ u :: b) (h2 : proj t' = a ++ u' :: b) : ProjStep x x' t t' := by
  rcases liftStep_cases hs with ⟨e1, e2, _⟩ | ⟨hstep, _⟩
  · left; subst e2; exact ⟨e1, h2.trans h1.symm⟩
  · right; exact ⟨a, b, u, u', h1, h2, hstep⟩

theorem liftStep_mono {x x' : StX} {t t' : Th} (hs : (x', t') ∈ liftStep x t) (hc : x.ctxDone = true) :
    x'.ctxDone = true := by
  rcases liftStep_cases hs with ⟨_, _, e, _⟩ | ⟨_, e, _⟩
  · exact e
  · rw [e]; exact hc

/-- The stopped flag is never cleared. -/
theorem step_stopped_mono {s s' : St} {t t' : Th} (hs : (s', t') ∈ step true true s t) (h : s.stopped = true) :
    s'.stopped = true := by
  rcases step_frame_or_body hs with hf | ⟨_, _, _, hb⟩
  · rw [hf.stopped]; exact h
  · exact (sdBody_effect hb).2.2.1 h

theorem projStep_stopped_mono {x x' : StX} {t t' : ThX} (hp : ProjStep x x' t t') (h : x.base.stopped = true) :
    x'.base.stopped = true := by
  rcases hp with ⟨e, _⟩ | ⟨_, _, _, _, _, _, hstep⟩
  · rw [e]; exact h
  · exact step_stopped_mono hstep h

/-- The stopped context is never un-cancelled. -/
theorem stepX_ctx_mono {x x' : StX} {t t' : ThX} (hs : (x', t') ∈ stepX x t) (hc : x.ctxDone = true) :
    x'.ctxDone = true := by
  cases t with
  | plain u =>
    simp only [stepX, List.mem_map] at hs
    obtain ⟨p, hp, heq⟩ := hs
    injection heq with h1 _
    subst h1
    exact liftStep_mono hp hc
  | ctxw =>
    simp only [stepX, hc, if_true, List.mem_singleton, Prod.mk.injEq] at hs
    obtain ⟨rfl, _⟩ := hs
    rfl
  | handler i done todo =>
    cases todo with
    | nil =>
      simp only [stepX, List.mem_map] at hs
      obtain ⟨p, hp, heq⟩ := hs
      injection heq with h1 _
      subst h1
      exact liftStep_mono hp hc
    | cons c rest =>
      simp only [stepX, List.mem_append] at hs
      rcases hs with hs | hs
      · split at hs
        · simp only [List.mem_map] at hs
          obtain ⟨p, hp, heq⟩ := hs
          injection heq with h1 _
          subst h1
          exact liftStep_mono hp hc
        · simp at hs
      · split at hs
        · simp only [List.mem_append, List.mem_map] at hs
          rcases hs with ⟨p, hp, heq⟩ | hs
          · injection heq with h1 _
            subst h1
            exact liftStep_mono hp hc
          · split at hs
            · simp only [List.mem_singleton, Prod.mk.injEq] at hs
              obtain ⟨rfl, _⟩ := hs
              exact hc
            · simp at hs
        · simp at hs

theorem stepX_inv_proj {x x' : StX} {t t' : ThX} (h : InvX x) (hst : x.ctxDone = true → x.base.stopped = true)
    (hs : (x', t') ∈ stepX x t) : InvX x' ∧ ProjStep x x' t t' := by
  cases t with
  | plain u =>
    simp only [stepX, List.mem_map] at hs
    obtain ⟨p, hp, heq⟩ := hs
    injection heq with h1 h2
    subst h1 h2
    exact ⟨invX_lift h hp, projStep_lift hp [] [] rfl rfl⟩
  | ctxw =>
    simp only [stepX] at hs
    split at hs
    · rename_i hc
      simp only [List.mem_singleton, Prod.mk.injEq] at hs
      obtain ⟨rfl, rfl⟩ := hs
      refine ⟨invX_frame h (frame_congr rfl rfl rfl), Or.inr ⟨[], [], .watcher, .watcher, rfl, rfl, ?_⟩⟩
      simp [step, hst hc]
    · simp at hs
  | handler i done todo =>
    cases todo with
    | nil =>
      simp only [stepX, List.mem_map] at hs
      obtain ⟨p, hp, heq⟩ := hs
      injection heq with h1 h2
      subst h1 h2
      have hw := liftStep_wk hp
      exact ⟨invX_lift h hp, projStep_lift hp [] (done.reverse ++ []) rfl (by rw [hw]; rfl)⟩
    | cons c rest =>
      simp only [stepX, List.mem_append] at hs
      rcases hs with hs | hs
      · split at hs
        · simp only [List.mem_map] at hs
          obtain ⟨p, hp, heq⟩ := hs
          injection heq with h1 h2
          subst h1 h2
          have hw := liftStep_wk hp
          exact ⟨invX_lift h hp, projStep_lift hp [] (done.reverse ++ c :: rest) rfl (by rw [hw]; rfl)⟩
        · simp at hs
      · split at hs
        · simp only [List.mem_append, List.mem_map] at hs
          rcases hs with ⟨p, hp, heq⟩ | hs
          · injection heq with h1 h2
            subst h1 h2
            refine ⟨invX_lift h hp, projStep_lift hp (.wk i :: done.reverse) rest ?_ ?_⟩ <;> simp [proj]
          · split at hs
            · simp only [List.mem_singleton, Prod.mk.injEq] at hs
              obtain ⟨rfl, rfl⟩ := hs
              refine ⟨h, Or.inl ⟨rfl, ?_⟩⟩
              simp [proj]
            · simp at hs
        · simp at hs

theorem projAll_mid (pre post : List ThX) (t : ThX) :
    projAll (pre ++ t :: post) = projAll pre ++ proj t ++ projAll post := by
  simp [projAll, List.flatMap_append, List.flatMap_cons]

/-- **Refinement.**  Every run of the extension layer is, projected, a run of the base model, and `InvX` holds. -/
theorem reachX_base {ts ts' : List ThX} {x : StX} (hr : Reach sysX (initX, ts) (x, ts')) :
    Reach (sys true true) (init, projAll ts) (x.base, projAll ts') ∧ InvX x := by
  have := inv_induction (S := sysX)
    (fun c => Reach (sys true true) (init, projAll ts) (c.1.base, projAll c.2) ∧ InvX c.1)
    (c0 := (initX, ts)) (c := (x, ts')) ⟨Reach.refl _, invX_init⟩
    (by
      intro a b ha hstep
      cases hstep with
      | mk s0 pre t post s1 t1 hmem =>
        obtain ⟨hreach, hinv⟩ := ha
        have hA : InvA s0.base := (inv_reach hreach).1
        have hst : s0.ctxDone = true → s0.base.stopped = true :=
          fun hc => hA.stopped_iff.mpr (hinv.after hc)
        obtain ⟨hinv', hp⟩ := stepX_inv_proj hinv hst hmem
        refine ⟨?_, hinv'⟩
        show Reach (sys true true) (init, projAll ts) (s1.base, projAll (pre ++ t1 :: post))
        have hreach' : Reach (sys true true) (init, projAll ts) (s0.base, projAll (pre ++ t :: post)) := hreach
        rcases hp with ⟨e1, e2⟩ | ⟨a, b, u, u', e1, e2, hstep⟩
        · rw [projAll_mid, e2, e1, ← projAll_mid]; exact hreach'
        · rw [projAll_mid, e1] at hreach'
          rw [projAll_mid, e2]
          have hs : Step (sys true true) (s0.base, (projAll pre ++ a) ++ u :: (b ++ projAll post))
              (s1.base, (projAll pre ++ a) ++ u' :: (b ++ projAll post)) :=
            Step.mk s0.base (projAll pre ++ a) u (b ++ projAll post) s1.base u' hstep
          have e3 : projAll pre ++ (a ++ u :: b) ++ projAll post = (projAll pre ++ a) ++ u :: (b ++ projAll post) := by
            simp
          have e4 : projAll pre ++ (a ++ u' :: b) ++ projAll post = (projAll pre ++ a) ++ u' :: (b ++ projAll post) := by
            simp
          rw [e3] at hreach'
          rw [e4]
          exact Reach.tail hreach' hs)
    hr
  exact this

end Hive.Daemon
