import Hive.Model.C12bIndexedStorage
import Hive.Proofs.C12bBase
/-! Refinement and invariants for the IndexedStorage model. -/
namespace Hive.C12b.IX
open AMap

def abs (s : St) : Spec :=
  { at_ := fun i => s.cache.get i,
    store := fun h => (s.stores.get h).map (fun m => fun k => m.get k),
    fresh := s.nextId }

theorem step_refines (s : St) (op : Op) :
    scalar (step s op).2 = (specStep (abs s) op).2 ∧ abs (step s op).1 = (specStep (abs s) op).1 := by
  cases op with
  | get i create =>
    cases hc : s.cache.get i with
    | some h => simp [step, specStep, abs, hc, scalar]
    | none =>
      cases create with
      | false => simp [step, specStep, abs, hc, scalar]
      | true =>
        simp only [step, specStep, abs, hc, scalar, if_true, true_and]
        congr 1
        · funext x; simp [get_set, upd]
        · funext x
          by_cases hx : x = s.nextId
          · subst hx; simp [get_set_self, upd]; funext k; rfl
          · simp [get_set_other _ _ hx, upd, hx]
  | evict i =>
    cases hc : s.cache.get i with
    | some h =>
      simp only [step, specStep, abs, hc, scalar, true_and]
      congr 1
      funext x; simp [get_del, upd]
    | none => simp [step, specStep, abs, hc, scalar]
  | forEach => simp [step, specStep, abs, scalar]
  | clear => simp [step, specStep, abs, scalar]; funext x; rfl
  | sset h k v =>
    cases hs : s.stores.get h with
    | none => simp [step, specStep, abs, hs, scalar]
    | some m =>
      simp only [step, specStep, abs, hs, scalar, Option.map_some, true_and]
      congr 1
      funext x
      by_cases hx : x = h
      · subst hx; simp [get_set_self, upd]; funext y; simp [get_set, upd]
      · simp [get_set_other _ _ hx, upd, hx]
  | sget h k =>
    cases hs : s.stores.get h with
    | none => simp [step, specStep, abs, hs, scalar]
    | some m => simp [step, specStep, abs, hs, scalar]
  | sdel h k =>
    cases hs : s.stores.get h with
    | none => simp [step, specStep, abs, hs, scalar]
    | some m =>
      simp only [step, specStep, abs, hs, scalar, Option.map_some, AMap.has, true_and]
      congr 1
      funext x
      by_cases hx : x = h
      · subst hx; simp [get_set_self, upd]; funext y; simp [get_del, upd]
      · simp [get_set_other _ _ hx, upd, hx]

def specRun (s : Spec) : List Op → Spec × List SOut
  | [] => (s, [])
  | op :: ops =>
    let r := specStep s op
    let rs := specRun r.1 ops
    (rs.1, r.2 :: rs.2)

theorem run_refines (s : St) (ops : List Op) :
    (run s ops).2.map scalar = (specRun (abs s) ops).2 ∧ abs (run s ops).1 = (specRun (abs s) ops).1 := by
  induction ops generalizing s with
  | nil => simp [run, specRun]
  | cons op ops ih =>
    obtain ⟨h1, h2⟩ := step_refines s op
    obtain ⟨h3, h4⟩ := ih (step s op).1
    simp only [run, specRun, List.map_cons]
    rw [← h2, h1]
    exact ⟨by rw [h3], h4⟩

/-! ## invariants: no dangling and no shared storages -/

structure Inv (s : St) : Prop where
  cacheNodup : s.cache.keys.Nodup
  storesNodup : s.stores.keys.Nodup
  live : ∀ i h, s.cache.get i = some h → h < s.nextId ∧ (s.stores.get h).isSome = true
  bound : ∀ h, (s.stores.get h).isSome = true → h < s.nextId
  inj : ∀ i j h, s.cache.get i = some h → s.cache.get j = some h → i = j

theorem inv_init : Inv init := by
  constructor <;> simp [init, AMap.keys, AMap.get]

theorem inv_step {s : St} (hv : Inv s) (op : Op) : Inv (step s op).1 := by
  cases op with
  | get i create =>
    cases hc : s.cache.get i with
    | some h => simp only [step, hc]; exact hv
    | none =>
      cases create with
      | false => simp only [step, hc]; exact hv
      | true =>
        simp only [step, hc, if_true]
        refine ⟨nodup_set _ _ _ hv.cacheNodup, nodup_set _ _ _ hv.storesNodup, ?_, ?_, ?_⟩
        · intro j h hj
          simp only [get_set] at hj ⊢
          by_cases e : j = i
          · simp only [e, if_true] at hj; cases hj; simp
          · simp only [e, if_false] at hj
            obtain ⟨h1, h2⟩ := hv.live j h hj
            have : ¬ h = s.nextId := by omega
            simp [this, h2]; omega
        · intro h hh
          show h < s.nextId + 1
          simp only [get_set] at hh
          by_cases e : h = s.nextId
          · omega
          · simp only [e, if_false] at hh
            have := hv.bound h hh; omega
        · intro a b h ha hb
          simp only [get_set] at ha hb
          by_cases ea : a = i <;> by_cases eb : b = i
          · rw [ea, eb]
          · simp only [ea, if_true, eb, if_false] at ha hb
            cases ha
            have := (hv.live b _ hb).1; omega
          · simp only [ea, if_false, eb, if_true] at ha hb
            cases hb
            have := (hv.live a _ ha).1; omega
          · simp only [ea, eb, if_false] at ha hb
            exact hv.inj a b h ha hb
  | evict i =>
    cases hc : s.cache.get i with
    | none => simp only [step, hc]; exact hv
    | some h =>
      simp only [step, hc]
      refine ⟨nodup_del _ _ hv.cacheNodup, hv.storesNodup, ?_, hv.bound, ?_⟩
      · intro j h' hj
        simp only [get_del] at hj
        by_cases e : j = i
        · simp [e] at hj
        · simp only [e, if_false] at hj; exact hv.live j h' hj
      · intro a b h' ha hb
        simp only [get_del] at ha hb
        by_cases ea : a = i
        · simp [ea] at ha
        · by_cases eb : b = i
          · simp [eb] at hb
          · simp only [ea, eb, if_false] at ha hb; exact hv.inj a b h' ha hb
  | forEach => exact hv
  | clear =>
    simp only [step]
    refine ⟨by simp [AMap.keys], hv.storesNodup, ?_, hv.bound, ?_⟩
    · intro j h hj; simp [AMap.get] at hj
    · intro a b h ha; simp [AMap.get] at ha
  | sset h k v =>
    cases hs : s.stores.get h with
    | none => simp only [step, hs]; exact hv
    | some m =>
      simp only [step, hs]
      refine ⟨hv.cacheNodup, nodup_set _ _ _ hv.storesNodup, ?_, ?_, hv.inj⟩
      · intro j h' hj
        obtain ⟨h1, h2⟩ := hv.live j h' hj
        refine ⟨h1, ?_⟩
        simp only [get_set]; split <;> simp [h2]
      · intro h' hh
        simp only [get_set] at hh
        by_cases e : h' = h
        · subst e; exact hv.bound h' (by simp [hs])
        · simp only [e, if_false] at hh; exact hv.bound h' hh
  | sget h k =>
    cases hs : s.stores.get h with
    | none => simp only [step, hs]; exact hv
    | some m => simp only [step, hs]; exact hv
  | sdel h k =>
    cases hs : s.stores.get h with
    | none => simp only [step, hs]; exact hv
    | some m =>
      simp only [step, hs]
      refine ⟨hv.cacheNodup, nodup_set _ _ _ hv.storesNodup, ?_, ?_, hv.inj⟩
      · intro j h' hj
        obtain ⟨h1, h2⟩ := hv.live j h' hj
        refine ⟨h1, ?_⟩
        simp only [get_set]; split <;> simp [h2]
      · intro h' hh
        simp only [get_set] at hh
        by_cases e : h' = h
        · subst e; exact hv.bound h' (by simp [hs])
        · simp only [e, if_false] at hh; exact hv.bound h' hh

theorem inv_final (s : St) (ops : List Op) (h : Inv s) : Inv (final s ops) := by
  induction ops generalizing s with
  | nil => exact h
  | cons op ops ih => exact ih _ (inv_step h op)

/-- What `ForEach` and `Clear` enumerate: exactly the cached (index, storage, contents) triples. -/
theorem mem_listing (s : St) (hn : s.cache.keys.Nodup) (i h : Nat) (c : AMap Nat) :
    (i, h, c) ∈ listing s ↔ s.cache.get i = some h ∧ c = contents s h := by
  simp only [listing, List.mem_map]
  constructor
  · rintro ⟨⟨i', h'⟩, hm, e⟩
    simp only [Prod.mk.injEq] at e
    obtain ⟨e1, e2, e3⟩ := e
    subst e1; subst e2
    exact ⟨get_eq_some_of_mem _ _ _ hn hm, e3.symm⟩
  · rintro ⟨h1, h2⟩
    exact ⟨(i, h), mem_of_get_eq_some _ _ _ h1, by simp [h2]⟩

theorem listing_indexes (s : St) : (listing s).map (·.1) = s.cache.keys := by
  simp [listing, AMap.keys, List.map_map, Function.comp_def]

end Hive.C12b.IX
