import Hive.Proofs.DListHeap
/-!
# The well-formedness invariant of the pointer-level list model and its preservation

`WF s`: for both lists the heap contains the ring `root l :: seq l` (sentinel written at both ends),
the ghost sequences are duplicate-free, disjoint and made of allocated element ids, `len` is the
length, the `owner` field of a node is `some l` exactly for the members of `seq l` (and possibly for
handles made stale by `Init`), and everything from `fresh` on is untouched memory.
-/
namespace Hive.DList

structure WF (s : St) : Prop where
  ring : ∀ l, Ring s.heap (root l) (s.seq l)
  nodup : ∀ l, (s.seq l).Nodup
  ids : ∀ l, ∀ e ∈ s.seq l, 3 ≤ e ∧ e < s.fresh
  disj : ∀ l k, l ≠ k → ∀ e ∈ s.seq l, e ∉ s.seq k
  len : ∀ l, s.len l = (s.seq l).length
  own : ∀ l, ∀ e ∈ s.seq l, (s.heap e).owner = some l
  own_back : ∀ l e, (s.heap e).owner = some l → e ∈ s.seq l ∨ e ∈ s.stale
  fresh3 : 3 ≤ s.fresh
  unalloc : ∀ j, s.fresh ≤ j → s.heap j = {}
  lowOwner : ∀ j, j < 3 → (s.heap j).owner = none
  staleIds : ∀ e ∈ s.stale, 3 ≤ e ∧ e < s.fresh

theorem root_lt (l : Bool) : root l < 3 := by cases l <;> simp [root]
theorem root_pos (l : Bool) : 0 < root l := by cases l <;> simp [root]
theorem root_inj {l k : Bool} (h : root l = root k) : l = k := by
  cases l <;> cases k <;> simp [root] at h ⊢

@[simp] theorem upd_same {α : Type} (f : Bool → α) (l : Bool) (v : α) : upd f l v l = v := by simp [upd]
theorem upd_other {α : Type} (f : Bool → α) {l k : Bool} (v : α) (h : k ≠ l) : upd f l v k = f k := by
  simp [upd, h]

namespace WF
variable {s : St}

theorem nodupR (w : WF s) (l : Bool) : (root l :: s.seq l).Nodup := by
  rw [List.nodup_cons]
  refine ⟨fun m => ?_, w.nodup l⟩
  have := (w.ids l _ m).1
  have := root_lt l
  omega

/-- The rings of the two lists share no node. -/
theorem ring_disj (w : WF s) {l k : Bool} (hlk : l ≠ k) {x : Nat} (hx : x ∈ root l :: s.seq l) :
    x ∉ root k :: s.seq k := by
  intro hk
  rcases List.mem_cons.1 hx with e1 | m1 <;> rcases List.mem_cons.1 hk with e2 | m2
  · exact hlk (root_inj (e1.symm.trans e2))
  · have := (w.ids k _ m2).1; have := root_lt l; omega
  · have := (w.ids l _ m1).1; have := root_lt k; omega
  · exact w.disj l k hlk x m1 m2

theorem ring_lt (w : WF s) {l : Bool} {x : Nat} (hx : x ∈ root l :: s.seq l) : x < s.fresh := by
  rcases List.mem_cons.1 hx with e | m
  · have := root_lt l; have := w.fresh3; omega
  · exact (w.ids l _ m).2

theorem ring_pos (w : WF s) {l : Bool} {x : Nat} (hx : x ∈ root l :: s.seq l) : 0 < x := by
  rcases List.mem_cons.1 hx with e | m
  · rw [e]; exact root_pos l
  · have := (w.ids l _ m).1; omega

theorem next_mem (w : WF s) {l : Bool} {a : Nat} (ha : a ∈ root l :: s.seq l) :
    (s.heap a).next ∈ root l :: s.seq l := ring_next_mem (w.ring l) (w.nodupR l) ha

theorem prev_mem (w : WF s) {l : Bool} {a : Nat} (ha : a ∈ root l :: s.seq l) :
    (s.heap a).prev ∈ root l :: s.seq l := ring_prev_mem (w.ring l) (w.nodupR l) ha

/-- A handle whose `list` pointer is `l` and that is not stale is an element of `l`. -/
theorem mem_of_owned (w : WF s) {l : Bool} {e : Nat} (ho : owned s e l = true) (hs : e ∉ s.stale) :
    e ∈ s.seq l := by
  have : (s.heap e).owner = some l := by simpa [owned] using ho
  rcases w.own_back l e this with m | m
  · exact m
  · exact absurd m hs

theorem owned_of_mem (w : WF s) {l : Bool} {e : Nat} (h : e ∈ s.seq l) : owned s e l = true := by
  simp [owned, w.own l e h]

theorem not_owned (w : WF s) {l : Bool} {e : Nat} (h : e ∉ s.seq l) (hs : e ∉ s.stale) :
    owned s e l = false := by
  cases ho : owned s e l with
  | false => rfl
  | true => exact absurd (w.mem_of_owned ho hs) h

end WF

theorem wf_init : WF init := by
  constructor
  · intro l
    rw [show init.seq l = [] from rfl, ring_nil_iff]
    cases l <;> simp [init, root]
  · intro l; simp [init]
  · intro l e h; simp [init] at h
  · intro l k _ e h; simp [init] at h
  · intro l; simp [init]
  · intro l e h; simp [init] at h
  · intro l e h
    simp only [init] at h
    split at h
    · simp at h
    · split at h <;> simp at h
  · simp [init]
  · intro j hj
    have : 3 ≤ j := hj
    simp only [init]
    rw [if_neg (by omega), if_neg (by omega)]
  · intro j hj
    simp only [init]
    split
    · rfl
    · split <;> rfl
  · intro e h; simp [init] at h

/-! ### alloc -/

theorem alloc_heap_ne (s : St) (v : Nat) {j : Nat} (h : j ≠ s.fresh) : (alloc s v).heap j = s.heap j := by
  simp [alloc, h]

theorem wf_alloc {s : St} (w : WF s) (v : Nat) : WF (alloc s v) := by
  have hne : ∀ l, ∀ x ∈ root l :: s.seq l, x ≠ s.fresh := fun l x hx => Nat.ne_of_lt (w.ring_lt hx)
  constructor
  · intro l
    refine ring_congr (fun x hx => ?_) (w.ring l)
    rw [alloc_heap_ne s v (hne l x hx)]; exact ⟨rfl, rfl⟩
  · exact w.nodup
  · intro l e h
    have := w.ids l e h
    simp only [alloc]; omega
  · exact w.disj
  · exact w.len
  · intro l e h
    rw [alloc_heap_ne s v (hne l e (List.mem_cons_of_mem _ h))]; exact w.own l e h
  · intro l e h
    by_cases he : e = s.fresh
    · subst he; simp [alloc] at h
    · rw [alloc_heap_ne s v he] at h; exact w.own_back l e h
  · have := w.fresh3; simp only [alloc]; omega
  · intro j hj
    simp only [alloc] at hj ⊢
    rw [if_neg (by omega)]; exact w.unalloc j (by omega)
  · intro j hj
    have := w.fresh3
    rw [alloc_heap_ne s v (by omega)]; exact w.lowOwner j hj
  · intro e h
    have := w.staleIds e h
    simp only [alloc]; omega

/-! ### insert -/

theorem wf_insert {s : St} (w : WF s) {l : Bool} {e a : Nat} (he3 : 3 ≤ e) (hef : e < s.fresh)
    (hen : ∀ k, e ∉ s.seq k) (ha : a ∈ root l :: s.seq l) : WF (insert s l e a) := by
  have heR : ∀ k, e ∉ root k :: s.seq k := by
    intro k m
    rcases List.mem_cons.1 m with q | q
    · have := root_lt k; omega
    · exact hen k q
  have hea : e ≠ a := fun q => heR l (q ▸ ha)
  have hb := w.next_mem ha
  have hperm := perm_insAfter_tail e ha
  have hseq : ∀ k, (insert s l e a).seq k = if k = l then (insAfter a e (root l :: s.seq l)).tail else s.seq k := by
    intro k; simp [insert, upd]
  have hmem : ∀ x, x ∈ (insAfter a e (root l :: s.seq l)).tail ↔ x = e ∨ x ∈ s.seq l := by
    intro x; rw [hperm.mem_iff]; simp
  -- nodes outside list `l`'s ring and different from `e` are not written
  have hframe : ∀ j, j ∉ root l :: s.seq l → j ≠ e → (insert s l e a).heap j = s.heap j := by
    intro j hj hje
    simp only [insert, setOwner, if_neg hje]
    exact link_frame s.heap hje (fun q => hj (q ▸ ha)) (fun q => hj (q ▸ hb)) hea
  have howner : ∀ j, ((insert s l e a).heap j).owner = if j = e then some l else (s.heap j).owner := by
    intro j; simp [insert]
  constructor
  · intro k
    rw [hseq]
    by_cases hk : k = l
    · subst hk
      rw [if_pos rfl]
      refine ring_congr (fun x _ => ?_) (ring_link (w.ring k) (w.nodupR k) (heR k) ha)
      simp [insert]
    · rw [if_neg hk]
      refine ring_congr (fun x hx => ?_) (w.ring k)
      rw [hframe x (fun m => w.ring_disj (Ne.symm hk) m hx) (fun q => heR k (q ▸ hx))]
      exact ⟨rfl, rfl⟩
  · intro k
    rw [hseq]
    by_cases hk : k = l
    · subst hk
      rw [if_pos rfl, hperm.nodup_iff, List.nodup_cons]
      exact ⟨hen k, w.nodup k⟩
    · rw [if_neg hk]; exact w.nodup k
  · intro k x hx
    rw [hseq] at hx
    show 3 ≤ x ∧ x < s.fresh
    by_cases hk : k = l
    · subst hk
      rw [if_pos rfl, hmem] at hx
      rcases hx with q | q
      · subst q; exact ⟨he3, hef⟩
      · exact w.ids k x q
    · rw [if_neg hk] at hx; exact w.ids k x hx
  · intro k1 k2 hk x hx
    rw [hseq] at hx ⊢
    by_cases h1 : k1 = l
    · subst h1
      rw [if_pos rfl, hmem] at hx
      rw [if_neg (Ne.symm hk)]
      rcases hx with q | q
      · subst q; exact hen k2
      · exact w.disj k1 k2 hk x q
    · rw [if_neg h1] at hx
      by_cases h2 : k2 = l
      · subst h2
        rw [if_pos rfl, hmem]
        intro q
        rcases q with q | q
        · subst q; exact hen k1 hx
        · exact w.disj k1 k2 hk x hx q
      · rw [if_neg h2]; exact w.disj k1 k2 hk x hx
  · intro k
    rw [hseq]
    by_cases hk : k = l
    · subst hk
      rw [if_pos rfl, hperm.length_eq]
      simp [insert, w.len k]
    · rw [if_neg hk]
      simp [insert, upd, hk, w.len k]
  · intro k x hx
    rw [hseq] at hx
    rw [howner]
    by_cases hk : k = l
    · subst hk
      rw [if_pos rfl, hmem] at hx
      rcases hx with q | q
      · simp [q]
      · rw [if_neg (fun q' : x = e => hen k (q' ▸ q))]; exact w.own k x q
    · rw [if_neg hk] at hx
      rw [if_neg (fun q' : x = e => hen k (q' ▸ hx))]; exact w.own k x hx
  · intro k x hx
    rw [howner] at hx
    rw [hseq]
    by_cases hxe : x = e
    · subst hxe
      simp only [if_true, Option.some.injEq] at hx
      subst hx
      left; rw [if_pos rfl, hmem]; exact Or.inl rfl
    · rw [if_neg hxe] at hx
      rcases w.own_back k x hx with q | q
      · left
        by_cases hk : k = l
        · subst hk; rw [if_pos rfl, hmem]; exact Or.inr q
        · rw [if_neg hk]; exact q
      · right; exact q
  · exact w.fresh3
  · intro j hj
    have hj' : s.fresh ≤ j := hj
    rw [hframe j (fun m => by have := w.ring_lt m; omega) (by omega)]
    exact w.unalloc j hj'
  · intro j hj
    rw [howner, if_neg (by omega)]; exact w.lowOwner j hj
  · exact w.staleIds

theorem wf_insertValue {s : St} (w : WF s) {l : Bool} (v : Nat) {a : Nat} (ha : a ∈ root l :: s.seq l) :
    WF (insertValue s l v a).1 := by
  have w1 := wf_alloc w v
  refine wf_insert (s := alloc s v) w1 (l := l) (e := s.fresh) (a := a) w.fresh3 (by simp [alloc]) ?_ ha
  intro k m
  have := (w.ids k _ m).2
  omega

end Hive.DList
