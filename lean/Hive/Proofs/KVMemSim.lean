import Hive.Proofs.KVMem
/-!
# The memory model simulates the value model (C04)

`Hive/Model/KVMem.lean` (every slice a reference) against `Hive/Model/KV.lean` (value semantics, the model that is proved to
refine the ordered-map specification): as long as the caller does not overwrite a buffer that a view or a pending batch
still references (`Pinned`: the realm slice kept by `WithRealm`, the value slices of a batch — the two references the code
keeps), every request of the memory model is the request `toOp` of the value model, with the arguments as the buffers read at
the call; caller actions (`alloc`, `write`) are invisible to the value model.  Bare `mapdb` views, open store.
-/
namespace Hive.KV.Mem
open Hive.KV.Heap

/-- The value-model request a memory-model request amounts to; `none`: a caller action. -/
def toOp (s : MSt) : MOp → Option Op
  | .alloc _ => none
  | .write _ _ => none
  | .withRealm v p r => some (.view v p (s.mem.read r) .abs)
  | .withExtendedRealm v p r => some (.view v p (s.mem.read r) .ext)
  | .realm v => some (.realm v)
  | .set v k x => some (.set v (s.mem.read k) (s.mem.read x))
  | .get v k => some (.get v (s.mem.read k))
  | .has v k => some (.has v (s.mem.read k))
  | .del v k => some (.del v (s.mem.read k))
  | .delp v p => some (.delp v (s.mem.read p))
  | .iter v p d => some (.iter v (s.mem.read p) d 0)
  | .iterk v p d => some (.iterk v (s.mem.read p) d 0)
  | .batch b v => some (.batch b v)
  | .bset b k x => some (.bset b (s.mem.read k) (s.mem.read x))
  | .bdel b k => some (.bdel b (s.mem.read k))
  | .commit b => some (.commit b false)
  | .cancel b => some (.cancel b)

/-- Every slice argument of the request is a buffer the caller holds. -/
def argsKnown (s : MSt) : MOp → Prop
  | .withRealm _ _ r => r ∈ s.known
  | .withExtendedRealm _ _ r => r ∈ s.known
  | .set _ k x => k ∈ s.known ∧ x ∈ s.known
  | .get _ k => k ∈ s.known
  | .has _ k => k ∈ s.known
  | .del _ k => k ∈ s.known
  | .delp _ p => p ∈ s.known
  | .iter _ p _ => p ∈ s.known
  | .iterk _ p _ => p ∈ s.known
  | .bset _ k x => k ∈ s.known ∧ x ∈ s.known
  | .bdel _ k => k ∈ s.known
  | _ => True

/-- The buffers a view or a batch still references: the realm slices of the views (and of the batches made from them),
the value slices of the pending batch operations — of the live handles (what `lookup` finds). -/
def Pinned (s : MSt) (r : Ref) : Prop :=
  (∃ h, s.views.lookup h = some r) ∨
  (∃ h bt, s.batches.lookup h = some bt ∧ (bt.realm = r ∨ ∃ e ∈ bt.sets, e.2 = r))

theorem pinned_lt {s : MSt} (h : MInv s) {r : Ref} (hp : Pinned s r) : r < s.mem.next := by
  rcases hp with ⟨v, hv⟩ | ⟨b, bt, hb, rfl | ⟨e, he, rfl⟩⟩
  · exact h.view_lt (v, r) (lookup_mem' hv)
  · exact h.batch_realm_lt (b, bt) (lookup_mem' hb)
  · exact h.known_lt _ (h.batch_known (b, bt) (lookup_mem' hb) e he)

def viewOf (s : MSt) (r : Ref) : View := { realm := s.mem.read r, wraps := [] }

def bproj (b : Batch) : Bytes × List Wrap × AList × List Bytes := (b.realm, b.wraps, b.sets, b.dels)

def batchOf (s : MSt) (bt : MBatch) : Bytes × List Wrap × AList × List Bytes :=
  (s.mem.read bt.realm, [], deref s.mem bt.sets, bt.dels)

/-- The simulation relation: same stored data (open store), same handles; a view's realm and a batch's operations are what
the referenced buffers read now.  (The ghost `log` of the value model's batches is not compared.) -/
structure Sim (ms : MSt) (st : St) : Prop where
  db : st.db = { m := storeView ms, closed := false }
  views : ∀ h, st.views.lookup h = (ms.views.lookup h).map (viewOf ms)
  batches : ∀ h, (st.batches.lookup h).map bproj = (ms.batches.lookup h).map (batchOf ms)

theorem sim_init : Sim minit init := by
  refine ⟨rfl, ?_, ?_⟩
  · intro h
    simp only [init, minit, List.lookup_cons, List.lookup_nil]
    cases h == 0 <;> rfl
  · intro h; rfl

/-- The table clauses survive whatever keeps the tables and the bytes of the pinned buffers. -/
theorem views_frame {ms ms' : MSt} (hv : ms'.views = ms.views)
    (hr : ∀ r, Pinned ms r → ms'.mem.read r = ms.mem.read r) (h : Nat) :
    (ms'.views.lookup h).map (viewOf ms') = (ms.views.lookup h).map (viewOf ms) := by
  rw [hv]
  cases hl : ms.views.lookup h with
  | none => rfl
  | some r =>
    simp only [Option.map_some, viewOf]
    rw [hr r (Or.inl ⟨h, hl⟩)]

theorem batches_frame {ms ms' : MSt} (hb : ms'.batches = ms.batches)
    (hr : ∀ r, Pinned ms r → ms'.mem.read r = ms.mem.read r) (h : Nat) :
    (ms'.batches.lookup h).map (batchOf ms') = (ms.batches.lookup h).map (batchOf ms) := by
  rw [hb]
  cases hl : ms.batches.lookup h with
  | none => rfl
  | some bt =>
    simp only [Option.map_some, batchOf]
    rw [hr bt.realm (Or.inr ⟨h, bt, hl, Or.inl rfl⟩)]
    have hd : deref ms'.mem bt.sets = deref ms.mem bt.sets :=
      deref_congr (fun e he => hr e.2 (Or.inr ⟨h, bt, hl, Or.inr ⟨e, he, rfl⟩⟩))
    rw [hd]

/-- What a request does to the bytes of the pinned buffers: nothing, unless it is a caller write to one of them. -/
theorem pinned_reads (ms : MSt) (hi : MInv ms) (op : MOp) (hw : ∀ r b, op = .write r b → ¬ Pinned ms r) (r : Ref)
    (hp : Pinned ms r) : (mstep ms op).1.mem.read r = ms.mem.read r := by
  by_cases hx : ∃ b, op = .write r b
  · obtain ⟨b, rfl⟩ := hx
    exact absurd hp (hw r b rfl)
  · exact mstep_reads ms hi op r (pinned_lt hi hp) (fun b heq => hx ⟨b, heq⟩)

/-- A request that keeps the map and both tables keeps the simulation with the same value-model state. -/
theorem sim_quiet {ms : MSt} {st : St} (hs : Sim ms st) (hi : MInv ms) (op : MOp) (hk : op.keepsMap = true)
    (hv : (mstep ms op).1.views = ms.views) (hb : (mstep ms op).1.batches = ms.batches)
    (hw : ∀ r b, op = .write r b → ¬ Pinned ms r) : Sim (mstep ms op).1 st := by
  refine ⟨?_, ?_, ?_⟩
  · rw [hs.db, storeView_unchanged ms hi op hk]
  · intro h; rw [hs.views h, views_frame hv (pinned_reads ms hi op hw) h]
  · intro h; rw [hs.batches h, batches_frame hb (pinned_reads ms hi op hw) h]

/-- The requests that do not touch the table of views / of batches. -/
def MOp.keepsViews : MOp → Bool
  | .withRealm .. => false
  | .withExtendedRealm .. => false
  | _ => true

def MOp.keepsBatches : MOp → Bool
  | .batch .. => false
  | .bset .. => false
  | .bdel .. => false
  | .cancel .. => false
  | _ => true

theorem mstep_views_unchanged (s : MSt) (op : MOp) (hk : op.keepsViews = true) : (mstep s op).1.views = s.views := by
  cases op with
  | alloc b => rfl
  | write r b =>
    simp only [mstep]
    split
    · rfl
    · rfl
  | withRealm v p r => simp [MOp.keepsViews] at hk
  | withExtendedRealm v p r => simp [MOp.keepsViews] at hk
  | realm v =>
    simp only [mstep]
    split
    · rfl
    · rfl
  | set v k x =>
    simp only [mstep]
    split
    · rfl
    · split
      · rfl
      · rfl
  | get v k =>
    simp only [mstep]
    split
    · rfl
    · split
      · split
        · rfl
        · rfl
      · rfl
  | has v k =>
    simp only [mstep]
    split
    · rfl
    · split
      · rfl
      · rfl
  | del v k =>
    simp only [mstep]
    split
    · rfl
    · split
      · rfl
      · rfl
  | delp v p =>
    simp only [mstep]
    split
    · rfl
    · split
      · rfl
      · rfl
  | iter v p d =>
    simp only [mstep]
    split
    · rfl
    · split
      · rfl
      · rfl
  | iterk v p d =>
    simp only [mstep]
    split
    · rfl
    · split
      · rfl
      · rfl
  | batch b v =>
    simp only [mstep]
    split
    · rfl
    · rfl
  | bset b k x =>
    simp only [mstep]
    split
    · rfl
    · split
      · rfl
      · rfl
  | bdel b k =>
    simp only [mstep]
    split
    · rfl
    · split
      · rfl
      · rfl
  | commit b =>
    simp only [mstep]
    split
    · rfl
    · rfl
  | cancel b =>
    simp only [mstep]
    split
    · rfl
    · rfl

theorem mstep_batches_unchanged (s : MSt) (op : MOp) (hk : op.keepsBatches = true) : (mstep s op).1.batches = s.batches := by
  cases op with
  | alloc b => rfl
  | write r b =>
    simp only [mstep]
    split
    · rfl
    · rfl
  | withRealm v p r =>
    simp only [mstep]
    split
    · rfl
    · split
      · rfl
      · rfl
  | withExtendedRealm v p r =>
    simp only [mstep]
    split
    · rfl
    · split
      · rfl
      · rfl
  | realm v =>
    simp only [mstep]
    split
    · rfl
    · rfl
  | set v k x =>
    simp only [mstep]
    split
    · rfl
    · split
      · rfl
      · rfl
  | get v k =>
    simp only [mstep]
    split
    · rfl
    · split
      · split
        · rfl
        · rfl
      · rfl
  | has v k =>
    simp only [mstep]
    split
    · rfl
    · split
      · rfl
      · rfl
  | del v k =>
    simp only [mstep]
    split
    · rfl
    · split
      · rfl
      · rfl
  | delp v p =>
    simp only [mstep]
    split
    · rfl
    · split
      · rfl
      · rfl
  | iter v p d =>
    simp only [mstep]
    split
    · rfl
    · split
      · rfl
      · rfl
  | iterk v p d =>
    simp only [mstep]
    split
    · rfl
    · split
      · rfl
      · rfl
  | batch b v => simp [MOp.keepsBatches] at hk
  | bset b k x => simp [MOp.keepsBatches] at hk
  | bdel b k => simp [MOp.keepsBatches] at hk
  | commit b =>
    simp only [mstep]
    split
    · rfl
    · rfl
  | cancel b => simp [MOp.keepsBatches] at hk

/-- How the answers correspond: references on the left, what they read afterwards on the right. -/
def outRel (ms' : MSt) : MOut → Out → Prop
  | .ok, .ok => True
  | .notfound, .notfound => True
  | .bad, .badHandle => True
  | .bool b, .bool b' => b = b'
  | .ref r, .val v => ms'.mem.read r = v
  | .ref r, .bytes v => ms'.mem.read r = v
  | .kvs l, .kvs l' => l.map (fun e => (ms'.mem.read e.1, ms'.mem.read e.2)) = l'
  | .keys l, .keys l' => l.map ms'.mem.read = l'
  | _, _ => False

/-! ## the caller's actions -/

theorem sim_caller {ms : MSt} {st : St} (hs : Sim ms st) (hi : MInv ms) (op : MOp) (hc : op.isCaller = true)
    (hw : ∀ r b, op = .write r b → ¬ Pinned ms r) : Sim (mstep ms op).1 st := by
  cases op with
  | alloc b => exact sim_quiet hs hi _ rfl rfl rfl hw
  | write r b => exact sim_quiet hs hi _ rfl (mstep_views_unchanged _ _ rfl) (mstep_batches_unchanged _ _ rfl) hw
  | _ => simp [MOp.isCaller] at hc

/-! ## reads -/

theorem sim_realm {ms : MSt} {st : St} (hs : Sim ms st) (hi : MInv ms) (v : Nat) :
    Sim (mstep ms (.realm v)).1 (step st (.realm v)).1 ∧ outRel (mstep ms (.realm v)).1 (mstep ms (.realm v)).2 (step st (.realm v)).2 := by
  have hq := sim_quiet hs hi (.realm v) rfl (mstep_views_unchanged _ _ rfl) (mstep_batches_unchanged _ _ rfl) (fun _ _ h => by cases h)
  have hv := hs.views v
  cases hl : ms.views.lookup v with
  | none =>
    rw [hl] at hv
    simp only [step, onView, hv]
    refine ⟨hq, ?_⟩
    simp [mstep, hl, outRel]
  | some rv =>
    rw [hl] at hv
    simp only [step, onView, hv, Option.map_some]
    refine ⟨hq, ?_⟩
    simp only [mstep, hl, outRel, viewOf, alloc_ref]
    rw [← alloc_ref ms.mem (ms.mem.read rv), read_alloc_new]

theorem sim_has {ms : MSt} {st : St} (hs : Sim ms st) (hi : MInv ms) (v : Nat) (k : Ref) (hk : k ∈ ms.known) :
    Sim (mstep ms (.has v k)).1 (step st (.has v (ms.mem.read k))).1 ∧
      outRel (mstep ms (.has v k)).1 (mstep ms (.has v k)).2 (step st (.has v (ms.mem.read k))).2 := by
  have hq := sim_quiet hs hi (.has v k) rfl (mstep_views_unchanged _ _ rfl) (mstep_batches_unchanged _ _ rfl) (fun _ _ h => by cases h)
  have hv := hs.views v
  cases hl : ms.views.lookup v with
  | none =>
    rw [hl] at hv
    simp only [step, onView, hv]
    refine ⟨hq, ?_⟩
    simp [mstep, hl, outRel]
  | some rv =>
    rw [hl] at hv
    simp only [step, onView, hv, Option.map_some]
    refine ⟨hq, ?_⟩
    simp only [mstep, hl, hk, if_true, outRel, viewOf, vRead, dbHas, hs.db, Bool.false_eq_true, if_false, storeView, aget_deref,
      Option.isSome_map, fullKey]

theorem sim_get {ms : MSt} {st : St} (hs : Sim ms st) (hi : MInv ms) (v : Nat) (k : Ref) (hk : k ∈ ms.known) :
    Sim (mstep ms (.get v k)).1 (step st (.get v (ms.mem.read k))).1 ∧
      outRel (mstep ms (.get v k)).1 (mstep ms (.get v k)).2 (step st (.get v (ms.mem.read k))).2 := by
  have hq := sim_quiet hs hi (.get v k) rfl (mstep_views_unchanged _ _ rfl) (mstep_batches_unchanged _ _ rfl) (fun _ _ h => by cases h)
  have hv := hs.views v
  cases hl : ms.views.lookup v with
  | none =>
    rw [hl] at hv
    simp only [step, onView, hv]
    refine ⟨hq, ?_⟩
    simp [mstep, hl, outRel]
  | some rv =>
    rw [hl] at hv
    simp only [step, onView, hv, Option.map_some]
    refine ⟨hq, ?_⟩
    simp only [mstep, hl, hk, if_true, viewOf, vRead, dbGet, hs.db, Bool.false_eq_true, if_false, storeView, aget_deref, fullKey]
    cases hg : rget (ms.mem.read rv ++ ms.mem.read k) ms.m with
    | none => simp [outRel]
    | some r =>
      simp only [Option.map_some, outRel, alloc_ref]
      rw [← alloc_ref ms.mem (ms.mem.read r), read_alloc_new]

/-! ## mutations of the map -/

/-- A store request that keeps both tables: the simulation holds for any value-model state with the right store and the
old tables. -/
theorem sim_tables_kept {ms : MSt} {st st' : St} (hs : Sim ms st) (hi : MInv ms) (op : MOp)
    (hv : (mstep ms op).1.views = ms.views) (hb : (mstep ms op).1.batches = ms.batches)
    (hw : ∀ r b, op = .write r b → ¬ Pinned ms r)
    (hdb : st'.db = { m := storeView (mstep ms op).1, closed := false }) (hvs : st'.views = st.views)
    (hbs : st'.batches = st.batches) : Sim (mstep ms op).1 st' := by
  refine ⟨hdb, ?_, ?_⟩
  · intro h; rw [hvs, hs.views h, views_frame hv (pinned_reads ms hi op hw) h]
  · intro h; rw [hbs, hs.batches h, batches_frame hb (pinned_reads ms hi op hw) h]

theorem sim_set {ms : MSt} {st : St} (hs : Sim ms st) (hi : MInv ms) (v : Nat) (k x : Ref) (hk : k ∈ ms.known ∧ x ∈ ms.known) :
    Sim (mstep ms (.set v k x)).1 (step st (.set v (ms.mem.read k) (ms.mem.read x))).1 ∧
      outRel (mstep ms (.set v k x)).1 (mstep ms (.set v k x)).2 (step st (.set v (ms.mem.read k) (ms.mem.read x))).2 := by
  have hv := hs.views v
  have hsv := storeView_step ms hi (.set v k x)
  cases hl : ms.views.lookup v with
  | none =>
    rw [hl] at hv
    simp only [step, onView, hv]
    refine ⟨sim_tables_kept hs hi _ (mstep_views_unchanged _ _ rfl) (mstep_batches_unchanged _ _ rfl) (fun _ _ h => by cases h)
      (by rw [hsv]; simp [effect, hl, hs.db]) rfl rfl, ?_⟩
    simp [mstep, hl, outRel]
  | some rv =>
    rw [hl] at hv
    simp only [step, onView, hv, Option.map_some, mutate, viewOf, vMut, dbSet, hs.db, Bool.false_eq_true, if_false]
    refine ⟨sim_tables_kept hs hi _ (mstep_views_unchanged _ _ rfl) (mstep_batches_unchanged _ _ rfl) (fun _ _ h => by cases h)
      (by rw [hsv]; simp [effect, hl, hk]) rfl rfl, ?_⟩
    simp [mstep, hl, hk, outRel]

theorem sim_del {ms : MSt} {st : St} (hs : Sim ms st) (hi : MInv ms) (v : Nat) (k : Ref) (hk : k ∈ ms.known) :
    Sim (mstep ms (.del v k)).1 (step st (.del v (ms.mem.read k))).1 ∧
      outRel (mstep ms (.del v k)).1 (mstep ms (.del v k)).2 (step st (.del v (ms.mem.read k))).2 := by
  have hv := hs.views v
  have hsv := storeView_step ms hi (.del v k)
  cases hl : ms.views.lookup v with
  | none =>
    rw [hl] at hv
    simp only [step, onView, hv]
    refine ⟨sim_tables_kept hs hi _ (mstep_views_unchanged _ _ rfl) (mstep_batches_unchanged _ _ rfl) (fun _ _ h => by cases h)
      (by rw [hsv]; simp [effect, hl, hs.db]) rfl rfl, ?_⟩
    simp [mstep, hl, outRel]
  | some rv =>
    rw [hl] at hv
    simp only [step, onView, hv, Option.map_some, mutate, viewOf, vMut, dbDelete, hs.db, Bool.false_eq_true, if_false]
    refine ⟨sim_tables_kept hs hi _ (mstep_views_unchanged _ _ rfl) (mstep_batches_unchanged _ _ rfl) (fun _ _ h => by cases h)
      (by rw [hsv]; simp [effect, hl, hk]) rfl rfl, ?_⟩
    simp [mstep, hl, hk, outRel]

theorem sim_delp {ms : MSt} {st : St} (hs : Sim ms st) (hi : MInv ms) (v : Nat) (k : Ref) (hk : k ∈ ms.known) :
    Sim (mstep ms (.delp v k)).1 (step st (.delp v (ms.mem.read k))).1 ∧
      outRel (mstep ms (.delp v k)).1 (mstep ms (.delp v k)).2 (step st (.delp v (ms.mem.read k))).2 := by
  have hv := hs.views v
  have hsv := storeView_step ms hi (.delp v k)
  cases hl : ms.views.lookup v with
  | none =>
    rw [hl] at hv
    simp only [step, onView, hv]
    refine ⟨sim_tables_kept hs hi _ (mstep_views_unchanged _ _ rfl) (mstep_batches_unchanged _ _ rfl) (fun _ _ h => by cases h)
      (by rw [hsv]; simp [effect, hl, hs.db]) rfl rfl, ?_⟩
    simp [mstep, hl, outRel]
  | some rv =>
    rw [hl] at hv
    simp only [step, onView, hv, Option.map_some, mutate, viewOf, vMut, dbDeletePrefix, hs.db, Bool.false_eq_true, if_false]
    refine ⟨sim_tables_kept hs hi _ (mstep_views_unchanged _ _ rfl) (mstep_batches_unchanged _ _ rfl) (fun _ _ h => by cases h)
      (by rw [hsv]; simp [effect, hl, hk]) rfl rfl, ?_⟩
    simp [mstep, hl, hk, outRel]

/-- What the relation says about one batch handle. -/
theorem sim_batch_lookup {ms : MSt} {st : St} (hs : Sim ms st) (b : Nat) :
    (ms.batches.lookup b = none ∧ st.batches.lookup b = none) ∨
    (∃ bt sb, ms.batches.lookup b = some bt ∧ st.batches.lookup b = some sb ∧ sb.realm = ms.mem.read bt.realm ∧
      sb.wraps = [] ∧ sb.sets = deref ms.mem bt.sets ∧ sb.dels = bt.dels) := by
  have hb := hs.batches b
  cases hl : ms.batches.lookup b with
  | none =>
    rw [hl] at hb
    cases hsb : st.batches.lookup b with
    | none => exact Or.inl ⟨rfl, rfl⟩
    | some sb => rw [hsb] at hb; simp at hb
  | some bt =>
    rw [hl] at hb
    cases hsb : st.batches.lookup b with
    | none => rw [hsb] at hb; simp at hb
    | some sb =>
      rw [hsb] at hb
      simp only [Option.map_some, Option.some.injEq, bproj, batchOf, Prod.mk.injEq] at hb
      exact Or.inr ⟨bt, sb, rfl, rfl, hb.1, hb.2.1, hb.2.2.1, hb.2.2.2⟩

theorem sim_commit {ms : MSt} {st : St} (hs : Sim ms st) (hi : MInv ms) (b : Nat) :
    Sim (mstep ms (.commit b)).1 (step st (.commit b false)).1 ∧
      outRel (mstep ms (.commit b)).1 (mstep ms (.commit b)).2 (step st (.commit b false)).2 := by
  have hsv := storeView_step ms hi (.commit b)
  rcases sim_batch_lookup hs b with ⟨hl, hsb⟩ | ⟨bt, sb, hl, hsb, h1, h2, h3, h4⟩
  · simp only [step, onBatch, hsb]
    refine ⟨sim_tables_kept hs hi _ (mstep_views_unchanged _ _ rfl) (mstep_batches_unchanged _ _ rfl) (fun _ _ h => by cases h)
      (by rw [hsv]; simp [effect, hl, hs.db]) rfl rfl, ?_⟩
    simp [mstep, hl, outRel]
  · simp only [step, onBatch, hsb, h1, h2, h3, h4, vMut, Bool.false_eq_true, if_false]
    refine ⟨sim_tables_kept hs hi _ (mstep_views_unchanged _ _ rfl) (mstep_batches_unchanged _ _ rfl) (fun _ _ h => by cases h)
      (by rw [hsv]; simp [effect, hl, hs.db, dbCommit]) rfl rfl, ?_⟩
    simp [mstep, hl, outRel, dbCommit, hs.db]

/-! ## new views and batches -/

theorem views_frame' {ms ms' : MSt} (hr : ∀ r, Pinned ms r → ms'.mem.read r = ms.mem.read r) (h : Nat) :
    (ms.views.lookup h).map (viewOf ms') = (ms.views.lookup h).map (viewOf ms) := by
  cases hl : ms.views.lookup h with
  | none => rfl
  | some r =>
    simp only [Option.map_some, viewOf]
    rw [hr r (Or.inl ⟨h, hl⟩)]

theorem batches_frame' {ms ms' : MSt} (hr : ∀ r, Pinned ms r → ms'.mem.read r = ms.mem.read r) (h : Nat) :
    (ms.batches.lookup h).map (batchOf ms') = (ms.batches.lookup h).map (batchOf ms) := by
  cases hl : ms.batches.lookup h with
  | none => rfl
  | some bt =>
    simp only [Option.map_some, batchOf]
    rw [hr bt.realm (Or.inr ⟨h, bt, hl, Or.inl rfl⟩)]
    have hd : deref ms'.mem bt.sets = deref ms.mem bt.sets :=
      deref_congr (fun e he => hr e.2 (Or.inr ⟨h, bt, hl, Or.inr ⟨e, he, rfl⟩⟩))
    rw [hd]

/-- One more view on both sides. -/
theorem sim_cons_view {ms ms' : MSt} {st : St} (hs : Sim ms st) (v : Nat) (r : Ref)
    (hv : ms'.views = (v, r) :: ms.views) (hb : ms'.batches = ms.batches) (hsv : storeView ms' = storeView ms)
    (hr : ∀ x, Pinned ms x → ms'.mem.read x = ms.mem.read x) :
    Sim ms' { st with views := (v, viewOf ms' r) :: st.views } := by
  refine ⟨by rw [hsv]; exact hs.db, ?_, ?_⟩
  · intro h
    simp only [hv, List.lookup_cons]
    cases h == v with
    | true => rfl
    | false => simp only []; rw [hs.views h, views_frame' hr h]
  · intro h
    simp only [hb]
    rw [hs.batches h, batches_frame' hr h]

/-- One more (or one replaced) batch on both sides; the memory is the same. -/
theorem sim_cons_batch {ms ms' : MSt} {st : St} (hs : Sim ms st) (b : Nat) (bt' : MBatch) (sb' : Batch)
    (hv : ms'.views = ms.views) (hb : ms'.batches = (b, bt') :: ms.batches) (hmem : ms'.mem = ms.mem) (hm : ms'.m = ms.m)
    (hproj : bproj sb' = batchOf ms' bt') : Sim ms' { st with batches := (b, sb') :: st.batches } := by
  have hr : ∀ x, Pinned ms x → ms'.mem.read x = ms.mem.read x := fun x _ => by rw [hmem]
  refine ⟨by simp only [storeView, hmem, hm]; exact hs.db, ?_, ?_⟩
  · intro h
    simp only [hv]
    rw [hs.views h, views_frame' hr h]
  · intro h
    simp only [hb, List.lookup_cons]
    cases h == b with
    | true => simp only [Option.map_some, hproj]
    | false => simp only []; rw [hs.batches h, batches_frame' hr h]

theorem dbCheck_open {ms : MSt} {st : St} (hs : Sim ms st) : dbCheck st.db = .ok := by
  simp [dbCheck, hs.db]

theorem sim_withRealm {ms : MSt} {st : St} (hs : Sim ms st) (v p : Nat) (r : Ref) (hk : r ∈ ms.known) :
    Sim (mstep ms (.withRealm v p r)).1 (step st (.view v p (ms.mem.read r) .abs)).1 ∧
      outRel (mstep ms (.withRealm v p r)).1 (mstep ms (.withRealm v p r)).2 (step st (.view v p (ms.mem.read r) .abs)).2 := by
  have hv := hs.views p
  cases hl : ms.views.lookup p with
  | none =>
    rw [hl] at hv
    simp only [step, onView, hv, Option.map_none, mstep, hl]
    exact ⟨hs, trivial⟩
  | some rp =>
    rw [hl] at hv
    simp only [step, onView, hv, Option.map_some, viewOf, vRead, dbCheck_open hs, mstep, hl, hk, if_true]
    exact ⟨sim_cons_view hs v r rfl rfl rfl (fun _ _ => rfl), trivial⟩

theorem read_alloc_next (m : Mem) (b : Bytes) : (m.alloc b).1.read m.next = b := read_alloc_new m b

/-- The state after a successful `WithExtendedRealm`. -/
def extSt (ms : MSt) (v : Nat) (rp r : Ref) : MSt :=
  { ms with mem := (ms.mem.alloc (ms.mem.read rp ++ ms.mem.read r)).1, views := (v, ms.mem.next) :: ms.views }

theorem sim_withExtendedRealm {ms : MSt} {st : St} (hs : Sim ms st) (hi : MInv ms) (v p : Nat) (r : Ref) (hk : r ∈ ms.known) :
    Sim (mstep ms (.withExtendedRealm v p r)).1 (step st (.view v p (ms.mem.read r) .ext)).1 ∧
      outRel (mstep ms (.withExtendedRealm v p r)).1 (mstep ms (.withExtendedRealm v p r)).2
        (step st (.view v p (ms.mem.read r) .ext)).2 := by
  have hv := hs.views p
  cases hl : ms.views.lookup p with
  | none =>
    rw [hl] at hv
    simp only [step, onView, hv, Option.map_none, mstep, hl]
    exact ⟨hs, trivial⟩
  | some rp =>
    rw [hl] at hv
    have hm : mstep ms (.withExtendedRealm v p r) = (extSt ms v rp r, .ok) := by
      simp only [mstep, hl, hk, if_true, extSt, alloc_ref]
    have hreads : ∀ x, Pinned ms x → (extSt ms v rp r).mem.read x = ms.mem.read x :=
      fun x hx => read_alloc_lt _ _ _ (pinned_lt hi hx)
    have key := sim_cons_view (ms' := extSt ms v rp r) hs v ms.mem.next rfl rfl
      (deref_congr (fun e he => read_alloc_lt _ _ _ (hi.owned_lt e he))) hreads
    have hst : step st (.view v p (ms.mem.read r) .ext) =
        ({ st with views := (v, viewOf (extSt ms v rp r) ms.mem.next) :: st.views }, .ok) := by
      simp only [step, onView, hv, Option.map_some, viewOf, vRead, dbCheck_open hs, extSt, read_alloc_next]
    rw [hm, hst]
    exact ⟨key, trivial⟩

theorem sim_batch {ms : MSt} {st : St} (hs : Sim ms st) (b v : Nat) :
    Sim (mstep ms (.batch b v)).1 (step st (.batch b v)).1 ∧
      outRel (mstep ms (.batch b v)).1 (mstep ms (.batch b v)).2 (step st (.batch b v)).2 := by
  have hv := hs.views v
  cases hl : ms.views.lookup v with
  | none =>
    rw [hl] at hv
    simp only [step, onView, hv, Option.map_none, mstep, hl]
    exact ⟨hs, trivial⟩
  | some rv =>
    rw [hl] at hv
    simp only [step, onView, hv, Option.map_some, viewOf, vRead, dbCheck_open hs, mstep, hl]
    exact ⟨sim_cons_batch hs b _ _ rfl rfl rfl rfl rfl, trivial⟩

theorem sim_bset {ms : MSt} {st : St} (hs : Sim ms st) (b : Nat) (k x : Ref) (hk : k ∈ ms.known ∧ x ∈ ms.known) :
    Sim (mstep ms (.bset b k x)).1 (step st (.bset b (ms.mem.read k) (ms.mem.read x))).1 ∧
      outRel (mstep ms (.bset b k x)).1 (mstep ms (.bset b k x)).2 (step st (.bset b (ms.mem.read k) (ms.mem.read x))).2 := by
  rcases sim_batch_lookup hs b with ⟨hl, hsb⟩ | ⟨bt, sb, hl, hsb, h1, h2, h3, h4⟩
  · simp only [step, onBatch, hsb, mstep, hl]
    exact ⟨hs, trivial⟩
  · simp only [step, onBatch, hsb, mstep, hl, hk, and_self, if_true]
    refine ⟨sim_cons_batch hs b _ _ rfl rfl rfl rfl ?_, trivial⟩
    simp only [bproj, batchOf, h1, h2, h3, h4, deref_rset]

theorem sim_bdel {ms : MSt} {st : St} (hs : Sim ms st) (b : Nat) (k : Ref) (hk : k ∈ ms.known) :
    Sim (mstep ms (.bdel b k)).1 (step st (.bdel b (ms.mem.read k))).1 ∧
      outRel (mstep ms (.bdel b k)).1 (mstep ms (.bdel b k)).2 (step st (.bdel b (ms.mem.read k))).2 := by
  rcases sim_batch_lookup hs b with ⟨hl, hsb⟩ | ⟨bt, sb, hl, hsb, h1, h2, h3, h4⟩
  · simp only [step, onBatch, hsb, mstep, hl]
    exact ⟨hs, trivial⟩
  · simp only [step, onBatch, hsb, mstep, hl, hk, if_true]
    refine ⟨sim_cons_batch hs b _ _ rfl rfl rfl rfl ?_, trivial⟩
    simp only [bproj, batchOf, h1, h2, h3, h4, deref_rdel]

theorem sim_cancel {ms : MSt} {st : St} (hs : Sim ms st) (b : Nat) :
    Sim (mstep ms (.cancel b)).1 (step st (.cancel b)).1 ∧
      outRel (mstep ms (.cancel b)).1 (mstep ms (.cancel b)).2 (step st (.cancel b)).2 := by
  rcases sim_batch_lookup hs b with ⟨hl, hsb⟩ | ⟨bt, sb, hl, hsb, h1, h2, h3, h4⟩
  · simp only [step, onBatch, hsb, mstep, hl]
    exact ⟨hs, trivial⟩
  · simp only [step, onBatch, hsb, mstep, hl]
    refine ⟨sim_cons_batch hs b _ _ rfl rfl rfl rfl ?_, trivial⟩
    simp only [bproj, batchOf, h1, h2, deref, List.map_nil]

/-! ## the iterations -/

theorem keys_of_view (ms : MSt) (rv p : Ref) :
    (ms.m.filter (fun e => hasPfx (fullKey ms rv p) e.1)).map (·.1) =
      (snapshot (ms.mem.read rv) (ms.mem.read p) (storeView ms)).map (·.1) := by
  simp only [snapshot, storeView, fullKey]
  rw [← deref_filter ms.mem ms.m (fun k => hasPfx (ms.mem.read rv ++ ms.mem.read p) k), keys_deref]

theorem sim_iterk {ms : MSt} {st : St} (hs : Sim ms st) (hi : MInv ms) (v : Nat) (p : Ref) (d : Dir) (hk : p ∈ ms.known) :
    Sim (mstep ms (.iterk v p d)).1 (step st (.iterk v (ms.mem.read p) d 0)).1 ∧
      outRel (mstep ms (.iterk v p d)).1 (mstep ms (.iterk v p d)).2 (step st (.iterk v (ms.mem.read p) d 0)).2 := by
  have hq := sim_quiet hs hi (.iterk v p d) rfl (mstep_views_unchanged _ _ rfl) (mstep_batches_unchanged _ _ rfl) (fun _ _ h => by cases h)
  have hv := hs.views v
  cases hl : ms.views.lookup v with
  | none =>
    rw [hl] at hv
    simp only [step, onView, hv]
    refine ⟨hq, ?_⟩
    simp [mstep, hl, outRel]
  | some rv =>
    rw [hl] at hv
    simp only [step, onView, hv, Option.map_some]
    refine ⟨hq, ?_⟩
    rw [mstep_iterk ms v rv p d hl hk]
    simp only [outRel, viewOf, vRead, dbIterateKeys, hs.db, Bool.false_eq_true, if_false, stopAfter, if_true, iterkSt]
    have a5 := (allocKeys_ok (ms.mem.read rv).length
      (sortBy (dirLt d) ((ms.m.filter (fun e => hasPfx (fullKey ms rv p) e.1)).map (·.1))) ms.mem).2.2.2.2
    show List.map (iterkRes ms rv p d).1.read (iterkRes ms rv p d).2 = _
    simp only [iterkRes]
    rw [a5, keys_of_view]
    rfl

theorem sim_iter {ms : MSt} {st : St} (hs : Sim ms st) (hi : MInv ms) (v : Nat) (p : Ref) (d : Dir) (hk : p ∈ ms.known) :
    Sim (mstep ms (.iter v p d)).1 (step st (.iter v (ms.mem.read p) d 0)).1 ∧
      outRel (mstep ms (.iter v p d)).1 (mstep ms (.iter v p d)).2 (step st (.iter v (ms.mem.read p) d 0)).2 := by
  have hq := sim_quiet hs hi (.iter v p d) rfl (mstep_views_unchanged _ _ rfl) (mstep_batches_unchanged _ _ rfl) (fun _ _ h => by cases h)
  have hv := hs.views v
  cases hl : ms.views.lookup v with
  | none =>
    rw [hl] at hv
    simp only [step, onView, hv]
    refine ⟨hq, ?_⟩
    simp [mstep, hl, outRel]
  | some rv =>
    rw [hl] at hv
    simp only [step, onView, hv, Option.map_some]
    refine ⟨hq, ?_⟩
    rw [mstep_iter ms v rv p d hl hk]
    simp only [outRel, viewOf, vRead, dbIterate, hs.db, Bool.false_eq_true, if_false, stopAfter, if_true, iterSt]
    obtain ⟨_, _, c3, c4⟩ := copyAll_ok (ms.m.filter (fun e => hasPfx (fullKey ms rv p) e.1)) ms.mem (filter_lt hi _)
    obtain ⟨_, a2, _, _, a5⟩ := allocKeys_ok (ms.mem.read rv).length (iterKeys ms rv p d) (iterSnap ms rv p).1
    -- the snapshot, by value
    have hsnap : deref (iterSnap ms rv p).1 (iterSnap ms rv p).2 = snapshot (ms.mem.read rv) (ms.mem.read p) (storeView ms) := by
      simp only [iterSnap]
      rw [c4]
      simp only [snapshot, storeView, fullKey]
      exact deref_filter ms.mem ms.m (fun k => hasPfx (ms.mem.read rv ++ ms.mem.read p) k)
    have hkeys : iterKeys ms rv p d = sortBy (dirLt d) ((snapshot (ms.mem.read rv) (ms.mem.read p) (storeView ms)).map (·.1)) := by
      simp only [iterKeys]
      rw [← hsnap, keys_deref]
    -- pair up the two maps over the sorted keys
    have hzip : ((iterRes ms rv p d).2.zip ((iterKeys ms rv p d).map (fun k => (rget k (iterSnap ms rv p).2).getD 0))).map
        (fun e => ((iterRes ms rv p d).1.read e.1, (iterRes ms rv p d).1.read e.2)) =
        (iterKeys ms rv p d).map (fun k => (k.drop (ms.mem.read rv).length,
          (iterRes ms rv p d).1.read ((rget k (iterSnap ms rv p).2).getD 0))) := by
      have : (fun e : Ref × Ref => ((iterRes ms rv p d).1.read e.1, (iterRes ms rv p d).1.read e.2)) =
          Prod.map (iterRes ms rv p d).1.read (iterRes ms rv p d).1.read := rfl
      rw [this, ← List.zip_map]
      simp only [iterRes] at a5 ⊢
      rw [a5, List.map_map, List.zip_map']
      rfl
    rw [hzip, hkeys]
    simp only [iterAll]
    apply List.map_congr_left
    intro k hkm
    have hkm' : k ∈ (iterSnap ms rv p).2.map (·.1) := by
      rw [← keys_deref (iterSnap ms rv p).1, hsnap]
      exact (mem_sortBy (lt := dirLt d) k _).mp hkm
    obtain ⟨e, he, hr⟩ := rget_of_key_mem hkm'
    have hlt : e.2 < (iterSnap ms rv p).1.next := (c3 e he).2
    have hag : aget k (snapshot (ms.mem.read rv) (ms.mem.read p) (storeView ms)) = some ((iterSnap ms rv p).1.read e.2) := by
      rw [← hsnap, aget_deref, hr]; rfl
    simp only [hr, Option.getD_some, hag]
    congr 1
    exact a2 e.2 hlt

/-! ## one request, and histories -/

/-- **One step of the simulation.**  A caller action leaves the value-model state where it is; a store request is the
value-model request `toOp`, with corresponding answers. -/
theorem sim_step {ms : MSt} {st : St} (hs : Sim ms st) (hi : MInv ms) (op : MOp) (hk : argsKnown ms op)
    (hw : ∀ r b, op = .write r b → ¬ Pinned ms r) :
    match toOp ms op with
    | none => Sim (mstep ms op).1 st
    | some o => Sim (mstep ms op).1 (step st o).1 ∧ outRel (mstep ms op).1 (mstep ms op).2 (step st o).2 := by
  cases op with
  | alloc b => exact sim_caller hs hi _ rfl hw
  | write r b => exact sim_caller hs hi _ rfl hw
  | withRealm v p r => exact sim_withRealm hs v p r hk
  | withExtendedRealm v p r => exact sim_withExtendedRealm hs hi v p r hk
  | realm v => exact sim_realm hs hi v
  | set v k x => exact sim_set hs hi v k x hk
  | get v k => exact sim_get hs hi v k hk
  | has v k => exact sim_has hs hi v k hk
  | del v k => exact sim_del hs hi v k hk
  | delp v p => exact sim_delp hs hi v p hk
  | iter v p d => exact sim_iter hs hi v p d hk
  | iterk v p d => exact sim_iterk hs hi v p d hk
  | batch b v => exact sim_batch hs b v
  | bset b k x => exact sim_bset hs b k x hk
  | bdel b k => exact sim_bdel hs b k hk
  | commit b => exact sim_commit hs hi b
  | cancel b => exact sim_cancel hs b

/-- The value-model history a memory-model history amounts to: every store request with its arguments as the buffers read
when it is made; the caller's actions disappear. -/
def toOps : MSt → List MOp → List Op
  | _, [] => []
  | s, op :: ops =>
    match toOp s op with
    | none => toOps (mstep s op).1 ops
    | some o => o :: toOps (mstep s op).1 ops

/-- A history in which every slice argument is a buffer the caller holds and no caller write hits a buffer that a view or a
pending batch still references at that moment. -/
def Safe : MSt → List MOp → Prop
  | _, [] => True
  | s, op :: ops => argsKnown s op ∧ (∀ r b, op = .write r b → ¬ Pinned s r) ∧ Safe (mstep s op).1 ops

theorem sim_run {ms : MSt} {st : St} (hs : Sim ms st) (hi : MInv ms) (ops : List MOp) (hsafe : Safe ms ops) :
    Sim (mrun ms ops) (run st (toOps ms ops)).1 := by
  induction ops generalizing ms st with
  | nil => exact hs
  | cons op rest ih =>
    obtain ⟨hk, hw, hrest⟩ := hsafe
    have hstep := sim_step hs hi op hk hw
    simp only [mrun, toOps]
    cases ho : toOp ms op with
    | none =>
      rw [ho] at hstep
      exact ih hstep (minv_step ms hi op) hrest
    | some o =>
      rw [ho] at hstep
      simp only [run]
      exact ih hstep.1 (minv_step ms hi op) hrest

end Hive.KV.Mem
