import Hive.Model.C12bSubMgr
import Hive.Proofs.C12bBase
/-! Lemmas about `Σ_c subs[c][t]` and about the clean-up loop of the SubscriptionManager model. -/
namespace Hive.C12b.SM
open AMap

/-- The count a topic map holds for `t` (0 if absent). -/
def cntOf (m : AMap Nat) (t : Nat) : Nat := (m.get t).getD 0

theorem sumOver_cons (c : Nat) (m : AMap Nat) (subs : AMap (AMap Nat)) (t : Nat) :
    sumOver ((c, m) :: subs) t = cntOf m t + sumOver subs t := by
  simp [sumOver, cntOf]

theorem sumOver_nil (t : Nat) : sumOver [] t = 0 := rfl

/-- Overwriting client `c`'s map: the sum changes by the difference of the two maps' counts. -/
theorem sumOver_set_some (subs : AMap (AMap Nat)) (c : Nat) (old m' : AMap Nat) (t : Nat)
    (h : subs.get c = some old) :
    sumOver (subs.set c m') t + cntOf old t = sumOver subs t + cntOf m' t := by
  induction subs with
  | nil => simp [AMap.get] at h
  | cons p subs ih =>
    obtain ⟨c', m0⟩ := p
    by_cases hc : c' = c
    · simp only [AMap.get, hc, if_true, Option.some.injEq] at h
      subst h
      simp only [AMap.set, hc, if_true, sumOver_cons]
      omega
    · simp only [AMap.get, hc, if_false] at h
      simp only [AMap.set, hc, if_false, sumOver_cons]
      have := ih h
      omega

theorem sumOver_set_none (subs : AMap (AMap Nat)) (c : Nat) (m' : AMap Nat) (t : Nat)
    (h : subs.get c = none) :
    sumOver (subs.set c m') t = sumOver subs t + cntOf m' t := by
  induction subs with
  | nil => simp [AMap.set, sumOver_cons, sumOver_nil]
  | cons p subs ih =>
    obtain ⟨c', m0⟩ := p
    by_cases hc : c' = c
    · simp [AMap.get, hc] at h
    · simp only [AMap.get, hc, if_false] at h
      simp only [AMap.set, hc, if_false, sumOver_cons]
      have := ih h
      omega

theorem sumOver_del_none (subs : AMap (AMap Nat)) (c : Nat) (t : Nat) (h : subs.get c = none) :
    sumOver (subs.del c) t = sumOver subs t := by
  induction subs with
  | nil => rfl
  | cons p subs ih =>
    obtain ⟨c', m0⟩ := p
    by_cases hc : c' = c
    · simp [AMap.get, hc] at h
    · simp only [AMap.get, hc, if_false] at h
      simp only [AMap.del, hc, if_false, sumOver_cons, ih h]

theorem sumOver_del_some (subs : AMap (AMap Nat)) (c : Nat) (old : AMap Nat) (t : Nat)
    (hn : subs.keys.Nodup) (h : subs.get c = some old) :
    sumOver (subs.del c) t + cntOf old t = sumOver subs t := by
  induction subs with
  | nil => simp [AMap.get] at h
  | cons p subs ih =>
    obtain ⟨c', m0⟩ := p
    simp only [AMap.keys, List.map_cons, List.nodup_cons] at hn
    by_cases hc : c' = c
    · simp only [AMap.get, hc, if_true, Option.some.injEq] at h
      subst h
      have hnone : AMap.get subs c = none := (get_eq_none_iff subs c).2 (hc ▸ hn.1)
      simp only [AMap.del, hc, if_true, sumOver_cons, sumOver_del_none subs c t hnone]
      omega
    · simp only [AMap.get, hc, if_false] at h
      simp only [AMap.del, hc, if_false, sumOver_cons]
      have := ih hn.2 h
      omega

theorem cntOf_le_sumOver (subs : AMap (AMap Nat)) (c : Nat) (m : AMap Nat) (t : Nat)
    (h : subs.get c = some m) : cntOf m t ≤ sumOver subs t := by
  induction subs with
  | nil => simp [AMap.get] at h
  | cons p subs ih =>
    obtain ⟨c', m0⟩ := p
    by_cases hc : c' = c
    · simp only [AMap.get, hc, if_true, Option.some.injEq] at h
      subst h; simp only [sumOver_cons]; omega
    · simp only [AMap.get, hc, if_false] at h
      simp only [sumOver_cons]
      have := ih h; omega

theorem cntOf_set (m : AMap Nat) (t t' n : Nat) :
    cntOf (m.set t n) t' = if t' = t then n else cntOf m t' := by
  simp only [cntOf, get_set]; split <;> simp

theorem cntOf_del (m : AMap Nat) (t t' : Nat) :
    cntOf (m.del t) t' = if t' = t then 0 else cntOf m t' := by
  simp only [cntOf, get_del]; split <;> simp

theorem cntOf_nil (t : Nat) : cntOf [] t = 0 := rfl

/-! ## the clean-up loop -/

/-- What the loop leaves in the global topic map. -/
theorem cleanLoop_get (m tp : AMap Nat) (hn : m.keys.Nodup) (t : Nat) :
    (cleanLoop m tp).topics.get t =
      match m.get t with
      | none => tp.get t
      | some n =>
        match tp.get t with
        | none => none
        | some tc => if tc ≤ n then none else some (tc - n) := by
  induction m generalizing tp with
  | nil => simp [cleanLoop, AMap.get]
  | cons p rest ih =>
    obtain ⟨t0, n0⟩ := p
    simp only [AMap.keys, List.map_cons, List.nodup_cons] at hn
    by_cases ht : t0 = t
    · subst ht
      have hrest : ∀ tp', (cleanLoop rest tp').topics.get t0 = tp'.get t0 := by
        intro tp'
        rw [ih tp' hn.2]
        have : AMap.get rest t0 = none := (get_eq_none_iff rest t0).2 hn.1
        simp [this]
      simp only [AMap.get, if_true]
      cases htp : tp.get t0 with
      | none => simp only [cleanLoop, htp]; rw [hrest, htp]
      | some tc =>
        simp only [cleanLoop, htp]
        by_cases hle : tc ≤ n0
        · simp only [hle, if_true]; rw [hrest, get_del_self]
        · simp only [hle, if_false]; rw [hrest, get_set_self]
    · simp only [AMap.get, ht, if_false]
      have hne : t ≠ t0 := fun e => ht e.symm
      cases htp : tp.get t0 with
      | none => simp only [cleanLoop, htp]; exact ih tp hn.2
      | some tc =>
        simp only [cleanLoop, htp]
        by_cases hle : tc ≤ n0
        · simp only [hle, if_true]
          rw [ih _ hn.2, get_del_other _ hne]
        · simp only [hle, if_false]
          rw [ih _ hn.2, get_set_other _ _ hne]

theorem cleanLoop_nodup (m tp : AMap Nat) (h : tp.keys.Nodup) : (cleanLoop m tp).topics.keys.Nodup := by
  induction m generalizing tp with
  | nil => simpa [cleanLoop] using h
  | cons p rest ih =>
    obtain ⟨t0, n0⟩ := p
    simp only [cleanLoop]
    split
    · split
      · exact ih _ (nodup_del _ _ h)
      · exact ih _ (nodup_set _ _ _ h)
    · exact ih _ h

/-- The topics reported as removed are exactly those whose global count is used up by the client. -/
theorem mem_cleanLoop_removed (m tp : AMap Nat) (hn : m.keys.Nodup) (t : Nat) :
    t ∈ (cleanLoop m tp).removed ↔ ∃ n tc, m.get t = some n ∧ tp.get t = some tc ∧ tc ≤ n := by
  induction m generalizing tp with
  | nil => simp [cleanLoop, AMap.get]
  | cons p rest ih =>
    obtain ⟨t0, n0⟩ := p
    simp only [AMap.keys, List.map_cons, List.nodup_cons] at hn
    have hnone : AMap.get rest t0 = none := (get_eq_none_iff rest t0).2 hn.1
    by_cases ht : t0 = t
    · subst ht
      have hr : ∀ tp', t0 ∉ (cleanLoop rest tp').removed := by
        intro tp' hm
        obtain ⟨n, tc, h1, _⟩ := (ih tp' hn.2).1 hm
        rw [hnone] at h1; cases h1
      simp only [AMap.get, if_true, Option.some.injEq, exists_and_left, exists_eq_left']
      cases htp : tp.get t0 with
      | none => simp only [cleanLoop, htp]; simp [hr]
      | some tc =>
        simp only [cleanLoop, htp]
        by_cases hle : tc ≤ n0
        · simp [hle]
        · simp [hle, hr]
    · have hne : t ≠ t0 := fun e => ht e.symm
      simp only [AMap.get, ht, if_false]
      cases htp : tp.get t0 with
      | none => simp only [cleanLoop, htp]; exact ih tp hn.2
      | some tc =>
        simp only [cleanLoop, htp]
        by_cases hle : tc ≤ n0
        · simp only [hle, if_true, List.mem_cons, hne, false_or]
          rw [ih _ hn.2]; simp only [get_del_other _ hne]
        · simp only [hle, if_false]
          rw [ih _ hn.2]; simp only [get_set_other _ _ hne]

/-- `TopicUnsubscribed` is announced as many times as the client had subscribed the topic. -/
theorem count_cleanLoop_unsub (m tp : AMap Nat) (hn : m.keys.Nodup) (t : Nat) :
    (cleanLoop m tp).unsub.count t = cntOf m t := by
  induction m generalizing tp with
  | nil => simp [cleanLoop, cntOf, AMap.get]
  | cons p rest ih =>
    obtain ⟨t0, n0⟩ := p
    simp only [AMap.keys, List.map_cons, List.nodup_cons] at hn
    have hnone : AMap.get rest t0 = none := (get_eq_none_iff rest t0).2 hn.1
    have hstep : ∀ tp', (List.replicate n0 t0 ++ (cleanLoop rest tp').unsub).count t = cntOf ((t0, n0) :: rest) t := by
      intro tp'
      rw [List.count_append, ih tp' hn.2, List.count_replicate]
      by_cases ht : t0 = t
      · subst ht; simp [cntOf, AMap.get, hnone]
      · have : ¬ (t0 == t) = true := by simpa using ht
        simp [cntOf, AMap.get, ht]
    simp only [cleanLoop]
    split
    · split <;> exact hstep _
    · exact hstep _

end Hive.C12b.SM
