import Hive.Model.DerivedVarSeq
namespace Hive.Derived

/-- The derived value is `compute` of the inputs it was last computed from; while subscribed these are the current
inputs; the deriving variable holds the derived value. -/
structure DV.Inv (s : DV) : Prop where
  val : s.d = s.fn s.seen
  cur : s.subscribed = true → s.seen = s.ins
  tgt : ∀ t, s.target = some t → t = s.d

theorem foldl_const_of_ne_nil {α β : Type} (c : β) (init : β) (l : List α) (h : l ≠ []) :
    l.foldl (fun _ _ => c) init = c := by
  cases l with
  | nil => exact absurd rfl h
  | cons a l =>
    simp only [List.foldl_cons]
    clear h
    induction l with
    | nil => rfl
    | cons b l ih => simpa using ih

theorem DV.inv_create (fn : List Int → Int) (init : Int) (vals : List Int) (h : vals ≠ []) : (DV.create fn init vals).Inv := by
  refine ⟨?_, fun _ => rfl, ?_⟩
  · simp only [DV.create]
    exact foldl_const_of_ne_nil (fn vals) init vals h
  · intro t ht
    simp [DV.create] at ht

theorem DV.inv_step (s : DV) (op : DVOp) (h : s.Inv) : (s.step op).Inv := by
  cases op with
  | set i v =>
    simp only [DV.step]
    split
    · split
      · refine ⟨rfl, fun _ => rfl, ?_⟩
        intro t ht
        cases hs : s.target with
        | none => simp [hs] at ht
        | some t0 => simp [hs] at ht; exact ht.symm
      · rename_i hns
        refine ⟨h.val, ?_, h.tgt⟩
        intro hsub
        exact absurd hsub hns
    · exact h
  | unsub =>
    refine ⟨h.val, ?_, h.tgt⟩
    intro hsub
    simp [DV.step] at hsub
  | derive =>
    simp only [DV.step]
    split
    · exact h
    · refine ⟨h.val, h.cur, ?_⟩
      intro t ht
      simp at ht
      exact ht.symm

theorem DV.inv_run (s : DV) (ops : List DVOp) (h : s.Inv) : (s.run ops).Inv := by
  induction ops generalizing s with
  | nil => exact h
  | cons op ops ih => exact ih _ (DV.inv_step s op h)

/-- Once unsubscribed, the derived value never changes again. -/
theorem DV.frozen_run (s : DV) (ops : List DVOp) (h : s.subscribed = false) :
    (s.run ops).d = s.d ∧ (s.run ops).subscribed = false := by
  induction ops generalizing s with
  | nil => exact ⟨rfl, h⟩
  | cons op ops ih =>
    have hs : (s.step op).d = s.d ∧ (s.step op).subscribed = false := by
      cases op with
      | set i v =>
        simp only [DV.step]
        split
        · simp [h]
        · exact ⟨rfl, h⟩
      | unsub => exact ⟨rfl, rfl⟩
      | derive =>
        simp only [DV.step]
        split <;> exact ⟨rfl, h⟩
    have := ih (s.step op) hs.2
    simp only [DV.run]
    exact ⟨this.1.trans hs.1, this.2⟩

end Hive.Derived
