import Hive.Proofs.BatchWriterInv
/-!
# C08 proofs, part 7: no reachable deadlock
-/
namespace Hive.BatchWriter
open Hive.Conc Hive.Spec.BatchWriter

theorem exists_of_countP_pos (p : Thread → Bool) (l : List Thread) (h : 0 < l.countP p) : ∃ u ∈ l, p u = true :=
  List.countP_pos_iff.mp h

/-- The writer token can always move, except before it is spawned and after it has exited. -/
theorem writer_stuck {s : St} (h : step s .writer = []) :
    (s.wpc = .notStarted ∧ s.spawned = false) ∨ s.wpc = .exited := by
  simp only [step, List.map_eq_nil_iff] at h
  cases hw : s.wpc <;> simp [stepWriter, hw, recvStep, afterCommit] at h ⊢
  · simpa using h
  all_goals (revert h; (repeat' split) <;> simp_all)


/-- **No deadlock**: in no reachable configuration (with a writer token in the pool) are all threads unable
to move while some call is unfinished. -/
theorem no_deadlock {c : Cfg St Thread} (hi : Inv c) (hw : Thread.writer ∈ c.2) :
    ¬ Deadlock sys (fun t => t.finished = true) c := by
  obtain ⟨s, ts⟩ := c
  rintro ⟨hst, t, ht, hnf⟩
  have hst' : ∀ u ∈ ts, step s u = [] := hst
  obtain ⟨hc, hwo, hws, hl, hn, hti, _⟩ := hi
  simp only at hc hwo hws hl hn hti hw ht hnf
  have hwr := writer_stuck (hst' _ hw)
  -- the start sequence is not in flight
  have hgo : ¬ (s.added = true ∧ s.spawned = false) := by
    intro hx
    have h1 := hc.go
    simp [hx] at h1
    obtain ⟨u, hu, hp⟩ := exists_of_countP_pos atGo ts (by omega)
    have h2 := hst' u hu
    cases u with
    | prod id pc cur sc => simp [atGo] at hp; subst hp; simp [step, stepProd] at h2
    | _ => simp [atGo] at hp
  -- nobody is blocked in Stop's Wait
  have hwait : ∀ u ∈ ts, atWait u = true → False := by
    intro u hu hp
    cases u with
    | stopper id pc =>
      simp [atWait] at hp; subst hp
      have h1 := hst' _ hu
      simp [step, stepStop] at h1
      have h2 := hl.wg
      by_cases ha : s.added = true ∧ s.wpc ≠ .exited
      · rcases hwr with ⟨_, hs⟩ | he
        · exact hgo ⟨ha.1, hs⟩
        · exact ha.2 he
      · simp [ha] at h2; exact h1 h2
    | _ => simp [atWait] at hp
  -- the mutex is free
  have hmu : s.mu = false := by
    cases hx : s.mu
    · rfl
    · exfalso
      have h0 := hc.mu
      simp [hx] at h0
      obtain ⟨u, hu, hp⟩ := exists_of_countP_pos holdsMu ts (by omega)
      have h1 := hst' u hu
      cases u with
      | prod id pc cur sc =>
        cases pc <;> simp [holdsMu] at hp <;> simp [step, stepProd] at h1 <;> (repeat' split at h1) <;> simp_all
      | stopper id pc =>
        cases pc <;> simp [holdsMu] at hp <;>
          first | ((simp [step, stepStop] at h1 <;> (repeat' split at h1) <;> simp_all); done) | exact hwait _ hu rfl
      | _ => simp [holdsMu] at hp
  -- the Once body is not in flight
  have honce : s.once = 0 ∨ s.once = 3 := by
    have hle := hl.once_le
    by_cases h1 : s.once = 1
    · exfalso
      have h0 := hc.pre
      simp [h1] at h0
      obtain ⟨u, hu, hp⟩ := exists_of_countP_pos bodyPre ts (by omega)
      have h2 := hst' u hu
      cases u with
      | prod id pc cur sc => cases pc <;> simp [bodyPre] at hp <;> simp [step, stepProd, hmu] at h2 <;> (split at h2 <;> simp at h2)
      | _ => simp [bodyPre] at hp
    · by_cases h2 : s.once = 2
      · exfalso
        have h0 := hc.post
        simp [h2] at h0
        obtain ⟨u, hu, hp⟩ := exists_of_countP_pos bodyPost ts (by omega)
        have h3 := hst' u hu
        cases u with
        | prod id pc cur sc => cases pc <;> simp [bodyPost] at hp <;> simp [step, stepProd] at h3
        | _ => simp [bodyPost] at hp
      · omega
  -- the unfinished thread can move after all
  have h1 := hst' t ht
  cases t with
  | prod id pc cur sc =>
    cases pc
    case idle =>
      cases sc with
      | nil => simp [Thread.finished] at hnf
      | cons o rest => simp [step, stepProd] at h1
    case onceChk => rcases honce with h | h <;> simp [step, stepProd, h] at h1
    case send =>
      have h2 := hti _ ht
      simp only [TInv] at h2
      have hsp := hl.once3_spawned (h2.2.2.2.2.1 (by simp))
      have hex : s.wpc = .exited := by
        rcases hwr with ⟨_, hs⟩ | he
        · simp [hsp] at hs
        · exact he
      have hz := hl.fin_win (Or.inr hex)
      have hwn := hc.win
      have hpos : 0 < ts.countP inWin := List.countP_pos_iff.mpr ⟨_, ht, by simp [inWin]⟩
      omega
    all_goals (simp [step, stepProd, hmu] at h1 <;> (repeat' split at h1) <;> simp_all)
  | stopper id pc =>
    cases pc
    case wait => exact hwait _ ht rfl
    case fin => simp [Thread.finished] at hnf
    all_goals (simp [step, stepStop, hmu] at h1 <;> (repeat' split at h1) <;> simp_all)
  | flusher l n =>
    cases n with
    | zero => simp [Thread.finished] at hnf
    | succ n => cases l <;> simp [step, stepFlush] at h1 <;> (repeat' split at h1) <;> simp_all
  | writer => simp [Thread.finished] at hnf
  | obs sc =>
    cases sc with
    | nil => simp [Thread.finished] at hnf
    | cons o rest => simp [step, stepObs] at h1

theorem writer_mem_reach {c0 c : Cfg St Thread} (hw : Thread.writer ∈ c0.2) (hr : Reach sys c0 c) :
    Thread.writer ∈ c.2 := by
  refine inv_of_step (fun c => Thread.writer ∈ c.2) hw ?_ hr
  intro s pre t post s' t' h hm
  simp only [List.mem_append, List.mem_cons] at h ⊢
  rcases h with h | h | h
  · exact Or.inl h
  · subst h
    exact Or.inr (Or.inl (mem_step_writer.mp hm).1.symm)
  · exact Or.inr (Or.inr h)
end Hive.BatchWriter
