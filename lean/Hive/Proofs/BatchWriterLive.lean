import Hive.Proofs.BatchWriterInv
/-!
# C08 proofs, part 7: no reachable deadlock
-/
namespace Hive.BatchWriter
open Hive.Conc Hive.Spec.BatchWriter

theorem exists_of_countP_pos (p : Thread → Bool) (l : List Thread) (h : 0 < l.countP p) : ∃ u ∈ l, p u = true :=
  List.countP_pos_iff.mp h

/-- The writer token can always move, except before it is spawned and after it has exited. -/
theorem writer_stuck {s : St} (h : step s .writer = []) :
    (s.wpc = .notStarted ∧ s.spawned = false) ∨ s.wpc = .exited := by
  simp only [step, List.map_eq_nil_iff] at h
  cases hw : s.wpc <;> simp [stepWriter, hw, recvStep, afterCommit] at h ⊢
  · simpa using h
  all_goals (revert h; (repeat' split) <;> simp_all)


/-- **No deadlock**: in no reachable configuration (with a writer token in the pool) are all threads unable
to move while some call is unfinished. -/
theorem no_deadlock {c : Cfg St Thread} (hi : Inv c) (hw : Thread.writer ∈ c.2) :
    ¬ Deadlock sys (fun t => t.finished = true) c := by
  obtain ⟨s, ts⟩ := c
  rintro ⟨hst, t, ht, hnf⟩
  have hst' : ∀ u ∈ ts, step s u = [] := hst
  obtain ⟨hc, hwo, hws, hl, hn, hti, _⟩ := hi
  simp only at hc hwo hws hl hn hti hw ht hnf
  have hwr := writer_stuck (hst' _ hw)
  -- the start sequence is not in flight
  have hgo : ¬ (s.added = true ∧ s.spawned = false) := by
    intro hx
    have h1 := hc.go
    simp [hx] at h1
    obtain ⟨u, hu, hp⟩ := exists_of_countP_pos atGo ts (by omega)
    have h2 := hst' u hu
    cases u with
    | prod id pc cur sc => simp [atGo] at hp; subst hp; simp [step, stepProd] at h2
    | _ => simp [atGo] at hp
  -- nobody is blocked in Stop's Wait
  have hwait : ∀ u ∈ ts, atWait u = true → False := by
    intro u hu hp
    cases u with
    | stopper id pc =>
      simp [atWait] at hp; subst hp
      have h1 := hst' _ hu
      simp [step, stepStop] at h1
      have h2 := hl.wg
      by_cases ha : s.added = true ∧ s.wpc ≠ .exited
      · rcases hwr with ⟨_, hs⟩ | he
        · exact hgo ⟨ha.1, hs⟩
        · exact ha.2 he
      · simp [ha] at h2; exact h1 h2
    | _ => simp [atWait] at hp
  -- the mutex is free
  have hmu : s.mu = false := by
    cases hx : s.mu
    · rfl
    · exfalso
      have h0 := hc.mu
      simp [hx] at h0
      obtain ⟨u, hu, hp⟩ := exists_of_countP_pos holdsMu ts (by omega)
      have h1 := hst' u hu
      cases u with
      | prod id pc cur sc =>
        cases pc <;> simp [holdsMu] at hp <;> simp [step, stepProd] at h1 <;> (repeat' split at h1) <;> simp_all
      | stopper id pc =>
        cases pc <;> simp [holdsMu] at hp <;>
          first | ((simp [step, stepStop] at h1 <;> (repeat' split at h1) <;> simp_all); done) | exact hwait _ hu rfl
      | _ => simp [holdsMu] at hp
  -- the Once body is not in flight
  have honce : s.once = 0 ∨ s.once = 3 := by
    have hle := hl.once_le
    by_cases h1 : s.once = 1
    · exfalso
      have h0 := hc.pre
      simp [h1] at h0
      obtain ⟨u, hu, hp⟩ := exists_of_countP_pos bodyPre ts (by omega)
      have h2 := hst' u hu
      cases u with
      | prod id pc cur sc => cases pc <;> simp [bodyPre] at hp <;> simp [step, stepProd, hmu] at h2 <;> (split at h2 <;> simp at h2)
      | _ => simp [bodyPre] at hp
    · by_cases h2 : s.once = 2
      · exfalso
        have h0 := hc.post
        simp [h2] at h0
        obtain ⟨u, hu, hp⟩ := exists_of_countP_pos bodyPost ts (by omega)
        have h3 := hst' u hu
        cases u with
        | prod id pc cur sc => cases pc <;> simp [bodyPost] at hp <;> simp [step, stepProd] at h3
        | _ => simp [bodyPost] at hp
      · omega
  -- the unfinished thread can move after all
  have h1 := hst' t ht
  cases t with
  | prod id pc cur sc =>
    cases pc
    case idle =>
      cases sc with
      | nil => simp [Thread.finished] at hnf
      | cons o rest => simp [step, stepProd] at h1
    case onceChk => rcases honce with h | h <;> simp [step, stepProd, h] at h1
    case send =>
      have h2 := hti _ ht
      simp only [TInv] at h2
      have hsp := hl.once3_spawned (h2.2.2.2.2.1 (by simp))
      have hex : s.wpc = .exited := by
        rcases hwr with ⟨_, hs⟩ | he
        · simp [hsp] at hs
        · exact he
      have hz := hl.fin_win (Or.inr hex)
      have hwn := hc.win
      have hpos : 0 < ts.countP inWin := List.countP_pos_iff.mpr ⟨_, ht, by simp [inWin]⟩
      omega
    all_goals (simp [step, stepProd, hmu] at h1 <;> (repeat' split at h1) <;> simp_all)
  | stopper id pc =>
    cases pc
    case wait => exact hwait _ ht rfl
    case fin => simp [Thread.finished] at hnf
    all_goals (simp [step, stepStop, hmu] at h1 <;> (repeat' split at h1) <;> simp_all)
  | flusher l n =>
    cases n with
    | zero => simp [Thread.finished] at hnf
    | succ n => cases l <;> simp [step, stepFlush] at h1 <;> (repeat' split at h1) <;> simp_all
  | writer => simp [Thread.finished] at hnf
  | obs sc =>
    cases sc with
    | nil => simp [Thread.finished] at hnf
    | cons o rest => simp [step, stepObs] at h1

theorem writer_mem_reach {c0 c : Cfg St Thread} (hw : Thread.writer ∈ c0.2) (hr : Reach sys c0 c) :
    Thread.writer ∈ c.2 := by
  refine inv_of_step (fun c => Thread.writer ∈ c.2) hw ?_ hr
  intro s pre t post s' t' h hm
  simp only [List.mem_append, List.mem_cons] at h ⊢
  rcases h with h | h | h
  · exact Or.inl h
  · subst h
    exact Or.inr (Or.inl (mem_step_writer.mp hm).1.symm)
  · exact Or.inr (Or.inr h)
/-! ### Ranked waits-for: Once → startStopMutex → WaitGroup / queue → writer goroutine

Every way a call can block, as a "lock class" with a rank; whoever blocks at rank `r` waits for a thread that
can move or that blocks at a strictly lower rank; the writer goroutine (rank 0) can always move while anybody
waits for it.  In particular the `Once` of `autoStartOnce` is a lock class above `startStopMutex`: the thread
inside the Once body may wait for the mutex, a holder of the mutex never waits for the Once. -/

def Enabled (s : St) (t : Thread) : Prop := step s t ≠ []

/-- rank 3: a later `Enqueue` waiting for the first one to finish the `Once` body -/
def BlockedOnOnce (s : St) : Thread → Prop
  | .prod _ pc _ _ => pc = .onceChk ∧ (s.once = 1 ∨ s.once = 2)
  | _ => False

/-- rank 2: waiting for `startStopMutex` (the first `Enqueue` inside the Once body, or a Stop caller) -/
def BlockedOnMutex (s : St) : Thread → Prop
  | .prod _ pc _ _ => pc = .startLock ∧ s.mu = true
  | .stopper _ pc => pc = .lock ∧ s.mu = true
  | _ => False

/-- rank 1: Stop inside `writeWg.Wait()` -/
def BlockedOnWait (s : St) : Thread → Prop
  | .stopper _ pc => pc = .wait ∧ s.wg ≠ 0
  | _ => False

/-- rank 1: `Enqueue` on the full queue -/
def BlockedOnQueue (s : St) : Thread → Prop
  | .prod _ pc _ _ => pc = .send ∧ ¬ s.queue.length < s.qsize
  | _ => False

/-- Nothing else blocks: an unfinished thread can move or is blocked in one of the four ways. -/
theorem blocked_classes (s : St) (t : Thread) (hle : s.once ≤ 3) (hnf : t.finished = false) :
    Enabled s t ∨ BlockedOnOnce s t ∨ BlockedOnMutex s t ∨ BlockedOnWait s t ∨ BlockedOnQueue s t := by
  cases t with
  | prod id pc cur sc =>
    cases pc
    case idle =>
      cases sc with
      | nil => simp [Thread.finished] at hnf
      | cons o rest => left; simp [Enabled, step, stepProd]
    case onceChk =>
      by_cases h0 : s.once = 0
      · left; simp [Enabled, step, stepProd, h0]
      · by_cases h3 : s.once = 3
        · left; simp [Enabled, step, stepProd, h3]
        · right; left; exact ⟨rfl, by omega⟩
    case startLock =>
      cases hm : s.mu
      · left; simp [Enabled, step, stepProd, hm]
      · right; right; left; exact ⟨rfl, hm⟩
    case send =>
      by_cases hq : s.queue.length < s.qsize
      · left; simp [Enabled, step, stepProd, hq]
      · right; right; right; right; exact ⟨rfl, hq⟩
    all_goals (left; simp only [Enabled, step, stepProd]; (repeat' split) <;> simp)
  | stopper id pc =>
    cases pc
    case lock =>
      cases hm : s.mu
      · left; simp [Enabled, step, stepStop, hm]
      · right; right; left; exact ⟨rfl, hm⟩
    case wait =>
      by_cases hw : s.wg = 0
      · left; simp [Enabled, step, stepStop, hw]
      · right; right; right; left; exact ⟨rfl, hw⟩
    case fin => simp [Thread.finished] at hnf
    all_goals (left; simp only [Enabled, step, stepStop]; (repeat' split) <;> simp)
  | flusher l n =>
    cases n with
    | zero => simp [Thread.finished] at hnf
    | succ n => left; cases l <;> simp only [Enabled, step, stepFlush] <;> (repeat' split) <;> simp
  | writer => simp [Thread.finished] at hnf
  | obs sc =>
    cases sc with
    | nil => simp [Thread.finished] at hnf
    | cons o rest => left; simp [Enabled, step, stepObs]

theorem two_le_countP (p : Thread → Bool) (l : List Thread) (u t : Thread) (hu : u ∈ l) (ht : t ∈ l) (hne : u ≠ t)
    (pu : p u = true) (pt : p t = true) : 2 ≤ l.countP p := by
  induction l with
  | nil => simp at hu
  | cons a l ih =>
    simp only [List.countP_cons]
    rcases List.mem_cons.mp hu with rfl | hu' <;> rcases List.mem_cons.mp ht with rfl | ht'
    · exact (hne rfl).elim
    · have := one_le_countP_of_mem p l t ht' pt; simp only [pu, if_true]; omega
    · have := one_le_countP_of_mem p l u hu' pu; simp only [pt, if_true]; omega
    · have := ih hu' ht'; omega

theorem writer_enabled_of (s : St) (h1 : s.wpc ≠ .exited) (h2 : s.spawned = true) : Enabled s .writer := by
  intro h
  rcases writer_stuck h with ⟨_, hs⟩ | he
  · simp [h2] at hs
  · exact h1 he

/-- rank 1 → rank 0 -/
theorem wait_has_writer {c : Cfg St Thread} (hi : Inv c) (t : Thread) (ht : t ∈ c.2) (hb : BlockedOnWait c.1 t) :
    Enabled c.1 .writer := by
  obtain ⟨s, ts⟩ := c
  obtain ⟨hc, hwo, hws, hl, hn, hti, _⟩ := hi
  simp only at hc hl ht hb ⊢
  cases t with
  | stopper id pc =>
    obtain ⟨rfl, hw⟩ := hb
    have h2 := hl.wg
    have ha : s.added = true ∧ s.wpc ≠ .exited := by
      by_cases ha : s.added = true ∧ s.wpc ≠ .exited
      · exact ha
      · simp [ha] at h2; exact (hw h2).elim
    refine writer_enabled_of s ha.2 ?_
    cases hs : s.spawned
    · exfalso
      have h1 := hc.go
      simp [ha.1, hs] at h1
      obtain ⟨u, hu, hp⟩ := exists_of_countP_pos atGo ts (by omega)
      have hne : u ≠ Thread.stopper id .wait := by
        intro e; subst e; simp [atGo] at hp
      have hgo : holdsMu u = true := by
        cases u with
        | prod i pc cur sc => simp [atGo] at hp; subst hp; simp [holdsMu]
        | _ => simp [atGo] at hp
      have := two_le_countP holdsMu ts u _ hu ht hne hgo (by simp [holdsMu])
      have hm := hc.mu
      split at hm <;> omega
    · rfl
  | _ => exact hb.elim

/-- rank 1 → rank 0 -/
theorem queue_has_writer {c : Cfg St Thread} (hi : Inv c) (t : Thread) (ht : t ∈ c.2) (hb : BlockedOnQueue c.1 t) :
    Enabled c.1 .writer := by
  obtain ⟨s, ts⟩ := c
  obtain ⟨hc, hwo, hws, hl, hn, hti, _⟩ := hi
  simp only at hc hl hti ht hb ⊢
  cases t with
  | prod id pc cur sc =>
    obtain ⟨rfl, _⟩ := hb
    have h2 := hti _ ht
    simp only [TInv] at h2
    have hsp := hl.once3_spawned (h2.2.2.2.2.1 (by simp))
    refine writer_enabled_of s ?_ hsp
    intro hex
    have hz := hl.fin_win (Or.inr hex)
    have hwn := hc.win
    have hpos : 0 < ts.countP inWin := List.countP_pos_iff.mpr ⟨_, ht, by simp [inWin]⟩
    omega
  | _ => exact hb.elim

/-- rank 2 → rank ≤ 1 -/
theorem mutex_has_holder {c : Cfg St Thread} (hi : Inv c) (hmu : c.1.mu = true) :
    ∃ u ∈ c.2, holdsMu u = true ∧ (Enabled c.1 u ∨ BlockedOnWait c.1 u) := by
  obtain ⟨s, ts⟩ := c
  have hc := hi.cnt
  simp only at hc hmu ⊢
  have h0 := hc.mu
  simp [hmu] at h0
  obtain ⟨u, hu, hp⟩ := exists_of_countP_pos holdsMu ts (by omega)
  refine ⟨u, hu, hp, ?_⟩
  cases u with
  | prod id pc cur sc =>
    left
    cases pc <;> simp [holdsMu] at hp <;> simp only [Enabled, step, stepProd] <;> (repeat' split) <;> simp
  | stopper id pc =>
    cases pc <;> simp [holdsMu] at hp
    case wait =>
      by_cases hw : s.wg = 0
      · left; simp [Enabled, step, stepStop, hw]
      · right; exact ⟨rfl, hw⟩
    all_goals (left; simp only [Enabled, step, stepStop]; (repeat' split) <;> simp)
  | _ => simp [holdsMu] at hp

/-- rank 3 → rank ≤ 2 -/
theorem once_has_body {c : Cfg St Thread} (hi : Inv c) (ho : c.1.once = 1 ∨ c.1.once = 2) :
    ∃ u ∈ c.2, (bodyPre u = true ∨ bodyPost u = true) ∧ (Enabled c.1 u ∨ BlockedOnMutex c.1 u) := by
  obtain ⟨s, ts⟩ := c
  have hc := hi.cnt
  simp only at hc ho ⊢
  rcases ho with h1 | h2
  · have h0 := hc.pre
    simp [h1] at h0
    obtain ⟨u, hu, hp⟩ := exists_of_countP_pos bodyPre ts (by omega)
    refine ⟨u, hu, Or.inl hp, ?_⟩
    cases u with
    | prod id pc cur sc =>
      cases pc <;> simp [bodyPre] at hp
      case startLock =>
        cases hm : s.mu
        · left; simp [Enabled, step, stepProd, hm]
        · right; exact ⟨rfl, hm⟩
      all_goals (left; simp only [Enabled, step, stepProd]; (repeat' split) <;> simp)
    | _ => simp [bodyPre] at hp
  · have h0 := hc.post
    simp [h2] at h0
    obtain ⟨u, hu, hp⟩ := exists_of_countP_pos bodyPost ts (by omega)
    refine ⟨u, hu, Or.inr hp, ?_⟩
    cases u with
    | prod id pc cur sc =>
      left
      cases pc <;> simp [bodyPost] at hp <;> simp only [Enabled, step, stepProd] <;> (repeat' split) <;> simp
    | _ => simp [bodyPost] at hp

end Hive.BatchWriter
