import Hive.Proofs.SerixTotal
/-!
# Canonicity of the serix model: what the validating decoder accepts re-encodes to the bytes it consumed
-/
namespace Hive.Serix
open Res

theorem writeLen_of_readLen {lp : LP} {b : Bytes} {l w : Nat} (h : readLen lp b = .ok (l, w)) :
    writeLen lp l = .ok (b.take w) := by
  obtain ⟨hw, hle, rfl⟩ := readLen_ok h
  have hlt : leNat (b.take w) < 256 ^ w := by
    have := leNat_lt (b.take w)
    have h2 : (b.take w).length = w := by simp; omega
    rwa [h2] at this
  simp [writeLen, hw, hlt, leBytes_leNat_take hle]

theorem adjOk_mono {R S : Bytes → Bytes → Bool} (h : ∀ a b, R a b = true → S a b = true) :
    ∀ {l : List Bytes}, adjOk R l = true → adjOk S l = true
  | [], _ => rfl
  | [_], _ => rfl
  | a :: b :: rest, hl => by
    simp only [adjOk, Bool.and_eq_true] at hl ⊢
    exact ⟨h a b hl.1, adjOk_mono h hl.2⟩

theorem sorted_of_validSeq {r : Rules} {l : List Bytes} (hlex : r.lex = true) (h : validSeq r l = true) :
    l.Pairwise (fun a b => lexLe a b = true) := by
  unfold validSeq at h
  simp only [Bool.and_eq_true, hlex, if_true] at h
  have h2 := h.1.1.2
  apply pairwise_of_adjOk (R := lexLe) (fun a b c => lexLe_trans)
  split at h2
  · exact adjOk_mono (fun a b hab => lexLe_of_lexLt hab) h2
  · exact h2

theorem mapMRes_of_forall {α β γ : Type} {f : β → Res γ} {g : α → β} {k : α → γ} {l : List α}
    (h : ∀ p ∈ l, f (g p) = .ok (k p)) : mapMRes f (l.map g) = .ok (l.map k) := by
  induction l with
  | nil => rfl
  | cons a as ih =>
    simp only [List.map_cons, mapMRes, h a (List.mem_cons_self), Res.ok_bind,
      ih (fun p hp => h p (List.mem_cons_of_mem a hp)), Res.pure_eq]

/-- The sequence part of canonicity: re-encoding the items the validating reader accepted gives back
exactly the bytes it consumed. -/
theorem seq_canonical (lp : LP) (r : Rules) (item : Bytes → Res (Val × Nat)) (encItem : Val → Res Bytes)
    (hle : ∀ b v n, item b = .ok (v, n) → n ≤ b.length)
    (hcan : ∀ b v n, item b = .ok (v, n) → encItem v = .ok (b.take n))
    (o o' : Opts) (hv : o.validation = true) (hv' : o'.validation = true)
    (b : Bytes) (count w : Nat) (items : List (Val × Bytes)) (n : Nat)
    (hread : readLen lp b = .ok (count, w)) (hbody : decSeqBody item r o count w b = .ok (items, n)) :
    mapMRes encItem (items.map (·.1)) = .ok (items.map (·.2)) ∧
      encSeq lp r o' (items.map (·.2)) = .ok (b.take n) ∧ items.length = count ∧ r.boundsOk count = true := by
  obtain ⟨hw, hwl, _⟩ := readLen_ok hread
  obtain ⟨m, rfl, hloop, hval⟩ := decSeqBody_ok hbody
  obtain ⟨hb, hvalid⟩ := hval hv
  obtain ⟨hm, hlen, hflat, hitems⟩ := decLoop_spec hle _ _ _ _ hloop
  refine ⟨?_, ?_, hlen, hb⟩
  · apply mapMRes_of_forall
    intro p hp
    obtain ⟨b', hb', hp2⟩ := hitems p hp
    rw [hcan b' p.1 p.2.length hb', ← hp2]
  · have hwrite := writeLen_of_readLen hread
    have hdata : (if r.autoSort && r.lex then sortBytes (items.map (·.2)) else items.map (·.2)) = items.map (·.2) := by
      split
      · rename_i hs
        simp only [Bool.and_eq_true] at hs
        exact isortBy_of_sorted id (sorted_of_validSeq hs.2 hvalid)
      · rfl
    unfold encSeq
    simp only [hw, Option.isNone_some, Bool.false_eq_true, if_false, hv', Bool.not_true, Bool.false_or,
      List.length_map, hlen, hb, Res.require_true, Res.ok_bind, hwrite, hdata, hvalid,
      Res.pure_eq, hflat]
    rw [List.take_add]

theorem toSigned_range (w n : Nat) (h : n < 256 ^ w) :
    -((256 : Int) ^ w) ≤ 2 * toSigned w n ∧ 2 * toSigned w n < (256 : Int) ^ w := by
  have hcast : ((256 ^ w : Nat) : Int) = (256 : Int) ^ w := by simp
  have hn : (n : Int) < (256 : Int) ^ w := by rw [← hcast]; exact Int.ofNat_lt.2 h
  unfold toSigned
  split
  · rename_i h2
    have : ((2 * n : Nat) : Int) < ((256 ^ w : Nat) : Int) := Int.ofNat_lt.2 h2
    rw [hcast] at this
    simp at this
    omega
  · rename_i h2
    have : ¬ ((2 * n : Nat) : Int) < ((256 ^ w : Nat) : Int) := fun hc => h2 (Int.ofNat_lt.1 hc)
    rw [hcast] at this
    simp at this
    omega

theorem toSigned_emod_toNat (w n : Nat) (h : n < 256 ^ w) : (toSigned w n % (256 : Int) ^ w).toNat = n := by
  have hcast : ((256 ^ w : Nat) : Int) = (256 : Int) ^ w := by simp
  have hn : (n : Int) < (256 : Int) ^ w := by rw [← hcast]; exact Int.ofNat_lt.2 h
  have hM : (0 : Int) < (256 : Int) ^ w := Int.pow_pos (by decide)
  unfold toSigned
  split
  · rw [Int.emod_eq_of_lt (by omega) hn]; simp
  · have : ((n : Int) - (256 : Int) ^ w) % (256 : Int) ^ w = (n : Int) := by
      rw [Int.sub_emod_right]
      exact Int.emod_eq_of_lt (by omega) hn
    rw [this]; simp

theorem take_add_drop {α : Type} (b : List α) (i j : Nat) : b.take i ++ (b.drop i).take j = b.take (i + j) := by
  rw [List.take_add]

theorem decAlts_shape : ∀ (alts : Alts) (code : Nat) (b : Bytes) (o : Opts) (v : Val) (n : Nat),
    decAlts alts code b o = .ok (v, n) → ∃ c v', v = .alt c v'
  | .nil, _, _, _, _, _, h => by simp [decAlts] at h
  | .cons c t rest, code, b, o, v, n, h => by
    simp only [decAlts] at h
    split at h
    · simp only [Res.bind_eq_ok, Res.pure_eq] at h
      obtain ⟨⟨v', n'⟩, _, hc⟩ := h
      cases hc
      exact ⟨c, v', rfl⟩
    · exact decAlts_shape rest code b o v n h

/-- A decoded pointer, interface or big integer is never nil. -/
theorem dec_opt_ne_nil {t : Ty} (ht : t.isOptKind = true) {b : Bytes} {o : Opts} {v : Val} {n : Nat}
    (h : dec t b o = .ok (v, n)) : v ≠ .nil := by
  cases t <;> simp only [Ty.isOptKind] at ht <;> (try contradiction)
  · simp only [dec] at h
    split at h
    · contradiction
    · cases h; simp
  · simp only [dec, Res.bind_eq_ok, Res.pure_eq] at h
    obtain ⟨⟨v', n'⟩, _, hc⟩ := h
    cases hc; simp
  · simp only [dec] at h
    split at h
    · contradiction
    · obtain ⟨c, v', rfl⟩ := decAlts_shape _ _ _ _ _ _ h
      simp

/-- Canonicity statement for one type: `o` is the validating decoder that rejects out-of-range
timestamps, `o'` any validating encoder. -/
def CN (t : Ty) : Prop :=
  ∀ (o o' : Opts), o.validation = true → o.strictTime = true → o'.validation = true →
    ∀ (b : Bytes) (v : Val) (n : Nat), dec t b o = .ok (v, n) → ∀ pre, enc t pre v o' = .ok (b.take n)

def CNF (fs : Fields) : Prop :=
  ∀ (o o' : Opts), o.validation = true → o.strictTime = true → o'.validation = true →
    ∀ (b : Bytes) (vs : List Val) (n : Nat), decFields fs b o = .ok (vs, n) → encFields fs vs o' = .ok (b.take n)

def CNA (alts : Alts) : Prop :=
  ∀ (o o' : Opts), o.validation = true → o.strictTime = true → o'.validation = true →
    ∀ (code : Nat) (b : Bytes) (v : Val) (n : Nat), decAlts alts code b o = .ok (v, n) →
      ∃ v', v = .alt code v' ∧ encAlts alts code v' o' = .ok (b.take n)

theorem optMapM_kvKey_items {items : List (Val × Bytes)} (h : ∀ p ∈ items, ∃ a c, p.1 = .kv a c) :
    optMapM kvKey (items.map (·.1)) = some (valKeys items) := by
  induction items with
  | nil => rfl
  | cons p ps ih =>
    obtain ⟨a, c, hp⟩ := h p (List.mem_cons_self)
    have := ih (fun q hq => h q (List.mem_cons_of_mem p hq))
    simp only [List.map_cons, optMapM, hp, kvKey, this, valKeys, List.filterMap_cons]

theorem cn_bool : CN .bool := by
  intro o o' _ _ _ b v n h pre
  simp only [dec] at h
  split at h
  · contradiction
  · rename_i x xs
    split at h
    · rename_i hx
      cases h
      have : x = 0 := by simpa using hx
      subst this
      simp [enc]
    · split at h
      · rename_i hx
        cases h
        have : x = 1 := by simpa using hx
        subst this
        simp [enc]
      · contradiction

theorem cn_uint (w : Nat) : CN (.uint w) := by
  intro o o' _ _ _ b v n h pre
  simp only [dec] at h
  split at h
  · contradiction
  · rename_i hl
    cases h
    have hlt : leNat (b.take w) < 256 ^ w := by
      have := leNat_lt (b.take w)
      have h2 : (b.take w).length = w := by simp; omega
      rwa [h2] at this
    simp [enc, hlt, leBytes_leNat_take (by omega : w ≤ b.length)]

theorem cn_float (w : Nat) : CN (.float w) := by
  intro o o' _ _ _ b v n h pre
  simp only [dec] at h
  split at h
  · contradiction
  · rename_i hl
    cases h
    have hlt : leNat (b.take w) < 256 ^ w := by
      have := leNat_lt (b.take w)
      have h2 : (b.take w).length = w := by simp; omega
      rwa [h2] at this
    simp [enc, hlt, leBytes_leNat_take (by omega : w ≤ b.length)]

theorem cn_int (w : Nat) : CN (.int w) := by
  intro o o' _ _ _ b v n h pre
  simp only [dec] at h
  split at h
  · contradiction
  · rename_i hl
    cases h
    have hlt : leNat (b.take w) < 256 ^ w := by
      have := leNat_lt (b.take w)
      have h2 : (b.take w).length = w := by simp; omega
      rwa [h2] at this
    have hr := toSigned_range w _ hlt
    simp only [enc, hr.1, hr.2, and_self, if_true, toSigned_emod_toNat w _ hlt,
      leBytes_leNat_take (by omega : w ≤ b.length)]

theorem cn_str (lp : LP) (mn mx : Nat) : CN (.str lp mn mx) := by
  intro o o' hv _ hv' b v n h pre
  simp only [dec, Res.bind_eq_ok, Res.require_eq_ok_iff, exists_and_left, exists_const] at h
  obtain ⟨⟨l, w⟩, hr, hb, h⟩ := h
  split at h
  · contradiction
  · rename_i hl
    simp only [Res.bind_eq_ok, Res.require_eq_ok_iff, exists_and_left, exists_const, Res.pure_eq] at h
    obtain ⟨hu, hc⟩ := h
    cases hc
    obtain ⟨hw, _, _⟩ := readLen_ok hr
    have hlen : ((b.drop w).take l).length = l := by simp at hl ⊢; omega
    simp only [hv, Bool.not_true, Bool.false_or] at hb hu
    simp only [enc, hw, Option.isNone_some, Bool.false_eq_true, if_false, hv', Bool.not_true, Bool.false_or,
      hlen, hb, hu, Bool.and_self, Res.require_true, Res.ok_bind, writeLen_of_readLen hr, Res.pure_eq,
      take_add_drop]

theorem cn_bytes (lp : LP) (mn mx : Nat) : CN (.bytes lp mn mx) := by
  intro o o' hv _ hv' b v n h pre
  simp only [dec, Res.bind_eq_ok, Res.require_eq_ok_iff, exists_and_left, exists_const] at h
  obtain ⟨⟨l, w⟩, hr, hb, h⟩ := h
  split at h
  · contradiction
  · rename_i hl
    cases h
    obtain ⟨hw, _, _⟩ := readLen_ok hr
    have hlen : ((b.drop w).take l).length = l := by simp at hl ⊢; omega
    simp only [enc, hw, Option.isNone_some, Bool.false_eq_true, if_false, hlen, hb, Res.require_true,
      Res.ok_bind, writeLen_of_readLen hr, Res.pure_eq, take_add_drop]

theorem cn_byteArr (len : Nat) (code : Option Code) (mn mx : Nat) : CN (.byteArr len code mn mx) := by
  intro o o' hv _ _ b v n h pre
  simp only [dec, Res.bind_eq_ok, Res.require_eq_ok_iff, exists_and_left, exists_const] at h
  obtain ⟨hb, cw, hc, h⟩ := h
  simp only [hv, Bool.not_true, Bool.false_or] at hb
  obtain ⟨_, hcode⟩ := readCode_ok hc
  split at h
  · contradiction
  · rename_i hl
    cases h
    have hlen : ((b.drop cw).take len).length = len := by simp at hl ⊢; omega
    simp only [enc, hlen, ne_eq, not_true_eq_false, if_false, hb, Bool.not_true, Bool.and_false,
      Bool.false_eq_true, hcode, take_add_drop]

theorem cn_custom (code : Option Code) (fixed : Option Nat) : CN (.custom code fixed) := by
  intro o o' _ _ _ b v n h pre
  simp only [dec, Res.bind_eq_ok] at h
  obtain ⟨cw, hc, h⟩ := h
  obtain ⟨_, hcode⟩ := readCode_ok hc
  split at h
  · contradiction
  · rename_i x rest hd
    split at h
    · contradiction
    · split at h
      · rename_i hok
        cases h
        have : b.take (cw + (1 + x.toNat)) = b.take cw ++ (x :: rest.take x.toNat) := by
          rw [← take_add_drop, hd, Nat.add_comm 1, List.take_succ_cons]
        simp only [enc, hok, if_true, hcode, this]
      · contradiction

theorem cn_u256 : CN .u256 := by
  intro o o' _ _ _ b v n h pre
  simp only [dec] at h
  split at h
  · contradiction
  · rename_i hl
    cases h
    have hlt : leNat (b.take 32) < 256 ^ 32 := by
      have := leNat_lt (b.take 32)
      have h2 : (b.take 32).length = 32 := by simp; omega
      rwa [h2] at this
    have h1 : (0 : Int) ≤ (leNat (b.take 32) : Int) := Int.natCast_nonneg _
    have h2 : ((leNat (b.take 32) : Nat) : Int) < (2 : Int) ^ 256 := by
      have : ((256 ^ 32 : Nat) : Int) = (2 : Int) ^ 256 := by decide
      rw [← this]; exact Int.ofNat_lt.2 hlt
    simp only [enc, h1, h2, and_self, if_true, Int.toNat_natCast,
      leBytes_leNat_take (by omega : 32 ≤ b.length)]

theorem timeToU64_natCast {n : Nat} (h : n ≤ maxInt64) : timeToU64 (n : Int) = n := by
  unfold timeToU64
  have h1 : ¬ ((n : Int) < 0) := by omega
  simp only [h1, if_false, Int.toNat_natCast]
  have h2 : ¬ n > maxInt64 := by omega
  simp [h2]

theorem cn_time : CN .time := by
  intro o o' _ hs _ b v n h pre
  simp only [dec] at h
  split at h
  · contradiction
  · rename_i hl
    split at h
    · contradiction
    · rename_i hstrict
      cases h
      have hle : leNat (b.take 8) ≤ maxInt64 := by
        simp only [hs, Bool.true_and, decide_eq_true_eq] at hstrict
        omega
      simp only [enc, timeOfU64_of_le hle, timeToU64_natCast hle, leBytes_leNat_take (by omega : 8 ≤ b.length)]

theorem decKV_canonical {k v : Ty} (hk : CN k) (hv : CN v) (o o' : Opts) (h1 : o.validation = true)
    (h2 : o.strictTime = true) (h3 : o'.validation = true) (b : Bytes) (x : Val) (n : Nat)
    (h : decKV (fun b => dec k b o) (fun b => dec v b o) b = .ok (x, n)) :
    (∃ a c, x = .kv a c) ∧
      encKV (fun a => enc k true a o') (fun b => enc v true b o') x = .ok (b.take n) := by
  simp only [decKV, Res.bind_eq_ok, Res.pure_eq] at h
  obtain ⟨⟨kk, n1⟩, hd1, ⟨vv, n2⟩, hd2, hc⟩ := h
  cases hc
  refine ⟨⟨kk, vv, rfl⟩, ?_⟩
  simp only [encKV, hk o o' h1 h2 h3 b kk n1 hd1 true, Res.ok_bind, hv o o' h1 h2 h3 _ vv n2 hd2 true,
    Res.pure_eq, take_add_drop]

mutual
theorem cn_ty : ∀ (t : Ty), t.wf = true → CN t
  | .bool, _ => cn_bool
  | .uint w, _ => cn_uint w
  | .int w, _ => cn_int w
  | .float w, _ => cn_float w
  | .str lp mn mx, _ => cn_str lp mn mx
  | .bytes lp mn mx, _ => cn_bytes lp mn mx
  | .byteArr n code mn mx, hwf => by
    exact cn_byteArr n code mn mx
  | .u256, _ => cn_u256
  | .time, _ => cn_time
  | .custom code fixed, _ => cn_custom code fixed
  | .slice lp r e, hwf => by
    intro o o' hv hs hv' b v n h pre
    simp only [Ty.wf, Bool.and_eq_true] at hwf
    simp only [dec, Res.bind_eq_ok, Res.pure_eq] at h
    obtain ⟨⟨count, w⟩, hr, ⟨items, n'⟩, hbody, u, hmust, hc⟩ := h
    cases hc
    obtain ⟨hdata, hseq, hlen, hb⟩ := seq_canonical lp r (fun b => dec e b o) (fun v => enc e true v o')
      (fun b v n h => cl_ty e b o v n h) (fun b v n h => cn_ty e hwf o o' hv hs hv' b v n h true)
      o o' hv hv' b count w items _ hr hbody
    rw [hv] at hmust
    simp only [enc, List.length_map, hlen, hb, Bool.or_true, Res.require_true, Res.ok_bind, hv', hmust, hdata, hseq]
  | .array len lp r e, hwf => by
    intro o o' hv hs hv' b v n h pre
    simp only [Ty.wf, Bool.and_eq_true] at hwf
    simp only [dec, Res.bind_eq_ok, Res.require_eq_ok_iff, exists_and_left, exists_const] at h
    obtain ⟨⟨count, w⟩, hr, _, h⟩ := h
    split at h
    · contradiction
    · rename_i hcount
      simp only [Res.bind_eq_ok, Res.pure_eq] at h
      obtain ⟨⟨items, n'⟩, hbody, u, hmust, hc⟩ := h
      cases hc
      obtain ⟨hdata, hseq, hlen, hb⟩ := seq_canonical lp r (fun b => dec e b o) (fun v => enc e true v o')
        (fun b v n h => cl_ty e b o v n h) (fun b v n h => cn_ty e hwf o o' hv hs hv' b v n h true)
        o o' hv hv' b count w items _ hr hbody
      rw [hv] at hmust
      have hcount' : count = len := by simpa using hcount
      subst hcount'
      simp only [enc, List.length_map, hlen, ne_eq, not_true_eq_false, if_false, hb,
        Bool.or_true, Res.require_true, Res.ok_bind, hv', hmust, hdata, hseq]
  | .map lp r k v', hwf => by
    intro o o' hv hs hv' b v n h pre
    simp only [Ty.wf, Bool.and_eq_true] at hwf
    simp only [dec, Res.bind_eq_ok, Res.require_eq_ok_iff, exists_and_left, exists_const, Res.pure_eq] at h
    obtain ⟨⟨count, w⟩, hr, ⟨items, n'⟩, hbody, hnodup, hc⟩ := h
    cases hc
    have hk := cn_ty k hwf.1.2
    have hv2 := cn_ty v' hwf.2
    obtain ⟨hdata, hseq, hlen, hb⟩ := seq_canonical lp r.ordered
      (decKV (fun b => dec k b o) (fun b => dec v' b o))
      (encKV (fun a => enc k true a o') (fun b => enc v' true b o'))
      (decKV_le (cl_ty k) (cl_ty v') o)
      (fun b x n h => (decKV_canonical hk hv2 o o' hv hs hv' b x n h).2)
      o o' hv hv' b count w items _ hr hbody
    have hshape : ∀ p ∈ items, ∃ a c, p.1 = .kv a c := by
      obtain ⟨m, _, hloop, _⟩ := decSeqBody_ok hbody
      obtain ⟨_, _, _, hit⟩ := decLoop_spec (decKV_le (cl_ty k) (cl_ty v') o) _ _ _ _ hloop
      intro p hp
      obtain ⟨b', hb', _⟩ := hit p hp
      exact (decKV_canonical hk hv2 o o' hv hs hv' b' p.1 _ hb').1
    have hkeys : mapKeysOk (items.map (·.1)) = true := by
      unfold mapKeysOk
      rw [optMapM_kvKey_items hshape]
      exact hnodup
    have hb' : r.boundsOk count = true := hb
    simp only [enc, hkeys, Bool.not_true, Bool.false_eq_true, if_false, List.length_map, hlen, hb',
      Bool.or_true, Res.require_true, Res.ok_bind, hdata, hseq]
  | .struct code fs, hwf => by
    intro o o' hv hs hv' b v n h pre
    simp only [Ty.wf, Bool.and_eq_true] at hwf
    simp only [dec, Res.bind_eq_ok, Res.pure_eq] at h
    obtain ⟨cw, hc, ⟨vs, m⟩, hf, hc'⟩ := h
    cases hc'
    obtain ⟨_, hcode⟩ := readCode_ok hc
    simp only [enc, cn_fields fs hwf.2 o o' hv hs hv' _ vs m hf, Res.ok_bind, Res.pure_eq, hcode, take_add_drop]
  | .ptr t, hwf => by
    intro o o' hv hs hv' b v n h pre
    simp only [Ty.wf, Bool.and_eq_true] at hwf
    simp only [dec, Res.bind_eq_ok, Res.pure_eq] at h
    obtain ⟨⟨v', n'⟩, h', hc⟩ := h
    cases hc
    simp only [enc, hwf.1, if_true, cn_ty t hwf.2 o o' hv hs hv' b v' _ h' false]
  | .iface den alts, hwf => by
    intro o o' hv hs hv' b v n h pre
    simp only [Ty.wf, Bool.and_eq_true] at hwf
    simp only [dec] at h
    split at h
    · contradiction
    · obtain ⟨v', rfl, he⟩ := cn_alts alts den hwf.1 o o' hv hs hv' _ b v n h
      simp only [enc, he]
theorem cn_fields : ∀ (fs : Fields), fs.wf = true → CNF fs
  | .nil, _ => by
    intro o o' _ _ _ b vs n h
    simp only [decFields] at h
    cases h
    simp [encFields]
  | .cons false t rest, hwf => by
    intro o o' hv hs hv' b vs n h
    simp only [Fields.wf, Bool.and_eq_true] at hwf
    simp only [decFields, Res.bind_eq_ok, Res.pure_eq] at h
    obtain ⟨⟨v, n1⟩, h1, ⟨vs', m⟩, h2, hc⟩ := h
    cases hc
    simp only [encFields, cn_ty t hwf.1 o o' hv hs hv' b v n1 h1 true, Res.ok_bind,
      cn_fields rest hwf.2 o o' hv hs hv' _ vs' m h2, Res.pure_eq, take_add_drop]
  | .cons true t rest, hwf => by
    intro o o' hv hs hv' b vs n h
    simp only [Fields.wf, Bool.and_eq_true] at hwf
    simp only [decFields] at h
    split at h
    · contradiction
    · rename_i hl
      have hl4 : 4 ≤ b.length := by omega
      split at h
      · rename_i hz
        simp only [Res.bind_eq_ok, Res.pure_eq] at h
        obtain ⟨⟨vs', m⟩, h2, hc⟩ := h
        cases hc
        have hz' : leNat (b.take 4) = 0 := by simpa using hz
        have hm : leBytes 4 0 = b.take 4 := by rw [← hz']; exact leBytes_leNat_take hl4
        simp only [encFields, Res.ok_bind, cn_fields rest hwf.2 o o' hv hs hv' _ vs' m h2, Res.pure_eq, hm,
          take_add_drop]
      · rename_i hz
        simp only [Res.bind_eq_ok] at h
        obtain ⟨⟨v, n1⟩, h1, h⟩ := h
        split at h
        · contradiction
        · rename_i hn
          simp only [Res.bind_eq_ok, Res.pure_eq] at h
          obtain ⟨⟨vs', m⟩, h2, hc⟩ := h
          cases hc
          have hn' : n1 = leNat (b.take 4) := by simpa using hn
          have hne := dec_opt_ne_nil hwf.1.1.1 h1
          have he := cn_ty t hwf.1.2 o o' hv hs hv' _ v n1 h1 true
          have hcl := cl_ty t _ o v n1 h1
          have hlen : ((b.drop 4).take n1).length = n1 := by
            simp only [List.length_take, List.length_drop] at hcl ⊢; omega
          have hm : leBytes 4 n1 = b.take 4 := by rw [hn']; exact leBytes_leNat_take hl4
          have he2 := cn_fields rest hwf.2 o o' hv hs hv' _ vs' m h2
          simp only [encFields, he, Res.ok_bind, Res.pure_eq, hlen, hm, he2, take_add_drop]
  | .emb false fs rest, hwf => by
    intro o o' hv hs hv' b vs n h
    simp only [Fields.wf, Bool.and_eq_true] at hwf
    simp only [decFields, Res.bind_eq_ok, Res.pure_eq] at h
    obtain ⟨⟨ws, n1⟩, h1, ⟨vs', m⟩, h2, hc⟩ := h
    cases hc
    simp only [Bool.false_eq_true, if_false, encFields, cn_fields fs hwf.1 o o' hv hs hv' b ws n1 h1, Res.ok_bind,
      cn_fields rest hwf.2 o o' hv hs hv' _ vs' m h2, Res.pure_eq, take_add_drop]
  | .emb true fs rest, hwf => by
    intro o o' hv hs hv' b vs n h
    simp only [Fields.wf, Bool.and_eq_true] at hwf
    simp only [decFields, Res.bind_eq_ok, Res.pure_eq] at h
    obtain ⟨⟨ws, n1⟩, h1, ⟨vs', m⟩, h2, hc⟩ := h
    cases hc
    simp only [if_true, encFields, cn_fields fs hwf.1 o o' hv hs hv' b ws n1 h1, Res.ok_bind,
      cn_fields rest hwf.2 o o' hv hs hv' _ vs' m h2, Res.pure_eq, take_add_drop]
theorem cn_alts : ∀ (alts : Alts) (den : Den), alts.wf den = true → CNA alts
  | .nil, _, _ => by
    intro o o' _ _ _ code b v n h
    simp [decAlts] at h
  | .cons c t rest, den, hwf => by
    intro o o' hv hs hv' code b v n h
    simp only [Alts.wf, Bool.and_eq_true] at hwf
    simp only [decAlts] at h
    split at h
    · rename_i hc
      simp only [Res.bind_eq_ok, Res.pure_eq] at h
      obtain ⟨⟨v', n'⟩, h', hc'⟩ := h
      cases hc'
      have hcc : c = code := by simpa using hc
      subst hcc
      exact ⟨v', rfl, by simp only [encAlts, beq_self_eq_true, if_true, cn_ty t hwf.1.2 o o' hv hs hv' b v' _ h' true]⟩
    · rename_i hc
      obtain ⟨v', rfl, he⟩ := cn_alts rest den hwf.2 o o' hv hs hv' code b v n h
      exact ⟨v', rfl, by simp only [encAlts, hc, he]; rfl⟩
end

/-! ## the strict timestamp rule refines the real decoder -/

theorem decLoop_mono {item item' : Bytes → Res (Val × Nat)} (h : ∀ b r, item b = .ok r → item' b = .ok r) :
    ∀ (k : Nat) (b : Bytes) (x : List (Val × Bytes) × Nat), decLoop item k b = .ok x → decLoop item' k b = .ok x
  | 0, _, _, hx => hx
  | k + 1, b, x, hx => by
    simp only [decLoop, Res.bind_eq_ok, Res.pure_eq] at hx ⊢
    obtain ⟨⟨v, n⟩, hv, ⟨rest, m⟩, hrest, hc⟩ := hx
    exact ⟨(v, n), h b _ hv, (rest, m), decLoop_mono h k _ _ hrest, hc⟩

theorem decSeqBody_mono {item item' : Bytes → Res (Val × Nat)} (h : ∀ b r, item b = .ok r → item' b = .ok r)
    {r : Rules} {val : Bool} {count w : Nat} {b : Bytes} {x : List (Val × Bytes) × Nat}
    (hx : decSeqBody item r ⟨val, true⟩ count w b = .ok x) : decSeqBody item' r ⟨val, false⟩ count w b = .ok x := by
  unfold decSeqBody at hx ⊢
  simp only [Res.bind_eq_ok, Res.require_eq_ok_iff, exists_and_left, exists_const, Res.pure_eq] at hx ⊢
  obtain ⟨h1, ⟨items, m⟩, hloop, h2, hc⟩ := hx
  exact ⟨h1, (items, m), decLoop_mono h _ _ _ hloop, h2, hc⟩

/-- Accepting with the strict timestamp rule implies accepting without it, with the same result. -/
def SM (t : Ty) : Prop := ∀ (val : Bool) (b : Bytes) (r : Val × Nat), dec t b ⟨val, true⟩ = .ok r → dec t b ⟨val, false⟩ = .ok r

mutual
theorem sm_ty : ∀ (t : Ty), SM t
  | .bool => by intro val b r h; simpa only [dec] using h
  | .uint _ => by intro val b r h; simpa only [dec] using h
  | .int _ => by intro val b r h; simpa only [dec] using h
  | .float _ => by intro val b r h; simpa only [dec] using h
  | .str _ _ _ => by intro val b r h; simpa only [dec] using h
  | .bytes _ _ _ => by intro val b r h; simpa only [dec] using h
  | .byteArr _ _ _ _ => by intro val b r h; simpa only [dec] using h
  | .u256 => by intro val b r h; simpa only [dec] using h
  | .custom _ _ => by intro val b r h; simpa only [dec] using h
  | .time => by
    intro val b r h
    simp only [dec] at h ⊢
    split at h
    · contradiction
    · rename_i hl
      split at h
      · contradiction
      · simp only [hl, if_false, Bool.false_and, Bool.false_eq_true]
        exact h
  | .slice lp r e => by
    intro val b x h
    simp only [dec, Res.bind_eq_ok, Res.pure_eq] at h ⊢
    obtain ⟨⟨count, w⟩, hr, ⟨items, n⟩, hbody, u, hmust, hc⟩ := h
    exact ⟨(count, w), hr, (items, n), decSeqBody_mono (fun b r h => sm_ty e val b r h) hbody, u, hmust, hc⟩
  | .array len lp r e => by
    intro val b x h
    simp only [dec, Res.bind_eq_ok, Res.require_eq_ok_iff, exists_and_left, exists_const] at h ⊢
    obtain ⟨⟨count, w⟩, hr, hb, h⟩ := h
    refine ⟨(count, w), hr, hb, ?_⟩
    split at h
    · contradiction
    · rename_i hc
      simp only [hc, if_false]
      simp only [Res.bind_eq_ok, Res.pure_eq] at h ⊢
      obtain ⟨⟨items, n⟩, hbody, u, hmust, hc'⟩ := h
      exact ⟨(items, n), decSeqBody_mono (fun b r h => sm_ty e val b r h) hbody, u, hmust, hc'⟩
  | .map lp r k v => by
    intro val b x h
    simp only [dec, Res.bind_eq_ok, Res.require_eq_ok_iff, exists_and_left, exists_const, Res.pure_eq] at h ⊢
    obtain ⟨⟨count, w⟩, hr, ⟨items, n⟩, hbody, hnd, hc⟩ := h
    refine ⟨(count, w), hr, (items, n), decSeqBody_mono ?_ hbody, hnd, hc⟩
    intro b r h
    simp only [decKV, Res.bind_eq_ok, Res.pure_eq] at h ⊢
    obtain ⟨⟨kk, n1⟩, h1, ⟨vv, n2⟩, h2, hc⟩ := h
    exact ⟨(kk, n1), sm_ty k val _ _ h1, (vv, n2), sm_ty v val _ _ h2, hc⟩
  | .struct code fs => by
    intro val b x h
    simp only [dec, Res.bind_eq_ok, Res.pure_eq] at h ⊢
    obtain ⟨cw, hc, ⟨vs, m⟩, hf, hc'⟩ := h
    exact ⟨cw, hc, (vs, m), sm_fields fs val _ _ hf, hc'⟩
  | .ptr t => by
    intro val b x h
    simp only [dec, Res.bind_eq_ok, Res.pure_eq] at h ⊢
    obtain ⟨⟨v, n⟩, h', hc⟩ := h
    exact ⟨(v, n), sm_ty t val _ _ h', hc⟩
  | .iface den alts => by
    intro val b x h
    simp only [dec] at h ⊢
    split at h
    · contradiction
    · rename_i hl
      simp only [hl, if_false]
      exact sm_alts alts val _ _ _ h
theorem sm_fields : ∀ (fs : Fields) (val : Bool) (b : Bytes) (r : List Val × Nat),
    decFields fs b ⟨val, true⟩ = .ok r → decFields fs b ⟨val, false⟩ = .ok r
  | .nil, _, _, _, h => by simpa only [decFields] using h
  | .cons false t rest, val, b, r, h => by
    simp only [decFields, Res.bind_eq_ok, Res.pure_eq] at h ⊢
    obtain ⟨⟨v, n⟩, h1, ⟨vs, m⟩, h2, hc⟩ := h
    exact ⟨(v, n), sm_ty t val _ _ h1, (vs, m), sm_fields rest val _ _ h2, hc⟩
  | .cons true t rest, val, b, r, h => by
    simp only [decFields] at h ⊢
    split at h
    · contradiction
    · rename_i hl
      simp only [hl, if_false]
      split at h
      · rename_i hz
        simp only [hz, if_true]
        simp only [Res.bind_eq_ok, Res.pure_eq] at h ⊢
        obtain ⟨⟨vs, m⟩, h2, hc⟩ := h
        exact ⟨(vs, m), sm_fields rest val _ _ h2, hc⟩
      · rename_i hz
        simp only [hz, if_false, Bool.false_eq_true]
        simp only [Res.bind_eq_ok] at h ⊢
        obtain ⟨⟨v, n⟩, h1, h⟩ := h
        refine ⟨(v, n), sm_ty t val _ _ h1, ?_⟩
        split at h
        · contradiction
        · rename_i hn
          simp only [hn, if_false]
          simp only [Res.bind_eq_ok, Res.pure_eq] at h ⊢
          obtain ⟨⟨vs, m⟩, h2, hc⟩ := h
          exact ⟨(vs, m), sm_fields rest val _ _ h2, hc⟩
  | .emb ptr fs rest, val, b, r, h => by
    simp only [decFields, Res.bind_eq_ok, Res.pure_eq] at h ⊢
    obtain ⟨⟨ws, n⟩, h1, ⟨vs, m⟩, h2, hc⟩ := h
    exact ⟨(ws, n), sm_fields fs val _ _ h1, (vs, m), sm_fields rest val _ _ h2, hc⟩
theorem sm_alts : ∀ (alts : Alts) (val : Bool) (code : Nat) (b : Bytes) (r : Val × Nat),
    decAlts alts code b ⟨val, true⟩ = .ok r → decAlts alts code b ⟨val, false⟩ = .ok r
  | .nil, _, _, _, _, h => by simp [decAlts] at h
  | .cons c t rest, val, code, b, r, h => by
    simp only [decAlts] at h ⊢
    split at h
    · rename_i hc
      simp only [hc, if_true]
      simp only [Res.bind_eq_ok, Res.pure_eq] at h ⊢
      obtain ⟨⟨v, n⟩, h', hc'⟩ := h
      exact ⟨(v, n), sm_ty t val _ _ h', hc'⟩
    · rename_i hc
      simp only [hc, if_false, Bool.false_eq_true]
      exact sm_alts rest val code b r h
end

end Hive.Serix
