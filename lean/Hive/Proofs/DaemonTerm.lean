import Hive.Proofs.DaemonX
/-!
# The shutdown terminates once the handlers have returned (C20)

`C20_shutdown_progress` / `C20_shutdown_not_stuck` say that a shutdown in progress is never stuck.  Here: a variant
(termination measure).  In a state with the stopped flag set in which no handler is running any more (`NoRun`: every
worker object is past its handler or was never started) the number

  `termM s` = remaining program points of the `stopOnce` body + remaining steps of the worker goroutines

strictly decreases with every step of the body and of a worker goroutine, no other thread changes it, and `NoRun` and
the flag persist (nothing can be started any more).  Together with `C20_shutdown_not_stuck` this bounds the number of
steps after which `ShutdownAndWait` returns, whatever the other threads of an arbitrary pool do in between.
-/
namespace Hive.Daemon
open Hive.Conc

/-- Remaining steps of a worker goroutine whose handler has returned: `Done`, clean-up, flag. -/
def wkRem (w : Wk) : Nat :=
  match w.pc with
  | .ret => 3
  | .dn => 2
  | .cl => 1
  | _ => 0

def wsum (f : Nat → Nat) : Nat → Nat
  | 0 => 0
  | n + 1 => wsum f n + f n

theorem wsum_congr {f g : Nat → Nat} : ∀ {n : Nat}, (∀ i, i < n → f i = g i) → wsum f n = wsum g n
  | 0, _ => rfl
  | n + 1, h => by
    have h1 : wsum f n = wsum g n := wsum_congr (fun i hi => h i (Nat.lt_succ_of_lt hi))
    simp [wsum, h1, h n (Nat.lt_succ_self n)]

theorem wsum_change {f g : Nat → Nat} (i : Nat) : ∀ {n : Nat}, i < n → (∀ j, j < n → j ≠ i → g j = f j) →
    wsum g n + f i = wsum f n + g i
  | 0, h, _ => absurd h (Nat.not_lt_zero _)
  | n + 1, hi, h => by
    rcases Nat.lt_succ_iff_lt_or_eq.mp hi with hlt | heq
    · have ih := wsum_change i hlt (fun j hj hne => h j (Nat.lt_succ_of_lt hj) hne)
      have hn : g n = f n := h n (Nat.lt_succ_self n) (by omega)
      simp only [wsum, hn]; omega
    · subst heq
      have hc : wsum g i = wsum f i := wsum_congr (fun j hj => h j (Nat.lt_succ_of_lt hj) (by omega))
      simp only [wsum, hc]; omega

/-- Remaining program points of the `stopOnce` body. -/
def sdRem (s : St) : Nat :=
  match s.sd with
  | .idle => 0
  | .taken => 3 * s.regl.length + 7
  | .stoppedSet => 3 * s.regl.length + 6
  | .snap => 3 * s.regl.length + 5
  | .loop _ [] => 4
  | .loop prev (h :: rest) => 3 * (rest.length + 1) + 4 + (if ordOf s h < prev then 2 else 0)
  | .waitMid _ todo => 3 * todo.length + 5
  | .waitLast _ => 3
  | .unrun => 2
  | .clr => 1
  | .done => 0

def wkW (s : St) : Nat := wsum (fun i => wkRem (s.objs i)) s.n

def termM (s : St) : Nat := sdRem s + wkW s

/-- No handler is running: every object is past its handler or has not been started. -/
def NoRun (s : St) : Prop := ∀ i, i < s.n → (s.objs i).pc ≠ .run

/-- A step that changes nothing the measure reads. -/
structure Same (s s' : St) : Prop where
  n : s'.n = s.n
  objs : s'.objs = s.objs
  sd : s'.sd = s.sd
  regl : s'.regl = s.regl
  stopped : s'.stopped = s.stopped
  wgc : s'.wgc = s.wgc

theorem same_refl (s : St) : Same s s := ⟨rfl, rfl, rfl, rfl, rfl, rfl⟩

theorem same_emit (e : Ev) (s : St) : Same s (emit e s) := ⟨rfl, rfl, rfl, rfl, rfl, rfl⟩

theorem same_trans {a b c : St} (h1 : Same a b) (h2 : Same b c) : Same a c :=
  ⟨h2.n.trans h1.n, h2.objs.trans h1.objs, h2.sd.trans h1.sd, h2.regl.trans h1.regl, h2.stopped.trans h1.stopped,
    h2.wgc.trans h1.wgc⟩

theorem termM_same {s s' : St} (h : Same s s') : termM s' = termM s := by
  have h1 : sdRem s' = sdRem s := by
    unfold sdRem ordOf
    rw [h.sd, h.regl, h.objs]
  have h2 : wkW s' = wkW s := by
    unfold wkW
    rw [h.n, h.objs]
  unfold termM
  rw [h1, h2]

theorem noRun_same {s s' : St} (h : Same s s') (hn : NoRun s) : NoRun s' := by
  intro i hi
  rw [h.objs]
  exact hn i (h.n ▸ hi)

/-- The body's step: the measure of the body strictly decreases, the worker goroutines are where they were. -/
theorem sdBody_term {s s' : St} (hst : s.stopped = true) (hs : s' ∈ sdBody s) :
    sdRem s' < sdRem s ∧ s'.n = s.n ∧ (∀ i, (s'.objs i).pc = (s.objs i).pc) ∧ s'.stopped = true := by
  unfold sdBody at hs
  cases hsd : s.sd with
  | idle => simp [hsd] at hs
  | done => simp [hsd] at hs
  | taken =>
    simp only [hsd, List.mem_singleton] at hs; subst hs
    simp [sdRem, hsd]
  | stoppedSet =>
    simp only [hsd] at hs
    split at hs <;> (simp only [List.mem_singleton] at hs; subst hs) <;> simp [sdRem, hsd, hst]
  | snap =>
    simp only [hsd] at hs
    cases hreg : s.regl with
    | nil =>
      simp only [hreg, List.mem_singleton] at hs; subst hs
      simp [sdRem, hsd, hst, hreg]
    | cons hd rest =>
      simp only [hreg, List.mem_singleton] at hs; subst hs
      simp [sdRem, hsd, hst, hreg, ordOf]
  | loop prev todo =>
    cases todo with
    | nil =>
      simp only [hsd, List.mem_singleton] at hs; subst hs
      simp [sdRem, hsd, hst]
    | cons hd rest =>
      simp only [hsd] at hs
      have hc : sdRem { cancelW s hd with sd := .loop prev rest } < sdRem s ∧
          ({ cancelW s hd with sd := .loop prev rest } : St).n = s.n ∧
          (∀ i, (({ cancelW s hd with sd := .loop prev rest } : St).objs i).pc = (s.objs i).pc) ∧
          ({ cancelW s hd with sd := .loop prev rest } : St).stopped = true := by
        refine ⟨?_, rfl, ?_, hst⟩
        · cases rest with
          | nil => simp only [sdRem, hsd]; split <;> simp
          | cons h2 r2 =>
            simp only [sdRem, hsd, List.length_cons]
            split <;> split <;> omega
        · intro i
          simp only [cancelW, emit_objs, setObj_objs]
          split
          · rename_i h; subst h; rfl
          · rfl
      split at hs
      · simp only [List.mem_singleton] at hs; subst hs; exact hc
      · split at hs
        · rename_i hlt
          simp only [List.mem_singleton] at hs; subst hs
          simp [sdRem, hsd, hst, hlt]
        · simp only [List.mem_singleton] at hs; subst hs; exact hc
  | waitMid prev todo =>
    simp only [hsd] at hs
    split at hs
    · cases todo with
      | nil => simp only [List.mem_singleton] at hs; subst hs; simp [sdRem, hsd, hst]
      | cons hd rest =>
        simp only [List.mem_singleton] at hs; subst hs
        simp [sdRem, hsd, hst, ordOf]
    · simp at hs
  | waitLast prev =>
    simp only [hsd] at hs
    split at hs
    · simp only [List.mem_singleton] at hs; subst hs; simp [sdRem, hsd, hst]
    · simp at hs
  | unrun =>
    simp only [hsd, List.mem_singleton] at hs; subst hs
    simp [sdRem, hsd, hst]
  | clr =>
    simp only [hsd, List.mem_singleton] at hs; subst hs
    simp [sdRem, hsd, hst]

theorem sdRem_congr {s s' : St} (h1 : s'.sd = s.sd) (h2 : s'.regl = s.regl)
    (h3 : ∀ i, (s'.objs i).order = (s.objs i).order) : sdRem s' = sdRem s := by
  unfold sdRem
  rw [h1, h2]
  cases s.sd with
  | loop prev todo =>
    cases todo with
    | nil => rfl
    | cons h rest => simp only [ordOf, h3]; rfl
  | _ => rfl

/-- A step of a worker goroutine whose handler has returned: its remaining steps decrease, the body is where it was. -/
theorem wkStep_term {s s' : St} {i : Nat} (hst : s.stopped = true) (hnr : NoRun s) (hs : s' ∈ wkStep s i) :
    wkW s' < wkW s ∧ sdRem s' = sdRem s ∧ NoRun s' ∧ s'.stopped = true := by
  unfold wkStep at hs
  by_cases hi : i < s.n
  · simp only [hi, if_true] at hs
    have key : ∀ (w' : Wk) (s1 : St), s1.n = s.n → s1.objs = (setObj s i w').objs → s1.sd = s.sd → s1.regl = s.regl →
        s1.stopped = s.stopped → w'.order = (s.objs i).order → wkRem w' < wkRem (s.objs i) → w'.pc ≠ .run →
        wkW s1 < wkW s ∧ sdRem s1 = sdRem s ∧ NoRun s1 ∧ s1.stopped = true := by
      intro w' s1 h1 h2 h3 h4 h5 h6 h7 h8
      refine ⟨?_, ?_, ?_, by rw [h5]; exact hst⟩
      · unfold wkW
        rw [h1]
        have hch := wsum_change (f := fun j => wkRem (s.objs j)) (g := fun j => wkRem (s1.objs j)) i hi
          (by intro j _ hji; show wkRem (s1.objs j) = wkRem (s.objs j); rw [h2, setObj_objs_ne _ _ _ _ hji])
        have hg : wkRem (s1.objs i) = wkRem w' := by rw [h2, setObj_objs_same]
        simp only [hg] at hch
        omega
      · apply sdRem_congr h3 h4
        intro j
        rw [h2]
        by_cases hji : j = i
        · subst hji; rw [setObj_objs_same]; exact h6
        · rw [setObj_objs_ne _ _ _ _ hji]
      · intro j hj
        rw [h2]
        by_cases hji : j = i
        · subst hji; rw [setObj_objs_same]; exact h8
        · rw [setObj_objs_ne _ _ _ _ hji]; exact hnr j (h1 ▸ hj)
    cases hpc : (s.objs i).pc with
    | reg => simp [hpc] at hs
    | fin => simp [hpc] at hs
    | run => exact absurd hpc (hnr i hi)
    | ret =>
      simp only [hpc, List.mem_singleton] at hs
      subst hs
      exact key { s.objs i with pc := .dn } _ rfl rfl rfl rfl rfl rfl (by simp [wkRem, hpc]) (by simp)
    | dn =>
      simp only [hpc, hst, if_true, List.mem_singleton] at hs
      subst hs
      exact key { s.objs i with pc := .cl } _ rfl rfl rfl rfl rfl rfl (by simp [wkRem, hpc]) (by simp)
    | cl =>
      simp only [hpc, List.mem_singleton] at hs
      subst hs
      exact key { s.objs i with pc := .fin } _ rfl rfl rfl rfl rfl rfl (by simp [wkRem, hpc]) (by simp)
  · simp [hi] at hs

/-- **Termination measure of a shutdown whose handlers have returned.**  With the stopped flag set and no handler
running, every step of every thread keeps both facts and does not increase `termM`; a step of the `stopOnce` body
(before it is done) and a step of a worker goroutine strictly decrease it. -/
theorem step_term {s s' : St} {t t' : Th} (hA : InvA s) (hst : s.stopped = true) (hnr : NoRun s)
    (hs : (s', t') ∈ step true true s t) :
    s'.stopped = true ∧ NoRun s' ∧ termM s' ≤ termM s ∧
      (((∃ i, t = .wk i) ∨ ((∃ c, t = .sd c .body) ∧ s.sd ≠ .done)) → termM s' < termM s) := by
  have hne := hA.stopped_iff.mp hst
  have same : ∀ s1 : St, s' = s1 → Same s s1 → ¬ ((∃ i, t = .wk i) ∨ ((∃ c, t = .sd c .body) ∧ s.sd ≠ .done)) →
      s'.stopped = true ∧ NoRun s' ∧ termM s' ≤ termM s ∧
      (((∃ i, t = .wk i) ∨ ((∃ c, t = .sd c .body) ∧ s.sd ≠ .done)) → termM s' < termM s) := by
    intro s1 e h hno
    subst e
    exact ⟨by rw [h.stopped]; exact hst, noRun_same h hnr, Nat.le_of_eq (termM_same h), fun hyes => absurd hyes hno⟩
  cases t with
  | bw c name order pc =>
    have hno : ¬ ((∃ i, Th.bw c name order pc = .wk i) ∨ ((∃ c', Th.bw c name order pc = .sd c' .body) ∧ s.sd ≠ .done)) := by
      rintro (⟨_, h⟩ | ⟨⟨_, h⟩, _⟩) <;> cases h
    cases pc with
    | call =>
      simp only [step, hst, if_true, List.mem_singleton, Prod.mk.injEq] at hs
      exact same _ hs.1 (same_trans (same_emit _ _) (same_emit _ _)) hno
    | passed =>
      simp only [step, List.mem_map] at hs
      obtain ⟨s1, hs1, heq⟩ := hs
      injection heq with h1 _
      subst h1
      have : s1 = emit (.refuse c name .stopped) s := by
        unfold bwCrit at hs1; simpa [hst] using hs1
      exact same _ this (same_emit _ _) hno
    | fin => simp [step] at hs
  | starter pc =>
    have hno : ¬ ((∃ i, Th.starter pc = .wk i) ∨ ((∃ c', Th.starter pc = .sd c' .body) ∧ s.sd ≠ .done)) := by
      rintro (⟨_, h⟩ | ⟨⟨_, h⟩, _⟩) <;> cases h
    cases pc with
    | call =>
      simp only [step, hst, if_true, List.mem_singleton, Prod.mk.injEq] at hs
      exact same _ hs.1 (same_refl _) hno
    | passed =>
      simp only [step, List.mem_singleton, Prod.mk.injEq] at hs
      exact same _ hs.1 (by rw [startCrit_stopped hst]; exact same_refl _) hno
    | fin => simp [step] at hs
  | wk i =>
    simp only [step, List.mem_map] at hs
    obtain ⟨s1, hs1, heq⟩ := hs
    injection heq with h1 _
    subst h1
    obtain ⟨h1, h2, h3, h4⟩ := wkStep_term hst hnr hs1
    have hlt : termM s1 < termM s := by unfold termM; omega
    exact ⟨h4, h3, Nat.le_of_lt hlt, fun _ => hlt⟩
  | sd c pc =>
    cases pc with
    | call =>
      simp only [step, List.mem_singleton, Prod.mk.injEq] at hs
      exact same _ hs.1 (same_emit _ _) (by rintro (⟨_, h⟩ | ⟨⟨_, h⟩, _⟩) <;> cases h)
    | enter =>
      have e : s' = s := by
        simp only [step] at hs
        cases hsd : s.sd with
        | idle => exact absurd hsd hne.1
        | _ => simp only [hsd, List.mem_singleton, Prod.mk.injEq] at hs; exact hs.1
      exact same _ e (same_refl _) (by rintro (⟨_, h⟩ | ⟨⟨_, h⟩, _⟩) <;> cases h)
    | body =>
      simp only [step] at hs
      by_cases hd : s.sd = .done
      · have e : s' = emit (.sdret c) s := by
          simp only [hd, List.mem_singleton, Prod.mk.injEq] at hs; exact hs.1
        exact same _ e (same_emit _ _) (by
          rintro (⟨_, h⟩ | ⟨_, h⟩)
          · cases h
          · exact h hd)
      · have hb : s' ∈ sdBody s := by
          cases hsd : s.sd with
          | done => exact absurd hsd hd
          | _ =>
            simp only [hsd, List.mem_map] at hs
            obtain ⟨s1, hs1, heq⟩ := hs
            injection heq with h1 _
            subst h1
            exact hs1
        obtain ⟨h1, h2, h3, h4⟩ := sdBody_term hst hb
        have hw : wkW s' = wkW s := by
          unfold wkW
          rw [h2]
          apply wsum_congr
          intro i _
          unfold wkRem
          rw [h3 i]
        have hlt : termM s' < termM s := by unfold termM; omega
        refine ⟨h4, ?_, Nat.le_of_lt hlt, fun _ => hlt⟩
        intro i hi
        rw [h3 i]
        exact hnr i (h2 ▸ hi)
    | blocked =>
      have e : s' = emit (.sdret c) s := by
        simp only [step] at hs
        cases hsd : s.sd with
        | done => simp only [hsd, List.mem_singleton, Prod.mk.injEq] at hs; exact hs.1
        | _ => simp [hsd] at hs
      exact same _ e (same_emit _ _) (by rintro (⟨_, h⟩ | ⟨⟨_, h⟩, _⟩) <;> cases h)
    | fin => simp [step] at hs
  | watcher =>
    simp only [step, hst, if_true, List.mem_singleton, Prod.mk.injEq] at hs
    exact same _ hs.1 (same_emit _ _) (by rintro (⟨_, h⟩ | ⟨⟨_, h⟩, _⟩) <;> cases h)
  | runner c pc =>
    have hno : ¬ ((∃ i, Th.runner c pc = .wk i) ∨ ((∃ c', Th.runner c pc = .sd c' .body) ∧ s.sd ≠ .done)) := by
      rintro (⟨_, h⟩ | ⟨⟨_, h⟩, _⟩) <;> cases h
    cases pc with
    | call =>
      simp only [step, hst, if_true, List.mem_singleton, Prod.mk.injEq] at hs
      exact same _ hs.1 (same_emit _ _) hno
    | passed =>
      simp only [step, List.mem_singleton, Prod.mk.injEq] at hs
      exact same _ hs.1 (by rw [startCrit_stopped hst]; exact same_refl _) hno
    | started =>
      simp only [step, if_true] at hs
      split at hs
      · simp only [List.mem_singleton, Prod.mk.injEq] at hs
        exact same _ hs.1 (same_emit _ _) hno
      · simp at hs
    | waiting keys => cases keys <;> simp [step] at hs
    | fin => simp [step] at hs

/-! ## no `WaitGroup.Add` once the stopped flag is set

The per-order WaitGroups are waited on only by `stopWorkers` (program points `waitMid`, `waitLast`), which runs after the
stopped flag was stored under the lock; `Add` is called only by `runBackgroundWorker`, under the lock, by callers that
found the flag not set under the same lock.  So no `Add` can be concurrent with (or follow) a `Wait`: the misuse panics of
`sync.WaitGroup` ("Add called concurrently with Wait", "reused before previous Wait has returned") are unreachable. -/

theorem sdBody_wgc {s s' : St} (hs : s' ∈ sdBody s) : s'.wgc = s.wgc := by
  unfold sdBody at hs
  cases hsd : s.sd with
  | idle => simp [hsd] at hs
  | done => simp [hsd] at hs
  | taken => simp only [hsd, List.mem_singleton] at hs; subst hs; rfl
  | stoppedSet =>
    simp only [hsd] at hs
    split at hs <;> (simp only [List.mem_singleton] at hs; subst hs) <;> rfl
  | snap =>
    simp only [hsd] at hs
    split at hs <;> (simp only [List.mem_singleton] at hs; subst hs) <;> rfl
  | loop prev todo =>
    cases todo with
    | nil => simp only [hsd, List.mem_singleton] at hs; subst hs; rfl
    | cons hd rest =>
      simp only [hsd] at hs
      split at hs
      · simp only [List.mem_singleton] at hs; subst hs; rfl
      · split at hs <;> (simp only [List.mem_singleton] at hs; subst hs) <;> rfl
  | waitMid prev todo =>
    simp only [hsd] at hs
    split at hs
    · cases todo <;> (simp only [List.mem_singleton] at hs; subst hs) <;> rfl
    · simp at hs
  | waitLast prev =>
    simp only [hsd] at hs
    split at hs
    · simp only [List.mem_singleton] at hs; subst hs; rfl
    · simp at hs
  | unrun => simp only [hsd, List.mem_singleton] at hs; subst hs; rfl
  | clr => simp only [hsd, List.mem_singleton] at hs; subst hs; rfl

/-- A worker goroutine never increments a WaitGroup counter (it calls `Done` once). -/
theorem wkStep_wgc_le {s s' : St} {i : Nat} (hs : s' ∈ wkStep s i) : ∀ o, s'.wgc o ≤ s.wgc o := by
  unfold wkStep at hs
  by_cases hi : i < s.n
  · simp only [hi, if_true] at hs
    cases hpc : (s.objs i).pc with
    | reg => simp [hpc] at hs
    | fin => simp [hpc] at hs
    | run =>
      simp only [hpc, List.mem_append, List.mem_singleton] at hs
      rcases hs with hs | hs
      · subst hs; intro o; exact Nat.le_refl _
      · split at hs
        · simp only [List.mem_singleton] at hs; subst hs; intro o; exact Nat.le_refl _
        · simp at hs
    | ret =>
      simp only [hpc, List.mem_singleton] at hs
      subst hs
      intro o
      show (if o = (s.objs i).order then s.wgc o - 1 else s.wgc o) ≤ s.wgc o
      split <;> omega
    | dn =>
      simp only [hpc] at hs
      split at hs <;> (simp only [List.mem_singleton] at hs; subst hs) <;> (intro o; exact Nat.le_refl _)
    | cl =>
      simp only [hpc, List.mem_singleton] at hs
      subst hs; intro o; exact Nat.le_refl _
  · simp [hi] at hs

/-- Under the stopped flag a step is a step that changes nothing of the daemon proper, a worker goroutine's step, or a
step of the `stopOnce` body. -/
theorem step_stopped_cases {s s' : St} {t t' : Th} (hA : InvA s) (hst : s.stopped = true)
    (hs : (s', t') ∈ step true true s t) : Same s s' ∨ (∃ i, s' ∈ wkStep s i) ∨ s' ∈ sdBody s := by
  have hne := hA.stopped_iff.mp hst
  cases t with
  | bw c name order pc =>
    left
    cases pc with
    | call =>
      simp only [step, hst, if_true, List.mem_singleton, Prod.mk.injEq] at hs
      rw [hs.1]; exact same_trans (same_emit _ _) (same_emit _ _)
    | passed =>
      simp only [step, List.mem_map] at hs
      obtain ⟨s1, hs1, heq⟩ := hs
      injection heq with h1 _
      subst h1
      have : s1 = emit (.refuse c name .stopped) s := by
        unfold bwCrit at hs1; simpa [hst] using hs1
      rw [this]; exact same_emit _ _
    | fin => simp [step] at hs
  | starter pc =>
    left
    cases pc with
    | call =>
      simp only [step, hst, if_true, List.mem_singleton, Prod.mk.injEq] at hs
      rw [hs.1]; exact same_refl _
    | passed =>
      simp only [step, List.mem_singleton, Prod.mk.injEq] at hs
      rw [hs.1, startCrit_stopped hst]; exact same_refl _
    | fin => simp [step] at hs
  | wk i =>
    right; left
    simp only [step, List.mem_map] at hs
    obtain ⟨s1, hs1, heq⟩ := hs
    injection heq with h1 _
    subst h1
    exact ⟨i, hs1⟩
  | sd c pc =>
    cases pc with
    | call =>
      left
      simp only [step, List.mem_singleton, Prod.mk.injEq] at hs
      rw [hs.1]; exact same_emit _ _
    | enter =>
      left
      have e : s' = s := by
        simp only [step] at hs
        cases hsd : s.sd with
        | idle => exact absurd hsd hne.1
        | _ => simp only [hsd, List.mem_singleton, Prod.mk.injEq] at hs; exact hs.1
      rw [e]; exact same_refl _
    | body =>
      simp only [step] at hs
      by_cases hd : s.sd = .done
      · left
        have e : s' = emit (.sdret c) s := by
          simp only [hd, List.mem_singleton, Prod.mk.injEq] at hs; exact hs.1
        rw [e]; exact same_emit _ _
      · right; right
        cases hsd : s.sd with
        | done => exact absurd hsd hd
        | _ =>
          simp only [hsd, List.mem_map] at hs
          obtain ⟨s1, hs1, heq⟩ := hs
          injection heq with h1 _
          subst h1
          exact hs1
    | blocked =>
      left
      have e : s' = emit (.sdret c) s := by
        simp only [step] at hs
        cases hsd : s.sd with
        | done => simp only [hsd, List.mem_singleton, Prod.mk.injEq] at hs; exact hs.1
        | _ => simp [hsd] at hs
      rw [e]; exact same_emit _ _
    | fin => simp [step] at hs
  | watcher =>
    left
    simp only [step, hst, if_true, List.mem_singleton, Prod.mk.injEq] at hs
    rw [hs.1]; exact same_emit _ _
  | runner c pc =>
    left
    cases pc with
    | call =>
      simp only [step, hst, if_true, List.mem_singleton, Prod.mk.injEq] at hs
      rw [hs.1]; exact same_emit _ _
    | passed =>
      simp only [step, List.mem_singleton, Prod.mk.injEq] at hs
      rw [hs.1, startCrit_stopped hst]; exact same_refl _
    | started =>
      simp only [step, if_true] at hs
      split at hs
      · simp only [List.mem_singleton, Prod.mk.injEq] at hs
        rw [hs.1]; exact same_emit _ _
      · simp at hs
    | waiting keys => cases keys <;> simp [step] at hs
    | fin => simp [step] at hs

/-- **No `Add` after the stop**: once the stopped flag is set no step of any thread increments a WaitGroup counter. -/
theorem step_noadd {s s' : St} {t t' : Th} (hA : InvA s) (hst : s.stopped = true)
    (hs : (s', t') ∈ step true true s t) : ∀ o, s'.wgc o ≤ s.wgc o := by
  rcases step_stopped_cases hA hst hs with h | ⟨i, h⟩ | h
  · intro o; rw [h.wgc]; exact Nat.le_refl _
  · exact wkStep_wgc_le h
  · intro o; rw [sdBody_wgc h]; exact Nat.le_refl _

/-! ## `ErrDaemonAlreadyStopped` only with the flag set -/

theorem spawn1_tr_mem {s : St} {i : Nat} {e : Ev} (h : e ∈ (spawn1 s i).tr) :
    e ∈ s.tr ∨ ∃ nm o, e = .start i nm o := by
  by_cases hpc : (s.objs i).pc = .reg
  · rw [spawn1_reg hpc] at h
    simp only [emit_tr, List.mem_append, List.mem_singleton] at h
    rcases h with h | h
    · exact Or.inl h
    · exact Or.inr ⟨_, _, h⟩
  · rw [spawn1_not_reg hpc] at h; exact Or.inl h

/-- **`ErrDaemonAlreadyStopped` is returned only when the stopped flag is set**: a step of a `BackgroundWorker` call that
appends the refusal `stopped` to the trace is taken in a state with the flag set (the unlocked pre-check or the re-check
under the lock; every other outcome of the critical section is another refusal, or an acceptance). -/
theorem bw_refused_stopped_only_when_stopped {s s' : St} {c name : Nat} {order : Int} {pc : CallPc} {t' : Th}
    (h : (s', t') ∈ step true true s (.bw c name order pc))
    (hr : Ev.refuse c name .stopped ∈ s'.tr) (hn : Ev.refuse c name .stopped ∉ s.tr) : s.stopped = true := by
  cases hst : s.stopped with
  | true => rfl
  | false =>
    exfalso
    cases pc with
    | call =>
      simp only [step, hst, Bool.false_eq_true, if_false, List.mem_singleton, Prod.mk.injEq] at h
      rw [h.1] at hr
      simp only [emit_tr, List.mem_append, List.mem_singleton] at hr
      rcases hr with hr | hr
      · exact hn hr
      · cases hr
    | passed =>
      simp only [step, List.mem_map] at h
      obtain ⟨s1, hs1, heq⟩ := h
      injection heq with h1 _
      subst h1
      have hreg : ∀ base, s1 ∈ register s c name order base → False := by
        intro base hb
        obtain ⟨l, _, rfl⟩ := mem_register hb
        have htr : ∀ e, e ∈ (regState s c name order l).tr → e ∈ s.tr ∨ e = .accept c name s.n := by
          intro e he
          rw [regState_tr] at he
          simpa using he
        split at hr
        · rcases spawn1_tr_mem hr with h1 | ⟨_, _, h1⟩
          · rcases htr _ h1 with h2 | h2
            · exact hn h2
            · cases h2
          · cases h1
        · rcases htr _ hr with h2 | h2
          · exact hn h2
          · cases h2
      have hem : ∀ w : Why, w ≠ .stopped → s1 = emit (.refuse c name w) s → False := by
        intro w hw e
        rw [e] at hr
        simp only [emit_tr, List.mem_append, List.mem_singleton] at hr
        rcases hr with hr | hr
        · exact hn hr
        · injection hr with _ _ h3; exact hw h3.symm
      unfold bwCrit at hs1
      simp only [hst, Bool.and_false, Bool.false_eq_true, if_false] at hs1
      split at hs1
      · simp at hs1; exact hem .panic (by simp) hs1
      · split at hs1
        · split at hs1
          · simp at hs1; exact hem .dup (by simp) hs1
          · split at hs1
            · simp at hs1; exact hem .running (by simp) hs1
            · exact hreg _ hs1
        · exact hreg _ hs1
    | fin => simp [step] at h

end Hive.Daemon
