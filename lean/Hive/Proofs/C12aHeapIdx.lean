import Hive.Proofs.C12aHeapBasic
/-!
# Level 1: the index invariant of `generalheap.Heap` ("handle index = position")

`IdxInv s`: every array slot's element has its `index` field (`idx[id]`) equal to its position, and
every allocated handle whose element is not in the array has index `-1`.  Preserved by every operation
of the model, independently of the heap order.
-/
namespace Hive.C12a.Heap

/-- Every array slot's element has its index field equal to its position; every allocated handle that
is not in the array has index `-1`. -/
def IdxInv (s : St) : Prop :=
  (∀ i, i < s.arr.length → (s.at i).id < s.idx.length ∧ s.idx.getD (s.at i).id (-1) = (i : Int)) ∧
  (∀ h, h < s.idx.length → (∀ i, i < s.arr.length → (s.at i).id ≠ h) → s.idx.getD h (-1) = -1)

theorem idxInv_init (d : Cmp) : IdxInv (init d) := by
  constructor <;> simp [init]

/-- Under `IdxInv` two slots holding the same id are the same slot. -/
theorem IdxInv.inj {s : St} (hs : IdxInv s) {i j} (hi : i < s.arr.length) (hj : j < s.arr.length)
    (h : (s.at i).id = (s.at j).id) : i = j := by
  have h1 := (hs.1 i hi).2
  have h2 := (hs.1 j hj).2
  rw [h] at h1; omega

/-- A handle with index `≠ -1` points at the slot that holds its element. -/
theorem IdxInv.lookup {s : St} (hs : IdxInv s) {h : Nat} (hh : s.idx.getD h (-1) ≠ -1) :
    (s.idx.getD h (-1)).toNat < s.arr.length ∧ (s.at (s.idx.getD h (-1)).toNat).id = h ∧
      s.idx.getD h (-1) = ((s.idx.getD h (-1)).toNat : Int) := by
  have hlt : h < s.idx.length := by
    apply Classical.byContradiction; intro hc
    apply hh
    simp [List.getD_eq_getElem?_getD, Nat.le_of_not_lt hc]
  have : ∃ i, i < s.arr.length ∧ (s.at i).id = h := by
    apply Classical.byContradiction; intro hc
    exact hh (hs.2 h hlt (fun i hi he => hc ⟨i, hi, he⟩))
  obtain ⟨i, hi, rfl⟩ := this
  have := (hs.1 i hi).2
  rw [this]
  simp [hi]

/-- A handle that is out of range or whose element is not in the array has index `-1`. -/
theorem IdxInv.absent {s : St} (hs : IdxInv s) {h : Nat}
    (hn : ∀ i, i < s.arr.length → (s.at i).id ≠ h) : s.idx.getD h (-1) = -1 := by
  by_cases hlt : h < s.idx.length
  · exact hs.2 h hlt hn
  · simp [List.getD_eq_getElem?_getD, Nat.le_of_not_lt hlt]

/-- `Swap(i, j)` keeps the index invariant. -/
theorem idxInv_swap (s : St) (i j : Nat) (hi : i < s.arr.length) (hj : j < s.arr.length)
    (hs : IdxInv s) : IdxInv (swap s i j) := by
  refine ⟨?_, ?_⟩
  · intro k hk
    simp only [swap_length] at hk
    simp only [at_swap s i j k hi hj, idx_swap, swap_idx_length]
    have := hs.1 k hk; have := hs.1 i hi; have := hs.1 j hj
    have := @IdxInv.inj s hs
    grind
  · intro h hh hn
    simp only [swap_length, swap_idx_length] at hh hn
    simp only [idx_swap]
    have hni := hn i hi
    have hnj := hn j hj
    simp only [at_swap s i j _ hi hj] at hni hnj
    have hall : ∀ k, k < s.arr.length → (s.at k).id ≠ h := by
      intro k hk
      have := hn k hk
      simp only [at_swap s i j _ hi hj] at this
      grind
    have := hs.2 h hh hall
    grind

/-- `up` keeps the index invariant. -/
theorem idxInv_up (s : St) (j : Nat) (hj : j < s.arr.length) (hs : IdxInv s) : IdxInv (up s j) := by
  fun_induction up s j with
  | case1 s => exact hs
  | case2 s j h0 hl ih =>
    exact ih (by simp; omega) (idxInv_swap s _ _ (by omega) hj hs)
  | case3 => exact hs

/-- `down` keeps the index invariant. -/
theorem idxInv_down (s : St) (i n : Nat) (hn : n ≤ s.arr.length) (hs : IdxInv s) :
    IdxInv (down s i n).1 := by
  fun_induction down s i n with
  | case1 s i h hl ih =>
    have := child_lt s i n h
    exact ih (by simpa using hn) (idxInv_swap s _ _ (by omega) (by omega) hs)
  | case2 => exact hs
  | case3 => exact hs

/-- Allocating a fresh element and appending it (`Heap.Push`) keeps the index invariant. -/
theorem idxInv_pushLast_alloc (s : St) (p : Int) (v : Nat) (hs : IdxInv s) :
    IdxInv (pushLast (alloc s p v).1 (alloc s p v).2) := by
  refine ⟨?_, ?_⟩
  · intro k hk
    simp only [pushLast_arr, alloc_arr, List.length_append, List.length_singleton] at hk
    simp only [at_pushLast, idx_pushLast, idx_alloc, pushLast_idx_length, alloc_idx_length,
      alloc_arr, alloc_at, alloc_elem]
    by_cases hk' : k < s.arr.length
    · have := hs.1 k hk'
      grind
    · grind
  · intro h hh hn
    simp only [pushLast_arr, alloc_arr, List.length_append, List.length_singleton,
      pushLast_idx_length, alloc_idx_length] at hh hn
    simp only [idx_pushLast, idx_alloc, alloc_idx_length, alloc_arr, alloc_elem]
    have h1 := hn s.arr.length (by omega)
    simp only [at_pushLast, alloc_arr, alloc_elem] at h1
    have hall : ∀ k, k < s.arr.length → (s.at k).id ≠ h := by
      intro k hk
      have := hn k (by omega)
      simp only [at_pushLast, alloc_arr, alloc_at] at this
      grind
    have := fun hlt => hs.2 h hlt hall
    grind

/-- `Heap.Pop` (cut the last slot off, set its index to `-1`) keeps the index invariant. -/
theorem idxInv_popLast (s : St) (hs : IdxInv s) : IdxInv (popLast s).1 := by
  by_cases hne : s.arr.length = 0
  · -- nothing in the array: every index is already `-1`
    refine ⟨fun k hk => by simp [hne] at hk, fun h hh _ => ?_⟩
    simp only [popLast_idx_length] at hh
    have := hs.2 h hh (fun i hi => by omega)
    simp only [idx_popLast]; grind
  refine ⟨?_, ?_⟩
  · intro k hk
    simp only [popLast_arr, List.length_take] at hk
    have hk' : k < s.arr.length - 1 := by omega
    simp only [at_popLast s k hk', idx_popLast, popLast_idx_length]
    have := hs.1 k (by omega)
    have := @IdxInv.inj s hs k (s.arr.length - 1) (by omega) (by omega)
    grind
  · intro h hh hn
    simp only [popLast_arr, List.length_take, popLast_idx_length] at hh hn
    simp only [idx_popLast]
    by_cases he : h = (s.at (s.arr.length - 1)).id
    · simp [he, (hs.1 (s.arr.length - 1) (by omega)).1]
    · have hall : ∀ k, k < s.arr.length → (s.at k).id ≠ h := by
        intro k hk
        by_cases hk' : k < s.arr.length - 1
        · have := hn k (by omega)
          rwa [at_popLast s k hk'] at this
        · have : k = s.arr.length - 1 := by omega
          subst this; exact fun hc => he hc.symm
      have := hs.2 h hh hall
      grind

/-- After `Heap.Pop` the popped element's index is `-1`. -/
theorem popLast_idx_elem (s : St) : (popLast s).1.idx.getD (popLast s).2.id (-1) = -1 := by
  simp only [idx_popLast, popLast_elem]
  by_cases h : (s.at (s.arr.length - 1)).id < s.idx.length
  · simp [h]
  · simp [h, List.getD_eq_getElem?_getD]

/-! ## `container/heap` operations -/

theorem idxInv_heapPush_alloc (s : St) (p : Int) (v : Nat) (hs : IdxInv s) :
    IdxInv (heapPush (alloc s p v).1 (alloc s p v).2) := by
  unfold heapPush
  exact idxInv_up _ _ (by simp) (idxInv_pushLast_alloc s p v hs)

/-- `heap.Pop` keeps the index invariant (non-empty heap). -/
theorem idxInv_heapPop (s : St) (hne : s.arr.length ≠ 0) (hs : IdxInv s) : IdxInv (heapPop s).1 := by
  unfold heapPop
  apply idxInv_popLast
  apply idxInv_down _ _ _ (by simp)
  exact idxInv_swap s _ _ (by omega) (by omega) hs

/-- The state `heap.Remove(i)` hands to `Heap.Pop`. -/
def removePre (s : St) (i : Nat) : St :=
  if s.arr.length - 1 ≠ i then
    if ¬ ((down (swap s i (s.arr.length - 1)) i (s.arr.length - 1)).2 > i)
    then up (down (swap s i (s.arr.length - 1)) i (s.arr.length - 1)).1 i
    else (down (swap s i (s.arr.length - 1)) i (s.arr.length - 1)).1
  else s

theorem heapRemove_eq (s : St) (i : Nat) : heapRemove s i = popLast (removePre s i) := rfl

@[simp] theorem removePre_length (s : St) (i) : (removePre s i).arr.length = s.arr.length := by
  unfold removePre; split <;> (try split) <;> simp
@[simp] theorem removePre_cmp (s : St) (i) : (removePre s i).cmp = s.cmp := by
  unfold removePre; split <;> (try split) <;> simp
@[simp] theorem removePre_idx_length (s : St) (i) : (removePre s i).idx.length = s.idx.length := by
  unfold removePre; split <;> (try split) <;> simp

theorem idxInv_removePre (s : St) (i : Nat) (hi : i < s.arr.length) (hs : IdxInv s) :
    IdxInv (removePre s i) := by
  unfold removePre
  have h1 := idxInv_swap s i (s.arr.length - 1) hi (by omega) hs
  have h2 := idxInv_down _ i (s.arr.length - 1) (by simp) h1
  split
  · split
    · exact idxInv_up _ _ (by simpa using hi) h2
    · exact h2
  · exact hs

/-- `heap.Remove(i)` keeps the index invariant (`i` in range). -/
theorem idxInv_heapRemove (s : St) (i : Nat) (hi : i < s.arr.length) (hs : IdxInv s) :
    IdxInv (heapRemove s i).1 := by
  rw [heapRemove_eq]
  exact idxInv_popLast _ (idxInv_removePre s i hi hs)

/-! ## `priorityqueue.PriorityQueue` operations -/

/-- `Push` keeps the index invariant. -/
theorem idxInv_push (s : St) (v : Nat) (p : Int) (hs : IdxInv s) : IdxInv (push s v p).1 :=
  idxInv_heapPush_alloc s p v hs

/-- The `remove` closure keeps the index invariant, for every handle. -/
theorem idxInv_removeHandle (s : St) (h : Nat) (hs : IdxInv s) : IdxInv (removeHandle s h) := by
  unfold removeHandle
  split
  · next hh => exact idxInv_heapRemove s _ (hs.lookup hh).1 hs
  · exact hs

theorem idxInv_pop (s : St) (hs : IdxInv s) : IdxInv (pop s).1 := by
  unfold pop
  split
  · next hne => exact idxInv_heapPop s hne hs
  · exact hs

theorem idxInv_popUntilAux (p : Int) (fuel : Nat) (s : St) (acc : List Elem) (hs : IdxInv s) :
    IdxInv (popUntilAux p fuel s acc).1 := by
  induction fuel generalizing s acc with
  | zero => exact hs
  | succ n ih =>
    unfold popUntilAux
    split
    · next hc => exact ih _ _ (idxInv_heapPop s hc.1 hs)
    · exact hs

theorem idxInv_popUntil (s : St) (p : Int) (hs : IdxInv s) : IdxInv (popUntil s p).1 :=
  idxInv_popUntilAux p _ s [] hs

theorem idxInv_popAllAux (fuel : Nat) (s : St) (acc : List Elem) (hs : IdxInv s) :
    IdxInv (popAllAux fuel s acc).1 := by
  induction fuel generalizing s acc with
  | zero => exact hs
  | succ n ih =>
    unfold popAllAux
    split
    · next hc => exact ih _ _ (idxInv_heapPop s hc hs)
    · exact hs

theorem idxInv_popAll (s : St) (hs : IdxInv s) : IdxInv (popAll s).1 :=
  idxInv_popAllAux _ s [] hs

/-- Every request of the model keeps the index invariant. -/
theorem idxInv_step (s : St) (op : Op) (hs : IdxInv s) : IdxInv (step s op).1 := by
  cases op with
  | push v p => exact idxInv_push s v p hs
  | remove h => exact idxInv_removeHandle s h hs
  | peek => exact hs
  | pop => exact idxInv_pop s hs
  | popUntil p => exact idxInv_popUntil s p hs
  | popAll => exact idxInv_popAll s hs
  | size => exact hs
  | isEmpty => exact hs

theorem idxInv_final_of (s : St) (ops : List Op) (hs : IdxInv s) : IdxInv (final s ops) := by
  induction ops generalizing s with
  | nil => exact hs
  | cons op ops ih => exact ih _ (idxInv_step s op hs)

/-- The index invariant holds after every history of requests on a fresh queue. -/
theorem idxInv_final (d : Cmp) (ops : List Op) : IdxInv (final (init d) ops) :=
  idxInv_final_of _ ops (idxInv_init d)

theorem run_fst (s : St) (ops : List Op) : (run s ops).1 = final s ops := by
  induction ops generalizing s with
  | nil => rfl
  | cons op ops ih => simp [run, final, ih]

/-! ## consequences -/

/-- The ids in the array are pairwise distinct. -/
theorem IdxInv.nodup_ids {s : St} (hs : IdxInv s) : (s.arr.map (·.id)).Nodup := by
  rw [List.Nodup, List.pairwise_iff_getElem]
  intro i j hi hj hij
  simp only [List.length_map] at hi hj
  simp only [List.getElem_map]
  rw [← at_lt s i hi, ← at_lt s j hj]
  intro h
  have := hs.inj hi hj h
  omega

/-- The array holds no element twice. -/
theorem IdxInv.nodup {s : St} (hs : IdxInv s) : s.arr.Nodup :=
  List.Pairwise.of_map (·.id) (fun _ _ h he => h (by rw [he])) hs.nodup_ids

end Hive.C12a.Heap
