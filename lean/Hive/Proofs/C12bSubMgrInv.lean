import Hive.Proofs.C12bSubMgrSum
/-! The invariant `topics[t] = Σ_c subs[c][t]` of the SubscriptionManager model and its preservation. -/
namespace Hive.C12b.SM
open AMap

structure Inv (s : St) : Prop where
  subsNodup : s.subs.keys.Nodup
  clientNodup : ∀ c m, s.subs.get c = some m → m.keys.Nodup
  topicsNodup : s.topics.keys.Nodup
  pos : ∀ c m t n, s.subs.get c = some m → m.get t = some n → 0 < n
  tpos : ∀ t n, s.topics.get t = some n → 0 < n
  sum : ∀ t, cntOf s.topics t = sumOver s.subs t

theorem topicCount_eq (s : St) (t : Nat) : topicCount s t = cntOf s.topics t := rfl

theorem inv_init (l : Int) : Inv (init l) := by
  constructor <;> simp [init, AMap.keys, AMap.get, cntOf, sumOver]

theorem cntOf_cleanLoop (m tp : AMap Nat) (hn : m.keys.Nodup) (t : Nat) :
    cntOf (cleanLoop m tp).topics t = cntOf tp t - cntOf m t := by
  simp only [cntOf, cleanLoop_get m tp hn t]
  cases hm : m.get t with
  | none => simp
  | some k =>
    cases htp : tp.get t with
    | none => simp
    | some tc =>
      by_cases hle : tc ≤ k
      · simp [hle]
      · simp [hle]

/-- The state after `cleanupClientWithoutLocking` of a connected client. -/
def cleaned (s : St) (c : Nat) (m : AMap Nat) : St :=
  { s with topics := (cleanLoop m s.topics).topics, subs := s.subs.del c }

theorem cleanup_some (s : St) (c : Nat) (m : AMap Nat) (h : s.subs.get c = some m) :
    cleanup s c = (cleaned s c m, true,
      (cleanLoop m s.topics).removed.map .topicRemoved ++ (cleanLoop m s.topics).unsub.map (.unsubscribed c)) := by
  simp [cleanup, h, cleaned]

theorem cleanup_none (s : St) (c : Nat) (h : s.subs.get c = none) : cleanup s c = (s, false, []) := by
  simp [cleanup, h]

theorem inv_cleaned {s : St} (hv : Inv s) (c : Nat) (m : AMap Nat) (h : s.subs.get c = some m) :
    Inv (cleaned s c m) := by
  have hmn := hv.clientNodup c m h
  refine ⟨nodup_del _ _ hv.subsNodup, ?_, cleanLoop_nodup _ _ hv.topicsNodup, ?_, ?_, ?_⟩
  · intro c' m' h'
    simp only [cleaned, get_del] at h'
    by_cases e : c' = c
    · simp [e] at h'
    · simp only [e, if_false] at h'; exact hv.clientNodup c' m' h'
  · intro c' m' t n h' ht
    simp only [cleaned, get_del] at h'
    by_cases e : c' = c
    · simp [e] at h'
    · simp only [e, if_false] at h'; exact hv.pos c' m' t n h' ht
  · intro t n ht
    simp only [cleaned] at ht
    rw [cleanLoop_get m s.topics hmn t] at ht
    cases hm : m.get t with
    | none => rw [hm] at ht; exact hv.tpos t n ht
    | some k =>
      rw [hm] at ht
      cases htp : s.topics.get t with
      | none => rw [htp] at ht; cases ht
      | some tc =>
        rw [htp] at ht
        by_cases hle : tc ≤ k
        · simp [hle] at ht
        · simp only [hle, if_false, Option.some.injEq] at ht; omega
  · intro t
    show cntOf (cleanLoop m s.topics).topics t = sumOver (s.subs.del c) t
    rw [cntOf_cleanLoop m s.topics hmn t]
    have h1 := hv.sum t
    have h2 := sumOver_del_some s.subs c m t hv.subsNodup h
    omega

theorem cleaned_get_self (s : St) (c : Nat) (m : AMap Nat) : (cleaned s c m).subs.get c = none := by
  simp [cleaned, get_del_self]

/-- Registering a fresh, empty client. -/
theorem inv_set_empty {s : St} (hv : Inv s) (c : Nat) (h : s.subs.get c = none) :
    Inv { s with subs := s.subs.set c [] } := by
  refine ⟨nodup_set _ _ _ hv.subsNodup, ?_, hv.topicsNodup, ?_, hv.tpos, ?_⟩
  · intro c' m' h'
    simp only [get_set] at h'
    by_cases e : c' = c
    · simp only [e, if_true, Option.some.injEq] at h'; subst h'; simp [AMap.keys]
    · simp only [e, if_false] at h'; exact hv.clientNodup c' m' h'
  · intro c' m' t n h' ht
    simp only [get_set] at h'
    by_cases e : c' = c
    · simp only [e, if_true, Option.some.injEq] at h'; subst h'; simp [AMap.get] at ht
    · simp only [e, if_false] at h'; exact hv.pos c' m' t n h' ht
  · intro t
    show cntOf s.topics t = sumOver (s.subs.set c []) t
    rw [sumOver_set_none s.subs c [] t h, cntOf_nil, hv.sum t]; rfl

/-- Replacing a connected client's map by one that holds one more subscription of `t`, and
bumping the global count of `t`. -/
theorem inv_bump {s : St} (hv : Inv s) (c t : Nat) (m m' : AMap Nat) (h : s.subs.get c = some m)
    (hn' : m'.keys.Nodup) (hp' : ∀ t' n, m'.get t' = some n → 0 < n)
    (hc' : ∀ t', cntOf m' t' = cntOf m t' + (if t' = t then 1 else 0)) :
    Inv (bumpTopic { s with subs := s.subs.set c m' } t).1 := by
  have hsubs : ∀ tp, Inv { limit := s.limit, subs := s.subs.set c m', topics := tp } ↔
      (tp.keys.Nodup ∧ (∀ t' n, tp.get t' = some n → 0 < n) ∧ ∀ t', cntOf tp t' = sumOver (s.subs.set c m') t') := by
    intro tp
    constructor
    · intro i; exact ⟨i.topicsNodup, i.tpos, i.sum⟩
    · rintro ⟨a, b, d⟩
      refine ⟨nodup_set _ _ _ hv.subsNodup, ?_, a, ?_, b, d⟩
      · intro c' m1 h'
        simp only [get_set] at h'
        by_cases e : c' = c
        · simp only [e, if_true, Option.some.injEq] at h'; subst h'; exact hn'
        · simp only [e, if_false] at h'; exact hv.clientNodup c' m1 h'
      · intro c' m1 t1 n h' ht
        simp only [get_set] at h'
        by_cases e : c' = c
        · simp only [e, if_true, Option.some.injEq] at h'; subst h'; exact hp' t1 n ht
        · simp only [e, if_false] at h'; exact hv.pos c' m1 t1 n h' ht
  have hsum : ∀ t', sumOver (s.subs.set c m') t' = sumOver s.subs t' + (if t' = t then 1 else 0) := by
    intro t'
    have := sumOver_set_some s.subs c m m' t' h
    have := hc' t'
    omega
  unfold bumpTopic
  cases htp : s.topics.get t with
  | some n =>
    simp only []
    rw [hsubs]
    refine ⟨nodup_set _ _ _ hv.topicsNodup, ?_, ?_⟩
    · intro t' k hk
      simp only [get_set] at hk
      by_cases e : t' = t
      · simp only [e, if_true, Option.some.injEq] at hk; omega
      · simp only [e, if_false] at hk; exact hv.tpos t' k hk
    · intro t'
      rw [cntOf_set, hsum t', ← hv.sum t']
      by_cases e : t' = t
      · subst e; simp [cntOf, htp]
      · simp [e]
  | none =>
    simp only []
    rw [hsubs]
    refine ⟨nodup_set _ _ _ hv.topicsNodup, ?_, ?_⟩
    · intro t' k hk
      simp only [get_set] at hk
      by_cases e : t' = t
      · simp only [e, if_true, Option.some.injEq] at hk; omega
      · simp only [e, if_false] at hk; exact hv.tpos t' k hk
    · intro t'
      rw [cntOf_set, hsum t', ← hv.sum t']
      by_cases e : t' = t
      · subst e; simp [cntOf, htp]
      · simp [e]

theorem inv_step {s : St} (hv : Inv s) (op : Op) : Inv (step s op).1 := by
  cases op with
  | connect c =>
    simp only [step]
    cases hc : s.subs.get c with
    | none =>
      rw [cleanup_none s c hc]
      exact inv_set_empty hv c hc
    | some m =>
      rw [cleanup_some s c m hc]
      exact inv_set_empty (inv_cleaned hv c m hc) c (cleaned_get_self s c m)
  | disconnect c =>
    simp only [step]
    cases hc : s.subs.get c with
    | none => rw [cleanup_none s c hc]; simpa using hv
    | some m => rw [cleanup_some s c m hc]; simpa using inv_cleaned hv c m hc
  | subscribe c t =>
    simp only [step]
    cases hc : s.subs.get c with
    | none => exact hv
    | some m =>
      simp only []
      have hmn := hv.clientNodup c m hc
      cases hm : m.get t with
      | some n =>
        simp only []
        apply inv_bump hv c t m (m.set t (n + 1)) hc (nodup_set _ _ _ hmn)
        · intro t' k hk
          simp only [get_set] at hk
          by_cases e : t' = t
          · simp only [e, if_true, Option.some.injEq] at hk; omega
          · simp only [e, if_false] at hk; exact hv.pos c m t' k hc hk
        · intro t'
          rw [cntOf_set]
          by_cases e : t' = t
          · subst e; simp [cntOf, hm]
          · simp [e]
      | none =>
        simp only []
        split
        · rw [cleanup_some s c m hc]; exact inv_cleaned hv c m hc
        · apply inv_bump hv c t m (m.set t 1) hc (nodup_set _ _ _ hmn)
          · intro t' k hk
            simp only [get_set] at hk
            by_cases e : t' = t
            · simp only [e, if_true, Option.some.injEq] at hk; omega
            · simp only [e, if_false] at hk; exact hv.pos c m t' k hc hk
          · intro t'
            rw [cntOf_set]
            by_cases e : t' = t
            · subst e; simp [cntOf, hm]
            · simp [e]
  | unsubscribe c t =>
    simp only [step]
    cases hc : s.subs.get c with
    | none => exact hv
    | some m =>
      simp only []
      have hmn := hv.clientNodup c m hc
      cases hm : m.get t with
      | none => exact hv
      | some n =>
        simp only []
        have hn : 0 < n := hv.pos c m t n hc hm
        -- the client's new map
        have hn' : (if n ≤ 1 then m.del t else m.set t (n - 1)).keys.Nodup := by
          split
          · exact nodup_del _ _ hmn
          · exact nodup_set _ _ _ hmn
        have hp' : ∀ t' k, (if n ≤ 1 then m.del t else m.set t (n - 1)).get t' = some k → 0 < k := by
          intro t' k hk
          split at hk
          · simp only [get_del] at hk
            by_cases e : t' = t
            · simp [e] at hk
            · simp only [e, if_false] at hk; exact hv.pos c m t' k hc hk
          · simp only [get_set] at hk
            by_cases e : t' = t
            · simp only [e, if_true, Option.some.injEq] at hk; omega
            · simp only [e, if_false] at hk; exact hv.pos c m t' k hc hk
        have hc' : ∀ t', cntOf (if n ≤ 1 then m.del t else m.set t (n - 1)) t' + (if t' = t then 1 else 0) = cntOf m t' := by
          intro t'
          split
          · rw [cntOf_del]
            by_cases e : t' = t
            · subst e; simp [cntOf, hm]; omega
            · simp [e]
          · rw [cntOf_set]
            by_cases e : t' = t
            · subst e; simp [cntOf, hm]; omega
            · simp [e]
        have hsum : ∀ t', sumOver (s.subs.set c (if n ≤ 1 then m.del t else m.set t (n - 1))) t' + (if t' = t then 1 else 0) = sumOver s.subs t' := by
          intro t'
          have := sumOver_set_some s.subs c m (if n ≤ 1 then m.del t else m.set t (n - 1)) t' hc
          have := hc' t'
          omega
        have hge : n ≤ cntOf s.topics t := by
          rw [hv.sum t]
          have := cntOf_le_sumOver s.subs c m t hc
          simp only [cntOf, hm, Option.getD_some] at this
          exact this
        have hrest : ∀ tp, (tp.keys.Nodup ∧ (∀ t' k, tp.get t' = some k → 0 < k) ∧
            ∀ t', cntOf tp t' = sumOver (s.subs.set c (if n ≤ 1 then m.del t else m.set t (n - 1))) t') →
            Inv { limit := s.limit, subs := s.subs.set c (if n ≤ 1 then m.del t else m.set t (n - 1)), topics := tp } := by
          rintro tp ⟨a, b, d⟩
          refine ⟨nodup_set _ _ _ hv.subsNodup, ?_, a, ?_, b, d⟩
          · intro c' m1 h'
            simp only [get_set] at h'
            by_cases e : c' = c
            · simp only [e, if_true, Option.some.injEq] at h'; subst h'; exact hn'
            · simp only [e, if_false] at h'; exact hv.clientNodup c' m1 h'
          · intro c' m1 t1 k h' ht
            simp only [get_set] at h'
            by_cases e : c' = c
            · simp only [e, if_true, Option.some.injEq] at h'; subst h'; exact hp' t1 k ht
            · simp only [e, if_false] at h'; exact hv.pos c' m1 t1 k h' ht
        cases htp : s.topics.get t with
        | none =>
          exfalso
          simp only [cntOf, htp, Option.getD_none] at hge
          omega
        | some tc =>
          simp only []
          have htc : cntOf s.topics t = tc := by simp [cntOf, htp]
          by_cases hle : tc ≤ 1
          · simp only [hle, if_true]
            apply hrest
            refine ⟨nodup_del _ _ hv.topicsNodup, ?_, ?_⟩
            · intro t' k hk
              simp only [get_del] at hk
              by_cases e : t' = t
              · simp [e] at hk
              · simp only [e, if_false] at hk; exact hv.tpos t' k hk
            · intro t'
              rw [cntOf_del]
              have := hsum t'
              have := hv.sum t'
              by_cases e : t' = t
              · subst e; simp only [if_true] at *; omega
              · simp only [e, if_false] at *; omega
          · simp only [hle, if_false]
            apply hrest
            refine ⟨nodup_set _ _ _ hv.topicsNodup, ?_, ?_⟩
            · intro t' k hk
              simp only [get_set] at hk
              by_cases e : t' = t
              · simp only [e, if_true, Option.some.injEq] at hk; omega
              · simp only [e, if_false] at hk; exact hv.tpos t' k hk
            · intro t'
              rw [cntOf_set]
              have := hsum t'
              have := hv.sum t'
              by_cases e : t' = t
              · subst e; simp only [if_true] at *; omega
              · simp only [e, if_false] at *; omega
  | hasTopic t => exact hv
  | clientSub c t =>
    simp only [step]
    split <;> exact hv
  | sizes => exact hv

theorem inv_final (s : St) (ops : List Op) (h : Inv s) : Inv (final s ops) := by
  induction ops generalizing s with
  | nil => exact h
  | cons op ops ih => exact ih _ (inv_step h op)

end Hive.C12b.SM
