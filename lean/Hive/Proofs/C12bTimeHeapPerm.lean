import Hive.Model.C12bTimeHeap
/-! `container/heap` operations permute the slice; the running total of the TimeHeap model equals the
sum of the counts in the heap. -/
namespace Hive.C12b.TH

theorem swap_length (a : List Entry) (i j : Nat) : (swap a i j).length = a.length := by
  unfold swap
  split <;> simp

theorem swap_perm (a : List Entry) (i j : Nat) : (swap a i j).Perm a := by
  unfold swap
  split
  · rename_i x y hi hj
    obtain ⟨hi', hxi⟩ := List.getElem?_eq_some_iff.1 hi
    obtain ⟨hj', hyj⟩ := List.getElem?_eq_some_iff.1 hj
    rw [List.perm_iff_count]
    intro b
    have hj2 : j < (a.set i y).length := by simpa using hj'
    rw [List.count_set hj2, List.count_set hi']
    have e1 : (a.set i y)[j] = y := by
      rw [List.getElem_set]
      split
      · rfl
      · exact hyj
    rw [e1, hxi]
    have hx : (if (x == b) = true then 1 else 0) ≤ List.count b a := by
      split
      · rename_i hb
        have : x = b := by simpa using hb
        subst this
        have : x ∈ a := hxi ▸ List.getElem_mem hi'
        have := List.count_pos_iff.2 this
        omega
      · omega
    omega
  · exact List.Perm.refl a

theorem up_perm (a : List Entry) (j : Nat) : (up a j).Perm a := by
  fun_induction up a j with
  | case1 a j h => exact List.Perm.refl a
  | case2 a j h ih => exact ih.trans (swap_perm a _ _)

theorem up_length (a : List Entry) (j : Nat) : (up a j).length = a.length := (up_perm a j).length_eq

theorem down_perm (a : List Entry) (i n : Nat) : (down a i n).Perm a := by
  fun_induction down a i n with
  | case1 a i h => exact List.Perm.refl a
  | case2 a i h h2 => exact List.Perm.refl a
  | case3 a i h h2 ih => exact ih.trans (swap_perm a _ _)

theorem down_length (a : List Entry) (i n : Nat) : (down a i n).length = a.length := (down_perm a i n).length_eq

theorem heapPush_perm (a : List Entry) (e : Entry) : (heapPush a e).Perm (e :: a) := by
  unfold heapPush
  exact (up_perm _ _).trans (List.perm_append_singleton e a)

theorem heapPop_perm (a : List Entry) (e : Entry) (a' : List Entry) (h : heapPop a = some (e, a')) :
    a.Perm (e :: a') ∧ a'.length + 1 = a.length := by
  unfold heapPop at h
  cases a with
  | nil => simp at h
  | cons x xs =>
    simp only at h
    generalize hb : down (swap (x :: xs) 0 ((x :: xs).length - 1)) 0 ((x :: xs).length - 1) = b at h
    have hperm : b.Perm (x :: xs) := by
      rw [← hb]; exact (down_perm _ _ _).trans (swap_perm _ _ _)
    have hlen : b.length = xs.length + 1 := by simpa using hperm.length_eq
    have hn : (x :: xs).length - 1 = xs.length := by simp
    rw [hn] at h
    cases hg : b[xs.length]? with
    | none => rw [hg] at h; simp at h
    | some e0 =>
      rw [hg] at h
      simp only [Option.some.injEq, Prod.mk.injEq] at h
      obtain ⟨h1, h2⟩ := h
      subst h1; subst h2
      obtain ⟨hlt, hget⟩ := List.getElem?_eq_some_iff.1 hg
      have hsplit : b = b.take xs.length ++ [e0] := by
        have h1 : b = b.take xs.length ++ b.drop xs.length := (List.take_append_drop _ _).symm
        have h2 : b.drop xs.length = [e0] := by
          rw [List.drop_eq_getElem_cons hlt, hget]
          have : b.drop (xs.length + 1) = [] := List.drop_eq_nil_of_le (by omega)
          rw [this]
        rw [h2] at h1; exact h1
      refine ⟨?_, by simp; omega⟩
      have : (b.take xs.length ++ [e0]).Perm (e0 :: b.take xs.length) := List.perm_append_singleton _ _
      rw [← hsplit] at this
      exact hperm.symm.trans this

theorem counts_perm {a b : List Entry} (h : a.Perm b) : counts a = counts b := by
  unfold counts
  exact (h.map _).sum_nat

theorem counts_cons (e : Entry) (a : List Entry) : counts (e :: a) = e.count + counts a := by
  simp [counts]

theorem wsub_counts (c r : Nat) : wsub ((c + r) % W) c = r % W := by
  unfold wsub W; omega

theorem wadd_counts (t c : Nat) : wadd (t % W) (c % W) = (c % W + t) % W := by
  unfold wadd W; omega

/-- The loop of `AveragePerSecond` keeps `total = Σ counts in the heap` (modulo 2^64). -/
theorem expire_total (now h : Nat) (k : Nat) (a : List Entry) (total : Nat) (ht : total = counts a % W) :
    (expire now h k a total).2 = counts (expire now h k a total).1 % W := by
  induction k generalizing a total with
  | zero => simpa [expire] using ht
  | succ k ih =>
    simp only [expire]
    cases hp : heapPop a with
    | none => simpa using ht
    | some p =>
      obtain ⟨e, a'⟩ := p
      obtain ⟨hperm, _⟩ := heapPop_perm a e a' hp
      have hc : counts a = e.count + counts a' := by rw [counts_perm hperm, counts_cons]
      simp only []
      split
      · simp only []
        rw [counts_perm (heapPush_perm a' e), counts_cons, ht, hc]
      · apply ih
        rw [ht, hc, wsub_counts]

theorem total_step (s : St) (op : Op) (h : s.total = counts s.heap % W) :
    (step s op).1.total = counts (step s op).1.heap % W := by
  cases op with
  | tick d => exact h
  | add c =>
    simp only [step]
    rw [counts_perm (heapPush_perm _ _), counts_cons, h, wadd_counts]
  | clear => simp [step, counts, W]
  | avg hh => simp only [step]; exact expire_total _ _ _ _ _ h

theorem total_final (s : St) (ops : List Op) (h : s.total = counts s.heap % W) :
    (final s ops).total = counts (final s ops).heap % W := by
  induction ops generalizing s with
  | nil => exact h
  | cons op ops ih => exact ih _ (total_step s op h)

end Hive.C12b.TH
