import Hive.Spec.Reactive
/-! Lemmas about the C13 trace predicates: how they change when one event is appended. -/
namespace Hive.Reactive

variable {N : Type}

theorem scan_append (evs : List (Ev N)) (e : Ev N) : scan (evs ++ [e]) = scanStep (scan evs) e := by
  simp [scan, List.foldl_append]

theorem notes_append (a b : List (Ev N)) : notes (a ++ b) = notes a ++ notes b := by
  induction a with
  | nil => rfl
  | cons x xs ih => cases x <;> simp [notes, ih]

theorem notes_enter (evs : List (Ev N)) (n : N) : notes (evs ++ [.enter n]) = notes evs ++ [n] := by
  simp [notes_append, notes]

theorem notes_exit (evs : List (Ev N)) : notes (evs ++ [.exit]) = notes evs := by
  simp [notes_append, notes]

theorem notes_unsubRet (evs : List (Ev N)) : notes (evs ++ [.unsubRet]) = notes evs := by
  simp [notes_append, notes]

theorem hasUnsubRet_enter (evs : List (Ev N)) (n : N) : hasUnsubRet (evs ++ [.enter n]) = hasUnsubRet evs := by
  simp [hasUnsubRet]

theorem hasUnsubRet_exit (evs : List (Ev N)) : hasUnsubRet (evs ++ [.exit]) = hasUnsubRet evs := by
  simp [hasUnsubRet]

theorem noEnter_append (a b : List (Ev N)) : noEnter (a ++ b) = (noEnter a && noEnter b) := by
  simp [noEnter]

theorem nau_append_noEnter (evs r : List (Ev N)) (hr : noEnter r = true) (hn : noneAfterUnsub r = true) :
    noneAfterUnsub (evs ++ r) = noneAfterUnsub evs := by
  induction evs with
  | nil => simp [noneAfterUnsub, hn]
  | cons x xs ih => cases x <;> simp [noneAfterUnsub, ih, noEnter_append, hr]

theorem nau_exit (evs : List (Ev N)) : noneAfterUnsub (evs ++ [.exit]) = noneAfterUnsub evs :=
  nau_append_noEnter evs _ (by simp [noEnter, Ev.isEnter]) (by simp [noneAfterUnsub])

theorem nau_unsubRet (evs : List (Ev N)) : noneAfterUnsub (evs ++ [.unsubRet]) = noneAfterUnsub evs :=
  nau_append_noEnter evs _ (by simp [noEnter, Ev.isEnter]) (by simp [noneAfterUnsub, noEnter])

/-- A callback may start only if `unsubscribe()` has not returned yet. -/
theorem nau_enter (evs : List (Ev N)) (n : N) (h : hasUnsubRet evs = false) :
    noneAfterUnsub (evs ++ [.enter n]) = noneAfterUnsub evs := by
  induction evs with
  | nil => simp [noneAfterUnsub]
  | cons x xs ih =>
    cases x with
    | unsubRet => simp [hasUnsubRet] at h
    | enter m =>
      have : hasUnsubRet xs = false := by simpa [hasUnsubRet] using h
      simp [noneAfterUnsub, ih this]
    | exit =>
      have : hasUnsubRet xs = false := by simpa [hasUnsubRet] using h
      simp [noneAfterUnsub, ih this]

end Hive.Reactive
