import Hive.Model.C12aRing
/-! The ring buffer refines "history, newest first, seen through a window of `cap`". -/
namespace Hive.C12a.Ring

/-- Where the `j`-th newest element lives (no modulo: `pos < cap`, `j < cap`). -/
def slot (pos cap j : Nat) : Nat := if j < pos then pos - 1 - j else pos + cap - 1 - j

theorem succ_mod {pos cap : Nat} (h : pos < cap) :
    (pos + 1) % cap = if pos + 1 = cap then 0 else pos + 1 := by
  split
  · rename_i e; rw [e, Nat.mod_self]
  · exact Nat.mod_eq_of_lt (by omega)

/-- The refinement relation between the ring and the history. -/
structure Rel (s : St) (a : Spec) : Prop where
  cap : s.cap = a.cap
  pos : s.pos < s.cap
  len : s.buf.length = s.cap
  size : s.size = min a.hist.length s.cap
  cell : ∀ j, j < s.size → s.buf.getD (slot s.pos s.cap j) 0 = a.hist.getD j 0

theorem rel_init (c : Nat) (h : 0 < c) : Rel (init c) ⟨[], c⟩ :=
  ⟨rfl, h, by simp [init], by simp [init], by intro j hj; simp [init] at hj⟩

theorem prev_slot {pos cap j : Nat} (hp : pos < cap) (hj : j + 1 < cap) :
    prev cap (slot pos cap j) = slot pos cap (j + 1) := by
  unfold prev slot; split <;> split <;> split <;> omega

theorem walk_eq (s : St) (a : Spec) (r : Rel s a) (n j : Nat) (h : j + n ≤ s.size) :
    walk s.buf s.cap n (slot s.pos s.cap j) = (a.hist.drop j).take n := by
  induction n generalizing j with
  | zero => simp [walk]
  | succ n ih =>
    have hsz := r.size
    have hj : j < a.hist.length := by omega
    have hd : a.hist.drop j = a.hist[j] :: a.hist.drop (j + 1) := List.drop_eq_getElem_cons hj
    rw [hd, List.take_succ_cons, walk, r.cell j (by omega)]
    congr 1
    · simp [List.getD_eq_getElem?_getD, hj]
    · by_cases hn : n = 0
      · subst hn; simp [walk]
      · rw [prev_slot r.pos (by omega)]; exact ih (j + 1) (by omega)

theorem toSlice_eq (s : St) (a : Spec) (r : Rel s a) : toSlice s = a.hist.take a.cap := by
  have h0 : prev s.cap s.pos = slot s.pos s.cap 0 := by
    have := r.pos; unfold prev slot; split <;> split <;> omega
  unfold toSlice
  rw [h0, walk_eq s a r s.size 0 (by omega), List.drop_zero, r.size, ← r.cap]
  by_cases hl : a.hist.length ≤ s.cap
  · rw [Nat.min_eq_left hl, List.take_of_length_le (Nat.le_refl _), List.take_of_length_le hl]
  · rw [Nat.min_eq_right (by omega)]

theorem rel_add (s : St) (a : Spec) (r : Rel s a) (x : Nat) :
    Rel (add s x) { a with hist := x :: a.hist } := by
  have hp := r.pos
  have hsz := r.size
  have hm := succ_mod hp
  refine ⟨r.cap, ?_, ?_, ?_, ?_⟩
  · simp only [add]; exact Nat.mod_lt _ (by omega)
  · simp [add, r.len]
  · simp only [add, List.length_cons]; split <;> omega
  · intro j hj
    have hj2 : j < s.size + 1 ∧ j < s.cap := by
      have : (add s x).size = if s.size < s.cap then s.size + 1 else s.size := rfl
      rw [this] at hj; split at hj <;> omega
    clear hj
    show (s.buf.set s.pos x).getD (slot ((s.pos + 1) % s.cap) s.cap j) 0 = (x :: a.hist).getD j 0
    rw [hm]
    cases j with
    | zero =>
      have : slot (if s.pos + 1 = s.cap then 0 else s.pos + 1) s.cap 0 = s.pos := by
        unfold slot; split <;> split <;> omega
      rw [this]
      simp [List.getD_eq_getElem?_getD, List.getElem?_set, r.len, hp]
    | succ j =>
      have hslot : slot (if s.pos + 1 = s.cap then 0 else s.pos + 1) s.cap (j + 1) = slot s.pos s.cap j := by
        unfold slot; split <;> split <;> split <;> omega
      have hne : s.pos ≠ slot s.pos s.cap j := by
        unfold slot; split <;> omega
      rw [hslot]
      have := r.cell j (by omega)
      simp only [List.getD_eq_getElem?_getD] at this ⊢
      rw [List.getElem?_set_ne hne, this]
      simp

/-- One step: same output as the abstract ring, relation preserved. -/
theorem step_refines (s : St) (a : Spec) (r : Rel s a) (op : Op) :
    (step s op).2 = (specStep a op).2 ∧ Rel (step s op).1 (specStep a op).1 := by
  cases op with
  | add x => exact ⟨rfl, rel_add s a r x⟩
  | toSlice => exact ⟨by simp [step, specStep, toSlice_eq s a r], r⟩

theorem run_refines (s : St) (a : Spec) (r : Rel s a) (ops : List Op) :
    (run s ops).2 = (specRun a ops).2 ∧ Rel (run s ops).1 (specRun a ops).1 := by
  induction ops generalizing s a with
  | nil => exact ⟨rfl, r⟩
  | cons op ops ih =>
    obtain ⟨h1, h2⟩ := step_refines s a r op
    obtain ⟨i1, i2⟩ := ih _ _ h2
    simp only [run, specRun]
    exact ⟨by rw [h1, i1], i2⟩

end Hive.C12a.Ring
