import Hive.Proofs.KVMap
/-!
# Batches: the set/delete maps of the code versus the sequence of calls
-/
namespace Hive.KV

/-! ## the sequence of calls -/

theorem lastW_append (log : List Write) (k : Bytes) (o : Option Bytes) (k' : Bytes) :
    lastW (log ++ [(k, o)]) k' = if k = k' then some o else lastW log k' := by
  induction log with
  | nil => simp [lastW]
  | cons w t ih =>
    obtain ⟨wk, wo⟩ := w
    simp only [List.cons_append, lastW, ih]
    by_cases h : k = k'
    · simp [h]
    · simp only [h, if_false]

/-- Lookups after applying a list of writes one after the other: the last write to the key decides. -/
theorem aget_applyWrites (ws : List Write) (m : AList) (fk : Bytes) :
    aget fk (Spec.applyWrites ws m) = match lastW ws fk with
      | some o => o
      | none => aget fk m := by
  induction ws generalizing m with
  | nil => simp [Spec.applyWrites, lastW]
  | cons w t ih =>
    obtain ⟨wk, wo⟩ := w
    have : Spec.applyWrites ((wk, wo) :: t) m = Spec.applyWrites t (Spec.apply1 m (wk, wo)) := rfl
    rw [this, ih]
    simp only [lastW]
    cases hl : lastW t fk with
    | some o => rfl
    | none =>
      simp only
      cases wo with
      | some v =>
        simp only [Spec.apply1, aget_insert]
        by_cases h : fk = wk
        · subst h; simp
        · have : ¬ wk = fk := fun hh => h hh.symm
          simp [h, this]
      | none =>
        have : Spec.apply1 m (wk, none) = adel wk m := rfl
        rw [this, aget_adel]
        by_cases h : fk = wk
        · subst h; simp
        · have : ¬ wk = fk := fun hh => h hh.symm
          simp [h, this]

theorem sortedK_applyWrites (ws : List Write) {m : AList} (h : SortedK m) :
    SortedK (Spec.applyWrites ws m) := by
  induction ws generalizing m with
  | nil => exact h
  | cons w t ih =>
    obtain ⟨wk, wo⟩ := w
    have : Spec.applyWrites ((wk, wo) :: t) m = Spec.applyWrites t (Spec.apply1 m (wk, wo)) := rfl
    rw [this]
    apply ih
    cases wo with
    | some v => exact sortedK_insert wk v h
    | none => exact h.filter _

/-- The writes of a batch of a view with realm `r`, as writes to the shared map. -/
def fullWrites (r : Bytes) (log : List Write) : List Write := log.map (fun w => (r ++ w.1, w.2))

theorem lastW_full (r : Bytes) (log : List Write) (k : Bytes) :
    lastW (fullWrites r log) (r ++ k) = lastW log k := by
  induction log with
  | nil => rfl
  | cons w t ih =>
    obtain ⟨wk, wo⟩ := w
    have : fullWrites r ((wk, wo) :: t) = (r ++ wk, wo) :: fullWrites r t := rfl
    rw [this]
    simp only [lastW, ih, List.append_cancel_left_eq]

theorem lastW_full_none (r : Bytes) (log : List Write) (fk : Bytes) (h : ∀ k, fk ≠ r ++ k) :
    lastW (fullWrites r log) fk = none := by
  induction log with
  | nil => rfl
  | cons w t ih =>
    obtain ⟨wk, wo⟩ := w
    have : fullWrites r ((wk, wo) :: t) = (r ++ wk, wo) :: fullWrites r t := rfl
    rw [this]
    simp only [lastW, ih]
    have : ¬ r ++ wk = fk := fun hh => h wk hh.symm
    simp [this]

/-! ## the set / delete maps -/

/-- What the batch's two maps hold for key `k`: `some none` = delete, `some (some v)` = set. -/
def bview (sets : AList) (dels : List Bytes) (k : Bytes) : Option (Option Bytes) :=
  if k ∈ dels then some none else (aget k sets).map some

/-- The map `Commit` produces. -/
def commitMap (r : Bytes) (sets : AList) (dels : List Bytes) (m : AList) : AList :=
  dels.foldr (fun k m => adel (r ++ k) m) (sets.foldr (fun e m => aset (r ++ e.1) e.2 m) m)

theorem aget_sets_full (r : Bytes) (sets : AList) (m : AList) (k : Bytes) :
    aget (r ++ k) (sets.foldr (fun e m => aset (r ++ e.1) e.2 m) m) =
      match aget k sets with
      | some v => some v
      | none => aget (r ++ k) m := by
  induction sets with
  | nil => simp [aget_nil]
  | cons e t ih =>
    simp only [List.foldr_cons, aget_aset', aget_cons, List.append_cancel_left_eq, ih]
    by_cases h : k = e.1
    · subst h; simp
    · have : ¬ e.1 = k := fun hh => h hh.symm
      simp [h, this]

theorem aget_sets_other (r : Bytes) (sets : AList) (m : AList) (fk : Bytes) (h : ∀ k, fk ≠ r ++ k) :
    aget fk (sets.foldr (fun e m => aset (r ++ e.1) e.2 m) m) = aget fk m := by
  induction sets with
  | nil => rfl
  | cons e t ih =>
    simp only [List.foldr_cons, aget_aset', ih]
    simp [h e.1]

theorem aget_dels_full (r : Bytes) (dels : List Bytes) (m : AList) (k : Bytes) :
    aget (r ++ k) (dels.foldr (fun k m => adel (r ++ k) m) m) =
      if k ∈ dels then none else aget (r ++ k) m := by
  induction dels with
  | nil => simp
  | cons x t ih =>
    simp only [List.foldr_cons, aget_adel, List.append_cancel_left_eq, ih, List.mem_cons]
    by_cases h : k = x
    · simp [h]
    · simp [h]

theorem aget_dels_other (r : Bytes) (dels : List Bytes) (m : AList) (fk : Bytes) (h : ∀ k, fk ≠ r ++ k) :
    aget fk (dels.foldr (fun k m => adel (r ++ k) m) m) = aget fk m := by
  induction dels with
  | nil => rfl
  | cons x t ih =>
    simp only [List.foldr_cons, aget_adel, ih]
    simp [h x]

theorem aget_commitMap_full (r : Bytes) (sets : AList) (dels : List Bytes) (m : AList) (k : Bytes) :
    aget (r ++ k) (commitMap r sets dels m) =
      match bview sets dels k with
      | some o => o
      | none => aget (r ++ k) m := by
  unfold commitMap bview
  rw [aget_dels_full, aget_sets_full]
  by_cases h : k ∈ dels
  · simp [h]
  · simp only [h, if_false]
    cases aget k sets <;> rfl

theorem aget_commitMap_other (r : Bytes) (sets : AList) (dels : List Bytes) (m : AList) (fk : Bytes)
    (h : ∀ k, fk ≠ r ++ k) : aget fk (commitMap r sets dels m) = aget fk m := by
  unfold commitMap
  rw [aget_dels_other r dels _ fk h, aget_sets_other r sets m fk h]

theorem noDup_commitMap (r : Bytes) (sets : AList) (dels : List Bytes) {m : AList} (h : NoDupKeys m) :
    NoDupKeys (commitMap r sets dels m) := by
  unfold commitMap
  have h1 : NoDupKeys (sets.foldr (fun e m => aset (r ++ e.1) e.2 m) m) := by
    induction sets with
    | nil => exact h
    | cons e t ih => exact noDup_aset _ _ ih
  induction dels with
  | nil => exact h1
  | cons x t ih => exact noDup_adel _ ih

/-- The invariant of a batch: its two maps hold, for every key, the last call made for that key. -/
def BatchInv (b : Batch) : Prop := ∀ k, bview b.sets b.dels k = lastW b.log k

theorem batchInv_empty (r : Bytes) (ws : List Wrap) :
    BatchInv { realm := r, wraps := ws, sets := [], dels := [], log := [] } := by
  intro k; simp [bview, lastW, aget_nil]

theorem batchInv_set {b : Batch} (h : BatchInv b) (k x : Bytes) :
    BatchInv { b with sets := aset k x b.sets, dels := b.dels.filter (· != k), log := b.log ++ [(k, some x)] } := by
  intro k'
  have := h k'
  simp only [bview, lastW_append] at this ⊢
  rw [aget_aset']
  by_cases hk : k = k'
  · subst hk; simp
  · have hk' : ¬ k' = k := fun hh => hk hh.symm
    simp only [hk, hk', if_false, List.mem_filter, bne_iff_ne, ne_eq, not_false_eq_true, and_true]
    exact this

theorem batchInv_del {b : Batch} (h : BatchInv b) (k : Bytes) :
    BatchInv { b with sets := adel k b.sets, dels := k :: b.dels.filter (· != k), log := b.log ++ [(k, none)] } := by
  intro k'
  have := h k'
  simp only [bview, lastW_append] at this ⊢
  rw [aget_adel]
  by_cases hk : k = k'
  · subst hk; simp
  · have hk' : ¬ k' = k := fun hh => hk hh.symm
    simp only [hk, hk', if_false, List.mem_cons, false_or, List.mem_filter, bne_iff_ne, ne_eq,
      not_false_eq_true, and_true]
    exact this

/-- **Commit = the batch's calls one after the other**, on the sorted abstraction. -/
theorem absMap_commitMap {b : Batch} (hb : BatchInv b) {m : AList} (hn : NoDupKeys m) :
    absMap (commitMap b.realm b.sets b.dels m) = Spec.applyWrites (fullWrites b.realm b.log) (absMap m) := by
  apply absMap_eq (noDup_commitMap _ _ _ hn) (sortedK_applyWrites _ (sortedK_absMap hn))
  intro fk
  rw [aget_applyWrites, aget_absMap hn]
  by_cases hfk : ∃ k, fk = b.realm ++ k
  · obtain ⟨k, rfl⟩ := hfk
    rw [lastW_full, aget_commitMap_full, hb k]
  · have hfk' : ∀ k, fk ≠ b.realm ++ k := fun k hh => hfk ⟨k, hh⟩
    rw [lastW_full_none _ _ _ hfk', aget_commitMap_other _ _ _ _ _ hfk']

end Hive.KV
