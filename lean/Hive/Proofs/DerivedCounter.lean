import Hive.Model.DerivedCounter
import Hive.Proofs.DerivedSet
/-! # Proofs about the Counter, EvictionState and (sequential) WaitGroup models -/
namespace Hive.Derived

/-! ## Counter -/

def wsum : List Mon → Int
  | [] => 0
  | m :: r => b2i m.was + wsum r

theorem wsum_append (a b : List Mon) : wsum (a ++ b) = wsum a + wsum b := by
  induction a with
  | nil => simp [wsum]
  | cons m r ih => simp [wsum, ih]; omega

theorem wsum_set (mons : List Mon) (j : Nat) (m m' : Mon) (h : mons[j]? = some m) :
    wsum (mons.set j m') = wsum mons - b2i m.was + b2i m'.was := by
  induction mons generalizing j with
  | nil => simp at h
  | cons a r ih =>
    cases j with
    | zero => simp at h; subst h; simp [wsum]; omega
    | succ j => simp at h; simp [wsum, ih j h]; omega

theorem monCallback_eq (cond : Int → Bool) (v : Int) (m : Mon) (cnt : Int) :
    monCallback cond v m cnt = ({ m with was := cond v }, cnt + b2i (cond v) - b2i m.was) := by
  obtain ⟨var, live, was⟩ := m
  cases hc : cond v <;> cases was <;> simp [monCallback, hc]

theorem ctDeliver_mons (cond : Int → Bool) (i : Nat) (v : Int) (mons : List Mon) (cnt : Int) :
    (ctDeliver cond i v mons cnt).1 =
      mons.map (fun m => if m.live && m.var == i then { m with was := cond v } else m) := by
  induction mons generalizing cnt with
  | nil => simp [ctDeliver]
  | cons m r ih =>
    simp only [ctDeliver, List.map_cons]
    split <;> simp_all [monCallback_eq]

theorem ctDeliver_count (cond : Int → Bool) (i : Nat) (v : Int) (mons : List Mon) (cnt : Int) :
    (ctDeliver cond i v mons cnt).2 - wsum (ctDeliver cond i v mons cnt).1 = cnt - wsum mons := by
  induction mons generalizing cnt with
  | nil => simp [ctDeliver]
  | cons m r ih =>
    simp only [ctDeliver]
    split
    · have := ih (monCallback cond v m cnt).2
      simp only [monCallback_eq, wsum] at this ⊢
      omega
    · have := ih cnt
      simp only [wsum]
      omega

structure CT.Inv (s : CT) : Prop where
  was : ∀ m ∈ s.mons, m.was = (m.live && s.cond (s.vars m.var))
  counter : s.counter = wsum s.mons

theorem CT.inv_init (cond : Int → Bool) : (CT.init cond).Inv := by
  constructor <;> simp [CT.init, wsum]

theorem CT.cond_step (s : CT) (op : CTOp) : (s.step op).cond = s.cond := by
  cases op <;> simp only [CT.step] <;> (try split) <;> (try split) <;> rfl

theorem CT.inv_step (s : CT) (op : CTOp) (h : s.Inv) : (s.step op).Inv := by
  cases op with
  | set i v =>
    simp only [CT.step]
    split
    · exact h
    · rename_i hne
      constructor
      · intro m hm
        simp only [ctDeliver_mons, List.mem_map] at hm
        obtain ⟨m0, hm0, rfl⟩ := hm
        have h0 := h.was m0 hm0
        by_cases hc : (m0.live && m0.var == i) = true
        · simp only [hc, if_true]
          simp only [Bool.and_eq_true, beq_iff_eq] at hc
          simp [hc.1, hc.2, setAt]
        · simp only [hc, Bool.false_eq_true, if_false]
          rw [h0]
          cases hl : m0.live
          · simp
          · have hne' : m0.var ≠ i := by intro he; simp [hl, he] at hc
            simp [setAt, hne']
      · have := ctDeliver_count s.cond i v s.mons s.counter
        have := h.counter
        simp only
        omega
  | monitor i =>
    simp only [CT.step, monCallback_eq]
    constructor
    · intro m hm
      simp only [List.mem_append, List.mem_singleton] at hm
      rcases hm with hm | rfl
      · exact h.was m hm
      · simp
    · simp only [wsum_append, wsum, h.counter]
      simp [b2i]
  | unmonitor j =>
    simp only [CT.step]
    cases hj : s.mons[j]? with
    | none => exact h
    | some m =>
      simp only
      constructor
      · intro m' hm'
        rcases List.mem_or_eq_of_mem_set hm' with hm | rfl
        · exact h.was m' hm
        · simp
      · simp only [wsum_set _ _ _ _ hj, h.counter]
        cases m.was <;> simp [b2i]

theorem CT.inv_run (s : CT) (ops : List CTOp) (h : s.Inv) : (s.run ops).Inv := by
  induction ops generalizing s with
  | nil => exact h
  | cons op ops ih => exact ih _ (CT.inv_step s op h)

theorem wsum_eq_countP (mons : List Mon) (p : Mon → Bool) (h : ∀ m ∈ mons, m.was = p m) :
    wsum mons = (mons.countP p : Nat) := by
  induction mons with
  | nil => simp [wsum]
  | cons m r ih =>
    have h1 := h m (List.mem_cons_self ..)
    have h2 := ih (fun m' hm' => h m' (List.mem_cons_of_mem _ hm'))
    simp only [wsum, List.countP_cons, h1, h2]
    cases p m <;> simp [b2i]
    omega

theorem CT.counter_eq_expected (s : CT) (h : s.Inv) : s.counter = (s.expected : Nat) := by
  rw [h.counter, CT.expected]
  exact wsum_eq_countP s.mons _ h.was

/-! ## EvictionState -/

structure EV.Inv (s : EV) : Prop where
  above : ∀ e ∈ s.events, s.evicted e = false
  handed : ∀ e, e ∈ s.handed ↔ (e ∈ s.events ∨ e ∈ s.trig)
  below : ∀ e ∈ s.trig, s.evicted e = true
  nodup : s.handed.Nodup

theorem mem_insInt (a e : Int) (l : List Int) : e ∈ insInt a l ↔ e = a ∨ e ∈ l := by
  induction l with
  | nil => simp [insInt]
  | cons b l ih =>
    simp only [insInt]
    split
    · simp
    · simp only [List.mem_cons, ih]
      constructor
      · rintro (h | h | h)
        · exact Or.inr (Or.inl h)
        · exact Or.inl h
        · exact Or.inr (Or.inr h)
      · rintro (h | h | h)
        · exact Or.inr (Or.inl h)
        · exact Or.inl h
        · exact Or.inr (Or.inr h)

theorem mem_sortInts (e : Int) (l : List Int) : e ∈ sortInts l ↔ e ∈ l := by
  induction l with
  | nil => simp [sortInts]
  | cons a l ih => simp [sortInts, mem_insInt, ih]

theorem mem_evFire (events : List Int) (slot e : Int) : e ∈ evFire events slot ↔ e ∈ events ∧ e ≤ slot := by
  simp [evFire, mem_sortInts]

theorem EV.inv_init : EV.init.Inv := by
  constructor <;> simp [EV.init]

theorem EV.inv_step (s : EV) (op : EVOp) (h : s.Inv) : (s.step op).1.Inv := by
  cases op with
  | event slot =>
    simp only [EV.step]
    split
    · exact h
    · rename_i hne
      split
      · exact h
      · rename_i hnc
        have hnc' : slot ∉ s.events := by simpa using hnc
        constructor
        · intro e he
          simp only [List.mem_cons] at he
          rcases he with rfl | he
          · simpa [EV.evicted] using hne
          · exact h.above e he
        · intro e
          simp only [List.mem_cons, h.handed e]
          constructor
          · rintro (rfl | h1 | h2) <;> simp_all
          · rintro ((rfl | h1) | h2) <;> simp_all
        · exact h.below
        · simp only [List.nodup_cons]
          refine ⟨?_, h.nodup⟩
          intro hmem
          rcases (h.handed slot).1 hmem with h1 | h2
          · exact hnc' h1
          · have := h.below slot h2
            simp [this] at hne
  | evict slot =>
    simp only [EV.step]
    split
    · exact h
    · rename_i hne
      have hlast : ∀ l, s.last = some l → l < slot := by
        intro l hl
        simp [EV.evicted, hl] at hne
        omega
      constructor
      · intro e he
        simp only [List.mem_filter] at he
        simp only [EV.evicted]
        simpa using he.2
      · intro e
        simp only [h.handed e, List.mem_filter, List.mem_append, mem_evFire]
        constructor
        · rintro (h1 | h2)
          · by_cases hr : e ≤ slot
            · exact Or.inr (Or.inr ⟨h1, hr⟩)
            · exact Or.inl ⟨h1, by simpa using hr⟩
          · exact Or.inr (Or.inl h2)
        · rintro (h1 | h2 | h3)
          · exact Or.inl h1.1
          · exact Or.inr h2
          · exact Or.inl h3.1
      · intro e he
        simp only [List.mem_append, mem_evFire] at he
        simp only [EV.evicted]
        rcases he with h1 | h2
        · have := h.below e h1
          cases hl : s.last with
          | none => simp [EV.evicted, hl] at this
          | some l =>
            simp [EV.evicted, hl] at this
            have := hlast l hl
            simp; omega
        · simpa using h2.2
      · exact h.nodup

theorem EV.inv_run (s : EV) (ops : List EVOp) (h : s.Inv) : (s.run ops).Inv := by
  induction ops generalizing s with
  | nil => exact h
  | cons op ops ih => exact ih _ (EV.inv_step s op h)

/-! ## WaitGroup, one call at a time -/

theorem wgAddLoop_spec (xs : List Nat) (s : WG) (h : s.counter = s.pending.length + xs.length) :
    (wgAddLoop xs s).counter = (wgAddLoop xs s).pending.length ∧ (wgAddLoop xs s).trig = s.trig ∧
      (wgAddLoop xs s).emptied = s.emptied := by
  induction xs generalizing s with
  | nil => simpa [wgAddLoop] using h
  | cons x xs ih =>
    simp only [wgAddLoop]
    split
    · rename_i hc
      have hmem : x ∈ s.pending := by simpa using hc
      have hpos : 0 < s.pending.length := List.length_pos_of_mem hmem
      have := ih { s with counter := s.counter - 1, trig := s.trig || s.counter - 1 == 0 }
        (by simp only [List.length_cons] at h ⊢; omega)
      refine ⟨this.1, ?_, this.2.2⟩
      rw [this.2.1]
      have : ¬ (s.counter - 1 = 0) := by simp only [List.length_cons] at h; omega
      simp [this]
    · have := ih { s with pending := s.pending ++ [x] } (by simp only [List.length_cons, List.length_append, List.length_nil] at h ⊢; omega)
      exact this

theorem wgDoneLoop_spec (xs : List Nat) (s : WG) (h : s.counter = s.pending.length) (ht : s.trig = s.emptied) :
    (wgDoneLoop xs s).counter = (wgDoneLoop xs s).pending.length ∧ (wgDoneLoop xs s).trig = (wgDoneLoop xs s).emptied := by
  induction xs generalizing s with
  | nil => exact ⟨h, ht⟩
  | cons x xs ih =>
    simp only [wgDoneLoop]
    split
    · rename_i hc
      have hmem : x ∈ s.pending := by simpa using hc
      have hlen := List.length_erase_of_mem hmem
      have hpos : 0 < s.pending.length := List.length_pos_of_mem hmem
      apply ih
      · simp only [hlen]; omega
      · simp only [ht]
        congr 1
        have e1 : s.counter - 1 = ((s.pending.erase x).length : Int) := by omega
        cases hp : s.pending.erase x with
        | nil => simp [hp] at e1 ⊢; omega
        | cons a r => simp [hp] at e1 ⊢; omega
    · exact ih s h ht

end Hive.Derived
