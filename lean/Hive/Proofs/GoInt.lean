import Hive.Base.GoInt
/-! Facts about two's-complement wrap-around used by the C19 proofs. -/
namespace Hive.GoInt
namespace IntTy

theorem modulus_pos (T : IntTy) : 0 < T.modulus := by
  unfold modulus; exact Int.pow_pos (by decide)

/-- half of the modulus -/
def half (T : IntTy) : Int := 2 ^ (T.bits - 1)

theorem half_pos (T : IntTy) : 0 < T.half := by
  unfold half; exact Int.pow_pos (by decide)

theorem modulus_eq_two_half (T : IntTy) (h : 0 < T.bits) : T.modulus = 2 * T.half := by
  unfold modulus half
  obtain ⟨n, hn⟩ : ∃ n, T.bits = n + 1 := ⟨T.bits - 1, by omega⟩
  rw [hn]; simp [Int.pow_succ]; omega

theorem emod_shift (z M k : Int) (h0 : 0 ≤ z - k * M) (h1 : z - k * M < M) : z % M = z - k * M := by
  have h : z = (z - k * M) + k * M := by omega
  calc z % M = ((z - k * M) + k * M) % M := by rw [← h]
    _ = (z - k * M) % M := Int.add_mul_emod_self_right _ _ _
    _ = z - k * M := Int.emod_eq_of_lt h0 h1

theorem minVal_signed (T : IntTy) (h : T.signed = true) : T.minVal = -T.half := by
  simp [minVal, half, h]

theorem maxVal_signed (T : IntTy) (h : T.signed = true) : T.maxVal = T.half - 1 := by
  simp [maxVal, half, h]

theorem minVal_unsigned (T : IntTy) (h : T.signed = false) : T.minVal = 0 := by
  simp [minVal, h]

theorem maxVal_unsigned (T : IntTy) (h : T.signed = false) : T.maxVal = T.modulus - 1 := by
  simp [maxVal, modulus, h]

/-- `wrap z` is `z` shifted by the unique multiple of the modulus that lands in range. -/
theorem wrap_shift (T : IntTy) (hb : 0 < T.bits) (z k : Int) (h : T.InRange (z - k * T.modulus)) :
    T.wrap z = z - k * T.modulus := by
  have hM := T.modulus_pos
  have hH := T.half_pos
  have hMH := T.modulus_eq_two_half hb
  unfold InRange at h
  cases hs : T.signed with
  | false =>
    rw [T.minVal_unsigned hs, T.maxVal_unsigned hs] at h
    simp only [wrap, hs, Bool.false_eq_true, if_false]
    exact emod_shift z T.modulus k h.1 (by omega)
  | true =>
    rw [T.minVal_signed hs, T.maxVal_signed hs] at h
    simp only [wrap, hs, if_true]
    show (if z % T.modulus < T.half then z % T.modulus else z % T.modulus - T.modulus) = _
    by_cases hneg : z - k * T.modulus < 0
    · have e : z % T.modulus = z - (k - 1) * T.modulus :=
        emod_shift z T.modulus (k - 1) (by rw [Int.sub_mul]; omega) (by rw [Int.sub_mul]; omega)
      rw [e, Int.sub_mul]
      rw [if_neg (by omega)]; omega
    · have e : z % T.modulus = z - k * T.modulus := emod_shift z T.modulus k (by omega) (by omega)
      rw [e, if_pos (by omega)]

theorem wrap_eq_self (T : IntTy) (hb : 0 < T.bits) (z : Int) (h : T.InRange z) : T.wrap z = z := by
  have := T.wrap_shift hb z 0 (by simpa using h)
  simpa using this

/-- Every integer has a representative in range. -/
theorem exists_shift (T : IntTy) (hb : 0 < T.bits) (z : Int) : ∃ k, T.InRange (z - k * T.modulus) := by
  have hM := T.modulus_pos
  have hH := T.half_pos
  have hMH := T.modulus_eq_two_half hb
  have hd := Int.emod_add_mul_ediv z T.modulus
  have h0 := Int.emod_nonneg z (Int.ne_of_gt hM)
  have h1 := Int.emod_lt_of_pos z hM
  have hcomm : T.modulus * (z / T.modulus) = (z / T.modulus) * T.modulus := Int.mul_comm _ _
  unfold InRange
  cases hs : T.signed with
  | false =>
    refine ⟨z / T.modulus, ?_⟩
    rw [T.minVal_unsigned hs, T.maxVal_unsigned hs]
    omega
  | true =>
    rw [T.minVal_signed hs, T.maxVal_signed hs]
    by_cases hlt : z % T.modulus < T.half
    · exact ⟨z / T.modulus, by omega⟩
    · refine ⟨z / T.modulus + 1, ?_⟩
      rw [Int.add_mul]; omega

theorem wrap_inRange (T : IntTy) (hb : 0 < T.bits) (z : Int) : T.InRange (T.wrap z) := by
  obtain ⟨k, hk⟩ := T.exists_shift hb z
  rw [T.wrap_shift hb z k hk]; exact hk

theorem wrap_congr (T : IntTy) (hb : 0 < T.bits) (z : Int) : ∃ k, T.wrap z = z - k * T.modulus := by
  obtain ⟨k, hk⟩ := T.exists_shift hb z
  exact ⟨k, T.wrap_shift hb z k hk⟩

/-- Two in-range numbers that differ by a multiple of the modulus are equal. -/
theorem inRange_unique (T : IntTy) (hb : 0 < T.bits) (a b k : Int) (ha : T.InRange a) (hb' : T.InRange b)
    (h : a = b - k * T.modulus) : k = 0 := by
  have hM := T.modulus_pos
  have hMH := T.modulus_eq_two_half hb
  have hH := T.half_pos
  unfold InRange at ha hb'
  have hspan : T.maxVal - T.minVal < T.modulus := by
    cases hs : T.signed with
    | false => rw [T.minVal_unsigned hs, T.maxVal_unsigned hs]; omega
    | true => rw [T.minVal_signed hs, T.maxVal_signed hs]; omega
  -- |k * M| < M
  have h1 : k * T.modulus < T.modulus := by omega
  have h2 : -T.modulus < k * T.modulus := by omega
  have hk1 : k < 1 := by
    rcases Int.lt_or_le k 1 with hc | hc
    · exact hc
    · have := Int.mul_le_mul_of_nonneg_right hc (Int.le_of_lt hM)
      omega
  have hk2 : -1 < k := by
    rcases Int.lt_or_le (-1) k with hc | hc
    · exact hc
    · have := Int.mul_le_mul_of_nonneg_right hc (Int.le_of_lt hM)
      omega
  omega

/-- `wrap z = z` exactly when `z` is representable. -/
theorem wrap_eq_iff (T : IntTy) (hb : 0 < T.bits) (z : Int) : T.wrap z = z ↔ T.InRange z := by
  constructor
  · intro h; rw [← h]; exact T.wrap_inRange hb z
  · exact T.wrap_eq_self hb z

end IntTy
end Hive.GoInt
