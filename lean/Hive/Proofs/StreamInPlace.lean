import Hive.Proofs.Stream
/-!
Writing in place: a `ByteBuffer` whose storage extends beyond the write position (created with an
initial length, or rewound with `Seek`).  Every writer call is one `write` of its encoding at the
current position — also `WriteCollection`, whose count patch must come back to the offset behind the
written elements and not to the end of the storage.
-/
namespace Hive.Stream
open Hive.Dec

/-- the storage, padded with zeros up to the write position (what `ByteBuffer.Write` does first) -/
def BB.padded (w : BB) : Bytes := w.buf ++ List.replicate (w.pos - w.buf.length) 0

theorem BB.pos_le_padded (w : BB) : w.pos ≤ w.padded.length := by
  simp [BB.padded]; omega

theorem BB.write_buf (w : BB) (p : Bytes) :
    (w.write p).buf = w.padded.take w.pos ++ p ++ w.padded.drop (w.pos + p.length) := rfl

theorem BB.write_pos (w : BB) (p : Bytes) : (w.write p).pos = w.pos + p.length := rfl

theorem app3_take (T a D : Bytes) : (T ++ a ++ D).take (T.length + a.length) = T ++ a :=
  List.take_left' (l₁ := T ++ a) (l₂ := D) (by simp)

theorem app3_drop (T a D : Bytes) (k : Nat) : (T ++ a ++ D).drop (T.length + a.length + k) = D.drop k := by
  rw [← List.drop_drop, List.drop_left' (l₁ := T ++ a) (l₂ := D) (by simp)]

theorem BB.take_pos_length (w : BB) : (w.padded.take w.pos).length = w.pos := by
  have := w.pos_le_padded
  simp; omega

/-- a buffer that was just written to needs no padding -/
theorem BB.padded_write (w : BB) (p : Bytes) : (w.write p).padded = (w.write p).buf := by
  have hl : (w.write p).pos ≤ (w.write p).buf.length := by
    rw [BB.write_pos, BB.write_buf]
    have := w.take_pos_length
    simp only [List.length_append]; omega
  simp only [BB.padded]
  have : (w.write p).pos - (w.write p).buf.length = 0 := by omega
  rw [this]; simp

/-- two writes in a row are one write of the concatenation -/
theorem BB.write_write (w : BB) (a b : Bytes) : (w.write a).write b = w.write (a ++ b) := by
  have hT := w.take_pos_length
  have hb : ((w.write a).write b).buf = (w.write (a ++ b)).buf := by
    rw [BB.write_buf (w.write a) b, BB.padded_write, BB.write_pos, BB.write_buf w a, BB.write_buf w (a ++ b)]
    have e1 := app3_take (w.padded.take w.pos) a (w.padded.drop (w.pos + a.length))
    have e2 := app3_drop (w.padded.take w.pos) a (w.padded.drop (w.pos + a.length)) b.length
    rw [hT] at e1 e2
    rw [e1, e2, List.drop_drop, List.length_append]
    simp only [List.append_assoc, Nat.add_assoc]
  have hp : ((w.write a).write b).pos = (w.write (a ++ b)).pos := by
    simp only [BB.write_pos, List.length_append]; omega
  cases h1 : (w.write a).write b
  cases h2 : w.write (a ++ b)
  rw [h1] at hb hp; rw [h2] at hb hp
  simp only at hb hp
  subst hb; subst hp; rfl

/-- the count patch of `WriteCollection`: rewinding to where the call started and writing as many bytes
as the placeholder had replaces the placeholder and nothing else -/
theorem BB.write_patch (w : BB) (ph cnt rest : Bytes) (h : ph.length = cnt.length) :
    (⟨(w.write (ph ++ rest)).buf, w.pos⟩ : BB).write cnt
      = ⟨(w.write (cnt ++ rest)).buf, w.pos + cnt.length⟩ := by
  have hT := w.take_pos_length
  have hpad : (⟨(w.write (ph ++ rest)).buf, w.pos⟩ : BB).padded = (w.write (ph ++ rest)).buf := by
    have hl : w.pos ≤ (w.write (ph ++ rest)).buf.length := by
      rw [BB.write_buf]; simp only [List.length_append]; omega
    simp only [BB.padded]
    have : w.pos - (w.write (ph ++ rest)).buf.length = 0 := by omega
    rw [this]; simp
  have hb : ((⟨(w.write (ph ++ rest)).buf, w.pos⟩ : BB).write cnt).buf = (w.write (cnt ++ rest)).buf := by
    rw [BB.write_buf, hpad]
    simp only
    rw [BB.write_buf w (ph ++ rest), BB.write_buf w (cnt ++ rest)]
    have e1 : (w.padded.take w.pos ++ (ph ++ rest) ++ w.padded.drop (w.pos + (ph ++ rest).length)).take w.pos
        = w.padded.take w.pos := by
      rw [List.append_assoc]
      have := List.take_left' (l₁ := w.padded.take w.pos)
        (l₂ := (ph ++ rest) ++ w.padded.drop (w.pos + (ph ++ rest).length)) hT
      exact this
    have e2 : (w.padded.take w.pos ++ (ph ++ rest) ++ w.padded.drop (w.pos + (ph ++ rest).length)).drop (w.pos + cnt.length)
        = rest ++ w.padded.drop (w.pos + (ph ++ rest).length) := by
      have := app3_drop (w.padded.take w.pos) ph (rest ++ w.padded.drop (w.pos + (ph ++ rest).length)) 0
      rw [hT, h] at this
      simpa [List.append_assoc] using this
    rw [e1, e2]
    simp only [List.length_append, h, List.append_assoc]
  simp only [BB.write] at hb ⊢
  simp only [BB.mk.injEq]
  exact ⟨hb, trivial⟩

theorem writeSized_write (lp : LP) (d : Bytes) (w : BB) :
    writeSized lp d w = if fitsLP lp d.length then some (w.write (natLE lp.width d.length ++ d)) else none := by
  by_cases h : fitsLP lp d.length = true
  · simp [writeSized, writeFixedSize, h, BB.write_write]
  · simp [writeSized, writeFixedSize, h]

theorem writeItem_write (k : IK) (it : Bytes) (w : BB) :
    writeItem k it w = (encItem k it).map w.write := by
  cases k with
  | bws lp => simp only [writeItem, encItem, writeSized_write]; split <;> rfl
  | ows lp => simp only [writeItem, encItem, writeSized_write]; split <;> rfl
  | num wd => simp [writeItem, encItem]
  | obj n => simp [writeItem, encItem]

theorem BB.write_nil (w : BB) (hp : w.pos ≤ w.buf.length) : w.write [] = w := by
  have : w.pos - w.buf.length = 0 := by omega
  cases w with
  | mk buf pos => simp [BB.write, this]

theorem writeItems_write (k : IK) (items : List Bytes) (w : BB) (e : Bytes) :
    writeItems k items (w.write e) = (encItems k items).map (fun x => w.write (e ++ x)) := by
  induction items generalizing e with
  | nil => simp [writeItems, encItems]
  | cons it its ih =>
    simp only [writeItems, encItems, writeItem_write]
    cases h1 : encItem k it with
    | none => simp
    | some a =>
      simp only [Option.map_some, BB.write_write, ih]
      cases h2 : encItems k its with
      | none => simp
      | some b => simp [List.append_assoc]

/-- every writer call is ONE write of its encoding at the current position of the buffer, whatever
the buffer holds before and behind that position -/
theorem runWOp_write (op : WOp) (w : BB) : runWOp op w = (encOp op).map w.write := by
  cases op with
  | num wd d => simp [runWOp, encOp]
  | bool d => simp [runWOp, encOp]
  | arr n d => simp [runWOp, encOp]
  | bytes d => simp [runWOp, encOp]
  | obj d => simp [runWOp, encOp]
  | bws lp d => simp only [runWOp, encOp, writeSized_write]; split <;> rfl
  | ows lp d => simp only [runWOp, encOp, writeSized_write]; split <;> rfl
  | coll lp k items =>
    have hw1 : writeFixedSize lp 0 w = some (w.write (natLE lp.width 0)) := by
      simp [writeFixedSize, fitsLP_zero]
    simp only [runWOp, encOp, hw1, writeItems_write]
    cases h1 : encItems k items with
    | none => simp
    | some b =>
      simp only [Option.map_some]
      by_cases hf : fitsLP lp items.length = true
      · have hpatch := BB.write_patch w (natLE lp.width 0) (natLE lp.width items.length) b (by simp [natLE_length])
        simp only [writeFixedSize, hf, if_true, hpatch, Option.map_some, Option.some.injEq]
        have hp : (w.write (natLE lp.width 0 ++ b)).pos = (w.write (natLE lp.width items.length ++ b)).pos := by
          simp [BB.write_pos, natLE_length]
        rw [hp]
      · simp [writeFixedSize, hf]

theorem runW_write (ops : List WOp) (w : BB) (hp : w.pos ≤ w.buf.length) :
    runW ops w = (encW ops).map w.write := by
  induction ops generalizing w with
  | nil => simp [runW, encW, BB.write_nil w hp]
  | cons op ops ih =>
    simp only [runW, encW, runWOp_write]
    cases h1 : encOp op with
    | none => simp
    | some a =>
      have hp' : (w.write a).pos ≤ (w.write a).buf.length := by
        rw [BB.write_pos, BB.write_buf]
        have := w.take_pos_length
        simp only [List.length_append]; omega
      simp only [Option.map_some, ih (w.write a) hp']
      cases h2 : encW ops with
      | none => simp
      | some b => simp [BB.write_write]

/-- what stands in the buffer from the start position of a write: the written bytes, then the old storage -/
theorem BB.drop_after_write (w : BB) (e : Bytes) :
    (w.write e).buf.drop w.pos = e ++ (w.write e).buf.drop (w.write e).pos := by
  have hT := w.take_pos_length
  rw [BB.write_pos, BB.write_buf]
  have e1 := app3_drop (w.padded.take w.pos) [] (e ++ w.padded.drop (w.pos + e.length)) 0
  have e2 := app3_drop (w.padded.take w.pos) e (w.padded.drop (w.pos + e.length)) 0
  rw [hT] at e1 e2
  simp only [List.length_nil, Nat.add_zero, List.append_nil, List.drop_zero] at e1 e2
  rw [e2]
  rw [List.append_assoc, e1]

end Hive.Stream
