import Hive.Proofs.SerixJsonBase
/-!
# The decoder does not depend on the order of object members

* struct-like targets (structs with embedded / inlined fields, typed byte arrays, interfaces,
  pointers to them) read an object only through `jlookup`: two objects with the same lookup function
  decode identically (`dec_congr_ty`), and permuting the members of an object without duplicate keys
  does not change its lookup function (`jlookup_perm`);
* Go-map targets walk all members: permuting them permutes the decoded entries and nothing else
  (`decEntries_perm`) — in particular success does not depend on the order.
-/
namespace Hive.SerixJson

variable (fc : FloatCodec) (o : Opts)

/-! ## lookups -/

theorem jlookup_eq_some_of_mem {k : String} {j : Json} :
    ∀ {ms : List (String × Json)}, (keys ms).Nodup → (k, j) ∈ ms → jlookup k ms = some j
  | [], _, h => by cases h
  | (k', j') :: ms, hnd, h => by
    simp only [keys, List.map_cons, List.nodup_cons] at hnd
    simp only [jlookup]
    rcases List.mem_cons.mp h with heq | hmem
    · cases heq; simp
    · have : k' ≠ k := by
        rintro rfl
        exact hnd.1 (List.mem_map.mpr ⟨(k', j), hmem, rfl⟩)
      rw [if_neg this]
      exact jlookup_eq_some_of_mem hnd.2 hmem

theorem mem_of_jlookup_eq_some {k : String} {j : Json} :
    ∀ {ms : List (String × Json)}, jlookup k ms = some j → (k, j) ∈ ms
  | [], h => by simp [jlookup] at h
  | (k', j') :: ms, h => by
    simp only [jlookup] at h
    by_cases hk : k' = k
    · subst hk
      simp only [if_true, Option.some.injEq] at h
      subst h
      exact List.mem_cons_self
    · rw [if_neg hk] at h
      exact List.mem_cons_of_mem _ (mem_of_jlookup_eq_some h)

/-- permuting the members of an object without duplicate member names keeps every lookup. -/
theorem jlookup_perm {ms ns : List (String × Json)} (hp : ms.Perm ns) (hnd : (keys ms).Nodup)
    (k : String) : jlookup k ms = jlookup k ns := by
  have hnd' : (keys ns).Nodup := (List.Perm.nodup_iff (hp.map _)).mp hnd
  cases h : jlookup k ms with
  | some j =>
    have := hp.mem_iff.mp (mem_of_jlookup_eq_some h)
    exact (jlookup_eq_some_of_mem hnd' this).symm
  | none =>
    cases h' : jlookup k ns with
    | none => rfl
    | some j =>
      have := hp.mem_iff.mpr (mem_of_jlookup_eq_some h')
      rw [jlookup_eq_some_of_mem hnd this] at h
      cases h

/-! ## struct-like targets depend on an object only through its lookup function -/

/-- targets that read an object by key (everything but a Go map, which walks the members). -/
def JTy.byKey : JTy → Bool
  | .map _ _ _ => false
  | .ptr t => t.byKey
  | .iface alts => altsByKey alts
  | _ => true
where
  altsByKey : Alts → Bool
    | .nil => true
    | .cons _ t rest => t.byKey && altsByKey rest

theorem checkType_congr (code : Option Nat) {ms ns : List (String × Json)}
    (h : ∀ k, jlookup k ms = jlookup k ns) : checkType code ms = checkType code ns := by
  cases code with
  | none => rfl
  | some c => simp only [checkType, h "type"]

mutual
theorem dec_congr_ty : ∀ (t : JTy), t.byKey = true → ∀ (ms ns : List (String × Json)),
    (∀ k, jlookup k ms = jlookup k ns) → mapDecode fc o t (.obj ms) = mapDecode fc o t (.obj ns)
  | .bool, _, _, _, _ => by simp [mapDecode]
  | .uint w, _, _, _, _ => by by_cases hw : w = 64 <;> simp [mapDecode, hw, asStr]
  | .int w, _, _, _, _ => by by_cases hw : w = 64 <;> simp [mapDecode, hw, asStr]
  | .float _, _, _, _, _ => by simp [mapDecode, asStr]
  | .str _, _, _, _, _ => by simp [mapDecode, asStr]
  | .bytes _, _, _, _, _ => by simp [mapDecode, asStr]
  | .byteArr viaPtr _, _, _, _, _ => by cases viaPtr <;> simp [mapDecode, asStr]
  | .typedBytes viaPtr n _ key, _, ms, ns, h => by
    cases viaPtr <;> cases n <;> simp [mapDecode, decTypedBytes, asObj, h key]
  | .u256, _, _, _, _ => by simp [mapDecode, asStr]
  | .time, _, _, _, _ => by simp [mapDecode, asStr]
  | .slice _ _, _, _, _, _ => by simp [mapDecode, asArr]
  | .array _ _, _, _, _, _ => by simp [mapDecode, asArr]
  | .map _ _ _, hb, _, _, _ => by simp [JTy.byKey] at hb
  | .struct code fs, _, ms, ns, h => by
    simp only [mapDecode, asObj, ok_bind, checkType_congr code h, dec_congr_fields fs ms ns h]
  | .ptr t, hb, ms, ns, h => by
    simp only [JTy.byKey] at hb
    simp only [mapDecode, dec_congr_ty t hb ms ns h]
  | .iface alts, hb, ms, ns, h => by
    simp only [JTy.byKey] at hb
    simp only [mapDecode, asObj, ok_bind, h "type"]
    split
    · exact dec_congr_alts alts hb _ ms ns h
    · rfl
theorem dec_congr_fields : ∀ (fs : Fields) (ms ns : List (String × Json)),
    (∀ k, jlookup k ms = jlookup k ns) → decFields fc o fs ms = decFields fc o fs ns
  | .nil, _, _, _ => by simp [decFields]
  | .named key opt omt t rest, ms, ns, h => by
    simp only [decFields, h key, dec_congr_fields rest ms ns h]
  | .embedded viaPtr fs rest, ms, ns, h => by
    simp only [decFields, dec_congr_fields fs ms ns h, dec_congr_fields rest ms ns h]
  | .inlined code fs rest, ms, ns, h => by
    simp only [decFields, checkType_congr code h, dec_congr_fields fs ms ns h,
      dec_congr_fields rest ms ns h]
theorem dec_congr_alts : ∀ (alts : Alts), JTy.byKey.altsByKey alts = true → ∀ (c : Nat)
    (ms ns : List (String × Json)), (∀ k, jlookup k ms = jlookup k ns) →
    decAlt fc o alts c (.obj ms) = decAlt fc o alts c (.obj ns)
  | .nil, _, _, _, _, _ => by simp [decAlt]
  | .cons c0 t rest, hb, c, ms, ns, h => by
    simp only [JTy.byKey.altsByKey, Bool.and_eq_true] at hb
    simp only [decAlt, dec_congr_ty t hb.1 ms ns h, dec_congr_alts rest hb.2 c ms ns h]
end

/-! ## Go-map targets: permuted members give permuted entries -/

/-- what `mapDecodeMap` does with one member. -/
def decMember (gk gv : Json → Except Err Val) (m : String × Json) : Except Err (Val × Val) := do
  let kv ← gk (.str m.1)
  let v ← gv m.2
  pure (kv, v)

theorem keyEq_symm (a b : Val) : a.keyEq b = b.keyEq a := by
  cases a <;> cases b <;> simp [Val.keyEq, Bool.beq_comm] <;> exact eq_comm

/-- `decEntries` = decode every member, then require pairwise distinct keys. -/
theorem decEntries_iff (gk gv : Json → Except Err Val) :
    ∀ (ms : List (String × Json)) (acc out : List (Val × Val)),
      decEntries gk gv ms acc = .ok out ↔
        ∃ es, ms.mapM (decMember gk gv) = .ok es ∧ out = acc ++ es ∧
          (∀ a ∈ acc, ∀ e ∈ es, a.1.keyEq e.1 = false) ∧
          es.Pairwise (fun a b => a.1.keyEq b.1 = false)
  | [], acc, out => by
    simp only [decEntries, Except.ok.injEq, List.mapM_nil, pure_eq_ok]
    constructor
    · rintro rfl
      exact ⟨[], rfl, by simp, by simp, List.Pairwise.nil⟩
    · rintro ⟨es, rfl, rfl, _, _⟩
      simp
  | (k, j) :: ms, acc, out => by
    simp only [decEntries]
    constructor
    · intro h
      obtain ⟨kv, hkv, h⟩ := bind_eq_ok.mp h
      by_cases hany : acc.any (fun p => p.1.keyEq kv) = true
      · simp [hany] at h
      · simp only [hany, Bool.false_eq_true, if_false] at h
        obtain ⟨v, hv, h⟩ := bind_eq_ok.mp h
        obtain ⟨es, hes, rfl, hacc, hpw⟩ := (decEntries_iff gk gv ms _ out).mp h
        refine ⟨(kv, v) :: es, ?_, by simp, ?_, ?_⟩
        · rw [mapM_cons_ok]
          exact ⟨(kv, v), es, by simp [decMember, hkv, hv], hes, rfl⟩
        · intro a ha e he
          rcases List.mem_cons.mp he with rfl | he
          · have hf : acc.any (fun p => p.1.keyEq kv) = false := by
              cases hb : acc.any (fun p => p.1.keyEq kv) with
              | false => rfl
              | true => exact absurd hb hany
            have := List.any_eq_false.mp hf a ha
            simpa using this
          · exact hacc a (List.mem_append_left _ ha) e he
        · refine List.Pairwise.cons ?_ hpw
          intro e he
          exact hacc (kv, v) (by simp) e he
    · rintro ⟨es, hes, rfl, hacc, hpw⟩
      obtain ⟨e, es', he, hes', rfl⟩ := (mapM_cons_ok _ _ _ _).mp hes
      unfold decMember at he
      obtain ⟨kv, hkv, he⟩ := bind_eq_ok.mp he
      obtain ⟨v, hv, he⟩ := bind_eq_ok.mp he
      simp only [pure_eq_ok, Except.ok.injEq] at he
      subst he
      have hany : acc.any (fun p => p.1.keyEq kv) = false := by
        rw [List.any_eq_false]
        intro a ha
        simpa using hacc a ha (kv, v) List.mem_cons_self
      simp only [hkv, ok_bind, hany, Bool.false_eq_true, if_false, hv]
      rw [decEntries_iff gk gv ms _ _]
      rw [List.pairwise_cons] at hpw
      refine ⟨es', hes', by simp, ?_, hpw.2⟩
      intro a ha e' he'
      rcases List.mem_append.mp ha with ha | ha
      · exact hacc a ha e' (List.mem_cons_of_mem _ he')
      · simp only [List.mem_singleton] at ha
        subst ha
        exact hpw.1 e' he'

theorem mapM_perm {α β : Type} (f : α → Except Err β) {xs ys : List α} (hp : xs.Perm ys) :
    ∀ {es : List β}, xs.mapM f = .ok es → ∃ es', ys.mapM f = .ok es' ∧ es.Perm es' := by
  induction hp with
  | nil => intro es h; exact ⟨es, h, List.Perm.refl _⟩
  | cons x _ ih =>
    intro es h
    obtain ⟨y, ys', hy, hys, rfl⟩ := (mapM_cons_ok _ _ _ _).mp h
    obtain ⟨es', h', hp'⟩ := ih hys
    exact ⟨y :: es', (mapM_cons_ok _ _ _ _).mpr ⟨y, es', hy, h', rfl⟩, hp'.cons y⟩
  | swap x y l =>
    intro es h
    obtain ⟨b, r1, hb, h1, rfl⟩ := (mapM_cons_ok _ _ _ _).mp h
    obtain ⟨a, r2, ha, h2, rfl⟩ := (mapM_cons_ok _ _ _ _).mp h1
    refine ⟨a :: b :: r2, ?_, List.Perm.swap _ _ _⟩
    exact (mapM_cons_ok _ _ _ _).mpr ⟨a, b :: r2, ha, (mapM_cons_ok _ _ _ _).mpr ⟨b, r2, hb, h2, rfl⟩, rfl⟩
  | trans _ _ ih1 ih2 =>
    intro es h
    obtain ⟨es1, h1, p1⟩ := ih1 h
    obtain ⟨es2, h2, p2⟩ := ih2 h1
    exact ⟨es2, h2, p1.trans p2⟩

/-- **Go-map targets**: decoding an object whose members are permuted succeeds iff it did before and
yields the same entries in the permuted order. -/
theorem decEntries_perm (gk gv : Json → Except Err Val) {ms ns : List (String × Json)}
    (hp : ms.Perm ns) {es : List (Val × Val)} (h : decEntries gk gv ms [] = .ok es) :
    ∃ es', decEntries gk gv ns [] = .ok es' ∧ es.Perm es' := by
  obtain ⟨es0, hes, heq, _, hpw⟩ := (decEntries_iff gk gv ms [] es).mp h
  simp only [List.nil_append] at heq
  subst heq
  obtain ⟨es', hes', hperm⟩ := mapM_perm (decMember gk gv) hp hes
  refine ⟨es', ?_, hperm⟩
  rw [decEntries_iff]
  refine ⟨es', hes', by simp, by simp, ?_⟩
  exact (hperm.pairwise_iff (fun {x y} hxy => by rw [keyEq_symm]; exact hxy)).mp hpw

/-! ## Go-map values: being expressible does not depend on the order the entries are listed in -/

theorem distinctKeys_iff (es : List (Val × Val)) :
    distinctKeys es = true ↔ es.Pairwise (fun a b => a.1.keyEq b.1 = false) := by
  induction es with
  | nil => simp [distinctKeys]
  | cons p ps ih =>
    simp only [distinctKeys, Bool.and_eq_true, Bool.not_eq_eq_eq_not, Bool.not_true, List.any_eq_false,
      List.pairwise_cons, ih]
    constructor
    · rintro ⟨h1, h2⟩
      exact ⟨fun q hq => by simpa using h1 q hq, h2⟩
    · rintro ⟨h1, h2⟩
      exact ⟨fun q hq => by simpa using h1 q hq, h2⟩

/-- being an expressible Go-map value does not depend on the order in which the entries are listed. -/
theorem valOk_map_perm (b : Bounds) (k e : JTy) {es es' : List (Val × Val)} (hp : es.Perm es')
    (h : valOk fc (.map b k e) (.map es) = true) : valOk fc (.map b k e) (.map es') = true := by
  simp only [valOk, Bool.and_eq_true, List.all_eq_true] at h ⊢
  refine ⟨?_, fun p hp' => h.2 p (hp.mem_iff.mpr hp')⟩
  rw [distinctKeys_iff] at h ⊢
  exact (hp.pairwise_iff (fun {x y} hxy => by rw [keyEq_symm]; exact hxy)).mp h.1

end Hive.SerixJson
