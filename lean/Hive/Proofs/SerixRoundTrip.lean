import Hive.Proofs.SerixBase
/-!
# Round trip of the serix model: `decode (encode v ++ rest) = (canon v, |encode v|)`

Leaf lemmas per scalar type, the sequence combinator shared by slices, arrays and maps, and the
mutual induction over `Ty` / `Fields` / `Alts`.
-/
namespace Hive.Serix
open Res

/-- Round-trip statement for one type. -/
def RT (t : Ty) : Prop :=
  ∀ (pre : Bool) (v : Val) (o : Opts) (b : Bytes), enc t pre v o = .ok b → b.length < 2 ^ 32 →
    ∀ rest, dec t (b ++ rest) o = .ok (canon t v o, b.length)

/-! ## primitives -/


theorem writeLen_ok {lp : LP} {l : Nat} {p : Bytes} (h : writeLen lp l = .ok p) :
    ∃ w, lp.width = some w ∧ l < 256 ^ w ∧ p = leBytes w l := by
  unfold writeLen at h
  split at h
  · exact absurd h (by simp)
  · rename_i w hw
    split at h
    · rename_i hl; cases h; exact ⟨w, hw, hl, rfl⟩
    · exact absurd h (by simp)

theorem LP.width_pos {lp : LP} {w : Nat} (h : lp.width = some w) : 0 < w := by
  cases lp <;> simp [LP.width] at h <;> omega

theorem writeLen_ne_nil {lp : LP} {l : Nat} {p : Bytes} (h : writeLen lp l = .ok p) : p ≠ [] := by
  obtain ⟨w, hw, _, rfl⟩ := writeLen_ok h
  have := LP.width_pos hw
  intro hc
  have := congrArg List.length hc
  simp at this; omega

theorem ne_nil_of_length_pos {b : Bytes} (h : 0 < b.length) : b ≠ [] := by
  intro hc; subst hc; simp at h

theorem append_ne_nil_left {a b : Bytes} (h : a ≠ []) : a ++ b ≠ [] := by
  intro hc; exact h (List.append_eq_nil_iff.1 hc).1

theorem append_ne_nil_right {a b : Bytes} (h : b ≠ []) : a ++ b ≠ [] := by
  intro hc; exact h (List.append_eq_nil_iff.1 hc).2

theorem Res.require_eq_ok_iff {c : Bool} {u : Unit} : Res.require c = .ok u ↔ c = true := by
  cases c <;> simp [Res.require]

theorem mustOccurIf_false (r : Rules) (e : Ty) (vs : List Val) : mustOccurIf false r e vs = .ok () := rfl

theorem encSeq_ok {lp : LP} {r : Rules} {o : Opts} {data : List Bytes} {b : Bytes}
    (h : encSeq lp r o data = .ok b) :
    ∃ p, writeLen lp data.length = .ok p ∧ (o.validation = true → r.boundsOk data.length = true) ∧
      (o.validation = true → validSeq r (if r.autoSort && r.lex then sortBytes data else data) = true) ∧
      b = p ++ (if r.autoSort && r.lex then sortBytes data else data).flatten := by
  unfold encSeq at h
  split at h
  · exact absurd h (by simp)
  · simp only [Res.bind_eq_ok, Res.require_eq_ok_iff, exists_and_left, exists_const] at h
    obtain ⟨hb, p, hp, hv, hb'⟩ := h
    refine ⟨p, hp, ?_, ?_, ?_⟩
    · intro hval; simpa [hval] using hb
    · intro hval; simpa [hval] using hv
    · simpa using hb'.symm

theorem Code.bytes_ne_nil (c : Code) : c.bytes ≠ [] := by
  apply ne_nil_of_length_pos
  simp [Code.bytes]
  cases c.den <;> simp [Den.width]


/-! ## encodings of `nonEmpty` types are not empty -/

mutual
theorem ne_ty : ∀ (t : Ty), t.nonEmpty = true → ∀ (pre : Bool) (v : Val) (o : Opts) (b : Bytes),
    enc t pre v o = .ok b → b ≠ []
  | .bool, _, pre, v, o, b, h => by
    rcases v with x | x | x | x | ⟨x, y⟩ | _ | x | ⟨x, y⟩ <;> simp only [enc] at h <;> (try contradiction)
    split at h
    · cases h; simp
    · contradiction
  | .uint w, hn, pre, v, o, b, h => by
    rcases v with x | x | x | x | ⟨x, y⟩ | _ | x | ⟨x, y⟩ <;> simp only [enc] at h <;> (try contradiction)
    split at h
    · cases h; apply ne_nil_of_length_pos; simpa [Ty.nonEmpty] using hn
    · contradiction
  | .int w, hn, pre, v, o, b, h => by
    rcases v with x | x | x | x | ⟨x, y⟩ | _ | x | ⟨x, y⟩ <;> simp only [enc] at h <;> (try contradiction)
    split at h
    · cases h; apply ne_nil_of_length_pos; simpa [Ty.nonEmpty] using hn
    · contradiction
  | .float w, hn, pre, v, o, b, h => by
    rcases v with x | x | x | x | ⟨x, y⟩ | _ | x | ⟨x, y⟩ <;> simp only [enc] at h <;> (try contradiction)
    split at h
    · cases h; apply ne_nil_of_length_pos; simpa [Ty.nonEmpty] using hn
    · contradiction
  | .str lp mn mx, _, pre, v, o, b, h => by
    rcases v with x | x | x | x | ⟨x, y⟩ | _ | x | ⟨x, y⟩ <;> simp only [enc] at h <;> (try contradiction)
    split at h
    · contradiction
    · simp only [Res.bind_eq_ok, Res.require_eq_ok_iff, exists_and_left, exists_const] at h
      obtain ⟨_, p, hp, hb⟩ := h
      cases hb
      exact append_ne_nil_left (writeLen_ne_nil hp)
  | .bytes lp mn mx, _, pre, v, o, b, h => by
    rcases v with x | x | x | x | ⟨x, y⟩ | _ | x | ⟨x, y⟩ <;> simp only [enc] at h <;> (try contradiction)
    split at h
    · contradiction
    · simp only [Res.bind_eq_ok, Res.require_eq_ok_iff, exists_and_left, exists_const] at h
      obtain ⟨_, p, hp, hb⟩ := h
      cases hb
      exact append_ne_nil_left (writeLen_ne_nil hp)
  | .byteArr n code mn mx, hn, pre, v, o, b, h => by
    rcases v with x | x | x | x | ⟨x, y⟩ | _ | x | ⟨x, y⟩ <;> simp only [enc] at h <;> (try contradiction)
    split at h
    · contradiction
    · rename_i hlen
      split at h
      · contradiction
      · cases h
        simp only [Ty.nonEmpty, Bool.or_eq_true, decide_eq_true_eq] at hn
        rcases hn with hn | hn
        · apply append_ne_nil_right; apply ne_nil_of_length_pos; simp at hlen; omega
        · cases code with
          | none => simp at hn
          | some c => exact append_ne_nil_left (Code.bytes_ne_nil c)
  | .u256, _, pre, v, o, b, h => by
    rcases v with x | x | x | x | ⟨x, y⟩ | _ | x | ⟨x, y⟩ <;> simp only [enc] at h <;> (try contradiction)
    split at h
    · cases h; apply ne_nil_of_length_pos; simp
    · contradiction
  | .time, _, pre, v, o, b, h => by
    rcases v with x | x | x | x | ⟨x, y⟩ | _ | x | ⟨x, y⟩ <;> simp only [enc] at h <;> (try contradiction)
    cases h; apply ne_nil_of_length_pos; simp
  | .slice lp r e, _, pre, v, o, b, h => by
    rcases v with x | x | x | x | ⟨x, y⟩ | _ | x | ⟨x, y⟩ <;> simp only [enc] at h <;> (try contradiction)
    simp only [Res.bind_eq_ok, Res.require_eq_ok_iff, exists_and_left, exists_const] at h
    obtain ⟨_, _, _, data, _, hs⟩ := h
    obtain ⟨p, hp, _, _, rfl⟩ := encSeq_ok hs
    exact append_ne_nil_left (writeLen_ne_nil hp)
  | .array n lp r e, _, pre, v, o, b, h => by
    rcases v with x | x | x | x | ⟨x, y⟩ | _ | x | ⟨x, y⟩ <;> simp only [enc] at h <;> (try contradiction)
    split at h
    · contradiction
    · simp only [Res.bind_eq_ok, Res.require_eq_ok_iff, exists_and_left, exists_const] at h
      obtain ⟨_, _, _, data, _, hs⟩ := h
      obtain ⟨p, hp, _, _, rfl⟩ := encSeq_ok hs
      exact append_ne_nil_left (writeLen_ne_nil hp)
  | .map lp r k v', _, pre, v, o, b, h => by
    rcases v with x | x | x | x | ⟨x, y⟩ | _ | x | ⟨x, y⟩ <;> simp only [enc] at h <;> (try contradiction)
    split at h
    · contradiction
    · simp only [Res.bind_eq_ok, Res.require_eq_ok_iff, exists_and_left, exists_const] at h
      obtain ⟨_, data, _, hs⟩ := h
      obtain ⟨p, hp, _, _, rfl⟩ := encSeq_ok hs
      exact append_ne_nil_left (writeLen_ne_nil hp)
  | .struct code fs, hn, pre, v, o, b, h => by
    rcases v with x | x | x | x | ⟨x, y⟩ | _ | x | ⟨x, y⟩ <;> simp only [enc] at h <;> (try contradiction)
    simp only [Res.bind_eq_ok] at h
    obtain ⟨body, hbody, hb⟩ := h
    cases hb
    cases code with
    | some c => exact append_ne_nil_left (Code.bytes_ne_nil c)
    | none =>
      simp only [Ty.nonEmpty] at hn
      exact append_ne_nil_right (ne_fields fs hn x o body hbody)
  | .ptr t, hn, pre, v, o, b, h => by
    rcases v with x | x | x | x | ⟨x, y⟩ | _ | x | ⟨x, y⟩ <;> simp only [enc] at h <;> (try contradiction)
    split at h
    · simp only [Ty.nonEmpty] at hn
      exact ne_ty t hn false x o b h
    · contradiction
  | .iface den alts, hn, pre, v, o, b, h => by
    rcases v with x | x | x | x | ⟨x, y⟩ | _ | x | ⟨x, y⟩ <;> simp only [enc] at h <;> (try contradiction)
    simp only [Ty.nonEmpty] at hn
    exact ne_alts alts hn x y o b h
  | .custom code fixed, _, pre, v, o, b, h => by
    rcases v with x | x | x | x | ⟨x, y⟩ | _ | x | ⟨x, y⟩ <;> simp only [enc] at h <;> (try contradiction)
    split at h
    · rename_i hok
      cases h
      cases x with
      | nil => simp [customOk] at hok
      | cons n r => exact append_ne_nil_right (by simp)
    · contradiction
theorem ne_fields : ∀ (fs : Fields), fs.nonEmpty = true → ∀ (vs : List Val) (o : Opts) (b : Bytes),
    encFields fs vs o = .ok b → b ≠ []
  | .nil, hn, _, _, _, _ => by simp [Fields.nonEmpty] at hn
  | .cons false t rest, hn, vs, o, b, h => by
    cases vs with
    | nil => simp [encFields] at h
    | cons v vs =>
      simp only [encFields, Res.bind_eq_ok] at h
      obtain ⟨b1, h1, b2, h2, hb⟩ := h
      cases hb
      simp only [Fields.nonEmpty, Bool.or_eq_true] at hn
      rcases hn with hn | hn
      · exact append_ne_nil_left (ne_ty t hn true v o b1 h1)
      · exact append_ne_nil_right (ne_fields rest hn vs o b2 h2)
  | .cons true t rest, _, vs, o, b, h => by
    cases vs with
    | nil => simp [encFields] at h
    | cons v vs =>
      simp only [encFields, Res.bind_eq_ok] at h
      obtain ⟨b1, h1, b2, h2, hb⟩ := h
      cases hb
      apply append_ne_nil_left
      split at h1
      · cases h1; apply ne_nil_of_length_pos; simp
      · simp only [Res.bind_eq_ok] at h1
        obtain ⟨fb, _, hfb⟩ := h1
        cases hfb
        apply append_ne_nil_left; apply ne_nil_of_length_pos; simp
  | .emb false fs rest, hn, vs, o, b, h => by
    rcases vs with _ | ⟨v, vs⟩
    · simp [encFields] at h
    · rcases v with x | x | x | x | ⟨x, y⟩ | _ | x | ⟨x, y⟩ <;> (try simp only [encFields] at h) <;> (try contradiction)
      simp only [Res.bind_eq_ok] at h
      obtain ⟨b1, h1, b2, h2, hb⟩ := h
      cases hb
      simp only [Fields.nonEmpty, Bool.or_eq_true] at hn
      rcases hn with hn | hn
      · exact append_ne_nil_left (ne_fields fs hn x o b1 h1)
      · exact append_ne_nil_right (ne_fields rest hn vs o b2 h2)
  | .emb true fs rest, hn, vs, o, b, h => by
    rcases vs with _ | ⟨v, vs⟩
    · simp [encFields] at h
    · rcases v with x | x | x | x | ⟨x, y⟩ | _ | x | ⟨x, y⟩ <;> (try simp only [encFields] at h) <;> (try contradiction)
      rcases x with x | x | x | x | ⟨x, y⟩ | _ | x | ⟨x, y⟩ <;> (try simp only [encFields] at h) <;> (try contradiction)
      simp only [Res.bind_eq_ok] at h
      obtain ⟨b1, h1, b2, h2, hb⟩ := h
      cases hb
      simp only [Fields.nonEmpty, Bool.or_eq_true] at hn
      rcases hn with hn | hn
      · exact append_ne_nil_left (ne_fields fs hn x o b1 h1)
      · exact append_ne_nil_right (ne_fields rest hn vs o b2 h2)
theorem ne_alts : ∀ (alts : Alts), alts.nonEmpty = true → ∀ (c : Nat) (v : Val) (o : Opts) (b : Bytes),
    encAlts alts c v o = .ok b → b ≠ []
  | .nil, _, _, _, _, _, h => by simp [encAlts] at h
  | .cons c' t rest, hn, c, v, o, b, h => by
    simp only [encAlts] at h
    simp only [Alts.nonEmpty, Bool.and_eq_true] at hn
    split at h
    · exact ne_ty t hn.1 true v o b h
    · exact ne_alts rest hn.2 c v o b h
end

/-! ## leaf types -/

theorem rt_bool : RT .bool := by
  intro pre v o b h _ rest
  rcases v with x | x | x | x | ⟨x, y⟩ | _ | x | ⟨x, y⟩ <;> simp only [enc] at h <;> (try contradiction)
  split at h
  · rename_i hx
    cases h
    have : x = 0 ∨ x = 1 := by omega
    rcases this with rfl | rfl <;> simp [dec, canon]
  · contradiction

theorem rt_uint (w : Nat) : RT (.uint w) := by
  intro pre v o b h _ rest
  rcases v with x | x | x | x | ⟨x, y⟩ | _ | x | ⟨x, y⟩ <;> simp only [enc] at h <;> (try contradiction)
  split at h
  · rename_i hx
    cases h
    simp [dec, canon, leNat_leBytes_of_lt hx]
  · contradiction

theorem readLen_writeLen {lp : LP} {l : Nat} {p : Bytes} (h : writeLen lp l = .ok p) (rest : Bytes) :
    readLen lp (p ++ rest) = .ok (l, p.length) := by
  obtain ⟨w, hw, hl, rfl⟩ := writeLen_ok h
  unfold readLen
  simp [hw, leNat_leBytes_of_lt hl]

theorem readCode_codeBytes {code : Option Code} (hwf : codeWf code = true) (rest : Bytes) :
    readCode code (codeBytes code ++ rest) = .ok (codeBytes code).length := by
  cases code with
  | none => simp [readCode, codeBytes]
  | some c =>
    simp only [codeWf, Code.wf, decide_eq_true_eq] at hwf
    simp [readCode, codeBytes, Code.bytes, leNat_leBytes_of_lt hwf]

theorem rt_float (w : Nat) : RT (.float w) := by
  intro pre v o b h _ rest
  rcases v with x | x | x | x | ⟨x, y⟩ | _ | x | ⟨x, y⟩ <;> simp only [enc] at h <;> (try contradiction)
  split at h
  · rename_i hx
    cases h
    simp [dec, canon, leNat_leBytes_of_lt hx]
  · exact absurd h (by simp)

theorem rt_str (lp : LP) (mn mx : Nat) : RT (.str lp mn mx) := by
  intro pre v o b h _ rest
  rcases v with bs | bs | bs | bs | ⟨bs, y⟩ | _ | bs | ⟨bs, y⟩ <;> simp only [enc] at h <;> (try contradiction)
  split at h
  · exact absurd h (by simp)
  · simp only [Res.require_bind_eq_ok] at h
    obtain ⟨hval, h⟩ := h
    cases hp : writeLen lp bs.length with
    | ok p =>
      rw [hp] at h
      simp at h
      subst h
      have hr := readLen_writeLen hp (bs ++ rest)
      simp only [dec, List.append_assoc, hr]
      simp only [Bool.or_eq_true, Bool.not_eq_eq_eq_not, Bool.not_true, Bool.and_eq_true] at hval
      rcases hval with hv | ⟨hb, hu⟩
      · simp [hv, Res.require, canon]
      · simp [hb, hu, Res.require, canon]
    | err => rw [hp] at h; simp at h
    | panic => rw [hp] at h; simp at h

theorem rt_bytes (lp : LP) (mn mx : Nat) : RT (.bytes lp mn mx) := by
  intro pre v o b h _ rest
  rcases v with bs | bs | bs | bs | ⟨bs, y⟩ | _ | bs | ⟨bs, y⟩ <;> simp only [enc] at h <;> (try contradiction)
  split at h
  · exact absurd h (by simp)
  · simp only [Res.require_bind_eq_ok] at h
    obtain ⟨hval, h⟩ := h
    cases hp : writeLen lp bs.length with
    | ok p =>
      rw [hp] at h
      simp at h
      subst h
      have hr := readLen_writeLen hp (bs ++ rest)
      simp [dec, hr, hval, Res.require, canon]
    | err => rw [hp] at h; simp at h
    | panic => rw [hp] at h; simp at h

theorem rt_byteArr (n : Nat) (code : Option Code) (mn mx : Nat) (hwf : codeWf code = true) :
    RT (.byteArr n code mn mx) := by
  intro pre v o b h _ rest
  rcases v with bs | bs | bs | bs | ⟨bs, y⟩ | _ | bs | ⟨bs, y⟩ <;> simp only [enc] at h <;> (try contradiction)
  split at h
  · exact absurd h (by simp)
  · rename_i hlen
    split at h
    · exact absurd h (by simp)
    · rename_i hb
      cases h
      have hr := readCode_codeBytes hwf (bs ++ rest)
      have hb' : (!o.validation || boundsOk mn mx n) = true := by
        cases hv : o.validation <;> cases hbo : boundsOk mn mx n <;> simp_all
      simp only [dec, hb', Res.require_true, Res.ok_bind, List.append_assoc, hr]
      simp at hlen
      simp [hlen, canon]

theorem rt_u256 : RT .u256 := by
  intro pre v o b h _ rest
  rcases v with x | x | x | x | ⟨x, y⟩ | _ | x | ⟨x, y⟩ <;> simp only [enc] at h <;> (try contradiction)
  split at h
  · rename_i hx
    cases h
    have hlt : x.toNat < 256 ^ 32 := by
      have : ((x.toNat : Nat) : Int) < ((256 ^ 32 : Nat) : Int) := by
        rw [Int.toNat_of_nonneg hx.1]
        have : ((256 ^ 32 : Nat) : Int) = (2 : Int) ^ 256 := by decide
        omega
      exact Int.ofNat_lt.1 this
    simp [dec, canon, leNat_leBytes_of_lt hlt, Int.toNat_of_nonneg hx.1]
  · exact absurd h (by simp)

theorem timeToU64_le (x : Int) : timeToU64 x ≤ maxInt64 := by
  unfold timeToU64
  split
  · exact Nat.zero_le _
  · split
    · exact Nat.le_refl _
    · omega

theorem timeOfU64_of_le {n : Nat} (h : n ≤ maxInt64) : timeOfU64 n = (n : Int) := by
  unfold timeOfU64
  have h1 : ¬ n / 1000000000 > maxSec := by
    unfold maxSec
    have : n / 1000000000 ≤ maxInt64 / 1000000000 := Nat.div_le_div_right h
    omega
  simp only [h1, if_false]
  have : ¬ n > maxInt64 := by omega
  simp [this]

theorem rt_time : RT .time := by
  intro pre v o b h _ rest
  rcases v with x | x | x | x | ⟨x, y⟩ | _ | x | ⟨x, y⟩ <;> simp only [enc] at h <;> (try contradiction)
  cases h
  have hle := timeToU64_le x
  have hlt : timeToU64 x < 256 ^ 8 := by
    have : maxInt64 < 256 ^ 8 := by decide
    omega
  have hns : ¬ timeToU64 x > maxInt64 := by omega
  simp [dec, canon, leNat_leBytes_of_lt hlt, timeOfU64_of_le hle, hns]
theorem toSigned_emod (w : Nat) (x : Int) (h1 : -((256 : Int) ^ w) ≤ 2 * x) (h2 : 2 * x < (256 : Int) ^ w) :
    toSigned w (x % (256 : Int) ^ w).toNat = x := by
  have hM : (0 : Int) < (256 : Int) ^ w := Int.pow_pos (by decide)
  have hcast : ((256 ^ w : Nat) : Int) = (256 : Int) ^ w := by simp
  unfold toSigned
  by_cases hx : 0 ≤ x
  · have he : x % (256 : Int) ^ w = x := Int.emod_eq_of_lt hx (by omega)
    rw [he]
    have : (2 * x.toNat : Nat) < 256 ^ w := by
      have : ((2 * x.toNat : Nat) : Int) < ((256 ^ w : Nat) : Int) := by
        rw [hcast]; simp; omega
      exact Int.ofNat_lt.1 this
    simp [this]; omega
  · have he : x % (256 : Int) ^ w = x + (256 : Int) ^ w := by
      have : (x + (256 : Int) ^ w) % (256 : Int) ^ w = x % (256 : Int) ^ w := by
        simp [Int.add_emod_right]
      rw [← this]; exact Int.emod_eq_of_lt (by omega) (by omega)
    rw [he]
    have hn : ¬ (2 * (x + (256 : Int) ^ w).toNat : Nat) < 256 ^ w := by
      intro hc
      have : ((2 * (x + (256 : Int) ^ w).toNat : Nat) : Int) < ((256 ^ w : Nat) : Int) := Int.ofNat_lt.2 hc
      rw [hcast] at this; simp at this; omega
    simp [hn]; omega

theorem leNat_emod_lt (w : Nat) (x : Int) : (x % (256 : Int) ^ w).toNat < 256 ^ w := by
  have hM : (0 : Int) < (256 : Int) ^ w := Int.pow_pos (by decide)
  have h1 := Int.emod_nonneg x (Int.ne_of_gt hM)
  have h2 := Int.emod_lt_of_pos x hM
  have hcast : ((256 ^ w : Nat) : Int) = (256 : Int) ^ w := by simp
  have : (((x % (256 : Int) ^ w).toNat : Nat) : Int) < ((256 ^ w : Nat) : Int) := by
    rw [hcast, Int.toNat_of_nonneg h1]; exact h2
  exact Int.ofNat_lt.1 this

theorem rt_int (w : Nat) : RT (.int w) := by
  intro pre v o b h _ rest
  cases v <;> simp only [enc] at h <;> try (exact absurd h (by simp))
  rename_i x
  split at h
  · rename_i hx
    cases h
    simp [dec, canon, leNat_leBytes_of_lt (leNat_emod_lt w x), toSigned_emod w x hx.1 hx.2]
  · exact absurd h (by simp)

theorem rt_custom (code : Option Code) (fixed : Option Nat) (hwf : codeWf code = true) :
    RT (.custom code fixed) := by
  intro pre v o b h _ rest
  rcases v with bs | bs | bs | bs | ⟨bs, y⟩ | _ | bs | ⟨bs, y⟩ <;> simp only [enc] at h <;> (try contradiction)
  split at h
  · rename_i hok
    cases h
    cases bs with
    | nil => simp [customOk] at hok
    | cons n r =>
      have hlen : r.length = n.toNat := by
        simp only [customOk, Bool.and_eq_true, beq_iff_eq] at hok; exact hok.1
      have hr := readCode_codeBytes hwf ((n :: r) ++ rest)
      have hnl : ¬ (r ++ rest).length < n.toNat := by simp only [List.length_append]; omega
      have htake : (r ++ rest).take n.toNat = r := by rw [← hlen]; exact List.take_left
      have hgoal : dec (.custom code fixed) (codeBytes code ++ ((n :: r) ++ rest)) o
          = .ok (.x (n :: r), (codeBytes code).length + (1 + n.toNat)) := by
        simp only [dec, hr, Res.ok_bind, List.drop_left]
        simp only [List.cons_append, hnl, if_false, htake, hok, if_true]
      rw [List.append_assoc, hgoal]
      simp only [canon, List.length_append, List.length_cons, hlen]
      congr 2; omega
  · contradiction

/-! ## the sequence combinator -/

theorem decLoop_pairs (item : Bytes → Res (Val × Nat)) (ps : List (Bytes × Val))
    (h : ∀ p ∈ ps, ∀ rest, item (p.1 ++ rest) = .ok (p.2, p.1.length)) (rest : Bytes) :
    decLoop item ps.length ((ps.map (·.1)).flatten ++ rest)
      = .ok (ps.map (fun p => (p.2, p.1)), (ps.map (·.1)).flatten.length) := by
  induction ps with
  | nil => simp [decLoop]
  | cons p ps ih =>
    have hp := h p (List.mem_cons_self) ((ps.map (·.1)).flatten ++ rest)
    have ih' := ih (fun q hq => h q (List.mem_cons_of_mem p hq))
    simp only [List.length_cons, List.map_cons, List.flatten_cons, List.append_assoc, decLoop, hp,
      Res.ok_bind, List.drop_left, ih', List.take_left, Res.pure_eq, List.length_append]

theorem mapMRes_ok {α : Type} {f : α → Res Bytes} {l : List α} {bs : List Bytes} (h : mapMRes f l = .ok bs) :
    bs = l.map (fun a => bytesOf (f a)) ∧ ∀ a ∈ l, f a = .ok (bytesOf (f a)) := by
  induction l generalizing bs with
  | nil => simp [mapMRes] at h; simp [h]
  | cons a as ih =>
    simp only [mapMRes, Res.bind_eq_ok, Res.pure_eq] at h
    obtain ⟨b, hb, bs', hbs', hc⟩ := h
    cases hc
    obtain ⟨h1, h2⟩ := ih hbs'
    refine ⟨by rw [List.map_cons, hb, ← h1]; rfl, ?_⟩
    intro x hx
    rcases List.mem_cons.1 hx with rfl | hx'
    · simp [hb, bytesOf]
    · exact h2 x hx'

theorem flatten_length_perm {l l' : List Bytes} (h : l.Perm l') : l.flatten.length = l'.flatten.length :=
  (List.Perm.flatten h).length_eq

/-- The sequence part shared by slices, arrays and maps: what `encSeq` wrote for the first
components of `ps` is read back item by item as the second components, in the order the encoder
imposed, and passes the reader's validators. -/
theorem seq_roundtrip (lp : LP) (r : Rules) (o : Opts) (item : Bytes → Res (Val × Nat))
    (ps : List (Bytes × Val)) (b : Bytes)
    (henc : encSeq lp r o (ps.map (·.1)) = .ok b)
    (hitem : ∀ p ∈ ps, ∀ rest, item (p.1 ++ rest) = .ok (p.2, p.1.length))
    (rest : Bytes) :
    ∃ w, readLen lp (b ++ rest) = .ok (ps.length, w) ∧
      (o.validation = true → r.boundsOk ps.length = true) ∧
      decSeqBody item r o ps.length w (b ++ rest)
        = .ok ((if r.autoSort && r.lex then isortBy (·.1) ps else ps).map (fun p => (p.2, p.1)), b.length) := by
  obtain ⟨pre, hpre, hbounds, hvalid, rfl⟩ := encSeq_ok henc
  simp only [List.length_map] at hpre hbounds
  let ps' := if r.autoSort && r.lex then isortBy (·.1) ps else ps
  have hperm : ps'.Perm ps := by
    show (if r.autoSort && r.lex then isortBy (·.1) ps else ps).Perm ps
    split
    · exact isortBy_perm _ ps
    · exact List.Perm.refl _
  have hdata : (if r.autoSort && r.lex then sortBytes (ps.map (·.1)) else ps.map (·.1)) = ps'.map (·.1) := by
    show _ = (if r.autoSort && r.lex then isortBy (·.1) ps else ps).map (·.1)
    split
    · rw [isortBy_map]
    · rfl
  rw [hdata] at hvalid ⊢
  have hlen : ps'.length = ps.length := hperm.length_eq
  refine ⟨pre.length, ?_, hbounds, ?_⟩
  · rw [List.append_assoc]; exact readLen_writeLen hpre _
  · have hloop := decLoop_pairs item ps' (fun p hp => hitem p (hperm.mem_iff.1 hp)) rest
    rw [hlen] at hloop
    have hv : (!o.validation || validSeq r (ps'.map (·.1))) = true := by
      cases hval : o.validation with
      | false => rfl
      | true => simpa using hvalid hval
    have hb : (!o.validation || r.boundsOk ps.length) = true := by
      cases hval : o.validation with
      | false => rfl
      | true => simpa using hbounds hval
    unfold decSeqBody
    simp only [hb, Res.require_true, Res.ok_bind, List.append_assoc, List.drop_left, hloop,
      List.map_map, Res.pure_eq, List.length_append]
    have : (List.map ((fun x => x.2) ∘ fun p => (p.2, p.1)) ps') = ps'.map (·.1) := by
      apply List.map_congr_left; intro p _; rfl
    rw [this, hv]
    rfl

/-! ## must-occur rule, interface code prefixes -/

theorem mapMRes_mem {α β : Type} {f : α → Res β} {l : List α} {cs : List β} (h : mapMRes f l = .ok cs) :
    (∀ a ∈ l, ∃ c, f a = .ok c) ∧ ∀ c, c ∈ cs ↔ ∃ a ∈ l, f a = .ok c := by
  induction l generalizing cs with
  | nil => simp [mapMRes] at h; subst h; simp
  | cons a as ih =>
    simp only [mapMRes, Res.bind_eq_ok, Res.pure_eq] at h
    obtain ⟨b, hb, bs', hbs', hc⟩ := h
    cases hc
    obtain ⟨h1, h2⟩ := ih hbs'
    constructor
    · intro x hx
      rcases List.mem_cons.1 hx with rfl | hx'
      · exact ⟨b, hb⟩
      · exact h1 x hx'
    · intro c
      simp only [List.mem_cons, h2 c]
      constructor
      · rintro (rfl | ⟨x, hx, hxc⟩)
        · exact ⟨a, Or.inl rfl, hb⟩
        · exact ⟨x, Or.inr hx, hxc⟩
      · rintro ⟨x, rfl | hx, hxc⟩
        · left; rw [hb] at hxc; cases hxc; rfl
        · right; exact ⟨x, hx, hxc⟩

theorem mapMRes_all_ok {α β : Type} {f : α → Res β} {l : List α} (h : ∀ a ∈ l, ∃ c, f a = .ok c) :
    ∃ cs, mapMRes f l = .ok cs := by
  induction l with
  | nil => exact ⟨[], rfl⟩
  | cons a as ih =>
    obtain ⟨c, hc⟩ := h a (List.mem_cons_self)
    obtain ⟨cs, hcs⟩ := ih (fun x hx => h x (List.mem_cons_of_mem a hx))
    exact ⟨c :: cs, by simp [mapMRes, hc, hcs]⟩

theorem mustOccurOk_iff (r : Rules) (e : Ty) (vs : List Val) :
    mustOccurOk r e vs = .ok () ↔ r.mustOccur.isEmpty = true ∨
      ((∀ v ∈ vs, ∃ c, e.codeOf v = .ok c) ∧ ∀ m ∈ r.mustOccur, ∃ v ∈ vs, e.codeOf v = .ok m) := by
  unfold mustOccurOk
  cases hE : r.mustOccur.isEmpty with
  | true => simp
  | false =>
    simp only [Bool.false_eq_true, if_false, false_or]
    constructor
    · intro h
      simp only [Res.bind_eq_ok, Res.require_eq_ok_iff] at h
      obtain ⟨codes, hcodes, hall⟩ := h
      obtain ⟨h1, h2⟩ := mapMRes_mem hcodes
      refine ⟨h1, ?_⟩
      intro m hm
      have := List.all_eq_true.1 hall m hm
      simp only [List.contains_iff_mem] at this
      exact (h2 m).1 this
    · rintro ⟨h1, h2⟩
      obtain ⟨codes, hcodes⟩ := mapMRes_all_ok h1
      obtain ⟨_, h3⟩ := mapMRes_mem hcodes
      simp only [hcodes, Res.ok_bind, Res.require_eq_ok_iff, List.all_eq_true, List.contains_iff_mem]
      intro m hm
      exact (h3 m).2 (h2 m hm)

theorem codeOf_canon (e : Ty) (v : Val) (o : Opts) : e.codeOf (canon e v o) = e.codeOf v := by
  cases e <;> cases v <;> simp [canon, Ty.codeOf]

theorem mustOccurIf_perm_canon {c : Bool} {r : Rules} {e : Ty} {vs l : List Val} {o : Opts}
    (h : mustOccurIf c r e vs = .ok ()) (hl : l.Perm (vs.map (canon e · o))) :
    mustOccurIf c r e l = .ok () := by
  unfold mustOccurIf at h ⊢
  cases c with
  | false => rfl
  | true =>
    simp only [if_true] at h ⊢
    rw [mustOccurOk_iff] at h ⊢
    rcases h with h | ⟨h1, h2⟩
    · exact Or.inl h
    · right
      constructor
      · intro v hv
        obtain ⟨v0, hv0, rfl⟩ := List.mem_map.1 (hl.mem_iff.1 hv)
        rw [codeOf_canon]; exact h1 v0 hv0
      · intro m hm
        obtain ⟨v0, hv0, hc⟩ := h2 m hm
        exact ⟨canon e v0 o, hl.mem_iff.2 (List.mem_map.2 ⟨v0, hv0, rfl⟩), by rw [codeOf_canon]; exact hc⟩

theorem startsWith_cases {t : Ty} {den : Den} {code : Nat} (hs : t.startsWith den code = true) :
    (∃ c fs, t = .struct (some c) fs ∧ c.den = den ∧ c.n = code) ∨
    (∃ n c mn mx, t = .byteArr n (some c) mn mx ∧ c.den = den ∧ c.n = code) ∨
    (∃ c fs, t = .ptr (.struct (some c) fs) ∧ c.den = den ∧ c.n = code) ∨
    (∃ n c mn mx, t = .ptr (.byteArr n (some c) mn mx) ∧ c.den = den ∧ c.n = code) ∨
    (∃ c fx, t = .custom (some c) fx ∧ c.den = den ∧ c.n = code) ∨
    (∃ c fx, t = .ptr (.custom (some c) fx) ∧ c.den = den ∧ c.n = code) := by
  unfold Ty.startsWith at hs
  split at hs <;> (try simp only [Bool.and_eq_true, beq_iff_eq] at hs)
  · exact Or.inl ⟨_, _, rfl, hs.1, hs.2⟩
  · exact Or.inr (Or.inl ⟨_, _, _, _, rfl, hs.1, hs.2⟩)
  · exact Or.inr (Or.inr (Or.inl ⟨_, _, rfl, hs.1, hs.2⟩))
  · exact Or.inr (Or.inr (Or.inr (Or.inl ⟨_, _, _, _, rfl, hs.1, hs.2⟩)))
  · exact Or.inr (Or.inr (Or.inr (Or.inr (Or.inl ⟨_, _, rfl, hs.1, hs.2⟩))))
  · exact Or.inr (Or.inr (Or.inr (Or.inr (Or.inr ⟨_, _, rfl, hs.1, hs.2⟩))))
  · exact absurd hs (by simp)

theorem enc_custom_prefix {c : Code} {fx : Option Nat} {pre : Bool} {v : Val} {o : Opts} {b : Bytes}
    (h : enc (.custom (some c) fx) pre v o = .ok b) : ∃ b', b = c.bytes ++ b' := by
  rcases v with x | x | x | x | ⟨x, y⟩ | _ | x | ⟨x, y⟩ <;> simp only [enc] at h <;> (try contradiction)
  split at h
  · cases h; exact ⟨x, rfl⟩
  · contradiction

theorem enc_struct_prefix {c : Code} {fs : Fields} {pre : Bool} {v : Val} {o : Opts} {b : Bytes}
    (h : enc (.struct (some c) fs) pre v o = .ok b) : ∃ b', b = c.bytes ++ b' := by
  rcases v with x | x | x | x | ⟨x, y⟩ | _ | x | ⟨x, y⟩ <;> simp only [enc] at h <;> (try contradiction)
  simp only [Res.bind_eq_ok] at h
  obtain ⟨body, _, hb⟩ := h
  cases hb
  exact ⟨body, rfl⟩

theorem enc_byteArr_prefix {n : Nat} {c : Code} {mn mx : Nat} {pre : Bool} {v : Val} {o : Opts} {b : Bytes}
    (h : enc (.byteArr n (some c) mn mx) pre v o = .ok b) : ∃ b', b = c.bytes ++ b' := by
  rcases v with x | x | x | x | ⟨x, y⟩ | _ | x | ⟨x, y⟩ <;> simp only [enc] at h <;> (try contradiction)
  split at h
  · contradiction
  · split at h
    · contradiction
    · cases h; exact ⟨x, rfl⟩

theorem startsWith_enc {t : Ty} {den : Den} {code : Nat} (hs : t.startsWith den code = true)
    {pre : Bool} {v : Val} {o : Opts} {b : Bytes} (h : enc t pre v o = .ok b) :
    ∃ b', b = leBytes den.width code ++ b' := by
  rcases startsWith_cases hs with ⟨c, fs, rfl, rfl, rfl⟩ | ⟨n, c, mn, mx, rfl, rfl, rfl⟩ |
    ⟨c, fs, rfl, rfl, rfl⟩ | ⟨n, c, mn, mx, rfl, rfl, rfl⟩ | ⟨c, fx, rfl, rfl, rfl⟩ | ⟨c, fx, rfl, rfl, rfl⟩
  · exact enc_struct_prefix h
  · exact enc_byteArr_prefix h
  · rcases v with x | x | x | x | ⟨x, y⟩ | _ | x | ⟨x, y⟩ <;> simp only [enc] at h <;> (try contradiction)
    simp only [Ty.ptrTarget, if_true] at h
    exact enc_struct_prefix h
  · rcases v with x | x | x | x | ⟨x, y⟩ | _ | x | ⟨x, y⟩ <;> simp only [enc] at h <;> (try contradiction)
    simp only [Ty.ptrTarget, if_true] at h
    exact enc_byteArr_prefix h
  · exact enc_custom_prefix h
  · rcases v with x | x | x | x | ⟨x, y⟩ | _ | x | ⟨x, y⟩ <;> simp only [enc] at h <;> (try contradiction)
    simp only [Ty.ptrTarget, if_true] at h
    exact enc_custom_prefix h

theorem startsWith_code_lt {t : Ty} {den : Den} {code : Nat} (hs : t.startsWith den code = true)
    (hwf : t.wf = true) : code < 256 ^ den.width := by
  rcases startsWith_cases hs with ⟨c, fs, rfl, rfl, rfl⟩ | ⟨n, c, mn, mx, rfl, rfl, rfl⟩ |
    ⟨c, fs, rfl, rfl, rfl⟩ | ⟨n, c, mn, mx, rfl, rfl, rfl⟩ | ⟨c, fx, rfl, rfl, rfl⟩ | ⟨c, fx, rfl, rfl, rfl⟩ <;>
  simp only [Ty.wf, Ty.ptrTarget, codeWf, Code.wf, Bool.and_eq_true, decide_eq_true_eq, Bool.true_and] at hwf
  · exact hwf.1
  · exact hwf
  · exact hwf.1
  · exact hwf
  · exact hwf
  · exact hwf

/-! ## map keys -/

theorem nodupB_iff {α : Type} [BEq α] [LawfulBEq α] (l : List α) : nodupB l = true ↔ l.Nodup := by
  induction l with
  | nil => simp [nodupB]
  | cons a as ih =>
    simp only [nodupB, Bool.and_eq_true, Bool.not_eq_eq_eq_not, Bool.not_true, List.nodup_cons, ih]
    constructor
    · rintro ⟨h1, h2⟩
      refine ⟨?_, h2⟩
      intro hm
      have : as.contains a = true := List.contains_iff_mem.2 hm
      rw [this] at h1; contradiction
    · rintro ⟨h1, h2⟩
      refine ⟨?_, h2⟩
      cases hc : as.contains a with
      | false => rfl
      | true => exact absurd (List.contains_iff_mem.1 hc) h1

theorem canonSeq_false (items : List (Bytes × Val)) : canonSeq false items = items.map (·.2) := rfl

mutual
theorem key_ty : ∀ (t : Ty), t.isKey = true → ∀ (pre : Bool) (v : Val) (o : Opts) (b : Bytes),
    enc t pre v o = .ok b → canon t v o = v
  | .bool, _, _, v, _, _, _ => by cases v <;> simp [canon]
  | .uint _, _, _, v, _, _, _ => by cases v <;> simp [canon]
  | .int _, _, _, v, _, _, _ => by cases v <;> simp [canon]
  | .str _ _ _, _, _, v, _, _, _ => by cases v <;> simp [canon]
  | .byteArr _ _ _ _, _, _, v, _, _, _ => by cases v <;> simp [canon]
  | .custom _ _, _, _, v, _, _, _ => by cases v <;> simp [canon]
  | .array n lp r e, hk, pre, v, o, b, h => by
    rcases v with x | x | x | x | ⟨x, y⟩ | _ | x | ⟨x, y⟩ <;> (try simp [canon])
    simp only [enc] at h
    split at h
    · contradiction
    · simp only [Res.bind_eq_ok, Res.require_eq_ok_iff, exists_and_left, exists_const] at h
      obtain ⟨_, _, _, data, hdata, _⟩ := h
      simp only [Ty.isKey, Bool.and_eq_true, Bool.not_eq_eq_eq_not, Bool.not_true] at hk
      obtain ⟨_, h2⟩ := mapMRes_ok hdata
      simp only [hk.1, canonSeq_false, List.map_map]
      have : ∀ v ∈ x, canon e v o = v := fun v hv => key_ty e hk.2 true v o _ (h2 v hv)
      calc List.map ((fun p => p.2) ∘ fun v => (bytesOf (enc e true v o), canon e v o)) x
          = List.map id x := List.map_congr_left (fun v hv => this v hv)
        _ = x := List.map_id x
  | .struct code fs, hk, pre, v, o, b, h => by
    rcases v with x | x | x | x | ⟨x, y⟩ | _ | x | ⟨x, y⟩ <;> (try simp [canon])
    simp only [enc, Res.bind_eq_ok] at h
    obtain ⟨body, hbody, _⟩ := h
    simp only [Ty.isKey] at hk
    exact key_fields fs hk x o body hbody
  | .float _, hk, _, _, _, _, _ => by simp [Ty.isKey] at hk
  | .bytes _ _ _, hk, _, _, _, _, _ => by simp [Ty.isKey] at hk
  | .u256, hk, _, _, _, _, _ => by simp [Ty.isKey] at hk
  | .time, hk, _, _, _, _, _ => by simp [Ty.isKey] at hk
  | .slice _ _ _, hk, _, _, _, _, _ => by simp [Ty.isKey] at hk
  | .map _ _ _ _, hk, _, _, _, _, _ => by simp [Ty.isKey] at hk
  | .ptr _, hk, _, _, _, _, _ => by simp [Ty.isKey] at hk
  | .iface _ _, hk, _, _, _, _, _ => by simp [Ty.isKey] at hk
theorem key_fields : ∀ (fs : Fields), fs.isKey = true → ∀ (vs : List Val) (o : Opts) (b : Bytes),
    encFields fs vs o = .ok b → canonFields fs vs o = vs
  | .nil, _, vs, _, _, _ => by cases vs <;> simp [canonFields]
  | .cons false t rest, hk, vs, o, b, h => by
    cases vs with
    | nil => simp [canonFields]
    | cons v vs =>
      simp only [encFields, Res.bind_eq_ok] at h
      obtain ⟨b1, h1, b2, h2, _⟩ := h
      simp only [Fields.isKey, Bool.and_eq_true] at hk
      simp [canonFields, key_ty t hk.1 true v o b1 h1, key_fields rest hk.2 vs o b2 h2]
  | .cons true t rest, hk, _, _, _, _ => by simp [Fields.isKey] at hk
  | .emb false fs rest, hk, vs, o, b, h => by
    rcases vs with _ | ⟨v, vs⟩
    · simp [canonFields]
    · rcases v with x | x | x | x | ⟨x, y⟩ | _ | x | ⟨x, y⟩ <;> (try simp only [encFields] at h) <;> (try contradiction)
      simp only [Res.bind_eq_ok] at h
      obtain ⟨b1, h1, b2, h2, _⟩ := h
      simp only [Fields.isKey, Bool.and_eq_true] at hk
      simp [canonFields, key_fields fs hk.1 x o b1 h1, key_fields rest hk.2 vs o b2 h2]
  | .emb true _ _, hk, _, _, _, _ => by simp [Fields.isKey] at hk
end

/-! ## slices and arrays -/

theorem encSeq_elem_bound {lp : LP} {r : Rules} {o : Opts} {data : List Bytes} {b : Bytes}
    (h : encSeq lp r o data = .ok b) : ∀ x ∈ data, x.length ≤ b.length := by
  obtain ⟨p, _, _, _, rfl⟩ := encSeq_ok h
  intro x hx
  have h1 := length_le_flatten hx
  have h2 : (if r.autoSort && r.lex then sortBytes data else data).flatten.length = data.flatten.length := by
    split
    · exact flatten_length_perm (isortBy_perm id data)
    · rfl
  simp only [List.length_append]
  omega

/-- Slices and arrays: everything after the element encodings. -/
theorem coll_roundtrip (lp : LP) (r : Rules) (e : Ty) (hrt : RT e) (o : Opts) (vs : List Val) (data : List Bytes)
    (b : Bytes) (hmust : mustOccurIf o.validation r e vs = .ok ())
    (hdata : mapMRes (fun v => enc e true v o) vs = .ok data) (hseq : encSeq lp r o data = .ok b)
    (hlen : b.length < 2 ^ 32) (rest : Bytes) :
    ∃ w items, readLen lp (b ++ rest) = .ok (vs.length, w) ∧
      (o.validation = true → r.boundsOk vs.length = true) ∧
      decSeqBody (fun b => dec e b o) r o vs.length w (b ++ rest) = .ok (items, b.length) ∧
      mustOccurIf o.validation r e (items.map (·.1)) = .ok () ∧
      items.map (·.1) = canonSeq (r.autoSort && r.lex)
        (vs.map (fun v => (bytesOf (enc e true v o), canon e v o))) := by
  obtain ⟨hd1, hd2⟩ := mapMRes_ok hdata
  let ps := vs.map (fun v => (bytesOf (enc e true v o), canon e v o))
  have hps : ps.map (·.1) = data := by
    rw [hd1]; show List.map _ (List.map _ vs) = _
    rw [List.map_map]; rfl
  have hpsl : ps.length = vs.length := List.length_map _
  rw [← hps] at hseq
  have hbound := encSeq_elem_bound hseq
  have hitem : ∀ p ∈ ps, ∀ rest, dec e (p.1 ++ rest) o = .ok (p.2, p.1.length) := by
    intro p hp rest
    obtain ⟨v, hv, rfl⟩ := List.mem_map.1 hp
    have hl : (bytesOf (enc e true v o)).length ≤ b.length :=
      hbound _ (List.mem_map.2 ⟨_, hp, rfl⟩)
    exact hrt true v o _ (hd2 v hv) (by omega) rest
  obtain ⟨w, hread, hb, hbody⟩ := seq_roundtrip lp r o (fun b => dec e b o) ps b hseq hitem rest
  rw [hpsl] at hread hb hbody
  refine ⟨w, _, hread, hb, hbody, ?_, ?_⟩
  · apply mustOccurIf_perm_canon (o := o) hmust
    rw [List.map_map]
    have h1 : (List.map ((fun x => x.1) ∘ fun p => (p.2, p.1)) (if r.autoSort && r.lex then isortBy (·.1) ps else ps))
        = (if r.autoSort && r.lex then isortBy (·.1) ps else ps).map (·.2) := by
      apply List.map_congr_left; intro p _; rfl
    rw [h1]
    have h2 : (if r.autoSort && r.lex then isortBy (·.1) ps else ps).Perm ps := by
      split
      · exact isortBy_perm _ ps
      · exact List.Perm.refl _
    have h3 : ps.map (·.2) = vs.map (canon e · o) := by
      show List.map _ (List.map _ vs) = _
      rw [List.map_map]; rfl
    rw [← h3]
    exact h2.map _
  · rw [List.map_map]
    unfold canonSeq
    apply List.map_congr_left; intro p _; rfl

/-! ## maps -/

theorem filterMap_congr_mem {α β : Type} {f g : α → Option β} {l : List α} (h : ∀ a ∈ l, f a = g a) :
    l.filterMap f = l.filterMap g := by
  induction l with
  | nil => rfl
  | cons a as ih =>
    simp only [List.filterMap_cons, h a (List.mem_cons_self)]
    rw [ih (fun x hx => h x (List.mem_cons_of_mem a hx))]

theorem optMapM_kvKey {kvs ks : List Val} (h : optMapM kvKey kvs = some ks) :
    ks = kvs.filterMap kvKey ∧ ∀ e ∈ kvs, ∃ a c, e = .kv a c := by
  induction kvs generalizing ks with
  | nil => simp [optMapM] at h; subst h; simp
  | cons e es ih =>
    simp only [optMapM] at h
    split at h
    · rename_i b bs hb hbs
      cases h
      obtain ⟨h1, h2⟩ := ih hbs
      cases e <;> simp only [kvKey] at hb <;> (try contradiction)
      rename_i a c
      cases hb
      constructor
      · simp [kvKey, ← h1]
      · intro e he
        rcases List.mem_cons.1 he with rfl | he'
        · exact ⟨_, _, rfl⟩
        · exact h2 e he'
    · contradiction

theorem mapKeysOk_iff {kvs : List Val} (h : mapKeysOk kvs = true) :
    (kvs.filterMap kvKey).Nodup ∧ ∀ e ∈ kvs, ∃ a c, e = .kv a c := by
  unfold mapKeysOk at h
  split at h
  · rename_i ks hks
    obtain ⟨h1, h2⟩ := optMapM_kvKey hks
    exact ⟨h1 ▸ (nodupB_iff ks).1 h, h2⟩
  · contradiction

theorem encKV_ok {ek ev : Val → Res Bytes} {a c : Val} {x : Bytes} (h : encKV ek ev (.kv a c) = .ok x) :
    ek a = .ok (bytesOf (ek a)) ∧ ev c = .ok (bytesOf (ev c)) ∧ x = bytesOf (ek a) ++ bytesOf (ev c) := by
  simp only [encKV, Res.bind_eq_ok, Res.pure_eq] at h
  obtain ⟨x1, h1, x2, h2, hx⟩ := h
  cases hx
  simp [h1, h2, bytesOf]

/-- Maps: everything after the entry encodings. -/
theorem map_roundtrip (lp : LP) (r : Rules) (k v : Ty) (hk : RT k) (hv : RT v) (hkey : k.isKey = true) (o : Opts) (kvs : List Val) (data : List Bytes) (b : Bytes)
    (hkeys : mapKeysOk kvs = true)
    (hdata : mapMRes (encKV (fun a => enc k true a o) (fun b => enc v true b o)) kvs = .ok data)
    (hseq : encSeq lp r.ordered o data = .ok b) (hlen : b.length < 2 ^ 32) (rest : Bytes) :
    ∃ w items, readLen lp (b ++ rest) = .ok (kvs.length, w) ∧
      decSeqBody (decKV (fun b => dec k b o) (fun b => dec v b o)) r.ordered o kvs.length w (b ++ rest)
        = .ok (items, b.length) ∧
      nodupB (valKeys items) = true ∧
      items.map (·.1) = canonSeq true (kvs.map (canonKV (fun a => bytesOf (enc k true a o))
        (fun b => bytesOf (enc v true b o)) (fun a => canon k a o) (fun b => canon v b o))) := by
  obtain ⟨hnodup, hshape⟩ := mapKeysOk_iff hkeys
  obtain ⟨hd1, hd2⟩ := mapMRes_ok hdata
  let cf := canonKV (fun a => bytesOf (enc k true a o)) (fun b => bytesOf (enc v true b o))
      (fun a => canon k a o) (fun b => canon v b o)
  let ps := kvs.map cf
  have hfacts : ∀ e ∈ kvs, ∃ a c, e = .kv a c ∧ enc k true a o = .ok (bytesOf (enc k true a o)) ∧
      enc v true c o = .ok (bytesOf (enc v true c o)) ∧
      bytesOf (encKV (fun a => enc k true a o) (fun b => enc v true b o) e) = (cf e).1 := by
    intro e he
    obtain ⟨a, c, rfl⟩ := hshape e he
    obtain ⟨h1, h2, h3⟩ := encKV_ok (hd2 _ he)
    exact ⟨a, c, rfl, h1, h2, h3⟩
  have hps : ps.map (·.1) = data := by
    rw [hd1]; show List.map _ (List.map _ kvs) = _
    rw [List.map_map]
    apply List.map_congr_left
    intro e he
    obtain ⟨a, c, rfl, _, _, h3⟩ := hfacts e he
    exact h3.symm
  have hpsl : ps.length = kvs.length := List.length_map _
  rw [← hps] at hseq
  have hbound := encSeq_elem_bound hseq
  have hitem : ∀ p ∈ ps, ∀ rest, decKV (fun b => dec k b o) (fun b => dec v b o) (p.1 ++ rest)
      = .ok (p.2, p.1.length) := by
    intro p hp rest
    obtain ⟨e, he, rfl⟩ := List.mem_map.1 hp
    obtain ⟨a, c, rfl, h1, h2, _⟩ := hfacts e he
    have hl : (cf (.kv a c)).1.length ≤ b.length := hbound _ (List.mem_map.2 ⟨_, hp, rfl⟩)
    simp only [cf, canonKV, List.length_append] at hl ⊢
    have r1 := hk true a o _ h1 (by omega) (bytesOf (enc v true c o) ++ rest)
    have r2 := hv true c o _ h2 (by omega) rest
    simp only [decKV, List.append_assoc, r1, Res.ok_bind, List.drop_left, r2, Res.pure_eq]
  obtain ⟨w, hread, _, hbody⟩ := seq_roundtrip lp r.ordered o _ ps b hseq hitem rest
  rw [hpsl] at hread hbody
  have hsort : (r.ordered.autoSort && r.ordered.lex) = true := by simp [Rules.ordered]
  rw [hsort] at hbody
  simp only [if_true] at hbody
  refine ⟨w, _, hread, hbody, ?_, ?_⟩
  · rw [nodupB_iff]
    have h1 : valKeys ((isortBy (·.1) ps).map (fun p => (p.2, p.1))) = ((isortBy (·.1) ps).map (·.2)).filterMap kvKey := by
      unfold valKeys
      rw [List.filterMap_map, List.filterMap_map]; rfl
    rw [h1]
    have h2 : ((isortBy (·.1) ps).map (·.2)).Perm (ps.map (·.2)) := (isortBy_perm _ ps).map _
    have h3 : (ps.map (·.2)).filterMap kvKey = kvs.filterMap kvKey := by
      show (List.map _ (List.map _ kvs)).filterMap kvKey = _
      rw [List.map_map, List.filterMap_map]
      apply filterMap_congr_mem
      intro e he
      obtain ⟨a, c, rfl, h1, _, _⟩ := hfacts e he
      simp [cf, canonKV, kvKey, key_ty k hkey true a o _ h1]
    exact (h2.filterMap kvKey).nodup_iff.2 (h3 ▸ hnodup)
  · rw [List.map_map]
    unfold canonSeq
    simp only [if_true]
    apply List.map_congr_left; intro p _; rfl

/-! ## the mutual induction -/

/-- Round-trip statement for a field list. -/
def RTF (fs : Fields) : Prop :=
  ∀ (vs : List Val) (o : Opts) (b : Bytes), encFields fs vs o = .ok b → b.length < 2 ^ 32 →
    ∀ rest, decFields fs (b ++ rest) o = .ok (canonFields fs vs o, b.length)

/-- Round-trip statement for the alternatives of an interface with denotation `den`. -/
def RTA (den : Den) (alts : Alts) : Prop :=
  ∀ (code : Nat) (v : Val) (o : Opts) (b : Bytes), encAlts alts code v o = .ok b → b.length < 2 ^ 32 →
    ∀ rest, den.width ≤ b.length ∧ leNat ((b ++ rest).take den.width) = code ∧
      decAlts alts code (b ++ rest) o = .ok (.alt code (canonAlts alts code v o), b.length)

mutual
theorem rt_ty : ∀ (t : Ty), t.wf = true → RT t
  | .bool, _ => rt_bool
  | .uint w, _ => rt_uint w
  | .int w, _ => rt_int w
  | .float w, _ => rt_float w
  | .str lp mn mx, _ => rt_str lp mn mx
  | .bytes lp mn mx, _ => rt_bytes lp mn mx
  | .byteArr n code mn mx, hwf => by
    simp only [Ty.wf] at hwf
    exact rt_byteArr n code mn mx hwf
  | .u256, _ => rt_u256
  | .time, _ => rt_time
  | .custom code fixed, hwf => by
    simp only [Ty.wf] at hwf
    exact rt_custom code fixed hwf
  | .slice lp r e, hwf => by
    intro pre v o b h hlen rest
    simp only [Ty.wf] at hwf
    rcases v with x | x | x | x | ⟨x, y⟩ | _ | x | ⟨x, y⟩ <;> simp only [enc] at h <;> (try contradiction)
    simp only [Res.bind_eq_ok, Res.require_eq_ok_iff, exists_and_left, exists_const] at h
    obtain ⟨_, u, hmust, data, hdata, hseq⟩ := h
    obtain ⟨w, items, hread, _, hbody, hmust', hcanon⟩ :=
      coll_roundtrip lp r e (rt_ty e hwf) o x data b hmust hdata hseq hlen rest
    rw [hcanon] at hmust'
    simp only [dec, hread, Res.ok_bind, hbody, Res.pure_eq, canon, hcanon, hmust']
  | .array n lp r e, hwf => by
    intro pre v o b h hlen rest
    simp only [Ty.wf] at hwf
    rcases v with x | x | x | x | ⟨x, y⟩ | _ | x | ⟨x, y⟩ <;> simp only [enc] at h <;> (try contradiction)
    split at h
    · contradiction
    · rename_i hn
      simp only [Res.bind_eq_ok, Res.require_eq_ok_iff, exists_and_left, exists_const] at h
      obtain ⟨_, u, hmust, data, hdata, hseq⟩ := h
      obtain ⟨w, items, hread, hb, hbody, hmust', hcanon⟩ :=
        coll_roundtrip lp r e (rt_ty e hwf) o x data b hmust hdata hseq hlen rest
      have hn' : x.length = n := by simpa using hn
      have hb' : (!o.validation || r.boundsOk x.length) = true := by
        cases hval : o.validation with
        | false => rfl
        | true => simpa using hb hval
      rw [hn'] at hb' hbody
      rw [hcanon] at hmust'
      simp only [dec, hread, Res.ok_bind, hb', Res.require_true, hn', ne_eq, not_true_eq_false, if_false,
        hbody, Res.pure_eq, canon, hcanon, hmust']
  | .map lp r k v, hwf => by
    intro pre val o b h hlen rest
    simp only [Ty.wf, Bool.and_eq_true] at hwf
    rcases val with x | x | x | x | ⟨x, y⟩ | _ | x | ⟨x, y⟩ <;> simp only [enc] at h <;> (try contradiction)
    split at h
    · contradiction
    · rename_i hkeys
      simp only [Res.bind_eq_ok, Res.require_eq_ok_iff, exists_and_left, exists_const] at h
      obtain ⟨_, data, hdata, hseq⟩ := h
      have hkeys' : mapKeysOk x = true := by simpa using hkeys
      obtain ⟨w, items, hread, hbody, hnodup, hcanon⟩ :=
        map_roundtrip lp r k v (rt_ty k hwf.1.2) (rt_ty v hwf.2) hwf.1.1 o x data b hkeys' hdata hseq hlen rest
      simp only [dec, hread, Res.ok_bind, hbody, hnodup, Res.require_true, Res.pure_eq, canon, hcanon]
  | .struct code fs, hwf => by
    intro pre v o b h hlen rest
    simp only [Ty.wf, Bool.and_eq_true] at hwf
    rcases v with x | x | x | x | ⟨x, y⟩ | _ | x | ⟨x, y⟩ <;> simp only [enc] at h <;> (try contradiction)
    simp only [Res.bind_eq_ok, Res.pure_eq] at h
    obtain ⟨body, hbody, hb⟩ := h
    cases hb
    have hr := readCode_codeBytes hwf.1 (body ++ rest)
    simp only [List.length_append] at hlen
    have hf := rt_fields fs hwf.2 x o body hbody (by omega) rest
    simp only [dec, List.append_assoc, hr, Res.ok_bind, List.drop_left, hf, Res.pure_eq, canon,
      List.length_append]
  | .ptr t, hwf => by
    intro pre v o b h hlen rest
    simp only [Ty.wf, Bool.and_eq_true] at hwf
    rcases v with x | x | x | x | ⟨x, y⟩ | _ | x | ⟨x, y⟩ <;> simp only [enc] at h <;> (try contradiction)
    simp only [hwf.1, if_true] at h
    have := rt_ty t hwf.2 false x o b h hlen rest
    simp only [dec, this, Res.ok_bind, Res.pure_eq, canon]
  | .iface den alts, hwf => by
    intro pre v o b h hlen rest
    simp only [Ty.wf, Bool.and_eq_true] at hwf
    rcases v with x | x | x | x | ⟨x, y⟩ | _ | x | ⟨x, y⟩ <;> simp only [enc] at h <;> (try contradiction)
    obtain ⟨h1, h2, h3⟩ := rt_alts alts den hwf.1 x y o b h hlen rest
    have : ¬ (b ++ rest).length < den.width := by simp only [List.length_append]; omega
    simp only [dec, this, if_false, h2, h3, canon]
theorem rt_fields : ∀ (fs : Fields), fs.wf = true → RTF fs
  | .nil, _ => by
    intro vs o b h _ rest
    cases vs <;> simp only [encFields] at h <;> (try contradiction)
    cases h
    simp [decFields, canonFields]
  | .cons false t rest', hwf => by
    intro vs o b h hlen rest
    simp only [Fields.wf, Bool.and_eq_true] at hwf
    rcases vs with _ | ⟨v, vs⟩ <;> simp only [encFields] at h <;> (try contradiction)
    simp only [Res.bind_eq_ok, Res.pure_eq] at h
    obtain ⟨b1, h1, b2, h2, hb⟩ := h
    cases hb
    simp only [List.length_append] at hlen
    have r1 := rt_ty t hwf.1 true v o b1 h1 (by omega) (b2 ++ rest)
    have r2 := rt_fields rest' hwf.2 vs o b2 h2 (by omega) rest
    simp only [decFields, List.append_assoc, r1, Res.ok_bind, List.drop_left, r2, Res.pure_eq, canonFields,
      List.length_append]
  | .cons true t rest', hwf => by
    intro vs o b h hlen rest
    simp only [Fields.wf, Bool.and_eq_true] at hwf
    rcases vs with _ | ⟨v, vs⟩ <;> simp only [encFields] at h <;> (try contradiction)
    simp only [Res.bind_eq_ok, Res.pure_eq] at h
    obtain ⟨b1, h1, b2, h2, hb⟩ := h
    cases hb
    simp only [List.length_append] at hlen
    have r2 := rt_fields rest' hwf.2 vs o b2 h2 (by omega) rest
    have hsome : ∀ fb, enc t true v o = .ok fb → b1 = leBytes 4 fb.length ++ fb →
        decFields (.cons true t rest') ((b1 ++ b2) ++ rest) o
          = .ok (canonFields (.cons true t rest') (v :: vs) o, (b1 ++ b2).length) := by
      intro fb hfb hb1
      subst hb1
      simp only [List.length_append, leBytes_length] at hlen
      have hne := ne_ty t hwf.1.1.2 true v o fb hfb
      have hpos : fb.length ≠ 0 := fun hc => hne (List.length_eq_zero_iff.1 hc)
      have hlt : fb.length < 256 ^ 4 := by
        have : (256 : Nat) ^ 4 = 2 ^ 32 := by decide
        omega
      have r1 := rt_ty t hwf.1.2 true v o fb hfb (by omega) (b2 ++ rest)
      have hd : List.drop (4 + fb.length) (leBytes 4 fb.length ++ (fb ++ (b2 ++ rest))) = b2 ++ rest := by
        rw [← List.append_assoc, List.drop_left' (by simp)]
      simp only [decFields, List.append_assoc, if_false, List.take_left' (leBytes_length 4 fb.length),
        leNat_leBytes_of_lt hlt, beq_iff_eq, hpos, List.drop_left' (leBytes_length 4 fb.length), r1, Res.ok_bind,
        ne_eq, not_true_eq_false, hd, r2, Res.pure_eq, canonFields, List.length_append, leBytes_length]
      rw [if_neg (by omega), Nat.add_assoc]
    rcases v with x | x | x | x | ⟨x, y⟩ | _ | x | ⟨x, y⟩
    case nil =>
      cases h1
      have hc : canon t .nil o = .nil := by cases t <;> simp [canon]
      simp only [decFields, List.append_assoc, List.take_left' (leBytes_length 4 0),
        leNat_leBytes_of_lt (by decide : 0 < 256 ^ 4), beq_self_eq_true, if_true,
        List.drop_left' (leBytes_length 4 0), r2, Res.ok_bind, Res.pure_eq, canonFields, hc,
        List.length_append, leBytes_length]
      rw [if_neg (by omega)]
    all_goals
      simp only [Res.bind_eq_ok] at h1
      obtain ⟨fb, hfb, hb1⟩ := h1
      cases hb1
      exact hsome fb hfb rfl
  | .emb false fs rest', hwf => by
    intro vs o b h hlen rest
    simp only [Fields.wf, Bool.and_eq_true] at hwf
    rcases vs with _ | ⟨v, vs⟩ <;> (try simp only [encFields] at h) <;> (try contradiction)
    rcases v with x | x | x | x | ⟨x, y⟩ | _ | x | ⟨x, y⟩ <;> (try simp only [encFields] at h) <;> (try contradiction)
    simp only [Res.bind_eq_ok, Res.pure_eq] at h
    obtain ⟨b1, h1, b2, h2, hb⟩ := h
    cases hb
    simp only [List.length_append] at hlen
    have r1 := rt_fields fs hwf.1 x o b1 h1 (by omega) (b2 ++ rest)
    have r2 := rt_fields rest' hwf.2 vs o b2 h2 (by omega) rest
    simp [decFields, List.append_assoc, r1, r2, canonFields]
  | .emb true fs rest', hwf => by
    intro vs o b h hlen rest
    simp only [Fields.wf, Bool.and_eq_true] at hwf
    rcases vs with _ | ⟨v, vs⟩ <;> (try simp only [encFields] at h) <;> (try contradiction)
    rcases v with x | x | x | x | ⟨x, y⟩ | _ | x | ⟨x, y⟩ <;> (try simp only [encFields] at h) <;> (try contradiction)
    rcases x with x | x | x | x | ⟨x, y⟩ | _ | x | ⟨x, y⟩ <;> (try simp only [encFields] at h) <;> (try contradiction)
    simp only [Res.bind_eq_ok, Res.pure_eq] at h
    obtain ⟨b1, h1, b2, h2, hb⟩ := h
    cases hb
    simp only [List.length_append] at hlen
    have r1 := rt_fields fs hwf.1 x o b1 h1 (by omega) (b2 ++ rest)
    have r2 := rt_fields rest' hwf.2 vs o b2 h2 (by omega) rest
    simp [decFields, List.append_assoc, r1, r2, canonFields]
theorem rt_alts : ∀ (alts : Alts) (den : Den), alts.wf den = true → RTA den alts
  | .nil, _, _ => by
    intro code v o b h _ rest
    simp [encAlts] at h
  | .cons c t rest', den, hwf => by
    intro code v o b h hlen rest
    simp only [Alts.wf, Bool.and_eq_true] at hwf
    simp only [encAlts] at h
    split at h
    · rename_i hc
      have hc' : c = code := by simpa using hc
      subst hc'
      obtain ⟨b', rfl⟩ := startsWith_enc hwf.1.1 h
      have hlt := startsWith_code_lt hwf.1.1 hwf.1.2
      have r1 := rt_ty t hwf.1.2 true v o _ h hlen rest
      refine ⟨by simp, ?_, ?_⟩
      · simp [List.append_assoc, leNat_leBytes_of_lt hlt]
      · simp only [decAlts, hc, if_true, r1, Res.ok_bind, Res.pure_eq, canonAlts]
    · rename_i hc
      obtain ⟨h1, h2, h3⟩ := rt_alts rest' den hwf.2 code v o b h hlen rest
      exact ⟨h1, h2, by simp only [decAlts, hc, h3, canonAlts]; rfl⟩
end

/-! ## permutations of map entries -/

theorem mapMRes_perm {α β : Type} {f : α → Res β} {l l' : List α} (hp : l.Perm l') :
    ∀ {data : List β}, mapMRes f l = .ok data → ∃ data', mapMRes f l' = .ok data' ∧ data.Perm data' := by
  induction hp with
  | nil => intro data h; exact ⟨data, h, List.Perm.refl _⟩
  | cons a _ ih =>
    intro data h
    simp only [mapMRes, Res.bind_eq_ok, Res.pure_eq] at h
    obtain ⟨b, hb, bs, hbs, hc⟩ := h
    cases hc
    obtain ⟨bs', hbs', hperm⟩ := ih hbs
    exact ⟨b :: bs', by simp [mapMRes, hb, hbs'], List.Perm.cons b hperm⟩
  | swap a a' l =>
    intro data h
    simp only [mapMRes, Res.bind_eq_ok, Res.pure_eq] at h
    obtain ⟨b, hb, bs, ⟨b', hb', bs', hbs', hc'⟩, hc⟩ := h
    cases hc'; cases hc
    exact ⟨b' :: b :: bs', by simp [mapMRes, hb, hb', hbs'], List.Perm.swap b' b bs'⟩
  | trans _ _ ih1 ih2 =>
    intro data h
    obtain ⟨d1, h1, p1⟩ := ih1 h
    obtain ⟨d2, h2, p2⟩ := ih2 h1
    exact ⟨d2, h2, p1.trans p2⟩

theorem optMapM_some_of_shape {kvs : List Val} (h : ∀ e ∈ kvs, ∃ a c, e = .kv a c) :
    optMapM kvKey kvs = some (kvs.filterMap kvKey) := by
  induction kvs with
  | nil => rfl
  | cons e es ih =>
    obtain ⟨a, c, rfl⟩ := h _ (List.mem_cons_self)
    simp [optMapM, kvKey, ih (fun x hx => h x (List.mem_cons_of_mem _ hx))]

theorem mapKeysOk_perm {l l' : List Val} (hp : l.Perm l') (h : mapKeysOk l = true) : mapKeysOk l' = true := by
  obtain ⟨hnd, hshape⟩ := mapKeysOk_iff h
  have hshape' : ∀ e ∈ l', ∃ a c, e = .kv a c := fun e he => hshape e (hp.mem_iff.2 he)
  unfold mapKeysOk
  rw [optMapM_some_of_shape hshape']
  simp only
  rw [nodupB_iff]
  exact (hp.filterMap kvKey).nodup_iff.1 hnd

theorem encSeq_ordered_perm {lp : LP} {r : Rules} {o : Opts} {data data' : List Bytes} (hp : data.Perm data') :
    encSeq lp r.ordered o data = encSeq lp r.ordered o data' := by
  unfold encSeq
  have h1 : data.length = data'.length := hp.length_eq
  have h2 : (r.ordered.autoSort && r.ordered.lex) = true := by simp [Rules.ordered]
  simp only [h1, h2, if_true, sortBytes_perm_eq hp]

end Hive.Serix
