import Hive.Model.SeqConc
import Hive.Proofs.Seq
/-! Invariant of the protocol model of concurrent callers on one `Sequence`: the mutex-protected
sections exclude each other, and the ghost history of linearised calls, crashes and restarts is a
run of the sequential machine `Hive.Seq.step` ending in the state at the last linearisation point. -/
namespace Hive.Seq.Conc
open Hive.Conc Hive.Seq

/-! ### the sequential machine: runs compose -/

theorem run_append (s : St) (a b : List Op) :
    run s (a ++ b) = ((run (run s a).1 b).1, (run s a).2 ++ (run (run s a).1 b).2) := by
  induction a generalizing s with
  | nil => simp [run]
  | cons x xs ih => simp [run, ih]

theorem run_fst' (s : St) (ops : List Op) : (run s ops).1 = final s ops := by
  induction ops generalizing s with
  | nil => rfl
  | cons op ops ih => simp [run, final, ih]

theorem run_snoc {s0 base : St} {ops : List Op} {outs : List Out} (h : run s0 ops = (base, outs)) (op : Op) :
    run s0 (ops ++ [op]) = ((step base op).1, outs ++ [(step base op).2]) := by
  rw [run_append, h]; simp [run]

theorem step_crash_idle (b : St) : (step b (.crash .idle)).1 = abandon b := by
  cases hobj : b.obj <;> simp [step, hobj, abandon]

theorem abandon_idem (s : St) : abandon (abandon s) = abandon s := by
  cases hobj : s.obj <;> simp [abandon, hobj]

/-! ### what holds inside the mutex-protected section, per program point -/

def PcOk (sh : Shared) (id : Nat) : Pc → Prop
  | .idle => True
  | .nTest => sh.st = sh.base ∧ sh.cp = .idle
  | .uGet => sh.st = sh.base ∧ sh.cp = .idle ∧ ∃ o, sh.base.obj = some o ∧ hasLease o = false
  | .uNext m =>
    sh.st = sh.base ∧ sh.cp = .idle ∧ m = mark sh.base ∧ ∃ o, sh.base.obj = some o ∧ hasLease o = false
  | .uSet =>
    sh.cp = .idle ∧ ∃ o, sh.base.obj = some o ∧ hasLease o = false ∧ lease (mark sh.base) o.interval ≠ 0 ∧
      sh.st = { sh.base with obj := some { o with next := mark sh.base } }
  | .uRes r =>
    sh.cp = .nextWrite ∧ ∃ o, sh.base.obj = some o ∧ hasLease o = false ∧ lease (mark sh.base) o.interval ≠ 0 ∧
      r = mark sh.base + lease (mark sh.base) o.interval ∧
      sh.st = { sh.base with store := some (mark sh.base + lease (mark sh.base) o.interval),
                             obj := some { o with next := mark sh.base } }
  | .nHand =>
    (sh.st = sh.base ∧ sh.cp = .idle ∧ ∃ o, sh.base.obj = some o ∧ hasLease o = true) ∨
    (sh.cp = .nextWrite ∧ ∃ o, sh.base.obj = some o ∧ hasLease o = false ∧ lease (mark sh.base) o.interval ≠ 0 ∧
      sh.st = { sh.base with store := some (mark sh.base + lease (mark sh.base) o.interval),
                             obj := some { o with next := mark sh.base,
                                                  reserved := mark sh.base + lease (mark sh.base) o.interval } })
  | .rTest => sh.st = sh.base ∧ sh.cp = .idle
  | .rSet => sh.st = sh.base ∧ sh.cp = .idle ∧ ∃ o, sh.base.obj = some o ∧ hasLease o = true
  | .rRes =>
    sh.cp = .relWrite ∧ ∃ o, sh.base.obj = some o ∧ hasLease o = true ∧
      sh.st = { sh.base with store := some o.next }
  | .unlock a => sh.st = sh.base ∧ sh.cp = .idle ∧ ∃ op, sh.hist.getLast? = some (some id, op, a)

/-- Goroutines of a future generation have not started; a live goroutine inside a method holds the
mutex and the concrete state is where its program point says. -/
def ThreadOk (sh : Shared) : Thread → Prop
  | .env _ => True
  | .gor g =>
    (sh.epoch < g.epoch → g.pc = .idle) ∧
    (g.epoch = sh.epoch → g.pc.inside = true → sh.holder = some g.id ∧ PcOk sh g.id g.pc)

structure Inv (s0 : St) (c : Cfg Shared Thread) : Prop where
  cnt : c.2.countP (pIn c.1.epoch) = if c.1.holder.isSome then 1 else 0
  run : Seq.run s0 (histOps c.1.hist) = (c.1.base, histOuts c.1.hist)
  wf : ∀ op ∈ histOps c.1.hist, op.wf
  quiet : c.1.holder = none → c.1.st = c.1.base ∧ c.1.cp = .idle
  lognums : c.1.base.returned = (c.1.log.map (·.2)).reverse ++ s0.returned
  threads : ∀ t ∈ c.2, ThreadOk c.1 t

/-! ### list bookkeeping -/

theorem mem_mid {α : Type} {pre post : List α} {t u : α} (h : u ∈ pre ++ t :: post) :
    u = t ∨ u ∈ pre ∨ u ∈ post := by
  simp only [List.mem_append, List.mem_cons] at h
  rcases h with h | h | h
  · exact Or.inr (Or.inl h)
  · exact Or.inl h
  · exact Or.inr (Or.inr h)

theorem mem_mid' {α : Type} {pre post : List α} {t u : α} (h : u ∈ pre ∨ u ∈ post) : u ∈ pre ++ t :: post := by
  simp only [List.mem_append, List.mem_cons]
  rcases h with h | h
  · exact Or.inl h
  · exact Or.inr (Or.inr h)

/-- If the count of `p` is no more than what the middle thread contributes, nobody else satisfies `p`. -/
theorem others_out {p : Thread → Bool} {pre post : List Thread} {t : Thread}
    (hc : (pre ++ t :: post).countP p ≤ if p t then 1 else 0) :
    ∀ u, u ∈ pre ∨ u ∈ post → p u = false := by
  rw [countP_mid] at hc
  have hpre : pre.countP p = 0 := by omega
  have hpost : post.countP p = 0 := by omega
  intro u hu
  rcases hu with hu | hu
  · have := (List.countP_eq_zero.mp hpre) u hu; simpa using this
  · have := (List.countP_eq_zero.mp hpost) u hu; simpa using this

theorem count_swap (p : Thread → Bool) (pre post : List Thread) (t t' : Thread) :
    (pre ++ t' :: post).countP p + (if p t then 1 else 0) =
      (pre ++ t :: post).countP p + (if p t' then 1 else 0) := by
  rw [countP_mid, countP_mid]; omega

theorem pIn_gor (e : Nat) (g : Gor) (he : g.epoch = e) : pIn e (.gor g) = g.pc.inside := by
  simp [pIn, he]

theorem threadOk_other {s s' : Shared} {u : Thread} (he : s'.epoch = s.epoch) (h : ThreadOk s u)
    (hout : pIn s.epoch u = false) : ThreadOk s' u := by
  cases u with
  | env rs => trivial
  | gor g =>
    refine ⟨by rw [he]; exact h.1, fun hep hin => ?_⟩
    rw [he] at hep
    rw [pIn_gor _ _ hep, hin] at hout
    cases hout

/-! ### micro-steps of the goroutine holding the mutex -/

/-- A step that stays inside the section. -/
theorem inv_holder {s0 : St} {s s' : Shared} {pre post : List Thread} {g g' : Gor}
    (hi : Inv s0 (s, pre ++ .gor g :: post))
    (hep : g.epoch = s.epoch) (hin : g.pc.inside = true)
    (hep' : g'.epoch = g.epoch) (hid : g'.id = g.id) {pc' : Pc} (hpc' : g'.pc = pc') (hin' : pc'.inside = true)
    (he : s'.epoch = s.epoch) (hh : s'.holder = s.holder)
    (hrun : Seq.run s0 (histOps s'.hist) = (s'.base, histOuts s'.hist))
    (hwf : ∀ op ∈ histOps s'.hist, op.wf)
    (hlog : s'.base.returned = (s'.log.map (·.2)).reverse ++ s0.returned)
    (hok : PcOk s' g.id pc') : Inv s0 (s', pre ++ .gor g' :: post) := by
  subst hpc'
  rw [← hid] at hok
  have hme := (hi.threads (.gor g) (by simp)).2 hep hin
  have hc : (pre ++ .gor g :: post).countP (pIn s.epoch) = if s.holder.isSome then 1 else 0 := hi.cnt
  have hp : pIn s.epoch (.gor g) = true := by rw [pIn_gor _ _ hep]; exact hin
  have hp' : pIn s.epoch (.gor g') = true := by rw [pIn_gor _ _ (hep'.trans hep)]; exact hin'
  have hsw := count_swap (pIn s.epoch) pre post (.gor g) (.gor g')
  rw [hp, hp'] at hsw
  have hout := others_out (p := pIn s.epoch) (pre := pre) (post := post) (t := .gor g)
    (by rw [hc, hp]; split <;> simp)
  constructor
  · show (pre ++ .gor g' :: post).countP (pIn s'.epoch) = if s'.holder.isSome then 1 else 0
    rw [he, hh, ← hc]; omega
  · exact hrun
  · exact hwf
  · intro h; rw [hh, hme.1] at h; cases h
  · exact hlog
  · intro u hu
    rcases mem_mid hu with rfl | hu
    · refine ⟨fun h => ?_, fun _ _ => ⟨?_, hok⟩⟩
      · rw [he, hep', hep] at h; exact absurd h (Nat.lt_irrefl _)
      · rw [hh, hid]; exact hme.1
    · exact threadOk_other he (hi.threads u (mem_mid' hu)) (hout u hu)

/-- `Lock`: the section is entered; the state is the quiescent one. -/
theorem inv_acquire {s0 : St} {s : Shared} {pre post : List Thread} {g : Gor} (c : Call)
    (hi : Inv s0 (s, pre ++ .gor g :: post)) (hep : g.epoch = s.epoch) (hpc : g.pc = .idle)
    (hh : s.holder = none) :
    Inv s0 ({ s with holder := some g.id }, pre ++ .gor { g with pc := entry c } :: post) := by
  have hc : (pre ++ .gor g :: post).countP (pIn s.epoch) = if s.holder.isSome then 1 else 0 := hi.cnt
  have hp : pIn s.epoch (.gor g) = false := by rw [pIn_gor _ _ hep, hpc]; rfl
  have hp' : pIn s.epoch (.gor { g with pc := entry c }) = true := by
    rw [pIn_gor s.epoch { g with pc := entry c } hep]; cases c <;> rfl
  have hsw := count_swap (pIn s.epoch) pre post (.gor g) (.gor { g with pc := entry c })
  rw [hp, hp'] at hsw
  rw [hh] at hc
  have hout := others_out (p := pIn s.epoch) (pre := pre) (post := post) (t := .gor g)
    (by rw [hc]; simp)
  have hq := hi.quiet hh
  constructor
  · show (pre ++ _ :: post).countP (pIn s.epoch) = if (some g.id).isSome then 1 else 0
    simp only [Option.isSome_none, Bool.false_eq_true, if_false, if_true, Nat.add_zero] at hc hsw
    simp only [Option.isSome_some, if_true]; omega
  · exact hi.run
  · exact hi.wf
  · intro h; cases h
  · exact hi.lognums
  · intro u hu
    rcases mem_mid hu with rfl | hu
    · refine ⟨fun h => ?_, fun _ _ => ⟨rfl, ?_⟩⟩
      · have : s.epoch < g.epoch := h
        rw [hep] at this; exact absurd this (Nat.lt_irrefl _)
      · cases c <;> exact hq
    · exact threadOk_other (s := s) rfl (hi.threads u (mem_mid' hu)) (hout u hu)

/-- The deferred `Unlock`: the section is left in a quiescent state. -/
theorem inv_unlock {s0 : St} {s : Shared} {pre post : List Thread} {g g' : Gor} (a : Out)
    (hi : Inv s0 (s, pre ++ .gor g :: post)) (hep : g.epoch = s.epoch) (hpc : g.pc = .unlock a)
    (hep' : g'.epoch = g.epoch) (hpc' : g'.pc = .idle) :
    Inv s0 ({ s with holder := none }, pre ++ .gor g' :: post) := by
  have hin : g.pc.inside = true := by rw [hpc]; rfl
  have hme := (hi.threads (.gor g) (by simp)).2 hep hin
  rw [hpc] at hme
  obtain ⟨hhold, hst, hcp, _⟩ := hme
  have hc : (pre ++ .gor g :: post).countP (pIn s.epoch) = if s.holder.isSome then 1 else 0 := hi.cnt
  have hp : pIn s.epoch (.gor g) = true := by rw [pIn_gor _ _ hep]; exact hin
  have hp' : pIn s.epoch (.gor g') = false := by rw [pIn_gor _ _ (hep'.trans hep), hpc']; rfl
  have hsw := count_swap (pIn s.epoch) pre post (.gor g) (.gor g')
  rw [hp, hp'] at hsw
  have hout := others_out (p := pIn s.epoch) (pre := pre) (post := post) (t := .gor g)
    (by rw [hc, hp]; split <;> simp)
  rw [hhold] at hc
  constructor
  · show (pre ++ .gor g' :: post).countP (pIn s.epoch) = if (none : Option Nat).isSome then 1 else 0
    simp only [Option.isSome_some, Bool.false_eq_true, if_false, if_true, Nat.add_zero] at hc hsw
    simp only [Option.isSome_none, Bool.false_eq_true, if_false]; omega
  · exact hi.run
  · exact hi.wf
  · intro _; exact ⟨hst, hcp⟩
  · exact hi.lognums
  · intro u hu
    rcases mem_mid hu with rfl | hu
    · refine ⟨fun _ => hpc', fun _ h => ?_⟩
      rw [hpc'] at h; cases h
    · exact threadOk_other (s := s) rfl (hi.threads u (mem_mid' hu)) (hout u hu)

/-! ### linearisation points -/

theorem hist_snoc (h : List (Option Nat × Op × Out)) (who : Option Nat) (op : Op) (a : Out) :
    histOps (h ++ [(who, op, a)]) = histOps h ++ [op] ∧ histOuts (h ++ [(who, op, a)]) = histOuts h ++ [a] := by
  simp [histOps, histOuts]

/-- Appending a call whose concrete effect and answer are the sequential step on `base`. -/
theorem run_lin {s0 base st' : St} {h : List (Option Nat × Op × Out)} (who : Option Nat) {op : Op} {a : Out}
    (hr : Seq.run s0 (histOps h) = (base, histOuts h)) (hs : step base op = (st', a)) :
    Seq.run s0 (histOps (h ++ [(who, op, a)])) = (st', histOuts (h ++ [(who, op, a)])) := by
  rw [(hist_snoc h who op a).1, (hist_snoc h who op a).2, run_snoc hr op, hs]

theorem wf_lin {h : List (Option Nat × Op × Out)} (who : Option Nat) {op : Op} (a : Out)
    (hw : ∀ o ∈ histOps h, o.wf) (hop : op.wf) : ∀ o ∈ histOps (h ++ [(who, op, a)]), o.wf := by
  intro o ho
  rw [(hist_snoc h who op a).1] at ho
  simp only [List.mem_append, List.mem_singleton] at ho
  rcases ho with ho | rfl
  · exact hw o ho
  · exact hop

theorem getLast_snoc (h : List (Option Nat × Op × Out)) (x : Option Nat × Op × Out) :
    (h ++ [x]).getLast? = some x := by simp

end Hive.Seq.Conc
