import Hive.Proofs.ReactiveInv2Step
/-!
# Layer 3 of the C13 invariant: what has been delivered (Appendix F of DESIGN.md)

Ghost `since c` = the history entries (state before, note, state after) of all updates since
callback `c` was registered; `d c` = how many of them were delivered to it.

* the notes in `c`'s log are the initial note (once the initial phase is over) followed by the
  first `d c` entries of `since c`, in order;
* `since c` is a chain of states from the state at registration to the current state, and each
  entry was produced by a write operation;
* a writer that still has `c` in its snapshot is about to deliver exactly the one entry `c` has not
  seen (`since.drop d = [e]`);
* a listed callback that is in no writer's snapshot has seen everything (`d = since.length`).
-/
namespace Hive.Reactive
open Hive.Conc

variable {S N : Type}

/-- The part of the log that stems from the initial delivery. -/
def iniPart (cb : Cb S N) : List N := if cb.iniDone then cb.ini.toList else []

/-- `l` leads from state `a` to state `b`. -/
def linked : S → List (Entry S N) → S → Prop
  | a, [], b => a = b
  | a, e :: r, b => e.before = a ∧ linked e.after r b

theorem linked_append {a b : S} {l : List (Entry S N)} {e : Entry S N} (h : linked a l b) (he : e.before = b) :
    linked a (l ++ [e]) e.after := by
  induction l generalizing a with
  | nil => simp only [linked] at h; subst h; exact ⟨he, rfl⟩
  | cons x xs ih => exact ⟨h.1, ih h.2⟩

theorem drop_one {α : Type} {l : List α} {d : Nat} {e : α} (h : l.drop d = [e]) :
    l.length = d + 1 ∧ l.take (d + 1) = l.take d ++ [e] := by
  have hlen : (l.drop d).length = 1 := by rw [h]; rfl
  rw [List.length_drop] at hlen
  have hl : l.length = d + 1 := by omega
  refine ⟨hl, ?_⟩
  rw [List.take_of_length_le (by omega)]
  conv => lhs; rw [← List.take_append_drop d l, h]

structure Cb3 (o : Obj S N) (sh : Sh S N) (c : Nat) : Prop where
  log : notes (sh.cbs c).evs = iniPart (sh.cbs c) ++ ((sh.cbs c).since.take (sh.cbs c).d).map (·.note)
  dLe : (sh.cbs c).d ≤ (sh.cbs c).since.length
  chain : c < sh.ncb → linked (sh.cbs c).s0 (sh.cbs c).since sh.st
  upd : ∀ e ∈ (sh.cbs c).since, ∃ w, o.upd e.before w = .change e.after e.note
  iniOk : c < sh.ncb → ∃ flag, (sh.cbs c).ini = o.ini (sh.cbs c).s0 flag

structure Th3 (sh : Sh S N) {W : Type} (t : Th W N) : Prop where
  pend : ∀ c ∈ todo t, ∃ e, (sh.cbs c).since.drop (sh.cbs c).d = [e] ∧ tnote t = some e.note

structure Inv3 (o : Obj S N) (cfg : Cfg (Sh S N) (Th o.WOp N)) : Prop where
  cb : ∀ c, Cb3 o cfg.1 c
  thr : ∀ t ∈ cfg.2, Th3 cfg.1 t
  caughtUp : ∀ c ∈ cfg.1.listed, (∀ t ∈ cfg.2, c ∉ todo t) → (cfg.1.cbs c).d = (cfg.1.cbs c).since.length

theorem th3_idle (sh : Sh S N) {W : Type} (sc : List (Op W)) : Th3 sh ({ pc := .idle, script := sc } : Th W N) := by
  constructor; simp [todo]

theorem todo_nil_of_not_inU {W : Type} (u : Th W N) (h : inU u = false) : todo u = [] := by
  cases hl : todo u with
  | nil => rfl
  | cons c r =>
    have := inU_of_todo u c (by simp [hl])
    rw [h] at this; cases this

theorem inv3_init (o : Obj S N) (cfg : Cfg (Sh S N) (Th o.WOp N)) (h : Init o cfg) : Inv3 o cfg := by
  obtain ⟨sh, ts⟩ := cfg
  obtain ⟨rfl, hidle⟩ := h
  constructor
  · intro c
    constructor <;> simp [sh0, notes, iniPart]
  · intro t ht
    have := hidle t ht
    obtain ⟨pc, sc⟩ := t
    simp only at this; subst this
    exact th3_idle _ sc
  · simp [sh0]

/-- Frame for the per-thread part. -/
theorem th3_frame {sh sh' : Sh S N} {W : Type} {u : Th W N} (h : Th3 sh u)
    (hs : ∀ c ∈ todo u, (sh'.cbs c).since = (sh.cbs c).since ∧ (sh'.cbs c).d = (sh.cbs c).d) : Th3 sh' u := by
  constructor
  intro c hc
  obtain ⟨h1, h2⟩ := hs c hc
  rw [h1, h2]; exact h.pend c hc

/-- Frame for the per-callback part: nothing it mentions changed. -/
theorem cb3_frame {o : Obj S N} {sh sh' : Sh S N} {c : Nat} (h : Cb3 o sh c) (hst : sh'.st = sh.st)
    (hncb : c < sh'.ncb → c < sh.ncb)
    (hevs : notes (sh'.cbs c).evs = notes (sh.cbs c).evs) (hini : (sh'.cbs c).ini = (sh.cbs c).ini)
    (hdone : (sh'.cbs c).iniDone = (sh.cbs c).iniDone) (hsince : (sh'.cbs c).since = (sh.cbs c).since)
    (hd : (sh'.cbs c).d = (sh.cbs c).d) (hs0 : (sh'.cbs c).s0 = (sh.cbs c).s0) : Cb3 o sh' c := by
  constructor
  · rw [hevs, hsince, hd]
    have : iniPart (sh'.cbs c) = iniPart (sh.cbs c) := by simp [iniPart, hini, hdone]
    rw [this]; exact h.log
  · rw [hsince, hd]; exact h.dLe
  · intro hc; rw [hsince, hs0, hst]; exact h.chain (hncb hc)
  · rw [hsince]; exact h.upd
  · intro hc; rw [hini, hs0]; exact h.iniOk (hncb hc)

theorem cb3_setCb_ne {o : Obj S N} {sh : Sh S N} {c c0 : Nat} {x : Cb S N} (h : Cb3 o sh c) (hne : c ≠ c0) :
    Cb3 o (setCb sh c0 x) c := by
  have : (setCb sh c0 x).cbs c = sh.cbs c := by simp [setCb_cbs, hne]
  exact cb3_frame h rfl (fun hc => hc) (by rw [this]) (by rw [this]) (by rw [this]) (by rw [this]) (by rw [this])
    (by rw [this])

/-- Frame for `caughtUp`: the stepping thread's snapshot did not shrink, nothing was delivered. -/
theorem caught_frame {sh sh' : Sh S N} {W : Type} {pre post : List (Th W N)} {t t' : Th W N}
    (h : ∀ c ∈ sh.listed, (∀ u ∈ pre ++ t :: post, c ∉ todo u) → (sh.cbs c).d = (sh.cbs c).since.length)
    (hl : ∀ c ∈ sh'.listed, c ∈ sh.listed) (htodo : ∀ c, c ∈ todo t → c ∈ todo t')
    (hcb : ∀ c ∈ sh'.listed, (sh'.cbs c).d = (sh.cbs c).d ∧ (sh'.cbs c).since = (sh.cbs c).since) :
    ∀ c ∈ sh'.listed, (∀ u ∈ pre ++ t' :: post, c ∉ todo u) → (sh'.cbs c).d = (sh'.cbs c).since.length := by
  intro c hc hall
  rw [forall_mid] at hall
  obtain ⟨h1, h2⟩ := hcb c hc
  rw [h1, h2]
  apply h c (hl c hc)
  rw [forall_mid]
  exact ⟨fun hin => hall.1 (htodo c hin), hall.2⟩

end Hive.Reactive
