import Hive.Proofs.C12bSubMgrInv
/-! The subscription limit bounds what a client can hold: an invariant over every reachable state. -/
namespace Hive.C12b

namespace AMap
variable {β : Type}

theorem length_set_of_none (m : AMap β) (k : Nat) (v : β) (h : m.get k = none) :
    (m.set k v).length = m.length + 1 := by
  induction m with
  | nil => rfl
  | cons p m ih =>
    obtain ⟨k', v'⟩ := p
    simp only [get] at h
    by_cases e : k' = k
    · simp [e] at h
    · simp only [e, if_false] at h
      simp [set, e, ih h]

theorem length_set_of_some (m : AMap β) (k : Nat) (v old : β) (h : m.get k = some old) :
    (m.set k v).length = m.length := by
  induction m with
  | nil => simp [get] at h
  | cons p m ih =>
    obtain ⟨k', v'⟩ := p
    simp only [get] at h
    by_cases e : k' = k
    · simp [set, e]
    · simp only [e, if_false] at h
      simp [set, e, ih h]

theorem length_del_le (m : AMap β) (k : Nat) : (m.del k).length ≤ m.length := by
  induction m with
  | nil => exact Nat.le_refl _
  | cons p m ih =>
    obtain ⟨k', v'⟩ := p
    by_cases e : k' = k
    · simp only [del, e, if_true, List.length_cons]; omega
    · simp only [del, e, if_false, List.length_cons]; omega

end AMap

namespace SM
open AMap

/-- With the limit switched on, a connected client holds nothing or stays strictly below the limit
(at most `limit − 1` distinct topics; nothing at all for a limit of 1 or a negative limit). -/
def Bounded (s : St) : Prop :=
  ∀ c m, s.subs.get c = some m → s.limit ≠ 0 → m = [] ∨ (m.length : Int) + 1 ≤ s.limit

theorem bounded_init (l : Int) : Bounded (init l) := by
  intro c m h; simp [init, AMap.get] at h

theorem bumpTopic_subs (s : St) (t : Nat) : (bumpTopic s t).1.subs = s.subs ∧ (bumpTopic s t).1.limit = s.limit := by
  unfold bumpTopic; split <;> exact ⟨rfl, rfl⟩

theorem bounded_cleaned {s : St} (hb : Bounded s) (c : Nat) (m : AMap Nat) : Bounded (cleaned s c m) := by
  intro c' m' h hl
  simp only [cleaned, get_del] at h
  by_cases e : c' = c
  · simp [e] at h
  · simp only [e, if_false] at h; exact hb c' m' h hl

theorem bounded_set {s : St} (hb : Bounded s) (c : Nat) (m' : AMap Nat) (tp : AMap Nat)
    (hm : s.limit ≠ 0 → m' = [] ∨ (m'.length : Int) + 1 ≤ s.limit) :
    Bounded { s with subs := s.subs.set c m', topics := tp } := by
  intro c' m'' h hl
  simp only [get_set] at h
  by_cases e : c' = c
  · simp only [e, if_true, Option.some.injEq] at h; subst h; exact hm hl
  · simp only [e, if_false] at h; exact hb c' m'' h hl

theorem bounded_step {s : St} (hb : Bounded s) (op : Op) :
    Bounded (step s op).1 ∧ (step s op).1.limit = s.limit := by
  cases op with
  | connect c =>
    simp only [step]
    cases hc : s.subs.get c with
    | none =>
      rw [cleanup_none s c hc]
      exact ⟨bounded_set hb c [] s.topics (fun _ => Or.inl rfl), rfl⟩
    | some m =>
      rw [cleanup_some s c m hc]
      exact ⟨bounded_set (bounded_cleaned hb c m) c [] _ (fun _ => Or.inl rfl), rfl⟩
  | disconnect c =>
    simp only [step]
    cases hc : s.subs.get c with
    | none => rw [cleanup_none s c hc]; exact ⟨by simpa using hb, by simp⟩
    | some m => rw [cleanup_some s c m hc]; exact ⟨by simpa using bounded_cleaned hb c m, by simp [cleaned]⟩
  | subscribe c t =>
    simp only [step]
    cases hc : s.subs.get c with
    | none => exact ⟨hb, rfl⟩
    | some m =>
      simp only []
      cases hm : m.get t with
      | some n =>
        simp only []
        obtain ⟨h1, h2⟩ := bumpTopic_subs { s with subs := s.subs.set c (m.set t (n + 1)) } t
        refine ⟨?_, h2⟩
        intro c' m' h hl
        rw [h1] at h; rw [h2] at hl ⊢
        refine bounded_set hb c (m.set t (n + 1)) s.topics ?_ c' m' h hl
        intro hl'
        rw [length_set_of_some m t (n + 1) n hm]
        rcases hb c m hc hl' with e | e
        · subst e; simp [AMap.get] at hm
        · exact Or.inr e
      | none =>
        simp only []
        split
        · rw [cleanup_some s c m hc]; exact ⟨bounded_cleaned hb c m, rfl⟩
        · rename_i hnl
          obtain ⟨h1, h2⟩ := bumpTopic_subs { s with subs := s.subs.set c (m.set t 1) } t
          refine ⟨?_, h2⟩
          intro c' m' h hl
          rw [h1] at h; rw [h2] at hl ⊢
          refine bounded_set hb c (m.set t 1) s.topics ?_ c' m' h hl
          intro hl'
          rw [length_set_of_none m t 1 hm]
          right
          have : ¬ (s.limit ≤ (m.length : Int) + 1) := fun h' => hnl ⟨hl', h'⟩
          push_cast
          omega
  | unsubscribe c t =>
    simp only [step]
    cases hc : s.subs.get c with
    | none => exact ⟨hb, rfl⟩
    | some m =>
      simp only []
      cases hm : m.get t with
      | none => exact ⟨hb, rfl⟩
      | some n =>
        simp only []
        have hm' : s.limit ≠ 0 → (if n ≤ 1 then m.del t else m.set t (n - 1)) = [] ∨
            (((if n ≤ 1 then m.del t else m.set t (n - 1)).length : Nat) : Int) + 1 ≤ s.limit := by
          intro hl
          rcases hb c m hc hl with e | e
          · subst e; simp [AMap.get] at hm
          · right
            have : (if n ≤ 1 then m.del t else m.set t (n - 1)).length ≤ m.length := by
              split
              · exact length_del_le m t
              · rw [length_set_of_some m t (n - 1) n hm]; exact Nat.le_refl _
            omega
        cases ht : s.topics.get t with
        | none => exact ⟨bounded_set hb c _ s.topics hm', rfl⟩
        | some tc =>
          simp only []
          split
          · exact ⟨bounded_set hb c _ _ hm', rfl⟩
          · exact ⟨bounded_set hb c _ _ hm', rfl⟩
  | hasTopic t => exact ⟨hb, rfl⟩
  | clientSub c t =>
    simp only [step]
    cases s.subs.get c <;> exact ⟨hb, rfl⟩
  | sizes => exact ⟨hb, rfl⟩

theorem bounded_final (s : St) (ops : List Op) (h : Bounded s) :
    Bounded (final s ops) ∧ (final s ops).limit = s.limit := by
  induction ops generalizing s with
  | nil => exact ⟨h, rfl⟩
  | cons op ops ih =>
    obtain ⟨h1, h2⟩ := bounded_step h op
    obtain ⟨h3, h4⟩ := ih _ h1
    exact ⟨h3, h4.trans h2⟩

end SM
end Hive.C12b
