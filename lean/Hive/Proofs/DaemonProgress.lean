import Hive.Proofs.DaemonRun
/-!
# Progress of the daemon's waits (C20): nobody ever waits for nobody

The safety clauses say *when* the shutdown and `Run` may continue.  These lemmas say that a blocked wait of the
shutdown (a per-order WaitGroup) or of `Run` (the running-worker counter) always has a reason that can go away: a
started worker whose goroutine has an enabled step.  With the invariants `InvA` (WaitGroup counter = number of counted
objects of that order) and `InvC` (`runningWorkers` = number of objects started and not cleaned up) this holds in every
reachable state, for every thread pool.
-/
namespace Hive.Daemon
open Hive.Conc

theorem cnt_pos_exists {p : Nat → Bool} {n : Nat} (h : cnt p n ≠ 0) : ∃ i, i < n ∧ p i = true := by
  by_cases hex : ∃ i, i < n ∧ p i = true
  · exact hex
  · exfalso
    apply h
    apply cnt_zero_iff.mpr
    intro i hi
    cases hp : p i with
    | false => rfl
    | true => exact absurd ⟨i, hi, hp⟩ hex

/-- A worker goroutine that has been started and has not finished its clean-up can always take a step. -/
theorem wkStep_enabled_of_busy {s : St} {i : Nat} (hi : i < s.n) (hb : busy s i = true) : wkStep s i ≠ [] := by
  unfold busy at hb
  unfold wkStep
  simp only [hi, if_true]
  cases hpc : (s.objs i).pc <;> simp [hpc] at hb ⊢
  · split <;> simp

theorem busy_of_counted {s : St} {i : Nat} (hc : (s.objs i).counted = true) : busy s i = true := by
  unfold Wk.counted at hc
  unfold busy
  cases hpc : (s.objs i).pc <;> simp [hpc] at hc ⊢

/-- A non-zero WaitGroup counter of order `p` is backed by a started worker of that order that has not called `Done`
and whose goroutine is enabled. -/
theorem wait_has_live_worker {s : St} (hA : InvA s) (p : Int) (hw : s.wgc p ≠ 0) :
    ∃ i, i < s.n ∧ (s.objs i).counted = true ∧ (s.objs i).order = p ∧ wkStep s i ≠ [] := by
  rw [hA.wg p] at hw
  obtain ⟨i, hi, hc⟩ := cnt_pos_exists hw
  unfold cntd at hc
  simp only [Bool.and_eq_true, decide_eq_true_eq] at hc
  exact ⟨i, hi, hc.1, hc.2, wkStep_enabled_of_busy hi (busy_of_counted hc.1)⟩

/-- A non-zero running-worker counter is backed by a started, not yet cleaned-up worker whose goroutine is enabled. -/
theorem run_wait_has_live_worker {s : St} (hC : InvC s) (hw : s.rw ≠ 0) :
    ∃ i, i < s.n ∧ busy s i = true ∧ wkStep s i ≠ [] := by
  rw [hC.rwc] at hw
  obtain ⟨i, hi, hb⟩ := cnt_pos_exists hw
  exact ⟨i, hi, hb, wkStep_enabled_of_busy hi hb⟩

/-- The body of `stopOnce`, once the stopped flag is set and until it is done, is blocked only in one of its two
WaitGroup waits with a non-zero counter. -/
theorem sdBody_blocked {s : St} (hA : InvA s) (hst : s.stopped = true) (hnd : s.sd ≠ .done) (hb : sdBody s = []) :
    ∃ p, s.wgc p ≠ 0 ∧ ((∃ todo, s.sd = .waitMid p todo) ∨ s.sd = .waitLast p) := by
  have hne := hA.stopped_iff.mp hst
  unfold sdBody at hb
  cases hsd : s.sd with
  | idle => exact absurd hsd hne.1
  | taken => exact absurd hsd hne.2
  | stoppedSet => simp only [hsd] at hb; split at hb <;> simp at hb
  | snap => simp only [hsd] at hb; split at hb <;> simp at hb
  | loop prev todo =>
    simp only [hsd] at hb
    cases todo with
    | nil => simp at hb
    | cons h rest => simp only at hb; split at hb <;> (try split at hb) <;> simp at hb
  | waitMid prev todo =>
    simp only [hsd] at hb
    by_cases h0 : s.wgc prev = 0
    · simp only [h0, if_true] at hb
      cases todo <;> simp at hb
    · exact ⟨prev, h0, Or.inl ⟨todo, rfl⟩⟩
  | waitLast prev =>
    simp only [hsd] at hb
    by_cases h0 : s.wgc prev = 0
    · simp [h0] at hb
    · exact ⟨prev, h0, Or.inr rfl⟩
  | unrun => simp [hsd] at hb
  | clr => simp [hsd] at hb
  | done => exact absurd hsd hnd

end Hive.Daemon
