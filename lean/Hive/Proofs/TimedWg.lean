import Hive.Proofs.TimedAll
/-!
# C18 — the Executor's WaitGroup: when `Executor.Shutdown` returns, nothing is pending

`InvW`: `wg` counts the worker goroutines that have not ended (`w1`), and once a worker has ended
after a `Shutdown` without `CancelPendingElements` the heap is empty for good (`w2`: workers leave
only when they find the heap empty, and a shut-down queue accepts nothing).  Together with `InvP`
(`pw`: there is at least one worker; `p4`: with `CancelPendingElements` the heap is empty once
`Queue.Shutdown` is through): when the WaitGroup is down to zero, the heap is empty and no worker
holds an element (`shutdown_done`).
-/
namespace Hive.Timed
open Hive.Conc

structure InvW (s : Sh) (ts : List Th) : Prop where
  w1 : s.wg = tsum isActive ts + tsum isParked ts
  w2 : s.isShutdown = true → s.flags.cancel = false → 0 < tsum isExited ts → s.heap.length = 0

theorem invW_gen {s s' : Sh} {l r : List Th} {t t' : Th} (h : InvW s (l ++ t :: r))
    (h1 : s'.wg + (isActive t + isParked t) = s.wg + (isActive t' + isParked t'))
    (h2 : s'.isShutdown = true → s'.flags.cancel = false → 0 < tsum isExited l + isExited t' + tsum isExited r →
      s'.heap.length = 0) : InvW s' (l ++ t' :: r) := by
  obtain ⟨w1, w2⟩ := h
  simp only [tsum_mid] at w1
  constructor
  · simp only [tsum_mid]; omega
  · simp only [tsum_mid]; exact h2

theorem invW_keep {s s' : Sh} {l r : List Th} {t t' : Th} (h : InvW s (l ++ t :: r))
    (ha : isActive t' = isActive t) (hp : isParked t' = isParked t) (hx : isExited t' = isExited t)
    (hwg : s'.wg = s.wg) (hh : s'.heap.length ≤ s.heap.length) (hsd : s'.isShutdown = s.isShutdown)
    (hf : s'.flags.cancel = s.flags.cancel) : InvW s' (l ++ t' :: r) := by
  have h' := h
  obtain ⟨w1, w2⟩ := h
  simp only [tsum_mid] at w1 w2
  refine invW_gen h' (by omega) ?_
  intro h0 h1 h2
  rw [hsd] at h0; rw [hf] at h1; rw [hx] at h2
  have := w2 h0 h1 h2
  omega

/-- `Queue.Add` by a caller whose class does not change. -/
theorem invW_add {s s' : Sh} {l r : List Th} {t t' : Th} (h : InvW s (l ++ t :: r)) (due : Nat) (id : Option Nat)
    (kind : Kind) (tag : Nat)
    (ha : isActive t' = isActive t) (hp : isParked t' = isParked t) (hx : isExited t' = isExited t)
    (hwg : s'.wg = (add s due id kind tag).1.wg) (hh : s'.heap = (add s due id kind tag).1.heap)
    (hsd : s'.isShutdown = (add s due id kind tag).1.isShutdown)
    (hf : s'.flags = (add s due id kind tag).1.flags) : InvW s' (l ++ t' :: r) := by
  rcases add_cases s due id kind tag with ⟨_, h1, _⟩ | ⟨hns, _, h2, new, cl, h1, _⟩
  · rw [h1] at hwg hh hsd hf
    exact invW_keep h ha hp hx hwg (by rw [hh]; exact Nat.le_refl _) hsd (by rw [hf])
  · rw [h1] at hwg hh hsd hf
    simp only [signal_wg, signal_heap, signal_isShutdown, signal_flags] at hwg hh hsd hf
    have h' := h
    obtain ⟨w1, w2⟩ := h
    simp only [tsum_mid] at w1 w2
    refine invW_gen h' (by omega) ?_
    intro h0; rw [hsd, hns] at h0; cases h0

theorem invW_exec1 {s s' : Sh} {l r : List Th} {t t' : Th} (h : InvW s (l ++ t :: r)) (i : Nat)
    (ha : isActive t' = isActive t) (hp : isParked t' = isParked t) (hx : isExited t' = isExited t)
    (he : s' = exec1 s i) : InvW s' (l ++ t' :: r) := by
  subst he
  unfold exec1
  cases regGet s.reg i with
  | none => exact invW_keep h ha hp hx rfl (Nat.le_refl _) rfl rfl
  | some x => exact invW_keep h ha hp hx rfl (cancelElem_length s x) rfl rfl

theorem invW_cancelId {s s' : Sh} {l r : List Th} {t t' : Th} (h : InvW s (l ++ t :: r)) (i : Nat)
    (ha : isActive t' = isActive t) (hp : isParked t' = isParked t) (hx : isExited t' = isExited t)
    (he : s' = cancelId s i) : InvW s' (l ++ t' :: r) := by
  subst he
  unfold cancelId
  cases regGet s.reg i with
  | none => exact invW_keep h ha hp hx rfl (Nat.le_refl _) rfl rfl
  | some x => exact invW_keep h ha hp hx rfl (cancelElem_length s x) rfl rfl

theorem invW_exec2 {s s' : Sh} {l r : List Th} {t t' : Th} (h : InvW s (l ++ t :: r)) (i due : Nat) (kind : Kind)
    (tag : Nat) (ha : isActive t' = isActive t) (hp : isParked t' = isParked t) (hx : isExited t' = isExited t)
    (he : s' = exec2 s i due kind tag) : InvW s' (l ++ t' :: r) := by
  subst he
  refine invW_add h due (some i) kind tag ha hp hx ?_ ?_ ?_ ?_ <;>
    (unfold exec2; cases hadd : add s due (some i) kind tag with
      | mk s1 r1 => cases r1 <;> rfl)

theorem invW_tr {s s' : Sh} {l r : List Th} {t t' : Th} (hP : InvP s (l ++ t :: r)) (h : InvW s (l ++ t :: r))
    (tr : Tr s t s' t') : InvW s' (l ++ t' :: r) := by
  have h' := h
  obtain ⟨w1, w2⟩ := h
  simp only [tsum_mid] at w1 w2
  cases tr with
  | idleExit hp hs =>
    have hl := pop_none_length hp
    refine invW_gen h' ?_ ?_
    · simp only [isActive, isParked] at *; omega
    · intro _ _ _; exact hl
  | idlePark hp hs => exact invW_gen h' (by simp [isActive, isParked]) (by intro h0; simp only at h0; rw [hs] at h0; cases h0)
  | idlePop hp =>
    rename_i e hh
    have hl := pop_length hp
    have hc : ∀ (u : Th), (u = .hk e ∨ u = .sel e) → isActive u = 1 ∧ isParked u = 0 ∧ isExited u = 0 := by
      rintro u (rfl | rfl) <;> exact ⟨rfl, rfl, rfl⟩
    have ht' : (if e.tag ∈ s.armed then Th.hk e else Th.sel e) = .hk e ∨ (if e.tag ∈ s.armed then Th.hk e else Th.sel e) = .sel e := by
      split
      · exact Or.inl rfl
      · exact Or.inr rfl
    obtain ⟨c1, c2, c3⟩ := hc _ ht'
    exact invW_keep h' (by rw [c1]; rfl) (by rw [c2]; rfl) (by rw [c3]; rfl) rfl (by simp only; omega) rfl rfl
  | wake hw =>
    refine invW_gen h' (by simp [isActive, isParked]) ?_
    intro h0 h1 h2; simp only [isExited, Nat.add_zero] at *; exact w2 h0 h1 h2
  | hkGo hr => exact invW_keep h' rfl rfl rfl rfl (Nat.le_refl _) rfl rfl
  | selSdCancel hc hf =>
    refine invW_gen h' ?_ ?_
    · simp only [isActive, isParked] at *; omega
    · intro _ h1; simp only at h1; rw [hf] at h1; cases h1
  | selSdIgnore hc hf hi => exact invW_keep h' rfl rfl rfl rfl (Nat.le_refl _) rfl rfl
  | selSd hc hf hi => exact invW_keep h' rfl rfl rfl rfl (Nat.le_refl _) rfl rfl
  | selCancel hc => exact invW_keep h' rfl rfl rfl rfl (Nat.le_refl _) rfl rfl
  | selTimer hd => exact invW_keep h' rfl rfl rfl rfl (Nat.le_refl _) rfl rfl
  | selSDCancel hc => exact invW_keep h' rfl rfl rfl rfl (Nat.le_refl _) rfl rfl
  | selSDTimer hd => exact invW_keep h' rfl rfl rfl rfl (Nat.le_refl _) rfl rfl
  | chkSkip hc => exact invW_keep h' rfl rfl rfl rfl (Nat.le_refl _) rfl rfl
  | chkDeliver hnc => exact invW_keep h' rfl rfl rfl rfl (Nat.le_refl _) rfl rfl
  | wrapRaw hid => exact invW_keep h' rfl rfl rfl rfl (Nat.le_refl _) rfl rfl
  | wrapRun hid hl hg => exact invW_keep h' rfl rfl rfl rfl (Nat.le_refl _) rfl rfl
  | wrapSkip hid hl hg => exact invW_keep h' rfl rfl rfl rfl (Nat.le_refl _) rfl rfl
  | cbDone hg => exact invW_keep h' rfl rfl rfl rfl (Nat.le_refl _) rfl rfl
  | cbExec1 hk hid hl => exact invW_exec1 h' _ rfl rfl rfl rfl
  | cbExec2 hk hid =>
    rename_i e i due tag blk
    exact invW_exec2 h' i due .plain tag (by cases blk <;> rfl) (by cases blk <;> rfl) (by cases blk <;> rfl) rfl
  | cbCancel hk hid hl => exact invW_cancelId h' _ rfl rfl rfl rfl
  | ctlExec2 => exact invW_exec2 h' _ _ _ _ rfl rfl rfl rfl
  | ctlSd2 => exact invW_keep h' rfl rfl rfl rfl (Nat.le_refl _) rfl rfl
  | ctlSd3 =>
    rename_i dw script
    have hc : isActive (Th.ctl (if dw = true then CPc.ready else CPc.sdWait) script) = 0 ∧
        isParked (Th.ctl (if dw = true then CPc.ready else CPc.sdWait) script) = 0 ∧
        isExited (Th.ctl (if dw = true then CPc.ready else CPc.sdWait) script) = 0 := by
      cases dw <;> exact ⟨rfl, rfl, rfl⟩
    obtain ⟨c1, c2, c3⟩ := hc
    have hsd3 : (sd3 s).wg = s.wg ∧ (sd3 s).isShutdown = s.isShutdown ∧ (sd3 s).flags = s.flags ∧
        (sd3 s).heap.length ≤ s.heap.length := by
      unfold sd3
      cases hf : s.flags.cancel with
      | true => simp [broadcast]
      | false => simp [broadcast]
    obtain ⟨e1, e2, e3, e4⟩ := hsd3
    exact invW_keep h' (by rw [c1]; rfl) (by rw [c2]; rfl) (by rw [c3]; rfl) e1 e4 e2 (by simp only [e3])
  | ctlSdWait hw => exact invW_keep h' rfl rfl rfl rfl (Nat.le_refl _) rfl rfl
  | ctlWait ht => exact invW_keep h' rfl rfl rfl rfl (Nat.le_refl _) rfl rfl
  | ctlAdd =>
    rename_i due tag kind rest
    exact invW_add h' due none kind tag rfl rfl rfl rfl rfl rfl rfl
  | ctlExec1 hl => exact invW_exec1 h' _ rfl rfl rfl rfl
  | ctlCancelElem hx =>
    rename_i x rest
    exact invW_keep h' rfl rfl rfl rfl (cancelElem_length s x) rfl rfl
  | ctlCancelNone => exact invW_keep h' rfl rfl rfl rfl (Nat.le_refl _) rfl rfl
  | ctlCancelId hl => exact invW_cancelId h' _ rfl rfl rfl rfl
  | ctlSd1 hs =>
    rename_i f rest
    obtain ⟨hns, rfl⟩ := sd1_some hs
    have hx := hP.p3 hns
    simp only [tsum_mid] at hx
    refine invW_gen h' (by simp [isActive, isParked]) ?_
    intro _ _ h3; simp only [isExited] at h3 hx; omega
  | ctlSdAgain hs hpc =>
    rename_i f rest res pc
    have hc : isActive (Th.ctl pc rest) = 0 ∧ isParked (Th.ctl pc rest) = 0 ∧ isExited (Th.ctl pc rest) = 0 := by
      rcases hpc with rfl | rfl <;> exact ⟨rfl, rfl, rfl⟩
    obtain ⟨c1, c2, c3⟩ := hc
    exact invW_keep h' (by rw [c1]; rfl) (by rw [c2]; rfl) (by rw [c3]; rfl) rfl (Nat.le_refl _) rfl rfl
  | ctlRelease => exact invW_keep h' rfl rfl rfl rfl (Nat.le_refl _) rfl rfl
  | ctlArm => exact invW_keep h' rfl rfl rfl rfl (Nat.le_refl _) rfl rfl
  | tick => exact invW_keep h' rfl rfl rfl rfl (Nat.le_refl _) rfl rfl

theorem invW_init (maxSize : Nat) (ts : List Th) (hts : ∀ t ∈ ts, t.isInitial = true) :
    InvW (initCfg maxSize ts).1 (initCfg maxSize ts).2 := by
  constructor
  · show ts.countP Th.isWorker = tsum isActive ts + tsum isParked ts
    have hp : tsum isParked ts = 0 := init_class hts isParked (by intro t ht; cases t <;> simp_all [Th.isInitial, isParked])
    rw [hp, Nat.add_zero]
    clear hp
    induction ts with
    | nil => rfl
    | cons a l ih =>
      have ha := hts a (by simp)
      have ih' := ih (fun t ht => hts t (by simp [ht]))
      simp only [List.countP_cons, tsum, List.map_cons, List.sum_cons] at *
      cases a with
      | ctl pc script => cases pc <;> simp_all [Th.isInitial, Th.isWorker, isActive]
      | _ => simp_all [Th.isInitial, Th.isWorker, isActive] <;> omega
  · intro h0; simp [initCfg] at h0

structure AllW (c : Cfg Sh Th) : Prop where
  all : AllInv c
  w : InvW c.1 c.2

theorem allW_reach {maxSize : Nat} {ts : List Th} (hts : InitPool ts) {c : Cfg Sh Th}
    (hr : Reach sys (initCfg maxSize ts) c) : AllW c := by
  refine inv_induction AllW ⟨all_init maxSize ts hts, invW_init maxSize ts hts.1⟩ ?_ hr
  intro a b h st
  refine ⟨all_step h.all st, ?_⟩
  obtain ⟨s, l, t, r, s', t', rfl, rfl, tr⟩ := Step.tr st
  exact invW_tr h.all.ip h.w tr

/-- **When the WaitGroup is down to zero nothing is pending.**  Queue shut down, `Queue.Shutdown` through
(no caller between marking and handling the heap), `wg = 0` (what `Executor.Shutdown` waits for): the
heap is empty and every worker goroutine has ended — no poller holds an element. -/
theorem shutdown_done {c : Cfg Sh Th} (h : AllW c) (hs : c.1.isShutdown = true) (hsd : tsum sdN c.2 = 0)
    (hwg : c.1.wg = 0) : c.1.heap = [] ∧ ∀ t ∈ c.2, isActive t = 0 ∧ isParked t = 0 := by
  have hw1 := h.w.w1
  have hpw := h.all.ip.pw
  rw [tsum_isWk] at hpw
  have hex : 0 < tsum isExited c.2 := by omega
  have hlen : c.1.heap.length = 0 := by
    cases hf : c.1.flags.cancel with
    | true => exact h.all.ip.p4 hs hf hsd
    | false => exact h.w.w2 hs hf hex
  refine ⟨List.eq_nil_of_length_eq_zero hlen, ?_⟩
  intro t ht
  have h1 := tsum_ge (f := isActive) ht
  have h2 := tsum_ge (f := isParked) ht
  omega

end Hive.Timed
