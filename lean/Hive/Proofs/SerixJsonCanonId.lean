import Hive.Proofs.SerixJsonZero
import Hive.Spec.SerixJsonCanon
/-!
# `ValExpressible` values are exactly the ones the form hands back unchanged

`valOk t v → wt t v ∧ canon t v = v`: the round trip with `canon` specialises to the plain round trip.
-/
namespace Hive.SerixJson

variable (fc : FloatCodec)

theorem map_eq_self {α : Type} (f : α → α) : ∀ (xs : List α), (∀ x ∈ xs, f x = x) → xs.map f = xs
  | [], _ => rfl
  | x :: xs, h => by
    rw [List.map_cons, h x List.mem_cons_self, map_eq_self f xs (fun y hy => h y (List.mem_cons_of_mem _ hy))]

theorem missingVal_nil_of_valOk_nil : ∀ (t : JTy), valOk fc t .nil = true → missingVal t = .nil
  | .ptr _, _ => rfl
  | .iface _, _ => rfl
  | .u256, _ => rfl
  | .byteArr true _, _ => rfl
  | .typedBytes true _ _ _, _ => rfl
  | .byteArr false _, h => by simp [valOk] at h
  | .typedBytes false (some _) _ _, h => by simp [valOk] at h
  | .typedBytes false none _ _, h => by simp [valOk] at h
  | .bool, h => by simp [valOk] at h
  | .uint _, h => by simp [valOk] at h
  | .int _, h => by simp [valOk] at h
  | .float _, h => by simp [valOk] at h
  | .str _, h => by simp [valOk] at h
  | .bytes _, h => by simp [valOk] at h
  | .time, h => by simp [valOk] at h
  | .slice _ _, h => by simp [valOk] at h
  | .array _ _, h => by simp [valOk] at h
  | .map _ _ _, h => by simp [valOk] at h
  | .struct _ _, h => by simp [valOk] at h

mutual
theorem canon_id_ty : ∀ (t : JTy) (v : Val), valOk fc t v = true → canon fc t v = v ∧ wt fc t v = true
  | .bool, v, hv => by cases v <;> simp [valOk] at hv; simp [canon, wt]
  | .uint w, v, hv => by cases v <;> simp only [valOk, Bool.false_eq_true] at hv; simp [canon, wt, hv]
  | .int w, v, hv => by cases v <;> simp only [valOk, Bool.false_eq_true] at hv; simp [canon, wt, hv]
  | .float w, v, hv => by
    cases v <;> simp only [valOk, Bool.false_eq_true] at hv
    simp only [Bool.and_eq_true, beq_iff_eq] at hv
    simp [canon, wt, hv.1]
  | .str b, v, hv => by cases v <;> simp [valOk] at hv; simp [canon, wt]
  | .bytes b, v, hv => by cases v <;> simp [valOk] at hv; simp [canon, wt]
  | .byteArr viaPtr n, v, hv => by
    cases viaPtr <;> cases v <;> simp only [valOk, Bool.false_eq_true] at hv <;> simp [canon, wt, hv]
  | .typedBytes viaPtr n code key, v, hv => by
    cases viaPtr <;> cases n <;> cases v <;> simp only [valOk, Bool.false_eq_true] at hv <;>
      simp [canon, wt, hv]
  | .u256, v, hv => by
    cases v <;> simp only [valOk, Bool.false_eq_true] at hv <;> simp [canon, wt, hv]
  | .time, v, hv => by
    cases v <;> simp only [valOk, Bool.false_eq_true] at hv
    rename_i n
    simp only [Bool.and_eq_true, decide_eq_true_eq] at hv
    have h0 : ¬ n < 0 := by omega
    simp [canon, wt, h0, hv.2]
  | .slice b e, v, hv => by
    cases v <;> simp only [valOk, Bool.false_eq_true] at hv
    rename_i xs
    have hall := List.all_eq_true.mp hv
    constructor
    · simp only [canon]
      rw [map_eq_self _ xs (fun x hx => (canon_id_ty e x (hall x hx)).1)]
    · simp only [wt, List.all_eq_true]
      exact fun x hx => (canon_id_ty e x (hall x hx)).2
  | .array n e, v, hv => by
    cases v <;> simp only [valOk, Bool.false_eq_true] at hv
    rename_i xs
    simp only [Bool.and_eq_true, decide_eq_true_eq] at hv
    have hall := List.all_eq_true.mp hv.2
    constructor
    · simp only [canon]
      rw [map_eq_self _ xs (fun x hx => (canon_id_ty e x (hall x hx)).1)]
    · simp only [wt, Bool.and_eq_true, decide_eq_true_eq, List.all_eq_true]
      exact ⟨hv.1, fun x hx => (canon_id_ty e x (hall x hx)).2⟩
  | .map b k e, v, hv => by
    cases v <;> simp only [valOk, Bool.false_eq_true] at hv
    rename_i es
    simp only [Bool.and_eq_true] at hv
    have hall := List.all_eq_true.mp hv.2
    have hp : ∀ p ∈ es, valOk fc k p.1 = true ∧ valOk fc e p.2 = true := by
      intro p hp
      have := hall p hp
      simpa only [Bool.and_eq_true] using this
    constructor
    · simp only [canon]
      rw [map_eq_self _ es (fun p hp' => by
        show (p.1, canon fc e p.2) = p
        rw [(canon_id_ty e p.2 (hp p hp').2).1])]
    · simp only [wt, Bool.and_eq_true, List.all_eq_true]
      exact ⟨hv.1, fun p hp' => ⟨(hp p hp').1, (canon_id_ty e p.2 (hp p hp').2).2⟩⟩
  | .struct code fs, v, hv => by
    cases v <;> simp only [valOk, Bool.false_eq_true] at hv
    rename_i vs
    have := canon_id_fields fs vs hv
    simp [canon, wt, this.1, this.2]
  | .ptr t, v, hv => by
    cases v <;> simp only [valOk, Bool.false_eq_true] at hv
    · simp [canon, wt]
    · rename_i x
      have := canon_id_ty t x hv
      simp [canon, wt, this.1, this.2]
  | .iface alts, v, hv => by
    cases v <;> simp only [valOk, Bool.false_eq_true] at hv
    · simp [canon, wt]
    · rename_i c x
      have := canon_id_alts alts c x hv
      simp [canon, wt, this.1, this.2]
theorem canon_id_fields : ∀ (fs : Fields) (vs : List Val), valsOk fc fs vs = true →
    canonFields fc fs vs = vs ∧ wtFields fc fs vs = true
  | .nil, vs, hv => by cases vs <;> simp [valsOk] at hv; simp [canonFields, wtFields]
  | .named key opt omt t rest, vs, hv => by
    cases vs with
    | nil => simp [valsOk] at hv
    | cons v vs =>
      simp only [valsOk, Bool.and_eq_true] at hv
      have h1 := canon_id_ty t v hv.1
      have h2 := canon_id_fields rest vs hv.2
      refine ⟨?_, by simp [wtFields, h1.2, h2.2]⟩
      simp only [canonFields, h2.1]
      congr 1
      by_cases hc1 : (omt && isEmpty t v) = true
      · simp only [hc1, Bool.true_or, if_true]
        simp only [Bool.and_eq_true] at hc1
        exact (empty_eq_missing fc t v hv.1 hc1.2).symm
      · by_cases hc2 : (opt && v.isNil) = true
        · simp only [hc2, Bool.or_true, if_true]
          simp only [Bool.and_eq_true] at hc2
          have hvn := isNil_eq v hc2.2
          subst hvn
          exact missingVal_nil_of_valOk_nil fc t hv.1
        · have : ((omt && isEmpty t v) || (opt && v.isNil)) = false := by
            cases hb1 : (omt && isEmpty t v) <;> cases hb2 : (opt && v.isNil) <;> simp_all
          simp only [this, Bool.false_eq_true, if_false]
          exact h1.1
  | .embedded viaPtr fs rest, vs, hv => by
    cases vs with
    | nil => cases viaPtr <;> simp [valsOk] at hv
    | cons v vs =>
      cases viaPtr
      · cases v <;> simp only [valsOk, Bool.false_eq_true] at hv
        rename_i xs
        simp only [Bool.and_eq_true] at hv
        have h1 := canon_id_fields fs xs hv.1
        have h2 := canon_id_fields rest vs hv.2
        simp [canonFields, wtFields, h1.1, h1.2, h2.1, h2.2]
      · cases v with
        | nil =>
          simp only [valsOk] at hv
          have h2 := canon_id_fields rest vs hv
          simp [canonFields, wtFields, h2.1, h2.2]
        | some x =>
          cases x <;> simp only [valsOk, Bool.false_eq_true] at hv
          rename_i xs
          simp only [Bool.and_eq_true] at hv
          have h1 := canon_id_fields fs xs hv.1
          have h2 := canon_id_fields rest vs hv.2
          simp [canonFields, wtFields, h1.1, h1.2, h2.1, h2.2]
        | _ => simp [valsOk] at hv
  | .inlined code fs rest, vs, hv => by
    cases vs with
    | nil => simp [valsOk] at hv
    | cons v vs =>
      cases v <;> simp only [valsOk, Bool.false_eq_true] at hv
      rename_i xs
      simp only [Bool.and_eq_true] at hv
      have h1 := canon_id_fields fs xs hv.1
      have h2 := canon_id_fields rest vs hv.2
      simp [canonFields, wtFields, h1.1, h1.2, h2.1, h2.2]
theorem canon_id_alts : ∀ (alts : Alts) (c : Nat) (v : Val), altValOk fc alts c v = true →
    canonAlt fc alts c v = v ∧ wtAlt fc alts c v = true
  | .nil, _, _, hv => by simp [altValOk] at hv
  | .cons c0 t rest, c, v, hv => by
    simp only [altValOk] at hv
    by_cases hc : c0 = c
    · simp only [hc, if_true] at hv
      have := canon_id_ty t v hv
      simp [canonAlt, wtAlt, hc, this.1, this.2]
    · simp only [hc, if_false] at hv
      have := canon_id_alts rest c v hv
      simp [canonAlt, wtAlt, hc, this.1, this.2]
end

end Hive.SerixJson
