import Hive.Model.SerixJsonText
/-!
# Round trips of the text forms of the serix JSON/map form

`parse (format x) = x` for base-10 integers, `0x` byte strings and `0x` quantities (uint256).
-/
namespace Hive.SerixJson

/-! ## base 10 -/

theorem decChars_ne_nil (n : Nat) : decChars n ≠ [] := Nat.toDigits_ne_nil

theorem decChars_all_digit (n : Nat) : (decChars n).all Char.isDigit = true := by
  rw [List.all_eq_true]
  intro c hc
  exact Nat.isDigit_of_mem_toDigits (by decide) (by decide) hc

theorem parseDecChars_decChars (n : Nat) : parseDecChars (decChars n) = some n := by
  unfold parseDecChars
  have h1 : (decChars n).isEmpty = false := by
    cases h : decChars n with
    | nil => exact absurd h (decChars_ne_nil n)
    | cons _ _ => rfl
  rw [h1, decChars_all_digit]
  simp [decChars]

/-- the first character of a decimal number is a digit. -/
theorem decChars_head (n : Nat) : ∃ c cs, decChars n = c :: cs ∧ c.isDigit = true := by
  cases h : decChars n with
  | nil => exact absurd h (decChars_ne_nil n)
  | cons c cs =>
    refine ⟨c, cs, rfl, ?_⟩
    have := decChars_all_digit n
    rw [h, List.all_cons, Bool.and_eq_true] at this
    exact this.1

theorem parseIntChars_of_digit (c : Char) (cs : List Char) (hc : c.isDigit = true) :
    parseIntChars (c :: cs) = (parseDecChars (c :: cs)).map (fun (n : Nat) => Int.ofNat n) := by
  have h1 : c ≠ '-' := by rintro rfl; exact absurd hc (by decide)
  have h2 : c ≠ '+' := by rintro rfl; exact absurd hc (by decide)
  unfold parseIntChars
  split
  · rename_i heq; cases heq; exact absurd rfl h1
  · rename_i heq; cases heq; exact absurd rfl h2
  · rfl

theorem parseIntChars_intChars (n : Int) : parseIntChars (intChars n) = some n := by
  unfold intChars
  by_cases hn : n < 0
  · simp only [hn, if_true, parseIntChars, parseDecChars_decChars, Option.map_some]
    congr 1
    have : Int.ofNat n.natAbs = (n.natAbs : Int) := rfl
    omega
  · simp only [hn, if_false]
    obtain ⟨c, cs, hcs, hc⟩ := decChars_head n.natAbs
    rw [hcs, parseIntChars_of_digit c cs hc, ← hcs, parseDecChars_decChars, Option.map_some]
    congr 1
    have : Int.ofNat n.natAbs = (n.natAbs : Int) := rfl
    omega

/-! ## hex byte strings -/

theorem hexVal_hexDigit (n : Nat) (h : n < 16) : hexVal (hexDigit n) = some n := by
  have : n = 0 ∨ n = 1 ∨ n = 2 ∨ n = 3 ∨ n = 4 ∨ n = 5 ∨ n = 6 ∨ n = 7 ∨ n = 8 ∨ n = 9 ∨ n = 10 ∨
      n = 11 ∨ n = 12 ∨ n = 13 ∨ n = 14 ∨ n = 15 := by omega
  rcases this with h | h | h | h | h | h | h | h | h | h | h | h | h | h | h | h <;> subst h <;> decide

theorem bytesOfHex_hexOfBytes (bs : List UInt8) : bytesOfHex (hexOfBytes bs) = some bs := by
  induction bs with
  | nil => rfl
  | cons b bs ih =>
    have hb : b.toNat < 256 := UInt8.toNat_lt b
    simp only [hexOfBytes, bytesOfHex, hexVal_hexDigit (b.toNat / 16) (by omega),
      hexVal_hexDigit (b.toNat % 16) (by omega), ih]
    have : b.toNat / 16 * 16 + b.toNat % 16 = b.toNat := by omega
    rw [this]
    simp

theorem decodeHexChars_encodeHexChars (bs : List UInt8) :
    decodeHexChars (encodeHexChars bs) = some bs := by
  cases bs with
  | nil => rfl
  | cons b bs =>
    simp only [encodeHexChars, List.isEmpty_cons, Bool.false_eq_true, if_false, decodeHexChars]
    exact bytesOfHex_hexOfBytes (b :: bs)

/-! ## quantities -/

theorem ofHexChars_append (l m : List Char) (acc a : Nat) (h : ofHexChars l acc = some a) :
    ofHexChars (l ++ m) acc = ofHexChars m a := by
  induction l generalizing acc with
  | nil => simp only [ofHexChars] at h; cases h; rfl
  | cons c cs ih =>
    simp only [ofHexChars, List.cons_append] at h ⊢
    cases hv : hexVal c with
    | none => simp [hv] at h
    | some d => simp only [hv] at h ⊢; exact ih _ h

theorem ofHexChars_hexNatChars (n : Nat) : ofHexChars (hexNatChars n) 0 = some n := by
  unfold hexNatChars
  induction n using Nat.base_induction 16 (by decide) with
  | single m hm =>
    rw [Nat.toDigits_of_lt_base hm]
    simp only [ofHexChars]
    have := hexVal_hexDigit m hm
    unfold hexDigit at this
    simp [this]
  | digit m k hk hm ih =>
    rw [← Nat.toDigits_append_toDigits (by decide) hm hk, ofHexChars_append _ _ _ _ ih,
      Nat.toDigits_of_lt_base hk]
    simp only [ofHexChars]
    have := hexVal_hexDigit k hk
    unfold hexDigit at this
    simp [this]

/-- no leading zero unless the number is 0. -/
theorem hexNatChars_head (n : Nat) (hn : 0 < n) :
    ∃ c cs, hexNatChars n = c :: cs ∧ c ≠ '0' := by
  unfold hexNatChars
  induction n using Nat.base_induction 16 (by decide) with
  | single m hm =>
    refine ⟨m.digitChar, [], Nat.toDigits_of_lt_base hm, ?_⟩
    intro h
    have := Nat.digitChar_eq_zero.mp h
    omega
  | digit m k hk hm ih =>
    obtain ⟨c, cs, hcs, hc⟩ := ih hm
    refine ⟨c, cs ++ Nat.toDigits 16 k, ?_, hc⟩
    rw [← Nat.toDigits_append_toDigits (by decide) hm hk, hcs]
    rfl

theorem parseQuantity_hexNatChars (n : Nat) (h : n < 2 ^ 256) :
    parseQuantity (hexNatChars n) = some n := by
  unfold parseQuantity
  have hne : (hexNatChars n).isEmpty = false := by
    cases hh : hexNatChars n with
    | nil => exact absurd hh Nat.toDigits_ne_nil
    | cons _ _ => rfl
  have hlen : ¬ (hexNatChars n).length > 64 := by
    have := (Nat.length_toDigits_le_iff (b := 16) (n := n) (k := 64) (by decide) (by decide)).mpr
      (by have : (16 : Nat) ^ 64 = 2 ^ 256 := by decide
          omega)
    unfold hexNatChars; omega
  have hlead : ¬ ((hexNatChars n).length > 1 ∧ (hexNatChars n).head? = some '0') := by
    rintro ⟨hl, hh⟩
    by_cases hn : 0 < n
    · obtain ⟨c, cs, hcs, hc⟩ := hexNatChars_head n hn
      rw [hcs] at hh
      simp only [List.head?_cons, Option.some.injEq] at hh
      exact hc hh
    · have : n = 0 := by omega
      subst this
      have : hexNatChars 0 = ['0'] := by unfold hexNatChars; exact Nat.toDigits_zero 16
      rw [this] at hl
      simp at hl
  rw [hne]
  simp only [Bool.false_eq_true, if_false, hlead, hlen]
  exact ofHexChars_hexNatChars n

theorem decodeBigChars_encodeBigChars (n : Int) (h0 : 0 ≤ n) (h : n < (2 ^ 256 : Nat)) :
    decodeBigChars (encodeBigChars n) = some n.toNat := by
  have hn : ¬ n < 0 := by omega
  simp only [encodeBigChars, hn, if_false, decodeBigChars]
  have : n.natAbs = n.toNat := by omega
  rw [this]
  exact parseQuantity_hexNatChars n.toNat (by omega)

/-! ## String boundary -/

theorem parseDec_decStr (n : Nat) : parseDec (decStr n) = some n := by
  simp [parseDec, decStr, String.toList_ofList, parseDecChars_decChars]

theorem parseInt_intStr (n : Int) : parseInt (intStr n) = some n := by
  simp [parseInt, intStr, String.toList_ofList, parseIntChars_intChars]

theorem decodeHex_encodeHex (bs : List UInt8) : decodeHex (encodeHex bs) = some bs := by
  simp [decodeHex, encodeHex, String.toList_ofList, decodeHexChars_encodeHexChars]

theorem decodeBig_encodeBig (n : Int) (h0 : 0 ≤ n) (h : n < (2 ^ 256 : Nat)) :
    decodeBig (encodeBig n) = some n.toNat := by
  simp [decodeBig, encodeBig, String.toList_ofList, decodeBigChars_encodeBigChars n h0 h]

end Hive.SerixJson
