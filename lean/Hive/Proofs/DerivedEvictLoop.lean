import Hive.Model.DerivedCounter
/-!
# The probing loop of `evictionState.evict` on a fixed-width slot type

Witnesses about the probing loop `evict` had before it was replaced by collecting the registered slots: `evLoopOld`
(the loop as it was) never leaves the loop when `slot` is the largest value of the type; `evLoop` (first repair 4972df2:
`if i == slot { break }`) terminates for every slot of the type and probes exactly `start … slot`.
-/
namespace Hive.Derived

theorem evProbe_reverse (events : List Nat) (i : Nat) (acc : List Nat) :
    (evProbe events i acc).reverse = acc.reverse ++ [i].filter (fun j => events.contains j) := by
  unfold evProbe
  split
  · rename_i h
    have h' : i ∈ events := by simpa using h
    simp [List.filter, h']
  · rename_i h
    have h' : ¬ i ∈ events := by simpa using h
    simp [List.filter, h']

/-- The repaired loop, started at `i` with `n ≥ 1` slots to go (`i + n = slot + 1`), leaves after exactly `n`
iterations having collected the registered slots among `i … slot` in ascending order. -/
theorem evLoop_spec (top : Nat) (events : List Nat) (slot : Nat) (hs : slot ≤ top) :
    ∀ (n i : Nat) (acc : List Nat), i + n = slot + 1 → 0 < n →
      evLoop top events slot n i acc = some (acc.reverse ++ (List.range' i n).filter (fun j => events.contains j)) := by
  intro n
  induction n with
  | zero => intro i acc _ h; omega
  | succ n ih =>
    intro i acc hin _
    have hle : i ≤ slot := by omega
    unfold evLoop
    rw [if_pos hle]
    by_cases he : i = slot
    · have hn : n = 0 := by omega
      subst hn
      simp only [he, beq_self_eq_true, if_true, evProbe_reverse]
      simp [List.range']
    · have hb : (i == slot) = false := by simpa using he
      rw [hb]
      simp only [Bool.false_eq_true, if_false]
      have hnext : evNext top i = i + 1 := by unfold evNext; rw [if_pos (by omega)]
      rw [hnext, ih (i + 1) _ (by omega) (by omega), evProbe_reverse]
      simp only [List.range'_succ, List.filter_cons, List.append_assoc]
      split <;> simp

/-- The loop as it was, below the top of the slot type: same result, one more evaluation of the loop condition. -/
theorem evLoopOld_spec (top : Nat) (events : List Nat) (slot : Nat) (hs : slot < top) :
    ∀ (n i : Nat) (acc : List Nat), i + n = slot + 1 →
      evLoopOld top events slot (n + 1) i acc = some (acc.reverse ++ (List.range' i n).filter (fun j => events.contains j)) := by
  intro n
  induction n with
  | zero =>
    intro i acc hin
    unfold evLoopOld
    rw [if_neg (by omega)]
    simp [List.range']
  | succ n ih =>
    intro i acc hin
    unfold evLoopOld
    rw [if_pos (by omega)]
    have hnext : evNext top i = i + 1 := by unfold evNext; rw [if_pos (by omega)]
    rw [hnext, ih (i + 1) _ (by omega), evProbe_reverse]
    simp only [List.range'_succ, List.filter_cons, List.append_assoc]
    split <;> simp

theorem evNext_le (top i : Nat) (h : i ≤ top) : evNext top i ≤ top := by
  unfold evNext
  split <;> omega

/-- The loop as it was with `slot` = the largest value of the slot type: whatever fuel it is given, it is still
running when the fuel is used up (`i <= slot` holds for every value of the type, `i++` wraps around). -/
theorem evLoopOld_top_never_exits (top : Nat) (events : List Nat) :
    ∀ (fuel i : Nat) (acc : List Nat), i ≤ top → evLoopOld top events top fuel i acc = none := by
  intro fuel
  induction fuel with
  | zero => intro i acc _; rfl
  | succ fuel ih =>
    intro i acc hi
    unfold evLoopOld
    rw [if_pos hi]
    exact ih _ _ (evNext_le top i hi)

end Hive.Derived
