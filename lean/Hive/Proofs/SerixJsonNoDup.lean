import Hive.Proofs.SerixJsonBase
import Hive.Spec.SerixJsonOrder
/-!
# The encoder never writes two members of one name

`nodup_ty`: whatever `mapEncode` produces — for any type, expressible or not, and any value — is a tree in which
no object has two members of the same name (`NoDupKeys`): every object is built by `orderedmap.Set`
(`objSet` / `objSetAll`), which overwrites instead of appending a second member.  This is the hypothesis
`NoDupKeys j` of `C01_json_key_order_irrelevant` for every document the encoder itself wrote; for documents
that went through `json.Unmarshal` it holds because a `map[string]any` cannot have duplicate keys.
-/
namespace Hive.SerixJson

variable (fc : FloatCodec) (o : Opts)

/-- closes a goal whose hypothesis `h` equates two `Except` constructors: an impossible one, or a leaf document. -/
macro "leaf" : tactic => `(tactic|
  first
  | (cases ‹_ = Except.ok _› <;> first | exact .str _ | exact .num _ | exact .bool _ | exact .arr .nil)
  | skip)

/-- an object under construction: distinct member names, every member value free of duplicates. -/
def GoodObj (ms : List (String × Json)) : Prop := (keys ms).Nodup ∧ NoDupKeysM ms

theorem good_nil : GoodObj [] := ⟨by simp [keys], .nil⟩

theorem keys_objSet (k : String) (j : Json) : ∀ (acc : List (String × Json)),
    keys (objSet acc k j) = if k ∈ keys acc then keys acc else keys acc ++ [k]
  | [] => by simp [objSet, keys]
  | (k0, x) :: ms => by
    simp only [objSet]
    by_cases hk : k0 = k
    · subst hk
      simp [keys]
    · have ih := keys_objSet k j ms
      simp only [hk, if_false]
      simp only [keys, List.map_cons, List.mem_cons] at ih ⊢
      rw [ih]
      by_cases hm : k ∈ List.map (fun x => x.1) ms
      · simp [hm]
      · have hk' : ¬ k = k0 := fun e => hk e.symm
        simp [hm, hk']

theorem objSet_NoDupKeysM (k : String) {j : Json} (hj : NoDupKeys j) : ∀ (acc : List (String × Json)),
    NoDupKeysM acc → NoDupKeysM (objSet acc k j)
  | [], _ => .cons hj .nil
  | (k0, x) :: ms, h => by
    cases h with
    | cons hx hm =>
      simp only [objSet]
      by_cases hk : k0 = k
      · simp only [hk, if_true]
        exact .cons hj hm
      · simp only [hk, if_false]
        exact .cons hx (objSet_NoDupKeysM k hj ms hm)

theorem good_objSet {acc : List (String × Json)} (k : String) {j : Json} (ha : GoodObj acc) (hj : NoDupKeys j) :
    GoodObj (objSet acc k j) := by
  refine ⟨?_, objSet_NoDupKeysM k hj acc ha.2⟩
  rw [keys_objSet]
  by_cases hm : k ∈ keys acc
  · simp only [hm, if_true]
    exact ha.1
  · simp only [hm, if_false]
    rw [List.nodup_append]
    refine ⟨ha.1, by simp, ?_⟩
    intro a ha' b hb
    simp only [List.mem_singleton] at hb
    subst hb
    intro e
    subst e
    exact hm ha'

theorem good_objSetAll : ∀ (inner acc : List (String × Json)), GoodObj acc → NoDupKeysM inner →
    GoodObj (objSetAll acc inner)
  | [], acc, ha, _ => by simpa [objSetAll] using ha
  | (k, x) :: ms, acc, ha, h => by
    cases h with
    | cons hx hm =>
      simp only [objSetAll, List.foldl_cons]
      exact good_objSetAll ms _ (good_objSet k ha hx) hm

theorem NoDupKeysM_of_forall : ∀ (ps : List (String × Json)), (∀ p ∈ ps, NoDupKeys p.2) → NoDupKeysM ps
  | [], _ => .nil
  | (k, x) :: ps, h =>
    .cons (h (k, x) List.mem_cons_self) (NoDupKeysM_of_forall ps (fun p hp => h p (List.mem_cons_of_mem _ hp)))

theorem NoDupKeysL_of_mapM (f : Val → Except Err Json) :
    ∀ (xs : List Val) (js : List Json), (∀ x ∈ xs, ∀ j, f x = .ok j → NoDupKeys j) → xs.mapM f = .ok js →
      NoDupKeysL js
  | [], js, _, h => by
    simp at h
    subst h
    exact .nil
  | x :: xs, js, hx, h => by
    obtain ⟨j, js0, hj, hjs0, rfl⟩ := (mapM_cons_ok _ _ _ _).mp h
    exact .cons (hx x List.mem_cons_self j hj)
      (NoDupKeysL_of_mapM f xs js0 (fun x' hx' => hx x' (List.mem_cons_of_mem _ hx')) hjs0)

theorem entries_members (fk fv : Val → Except Err Json) :
    ∀ (es : List (Val × Val)) (ps : List (String × Json)),
      (∀ p ∈ es, ∀ j, fv p.2 = .ok j → NoDupKeys j) →
      es.mapM (fun (p : Val × Val) => do
        let kj ← fk p.1
        let vj ← fv p.2
        let ks ← keyString kj
        pure (ks, vj)) = .ok ps → ∀ q ∈ ps, NoDupKeys q.2
  | [], ps, _, h => by
    simp at h
    subst h
    simp
  | p :: es, ps, hv, h => by
    obtain ⟨q, ps0, hq, hps0, rfl⟩ := (mapM_cons_ok _ _ _ _).mp h
    obtain ⟨kj, _, hq⟩ := bind_eq_ok.mp hq
    obtain ⟨vj, hvj, hq⟩ := bind_eq_ok.mp hq
    obtain ⟨ks, _, hq⟩ := bind_eq_ok.mp hq
    simp only [pure_eq_ok, Except.ok.injEq] at hq
    subst hq
    intro q' hq'
    rcases List.mem_cons.mp hq' with rfl | hq'
    · exact hv p List.mem_cons_self vj hvj
    · exact entries_members fk fv es ps0 (fun p' hp' => hv p' (List.mem_cons_of_mem _ hp')) hps0 q' hq'

theorem encTypedBytes_nodup {viaPtr : Bool} {n : Option Nat} {code : Nat} {key : String} {v : Val} {j : Json}
    (h : encTypedBytes viaPtr n code key v = .ok j) : NoDupKeys j := by
  have hobj : ∀ s : String, NoDupKeys (.obj (objSet [("type", .num code)] key (.str s))) := fun s => by
    have hg : GoodObj (objSet [("type", Json.num code)] key (.str s)) :=
      good_objSet key ⟨by simp [keys], .cons (.num _) .nil⟩ (.str s)
    exact .obj hg.1 hg.2
  cases v <;> simp only [encTypedBytes] at h <;> leaf
  all_goals
    repeat' split at h
    all_goals first
      | (cases ‹_ = Except.ok _›; done)
      | (simp only [Except.ok.injEq] at h; subst h; exact hobj _)

theorem checkLen_bind_ok {b : Bounds} {n : Nat} {x : Except Err Json} {j : Json}
    (h : (checkLen o b n >>= fun _ => x) = .ok j) : x = .ok j := by
  obtain ⟨_, _, h⟩ := bind_eq_ok.mp h
  exact h

mutual
theorem nodup_ty : ∀ (t : JTy) (v : Val) (j : Json), mapEncode fc o t v = .ok j → NoDupKeys j
  | .bool, v, j, h => by
    cases v <;> simp only [mapEncode] at h <;> leaf
  | .uint w, v, j, h => by
    cases v <;> simp only [mapEncode] at h <;> leaf
    repeat' split at h
    all_goals leaf
  | .int w, v, j, h => by
    cases v <;> simp only [mapEncode] at h <;> leaf
    repeat' split at h
    all_goals leaf
  | .float w, v, j, h => by
    cases v <;> simp only [mapEncode] at h <;> leaf
  | .str b, v, j, h => by
    cases v <;> simp only [mapEncode] at h <;> leaf
    have := checkLen_bind_ok o h
    simp only [pure_eq_ok, Except.ok.injEq] at this
    subst this
    exact .str _
  | .bytes b, v, j, h => by
    cases v <;> simp only [mapEncode] at h <;> leaf
    all_goals
      have := checkLen_bind_ok o h
      simp only [pure_eq_ok, Except.ok.injEq] at this
      subst this
      exact .str _
  | .byteArr viaPtr n, v, j, h => by
    cases viaPtr <;> cases v <;> simp only [mapEncode] at h <;> leaf
    all_goals
      split at h <;> leaf
  | .typedBytes viaPtr n code key, v, j, h => by
    simp only [mapEncode] at h
    exact encTypedBytes_nodup h
  | .u256, v, j, h => by
    cases v <;> simp only [mapEncode] at h <;> leaf
  | .time, v, j, h => by
    cases v <;> simp only [mapEncode, encTime] at h <;> leaf
    repeat' split at h
    all_goals leaf
  | .slice b e, v, j, h => by
    cases v <;> simp only [mapEncode] at h <;> leaf
    · have := checkLen_bind_ok o h
      simp only [pure_eq_ok, Except.ok.injEq] at this
      subst this
      exact .arr .nil
    · rename_i xs
      have h' := checkLen_bind_ok o h
      unfold encList at h'
      obtain ⟨js, hjs, rfl⟩ := map_eq_ok.mp h'
      exact .arr (NoDupKeysL_of_mapM (mapEncode fc o e) xs js (fun x _ j hj => nodup_ty e x j hj) hjs)
  | .array n e, v, j, h => by
    cases v <;> simp only [mapEncode] at h <;> leaf
    rename_i xs
    split at h
    · unfold encList at h
      obtain ⟨js, hjs, rfl⟩ := map_eq_ok.mp h
      exact .arr (NoDupKeysL_of_mapM (mapEncode fc o e) xs js (fun x _ j hj => nodup_ty e x j hj) hjs)
    · cases h
  | .map b k e, v, j, h => by
    cases v <;> simp only [mapEncode] at h <;> leaf
    · have := checkLen_bind_ok o h
      simp only [pure_eq_ok, Except.ok.injEq] at this
      subst this
      exact .obj (by simp [keys]) .nil
    · rename_i es
      have h' := checkLen_bind_ok o h
      unfold encEntries at h'
      obtain ⟨ps, hps, rfl⟩ := map_eq_ok.mp h'
      have hmem := entries_members (mapEncode fc o k) (mapEncode fc o e) es ps
        (fun p _ j hj => nodup_ty e p.2 j hj) hps
      have hg := good_objSetAll ps [] good_nil (NoDupKeysM_of_forall ps hmem)
      exact .obj hg.1 hg.2
  | .struct code fs, v, j, h => by
    cases v <;> simp only [mapEncode] at h <;> leaf
    rename_i vs
    obtain ⟨ms, hms, rfl⟩ := map_eq_ok.mp h
    have hg0 : GoodObj (typeMember code) := by
      cases code with
      | none => exact good_nil
      | some c => exact ⟨by simp [typeMember, keys], .cons (.num _) .nil⟩
    have hg := nodup_fields fs vs (typeMember code) ms hg0 hms
    exact .obj hg.1 hg.2
  | .ptr t, v, j, h => by
    cases v <;> simp only [mapEncode] at h <;> leaf
    rename_i x
    split at h
    · exact nodup_ty t x j h
    · cases h
  | .iface alts, v, j, h => by
    cases v <;> simp only [mapEncode] at h <;> leaf
    rename_i c x
    exact nodup_alts alts c x j h
theorem nodup_fields : ∀ (fs : Fields) (vs : List Val) (acc ms : List (String × Json)), GoodObj acc →
    encFields fc o fs vs acc = .ok ms → GoodObj ms
  | .nil, vs, acc, ms, ha, h => by
    cases vs <;> simp only [encFields, Except.ok.injEq] at h <;> leaf
    subst h
    exact ha
  | .named key opt omt t rest, vs, acc, ms, ha, h => by
    cases vs with
    | nil => simp [encFields] at h
    | cons v vs =>
      simp only [encFields] at h
      split at h
      · exact nodup_fields rest vs acc ms ha h
      · split at h
        · exact nodup_fields rest vs acc ms ha h
        · obtain ⟨j, hj, h⟩ := bind_eq_ok.mp h
          have hjn : NoDupKeys j := by
            cases hb : t.byValueTyped with
            | some nc =>
              simp only [hb] at hj
              exact encTypedBytes_nodup hj
            | none =>
              simp only [hb] at hj
              exact nodup_ty t v j hj
          exact nodup_fields rest vs (objSet acc key j) ms (good_objSet key ha hjn) h
  | .embedded viaPtr fs rest, vs, acc, ms, ha, h => by
    cases vs with
    | nil => cases viaPtr <;> simp [encFields] at h
    | cons v vs =>
      cases viaPtr
      · cases v <;> simp only [encFields] at h <;> leaf
        rename_i xs
        obtain ⟨a1, ha1, h⟩ := bind_eq_ok.mp h
        exact nodup_fields rest vs a1 ms (nodup_fields fs xs acc a1 ha ha1) h
      · cases v with
        | some x =>
          cases x <;> simp only [encFields] at h <;> leaf
          rename_i xs
          obtain ⟨a1, ha1, h⟩ := bind_eq_ok.mp h
          exact nodup_fields rest vs a1 ms (nodup_fields fs xs acc a1 ha ha1) h
        | _ => simp [encFields] at h
  | .inlined code fs rest, vs, acc, ms, ha, h => by
    cases vs with
    | nil => simp [encFields] at h
    | cons v vs =>
      cases v <;> simp only [encFields] at h <;> leaf
      rename_i xs
      obtain ⟨inner, hinner, h⟩ := bind_eq_ok.mp h
      have hg0 : GoodObj (typeMember code) := by
        cases code with
        | none => exact good_nil
        | some c => exact ⟨by simp [typeMember, keys], .cons (.num _) .nil⟩
      have hgi := nodup_fields fs xs (typeMember code) inner hg0 hinner
      exact nodup_fields rest vs (objSetAll acc inner) ms (good_objSetAll inner acc ha hgi.2) h
theorem nodup_alts : ∀ (alts : Alts) (c : Nat) (v : Val) (j : Json), encAlt fc o alts c v = .ok j → NoDupKeys j
  | .nil, _, _, _, h => by simp [encAlt] at h
  | .cons c0 t rest, c, v, j, h => by
    simp only [encAlt] at h
    split at h
    · exact nodup_ty t v j h
    · exact nodup_alts rest c v j h
end

end Hive.SerixJson
