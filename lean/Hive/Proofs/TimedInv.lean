import Hive.Proofs.TimedEff
/-!
# The safety invariant of the C18 protocol model

`Inv s ts` relates the shared state to the thread pool:

* every element (serial) is in at most one place before its delivery — the heap, a poller that
  popped it, or the log as delivered (`a1`); callbacks run only for delivered elements (`b1`);
* serials are allocated freshly (`heap_ok`, `th_ok`, `fresh`, `r_lt`);
* a poller that committed to an element does so only when its time has come or
  `IgnorePendingTimeouts` was given (`TOk`, `ign`);
* a completed `Cancel` leaves the channel closed (`c1`);
* a registered element was neither revoked nor run, is registered under its own identifier and
  only there (`r_rev`, `r_id`, `r_inj`);
* the log satisfies the trace predicate `okLog` (`ok`).
-/
namespace Hive.Timed
open Hive.Conc

def tsum (f : Th → Nat) (ts : List Th) : Nat := (ts.map f).sum

theorem tsum_mid (f : Th → Nat) (pre post : List Th) (t : Th) :
    tsum f (pre ++ t :: post) = tsum f pre + f t + tsum f post := by
  simp [tsum, List.map_append, List.sum_append]; omega

theorem tsum_zero {f : Th → Nat} {ts : List Th} (h : ∀ t ∈ ts, f t = 0) : tsum f ts = 0 := by
  induction ts with
  | nil => rfl
  | cons a l ih =>
    simp only [tsum, List.map_cons, List.sum_cons]
    have h1 := h a (by simp)
    have h2 : tsum f l = 0 := ih (fun t ht => h t (by simp [ht]))
    simp only [tsum] at h2
    omega

theorem tsum_pos {f : Th → Nat} {ts : List Th} (h : 0 < tsum f ts) : ∃ t ∈ ts, 0 < f t := by
  induction ts with
  | nil => simp [tsum] at h
  | cons a l ih =>
    simp only [tsum, List.map_cons, List.sum_cons] at h
    by_cases ha : 0 < f a
    · exact ⟨a, by simp, ha⟩
    · have : 0 < tsum f l := by simp only [tsum]; omega
      obtain ⟨t, ht, hp⟩ := ih this
      exact ⟨t, by simp [ht], hp⟩

theorem tsum_ge {f : Th → Nat} {ts : List Th} {t : Th} (h : t ∈ ts) : f t ≤ tsum f ts := by
  induction ts with
  | nil => simp at h
  | cons a l ih =>
    simp only [tsum, List.map_cons, List.sum_cons]
    rcases List.mem_cons.mp h with rfl | h'
    · omega
    · have := ih h'; simp only [tsum] at this; omega

/-- occurrences of serial `x` in the heap -/
def hc (x : Nat) (h : List Elem) : Nat := h.countP (fun e => e.serial == x)

/-- the poller holds `x`, popped and not yet delivered -/
def pre (x : Nat) : Th → Nat
  | .hk e => if e.serial = x then 1 else 0
  | .sel e => if e.serial = x then 1 else 0
  | .selSD e => if e.serial = x then 1 else 0
  | .chk e => if e.serial = x then 1 else 0
  | _ => 0

/-- `Poll` returned `x`, its callback has not started -/
def wr (x : Nat) : Th → Nat
  | .wrap e => if e.serial = x then 1 else 0
  | _ => 0

def dc (x : Nat) (log : List Ev) : Nat := log.countP (Ev.isDeliver x)
def rc (x : Nat) (log : List Ev) : Nat := log.countP (Ev.isRun x)

/-- The identifier of `x` according to the log. -/
def idOf (x : Nat) : List Ev → Option (Option Nat)
  | [] => none
  | .sched y i _ :: rest => if y == x then some i else idOf x rest
  | _ :: rest => idOf x rest

/-- An element is known to the log with its own time and identifier. -/
def Known (s : Sh) (e : Elem) : Prop :=
  e.serial < s.next ∧ dueOf e.serial s.log = some e.due ∧ idOf e.serial s.log = some e.id

/-- The element may be handed out now. -/
def Ready (s : Sh) (e : Elem) : Prop := e.due ≤ s.clock ∨ s.flags.ignore = true

/-- Per-thread part of the invariant. -/
def TOk (s : Sh) : Th → Prop
  | .hk e => Known s e
  | .sel e => Known s e
  | .selSD e => Known s e
  | .chk e => Known s e ∧ Ready s e
  | .wrap e => Known s e ∧ Ready s e
  | _ => True

structure Inv (s : Sh) (ts : List Th) : Prop where
  a1 : ∀ x, hc x s.heap + tsum (pre x) ts + dc x s.log ≤ 1
  b1 : ∀ x, tsum (wr x) ts + rc x s.log ≤ dc x s.log
  fresh : ∀ x, s.next ≤ x → dc x s.log = 0 ∧ s.log.any (Ev.isRevoke x) = false ∧ dueOf x s.log = none
  heap_ok : ∀ e ∈ s.heap, Known s e
  th_ok : ∀ t ∈ ts, TOk s t
  c1 : ∀ x, s.log.any (Ev.isCancelled x) = true → x ∈ s.closed
  ign : s.flags.ignore = true → s.log.any Ev.isIgnoreShutdown = true
  r_lt : ∀ i x, regGet s.reg i = some x → x < s.next
  r_rev : ∀ i x, regGet s.reg i = some x → s.log.any (Ev.isRevoke x) = false ∧ rc x s.log = 0
  r_id : ∀ i x, regGet s.reg i = some x → idOf x s.log = some (some i)
  r_inj : ∀ i j x, regGet s.reg i = some x → regGet s.reg j = some x → i = j
  rev_id : ∀ x, s.log.any (Ev.isRevoke x) = true → ∃ i, idOf x s.log = some (some i)
  ok : okLog s.log = true

/-! ## small facts -/

theorem any_false_of_countP {α : Type} {p : α → Bool} {l : List α} (h : l.countP p = 0) : l.any p = false := by
  rw [List.countP_eq_zero] at h
  simp only [List.any_eq_false]
  intro a ha
  exact h a ha

theorem countP_zero_of_any {α : Type} {p : α → Bool} {l : List α} (h : l.any p = false) : l.countP p = 0 := by
  rw [List.countP_eq_zero]
  simp only [List.any_eq_false] at h
  exact h

theorem hc_perm {x : Nat} {a b : List Elem} (h : a.Perm b) : hc x a = hc x b := h.countP_eq _

theorem hc_cons (x : Nat) (e : Elem) (h : List Elem) : hc x (e :: h) = hc x h + if e.serial = x then 1 else 0 := by
  simp [hc, List.countP_cons]

theorem hc_zero_of_forall {x : Nat} {h : List Elem} (hh : ∀ e ∈ h, e.serial ≠ x) : hc x h = 0 := by
  unfold hc
  rw [List.countP_eq_zero]
  intro e he
  simpa using hh e he

theorem hc_pos_mem {x : Nat} {h : List Elem} (hp : 0 < hc x h) : ∃ e ∈ h, e.serial = x := by
  unfold hc at hp
  rw [List.countP_pos_iff] at hp
  obtain ⟨e, he, hx⟩ := hp
  exact ⟨e, he, by simpa using hx⟩

theorem hc_ge_mem {x : Nat} {h : List Elem} {e : Elem} (he : e ∈ h) (hx : e.serial = x) : 0 < hc x h := by
  unfold hc
  rw [List.countP_pos_iff]
  exact ⟨e, he, by simpa using hx⟩

/-- Prepending events that schedule nothing below `n` leaves what the log knows about `x < n`. -/
theorem dueOf_append {x : Nat} {new log : List Ev} (h : ∀ y i d, Ev.sched y i d ∈ new → y ≠ x) :
    dueOf x (new ++ log) = dueOf x log := by
  induction new with
  | nil => rfl
  | cons ev new ih =>
    have ih' := ih (fun y i d hm => h y i d (by simp [hm]))
    cases ev with
    | sched y i d =>
      have : y ≠ x := h y i d (by simp)
      simp [dueOf, this, ih']
    | _ => simpa [dueOf] using ih'

theorem idOf_append {x : Nat} {new log : List Ev} (h : ∀ y i d, Ev.sched y i d ∈ new → y ≠ x) :
    idOf x (new ++ log) = idOf x log := by
  induction new with
  | nil => rfl
  | cons ev new ih =>
    have ih' := ih (fun y i d hm => h y i d (by simp [hm]))
    cases ev with
    | sched y i d =>
      have : y ≠ x := h y i d (by simp)
      simp [idOf, this, ih']
    | _ => simpa [idOf] using ih'

/-- `s'` extends `s`: the clock and the allocation counter only grow, the log grows at the front
by events that schedule only fresh serials, closed channels stay closed, the ignore flag stays. -/
structure Ext (s s' : Sh) : Prop where
  next_le : s.next ≤ s'.next
  clock_le : s.clock ≤ s'.clock
  ign : s.flags.ignore = true → s'.flags.ignore = true
  log : ∃ new, s'.log = new ++ s.log ∧ ∀ y i d, Ev.sched y i d ∈ new → s.next ≤ y

theorem Ext.refl (s : Sh) : Ext s s := ⟨Nat.le_refl _, Nat.le_refl _, id, [], rfl, by simp⟩

theorem Known.ext {s s' : Sh} {e : Elem} (h : Known s e) (x : Ext s s') : Known s' e := by
  obtain ⟨new, hl, hn⟩ := x.log
  obtain ⟨h1, h2, h3⟩ := h
  have hne : ∀ y i d, Ev.sched y i d ∈ new → y ≠ e.serial := by
    intro y i d hm; have := hn y i d hm; omega
  refine ⟨by have := x.next_le; omega, ?_, ?_⟩
  · rw [hl, dueOf_append hne]; exact h2
  · rw [hl, idOf_append hne]; exact h3

theorem Ready.ext {s s' : Sh} {e : Elem} (h : Ready s e) (x : Ext s s') : Ready s' e := by
  rcases h with h | h
  · left; have := x.clock_le; omega
  · right; exact x.ign h

theorem TOk.ext {s s' : Sh} {t : Th} (h : TOk s t) (x : Ext s s') : TOk s' t := by
  cases t <;> simp only [TOk] at * <;> first | trivial | exact h.ext x | exact ⟨h.1.ext x, h.2.ext x⟩

end Hive.Timed
