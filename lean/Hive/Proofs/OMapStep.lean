import Hive.Proofs.OMapPtr
import Hive.Proofs.OMapIter
import Hive.Spec.OMap
/-!
# One step of an iteration from a live entry (C11)

`ForEach` reads `currentEntry.next` under the lock *after* the consumer returned.  If the current entry is still
linked at that moment, the pointer leads to the entry of the key that follows it in insertion order (none at the
tail); `ForEachReverse` symmetrically.
-/
namespace Hive.OMap
namespace PMap

theorem seg_split_node {h : List Node} {pre post : List Nat} {i : Nat} {pv nx : Option Nat}
    (hs : Seg h pv (pre ++ i :: post) nx) :
    ∃ n, h[i]? = some n ∧ n.prev = (pre.getLast?).or pv ∧ n.next = (post.head?).or nx := by
  rw [seg_append] at hs
  obtain ⟨_, ⟨n, hn, h1, h2⟩, _⟩ := hs
  exact ⟨n, hn, h1, h2⟩

theorem step_of_split {p : PMap} (hp : PInv p) {d1 d2 : List (Nat × Nat)} {k i : Nat}
    (hsplit : p.dict = d1 ++ (k, i) :: d2) :
    (p.stepCursor true i).map (keyOf p.heap) = (AMap.keys d2).head? ∧
    (p.stepCursor false i).map (keyOf p.heap) = (AMap.keys d1).getLast? := by
  have hids : ids p = d1.map (·.2) ++ i :: d2.map (·.2) := by simp [ids, hsplit]
  have hs := hp.linked
  rw [hids] at hs
  obtain ⟨n, hn, hpv, hnx⟩ := seg_split_node hs
  have hk : ∀ e ∈ p.dict, keyOf p.heap e.2 = e.1 := hp.keyOk
  constructor
  · simp only [stepCursor, hn, if_true, hnx, Option.or_none]
    cases d2 with
    | nil => simp [AMap.keys]
    | cons e r =>
      have := hk e (by rw [hsplit]; simp)
      simp [AMap.keys, this]
  · simp only [stepCursor, hn, Bool.false_eq_true, if_false, hpv, Option.or_none]
    rcases List.eq_nil_or_concat d1 with h1 | ⟨r, e, h1⟩
    · subst h1; simp [AMap.keys]
    · subst h1
      have := hk e (by rw [hsplit]; simp)
      simp [AMap.keys, this]

theorem iteration_step_run (h : List MOp) (d1 d2 : List (Nat × Nat)) (k i : Nat)
    (hsplit : (PMap.run h).dict = d1 ++ (k, i) :: d2) :
    AMap.keys (AMap.run h) = AMap.keys d1 ++ k :: AMap.keys d2 ∧
    ((PMap.run h).stepCursor true i).map (keyOf (PMap.run h).heap) = (AMap.keys d2).head? ∧
    ((PMap.run h).stepCursor false i).map (keyOf (PMap.run h).heap) = (AMap.keys d1).getLast? := by
  obtain ⟨habs, hinv⟩ := run_refines h
  refine ⟨?_, step_of_split hinv hsplit⟩
  rw [← habs, keys_abs, hsplit]
  simp [AMap.keys]

/-! ## `s.DeleteAll(s)`: the consumer of every entry deletes that very entry

The iteration then always stands on an entry that has just been unlinked and follows its *stale* `next` pointer —
which still leads to the old successor, by now the head of the chain. -/

/-- the writers of `s.DeleteAll(s)` / `s.Apply(deleted = s)`: visit number `j` deletes the key it is shown -/
def delSelfScript (keys : List Nat) : List (List MOp × Bool) := keys.map (fun k => ([MOp.del k], false))

theorem weakWalk_deleteSelf : ∀ (d : List (Nat × Nat)) (p : PMap), PInv p → p.dict = d → ∀ fuel, d.length < fuel →
    ((weakWalk true fuel p p.head (delSelfScript (AMap.keys d))).2.1.map (·.2.1) = AMap.keys d ∧
     (weakWalk true fuel p p.head (delSelfScript (AMap.keys d))).2.2 = true ∧
     (weakWalk true fuel p p.head (delSelfScript (AMap.keys d))).1.dict = [])
  | [], p, hp, hd, fuel, hf => by
    have hh : p.head = none := by rw [hp.head]; simp [ids, hd]
    obtain ⟨f, rfl⟩ : ∃ f, fuel = f + 1 := ⟨fuel - 1, by omega⟩
    rw [hh]
    simp [weakWalk, AMap.keys, hd]
  | (k, i) :: d2, p, hp, hd, fuel, hf => by
    obtain ⟨f, rfl⟩ : ∃ f, fuel = f + 1 := ⟨fuel - 1, by simp at hf; omega⟩
    have hids : ids p = [] ++ i :: d2.map (·.2) := by simp [ids, hd]
    have hh : p.head = some i := by rw [hp.head, hids]; rfl
    have hs := hp.linked
    rw [hids] at hs
    obtain ⟨n, hn, hpv, hnx⟩ := seg_split_node hs
    simp only [List.getLast?_nil, Option.or_none, Option.none_or] at hpv hnx
    have hkey : n.key = k := by
      have := hp.keyOk (k, i) (by rw [hd]; simp)
      simpa [keyOf, hn] using this
    have hget : AMap.get p.dict k = some i := by rw [hd]; simp [AMap.get]
    obtain ⟨hheap, hdict⟩ := delete_found hget hn
    have hinv' : PInv (p.delete k).1 := (delete_refines hp k).2.2
    have hd' : (p.delete k).1.dict = d2 := by
      rw [hdict, hd]
      have := remove_split (d1 := []) (d2 := d2) (k := k) (i := i) (by rw [List.nil_append, ← hd]; exact hp.nodupK)
      simpa using this
    have hstep : stepCursor (p.delete k).1 true i = (p.delete k).1.head := by
      have h1 : nextAt (p.delete k).1.heap i = some n.next := by
        rw [hheap, nextAt_unlink, hpv]; simp [nextAt, hn]
      rw [stepCursor_of_nextAt h1, hinv'.head, hnx]
      simp [ids, hd']
    have ih := weakWalk_deleteSelf d2 (p.delete k).1 hinv' hd' f (by simp at hf; omega)
    rw [hh]
    simp only [weakWalk, hn, delSelfScript, AMap.keys, List.map_cons, List.headD_cons, List.tail_cons, applyOps,
      List.foldl_cons, List.foldl_nil, applyOp, Bool.false_eq_true, if_false, hstep]
    simp only [delSelfScript, AMap.keys] at ih
    exact ⟨by rw [ih.1, hkey], ih.2.1, ih.2.2⟩

theorem deleteSelf_run (h : List MOp) (fuel : Nat) (hf : (AMap.run h).length < fuel) :
    let r := weakWalk true fuel (PMap.run h) (PMap.run h).head (delSelfScript (AMap.keys (AMap.run h)))
    r.2.1.map (·.2.1) = AMap.keys (AMap.run h) ∧ r.2.2 = true ∧ r.1.dict = [] := by
  obtain ⟨habs, hinv⟩ := run_refines h
  have hk : AMap.keys (AMap.run h) = AMap.keys (PMap.run h).dict := by rw [← habs, keys_abs]
  have hl : (AMap.run h).length = (PMap.run h).dict.length := by rw [← habs]; simp [abs]
  intro r
  have := weakWalk_deleteSelf (PMap.run h).dict (PMap.run h) hinv rfl fuel (by omega)
  rw [← hk] at this
  exact this

end PMap

/-- the abstract model of `s.DeleteAll(s)` (argument = the receiver's own contents): nothing is left, everything is reported -/
theorem deleteAll_self (s : ASet) :
    (deleteAll s (elems s)).1 = [] ∧ (∀ x, x ∈ elems (deleteAll s (elems s)).2 ↔ x ∈ elems s) := by
  constructor
  · have : ∀ x, x ∉ elems (deleteAll s (elems s)).1 := fun x hx => by
      rw [deleteAll_eq, mem_delFold_fst] at hx; exact hx.2 hx.1
    cases hd : (deleteAll s (elems s)).1 with
    | nil => rfl
    | cons e r => exact absurd (by rw [hd]; simp [elems, AMap.keys]) (this e.1)
  · intro x
    rw [deleteAll_eq, mem_delFold_snd]
    simp [elems_nil]

end Hive.OMap
