import Hive.Model.DerivedCatalogue
import Hive.Proofs.DerivedLockSys
/-! # The derived catalogue is ranked and disciplined; deadlock freedom of every pool of catalogue calls -/
namespace Hive.Derived.Scr
open Hive.Derived Hive.Conc

/-- Every template computed from the regenerated skeletons respects the lock ranks (closed computation). -/
theorem template_ranked (c : Call2) : TRanked [] c.template = true := by
  cases c with
  | dvWrite2 k => revert k; decide
  | dvWrite3 k => revert k; decide
  | dvWrite4 k => revert k; decide
  | dvUnsubscribe k => revert k; decide
  | _ => decide

/-- Execution locks are only created (`fresh`) or taken conditionally, never with a plain `acq`. -/
theorem template_disciplined (c : Call2) : tDisciplined c.template = true := by
  cases c with
  | dvWrite2 k => revert k; decide
  | dvWrite3 k => revert k; decide
  | dvWrite4 k => revert k; decide
  | dvUnsubscribe k => revert k; decide
  | _ => decide

theorem script_ranked (c : Call2) (i : Inst) : Ranked2 [] (c.script i) :=
  tranked_inst i.σ i.inj _ (template_ranked c)

theorem script_disciplined (c : Call2) (i : Inst) : ClsDisciplined (c.script i) :=
  disciplined_inst i.σ _ (template_disciplined c)

theorem threadOf2_ranked (calls : List (Call2 × Inst)) : Ranked2 [] (threadOf2 calls).script := by
  show Ranked2 [] (calls.flatMap (fun p => p.1.script p.2))
  exact ranked2_flatMap (fun p : Call2 × Inst => p.1.script p.2) (fun p => script_ranked p.1 p.2) calls

theorem threadOf2_disciplined (calls : List (Call2 × Inst)) : ClsDisciplined (threadOf2 calls).script := by
  show ClsDisciplined (calls.flatMap (fun p => p.1.script p.2))
  exact clsDisciplined_flatMap (fun p : Call2 × Inst => p.1.script p.2) (fun p => script_disciplined p.1 p.2) calls

/-- Any pool of goroutines, each making any sequence of catalogue calls on any instances: no deadlock,
provided every subscription (fresh execution lock) is created once and is not visible beforehand. -/
theorem catalogue_deadlock_free (vis0 : List Lock) (pool : List (List (Call2 × Inst)))
    (hn : ((pool.map threadOf2).flatMap (fun t => freshOf t.script)).Nodup)
    (hv : ∀ t ∈ pool.map threadOf2, ∀ l ∈ freshOf t.script, l ∉ vis0)
    (c : Cfg LS2 LT2) (hr : Reach lockSys2 ({ held := [], visible := vis0 }, pool.map threadOf2) c) :
    ¬ Deadlock lockSys2 (fun t => t.script = []) c := by
  apply ranked2_deadlock_free vis0 (pool.map threadOf2) ?_ ?_ c hr
  · intro t ht
    simp only [List.mem_map] at ht
    obtain ⟨calls, _, rfl⟩ := ht
    exact ⟨rfl, threadOf2_ranked calls⟩
  · apply poolWF_of_disciplined vis0 _ ?_ hn hv
    intro t ht
    simp only [List.mem_map] at ht
    obtain ⟨calls, _, rfl⟩ := ht
    exact threadOf2_disciplined calls

/-- the identity assignment -/
def idInst : Inst := ⟨fun r => r.tag, by
  intro r r' hc ht
  cases r; cases r'; simp_all⟩

/-- `Delete(e)` as it was (unsubscribe under `s.mutex`) derived the same way: not ranked. -/
theorem old_delete_not_ranked : TRanked [] (tSetApply sU (inV 50) sE tDeleteSortedOld) = false := by decide

def oldDeleteThreads : List LT2 :=
  [{ held := [], script := (tSetApply sU (inV 50) sE tDeleteSortedOld).map (instAct idInst.σ) },
   { held := [], script := Call2.weightWrite.script idInst }]

/-- the weight writer takes the execution lock of `e`'s subscription, the deleter takes `s.mutex`, each then
waits for the other's lock -/
def oldDeleteSched : List (Nat × Nat) :=
  [(1, 0), (1, 0), (1, 0), (1, 0), (0, 0), (0, 0), (0, 0), (0, 0), (0, 0), (0, 0), (0, 0)]

theorem old_delete_deadlock :
    Deadlock lockSys2 (fun t => t.script = [])
      (runSched lockSys2 ({ held := [], visible := [⟨.inExec, 1⟩, ⟨.setExec, 0⟩] }, oldDeleteThreads) oldDeleteSched) := by
  unfold Deadlock Stuck
  decide

/-- Non-vacuity: a pool that creates two subscriptions and uses them satisfies the hypotheses. -/
example :
    let pool : List (List (Call2 × Inst)) :=
      [[(.sortedAdd, idInst), (.sortedDelete, idInst)], [(.weightWrite, idInst)], [(.dvConstruct2, ⟨fun r => r.tag + 10, by
          intro r r' hc ht; cases r; cases r'; simp_all⟩), (.sortedRead, idInst)]]
    ((pool.map threadOf2).flatMap (fun t => freshOf t.script)).Nodup ∧
      ∀ t ∈ pool.map threadOf2, ∀ l ∈ freshOf t.script, l ∉ ([⟨.setExec, 0⟩] : List Lock) := by
  decide

end Hive.Derived.Scr
