import Hive.Proofs.EventsRegSim
import Hive.Proofs.EventsIter
/-!
# The weak-iteration protocol on the pointer-level ordered map (any interleaving)

`csys`: any number of iterating `Trigger` callers (read `head`; call the consumer on the element they stand on — it
receives the element's key, the hook id —; read that element's `next` pointer, whether the element is still in the list or
not), of `Hook` callers (`hooksCounter.Add(1)` + `Set`) and of `Unhook` callers (`Delete`), on the **code-level** state
(`Hive.EventsOMap.OM` + counter).  Every transition is simulated step by step by the abstract system of
`Hive.EventsIter` (element at address `a` ↔ id `a + 1`), so `C15_weak_iteration` holds of the code-level structure.
-/
namespace Hive.EventsRegSim
open Hive.Conc Hive.EventsOMap
open Hive.EventsIter (Reg Th ItPc known RegInv ThInv CfgInv)

inductive CPc
  | start
  | at (a : Nat)      -- standing on the element at address `a`, consumer not yet called
  | after (a : Nat)   -- consumer returned, about to read `element.next`
  | fin
deriving Repr, DecidableEq

inductive CTh
  | it (pc : CPc) (visited : List Nat)
  | att (v : Nat) (done : Bool)
  | del (x : Nat) (done : Bool)
deriving Repr, DecidableEq

def cpcOf : Option Nat → CPc
  | some a => .at a
  | none => .fin

def cstep (s : Code) : CTh → List (Code × CTh)
  | .it .start vs => [(s, .it (cpcOf s.m.head) vs)]
  | .it (.at a) vs => [(s, .it (.after a) (vs ++ [(keyOf s.m a).getD 0]))]
  | .it (.after a) vs => [(s, .it (cpcOf (nextOf s.m a)) vs)]
  | .it .fin _ => []
  | .att v false => [(codeStep s (.attach v), .att v true)]
  | .att _ true => []
  | .del x false => [(codeStep s (.delete x), .del x true)]
  | .del _ true => []

def csys : Sys Code CTh := { step := cstep }

def CTh.initial : CTh → Bool
  | .it .start [] => true
  | .att _ false => true
  | .del _ false => true
  | _ => false

def absPc : CPc → ItPc
  | .start => .start
  | .at a => .at (a + 1)
  | .after a => .after (a + 1)
  | .fin => .fin

def absTh : CTh → Th
  | .it pc vs => .it (absPc pc) vs
  | .att _ d => .att d
  | .del x d => .del x d

theorem absPc_cpcOf (o : Option Nat) : absPc (cpcOf o) = Hive.EventsIter.pcOf (o.map (· + 1)) := by
  cases o <;> rfl

theorem initial_abs {t : CTh} (h : t.initial = true) : (absTh t).initial = true := by
  cases t with
  | it pc vs => cases pc <;> cases vs <;> simp_all [CTh.initial, absTh, absPc, Hive.EventsIter.Th.initial]
  | att v d => cases d <;> simp_all [CTh.initial, absTh, Hive.EventsIter.Th.initial]
  | del x d => cases d <;> simp_all [CTh.initial, absTh, Hive.EventsIter.Th.initial]

/-- One code-level step is one abstract step of the same thread, and `Sim` is preserved.  The abstract thread
invariant supplies that the element the iterator stands on is known (live or frozen) and allocated. -/
theorem cstep_sim {P : List Nat} {s s' : Code} {r : Reg} {as : List Nat} {t t' : CTh}
    (h : Sim s r as) (hr : RegInv P r) (ht : ThInv P r (absTh t)) (hm : (s', t') ∈ cstep s t) :
    ∃ r' as', (r', absTh t') ∈ Hive.EventsIter.step r (absTh t) ∧ Sim s' r' as' := by
  cases t with
  | it pc vs =>
    cases pc with
    | start =>
      simp only [cstep, List.mem_singleton, Prod.mk.injEq] at hm
      obtain ⟨rfl, rfl⟩ := hm
      refine ⟨r, as, ?_, h⟩
      have e : absPc (cpcOf s'.m.head) = Hive.EventsIter.pcOf r.live.head? := by rw [absPc_cpcOf, h.head_eq]
      show (r, Th.it (absPc (cpcOf s'.m.head)) vs) ∈ [(r, Th.it (Hive.EventsIter.pcOf r.live.head?) vs)]
      rw [e]; simp
    | «at» a =>
      simp only [cstep, List.mem_singleton, Prod.mk.injEq] at hm
      obtain ⟨rfl, rfl⟩ := hm
      refine ⟨r, as, ?_, h⟩
      have hle : a + 1 ≤ r.counter := ht.2.2.2.2.1
      have hlt : a < s'.m.heap.length := by have := h.cnt; have := h.len; omega
      simp [absTh, absPc, Hive.EventsIter.step, h.keys a hlt]
    | after a =>
      simp only [cstep, List.mem_singleton, Prod.mk.injEq] at hm
      obtain ⟨rfl, rfl⟩ := hm
      refine ⟨r, as, ?_, h⟩
      have hk : known r (a + 1) := ht.2.2.2.1
      have hle : a + 1 ≤ r.counter := Hive.EventsIter.known_le hr hk
      have hlt : a < s'.m.heap.length := by have := h.cnt; have := h.len; omega
      have e : absPc (cpcOf (nextOf s'.m a)) = Hive.EventsIter.pcOf (Hive.EventsIter.next r (a + 1)) := by
        rw [absPc_cpcOf, h.next_eq hlt hk]
      show (r, Th.it (absPc (cpcOf (nextOf s'.m a))) vs) ∈ [(r, Th.it (Hive.EventsIter.pcOf (Hive.EventsIter.next r (a + 1))) vs)]
      rw [e]; simp
    | fin => simp [cstep] at hm
  | att v d =>
    cases d with
    | true => simp [cstep] at hm
    | false =>
      simp only [cstep, List.mem_singleton, Prod.mk.injEq] at hm
      obtain ⟨rfl, rfl⟩ := hm
      exact ⟨_, _, by simp [absTh, Hive.EventsIter.step, regStep], sim_attach h v⟩
  | del x d =>
    cases d with
    | true => simp [cstep] at hm
    | false =>
      simp only [cstep, List.mem_singleton, Prod.mk.injEq] at hm
      obtain ⟨rfl, rfl⟩ := hm
      obtain ⟨as', h'⟩ := sim_delete h x
      exact ⟨_, as', by simp [absTh, Hive.EventsIter.step, regStep], h'⟩

/-- Every code-level run is an abstract run of the corresponding threads, ending in related states. -/
theorem reach_sim {P : List Nat} {s0 : Code} {r0 : Reg} {as0 : List Nat} {ts : List CTh}
    (h0 : Sim s0 r0 as0) (hinv0 : CfgInv P (r0, ts.map absTh))
    {s : Code} {ts' : List CTh} (hr : Reach csys (s0, ts) (s, ts')) :
    ∃ r as, Reach Hive.EventsIter.sys (r0, ts.map absTh) (r, ts'.map absTh) ∧ Sim s r as := by
  generalize hc : (s, ts') = c at hr
  induction hr generalizing s ts' with
  | refl =>
    cases hc
    exact ⟨r0, as0, Reach.refl _, h0⟩
  | tail hab hstep ih =>
    cases hstep with
    | mk s1 pre t post s2 t2 hm =>
      cases hc
      obtain ⟨r1, as1, hreach, hsim⟩ := ih rfl
      have hinv : CfgInv P (r1, (pre ++ t :: post).map absTh) :=
        inv_induction (CfgInv P) hinv0 (fun a b ha hs => Hive.EventsIter.cfgInv_step ha hs) hreach
      have ht : ThInv P r1 (absTh t) := hinv.2 _ (by simp)
      obtain ⟨r2, as2, hm2, hsim2⟩ := cstep_sim hsim hinv.1 ht hm
      refine ⟨r2, as2, ?_, hsim2⟩
      have hs := Step.mk (S := Hive.EventsIter.sys) r1 (pre.map absTh) (absTh t) (post.map absTh) r2 (absTh t2) hm2
      simp only [List.map_append, List.map_cons] at hreach ⊢
      exact Reach.tail hreach hs

end Hive.EventsRegSim
