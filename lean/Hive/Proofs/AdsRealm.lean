import Hive.Model.AdsRealm
import Hive.Proofs.Ads
/-! Instances over different realms of one database do not interfere: frame lemmas for `load` /
`store`, disjointness of the key spaces of the code's layout. -/
namespace Hive.Ads

variable {R : Type}

/-- The four region ids of realm `r` are pairwise different. -/
def Layout.Separate (L : Layout) (r : Realm) : Prop :=
  L.raw r ≠ L.tree r ∧ L.raw r ≠ L.root r ∧ L.raw r ≠ L.size r ∧ L.tree r ≠ L.root r ∧ L.tree r ≠ L.size r ∧
    L.root r ≠ L.size r

/-- No region id of `r₂` is a region id of `r₁`. -/
def Layout.Apart (L : Layout) (r₁ r₂ : Realm) : Prop :=
  ∀ x ∈ [L.raw r₁, L.tree r₁, L.root r₁, L.size r₁], ∀ y ∈ [L.raw r₂, L.tree r₂, L.root r₂, L.size r₂], x ≠ y

theorem load_store_self (L : Layout) (db : DB R) (r : Realm) (s : St R) (h : L.Separate r) :
    load L (store L db r s) r s.trie.mem = s := by
  obtain ⟨h1, h2, h3, h4, h5, h6⟩ := h
  obtain ⟨⟨mem, disk⟩, rawKeys, size, rootKey⟩ := s
  simp only [load, store, DB.set, h1, h2, h3, h4, h5, h6, h1.symm, h2.symm, h3.symm, h4.symm, h5.symm, h6.symm, if_true, if_false]
  cases disk <;> cases size <;> cases rootKey <;> rfl

theorem load_store_other (L : Layout) (db : DB R) (r₁ r₂ : Realm) (s : St R) (mem : KV) (h : L.Apart r₁ r₂) :
    load L (store L db r₁ s) r₂ mem = load L db r₂ mem := by
  have ne : ∀ x ∈ [L.raw r₁, L.tree r₁, L.root r₁, L.size r₁], ∀ y ∈ [L.raw r₂, L.tree r₂, L.root r₂, L.size r₂],
      (y = x) = False := fun x hx y hy => eq_false (fun e => h x hx y hy e.symm)
  simp only [load, store, DB.set]
  simp [ne]

theorem layout_separate (r : Realm) : layout.Separate r := by
  simp [Layout.Separate, layout]

theorem layout_apart {r₁ r₂ : Realm} (h : r₁ ≠ r₂) : layout.Apart r₁ r₂ := by
  intro x hx y hy e
  simp only [layout, List.mem_cons, List.mem_nil_iff, or_false] at hx hy
  have key : ∀ (a b : UInt8), r₁ ++ [a] = r₂ ++ [b] → False := fun a b e' =>
    h (List.append_inj' e' rfl).1
  rcases hx with rfl | rfl | rfl | rfl <;> rcases hy with rfl | rfl | rfl | rfl <;> exact key _ _ e

/-- A call on the instance with realm `r` is the sequential step on its own state. -/
theorem stepAt_self (c : Cfg R) (db : DB R) (r : Realm) (mem : KV) (op : Op) :
    load layout (stepAt c layout db r mem op).1 r (stepAt c layout db r mem op).2.1 =
      (step c (load layout db r mem) op).1 ∧
    (stepAt c layout db r mem op).2.2 = (step c (load layout db r mem) op).2 := by
  simp only [stepAt]
  exact ⟨load_store_self layout db r _ (layout_separate r), trivial⟩

/-- … and leaves the state of every instance with another realm alone. -/
theorem stepAt_other (c : Cfg R) (db : DB R) (r₁ r₂ : Realm) (mem₁ mem₂ : KV) (op : Op) (h : r₁ ≠ r₂) :
    load layout (stepAt c layout db r₁ mem₁ op).1 r₂ mem₂ = load layout db r₂ mem₂ := by
  simp only [stepAt]
  exact load_store_other layout db r₁ r₂ _ mem₂ (layout_apart h)

/-! ## interleaved histories of any number of instances in one database -/

/-- The database and the in-memory trie contents of the instance of every realm. -/
abbrev World (R : Type) := DB R × (Realm → KV)

def stepW (c : Cfg R) (w : World R) (x : Realm × Op) : World R :=
  let res := stepAt c layout w.1 x.1 (w.2 x.1) x.2
  (res.1, fun r => if r = x.1 then res.2.1 else w.2 r)

def runW (c : Cfg R) (w : World R) (ops : List (Realm × Op)) : World R := ops.foldl (stepW c) w

/-- The calls of the instance with realm `r` among an interleaved history. -/
def callsOf (r : Realm) (ops : List (Realm × Op)) : List Op := (ops.filter (fun x => x.1 = r)).map (·.2)

theorem runW_project (c : Cfg R) (w : World R) (ops : List (Realm × Op)) (r : Realm) :
    load layout (runW c w ops).1 r ((runW c w ops).2 r) = final c (load layout w.1 r (w.2 r)) (callsOf r ops) := by
  induction ops generalizing w with
  | nil => rfl
  | cons x ops ih =>
    obtain ⟨r', op⟩ := x
    simp only [runW, List.foldl_cons] at ih ⊢
    rw [ih (stepW c w (r', op))]
    by_cases e : r' = r
    · subst e
      have := (stepAt_self c w.1 r' (w.2 r') op).1
      simp only [stepW, callsOf, List.filter_cons, if_true, decide_true, List.map_cons, final_cons, this]
    · have hne : ¬ r = r' := fun e' => e e'.symm
      have := stepAt_other c w.1 r' r (w.2 r') (w.2 r) op e
      simp only [stepW, callsOf, List.filter_cons, e, decide_false, Bool.false_eq_true, if_false, hne, this]

/-! ## the key spaces in the flat store -/

theorem compatible_spec {r₁ r₂ : Realm} (h : compatible r₁ r₂ = true) (a b : UInt8)
    (ha : a ∈ ([0, 1, 2, 3] : List UInt8)) (hb : b ∈ ([0, 1, 2, 3] : List UInt8)) :
    ¬ (r₁ ++ [a]) <+: (r₂ ++ [b]) ∧ ¬ (r₂ ++ [b]) <+: (r₁ ++ [a]) := by
  simp only [compatible, List.all_eq_true, Bool.and_eq_true, Bool.not_eq_true'] at h
  have := h a ha b hb
  constructor
  · intro hp
    have := List.isPrefixOf_iff_prefix.mpr hp
    simp_all
  · intro hp
    have := List.isPrefixOf_iff_prefix.mpr hp
    simp_all

end Hive.Ads
