import Hive.Proofs.KVConcLocks
/-!
# C05 protocol model: the ghost linearisation

* `SInv`: the linearisation points of the trace, in trace order, are a sequential execution of the
  specification that produces exactly the recorded answers, and the shared map / flag are its final
  state.
* `NInv`: for every goroutine, its own events (in trace order) are well nested: `inv · lin* · ret`
  blocks, the linearisation points of a block are the accesses of that call in order, the response
  carries the answer of the call's last linearisation point.
-/
namespace Hive.KV.Conc
open Hive.Conc

/-! ## sequential reading -/

theorem replay_append (tr : List Ev) (e : Ev) : replay (tr ++ [e]) = applyEv (replay tr) e := by
  simp [replay, List.foldl_append]

theorem seqOkFrom_append (st : SeqSt) (tr : List Ev) (e : Ev) :
    seqOkFrom st (tr ++ [e]) = (seqOkFrom st tr && evOk (tr.foldl applyEv st) e) := by
  induction tr generalizing st with
  | nil => simp [seqOkFrom]
  | cons x xs ih => simp [seqOkFrom, ih, Bool.and_assoc]

theorem seqOk_append (tr : List Ev) (e : Ev) : seqOk (tr ++ [e]) = (seqOk tr && evOk (replay tr) e) :=
  seqOkFrom_append seqInit tr e

structure SInv (s : Shared) : Prop where
  ok : seqOk s.tr = true
  m : (replay s.tr).m = s.m
  closed : (replay s.tr).closed = s.closed

theorem sinv_init : SInv initShared := by
  constructor <;> rfl

theorem sinv_step {s s' : Shared} {t t' : Thread} (hs : TStep s t s' t') (h : SInv s) : SInv s' := by
  cases hs with
  | invoke op rest hc hs =>
    exact ⟨by simp [Shared.log, seqOk_append, h.ok, evOk], by simp [Shared.log, replay_append, applyEv, h.m],
      by simp [Shared.log, replay_append, applyEv, h.closed]⟩
  | ret op hc hcode =>
    exact ⟨by simp [Shared.log, seqOk_append, h.ok, evOk], by simp [Shared.log, replay_append, applyEv, h.m],
      by simp [Shared.log, replay_append, applyEv, h.closed]⟩
  | checkFail op rest hc hcode hcl =>
    exact ⟨by simp [Shared.log, seqOk_append, h.ok, evOk, h.closed, hcl],
      by simp [Shared.log, replay_append, applyEv, h.m], by simp [Shared.log, replay_append, applyEv, h.closed]⟩
  | checkOk op rest hc hcode hcl => exact h
  | load op rest hc hcode => exact h
  | announce op l rest hc hcode hwt => exact ⟨h.ok, h.m, h.closed⟩
  | acquire op l rest hc hcode hwt hfree => exact ⟨h.ok, h.m, h.closed⟩
  | rlock op l rest hc hcode hfree => exact ⟨h.ok, h.m, h.closed⟩
  | unlock op l rest hc hcode => exact ⟨h.ok, h.m, h.closed⟩
  | runlock op l rest hc hcode => exact ⟨h.ok, h.m, h.closed⟩
  | eff op a rest hc hcode =>
    exact ⟨by simp [Shared.log, seqOk_append, h.ok, evOk, h.m], by simp [Shared.log, replay_append, applyEv, h.m],
      by simp [Shared.log, replay_append, applyEv, h.closed]⟩
  | swap op rest hc hcode =>
    exact ⟨by simp [Shared.log, seqOk_append, h.ok, evOk], by simp [Shared.log, replay_append, applyEv, h.m],
      by simp [Shared.log, replay_append, applyEv]⟩

/-- Every linearisation point inside a sequentially consistent trace answers as the specification
does in the state replayed from the events before it. -/
theorem seqOkFrom_split (st : SeqSt) (pre post : List Ev) (e : Ev) (h : seqOkFrom st (pre ++ e :: post) = true) :
    evOk (pre.foldl applyEv st) e = true := by
  induction pre generalizing st with
  | nil => simp only [List.nil_append, seqOkFrom, Bool.and_eq_true] at h; exact h.1
  | cons x xs ih =>
    simp only [List.cons_append, seqOkFrom, Bool.and_eq_true] at h
    exact ih _ h.2

/-! ## nesting -/

/-- Where goroutine `t` stands according to its control state. -/
def pst (t : Thread) : PSt :=
  match t.cur with
  | none => .idle t.idx
  | some op => .busy t.idx op (effsOf t.code) t.res

theorem prun_append (tr : List Ev) (e : Ev) : prun (tr ++ [e]) = pstep (prun tr) e := by
  simp [prun, List.foldl_append]

theorem evsOf_append_same (tid : Nat) (tr : List Ev) (e : Ev) (h : e.tid = tid) :
    evsOf tid (tr ++ [e]) = evsOf tid tr ++ [e] := by
  simp [evsOf, List.filter_append, h]

theorem evsOf_append_other (tid : Nat) (tr : List Ev) (e : Ev) (h : e.tid ≠ tid) :
    evsOf tid (tr ++ [e]) = evsOf tid tr := by
  simp [evsOf, List.filter_append, h]

structure NInv (c : Cfg Shared Thread) : Prop where
  nodup : (c.2.map (·.tid)).Nodup
  nest : ∀ t ∈ c.2, prun (evsOf t.tid c.1.tr) = pst t

/-- The effect of one transition on the goroutine's own event sequence. -/
theorem nest_step {s s' : Shared} {t t' : Thread} (hs : TStep s t s' t') (ht : TInv t)
    (h : prun (evsOf t.tid s.tr) = pst t) :
    t'.tid = t.tid ∧ prun (evsOf t.tid s'.tr) = pst t' ∧
      (∀ tid, tid ≠ t.tid → evsOf tid s'.tr = evsOf tid s.tr) := by
  cases hs with
  | invoke op rest hc hs =>
    refine ⟨rfl, ?_, fun tid hne => evsOf_append_other _ _ _ (by simpa [Ev.tid] using fun hh => hne hh.symm)⟩
    simp only [Shared.log]
    rw [evsOf_append_same _ _ _ (by rfl), prun_append, h]
    simp [pst, hc, pstep]
  | ret op hc hcode =>
    refine ⟨rfl, ?_, fun tid hne => evsOf_append_other _ _ _ (by simpa [Ev.tid] using fun hh => hne hh.symm)⟩
    simp only [Shared.log]
    rw [evsOf_append_same _ _ _ (by rfl), prun_append, h]
    simp [pst, hc, hcode, effsOf, pstep, Thread.answer]
  | checkFail op rest hc hcode hcl =>
    refine ⟨rfl, ?_, fun tid hne => evsOf_append_other _ _ _ (by simpa [Ev.tid] using fun hh => hne hh.symm)⟩
    obtain ⟨op', hc', _, hres⟩ := ht.fresh (Or.inl (by rw [hcode]; exact List.mem_cons_self ..))
    simp only [Shared.log]
    rw [evsOf_append_same _ _ _ (by rfl), prun_append, h]
    simp [pst, hc, hres, effsOf, pstep]
  | checkOk op rest hc hcode hcl =>
    refine ⟨rfl, ?_, fun tid _ => rfl⟩
    rw [h]; simp [pst, hc, hcode, effsOf]
  | load op rest hc hcode =>
    refine ⟨rfl, ?_, fun tid _ => rfl⟩
    rw [h]; simp [pst, hc, hcode, effsOf]
  | announce op l rest hc hcode hwt =>
    refine ⟨rfl, ?_, fun tid _ => rfl⟩
    rw [h]; simp [pst, hc]
  | acquire op l rest hc hcode hwt hfree =>
    refine ⟨rfl, ?_, fun tid _ => rfl⟩
    rw [h]; simp [pst, hc, hcode, effsOf]
  | rlock op l rest hc hcode hfree =>
    refine ⟨rfl, ?_, fun tid _ => rfl⟩
    rw [h]; simp [pst, hc, hcode, effsOf]
  | unlock op l rest hc hcode =>
    refine ⟨rfl, ?_, fun tid _ => rfl⟩
    rw [h]; simp [pst, hc, hcode, effsOf]
  | runlock op l rest hc hcode =>
    refine ⟨rfl, ?_, fun tid _ => rfl⟩
    rw [h]; simp [pst, hc, hcode, effsOf]
  | eff op a rest hc hcode =>
    refine ⟨rfl, ?_, fun tid hne => evsOf_append_other _ _ _ (by simpa [Ev.tid] using fun hh => hne hh.symm)⟩
    simp only [Shared.log]
    rw [evsOf_append_same _ _ _ (by rfl), prun_append, h]
    simp [pst, hc, hcode, effsOf, pstep]
  | swap op rest hc hcode =>
    refine ⟨rfl, ?_, fun tid hne => evsOf_append_other _ _ _ (by simpa [Ev.tid] using fun hh => hne hh.symm)⟩
    obtain ⟨op', hc', hcomp, hres⟩ := ht.fresh (Or.inr (by rw [hcode]; exact List.mem_cons_self ..))
    have hop : op' = .close := swap_only_close op' (by rw [← hcomp, hcode]; exact List.mem_cons_self ..)
    subst hop
    have hrest : rest = [] := by
      rw [hcode] at hcomp; simp [compile] at hcomp; exact hcomp
    have hopc : op = .close := by rw [hc] at hc'; exact Option.some.inj hc'
    subst hopc hrest
    simp only [Shared.log]
    rw [evsOf_append_same _ _ _ (by rfl), prun_append, h]
    simp [pst, hc, hcode, hres, effsOf, pstep]

theorem ninv_step {s s' : Shared} {pre post : List Thread} {t t' : Thread} (hs : TStep s t s' t')
    (ht : TInv t) (h : NInv (s, pre ++ t :: post)) : NInv (s', pre ++ t' :: post) := by
  obtain ⟨htid, hnest, hother⟩ := nest_step hs ht (h.nest t (List.mem_append_right _ (List.mem_cons_self ..)))
  have hnd := h.nodup
  simp only [List.map_append, List.map_cons] at hnd
  constructor
  · simp only [List.map_append, List.map_cons, htid]; exact hnd
  · intro u hu
    have hne_of : u ∈ pre ∨ u ∈ post → u.tid ≠ t.tid := by
      intro hmem heq
      rw [List.nodup_append] at hnd
      obtain ⟨_, h2, h3⟩ := hnd
      rcases hmem with hm | hm
      · exact h3 u.tid (List.mem_map.mpr ⟨u, hm, rfl⟩) t.tid (List.mem_cons_self ..) heq
      · rw [List.nodup_cons] at h2
        exact h2.1 (heq ▸ List.mem_map.mpr ⟨u, hm, rfl⟩)
    rcases List.mem_append.mp hu with hu | hu
    · show prun (evsOf u.tid s'.tr) = pst u
      rw [hother u.tid (hne_of (Or.inl hu))]
      exact h.nest u (List.mem_append_left _ hu)
    · rcases List.mem_cons.mp hu with rfl | hu
      · show prun (evsOf u.tid s'.tr) = pst u
        rw [htid]; exact hnest
      · show prun (evsOf u.tid s'.tr) = pst u
        rw [hother u.tid (hne_of (Or.inr hu))]
        exact h.nest u (List.mem_append_right _ (List.mem_cons_of_mem _ hu))

/-! ## initial configuration -/

theorem initThreads_tids (n : Nat) (scripts : List (List COp)) :
    ((initThreads n scripts).map (·.tid)).Nodup ∧ ∀ t ∈ initThreads n scripts, n ≤ t.tid := by
  induction scripts generalizing n with
  | nil => simp [initThreads]
  | cons sc rest ih =>
    obtain ⟨h1, h2⟩ := ih (n + 1)
    refine ⟨?_, ?_⟩
    · simp only [initThreads, List.map_cons, List.nodup_cons]
      refine ⟨?_, h1⟩
      intro hm
      obtain ⟨u, hu, htid⟩ := List.mem_map.mp hm
      have := h2 u hu
      simp [initThread] at htid
      omega
    · intro t ht
      simp only [initThreads, List.mem_cons] at ht
      rcases ht with rfl | ht
      · simp [initThread]
      · have := h2 t ht; omega

theorem ninv_init (scripts : List (List COp)) : NInv (initCfg scripts) := by
  refine ⟨(initThreads_tids 0 scripts).1, fun t ht => ?_⟩
  obtain ⟨k, sc, rfl, _⟩ := initThreads_mem ht
  simp [initCfg, initShared, evsOf, prun, pst, initThread]

/-- All three invariants hold in every reachable configuration. -/
theorem all_reach {scripts : List (List COp)} {c : Cfg Shared Thread} (hr : Reach sys (initCfg scripts) c) :
    LInv c ∧ SInv c.1 ∧ NInv c := by
  refine inv_induction (S := sys) (fun c => LInv c ∧ SInv c.1 ∧ NInv c)
    ⟨linv_init scripts, sinv_init, ninv_init scripts⟩ ?_ hr
  intro a b ⟨hl, hsq, hn⟩ hstep
  cases hstep with
  | mk s pre t post s' t' hmem =>
    have hts := step_tstep hmem
    exact ⟨linv_step hts hl, sinv_step hts hsq,
      ninv_step hts (hl.tinv t (List.mem_append_right _ (List.mem_cons_self ..))) hn⟩

end Hive.KV.Conc
