import Hive.Model.EventsNotifierConc
/-!
# Invariant of the concurrent value-notifier model

For every current entry (value ↦ channel `c`): `counts[c]` = number of listeners of `c` whose `deregistered` flag is
unset + number of `Deregister` callers of listeners of `c` between their winning swap and the end of their
`removeListener`.  So a channel closed by the last deregistration has only flagged listeners, a channel closed by
`Notify` marks the unflagged ones as hit, and nobody joins a closed channel (entries hold open channels only).
-/
namespace Hive.NotifierConc
open Hive.Conc

def pred (c : Nat) (l : Lst) : Bool := l.chan == c && !l.flag

def unflagged (c : Nat) (ls : List Lst) : Nat := ls.countP (pred c)

def mid (c : Nat) : Th → Nat
  | .dr _ _ (.close c') => if c' = c then 1 else 0
  | .dr _ _ (.remove c') => if c' = c then 1 else 0
  | _ => 0

/-! ## list facts -/

theorem countP_set' {α : Type} (p : α → Bool) : ∀ (ls : List α) (i : Nat) (l l' : α), ls[i]? = some l →
    (ls.set i l').countP p + (if p l then 1 else 0) = ls.countP p + (if p l' then 1 else 0)
  | [], i, l, l', h => by simp at h
  | x :: r, 0, l, l', h => by
    simp only [List.getElem?_cons_zero, Option.some.injEq] at h
    subst h
    simp only [List.set_cons_zero, List.countP_cons]
    omega
  | x :: r, i + 1, l, l', h => by
    simp only [List.getElem?_cons_succ] at h
    have := countP_set' p r i l l' h
    simp only [List.set_cons_succ, List.countP_cons]
    omega

theorem mem_of_getElem? {α : Type} {ls : List α} {i : Nat} {l : α} (h : ls[i]? = some l) : l ∈ ls :=
  List.mem_of_getElem? h

theorem lookup_mem {s : Sh} {v c : Nat} (h : lookup s v = some c) : (v, c) ∈ s.cur := by
  unfold lookup at h
  cases hf : s.cur.find? (fun p => p.1 == v) with
  | none => simp [hf] at h
  | some p =>
    simp only [hf, Option.map_some, Option.some.injEq] at h
    have hm := List.mem_of_find?_eq_some hf
    have hp := List.find?_some hf
    simp only [beq_iff_eq] at hp
    have : p = (v, c) := by cases p; simp_all
    rw [← this]; exact hm

theorem lookup_none {s : Sh} {v : Nat} (h : lookup s v = none) : ∀ p ∈ s.cur, p.1 ≠ v := by
  unfold lookup at h
  simp only [Option.map_eq_none_iff, List.find?_eq_none] at h
  intro p hp he
  exact h p hp (by simp [he])

theorem lookup_of_mem {s : Sh} (hn : (s.cur.map (·.1)).Nodup) {v c : Nat} (h : (v, c) ∈ s.cur) : lookup s v = some c := by
  cases hl : lookup s v with
  | none => exact absurd rfl (lookup_none hl _ h)
  | some c' =>
    have hm := lookup_mem hl
    -- two pairs with the same first component in a list with pairwise different first components
    have : ∀ (l : List (Nat × Nat)), (l.map (·.1)).Nodup → (v, c) ∈ l → (v, c') ∈ l → c' = c := by
      intro l
      induction l with
      | nil => intro _ h1; cases h1
      | cons x r ih =>
        intro hnd h1 h2
        simp only [List.map_cons, List.nodup_cons, List.mem_map, not_exists, not_and] at hnd
        rcases List.mem_cons.mp h1 with e1 | e1 <;> rcases List.mem_cons.mp h2 with e2 | e2
        · rw [← e1] at e2; exact (Prod.mk.inj e2).2
        · exact absurd (by rw [← e1]) (hnd.1 _ e2)
        · exact absurd (by rw [← e2]) (hnd.1 _ e1)
        · exact ih hnd.2 e1 e2
    rw [this s.cur hn h hm]

/-- Pairs of a list with pairwise different second components: same second component, same pair. -/
theorem snd_inj : ∀ (l : List (Nat × Nat)), (l.map (·.2)).Nodup → ∀ p ∈ l, ∀ q ∈ l, p.2 = q.2 → p = q := by
  intro l
  induction l with
  | nil => intro _ p hp; cases hp
  | cons x r ih =>
    intro hnd p hp q hq he
    simp only [List.map_cons, List.nodup_cons, List.mem_map, not_exists, not_and] at hnd
    rcases List.mem_cons.mp hp with e1 | e1 <;> rcases List.mem_cons.mp hq with e2 | e2
    · rw [e1, e2]
    · exact absurd (by rw [← e1, he]) (hnd.1 _ e2)
    · exact absurd (by rw [← e2, ← he]) (hnd.1 _ e1)
    · exact ih hnd.2 p e1 q e2 he

theorem nodup_filter_map {α β : Type} (f : α → β) (q : α → Bool) {l : List α} (h : (l.map f).Nodup) :
    ((l.filter q).map f).Nodup :=
  h.sublist (List.Sublist.map f List.filter_sublist)

/-! ## the invariant -/

structure ShInv (s : Sh) (M : Nat → Nat) : Prop where
  vnodup : (s.cur.map (·.1)).Nodup
  cnodup : (s.cur.map (·.2)).Nodup
  cbound : ∀ p ∈ s.cur, p.2 < s.counts.length ∧ p.2 ∉ s.closed
  clbound : ∀ c ∈ s.closed, c < s.counts.length
  lbound : ∀ l ∈ s.ls, l.chan < s.counts.length
  mbound : ∀ c, s.counts.length ≤ c → M c = 0
  count : ∀ p ∈ s.cur, s.counts.getD p.2 0 = unflagged p.2 s.ls + M p.2
  closedFlag : ∀ l ∈ s.ls, l.chan ∈ s.closed → l.hit = false → l.flag = true
  chanVal : ∀ p ∈ s.cur, ∀ l ∈ s.ls, l.chan = p.2 → l.value = p.1

theorem ShInv.congr {s : Sh} {M M' : Nat → Nat} (h : ShInv s M) (he : ∀ c, M c = M' c) : ShInv s M' := by
  have : M = M' := funext he
  rw [← this]; exact h

theorem unflagged_zero_of_bound {c : Nat} {ls : List Lst} (h : ∀ l ∈ ls, l.chan < c) : unflagged c ls = 0 := by
  unfold unflagged
  rw [List.countP_eq_zero]
  intro l hl
  have := h l hl
  simp [pred]; omega

theorem unflagged_snoc (c : Nat) (ls : List Lst) (v c' : Nat) :
    unflagged c (ls ++ [{ value := v, chan := c', flag := false, dchan := false, hit := false }]) =
      unflagged c ls + (if c' = c then 1 else 0) := by
  unfold unflagged
  simp [List.countP_append, pred]

/-- `Listener(v)` -/
theorem create_ok {s : Sh} {M : Nat → Nat} (h : ShInv s M) (v : Nat) : ShInv (create s v) M := by
  unfold create
  cases hl : lookup s v with
  | some c =>
    have hm := lookup_mem hl
    have hcb := h.cbound _ hm
    simp only
    refine ⟨h.vnodup, h.cnodup, ?_, ?_, ?_, ?_, ?_, ?_, ?_⟩
    · intro p hp; simpa using h.cbound p hp
    · intro c' hc'; simpa using h.clbound c' hc'
    · intro l hl'
      simp only [List.mem_append, List.mem_singleton, List.length_set] at hl' ⊢
      rcases hl' with hl' | rfl
      · exact h.lbound l hl'
      · exact hcb.1
    · intro c' hc'; simp only [List.length_set] at hc'; exact h.mbound c' hc'
    · intro p hp
      have := h.count p hp
      rw [unflagged_snoc]
      by_cases hpc : c = p.2
      · subst hpc
        simp only [if_true]
        rw [List.getD_eq_getElem?_getD, List.getElem?_set_self (by exact hcb.1)]
        simp only [Option.getD_some]
        omega
      · rw [List.getD_eq_getElem?_getD, List.getElem?_set_ne hpc, ← List.getD_eq_getElem?_getD]
        simp only [hpc, if_false]
        omega
    · intro l hl' hc hh
      simp only [List.mem_append, List.mem_singleton] at hl'
      rcases hl' with hl' | rfl
      · exact h.closedFlag l hl' hc hh
      · exact absurd hc hcb.2
    · intro p hp l hl' he
      simp only [List.mem_append, List.mem_singleton] at hl'
      rcases hl' with hl' | rfl
      · exact h.chanVal p hp l hl' he
      · have : p = (v, c) := snd_inj s.cur h.cnodup p hp (v, c) hm he.symm
        rw [this]
  | none =>
    have hnone := lookup_none hl
    simp only
    refine ⟨?_, ?_, ?_, ?_, ?_, ?_, ?_, ?_, ?_⟩
    · rw [List.map_append, List.nodup_append]
      refine ⟨h.vnodup, by simp, ?_⟩
      intro a ha b hb
      simp only [List.map_cons, List.map_nil, List.mem_singleton] at hb
      obtain ⟨p, hp, rfl⟩ := List.mem_map.mp ha
      rw [hb]; exact hnone p hp
    · rw [List.map_append, List.nodup_append]
      refine ⟨h.cnodup, by simp, ?_⟩
      intro a ha b hb
      simp only [List.map_cons, List.map_nil, List.mem_singleton] at hb
      obtain ⟨p, hp, rfl⟩ := List.mem_map.mp ha
      have := (h.cbound p hp).1
      rw [hb]; omega
    · intro p hp
      simp only [List.mem_append, List.mem_singleton, List.length_append, List.length_cons, List.length_nil] at hp ⊢
      rcases hp with hp | rfl
      · have := h.cbound p hp
        exact ⟨by omega, this.2⟩
      · refine ⟨by simp, ?_⟩
        intro hc
        have := h.clbound _ hc
        simp at this
    · intro c hc
      have := h.clbound c hc
      simp only [List.length_append, List.length_cons, List.length_nil]; omega
    · intro l hl'
      simp only [List.mem_append, List.mem_singleton, List.length_append, List.length_cons, List.length_nil] at hl' ⊢
      rcases hl' with hl' | rfl
      · have := h.lbound l hl'; omega
      · simp
    · intro c hc
      simp only [List.length_append, List.length_cons, List.length_nil] at hc
      exact h.mbound c (by omega)
    · intro p hp
      simp only [List.mem_append, List.mem_singleton] at hp
      rw [unflagged_snoc]
      rcases hp with hp | rfl
      · have hb := (h.cbound p hp).1
        have := h.count p hp
        have hne : ¬ s.counts.length = p.2 := by omega
        rw [List.getD_eq_getElem?_getD, List.getElem?_append_left hb, ← List.getD_eq_getElem?_getD]
        simp only [hne, if_false]
        omega
      · simp only [if_true]
        rw [List.getD_eq_getElem?_getD, List.getElem?_append_right (Nat.le_refl _)]
        simp only [Nat.sub_self, List.getElem?_cons_zero, Option.getD_some]
        rw [unflagged_zero_of_bound h.lbound, h.mbound _ (Nat.le_refl _)]
    · intro l hl' hc hh
      simp only [List.mem_append, List.mem_singleton] at hl'
      rcases hl' with hl' | rfl
      · exact h.closedFlag l hl' hc hh
      · have := h.clbound _ hc
        simp at this
    · intro p hp l hl' he
      simp only [List.mem_append, List.mem_singleton] at hp hl'
      rcases hp with hp | rfl <;> rcases hl' with hl' | rfl
      · exact h.chanVal p hp l hl' he
      · have := (h.cbound p hp).1
        simp only at he
        omega
      · have := h.lbound l hl'
        simp only at he
        omega
      · rfl

def hitUpd (c : Nat) (l : Lst) : Lst := if l.chan == c && !l.flag then { l with hit := true } else l

theorem hitUpd_fields (c : Nat) (l : Lst) :
    (hitUpd c l).chan = l.chan ∧ (hitUpd c l).value = l.value ∧ (hitUpd c l).flag = l.flag ∧
    (l.hit = true → (hitUpd c l).hit = true) := by
  unfold hitUpd; split <;> simp

theorem unflagged_map_hit (c c' : Nat) (ls : List Lst) : unflagged c' (ls.map (hitUpd c)) = unflagged c' ls := by
  unfold unflagged
  rw [List.countP_map]
  congr 1
  funext l
  simp [pred, (hitUpd_fields c l).1, (hitUpd_fields c l).2.2.1]

/-- removing the entry of `v` (whose channel is `c`) and closing `c` -/
theorem close_entry_ok {s : Sh} {M : Nat → Nat} (h : ShInv s M) {v c : Nat} (hm : (v, c) ∈ s.cur)
    (f : Lst → Lst) (hf : ∀ l, (f l).chan = l.chan ∧ (f l).value = l.value ∧ (f l).flag = l.flag)
    (hcl : ∀ l ∈ s.ls, l.chan = c → (f l).hit = false → l.flag = true)
    (hold : ∀ l ∈ s.ls, l.chan ≠ c → (f l).hit = false → l.hit = false) :
    ShInv { s with closed := c :: s.closed, cur := s.cur.filter (fun p => p.1 != v), ls := s.ls.map f } M := by
  have hcb := h.cbound _ hm
  have hsub : ∀ p, p ∈ s.cur.filter (fun p => p.1 != v) → p ∈ s.cur ∧ p.1 ≠ v := by
    intro p hp
    have := List.mem_filter.mp hp
    exact ⟨this.1, by simpa using this.2⟩
  have hne : ∀ p, p ∈ s.cur → p.1 ≠ v → p.2 ≠ c := by
    intro p hp hpv hpc
    have := snd_inj s.cur h.cnodup p hp (v, c) hm hpc
    exact hpv (by rw [this])
  have hun : ∀ c', unflagged c' (s.ls.map f) = unflagged c' s.ls := by
    intro c'
    unfold unflagged
    rw [List.countP_map]
    congr 1
    funext l
    simp [pred, (hf l).1, (hf l).2.2]
  refine ⟨nodup_filter_map _ _ h.vnodup, nodup_filter_map _ _ h.cnodup, ?_, ?_, ?_, h.mbound, ?_, ?_, ?_⟩
  · intro p hp
    obtain ⟨hp1, hp2⟩ := hsub p hp
    have := h.cbound p hp1
    refine ⟨this.1, ?_⟩
    simp only [List.mem_cons, not_or]
    exact ⟨hne p hp1 hp2, this.2⟩
  · intro c' hc'
    simp only [List.mem_cons] at hc'
    rcases hc' with rfl | hc'
    · exact hcb.1
    · exact h.clbound c' hc'
  · intro l hl'
    obtain ⟨l0, hl0, rfl⟩ := List.mem_map.mp hl'
    rw [(hf l0).1]; exact h.lbound l0 hl0
  · intro p hp
    obtain ⟨hp1, _⟩ := hsub p hp
    simp only
    rw [hun]; exact h.count p hp1
  · intro l hl' hc hh
    obtain ⟨l0, hl0, rfl⟩ := List.mem_map.mp hl'
    rw [(hf l0).2.2]; rw [(hf l0).1] at hc
    by_cases hcc : l0.chan = c
    · exact hcl l0 hl0 hcc hh
    · simp only [List.mem_cons] at hc
      rcases hc with hc | hc
      · exact absurd hc hcc
      · exact h.closedFlag l0 hl0 hc (hold l0 hl0 hcc hh)
  · intro p hp l hl' he
    obtain ⟨hp1, _⟩ := hsub p hp
    obtain ⟨l0, hl0, rfl⟩ := List.mem_map.mp hl'
    rw [(hf l0).2.1]; rw [(hf l0).1] at he
    exact h.chanVal p hp1 l0 hl0 he

/-- the write-locked part of `Notify(v)` -/
theorem notify_ok {s : Sh} {M : Nat → Nat} (h : ShInv s M) (v : Nat) : ShInv (notify s v) M := by
  unfold notify
  cases hl : lookup s v with
  | none => exact h
  | some c =>
    have hfun : (fun l : Lst => if l.chan == c && !l.flag then { l with hit := true } else l) = hitUpd c := rfl
    simp only [hfun]
    refine close_entry_ok h (lookup_mem hl) (hitUpd c) (fun l => ⟨(hitUpd_fields c l).1, (hitUpd_fields c l).2.1, (hitUpd_fields c l).2.2.1⟩) ?_ ?_
    · intro l _ hcc hh
      cases hf : l.flag with
      | true => rfl
      | false =>
        have : (hitUpd c l).hit = true := by simp [hitUpd, hcc, hf]
        rw [this] at hh; cases hh
    · intro l _ hcc hh
      have : hitUpd c l = l := by simp [hitUpd, hcc]
      rw [this] at hh; exact hh

/-- replacing listener `i` by a listener with the same channel and value -/
theorem set_ok {s : Sh} {M : Nat → Nat} (h : ShInv s M) {i : Nat} {l l' : Lst} (hi : s.ls[i]? = some l)
    (hc : l'.chan = l.chan) (hv : l'.value = l.value) (hfl : l.flag = true → l'.flag = true) (hh : l'.hit = l.hit)
    (δ : Nat → Nat) (hδ : ∀ c, (if pred c l then 1 else 0) = (if pred c l' then 1 else 0) + δ c) :
    ShInv { s with ls := s.ls.set i l' } (fun c => M c + δ c) := by
  have hmem : ∀ x ∈ s.ls.set i l', x = l' ∨ x ∈ s.ls := fun x hx => (List.mem_or_eq_of_mem_set hx).symm
  have hl : l ∈ s.ls := mem_of_getElem? hi
  refine ⟨h.vnodup, h.cnodup, h.cbound, h.clbound, ?_, ?_, ?_, ?_, ?_⟩
  · intro x hx
    rcases hmem x hx with rfl | hx
    · rw [hc]; exact h.lbound l hl
    · exact h.lbound x hx
  · intro c hc'
    have h1 := h.mbound c hc'
    have h2 := hδ c
    have hb := h.lbound l hl
    have hc'' : s.counts.length ≤ c := hc'
    have hne : l.chan ≠ c := by omega
    have : pred c l = false := by simp [pred, hne]
    rw [this] at h2
    simp only [Bool.false_eq_true, if_false] at h2
    have hd : δ c = 0 := by omega
    show M c + δ c = 0
    omega
  · intro p hp
    have h1 := h.count p hp
    have h2 := countP_set' (pred p.2) s.ls i l l' hi
    have h3 := hδ p.2
    simp only [unflagged] at h1 ⊢
    omega
  · intro x hx hcl hhit
    rcases hmem x hx with rfl | hx
    · rw [hc] at hcl; rw [hh] at hhit
      exact hfl (h.closedFlag l hl hcl hhit)
    · exact h.closedFlag x hx hcl hhit
  · intro p hp x hx he
    rcases hmem x hx with rfl | hx
    · rw [hv]; rw [hc] at he; exact h.chanVal p hp l hl he
    · exact h.chanVal p hp x hx he

/-- the winning `Swap` of a `Deregister` -/
theorem swap_ok {s : Sh} {M : Nat → Nat} (h : ShInv s M) {i : Nat} {l : Lst} (hi : s.ls[i]? = some l) (hf : l.flag = false) :
    ShInv { s with ls := s.ls.set i { l with flag := true } } (fun c => M c + (if l.chan = c then 1 else 0)) := by
  refine set_ok h hi (l' := { l with flag := true }) rfl rfl (fun _ => rfl) rfl _ ?_
  intro c
  simp only [pred, hf, Bool.not_false, Bool.and_true, Bool.not_true, Bool.and_false, beq_iff_eq]
  split <;> simp

/-- closing the listener's own deregistered channel -/
theorem closeD_ok {s : Sh} {M : Nat → Nat} (h : ShInv s M) (i : Nat) :
    ShInv { s with ls := setL s.ls i (fun l => { l with dchan := true }) } M := by
  unfold setL
  cases hi : s.ls[i]? with
  | none => exact h
  | some l =>
    simp only
    have := set_ok h hi (l' := { l with dchan := true }) rfl rfl (fun x => x) rfl (fun _ => 0) (by intro c; simp [pred])
    exact this.congr (fun c => by simp)

/-- `removeListener` of a caller that is counted in the `+ 1` of its channel -/
theorem remove_ok {s : Sh} {M : Nat → Nat} {c : Nat} (h : ShInv s (fun c' => M c' + (if c = c' then 1 else 0)))
    {i : Nat} {l : Lst} (hi : s.ls[i]? = some l) (hc : l.chan = c) : ShInv (remove s l.value c) M := by
  have hl : l ∈ s.ls := mem_of_getElem? hi
  -- the state unchanged: no current entry holds the caller's channel
  have same : (∀ p ∈ s.cur, p.2 ≠ c) → ShInv s M := by
    intro hno
    refine ⟨h.vnodup, h.cnodup, h.cbound, h.clbound, h.lbound, ?_, ?_, h.closedFlag, h.chanVal⟩
    · intro c' hc'; have := h.mbound c' hc'; omega
    · intro p hp
      have := h.count p hp
      have hne : ¬ c = p.2 := fun e => hno p hp e.symm
      simp only [hne, if_false, Nat.add_zero] at this
      exact this
  have entry_of_chan : ∀ p ∈ s.cur, p.2 = c → lookup s l.value = some c := by
    intro p hp hpc
    have hv := h.chanVal p hp l hl (by rw [hc, hpc])
    have : p = (l.value, c) := by cases p; simp_all
    rw [this] at hp
    exact lookup_of_mem h.vnodup hp
  unfold remove
  cases hlk : lookup s l.value with
  | none =>
    simp only
    exact same (fun p hp hpc => by have := entry_of_chan p hp hpc; rw [hlk] at this; cases this)
  | some c' =>
    simp only
    by_cases hcc : c' = c
    · subst hcc
      have hm := lookup_mem hlk
      have hcnt := h.count _ hm
      simp only [if_true] at hcnt
      simp only [beq_self_eq_true, if_true]
      by_cases h1 : s.counts.getD c' 0 = 1
      · simp only [h1, beq_self_eq_true, if_true]
        have hz : unflagged c' s.ls = 0 := by omega
        have hM : ShInv s M → True := fun _ => trivial
        -- drop the caller's contribution first (as a statement about M on the surviving entries), then close
        have h' : ShInv s (fun c'' => M c'' + (if c' = c'' then 1 else 0)) := h
        have := close_entry_ok h' hm id (fun l => ⟨rfl, rfl, rfl⟩)
          (by
            intro x hx hxc _
            unfold unflagged at hz
            rw [List.countP_eq_zero] at hz
            have := hz x hx
            simp only [pred, hxc, beq_self_eq_true, Bool.true_and, Bool.not_eq_true', Bool.not_eq_false] at this
            exact this)
          (fun _ _ _ hh => hh)
        simp only [List.map_id] at this
        -- on the surviving entries the channel differs from c', so the extra term vanishes
        refine ⟨this.vnodup, this.cnodup, this.cbound, this.clbound, this.lbound, ?_, ?_, this.closedFlag, this.chanVal⟩
        · intro c'' hc''; have := this.mbound c'' hc''; omega
        · intro p hp
          have hcount := this.count p hp
          have hpm := List.mem_filter.mp hp
          have hpv : p.1 ≠ l.value := by simpa using hpm.2
          have hne : ¬ c' = p.2 := by
            intro e
            have := snd_inj s.cur h.cnodup p hpm.1 (l.value, c') hm e.symm
            exact hpv (by rw [this])
          simp only [hne, if_false, Nat.add_zero] at hcount
          exact hcount
      · have h1' : (s.counts.getD c' 0 == 1) = false := by simpa using h1
        simp only [h1', Bool.false_eq_true, if_false]
        have hb := (h.cbound _ hm).1
        refine ⟨h.vnodup, h.cnodup, ?_, ?_, ?_, ?_, ?_, h.closedFlag, h.chanVal⟩
        · intro p hp; simpa using h.cbound p hp
        · intro x hx; simpa using h.clbound x hx
        · intro x hx; simpa using h.lbound x hx
        · intro c'' hc''
          simp only [List.length_set] at hc''
          have := h.mbound c'' hc''
          omega
        · intro p hp
          have := h.count p hp
          by_cases hpc : c' = p.2
          · subst hpc
            simp only [if_true] at this
            rw [List.getD_eq_getElem?_getD, List.getElem?_set_self hb]
            simp only [Option.getD_some]
            omega
          · simp only [hpc, if_false, Nat.add_zero] at this
            rw [List.getD_eq_getElem?_getD, List.getElem?_set_ne hpc, ← List.getD_eq_getElem?_getD]
            exact this
    · have hcc' : (c' == c) = false := by simpa using hcc
      simp only [hcc', Bool.false_eq_true, if_false]
      exact same (fun p hp hpc => by
        have := entry_of_chan p hp hpc
        rw [hlk] at this
        exact hcc (Option.some.inj this))

/-! ## threads -/

def ThInv (s : Sh) : Th → Prop
  | .dr i r pc =>
    (r = some .ok → ∃ l, s.ls[i]? = some l ∧ l.hit = true) ∧
    (∀ c, pc = .close c ∨ pc = .remove c → ∃ l, s.ls[i]? = some l ∧ l.chan = c ∧ l.flag = true)
  | .w2 i => ∃ l, s.ls[i]? = some l ∧ l.chan ∈ s.closed
  | _ => True

/-- Listeners are only appended; channel and value never change; flag, hit and the closed set only grow. -/
def Ext (s s' : Sh) : Prop :=
  (∀ (i : Nat) (l : Lst), s.ls[i]? = some l → ∃ l' : Lst, s'.ls[i]? = some l' ∧ l'.chan = l.chan ∧ l'.value = l.value ∧
      (l.flag = true → l'.flag = true) ∧ (l.hit = true → l'.hit = true)) ∧
  (∀ c, c ∈ s.closed → c ∈ s'.closed)

theorem Ext.rfl' (s : Sh) : Ext s s := ⟨fun _ l h => ⟨l, h, rfl, rfl, id, id⟩, fun _ h => h⟩

theorem ThInv.mono {s s' : Sh} (he : Ext s s') {t : Th} (h : ThInv s t) : ThInv s' t := by
  cases t with
  | dr i r pc =>
    refine ⟨?_, ?_⟩
    · intro hr
      obtain ⟨l, hl, hh⟩ := h.1 hr
      obtain ⟨l', hl', _, _, _, h5⟩ := he.1 i l hl
      exact ⟨l', hl', h5 hh⟩
    · intro c hc
      obtain ⟨l, hl, h1, h2⟩ := h.2 c hc
      obtain ⟨l', hl', h3, _, h4, _⟩ := he.1 i l hl
      exact ⟨l', hl', by rw [h3, h1], h4 h2⟩
  | w2 i =>
    obtain ⟨l, hl, hc⟩ := h
    obtain ⟨l', hl', h3, _, _, _⟩ := he.1 i l hl
    exact ⟨l', hl', by rw [h3]; exact he.2 _ hc⟩
  | _ => trivial

theorem ext_set {s : Sh} {i : Nat} {l l' : Lst} (hi : s.ls[i]? = some l) (hc : l'.chan = l.chan) (hv : l'.value = l.value)
    (hf : l.flag = true → l'.flag = true) (hh : l.hit = true → l'.hit = true) :
    Ext s { s with ls := s.ls.set i l' } := by
  refine ⟨?_, fun _ h => h⟩
  intro j x hx
  have hlt : i < s.ls.length := by
    rcases Nat.lt_or_ge i s.ls.length with h | h
    · exact h
    · simp [List.getElem?_eq_none h] at hi
  by_cases hij : i = j
  · subst hij
    rw [hi] at hx
    cases hx
    exact ⟨l', by simp [List.getElem?_set_self hlt], hc, hv, hf, hh⟩
  · exact ⟨x, by simp only [List.getElem?_set_ne hij]; exact hx, rfl, rfl, id, id⟩

theorem ext_create (s : Sh) (v : Nat) : Ext s (create s v) := by
  unfold create
  cases lookup s v <;> simp only <;> refine ⟨?_, fun _ h => h⟩ <;> intro i l hl <;>
    exact ⟨l, by
      have hlt : i < s.ls.length := by
        rcases Nat.lt_or_ge i s.ls.length with h | h
        · exact h
        · simp [List.getElem?_eq_none h] at hl
      rw [List.getElem?_append_left hlt]; exact hl, rfl, rfl, id, id⟩

theorem ext_map {s : Sh} (f : Lst → Lst) (cl : List Nat) (cu : List (Nat × Nat))
    (hf : ∀ l, (f l).chan = l.chan ∧ (f l).value = l.value ∧ (f l).flag = l.flag ∧ (l.hit = true → (f l).hit = true))
    (hcl : ∀ c ∈ s.closed, c ∈ cl) : Ext s { s with closed := cl, cur := cu, ls := s.ls.map f } := by
  refine ⟨?_, hcl⟩
  intro i l hl
  refine ⟨f l, by simp [List.getElem?_map, hl], (hf l).1, (hf l).2.1, fun h => by rw [(hf l).2.2.1]; exact h, (hf l).2.2.2⟩

theorem ext_notify (s : Sh) (v : Nat) : Ext s (notify s v) := by
  unfold notify
  cases lookup s v with
  | none => exact Ext.rfl' s
  | some c =>
    exact ext_map (hitUpd c) _ _ (fun l => hitUpd_fields c l) (fun c' h => List.mem_cons_of_mem _ h)

theorem ext_remove (s : Sh) (v c : Nat) : Ext s (remove s v c) := by
  unfold remove
  cases lookup s v with
  | none => exact Ext.rfl' s
  | some c' =>
    simp only
    split
    · split
      · exact ⟨fun _ l h => ⟨l, h, rfl, rfl, id, id⟩, fun c' h => List.mem_cons_of_mem _ h⟩
      · exact ⟨fun _ l h => ⟨l, h, rfl, rfl, id, id⟩, fun _ h => h⟩
    · exact Ext.rfl' s

/-- One step of one thread. -/
theorem step_ok {s s' : Sh} {t t' : Th} {m : Nat → Nat} (hs : ShInv s (fun c => m c + mid c t)) (ht : ThInv s t)
    (hm : (s', t') ∈ step s t) :
    ShInv s' (fun c => m c + mid c t') ∧ Ext s s' ∧ ThInv s' t' := by
  cases t with
  | mk v d =>
    cases d with
    | true => simp [step] at hm
    | false =>
      simp only [step, List.mem_singleton, Prod.mk.injEq] at hm
      obtain ⟨rfl, rfl⟩ := hm
      exact ⟨(create_ok hs v).congr (fun c => by simp [mid]), ext_create s v, trivial⟩
  | ntCheck v =>
    simp only [step] at hm
    split at hm <;> simp only [List.mem_singleton, Prod.mk.injEq] at hm <;> obtain ⟨rfl, rfl⟩ := hm <;>
      exact ⟨hs.congr (fun c => by simp [mid]), Ext.rfl' _, trivial⟩
  | ntLock v =>
    simp only [step, List.mem_singleton, Prod.mk.injEq] at hm
    obtain ⟨rfl, rfl⟩ := hm
    exact ⟨(notify_ok hs v).congr (fun c => by simp [mid]), ext_notify s v, trivial⟩
  | ntFin => simp [step] at hm
  | w0 i =>
    simp only [step] at hm
    cases hi : s.ls[i]? with
    | none => simp [hi] at hm
    | some l =>
      simp only [hi] at hm
      split at hm <;> simp only [List.mem_singleton, Prod.mk.injEq] at hm <;> obtain ⟨rfl, rfl⟩ := hm
      · exact ⟨hs.congr (fun c => by simp [mid]), Ext.rfl' _, ⟨by simp, by simp⟩⟩
      · exact ⟨hs.congr (fun c => by simp [mid]), Ext.rfl' _, trivial⟩
  | w1 i =>
    simp only [step] at hm
    cases hi : s.ls[i]? with
    | none => simp [hi] at hm
    | some l =>
      simp only [hi, List.mem_append, List.mem_singleton, Prod.mk.injEq] at hm
      rcases hm with (hm | hm) | hm
      · split at hm <;> simp at hm
        obtain ⟨rfl, rfl⟩ := hm
        rename_i hc
        exact ⟨hs.congr (fun c => by simp [mid]), Ext.rfl' _, ⟨l, hi, by simpa using hc⟩⟩
      · split at hm <;> simp at hm
        obtain ⟨rfl, rfl⟩ := hm
        exact ⟨hs.congr (fun c => by simp [mid]), Ext.rfl' _, ⟨by simp, by simp⟩⟩
      · obtain ⟨rfl, rfl⟩ := hm
        exact ⟨hs.congr (fun c => by simp [mid]), Ext.rfl' _, ⟨by simp, by simp⟩⟩
  | w2 i =>
    simp only [step] at hm
    cases hi : s.ls[i]? with
    | none => simp [hi] at hm
    | some l =>
      simp only [hi] at hm
      obtain ⟨l0, hl0, hcl⟩ := ht
      rw [hi] at hl0; cases hl0
      split at hm <;> simp only [List.mem_singleton, Prod.mk.injEq] at hm <;> obtain ⟨rfl, rfl⟩ := hm
      · exact ⟨hs.congr (fun c => by simp [mid]), Ext.rfl' _, ⟨by simp, by simp⟩⟩
      · rename_i hf
        have hhit : l.hit = true := by
          cases hh : l.hit with
          | true => rfl
          | false => exact absurd (hs.closedFlag l (mem_of_getElem? hi) hcl hh) hf
        exact ⟨hs.congr (fun c => by simp [mid]), Ext.rfl' _, ⟨fun _ => ⟨l, hi, hhit⟩, by simp⟩⟩
  | dr i r pc =>
    obtain ⟨hr, hp⟩ := ht
    cases pc with
    | swap =>
      simp only [step] at hm
      cases hi : s.ls[i]? with
      | none =>
        simp only [hi, List.mem_singleton, Prod.mk.injEq] at hm
        obtain ⟨rfl, rfl⟩ := hm
        exact ⟨hs.congr (fun c => by simp [mid]), Ext.rfl' _, ⟨hr, by simp⟩⟩
      | some l =>
        simp only [hi] at hm
        split at hm <;> simp only [List.mem_singleton, Prod.mk.injEq] at hm <;> obtain ⟨rfl, rfl⟩ := hm
        · exact ⟨hs.congr (fun c => by simp [mid]), Ext.rfl' _, ⟨hr, by simp⟩⟩
        · rename_i hf
          have hf' : l.flag = false := by simpa using hf
          have hs0 : ShInv s m := hs.congr (fun c => by simp [mid])
          have hext := ext_set (s := s) hi (l' := { l with flag := true }) rfl rfl (fun _ => rfl) id
          have hlt : i < s.ls.length := by
            rcases Nat.lt_or_ge i s.ls.length with h | h
            · exact h
            · simp [List.getElem?_eq_none h] at hi
          refine ⟨(swap_ok hs0 hi hf').congr (fun c => by simp [mid]), hext, ⟨?_, ?_⟩⟩
          · intro hrr
            obtain ⟨l1, hl1, hh1⟩ := hr hrr
            obtain ⟨l', hl', _, _, _, h5⟩ := hext.1 i l1 hl1
            exact ⟨l', hl', h5 hh1⟩
          · intro c hc
            have : c = l.chan := by
              rcases hc with hc | hc
              · exact (DPc.close.inj hc).symm
              · cases hc
            subst this
            exact ⟨{ l with flag := true }, by simp [List.getElem?_set_self hlt], rfl, rfl⟩
    | close c =>
      simp only [step, List.mem_singleton, Prod.mk.injEq] at hm
      obtain ⟨rfl, rfl⟩ := hm
      obtain ⟨l, hi, hlc, hlf⟩ := hp c (Or.inl rfl)
      have hsl : setL s.ls i (fun l => { l with dchan := true }) = s.ls.set i { l with dchan := true } := by
        unfold setL; simp [hi]
      have hext : Ext s { s with ls := setL s.ls i (fun l => { l with dchan := true }) } := by
        rw [hsl]; exact ext_set hi rfl rfl id id
      refine ⟨(closeD_ok hs i).congr (fun c' => by simp [mid]), hext, ?_⟩
      exact ThInv.mono hext (t := .dr i r (.remove c)) ⟨hr, fun c' hc' => by
        have : c' = c := by
          rcases hc' with hc' | hc'
          · cases hc'
          · exact (DPc.remove.inj hc').symm
        subst this
        exact ⟨l, hi, hlc, hlf⟩⟩
    | remove c =>
      simp only [step] at hm
      obtain ⟨l, hi, hlc, hlf⟩ := hp c (Or.inr rfl)
      simp only [hi, List.mem_singleton, Prod.mk.injEq] at hm
      obtain ⟨rfl, rfl⟩ := hm
      have hs1 : ShInv s (fun c' => m c' + (if c = c' then 1 else 0)) := hs.congr (fun c' => by simp [mid])
      have hext := ext_remove s l.value c
      refine ⟨(remove_ok hs1 hi hlc).congr (fun c' => by simp [mid]), hext, ?_⟩
      exact ThInv.mono hext (t := .dr i r .fin) ⟨hr, by simp⟩
    | fin => simp [step] at hm

/-! ## configurations -/

def sumMid (c : Nat) (ts : List Th) : Nat := (ts.map (mid c)).sum

theorem sumMid_mid (c : Nat) (pre post : List Th) (t : Th) :
    sumMid c (pre ++ t :: post) = sumMid c pre + sumMid c post + mid c t := by
  simp [sumMid, List.sum_append]; omega

def CfgInv (c : Cfg Sh Th) : Prop := ShInv c.1 (fun ch => sumMid ch c.2) ∧ ∀ t ∈ c.2, ThInv c.1 t

theorem cfgInv_step {a b : Cfg Sh Th} (h : CfgInv a) (hs : Step sys a b) : CfgInv b := by
  cases hs with
  | mk s pre t post s' t' hm =>
    obtain ⟨hsh, hth⟩ := h
    have ht := hth t (by simp)
    have hsh' : ShInv s (fun c => (sumMid c pre + sumMid c post) + mid c t) :=
      hsh.congr (fun c => sumMid_mid c pre post t)
    obtain ⟨h1, h2, h3⟩ := step_ok hsh' ht hm
    refine ⟨h1.congr (fun c => (sumMid_mid c pre post t').symm), ?_⟩
    intro x hx
    simp only [List.mem_append, List.mem_cons] at hx
    rcases hx with hx | rfl | hx
    · exact (hth x (by simp [hx])).mono h2
    · exact h3
    · exact (hth x (by simp [hx])).mono h2

theorem cfgInv_init (ts : List Th) (hts : ∀ t ∈ ts, t.initial = true) : CfgInv (init, ts) := by
  have hz : ∀ c, sumMid c ts = 0 := by
    intro c
    unfold sumMid
    have : ∀ t ∈ ts, mid c t = 0 := by
      intro t ht
      have := hts t ht
      cases t with
      | dr i r pc => cases r <;> cases pc <;> simp_all [Th.initial, mid]
      | _ => simp [mid]
    induction ts with
    | nil => rfl
    | cons x r ih =>
      simp only [List.map_cons, List.sum_cons]
      rw [this x (by simp), ih (fun t ht => hts t (by simp [ht])) (fun t ht => this t (by simp [ht]))]
  refine ⟨⟨by simp [init], by simp [init], by simp [init], by simp [init], by simp [init], fun c _ => hz c,
    by simp [init], by simp [init], by simp [init]⟩, ?_⟩
  intro t ht
  have := hts t ht
  cases t with
  | dr i r pc => cases r <;> cases pc <;> simp_all [Th.initial, ThInv]
  | w2 i => simp [Th.initial] at this
  | _ => trivial

/-- What the ghost `hit` means: it is set only by the write-locked part of a `Notify` for the listener's own value,
on a listener that exists and whose `deregistered` flag is unset at that moment. -/
theorem hit_sound {s s' : Sh} {t t' : Th} {M : Nat → Nat} (hs : ShInv s M) (hm : (s', t') ∈ step s t)
    {i : Nat} {l' : Lst} (hi' : s'.ls[i]? = some l') (hh : l'.hit = true) :
    (∃ l, s.ls[i]? = some l ∧ l.hit = true) ∨
    (∃ l v, t = .ntLock v ∧ s.ls[i]? = some l ∧ l.value = v ∧ l.flag = false) := by
  have keep : s'.ls = s.ls → (∃ l, s.ls[i]? = some l ∧ l.hit = true) := fun e => ⟨l', by rw [← e]; exact hi', hh⟩
  have keepSet : ∀ (j : Nat) (l0 l1 : Lst), s.ls[j]? = some l0 → l1.hit = l0.hit → s'.ls = s.ls.set j l1 →
      (∃ l, s.ls[i]? = some l ∧ l.hit = true) := by
    intro j l0 l1 hj he hset
    rw [hset] at hi'
    by_cases hji : j = i
    · subst hji
      have hlt : j < s.ls.length := by
        rcases Nat.lt_or_ge j s.ls.length with h | h
        · exact h
        · simp [List.getElem?_eq_none h] at hj
      rw [List.getElem?_set_self hlt] at hi'
      cases hi'
      exact ⟨l0, hj, by rw [← he]; exact hh⟩
    · rw [List.getElem?_set_ne hji] at hi'
      exact ⟨l', hi', hh⟩
  cases t with
  | mk v d =>
    cases d with
    | true => simp [step] at hm
    | false =>
      simp only [step, List.mem_singleton, Prod.mk.injEq] at hm
      obtain ⟨rfl, rfl⟩ := hm
      left
      have happ : ∃ x : Lst, x.hit = false ∧ (create s v).ls = s.ls ++ [x] := by
        unfold create; cases lookup s v <;> exact ⟨_, rfl, rfl⟩
      obtain ⟨x, hx, happ⟩ := happ
      rw [happ] at hi'
      rcases Nat.lt_or_ge i s.ls.length with hlt | hge
      · rw [List.getElem?_append_left hlt] at hi'; exact ⟨l', hi', hh⟩
      · rw [List.getElem?_append_right hge] at hi'
        cases hk : i - s.ls.length with
        | zero => rw [hk] at hi'; simp at hi'; subst hi'; rw [hx] at hh; cases hh
        | succ k => rw [hk] at hi'; simp at hi'
  | ntCheck v =>
    simp only [step] at hm
    split at hm <;> simp only [List.mem_singleton, Prod.mk.injEq] at hm <;> obtain ⟨rfl, rfl⟩ := hm <;> exact Or.inl (keep rfl)
  | ntLock v =>
    simp only [step, List.mem_singleton, Prod.mk.injEq] at hm
    obtain ⟨rfl, rfl⟩ := hm
    unfold notify at hi'
    cases hl : lookup s v with
    | none => simp only [hl] at hi'; exact Or.inl ⟨l', hi', hh⟩
    | some c =>
      simp only [hl, List.getElem?_map] at hi'
      cases hi : s.ls[i]? with
      | none => simp [hi] at hi'
      | some l =>
        simp only [hi, Option.map_some, Option.some.injEq] at hi'
        by_cases hcond : (l.chan == c && !l.flag) = true
        · right
          simp only [Bool.and_eq_true, beq_iff_eq, Bool.not_eq_true'] at hcond
          have hv := hs.chanVal (v, c) (lookup_mem hl) l (mem_of_getElem? hi) hcond.1
          exact ⟨l, v, rfl, rfl, hv, hcond.2⟩
        · left
          simp only [hcond, Bool.false_eq_true, if_false] at hi'
          subst hi'
          exact ⟨l, rfl, hh⟩
  | ntFin => simp [step] at hm
  | w0 j =>
    simp only [step] at hm
    cases hj : s.ls[j]? with
    | none => simp [hj] at hm
    | some l =>
      simp only [hj] at hm
      split at hm <;> simp only [List.mem_singleton, Prod.mk.injEq] at hm <;> obtain ⟨rfl, rfl⟩ := hm <;> exact Or.inl (keep rfl)
  | w1 j =>
    simp only [step] at hm
    cases hj : s.ls[j]? with
    | none => simp [hj] at hm
    | some l =>
      simp only [hj, List.mem_append, List.mem_singleton, Prod.mk.injEq] at hm
      rcases hm with (hm | hm) | hm
      · split at hm <;> simp at hm
        obtain ⟨rfl, rfl⟩ := hm; exact Or.inl (keep rfl)
      · split at hm <;> simp at hm
        obtain ⟨rfl, rfl⟩ := hm; exact Or.inl (keep rfl)
      · obtain ⟨rfl, rfl⟩ := hm; exact Or.inl (keep rfl)
  | w2 j =>
    simp only [step] at hm
    cases hj : s.ls[j]? with
    | none => simp [hj] at hm
    | some l =>
      simp only [hj] at hm
      split at hm <;> simp only [List.mem_singleton, Prod.mk.injEq] at hm <;> obtain ⟨rfl, rfl⟩ := hm <;> exact Or.inl (keep rfl)
  | dr j r pc =>
    left
    cases pc with
    | swap =>
      simp only [step] at hm
      cases hj : s.ls[j]? with
      | none =>
        simp only [hj, List.mem_singleton, Prod.mk.injEq] at hm
        obtain ⟨rfl, rfl⟩ := hm; exact keep rfl
      | some l =>
        simp only [hj] at hm
        split at hm <;> simp only [List.mem_singleton, Prod.mk.injEq] at hm <;> obtain ⟨rfl, rfl⟩ := hm
        · exact keep rfl
        · exact keepSet j l { l with flag := true } hj rfl rfl
    | close c =>
      simp only [step, List.mem_singleton, Prod.mk.injEq] at hm
      obtain ⟨rfl, rfl⟩ := hm
      cases hj : s.ls[j]? with
      | none => exact keep (by simp [setL, hj])
      | some l => exact keepSet j l { l with dchan := true } hj rfl (by simp [setL, hj])
    | remove c =>
      simp only [step] at hm
      cases hj : s.ls[j]? with
      | none =>
        simp only [hj, List.mem_singleton, Prod.mk.injEq] at hm
        obtain ⟨rfl, rfl⟩ := hm; exact keep rfl
      | some l =>
        simp only [hj, List.mem_singleton, Prod.mk.injEq] at hm
        obtain ⟨rfl, rfl⟩ := hm
        apply keep
        unfold remove
        cases lookup s l.value with
        | none => rfl
        | some c' =>
          simp only
          split
          · split <;> rfl
          · rfl
    | fin => simp [step] at hm

end Hive.NotifierConc
