import Hive.Proofs.TimedHeap
/-!
# The transitions of the C18 protocol model, one constructor per branch of `Hive.Timed.step`

`step_tr` is the only place where the list-valued `step` is unfolded; every invariant proof is a
case analysis over `Tr`.
-/
namespace Hive.Timed
open Hive.Conc

inductive Tr : Sh → Th → Sh → Th → Prop
  | idleExit {s : Sh} : Heap.pop s.heap = none → s.isShutdown = true →
      Tr s .idle { s with wg := s.wg - 1 } .exited
  | idlePark {s : Sh} : Heap.pop s.heap = none → s.isShutdown = false →
      Tr s .idle { s with parked := s.parked + 1 } .parked
  | idlePop {s : Sh} {e : Elem} {h' : List Elem} : Heap.pop s.heap = some (e, h') →
      Tr s .idle { s with heap := h' } (if e.tag ∈ s.armed then .hk e else .sel e)
  | wake {s : Sh} : 0 < s.wake → Tr s .parked { s with wake := s.wake - 1, parked := s.parked - 1 } .idle
  | hkGo {s : Sh} {e : Elem} : e.tag ∈ s.released → Tr s (.hk e) s (.sel e)
  | selSdCancel {s : Sh} {e : Elem} : s.ctxDone = true → s.flags.cancel = true →
      Tr s (.sel e) { s with wg := s.wg - 1, closed := e.serial :: s.closed, log := .dropSD e.serial :: s.log } .exited
  | selSdIgnore {s : Sh} {e : Elem} : s.ctxDone = true → s.flags.cancel = false → s.flags.ignore = true →
      Tr s (.sel e) s (.chk e)
  | selSd {s : Sh} {e : Elem} : s.ctxDone = true → s.flags.cancel = false → s.flags.ignore = false →
      Tr s (.sel e) s (.selSD e)
  | selCancel {s : Sh} {e : Elem} : e.serial ∈ s.closed →
      Tr s (.sel e) { s with log := .skip e.serial :: s.log } .idle
  | selTimer {s : Sh} {e : Elem} : e.due ≤ s.clock → Tr s (.sel e) s (.chk e)
  | selSDCancel {s : Sh} {e : Elem} : e.serial ∈ s.closed →
      Tr s (.selSD e) { s with log := .skip e.serial :: s.log } .idle
  | selSDTimer {s : Sh} {e : Elem} : e.due ≤ s.clock → Tr s (.selSD e) s (.chk e)
  | chkSkip {s : Sh} {e : Elem} : e.serial ∈ s.closed →
      Tr s (.chk e) { s with log := .skip e.serial :: s.log } .idle
  | chkDeliver {s : Sh} {e : Elem} : e.serial ∉ s.closed →
      Tr s (.chk e) { s with log := .deliver e.serial s.clock :: s.log } (.wrap e)
  | wrapRaw {s : Sh} {e : Elem} : e.id = none →
      Tr s (.wrap e) { s with log := .run e.serial s.clock :: s.log } (.cb e 0)
  | wrapRun {s : Sh} {e : Elem} {i : Nat} : e.id = some i → s.regLocked = false →
      regGet s.reg i = some e.serial →
      Tr s (.wrap e) { s with reg := regDel s.reg i, log := .run e.serial s.clock :: s.log } (.cb e 0)
  | wrapSkip {s : Sh} {e : Elem} {i : Nat} : e.id = some i → s.regLocked = false →
      regGet s.reg i ≠ some e.serial →
      Tr s (.wrap e) { s with log := .skip e.serial :: s.log } .idle
  | cbDone {s : Sh} {e : Elem} {k : Nat} : (∀ due blk tag i, e.kind = .resched due blk tag → e.id = some i → k ≠ 1) →
      Tr s (.cb e k) s .idle
  | cbExec1 {s : Sh} {e : Elem} {i due tag : Nat} {blk : Bool} : e.kind = .resched due blk tag →
      e.id = some i → s.regLocked = false → Tr s (.cb e 0) (exec1 s i) (.cb e 1)
  | cbExec2 {s : Sh} {e : Elem} {i due tag : Nat} {blk : Bool} : e.kind = .resched due blk tag →
      e.id = some i → Tr s (.cb e 1) (exec2 s i due .plain tag) (if blk then .cb e 2 else .idle)
  | cbCancel {s : Sh} {e : Elem} {i k : Nat} : e.kind = .cancelSelf → e.id = some i → s.regLocked = false →
      Tr s (.cb e k) (cancelId s i) .idle
  | ctlExec2 {s : Sh} {i due tag : Nat} {kind : Kind} {script : List EnvOp} :
      Tr s (.ctl (.exec2 i due kind tag) script) (exec2 s i due kind tag) (.ctl .ready script)
  | ctlSd2 {s : Sh} {dw : Bool} {script : List EnvOp} :
      Tr s (.ctl (.sd2 dw) script) { s with ctxDone := true } (.ctl (.sd3 dw) script)
  | ctlSd3 {s : Sh} {dw : Bool} {script : List EnvOp} :
      Tr s (.ctl (.sd3 dw) script) { sd3 s with lastRes := .done } (.ctl (if dw then .ready else .sdWait) script)
  | ctlSdWait {s : Sh} {script : List EnvOp} : s.wg = 0 →
      Tr s (.ctl .sdWait script) { s with lastRes := .done } (.ctl .ready script)
  | ctlWait {s : Sh} {t : Nat} {rest : List EnvOp} : t ≤ s.clock →
      Tr s (.ctl .ready (.waitUntil t :: rest)) s (.ctl .ready rest)
  | ctlAdd {s : Sh} {due tag : Nat} {kind : Kind} {rest : List EnvOp} :
      Tr s (.ctl .ready (.add due kind tag :: rest))
        { (add s due none kind tag).1 with lastRes := (add s due none kind tag).2.toRes } (.ctl .ready rest)
  | ctlExec1 {s : Sh} {i due tag : Nat} {kind : Kind} {rest : List EnvOp} : s.regLocked = false →
      Tr s (.ctl .ready (.exec i due kind tag :: rest)) (exec1 s i) (.ctl (.exec2 i due kind tag) rest)
  | ctlCancelElem {s : Sh} {x : Nat} {rest : List EnvOp} : x < s.next →
      Tr s (.ctl .ready (.cancelElem x :: rest)) { cancelElem s x with lastRes := .done } (.ctl .ready rest)
  | ctlCancelNone {s : Sh} {x : Nat} {rest : List EnvOp} :
      Tr s (.ctl .ready (.cancelElem x :: rest)) { s with lastRes := .done } (.ctl .ready rest)
  | ctlCancelId {s : Sh} {i : Nat} {rest : List EnvOp} : s.regLocked = false →
      Tr s (.ctl .ready (.cancelId i :: rest)) (cancelId s i) (.ctl .ready rest)
  | ctlSd1 {s s' : Sh} {f : Flags} {rest : List EnvOp} : sd1 s f = some s' →
      Tr s (.ctl .ready (.shutdown f :: rest)) s' (.ctl (.sd2 f.dontWait) rest)
  | ctlSdAgain {s : Sh} {f : Flags} {rest : List EnvOp} {r : Res} {pc : CPc} : sd1 s f = none →
      (pc = .ready ∨ pc = .sdWait) →
      Tr s (.ctl .ready (.shutdown f :: rest)) { s with lastRes := r } (.ctl pc rest)
  | ctlRelease {s : Sh} {tag : Nat} {rest : List EnvOp} :
      Tr s (.ctl .ready (.release tag :: rest)) { s with released := tag :: s.released, lastRes := .done }
        (.ctl .ready rest)
  | ctlArm {s : Sh} {tag : Nat} {rest : List EnvOp} :
      Tr s (.ctl .ready (.arm tag :: rest)) { s with armed := tag :: s.armed, lastRes := .done } (.ctl .ready rest)
  | tick {s : Sh} : Tr s .ticker { s with clock := s.clock + 1 } .ticker

theorem step_tr {s s' : Sh} {t t' : Th} (h : (s', t') ∈ step s t) : Tr s t s' t' := by
  cases t with
  | idle =>
    simp only [step, workerStep] at h
    cases hp : Heap.pop s.heap with
    | none =>
      simp only [hp] at h
      split at h <;> simp only [List.mem_singleton, Prod.mk.injEq] at h <;> obtain ⟨rfl, rfl⟩ := h
      · exact .idleExit hp ‹_›
      · exact .idlePark hp (by simpa using ‹¬ s.isShutdown = true›)
    | some p =>
      obtain ⟨e, h'⟩ := p
      simp only [hp, List.mem_singleton, Prod.mk.injEq] at h
      obtain ⟨rfl, rfl⟩ := h
      exact .idlePop hp
  | parked =>
    simp only [step, workerStep] at h
    split at h
    · simp only [List.mem_singleton, Prod.mk.injEq] at h
      obtain ⟨rfl, rfl⟩ := h
      exact .wake ‹_›
    · simp at h
  | hk e =>
    simp only [step, workerStep] at h
    split at h
    · simp only [List.mem_singleton, Prod.mk.injEq] at h
      obtain ⟨rfl, rfl⟩ := h
      exact .hkGo ‹_›
    · simp at h
  | sel e =>
    simp only [step, workerStep, List.mem_append] at h
    rcases h with (h | h) | h
    · split at h
      · rename_i hc
        split at h
        · rename_i hf
          simp only [List.mem_singleton, Prod.mk.injEq] at h
          obtain ⟨rfl, rfl⟩ := h
          exact .selSdCancel hc hf
        · rename_i hf
          split at h
          · rename_i hi
            simp only [List.mem_singleton, Prod.mk.injEq] at h
            obtain ⟨rfl, rfl⟩ := h
            exact .selSdIgnore hc (by simpa using hf) hi
          · rename_i hi
            simp only [List.mem_singleton, Prod.mk.injEq] at h
            obtain ⟨rfl, rfl⟩ := h
            exact .selSd hc (by simpa using hf) (by simpa using hi)
      · simp at h
    · split at h
      · simp only [List.mem_singleton, Prod.mk.injEq] at h
        obtain ⟨rfl, rfl⟩ := h
        exact .selCancel ‹_›
      · simp at h
    · split at h
      · simp only [List.mem_singleton, Prod.mk.injEq] at h
        obtain ⟨rfl, rfl⟩ := h
        exact .selTimer ‹_›
      · simp at h
  | selSD e =>
    simp only [step, workerStep, List.mem_append] at h
    rcases h with h | h
    · split at h
      · simp only [List.mem_singleton, Prod.mk.injEq] at h
        obtain ⟨rfl, rfl⟩ := h
        exact .selSDCancel ‹_›
      · simp at h
    · split at h
      · simp only [List.mem_singleton, Prod.mk.injEq] at h
        obtain ⟨rfl, rfl⟩ := h
        exact .selSDTimer ‹_›
      · simp at h
  | chk e =>
    simp only [step, workerStep] at h
    split at h <;> simp only [List.mem_singleton, Prod.mk.injEq] at h <;> obtain ⟨rfl, rfl⟩ := h
    · exact .chkSkip ‹_›
    · exact .chkDeliver ‹_›
  | wrap e =>
    simp only [step, workerStep] at h
    cases hid : e.id with
    | none =>
      simp only [hid, List.mem_singleton, Prod.mk.injEq] at h
      obtain ⟨rfl, rfl⟩ := h
      exact .wrapRaw hid
    | some i =>
      simp only [hid] at h
      split at h
      · simp at h
      · rename_i hl
        have hl : s.regLocked = false := by simpa using hl
        split at h
        · rename_i hr
          simp only [List.mem_singleton, Prod.mk.injEq] at h
          obtain ⟨rfl, rfl⟩ := h
          exact .wrapRun hid hl hr
        · rename_i hr
          simp only [List.mem_singleton, Prod.mk.injEq] at h
          obtain ⟨rfl, rfl⟩ := h
          exact .wrapSkip hid hl hr
  | cb e k =>
    simp only [step, workerStep] at h
    cases hk : e.kind with
    | plain =>
      simp only [hk, List.mem_singleton, Prod.mk.injEq] at h
      obtain ⟨rfl, rfl⟩ := h
      exact .cbDone (by intro due blk tag i hk'; rw [hk] at hk'; cases hk')
    | block =>
      simp only [hk] at h
      split at h
      · simp only [List.mem_singleton, Prod.mk.injEq] at h
        obtain ⟨rfl, rfl⟩ := h
        exact .cbDone (by intro due blk tag i hk'; rw [hk] at hk'; cases hk')
      · simp at h
    | resched due blk tag =>
      cases hi : e.id with
      | none =>
        simp only [hk, hi, List.mem_singleton, Prod.mk.injEq] at h
        obtain ⟨rfl, rfl⟩ := h
        exact .cbDone (by intro due' blk' tag' i _ hi'; rw [hi] at hi'; cases hi')
      | some i =>
        simp only [hk, hi] at h
        match k, h with
        | 0, h =>
          simp only at h
          split at h
          · simp at h
          · rename_i hl
            simp only [List.mem_singleton, Prod.mk.injEq] at h
            obtain ⟨rfl, rfl⟩ := h
            exact .cbExec1 hk hi (by simpa using hl)
        | 1, h =>
          simp only [List.mem_singleton, Prod.mk.injEq] at h
          obtain ⟨rfl, rfl⟩ := h
          exact .cbExec2 hk hi
        | k + 2, h =>
          simp only at h
          split at h
          · simp only [List.mem_singleton, Prod.mk.injEq] at h
            obtain ⟨rfl, rfl⟩ := h
            exact .cbDone (by intros; omega)
          · simp at h
    | cancelSelf =>
      cases hi : e.id with
      | none =>
        simp only [hk, hi, List.mem_singleton, Prod.mk.injEq] at h
        obtain ⟨rfl, rfl⟩ := h
        exact .cbDone (by intro due blk tag i hk'; rw [hk] at hk'; cases hk')
      | some i =>
        simp only [hk, hi] at h
        split at h
        · simp at h
        · rename_i hl
          simp only [List.mem_singleton, Prod.mk.injEq] at h
          obtain ⟨rfl, rfl⟩ := h
          exact .cbCancel hk hi (by simpa using hl)
  | exited => simp [step, workerStep] at h
  | ticker =>
    simp only [step, List.mem_singleton, Prod.mk.injEq] at h
    obtain ⟨rfl, rfl⟩ := h
    exact .tick
  | ctl pc script =>
    simp only [step, ctlStep] at h
    cases pc with
    | exec2 i due kind tag =>
      simp only [List.mem_singleton, Prod.mk.injEq] at h
      obtain ⟨rfl, rfl⟩ := h
      exact .ctlExec2
    | sd2 dw =>
      simp only [List.mem_singleton, Prod.mk.injEq] at h
      obtain ⟨rfl, rfl⟩ := h
      exact .ctlSd2
    | sd3 dw =>
      simp only [List.mem_singleton, Prod.mk.injEq] at h
      obtain ⟨rfl, rfl⟩ := h
      exact .ctlSd3
    | sdWait =>
      simp only at h
      split at h
      · simp only [List.mem_singleton, Prod.mk.injEq] at h
        obtain ⟨rfl, rfl⟩ := h
        exact .ctlSdWait ‹_›
      · simp at h
    | ready =>
      simp only at h
      cases script with
      | nil => simp at h
      | cons op rest =>
        simp only at h
        cases op with
        | waitUntil t =>
          simp only at h
          split at h
          · simp only [List.mem_singleton, Prod.mk.injEq] at h
            obtain ⟨rfl, rfl⟩ := h
            exact .ctlWait ‹_›
          · simp at h
        | add due kind tag =>
          simp only [List.mem_singleton, Prod.mk.injEq] at h
          obtain ⟨rfl, rfl⟩ := h
          exact .ctlAdd
        | exec i due kind tag =>
          simp only at h
          split at h
          · simp at h
          · simp only [List.mem_singleton, Prod.mk.injEq] at h
            obtain ⟨rfl, rfl⟩ := h
            exact .ctlExec1 (by simpa using ‹¬ s.regLocked = true›)
        | cancelElem x =>
          simp only at h
          split at h
          · rename_i hx
            simp only [List.mem_singleton, Prod.mk.injEq] at h
            obtain ⟨rfl, rfl⟩ := h
            exact .ctlCancelElem hx
          · simp only [List.mem_singleton, Prod.mk.injEq] at h
            obtain ⟨rfl, rfl⟩ := h
            exact .ctlCancelNone
        | cancelId i =>
          simp only at h
          split at h
          · simp at h
          · simp only [List.mem_singleton, Prod.mk.injEq] at h
            obtain ⟨rfl, rfl⟩ := h
            exact .ctlCancelId (by simpa using ‹¬ s.regLocked = true›)
        | shutdown f =>
          simp only at h
          cases hs : sd1 s f with
          | some s1 =>
            simp only [hs, List.mem_singleton, Prod.mk.injEq] at h
            obtain ⟨rfl, rfl⟩ := h
            exact .ctlSd1 hs
          | none =>
            simp only [hs] at h
            split at h <;> simp only [List.mem_singleton, Prod.mk.injEq] at h <;> obtain ⟨rfl, rfl⟩ := h
            · exact .ctlSdAgain hs (Or.inl rfl)
            · refine .ctlSdAgain hs ?_
              split
              · exact Or.inl rfl
              · exact Or.inr rfl
        | release tag =>
          simp only [List.mem_singleton, Prod.mk.injEq] at h
          obtain ⟨rfl, rfl⟩ := h
          exact .ctlRelease
        | arm tag =>
          simp only [List.mem_singleton, Prod.mk.injEq] at h
          obtain ⟨rfl, rfl⟩ := h
          exact .ctlArm

/-- Every transition of the system is a `Tr` of one thread. -/
theorem Step.tr {a b : Cfg Sh Th} (h : Step sys a b) :
    ∃ s pre t post s' t', a = (s, pre ++ t :: post) ∧ b = (s', pre ++ t' :: post) ∧ Tr s t s' t' := by
  cases h with
  | mk s pre t post s' t' hm => exact ⟨s, pre, t, post, s', t', rfl, rfl, step_tr hm⟩

end Hive.Timed
