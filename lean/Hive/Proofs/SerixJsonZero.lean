import Hive.Proofs.SerixJsonBase
/-!
# `omitempty`: a value the encoder regards as empty is the value a fresh decode target holds

`valOk t v → isEmpty t v → v = missingVal t` — what justifies skipping `omitempty` fields.
-/
namespace Hive.SerixJson

variable (fc : FloatCodec)

theorem isNil_eq (v : Val) (h : v.isNil = true) : v = .nil := by
  cases v <;> simp [Val.isNil] at h ⊢

theorem replicate_of_all {e : JTy} (P : ∀ v, valOk fc e v = true → isZero e v = true → v = goZero e) :
    ∀ (xs : List Val), xs.all (valOk fc e) = true → xs.all (isZero e) = true →
      xs = List.replicate xs.length (goZero e)
  | [], _, _ => rfl
  | x :: xs, h1, h2 => by
    simp only [List.all_cons, Bool.and_eq_true] at h1 h2
    simp only [List.length_cons, List.replicate_succ]
    rw [← replicate_of_all P xs h1.2 h2.2, ← P x h1.1 h2.1]

mutual
theorem zero_ty : ∀ (t : JTy) (v : Val), valOk fc t v = true → isZero t v = true → v = goZero t
  | .bool, v, hv, hz => by
    cases v <;> simp [valOk] at hv
    simp [isZero] at hz; simp [goZero, hz]
  | .uint w, v, hv, hz => by
    cases v <;> simp [valOk] at hv
    simp [isZero] at hz; simp [goZero, hz]
  | .int w, v, hv, hz => by
    cases v <;> simp [valOk] at hv
    simp [isZero] at hz; simp [goZero, hz]
  | .float w, v, hv, hz => by
    cases v <;> simp [valOk] at hv
    simp [isZero] at hz
    rcases hz with hz | hz
    · simp [goZero, hz]
    · exact absurd hz hv.2
  | .str b, v, hv, hz => by
    cases v <;> simp [valOk] at hv
    simp [isZero] at hz; simp [goZero, hz]
  | .bytes b, v, hv, hz => by
    cases v <;> simp [valOk] at hv
    simp [isZero, Val.isNil] at hz
  | .byteArr false n, v, hv, hz => by
    cases v <;> simp [valOk] at hv
    rename_i bs
    simp only [isZero] at hz
    rw [goZero, all_zero_eq_replicate bs hz, hv]
  | .byteArr true n, v, hv, hz => by
    simp only [isZero] at hz
    rw [isNil_eq v hz]; rfl
  | .typedBytes false (some n) code key, v, hv, hz => by
    cases v <;> simp [valOk] at hv
    rename_i bs
    simp only [isZero] at hz
    rw [goZero, all_zero_eq_replicate bs hz, hv]
  | .typedBytes false none code key, v, hv, hz => by
    simp only [isZero] at hz
    rw [isNil_eq v hz] at hv
    simp [valOk] at hv
  | .typedBytes true n code key, v, hv, hz => by
    simp only [isZero] at hz
    rw [isNil_eq v hz]; rfl
  | .u256, v, hv, hz => by
    cases v <;> simp [valOk] at hv
    · rfl
    · simp [isZero, Val.isNil] at hz
  | .time, v, hv, hz => by
    cases v <;> simp [valOk] at hv
    simp [isZero, Val.isNil] at hz
  | .slice b e, v, hv, hz => by
    cases v <;> simp [valOk] at hv
    simp [isZero, Val.isNil] at hz
  | .array n e, v, hv, hz => by
    cases v <;> simp only [valOk, Bool.false_eq_true] at hv
    rename_i xs
    simp only [Bool.and_eq_true, decide_eq_true_eq] at hv
    simp only [isZero] at hz
    rw [goZero, replicate_of_all fc (fun v => zero_ty e v) xs hv.2 hz, hv.1]
  | .map b k e, v, hv, hz => by
    cases v <;> simp [valOk] at hv
    simp [isZero, Val.isNil] at hz
  | .struct code fs, v, hv, hz => by
    cases v <;> simp only [valOk, Bool.false_eq_true] at hv
    rename_i vs
    simp only [isZero] at hz
    rw [goZero, zero_fields fs vs hv hz]
  | .ptr t, v, hv, hz => by
    simp only [isZero] at hz
    rw [isNil_eq v hz]; rfl
  | .iface alts, v, hv, hz => by
    simp only [isZero] at hz
    rw [isNil_eq v hz]; rfl
theorem zero_fields : ∀ (fs : Fields) (vs : List Val), valsOk fc fs vs = true → zeroFields fs vs = true →
    vs = zeroVals fs
  | .nil, vs, hv, _ => by
    cases vs <;> simp [valsOk] at hv
    rfl
  | .named key opt omt t rest, vs, hv, hz => by
    cases vs with
    | nil => simp [valsOk] at hv
    | cons v vs =>
      simp only [valsOk, Bool.and_eq_true] at hv
      simp only [zeroFields, Bool.and_eq_true] at hz
      rw [zeroVals, zero_ty t v hv.1 hz.1, zero_fields rest vs hv.2 hz.2]
  | .embedded viaPtr fs rest, vs, hv, hz => by
    cases vs with
    | nil => cases viaPtr <;> simp [valsOk] at hv
    | cons v vs =>
      cases viaPtr
      · cases v <;> simp only [valsOk, Bool.false_eq_true] at hv
        rename_i xs
        simp only [Bool.and_eq_true] at hv
        simp only [zeroFields, Bool.and_eq_true] at hz
        rw [zeroVals, zero_fields fs xs hv.1 hz.1, zero_fields rest vs hv.2 hz.2]
      · simp only [zeroFields, Bool.and_eq_true] at hz
        have hn := isNil_eq v hz.1
        subst hn
        simp only [valsOk] at hv
        rw [zeroVals, zero_fields rest vs hv hz.2]
  | .inlined code fs rest, vs, hv, hz => by
    cases vs with
    | nil => simp [valsOk] at hv
    | cons v vs =>
      cases v <;> simp only [valsOk, Bool.false_eq_true] at hv
      rename_i xs
      simp only [Bool.and_eq_true] at hv
      simp only [zeroFields, Bool.and_eq_true] at hz
      rw [zeroVals, zero_fields fs xs hv.1 hz.1, zero_fields rest vs hv.2 hz.2]
end

/-- an `omitempty` field that the encoder skips holds exactly what the decoder leaves in place. -/
theorem empty_eq_missing (t : JTy) (v : Val) (hv : valOk fc t v = true) (he : isEmpty t v = true) :
    v = missingVal t := by
  unfold isEmpty at he
  rw [Bool.or_eq_true] at he
  rcases he with hz | hs
  · have hgz := zero_ty fc t v hv hz
    match t, hv, hz, hgz with
    | .slice _ _, hv, hz, _ =>
      simp only [isZero] at hz
      rw [isNil_eq v hz] at hv; simp [valOk] at hv
    | .bytes _, hv, hz, _ =>
      simp only [isZero] at hz
      rw [isNil_eq v hz] at hv; simp [valOk] at hv
    | .typedBytes false none _ _, hv, hz, _ =>
      simp only [isZero] at hz
      rw [isNil_eq v hz] at hv; simp [valOk] at hv
    | .typedBytes false (some _) _ _, _, _, h => exact h
    | .typedBytes true _ _ _, _, _, h => exact h
    | .bool, _, _, h => exact h
    | .uint _, _, _, h => exact h
    | .int _, _, _, h => exact h
    | .float _, _, _, h => exact h
    | .str _, _, _, h => exact h
    | .byteArr _ _, _, _, h => exact h
    | .u256, _, _, h => exact h
    | .time, _, _, h => exact h
    | .array _ _, _, _, h => exact h
    | .map _ _ _, _, _, h => exact h
    | .struct _ _, _, _, h => exact h
    | .ptr _, _, _, h => exact h
    | .iface _, _, _, h => exact h
  · split at hs
    · rfl
    · rfl
    · rfl
    · exact absurd hs (by decide)

end Hive.SerixJson
