import Hive.Proofs.SeqConcStep
import Hive.Proofs.SeqConcSeq
/-! Consequences of the invariant of the concurrent `Sequence` model that the property theorems in
`Hive/Props/C07b.lean` are assembled from. -/
namespace Hive.Seq.Conc
open Hive.Conc Hive.Seq

/-- The state at the last linearisation point is a state of the sequential machine reached by a
well-formed history, hence satisfies the sequential invariant. -/
theorem base_inv {s0 : St} {c : Cfg Shared Thread} (h0 : Seq.Inv s0) (hi : Inv s0 c) : Seq.Inv c.1.base := by
  have := inv_final (histOps c.1.hist) hi.wf h0
  rw [← run_fst', hi.run] at this
  exact this

/-- A goroutine outside the mutex-protected section can only acquire the (free) mutex: it touches
neither the object's fields nor the store nor any ghost. -/
theorem outside_step {sh s' : Shared} {g : Gor} {t' : Thread} (h : (s', t') ∈ tstep sh (.gor g))
    (hout : g.pc.inside = false) :
    sh.holder = none ∧ s'.holder = some g.id ∧ s'.st = sh.st ∧ s'.log = sh.log ∧ s'.hist = sh.hist ∧
      s'.base = sh.base ∧ s'.epoch = sh.epoch := by
  simp only [tstep] at h
  split at h
  · simp only [List.mem_map] at h
    obtain ⟨⟨s1, g1⟩, hm, heq⟩ := h
    simp only [Prod.mk.injEq] at heq
    obtain ⟨rfl, rfl⟩ := heq
    obtain ⟨id, ep, script, pc, got⟩ := g
    cases pc <;> try (cases hout)
    simp only [mstep] at hm
    cases script with
    | nil => simp at hm
    | cons c rest =>
      simp only at hm
      split at hm
      · simp at hm
      · rename_i hh
        simp only [List.mem_singleton, Prod.mk.injEq] at hm
        obtain ⟨rfl, rfl⟩ := hm
        have hh' : sh.holder = none := by
          cases h : sh.holder with
          | none => rfl
          | some x => simp [h] at hh
        exact ⟨hh', rfl, rfl, rfl, rfl, rfl, rfl⟩
  · simp at h

/-- An environment step is a crash of the sequential machine at boundary `cp` followed by `new i`. -/
theorem env_step {sh s' : Shared} {rs : List Nat} {t' : Thread} (h : (s', t') ∈ tstep sh (.env rs)) :
    ∃ i, 0 < i ∧ s'.st = (step sh.st (.new i)).1 ∧ s'.base = s'.st ∧ s'.epoch = sh.epoch + 1 ∧ s'.holder = none ∧
      s'.log = sh.log := by
  simp only [tstep] at h
  cases rs with
  | nil => simp [estep] at h
  | cons i rest =>
    simp only [estep] at h
    split at h
    · simp at h
    · rename_i hi0
      simp only [List.mem_singleton, Prod.mk.injEq] at h
      obtain ⟨rfl, rfl⟩ := h
      exact ⟨i, Nat.pos_of_ne_zero hi0, rfl, rfl, rfl, rfl, rfl⟩

theorem mark_new (t : St) (i : Nat) : mark (step t (.new i)).1 = mark t := by
  simp [step, mark, abandon_store]

theorem frontier_new (t : St) (i : Nat) : frontier (step t (.new i)).1 = mark t := by
  simp [step, frontier, hasLease, mark, abandon_store]

theorem mark_abandon (t : St) : mark (abandon t) = mark t := by simp [mark, abandon_store]

/-- Decomposition of a run whose last operation is known. -/
theorem run_last {s0 base : St} {ops : List Op} {outs : List Out} {op : Op} {a : Out}
    (h : run s0 (ops ++ [op]) = (base, outs ++ [a])) :
    base = (step (run s0 ops).1 op).1 ∧ a = (step (run s0 ops).1 op).2 := by
  rw [run_append] at h
  simp only [run, Prod.mk.injEq] at h
  obtain ⟨h1, h2⟩ := h
  have hlen : (run s0 ops).2.length = outs.length := by
    have := congrArg List.length h2
    simp only [List.length_append, List.length_cons, List.length_nil] at this
    omega
  have := List.append_inj h2 hlen
  exact ⟨h1.symm, by simpa using this.2.symm⟩

/-! ### no value ever exceeds `cap` (the code's `uint64` arithmetic never wraps), also mid-section -/

theorem base_bnd {s0 : St} {c : Cfg Shared Thread} (h0 : Seq.Inv s0) (hb0 : Bnd s0) (hi : Inv s0 c) :
    Bnd c.1.base := by
  have := bnd_final (histOps c.1.hist) hi.wf h0 hb0
  rw [← run_fst', hi.run] at this
  exact this

/-- The stored mark and the object's counters are at most `cap`. -/
def BndC (st : St) : Prop := mark st ≤ cap ∧ ∀ o, st.obj = some o → o.next ≤ cap ∧ o.reserved ≤ cap

theorem bndC_base {b : St} (hi : Seq.Inv b) (hb : Bnd b) : BndC b :=
  ⟨hb.mark_le, fun o ho => ⟨Nat.le_trans (hb.next_le o ho) hb.mark_le, Nat.le_trans (hi.res_le o ho) hb.mark_le⟩⟩

theorem pcOk_bnd {s : Shared} {id : Nat} {pc : Pc} (hi : Seq.Inv s.base) (hb : Bnd s.base) (h : PcOk s id pc)
    (hin : pc.inside = true) : BndC s.st := by
  have hB := bndC_base hi hb
  have hmk := hb.mark_le
  cases pc with
  | idle => cases hin
  | nTest => rw [h.1]; exact hB
  | rTest => rw [h.1]; exact hB
  | uGet => rw [h.1]; exact hB
  | uNext m => rw [h.1]; exact hB
  | rSet => rw [h.1]; exact hB
  | unlock a => rw [h.1]; exact hB
  | uSet =>
    obtain ⟨_, o, hbo, _, _, hst⟩ := h
    rw [hst]
    refine ⟨hmk, fun o' ho' => ?_⟩
    simp only [Option.some.injEq] at ho'; subst ho'
    exact ⟨hmk, (hB.2 o hbo).2⟩
  | uRes r =>
    obtain ⟨_, o, hbo, _, _, _, hst⟩ := h
    rw [hst]
    refine ⟨?_, fun o' ho' => ?_⟩
    · simpa [mark] using lease_cap _ o.interval hmk
    · simp only [Option.some.injEq] at ho'; subst ho'
      exact ⟨hmk, (hB.2 o hbo).2⟩
  | nHand =>
    rcases h with ⟨hst, _⟩ | ⟨_, o, hbo, _, _, hst⟩
    · rw [hst]; exact hB
    · rw [hst]
      refine ⟨?_, fun o' ho' => ?_⟩
      · simpa [mark] using lease_cap _ o.interval hmk
      · simp only [Option.some.injEq] at ho'; subst ho'
        exact ⟨hmk, lease_cap _ o.interval hmk⟩
  | rRes =>
    obtain ⟨_, o, hbo, _, hst⟩ := h
    rw [hst]
    refine ⟨?_, fun o' ho' => ?_⟩
    · simpa [mark] using (hB.2 o hbo).1
    · have : s.base.obj = some o' := ho'
      exact hB.2 o' this

theorem conc_bnd {s0 : St} {c : Cfg Shared Thread} (h0 : Seq.Inv s0) (hb0 : Bnd s0) (hi : Inv s0 c) :
    BndC c.1.st := by
  have hib := base_inv h0 hi
  have hbb := base_bnd h0 hb0 hi
  cases hh : c.1.holder with
  | none => rw [(hi.quiet hh).1]; exact bndC_base hib hbb
  | some h =>
    have hc := hi.cnt
    rw [hh] at hc
    have hpos : 0 < c.2.countP (pIn c.1.epoch) := by rw [hc]; simp
    obtain ⟨t, ht, hp⟩ := List.countP_pos_iff.mp hpos
    cases t with
    | env rs => simp [pIn] at hp
    | gor g =>
      simp only [pIn, Bool.and_eq_true, beq_iff_eq] at hp
      obtain ⟨_, hok⟩ := (hi.threads _ ht).2 hp.1 hp.2
      exact pcOk_bnd hib hbb hok hp.2

end Hive.Seq.Conc
