import Hive.Proofs.Ads
import Hive.Proofs.AdsTrieExt
/-!
# The glue model over the trie model (C09)

`Hive/Model/Ads.lean` keeps the trie abstract (`Root = rootOf contents` for an arbitrary `rootOf`);
`Hive/Model/AdsTrie.lean` models the trie itself on bit paths.  Here the two are composed: along a
history of the glue the calls it issues on the trie are collected (`Set` → `tree.Update(path(key),
value)`; `Delete` → `tree.Delete(path(key))` only when `has` answered true; nothing else writes),
with `path = ph : Key → Path` the path hasher (SHA-256 in the code), about which only two things are
assumed: it produces paths of one fixed length, and it does not collide **on the keys that occur**
(`InjOn`; a hasher into a finite path space cannot be injective on all byte strings).
-/
namespace Hive.Ads
open SMT

variable {R : Type}

/-- The key a state-changing call addresses (when its serializers succeed). -/
def Op.writeKey : Op → Option Key
  | .set (some k) (some _) => some k
  | .del (some k) => some k
  | _ => none

/-- The keys written or deleted in a history. -/
def keysOf : List Op → List Key
  | [] => []
  | op :: ops => (match op.writeKey with | some k => [k] | none => []) ++ keysOf ops

/-- The calls on the trie that the glue issues for one call in state `s` (ads/map_impl.go: `Set` updates
unconditionally, `Delete` returns early when `has` is false). -/
def trieCallsOf (ph : Key → Path) (s : St R) : Op → List TOp
  | .set (some k) (some v) => [.put (ph k) v]
  | .del (some k) => if has s k then [.del (ph k)] else []
  | _ => []

/-- The calls on the trie along a history that starts in state `s`. -/
def trieCalls (c : Cfg R) (ph : Key → Path) : St R → List Op → List TOp
  | _, [] => []
  | s, op :: ops => trieCallsOf ph s op ++ trieCalls c ph (step c s op).1 ops

/-- The path hasher does not collide on the keys of `K`. -/
def InjOn (ph : Key → Path) (K : List Key) : Prop := ∀ k₁ ∈ K, ∀ k₂ ∈ K, ph k₁ = ph k₂ → k₁ = k₂

/-- The map on paths `pm` is the plain map `m` transported along `ph`, all keys being in `K`. -/
structure PathRel (ph : Key → Path) (K : List Key) (m : Spec.SMap) (pm : Path → Option Val) : Prop where
  on : ∀ k ∈ K, pm (ph k) = m k
  off : ∀ p, (∀ k ∈ K, ph k ≠ p) → pm p = none
  out : ∀ k, k ∉ K → m k = none

theorem has_eq_abs (s : St R) (k : Key) : has s k = (abs s k).isSome := rfl

theorem pathRel_step (ph : Key → Path) (K : List Key) (hinj : InjOn ph K) (s : St R) (op : Op)
    (hk : ∀ k, op.writeKey = some k → k ∈ K) (pm : Path → Option Val) (h : PathRel ph K (abs s) pm) :
    PathRel ph K (Spec.apply (abs s) op) ((trieCallsOf ph s op).foldl specApply pm) := by
  have put_case : ∀ k v, k ∈ K →
      PathRel ph K (Spec.put (abs s) k v) (specApply pm (.put (ph k) v)) := by
    intro k v hkK
    refine ⟨?_, ?_, ?_⟩
    · intro k' hk'
      simp only [specApply, Spec.put]
      by_cases e : k' = k
      · subst e; simp
      · have : ph k ≠ ph k' := fun hp => e (hinj k hkK k' hk' hp).symm
        simp [this, e, h.on k' hk']
    · intro p hp
      simp only [specApply]
      have : ph k ≠ p := hp k hkK
      simp [this, h.off p hp]
    · intro k' hk'
      simp only [Spec.put]
      have : k' ≠ k := fun e => hk' (e ▸ hkK)
      simp [this, h.out k' hk']
  cases op with
  | set k v =>
    cases k with
    | none => cases v <;> exact h
    | some kb =>
      cases v with
      | none => exact h
      | some vb => exact put_case kb vb (hk kb rfl)
  | del k =>
    cases k with
    | none => exact h
    | some kb =>
      have hkK : kb ∈ K := hk kb rfl
      simp only [trieCallsOf, Spec.apply]
      cases hh : has s kb with
      | true =>
        simp only [if_true, List.foldl_cons, List.foldl_nil]
        refine ⟨?_, ?_, ?_⟩
        · intro k' hk'
          simp only [specApply, Spec.remove]
          by_cases e : k' = kb
          · subst e; simp
          · have : ph kb ≠ ph k' := fun hp => e (hinj kb hkK k' hk' hp).symm
            simp [this, e, h.on k' hk']
        · intro p hp
          simp only [specApply]
          have : ph kb ≠ p := hp kb hkK
          simp [this, h.off p hp]
        · intro k' hk'
          simp only [Spec.remove]
          have : k' ≠ kb := fun e => hk' (e ▸ hkK)
          simp [this, h.out k' hk']
      | false =>
        have hnone : abs s kb = none := by
          rw [has_eq_abs] at hh
          cases hv : abs s kb with
          | none => rfl
          | some _ => simp [hv] at hh
        simp only [Bool.false_eq_true, if_false, List.foldl_nil]
        refine ⟨?_, h.off, ?_⟩
        · intro k' hk'
          simp only [Spec.remove]
          by_cases e : k' = kb
          · subst e; simp [h.on k' hk', hnone]
          · simp [e, h.on k' hk']
        · intro k' hk'
          simp only [Spec.remove]
          by_cases e : k' = kb
          · simp [e]
          · simp [e, h.out k' hk']
  | get k => exact h
  | has k => exact h
  | size => exact h
  | stream n => exact h
  | commit => exact h
  | root => exact h
  | restored => exact h
  | reopen => exact h

theorem keysOf_cons_subset (op : Op) (ops : List Op) (K : List Key) (h : ∀ k ∈ keysOf (op :: ops), k ∈ K) :
    (∀ k, op.writeKey = some k → k ∈ K) ∧ ∀ k ∈ keysOf ops, k ∈ K := by
  constructor
  · intro k hk
    apply h
    simp [keysOf, hk]
  · intro k hk
    apply h
    simp [keysOf, hk]

/-- Along every history (reopens at commit points) the plain map on paths that the issued trie calls
build is the plain map of the history transported along the path hasher. -/
theorem pathRel_final (c : Cfg R) (ph : Key → Path) (K : List Key) (hinj : InjOn ph K) (ops : List Op) :
    ∀ (s : St R) (pm : Path → Option Val), Inv c s → CleanFrom c s ops → (∀ k ∈ keysOf ops, k ∈ K) →
      PathRel ph K (abs s) pm →
      PathRel ph K (abs (final c s ops)) ((trieCalls c ph s ops).foldl specApply pm) := by
  induction ops with
  | nil => intro s pm _ _ _ h; exact h
  | cons op ops ih =>
    intro s pm hi hc hK h
    obtain ⟨hk, hK'⟩ := keysOf_cons_subset op ops K hK
    have h1 := pathRel_step ph K hinj s op hk pm h
    rw [← step_abs c s op hi hc.1] at h1
    have := ih (step c s op).1 _ (step_inv c s op hi hc.1) hc.2 hK' h1
    simpa [trieCalls, final_cons, List.foldl_append] using this

theorem pathRel_init (ph : Key → Path) (K : List Key) : PathRel ph K (abs (init : St R)) (fun _ => none) := by
  rw [abs_init]
  exact ⟨fun _ _ => rfl, fun _ _ => rfl, fun _ _ => rfl⟩

theorem trieCalls_width (c : Cfg R) (ph : Key → Path) (n : Nat) (hlen : ∀ k, (ph k).length = n) (ops : List Op) :
    ∀ s : St R, ∀ op ∈ trieCalls c ph s ops, op.path.length = n := by
  induction ops with
  | nil => intro s op h; simp [trieCalls] at h
  | cons o ops ih =>
    intro s op h
    simp only [trieCalls, List.mem_append] at h
    rcases h with h | h
    · cases o with
      | set k v =>
        cases k with
        | none => cases v <;> simp [trieCallsOf] at h
        | some kb =>
          cases v with
          | none => simp [trieCallsOf] at h
          | some vb => simp [trieCallsOf] at h; subst h; exact hlen kb
      | del k =>
        cases k with
        | none => simp [trieCallsOf] at h
        | some kb =>
          simp only [trieCallsOf] at h
          split at h
          · simp at h; subst h; exact hlen kb
          · simp at h
      | get k => simp [trieCallsOf] at h
      | has k => simp [trieCallsOf] at h
      | size => simp [trieCallsOf] at h
      | stream n => simp [trieCallsOf] at h
      | commit => simp [trieCallsOf] at h
      | root => simp [trieCallsOf] at h
      | restored => simp [trieCallsOf] at h
      | reopen => simp [trieCallsOf] at h
    · exact ih _ op h

/-- The plain map on paths after the trie calls of a history from the initial state. -/
theorem specRun_trieCalls (c : Cfg R) (ph : Key → Path) (K : List Key) (hinj : InjOn ph K) (ops : List Op)
    (hc : CleanFrom c init ops) (hK : ∀ k ∈ keysOf ops, k ∈ K) :
    PathRel ph K (Spec.final ops) (specRun (trieCalls c ph init ops)) := by
  have := pathRel_final c ph K hinj ops init (fun _ => none) (inv_init c) hc hK (pathRel_init ph K)
  rw [final_abs_init c ops hc] at this
  exact this

/-- Two histories with equal plain maps issue trie calls with equal plain maps on paths. -/
theorem specRun_trieCalls_eq (c : Cfg R) (ph : Key → Path) (K : List Key) (hinj : InjOn ph K) (ops₁ ops₂ : List Op)
    (h₁ : CleanFrom c init ops₁) (h₂ : CleanFrom c init ops₂)
    (hK₁ : ∀ k ∈ keysOf ops₁, k ∈ K) (hK₂ : ∀ k ∈ keysOf ops₂, k ∈ K)
    (heq : ∀ k, Spec.final ops₁ k = Spec.final ops₂ k) (p : Path) :
    specRun (trieCalls c ph init ops₁) p = specRun (trieCalls c ph init ops₂) p := by
  have r₁ := specRun_trieCalls c ph K hinj ops₁ h₁ hK₁
  have r₂ := specRun_trieCalls c ph K hinj ops₂ h₂ hK₂
  by_cases hp : ∃ k ∈ K, ph k = p
  · obtain ⟨k, hk, rfl⟩ := hp
    rw [r₁.on k hk, r₂.on k hk, heq k]
  · have hp' : ∀ k ∈ K, ph k ≠ p := fun k hk e => hp ⟨k, hk, e⟩
    rw [r₁.off p hp', r₂.off p hp']

end Hive.Ads
