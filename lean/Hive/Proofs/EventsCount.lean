import Hive.Proofs.EventsLink
import Hive.Model.EventsMax
/-!
# Counter invariant of the sequential event machine over all histories (including `LinkTo`)
-/
namespace Hive.Events
open Hive.EventsMax (minLim)

/-- Counter invariant of the sequential machine: every hook has fired `min(limit, visits)` times,
every event has let `min(limit, triggers)` triggers through. -/
structure CountInv (s : St) : Prop where
  hook : ∀ (k : Nat) (hk : Hook), s.hooks[k]? = some hk → hk.fired = minLim hk.max hk.count
  ev : ∀ (e : Nat) (ev : Ev), s.evs[e]? = some ev → ev.passed = minLim ev.max ev.count

theorem minLim_exceeds {m c : Nat} (h : exceeds m (c + 1) = true) : minLim m (c + 1) = minLim m c := by
  simp only [exceeds, Bool.and_eq_true, decide_eq_true_eq, bne_iff_ne, ne_eq] at h
  unfold minLim; simp [h.2]; omega

theorem minLim_not_exceeds {m c : Nat} (h : ¬ exceeds m (c + 1) = true) : minLim m (c + 1) = minLim m c + 1 := by
  simp only [exceeds, Bool.and_eq_true, decide_eq_true_eq, bne_iff_ne, ne_eq, not_and] at h
  unfold minLim
  by_cases h0 : m = 0
  · simp [h0]
  · simp [h0]; have := fun x => h x h0; omega

theorem CountInv.setHook {s : St} (h : CountInv s) (k : Nat) (r : Hook) (hr : r.fired = minLim r.max r.count) :
    CountInv (setHook s k r) := by
  refine ⟨?_, h.ev⟩
  intro j hj hh
  simp only [Events.setHook, List.getElem?_set] at hh
  by_cases hkj : k = j
  · simp only [hkj, if_true] at hh
    split at hh
    · cases hh; exact hr
    · cases hh
  · simp only [hkj, if_false] at hh; exact h.hook j hj hh

theorem CountInv.setEv {s : St} (h : CountInv s) (e : Nat) (r : Ev) (hr : r.passed = minLim r.max r.count) :
    CountInv (setEv s e r) := by
  refine ⟨h.hook, ?_⟩
  intro j ej hh
  simp only [Events.setEv, List.getElem?_set] at hh
  by_cases hkj : e = j
  · simp only [hkj, if_true] at hh
    split at hh
    · cases hh; exact hr
    · cases hh
  · simp only [hkj, if_false] at hh; exact h.ev j ej hh

theorem count_visitKey (trigRec : St → Nat → Nat → Bool → St × List Call)
    (hrec : ∀ s e a b, CountInv s → CountInv (trigRec s e a b).1) (e a : Nat) (async : Bool)
    (acc : St × List Call) (k : Nat) (h : CountInv acc.1) : CountInv (visitKey trigRec e a async acc k).1 := by
  unfold visitKey
  cases hk : acc.1.hooks[k]? with
  | none => exact h
  | some r =>
    simp only
    have hr := h.hook k r hk
    by_cases h1 : (r.ev != e || !r.attached) = true
    · simp only [h1, if_true]; exact h
    · simp only [h1, Bool.false_eq_true, if_false]
      by_cases h2 : exceeds r.max (r.count + 1) = true
      · simp only [h2, if_true]
        exact h.setHook k _ (by simp only; rw [minLim_exceeds h2]; exact hr)
      · simp only [h2, Bool.false_eq_true, if_false]
        have f1 : CountInv (setHook acc.1 k { r with count := r.count + 1, fired := r.fired + 1 }) :=
          h.setHook k _ (by simp only; rw [minLim_not_exceeds h2, hr])
        split
        · exact hrec _ _ a _ f1
        · exact f1

theorem count_fold (trigRec : St → Nat → Nat → Bool → St × List Call)
    (hrec : ∀ s e a b, CountInv s → CountInv (trigRec s e a b).1) (e a : Nat) (async : Bool) (ks : List Nat)
    (acc : St × List Call) (h : CountInv acc.1) : CountInv (ks.foldl (visitKey trigRec e a async) acc).1 := by
  induction ks generalizing acc with
  | nil => exact h
  | cons k ks ih =>
    simp only [List.foldl_cons]
    exact ih _ (count_visitKey trigRec hrec e a async acc k h)

theorem count_trig (fuel : Nat) : ∀ s e a b, CountInv s → CountInv (trig fuel s e a b).1 := by
  induction fuel with
  | zero => intro s e a b h; exact h
  | succ fuel ih =>
    intro s e a b h
    simp only [trig]
    cases hev : s.evs[e]? with
    | none => exact h
    | some ev =>
      simp only
      have hr := h.ev e ev hev
      by_cases hx : exceeds ev.max (ev.count + 1) = true
      · simp only [hx, if_true]
        exact h.setEv e _ (by simp only; rw [minLim_exceeds hx]; exact hr)
      · simp only [hx, Bool.false_eq_true, if_false]
        exact count_fold (trig fuel) ih e a b _ (_, []) (h.setEv e _ (by simp only; rw [minLim_not_exceeds hx, hr]))

theorem detach_count {s : St} (h : CountInv s) (k : Nat) : CountInv (detach s k) := by
  unfold detach
  cases hk : s.hooks[k]? with
  | none => exact h
  | some r => exact h.setHook k _ (h.hook k r hk)

theorem append_count {s : St} (h : CountInv s) (r : Hook) (hr : r.fired = minLim r.max r.count) (u : List Nat) :
    CountInv { s with hooks := s.hooks ++ [r], user := u } := by
  refine ⟨?_, h.ev⟩
  intro k hk hh
  by_cases hlt : k < s.hooks.length
  · rw [List.getElem?_append_left hlt] at hh; exact h.hook k hk hh
  · rw [List.getElem?_append_right (by omega)] at hh
    have h0 : k - s.hooks.length = 0 := by have := getElem?_lt' hh; simp at this; omega
    rw [h0] at hh; simp at hh; subst hh; exact hr

theorem setEvLink_count {s : St} (h : CountInv s) (src : Nat) (ev : Ev) (he : s.evs[src]? = some ev) (l : Option Nat) :
    CountInv { s with evs := s.evs.set src { ev with link := l } } := by
  have := h.setEv src { ev with link := l } (h.ev src ev he)
  exact this

theorem count_step {s : St} (h : CountInv s) (op : Op) : CountInv (step s op).1 := by
  cases op with
  | new m p q =>
    simp only [step]
    refine ⟨h.hook, ?_⟩
    intro e ev he
    by_cases hlt : e < s.evs.length
    · rw [List.getElem?_append_left hlt] at he; exact h.ev e ev he
    · rw [List.getElem?_append_right (by omega)] at he
      have h0 : e - s.evs.length = 0 := by have := getElem?_lt' he; simp at this; omega
      rw [h0] at he; simp at he; subst he; simp [minLim]
  | hook e m b p =>
    simp only [step]
    split
    · exact append_count h _ (by simp [minLim]) _
    · exact h
  | unhook hd =>
    simp only [step]
    cases s.user[hd]? with
    | none => exact h
    | some k => exact detach_count h k
  | trigger e a =>
    simp only [step]
    split
    · exact count_trig _ s e a false h
    · exact h
  | link src tgt =>
    cases he : s.evs[src]? with
    | none => simp only [step, he]; exact h
    | some ev =>
      by_cases hlt : tgt < src
      · rw [step_link s src tgt ev he hlt]
        have h1 : CountInv (unlinkSt s src ev) := by
          unfold unlinkSt
          cases ev.link with
          | none => exact setEvLink_count h src ev he none
          | some k =>
            exact setEvLink_count (detach_count h k) src ev (by rw [detach_evs]; exact he) none
        have h2 := append_count h1 (linkHook src tgt) (by simp [linkHook, minLim]) (unlinkSt s src ev).user
        unfold linkSt
        refine ⟨h2.hook, ?_⟩
        intro j ej hh
        simp only [List.getElem?_set] at hh
        by_cases hkj : src = j
        · simp only [hkj, if_true] at hh
          split at hh
          · cases hh; exact h.ev src ev he
          · cases hh
        · simp only [hkj, if_false] at hh; exact h1.ev j ej hh
      · simp only [step, he, hlt, if_false]; exact h
  | unlink src =>
    cases he : s.evs[src]? with
    | none => simp only [step, he]; exact h
    | some ev =>
      rw [step_unlink s src ev he]
      unfold unlinkSt
      cases ev.link with
      | none => exact setEvLink_count h src ev he none
      | some k => exact setEvLink_count (detach_count h k) src ev (by rw [detach_evs]; exact he) none
  | tcount e =>
    simp only [step]
    split <;> exact h
  | hcount hd =>
    simp only [step]
    split <;> exact h

theorem count_final (ops : List Op) : CountInv (final init ops) := by
  have : ∀ s, CountInv s → CountInv (final s ops) := by
    induction ops with
    | nil => intro s h; exact h
    | cons op ops ih => intro s h; simp only [final, List.foldl_cons]; exact ih _ (count_step h op)
  exact this init ⟨by simp [init], by simp [init]⟩

end Hive.Events
