import Hive.Spec.SerixOrder
import Hive.Proofs.SerixNoPanic
/-!
# `Encode` does not depend on the order in which Go visits the entries of a map — at any depth

`eo_ty : VEquiv v v' → enc t pre v' o = enc t pre v o` for every schema (mutual structural induction over
`Ty / Fields / Alts`, inversion of `VEquiv` per case): the bytes are identical, and the second call fails
exactly when the first does.  The only place where the order of a listing could show is `encodeMap`, which
sorts the encoded entries (`ensureOrdering`); everything else is congruence.  Lists of `kv` entries at a
position that is not a map are refused whatever their order (`enc_kvs_err`).
-/
namespace Hive.Serix

/-! ## `VEquiv` basics -/

theorem VEquivL_refl : ∀ xs : List Val, VEquivL xs xs
  | [] => .nil
  | x :: xs => .cons (.refl x) (VEquivL_refl xs)

theorem VEquivL_length : ∀ {xs ys : List Val}, VEquivL xs ys → ys.length = xs.length
  | _, _, .nil => rfl
  | _, _, .cons _ h => by simp [VEquivL_length h]

theorem VEquiv_isKV {x y : Val} (h : VEquiv x y) : y.isKV = x.isKV := by
  cases h <;> simp [Val.isKV]

theorem VEquivL_isKV : ∀ {xs ys : List Val}, VEquivL xs ys → (∀ y ∈ ys, y.isKV = true) → ∀ x ∈ xs, x.isKV = true
  | _, _, .nil, _, _, hx => by cases hx
  | _, _, .cons h hL, hy, x, hx => by
    rcases List.mem_cons.1 hx with rfl | hx
    · rw [← VEquiv_isKV h]; exact hy _ (List.mem_cons_self ..)
    · exact VEquivL_isKV hL (fun y hy' => hy y (List.mem_cons_of_mem _ hy')) x hx

theorem kvKey_vequiv {x y : Val} (h : VEquiv x y) : kvKey y = kvKey x := by
  cases h <;> simp [kvKey]

theorem optMapM_kvKey_vequivL : ∀ {xs ys : List Val}, VEquivL xs ys → optMapM kvKey ys = optMapM kvKey xs
  | _, _, .nil => rfl
  | _, _, .cons h hL => by simp only [optMapM, kvKey_vequiv h, optMapM_kvKey_vequivL hL]

theorem mapKeysOk_vequivL {xs ys : List Val} (h : VEquivL xs ys) : mapKeysOk ys = mapKeysOk xs := by
  unfold mapKeysOk; rw [optMapM_kvKey_vequivL h]

theorem mapKeysOk_perm_eq {l l' : List Val} (hp : l.Perm l') : mapKeysOk l' = mapKeysOk l := by
  cases h : mapKeysOk l with
  | true => exact mapKeysOk_perm hp h
  | false =>
    cases h' : mapKeysOk l' with
    | false => rfl
    | true => rw [mapKeysOk_perm hp.symm h'] at h; cases h

theorem codeOf_vequiv (e : Ty) {x y : Val} (h : VEquiv x y) : e.codeOf y = e.codeOf x := by
  cases h <;> cases e <;> simp [Ty.codeOf]

theorem mapMRes_vequivL {β : Type} {f : Val → Res β} :
    ∀ {xs ys : List Val}, VEquivL xs ys → (∀ x y, VEquiv x y → f y = f x) → mapMRes f ys = mapMRes f xs
  | _, _, .nil, _ => rfl
  | _, _, .cons h hL, hf => by simp only [mapMRes, hf _ _ h, mapMRes_vequivL hL hf]

theorem mustOccurIf_vequivL (c : Bool) (r : Rules) (e : Ty) {xs ys : List Val} (h : VEquivL xs ys) :
    mustOccurIf c r e ys = mustOccurIf c r e xs := by
  unfold mustOccurIf mustOccurOk
  rw [mapMRes_vequivL h (fun x y hq => codeOf_vequiv e hq)]

/-! ## Lists of map entries where no map is expected -/

theorem enc_kv (t : Ty) (pre : Bool) (a b : Val) (o : Opts) : enc t pre (.kv a b) o = .err := by
  cases t <;> simp [enc]

theorem bind_err_of {α β : Type} {x : Res α} {f : α → Res β} (hx : x ≠ .panic) (hf : ∀ a, f a = .err) :
    (x >>= f) = .err := by
  cases x with
  | ok a => exact hf a
  | err => rfl
  | panic => exact absurd rfl hx

theorem mapMRes_kvs_err {β : Type} {f : Val → Res β} (hf : ∀ a b, f (.kv a b) = .err) :
    ∀ {l : List Val}, l ≠ [] → (∀ z ∈ l, z.isKV = true) → mapMRes f l = .err
  | [], h, _ => absurd rfl h
  | z :: l, _, hk => by
    have hz := hk z (List.mem_cons_self ..)
    cases z <;> simp [Val.isKV] at hz
    simp [mapMRes, hf]

theorem encFields_kvs_err (fs : Fields) (o : Opts) {l : List Val} (hne : l ≠ [])
    (hk : ∀ z ∈ l, z.isKV = true) : encFields fs l o = .err := by
  rcases l with _ | ⟨z, l⟩
  · exact absurd rfl hne
  · have hz := hk z (List.mem_cons_self ..)
    cases z <;> simp [Val.isKV] at hz
    rcases fs with _ | ⟨opt, t, rest⟩ | ⟨p, fs', rest⟩
    · simp [encFields]
    · cases opt <;> simp [encFields, enc_kv]
    · cases p <;> simp [encFields]

/-- A non-empty list of map entries is refused at every position that is not a map. -/
theorem enc_kvs_err (t : Ty) (pre : Bool) (o : Opts) {l : List Val} (hne : l ≠ []) (hk : ∀ z ∈ l, z.isKV = true)
    (hm : ∀ lp r k v, t ≠ .map lp r k v) : enc t pre (.l l) o = .err := by
  cases t with
  | slice lp r e =>
    simp only [enc]
    apply bind_err_of (require_ne_panic _); intro _
    apply bind_err_of (mustOccurIf_ne_panic' _ _ _ _); intro _
    rw [mapMRes_kvs_err (fun a b => enc_kv e true a b o) hne hk]; rfl
  | array n lp r e =>
    simp only [enc]
    split
    · rfl
    · apply bind_err_of (require_ne_panic _); intro _
      apply bind_err_of (mustOccurIf_ne_panic' _ _ _ _); intro _
      rw [mapMRes_kvs_err (fun a b => enc_kv e true a b o) hne hk]; rfl
  | map lp r k v => exact absurd rfl (hm lp r k v)
  | struct code fs => simp [enc, encFields_kvs_err fs o hne hk]
  | _ => simp [enc]

theorem kvs_of_perm {ys zs : List Val} (hp : ys.Perm zs) (hk : ∀ z ∈ zs, z.isKV = true) :
    ∀ y ∈ ys, y.isKV = true := fun y hy => hk y (hp.mem_iff.1 hy)

/-- The two listings of the `map` constructor of `VEquiv`, at a position that is not a map: equal results. -/
theorem enc_map_listing_nonmap (t : Ty) (pre : Bool) (o : Opts) {xs ys zs : List Val} (hL : VEquivL xs ys)
    (hp : ys.Perm zs) (hk : ∀ z ∈ zs, z.isKV = true) (hm : ∀ lp r k v, t ≠ .map lp r k v) :
    enc t pre (.l zs) o = enc t pre (.l xs) o := by
  have hky := kvs_of_perm hp hk
  have hkx := VEquivL_isKV hL hky
  have hlen : zs.length = xs.length := by rw [← hp.length_eq, VEquivL_length hL]
  rcases xs with _ | ⟨x, xs⟩
  · have : zs = [] := List.eq_nil_of_length_eq_zero (by simpa using hlen)
    rw [this]
  · have hz : zs ≠ [] := by intro h; rw [h] at hlen; simp at hlen
    rw [enc_kvs_err t pre o hz hk hm, enc_kvs_err t pre o (List.cons_ne_nil _ _) hkx hm]

theorem encFields_map_listing (fs : Fields) (o : Opts) {xs ys zs : List Val} (hL : VEquivL xs ys)
    (hp : ys.Perm zs) (hk : ∀ z ∈ zs, z.isKV = true) : encFields fs zs o = encFields fs xs o := by
  have hky := kvs_of_perm hp hk
  have hkx := VEquivL_isKV hL hky
  have hlen : zs.length = xs.length := by rw [← hp.length_eq, VEquivL_length hL]
  rcases xs with _ | ⟨x, xs⟩
  · have : zs = [] := List.eq_nil_of_length_eq_zero (by simpa using hlen)
    rw [this]
  · have hz : zs ≠ [] := by intro h; rw [h] at hlen; simp at hlen
    rw [encFields_kvs_err fs o hz hk, encFields_kvs_err fs o (List.cons_ne_nil _ _) hkx]

/-! ## Permuted listings under a function that cannot panic -/

theorem mapMRes_perm_eq {α β : Type} {f : α → Res β} (hf : ∀ a, f a ≠ .panic) {l l' : List α} (hp : l.Perm l') :
    (mapMRes f l = .err ∧ mapMRes f l' = .err) ∨
    (∃ d d', mapMRes f l = .ok d ∧ mapMRes f l' = .ok d' ∧ d.Perm d') := by
  cases h : mapMRes f l with
  | ok d =>
    obtain ⟨d', hd', hperm⟩ := mapMRes_perm hp h
    exact .inr ⟨d, d', rfl, hd', hperm⟩
  | panic => exact absurd h (mapMRes_ne_panic (fun a _ => hf a))
  | err =>
    cases h' : mapMRes f l' with
    | ok d' =>
      obtain ⟨d, hd, _⟩ := mapMRes_perm hp.symm h'
      rw [hd] at h; cases h
    | panic => exact absurd h' (mapMRes_ne_panic (fun a _ => hf a))
    | err => exact .inl ⟨rfl, rfl⟩

theorem encKV_vequiv {ek ev : Val → Res Bytes} (hv : ∀ x y, VEquiv x y → ev y = ev x) {x y : Val}
    (h : VEquiv x y) : encKV ek ev y = encKV ek ev x := by
  cases h with
  | refl => rfl
  | kv h => simp only [encKV, hv _ _ h]
  | _ => simp [encKV]

/-- `encodeMap` on two listings of the same map. -/
theorem enc_map_listing (lp : LP) (r : Rules) (k v : Ty) (pre : Bool) (o : Opts) {xs ys zs : List Val}
    (hv : ∀ x y, VEquiv x y → enc v true y o = enc v true x o)
    (hL : VEquivL xs ys) (hp : ys.Perm zs) :
    enc (.map lp r k v) pre (.l zs) o = enc (.map lp r k v) pre (.l xs) o := by
  have hlen : zs.length = xs.length := by rw [← hp.length_eq, VEquivL_length hL]
  have hkeys : mapKeysOk zs = mapKeysOk xs := by rw [mapKeysOk_perm_eq hp, mapKeysOk_vequivL hL]
  have hdata : mapMRes (encKV (fun a => enc k true a o) (fun b => enc v true b o)) ys =
      mapMRes (encKV (fun a => enc k true a o) (fun b => enc v true b o)) xs :=
    mapMRes_vequivL hL (fun x y hq => encKV_vequiv hv hq)
  simp only [enc, hkeys, hlen]
  split
  · rfl
  · rcases mapMRes_perm_eq (fun a => encKV_ne_panic (fun x => ep_ty k true x o) (fun x => ep_ty v true x o) a) hp
      with ⟨h1, h2⟩ | ⟨d, d', h1, h2, hperm⟩
    · rw [h2, ← hdata, h1]
    · rw [h2, ← hdata, h1]
      cases hreq : Res.require (!o.validation || r.boundsOk xs.length) with
      | ok _ => simp only [Res.ok_bind]; exact (encSeq_ordered_perm hperm).symm
      | err => rfl
      | panic => rfl

theorem encFields_emb_tail (p : Bool) (fs rest : Fields) (x : Val) (ys xs : List Val) (o : Opts)
    (hr : encFields rest ys o = encFields rest xs o) :
    encFields (.emb p fs rest) (x :: ys) o = encFields (.emb p fs rest) (x :: xs) o := by
  cases p
  · cases x <;> simp only [encFields, hr]
  · cases x with
    | some y => cases y <;> simp only [encFields, hr]
    | _ => simp only [encFields]

/-! ## The induction -/

mutual
theorem eo_ty : ∀ (t : Ty) (pre : Bool) (v v' : Val) (o : Opts), VEquiv v v' → enc t pre v' o = enc t pre v o
  | .bool, _, _, _, _, hq => by cases hq <;> simp [enc]
  | .uint _, _, _, _, _, hq => by cases hq <;> simp [enc]
  | .int _, _, _, _, _, hq => by cases hq <;> simp [enc]
  | .float _, _, _, _, _, hq => by cases hq <;> simp [enc]
  | .str _ _ _, _, _, _, _, hq => by cases hq <;> simp [enc]
  | .bytes _ _ _, _, _, _, _, hq => by cases hq <;> simp [enc]
  | .byteArr _ _ _ _, _, _, _, _, hq => by cases hq <;> simp [enc]
  | .u256, _, _, _, _, hq => by cases hq <;> simp [enc]
  | .time, _, _, _, _, hq => by cases hq <;> simp [enc]
  | .custom _ _, _, _, _, _, hq => by cases hq <;> simp [enc]
  | .slice lp r e, pre, _, _, o, hq => by
    cases hq with
    | refl => rfl
    | list hL =>
      simp only [enc, VEquivL_length hL, mustOccurIf_vequivL _ r e hL,
        mapMRes_vequivL hL (fun x y hq => eo_ty e true x y o hq)]
    | map hL hp hk => exact enc_map_listing_nonmap _ pre o hL hp hk (by intros; simp)
    | _ => simp [enc]
  | .array n lp r e, pre, _, _, o, hq => by
    cases hq with
    | refl => rfl
    | list hL =>
      simp only [enc, VEquivL_length hL, mustOccurIf_vequivL _ r e hL,
        mapMRes_vequivL hL (fun x y hq => eo_ty e true x y o hq)]
    | map hL hp hk => exact enc_map_listing_nonmap _ pre o hL hp hk (by intros; simp)
    | _ => simp [enc]
  | .map lp r k v, pre, _, _, o, hq => by
    cases hq with
    | refl => rfl
    | list hL =>
      exact enc_map_listing lp r k v pre o (fun x y hq => eo_ty v true x y o hq) hL (List.Perm.refl _)
    | map hL hp _ => exact enc_map_listing lp r k v pre o (fun x y hq => eo_ty v true x y o hq) hL hp
    | _ => simp [enc]
  | .struct code fs, pre, _, _, o, hq => by
    cases hq with
    | refl => rfl
    | list hL => simp only [enc, eo_fields fs _ _ o hL]
    | map hL hp hk => simp only [enc, encFields_map_listing fs o hL hp hk]
    | _ => simp [enc]
  | .ptr t, pre, _, _, o, hq => by
    cases hq with
    | refl => rfl
    | some h => simp only [enc, eo_ty t false _ _ o h]
    | _ => simp [enc]
  | .iface den alts, pre, _, _, o, hq => by
    cases hq with
    | refl => rfl
    | alt c h => simp only [enc, eo_alts alts c _ _ o h]
    | _ => simp [enc]
theorem eo_fields : ∀ (fs : Fields) (vs vs' : List Val) (o : Opts), VEquivL vs vs' →
    encFields fs vs' o = encFields fs vs o
  | .nil, _, _, _, hL => by cases hL <;> rfl
  | .cons false t rest, _, _, o, hL => by
    cases hL with
    | nil => rfl
    | cons h hL => simp only [encFields, eo_ty t true _ _ o h, eo_fields rest _ _ o hL]
  | .cons true t rest, _, _, o, hL => by
    cases hL with
    | nil => rfl
    | cons h hL =>
      have hr := eo_fields rest _ _ o hL
      have ht := eo_ty t true _ _ o h
      cases h <;> simp only [encFields, hr] <;> simp only [ht]
  | .emb false fs rest, _, _, o, hL => by
    cases hL with
    | nil => rfl
    | cons h hL =>
      have hr := eo_fields rest _ _ o hL
      cases h with
      | refl => exact encFields_emb_tail _ _ _ _ _ _ _ hr
      | list hL' => simp only [encFields, hr, eo_fields fs _ _ o hL']
      | map hL' hp hk => simp only [encFields, hr, encFields_map_listing fs o hL' hp hk]
      | _ => simp [encFields]
  | .emb true fs rest, _, _, o, hL => by
    cases hL with
    | nil => rfl
    | cons h hL =>
      have hr := eo_fields rest _ _ o hL
      cases h with
      | some h' =>
        cases h' with
        | list hL' => simp only [encFields, hr, eo_fields fs _ _ o hL']
        | map hL' hp hk => simp only [encFields, hr, encFields_map_listing fs o hL' hp hk]
        | refl => exact encFields_emb_tail _ _ _ _ _ _ _ hr
        | _ => simp [encFields]
      | refl => exact encFields_emb_tail _ _ _ _ _ _ _ hr
      | _ => simp [encFields]
theorem eo_alts : ∀ (alts : Alts) (code : Nat) (v v' : Val) (o : Opts), VEquiv v v' →
    encAlts alts code v' o = encAlts alts code v o
  | .nil, _, _, _, _, _ => by simp [encAlts]
  | .cons c t rest, code, v, v', o, hq => by
    simp only [encAlts, eo_ty t true v v' o hq, eo_alts rest code v v' o hq]
end

end Hive.Serix
