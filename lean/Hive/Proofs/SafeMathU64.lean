import Hive.Proofs.SafeMathLemmas
import Hive.Gen.C19_SafeMath
/-! SafeMulUint64: the definition generated from core/safemath/safe_math.go meets the specification, for every width and signedness. -/
namespace Hive.GoInt
open Hive.Gen.SafeMath IntTy

theorem safeMulUint64_exact (x y : Int) (hx : IntTy.u64.InRange x) (hy : IntTy.u64.InRange y) :
    SafeMulUint64 x y = exact IntTy.u64 (x * y) := by
  rw [u64_inRange] at hx hy
  have hp : 0 ≤ x * y := Int.mul_nonneg hx.1 hy.1
  unfold SafeMulUint64 exact mul64
  simp only [u64_inRange, pow64]
  by_cases h0 : x = 0 ∨ y = 0
  · have : x * y = 0 := by rcases h0 with h | h <;> simp [h]
    rcases h0 with h | h <;> simp [h]
  · have hc : ((decide (x = 0)) || (decide (y = 0))) = false := by
      simp only [not_or] at h0; simp [h0.1, h0.2]
    simp only [hc, Bool.false_eq_true, if_false]
    generalize x * y = p at hp ⊢
    by_cases hlt : p < 18446744073709551616
    · have h1 : p / 18446744073709551616 = 0 := by omega
      have h2 : p % 18446744073709551616 = p := by omega
      simp [h1, h2, hp, hlt]
    · have h1 : p / 18446744073709551616 ≠ 0 := by omega
      simp [h1, hlt]

end Hive.GoInt
