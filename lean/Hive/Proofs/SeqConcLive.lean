import Hive.Proofs.SeqConcStep
/-!
# Progress of the protocol model of concurrent callers on one `Sequence` (C07)

No reachable configuration is stuck while somebody still has something to do: the mutex is the only thing a goroutine
ever waits for, and its holder can always take its next micro-step.
-/
namespace Hive.Seq.Conc
open Hive.Conc Hive.Seq

/-- The live object never disappears. -/
theorem mstep_obj {sh s' : Shared} {g g' : Gor} (h : (s', g') ∈ mstep sh g) (ho : sh.st.obj.isSome = true) :
    s'.st.obj.isSome = true := by
  cases hobj : sh.st.obj with
  | none => rw [hobj] at ho; cases ho
  | some o =>
    unfold mstep at h
    cases hpc : g.pc <;> rw [hpc] at h <;> simp only [withObj, hobj] at h
    case idle =>
      cases hsc : g.script with
      | nil => rw [hsc] at h; cases h
      | cons c cs =>
        rw [hsc] at h
        simp only at h
        split at h
        · cases h
        · simp only [List.mem_singleton, Prod.mk.injEq] at h
          obtain ⟨rfl, _⟩ := h
          simp [hobj]
    case nTest =>
      simp only [List.mem_singleton, Prod.mk.injEq] at h
      obtain ⟨rfl, _⟩ := h
      simp [hobj]
    case uGet =>
      simp only [List.mem_cons, Prod.mk.injEq, List.not_mem_nil, or_false] at h
      rcases h with ⟨rfl, _⟩ | ⟨rfl, _⟩ <;> simp [lin, hobj]
    case uNext m =>
      split at h <;> simp only [List.mem_singleton, Prod.mk.injEq] at h <;> obtain ⟨rfl, _⟩ := h <;> simp [lin, setObj]
    case uSet =>
      simp only [List.mem_cons, Prod.mk.injEq, List.not_mem_nil, or_false] at h
      rcases h with ⟨rfl, _⟩ | ⟨rfl, _⟩ <;> simp [lin, setStore, hobj]
    case uRes r =>
      simp only [List.mem_singleton, Prod.mk.injEq] at h
      obtain ⟨rfl, _⟩ := h
      simp [setObj]
    case nHand =>
      simp only [List.mem_singleton, Prod.mk.injEq] at h
      obtain ⟨rfl, _⟩ := h
      simp [lin, handOut]
    case rTest =>
      split at h <;> simp only [List.mem_singleton, Prod.mk.injEq] at h <;> obtain ⟨rfl, _⟩ := h <;> simp [lin, hobj]
    case rSet =>
      simp only [List.mem_cons, Prod.mk.injEq, List.not_mem_nil, or_false] at h
      rcases h with ⟨rfl, _⟩ | ⟨rfl, _⟩ <;> simp [lin, setStore, hobj]
    case rRes =>
      simp only [List.mem_singleton, Prod.mk.injEq] at h
      obtain ⟨rfl, _⟩ := h
      simp [lin, setObj]
    case unlock a =>
      simp only [List.mem_singleton, Prod.mk.injEq] at h
      obtain ⟨rfl, _⟩ := h
      simp [hobj]

theorem tstep_obj {sh s' : Shared} {t t' : Thread} (h : (s', t') ∈ tstep sh t) (ho : sh.st.obj.isSome = true) :
    s'.st.obj.isSome = true := by
  cases t with
  | gor g =>
    simp only [tstep] at h
    split at h
    · simp only [List.mem_map] at h
      obtain ⟨p, hp, hpe⟩ := h
      obtain ⟨rfl, _⟩ := Prod.mk.inj hpe
      exact mstep_obj (g' := p.2) hp ho
    · cases h
  | env rs =>
    simp only [tstep] at h
    cases rs with
    | nil => simp [estep] at h
    | cons i rest =>
      simp only [estep] at h
      split at h
      · cases h
      · simp only [List.mem_singleton, Prod.mk.injEq] at h
        obtain ⟨rfl, _⟩ := h
        simp [step]

theorem obj_reach (s0 : St) (specs : List Spec) (h0 : s0.obj.isSome = true) {c : Cfg Shared Thread}
    (hr : Reach sys (initSh s0, specs.map spawn) c) : c.1.st.obj.isSome = true := by
  refine inv_induction (fun c => c.1.st.obj.isSome = true) ?_ ?_ hr
  · exact h0
  · intro a b ha hs
    cases hs with
    | mk s pre t post s' t' hmem => exact tstep_obj hmem ha

/-- A goroutine between `Lock` and `Unlock` of an existing object can always take its next micro-step. -/
theorem mstep_inside_ne_nil (sh : Shared) (g : Gor) (ho : sh.st.obj.isSome = true) (hin : g.pc.inside = true) :
    mstep sh g ≠ [] := by
  cases hobj : sh.st.obj with
  | none => rw [hobj] at ho; cases ho
  | some o =>
    unfold mstep
    cases hpc : g.pc <;> simp only [withObj, hobj]
    case idle => rw [hpc] at hin; cases hin
    case uNext m => split <;> simp
    case rTest => split <;> simp
    all_goals simp

/-- Who has nothing left to do: an environment without further restarts (a restart with interval 0 is the panic of
`NewSequence`: no new object), a goroutine of another generation than the live object's (its process is gone, or has
not been started), a goroutine whose script is finished. -/
def Finished (e : Nat) : Thread → Prop
  | .env rs => rs = [] ∨ rs.head? = some 0
  | .gor g => g.epoch ≠ e ∨ (g.pc = .idle ∧ g.script = [])

/-- **Progress.**  In every reachable configuration, if somebody has something left to do, somebody can move. -/
theorem no_deadlock (s0 : St) (specs : List Spec) (h0 : s0.obj.isSome = true) {c : Cfg Shared Thread}
    (hr : Reach sys (initSh s0, specs.map spawn) c) : ¬ Deadlock sys (Finished c.1.epoch) c := by
  have hi := inv_reach s0 specs hr
  have ho := obj_reach s0 specs h0 hr
  rintro ⟨hstuck, t, ht, hnd⟩
  cases t with
  | env rs =>
    have hs := hstuck _ ht
    cases rs with
    | nil => exact hnd (Or.inl rfl)
    | cons i rest =>
      by_cases hi0 : i = 0
      · exact hnd (Or.inr (by simp [hi0]))
      · simp [sys, tstep, estep, hi0] at hs
  | gor g =>
    have hep : g.epoch = c.1.epoch := by
      rcases Nat.lt_or_ge g.epoch c.1.epoch with h | h
      · exact absurd (Or.inl (by omega)) hnd
      · rcases Nat.lt_or_ge c.1.epoch g.epoch with h' | h'
        · exact absurd (Or.inl (by omega)) hnd
        · omega
    cases hh : c.1.holder with
    | none =>
      -- the mutex is free: nobody is inside, so `g` is idle with a non-empty script and can take the mutex
      have hout : g.pc.inside = false := by
        cases hin : g.pc.inside with
        | false => rfl
        | true =>
          have := ((hi.threads _ ht).2 hep hin).1
          rw [hh] at this; cases this
      have hidle : g.pc = .idle := by
        cases hpc : g.pc <;> rw [hpc] at hout <;> first | rfl | cases hout
      have hs := hstuck _ ht
      cases hsc : g.script with
      | nil => exact hnd (Or.inr ⟨hidle, hsc⟩)
      | cons cl rest => simp [sys, tstep, hep, mstep, hidle, hsc, hh] at hs
    | some hid =>
      -- the mutex is held: its holder is a live goroutine inside a method, and it can move
      have hcnt := hi.cnt
      rw [hh] at hcnt
      simp only [Option.isSome_some, if_true] at hcnt
      have hpos : 0 < c.2.countP (pIn c.1.epoch) := by omega
      obtain ⟨u, hu, hpu⟩ := List.countP_pos_iff.mp hpos
      cases u with
      | env rs => simp [pIn] at hpu
      | gor g' =>
        simp only [pIn, Bool.and_eq_true, beq_iff_eq] at hpu
        have hs := hstuck _ hu
        have hne := mstep_inside_ne_nil c.1 g' ho hpu.2
        simp only [sys, tstep, hpu.1, if_true, List.map_eq_nil_iff] at hs
        exact hne hs

end Hive.Seq.Conc
