import Hive.Proofs.TimedInvEff
/-!
# The safety invariant is preserved by every transition, hence holds in every reachable configuration
-/
namespace Hive.Timed
open Hive.Conc

/-- A thread changes its local state only; what it holds can only shrink. -/
theorem inv_move {s : Sh} {l r : List Th} {t t' : Th} (h : Inv s (l ++ t :: r))
    (hp : ∀ x, pre x t' ≤ pre x t) (hw : ∀ x, wr x t' ≤ wr x t) (hk : TOk s t → TOk s t') :
    Inv s (l ++ t' :: r) := by
  constructor
  · intro x; have := h.a1 x; have := hp x; simp only [tsum_mid] at *; omega
  · intro x; have := h.b1 x; have := hw x; simp only [tsum_mid] at *; omega
  · exact h.fresh
  · exact h.heap_ok
  · intro u hu
    simp only [List.mem_append, List.mem_cons] at hu
    rcases hu with hu | rfl | hu
    · exact h.th_ok u (by simp [hu])
    · exact hk (h.th_ok t (by simp))
    · exact h.th_ok u (by simp [hu])
  · exact h.c1
  · exact h.ign
  · exact h.r_lt
  · exact h.r_rev
  · exact h.r_id
  · exact h.r_inj
  · exact h.rev_id
  · exact h.ok

theorem Ext.of_fields {s s' : Sh} (new : List Ev) (hl : s'.log = new ++ s.log)
    (hns : ∀ y i d, Ev.sched y i d ∈ new → s.next ≤ y) (hn : s'.next = s.next) (hf : s'.flags = s.flags)
    (hk : s.clock ≤ s'.clock) : Ext s s' :=
  ⟨by omega, hk, by rw [hf]; exact fun h => h, new, hl, hns⟩

/-- `Poll` pops the root of the heap. -/
theorem inv_pop {s s' : Sh} {l r : List Th} {e : Elem} {h' : List Elem} {t' : Th}
    (h : Inv s (l ++ .idle :: r)) (hpop : Heap.pop s.heap = some (e, h')) (ht' : t' = .hk e ∨ t' = .sel e)
    (hh : s'.heap = h') (hl : s'.log = s.log) (hn : s'.next = s.next) (hcl : s'.closed = s.closed)
    (hr : s'.reg = s.reg) (hf : s'.flags = s.flags) (hk : s'.clock = s.clock) : Inv s' (l ++ t' :: r) := by
  have hperm := Heap.pop_perm hpop
  have ex : Ext s s' := Ext.of_fields [] (by simpa using hl) (by simp) hn hf (by omega)
  have hsub : HSub h' s.heap := HSub.of_perm_cons hperm
  have hmem : e ∈ s.heap := hperm.mem_iff.mpr (by simp)
  have hpre : ∀ x, pre x t' = if e.serial = x then 1 else 0 := by
    intro x; rcases ht' with rfl | rfl <;> rfl
  have hwr : ∀ x, wr x t' = 0 := by intro x; rcases ht' with rfl | rfl <;> rfl
  constructor
  · intro x
    have := h.a1 x
    rw [hc_perm hperm, hc_cons] at this
    have h0 : pre x Th.idle = 0 := rfl
    simp only [tsum_mid, hpre, h0, hh, hl] at *
    omega
  · intro x; have := h.b1 x
    have h0 : wr x Th.idle = 0 := rfl
    simp only [tsum_mid, hwr, h0, hl] at *; omega
  · intro x hx; rw [hl]; exact h.fresh x (by omega)
  · intro a ha; rw [hh] at ha; exact (h.heap_ok a (hsub.mem ha)).ext ex
  · intro u hu
    simp only [List.mem_append, List.mem_cons] at hu
    rcases hu with hu | rfl | hu
    · exact (h.th_ok u (by simp [hu])).ext ex
    · have hk := (h.heap_ok e hmem).ext ex
      rcases ht' with rfl | rfl <;> exact hk
    · exact (h.th_ok u (by simp [hu])).ext ex
  · intro x hx; rw [hl] at hx; rw [hcl]; exact h.c1 x hx
  · intro hi; rw [hf] at hi; rw [hl]; exact h.ign hi
  · intro i x hx; rw [hr] at hx; rw [hn]; exact h.r_lt i x hx
  · intro i x hx; rw [hr] at hx; rw [hl]; exact h.r_rev i x hx
  · intro i x hx; rw [hr] at hx; rw [hl]; exact h.r_id i x hx
  · intro i j x hi hj; rw [hr] at hi hj; exact h.r_inj i j x hi hj
  · intro x hx; rw [hl] at hx ⊢; exact h.rev_id x hx
  · rw [hl]; exact h.ok

theorem timely_of {s : Sh} {ts : List Th} (h : Inv s ts) {e : Elem} (hkn : Known s e) (hrd : Ready s e) :
    timely e.serial s.clock s.log = true := by
  unfold timely
  rw [hkn.2.1]
  simp only [Bool.or_eq_true, decide_eq_true_eq]
  rcases hrd with hd | hi
  · exact Or.inl hd
  · exact Or.inr (h.ign hi)

/-- `Poll` hands the element out (the cancel channel is not closed). -/
theorem inv_deliver {s s' : Sh} {l r : List Th} {e : Elem} (h : Inv s (l ++ .chk e :: r))
    (hnc : e.serial ∉ s.closed) (hh : s'.heap = s.heap) (hl : s'.log = .deliver e.serial s.clock :: s.log)
    (hn : s'.next = s.next) (hcl : s'.closed = s.closed) (hr : s'.reg = s.reg) (hf : s'.flags = s.flags)
    (hk : s'.clock = s.clock) : Inv s' (l ++ .wrap e :: r) := by
  have ex : Ext s s' := Ext.of_fields [.deliver e.serial s.clock] (by simpa using hl) (by simp) hn hf (by omega)
  have htok : Known s e ∧ Ready s e := h.th_ok (.chk e) (by simp)
  have hdc0 : dc e.serial s.log = 0 := by
    have := h.a1 e.serial
    simp only [tsum_mid, pre, if_true] at this
    omega
  constructor
  · intro x
    have := h.a1 x
    simp only [tsum_mid, pre, hh, hl, dc, List.countP_cons, Ev.isDeliver, beq_iff_eq] at *
    omega
  · intro x
    have := h.b1 x
    simp only [tsum_mid, wr, hl, dc, rc, List.countP_cons, Ev.isDeliver, Ev.isRun, beq_iff_eq, Bool.false_eq_true,
      ↓reduceIte, Nat.add_zero] at *
    omega
  · intro x hx
    obtain ⟨f1, f2, f3⟩ := h.fresh x (by omega)
    have hne : ¬ e.serial = x := by have := htok.1.1; omega
    rw [hl]
    refine ⟨?_, ?_, ?_⟩
    · simp only [dc, List.countP_cons, Ev.isDeliver, beq_iff_eq, hne, if_false] at *; omega
    · simpa [Ev.isRevoke] using f2
    · simpa [dueOf] using f3
  · intro a ha; rw [hh] at ha; exact (h.heap_ok a ha).ext ex
  · intro u hu
    simp only [List.mem_append, List.mem_cons] at hu
    rcases hu with hu | rfl | hu
    · exact (h.th_ok u (by simp [hu])).ext ex
    · exact ⟨htok.1.ext ex, htok.2.ext ex⟩
    · exact (h.th_ok u (by simp [hu])).ext ex
  · intro x hx; rw [hl] at hx; simp only [List.any_cons, Ev.isCancelled, Bool.false_or] at hx
    rw [hcl]; exact h.c1 x hx
  · intro hi; rw [hf] at hi; rw [hl]; simpa [Ev.isIgnoreShutdown] using h.ign hi
  · intro i x hx; rw [hr] at hx; rw [hn]; exact h.r_lt i x hx
  · intro i x hx; rw [hr] at hx; rw [hl]
    simpa [rc, List.countP_cons, Ev.isRevoke, Ev.isRun] using h.r_rev i x hx
  · intro i x hx; rw [hr] at hx; rw [hl]; simpa [idOf] using h.r_id i x hx
  · intro i j x hi hj; rw [hr] at hi hj; exact h.r_inj i j x hi hj
  · intro x hx; rw [hl] at hx ⊢; simp only [List.any_cons, Ev.isRevoke, Bool.false_or] at hx
    simpa [idOf] using h.rev_id x hx
  · rw [hl]
    simp only [okLog, okEv, Bool.and_eq_true, Bool.not_eq_eq_eq_not, Bool.not_true]
    refine ⟨⟨⟨any_false_of_countP hdc0, ?_⟩, timely_of h htok.1 htok.2⟩, h.ok⟩
    cases hc : s.log.any (Ev.isCancelled e.serial) with
    | false => rfl
    | true => exact absurd (h.c1 _ hc) hnc

/-- The worker starts the callback of a delivered element (and drops its registration, if any). -/
theorem inv_run {s s' : Sh} {l r : List Th} {e : Elem} (h : Inv s (l ++ .wrap e :: r))
    (hnrev : s.log.any (Ev.isRevoke e.serial) = false)
    (hreg : ∀ j y, regGet s'.reg j = some y → regGet s.reg j = some y ∧ y ≠ e.serial)
    (hh : s'.heap = s.heap) (hl : s'.log = .run e.serial s.clock :: s.log)
    (hn : s'.next = s.next) (hcl : s'.closed = s.closed) (hf : s'.flags = s.flags)
    (hk : s'.clock = s.clock) : Inv s' (l ++ .cb e 0 :: r) := by
  have ex : Ext s s' := Ext.of_fields [.run e.serial s.clock] (by simpa using hl) (by simp) hn hf (by omega)
  have htok : Known s e ∧ Ready s e := h.th_ok (.wrap e) (by simp)
  have hrc0 : rc e.serial s.log = 0 := by
    have h1 := h.b1 e.serial
    have h2 := h.a1 e.serial
    simp only [tsum_mid, wr, if_true] at h1
    omega
  constructor
  · intro x
    have := h.a1 x
    simp only [tsum_mid, pre, hh, hl, dc, List.countP_cons, Ev.isDeliver, Bool.false_eq_true, ↓reduceIte,
      Nat.add_zero] at *
    omega
  · intro x
    have := h.b1 x
    simp only [tsum_mid, wr, hl, dc, rc, List.countP_cons, Ev.isDeliver, Ev.isRun, beq_iff_eq, Bool.false_eq_true,
      ↓reduceIte, Nat.add_zero] at *
    omega
  · intro x hx
    rw [hl]
    have := h.fresh x (by omega)
    simpa [dc, List.countP_cons, Ev.isDeliver, Ev.isRevoke, dueOf] using this
  · intro a ha; rw [hh] at ha; exact (h.heap_ok a ha).ext ex
  · intro u hu
    simp only [List.mem_append, List.mem_cons] at hu
    rcases hu with hu | rfl | hu
    · exact (h.th_ok u (by simp [hu])).ext ex
    · trivial
    · exact (h.th_ok u (by simp [hu])).ext ex
  · intro x hx; rw [hl] at hx; simp only [List.any_cons, Ev.isCancelled, Bool.false_or] at hx
    rw [hcl]; exact h.c1 x hx
  · intro hi; rw [hf] at hi; rw [hl]; simpa [Ev.isIgnoreShutdown] using h.ign hi
  · intro i x hx; rw [hn]; exact h.r_lt i x (hreg i x hx).1
  · intro i x hx
    obtain ⟨hx', hne⟩ := hreg i x hx
    obtain ⟨r1, r2⟩ := h.r_rev i x hx'
    rw [hl]
    refine ⟨by simpa [Ev.isRevoke] using r1, ?_⟩
    have : ¬ e.serial = x := fun hh => hne hh.symm
    simpa [rc, List.countP_cons, Ev.isRun, this] using r2
  · intro i x hx; rw [hl]; simpa [idOf] using h.r_id i x (hreg i x hx).1
  · intro i j x hi hj; exact h.r_inj i j x (hreg i x hi).1 (hreg j x hj).1
  · intro x hx; rw [hl] at hx ⊢; simp only [List.any_cons, Ev.isRevoke, Bool.false_or] at hx
    simpa [idOf] using h.rev_id x hx
  · rw [hl]
    simp only [okLog, okEv, Bool.and_eq_true, Bool.not_eq_eq_eq_not, Bool.not_true]
    exact ⟨⟨⟨any_false_of_countP hrc0, hnrev⟩, timely_of h htok.1 htok.2⟩, h.ok⟩

/-! ## the API calls as effects -/

theorem inv_cancelElem {s : Sh} {ts : List Th} (h : Inv s ts) (x : Nat) : Inv (cancelElem s x) ts := by
  have hsub : HSub (cancelElem s x).heap s.heap := by
    rcases cancelElem_heap s x with ⟨he, _⟩ | ⟨e, _, hp⟩
    · rw [he]; exact HSub.refl _
    · exact HSub.of_perm_cons hp
  exact inv_eff_cancel h x hsub rfl rfl (cancelElem_closed_mem s x) rfl rfl rfl

theorem inv_exec1 {s : Sh} {ts : List Th} (h : Inv s ts) (i : Nat) : Inv (exec1 s i) ts := by
  unfold exec1
  cases hg : regGet s.reg i with
  | none => exact inv_eff_core h [] (HSub.refl _) rfl (by simp) rfl (fun _ hy => hy) (fun _ _ hy => hy) rfl (Nat.le_refl _)
  | some x =>
    have h1 := inv_cancelElem h x
    exact inv_eff_revoke h1 i x (.replaced i x) hg (Or.inr rfl) rfl rfl rfl rfl rfl rfl rfl

theorem inv_cancelId {s : Sh} {ts : List Th} (h : Inv s ts) (i : Nat) : Inv (cancelId s i) ts := by
  unfold cancelId
  cases hg : regGet s.reg i with
  | none =>
    exact inv_eff_core h [.cancelRes i false none] (HSub.refl _) rfl (by simp [Ev.inert]) rfl (fun _ hy => hy)
      (fun _ _ hy => hy) rfl (Nat.le_refl _)
  | some x =>
    have h1 := inv_cancelElem h x
    by_cases hp : x ∈ s.closed
    · -- dropped or cancelled before: the registration goes, nothing else is claimed
      have hd : decide (x ∉ s.closed) = false := by simp [hp]
      simp only [hd]
      exact inv_eff_core h1 [.cancelRes i false (some x)] (HSub.refl _) rfl (by simp [Ev.inert]) rfl (fun _ hy => hy)
        (fun j y hy => (regGet_regDel_some hy).2) rfl (Nat.le_refl _)
    · have hd : decide (x ∉ s.closed) = true := by simp [hp]
      simp only [hd]
      exact inv_eff_revoke h1 i x (.cancelRes i true (some x)) hg (Or.inl rfl) rfl rfl rfl rfl rfl rfl rfl

/-- After `Queue.Add` (with the registration of the new element under `reg`, if it was accepted). -/
theorem inv_add {s s' : Sh} {ts : List Th} (h : Inv s ts) (due : Nat) (id : Option Nat) (kind : Kind) (tag : Nat)
    (hh : s'.heap = (add s due id kind tag).1.heap) (hl : s'.log = (add s due id kind tag).1.log)
    (hn : s'.next = (add s due id kind tag).1.next) (hcl : s'.closed = (add s due id kind tag).1.closed)
    (hf : s'.flags = (add s due id kind tag).1.flags) (hk : s'.clock = (add s due id kind tag).1.clock)
    (hr : s'.reg = match (add s due id kind tag).2 with
                   | .ok x => regAfter s.reg id x
                   | _ => s.reg) : Inv s' ts := by
  rcases add_cases s due id kind tag with ⟨_, h1, hno⟩ | ⟨_, hok, h2, new, cl, h1, hcase⟩
  · rw [h1] at hh hl hn hcl hf hk
    have hr' : s'.reg = s.reg := by
      rw [hr]; cases hres : (add s due id kind tag).2 with
      | ok x => exact absurd hres (hno x)
      | nil => rfl
      | panic => rfl
    exact inv_eff_core h [] (by rw [hh]; exact HSub.refl _) (by simpa using hl) (by simp) hn
      (by rw [hcl]; exact fun _ hy => hy) (by rw [hr']; exact fun _ _ hy => hy) hf (by omega)
  · rw [h1] at hh hl hn hcl hf hk
    rw [hok] at hr
    simp only [signal_heap, signal_log, signal_next, signal_closed, signal_flags, signal_clock] at hh hl hn hcl hf hk
    rcases hcase with ⟨rfl, rfl, hp⟩ | ⟨d, rfl, rfl, hp, _⟩
    · refine inv_eff_addOk h due id kind tag [] ?_ (by simp) (by simpa using hl) hn
        (by rw [hcl]; exact fun _ hy => hy) hr hf hk
      rw [hh]; intro p; rw [hp.countP_eq]; exact Nat.le_refl _
    · refine inv_eff_addOk h due id kind tag [.dropSize d.serial] ?_ (by simp [Ev.inert]) (by simpa using hl) hn
        (by rw [hcl]; exact fun y hy => List.mem_cons_of_mem _ hy) hr hf hk
      rw [hh]; exact HSub.of_perm_cons hp

theorem add_reg (s : Sh) (due : Nat) (id : Option Nat) (kind : Kind) (tag : Nat) :
    (add s due id kind tag).1.reg = s.reg := by
  rcases add_cases s due id kind tag with ⟨_, h1, _⟩ | ⟨_, _, h2, new, cl, h1, _⟩
  · rw [h1]
  · rw [h1]; simp

theorem inv_exec2 {s : Sh} {ts : List Th} (h : Inv s ts) (i due : Nat) (kind : Kind) (tag : Nat) :
    Inv (exec2 s i due kind tag) ts := by
  unfold exec2
  cases hadd : add s due (some i) kind tag with
  | mk s1 r1 =>
    have e1 : (add s due (some i) kind tag).1 = s1 := by rw [hadd]
    have e2 : (add s due (some i) kind tag).2 = r1 := by rw [hadd]
    cases r1 with
    | ok x =>
      refine inv_add h due (some i) kind tag ?_ ?_ ?_ ?_ ?_ ?_ ?_ <;> simp only [e1, e2, regAfter]
      -- the registered serial is the one `add` returned
      rcases add_cases s due (some i) kind tag with ⟨_, _, hno⟩ | ⟨_, hok, h2, new, cl, h1, _⟩
      · exact absurd e2 (hno x)
      · rw [e2] at hok; cases hok
        rw [e1] at h1; rw [h1]; simp
    | nil =>
      refine inv_add h due (some i) kind tag ?_ ?_ ?_ ?_ ?_ ?_ ?_ <;> simp only [e1, e2]
      rw [← e1, add_reg]
    | panic =>
      refine inv_add h due (some i) kind tag ?_ ?_ ?_ ?_ ?_ ?_ ?_ <;> simp only [e1, e2]
      rw [← e1, add_reg]

theorem inv_sd3 {s : Sh} {ts : List Th} (h : Inv s ts) : Inv (sd3 s) ts := by
  unfold sd3
  split
  · exact inv_eff_core h (s.heap.map (fun e => Ev.dropSD e.serial)) (HSub.nil _) rfl
      (by intro ev hev; simp only [List.mem_map] at hev; obtain ⟨e, _, rfl⟩ := hev; rfl) rfl
      (fun y hy => List.mem_append_right _ hy) (fun _ _ hy => hy) rfl (Nat.le_refl _)
  · exact inv_eff_core h [] (HSub.refl _) rfl (by simp) rfl (fun _ hy => hy) (fun _ _ hy => hy) rfl (Nat.le_refl _)

/-- A change of fields the invariant does not read. -/
theorem inv_same {s s' : Sh} {ts : List Th} (h : Inv s ts) (hh : s'.heap = s.heap) (hl : s'.log = s.log)
    (hn : s'.next = s.next) (hcl : s'.closed = s.closed) (hr : s'.reg = s.reg) (hf : s'.flags = s.flags)
    (hk : s.clock ≤ s'.clock) : Inv s' ts :=
  inv_eff_core h [] (by rw [hh]; exact HSub.refl _) (by simpa using hl) (by simp) hn
    (by rw [hcl]; exact fun _ hy => hy) (by rw [hr]; exact fun _ _ hy => hy) hf hk

theorem inv_log1 {s s' : Sh} {ts : List Th} (h : Inv s ts) (ev : Ev) (hev : ev.inert = true) (hh : s'.heap = s.heap)
    (hl : s'.log = ev :: s.log) (hn : s'.next = s.next) (hcl : s'.closed = s.closed) (hr : s'.reg = s.reg)
    (hf : s'.flags = s.flags) (hk : s.clock ≤ s'.clock) : Inv s' ts :=
  inv_eff_core h [ev] (by rw [hh]; exact HSub.refl _) (by simpa using hl) (by simpa using hev) hn
    (by rw [hcl]; exact fun _ hy => hy) (by rw [hr]; exact fun _ _ hy => hy) hf hk

/-! ## every transition -/

theorem noElem_move {s : Sh} {l r : List Th} {t t' : Th} (h : Inv s (l ++ t :: r))
    (hp : ∀ x, pre x t' = 0) (hw : ∀ x, wr x t' = 0) (hk : TOk s t') : Inv s (l ++ t' :: r) :=
  inv_move h (fun x => by rw [hp x]; exact Nat.zero_le _) (fun x => by rw [hw x]; exact Nat.zero_le _) (fun _ => hk)

theorem inv_tr {s s' : Sh} {l r : List Th} {t t' : Th} (h : Inv s (l ++ t :: r)) (tr : Tr s t s' t') :
    Inv s' (l ++ t' :: r) := by
  cases tr with
  | idleExit hp hs =>
    exact inv_same (noElem_move h (fun _ => rfl) (fun _ => rfl) trivial) rfl rfl rfl rfl rfl rfl (Nat.le_refl _)
  | idlePark hp hs =>
    exact inv_same (noElem_move h (fun _ => rfl) (fun _ => rfl) trivial) rfl rfl rfl rfl rfl rfl (Nat.le_refl _)
  | idlePop hp =>
    rename_i e h'
    refine inv_pop h hp ?_ rfl rfl rfl rfl rfl rfl rfl
    split
    · exact Or.inl rfl
    · exact Or.inr rfl
  | wake hw =>
    exact inv_same (noElem_move h (fun _ => rfl) (fun _ => rfl) trivial) rfl rfl rfl rfl rfl rfl (Nat.le_refl _)
  | hkGo hr => exact inv_move h (fun _ => Nat.le_refl _) (fun _ => Nat.le_refl _) (fun hk => hk)
  | selSdCancel hc hf =>
    rename_i e
    exact inv_eff_core (noElem_move h (fun _ => rfl) (fun _ => rfl) trivial) [.dropSD e.serial] (HSub.refl _) rfl
      (by simp [Ev.inert]) rfl (fun y hy => List.mem_cons_of_mem _ hy) (fun _ _ hy => hy) rfl (Nat.le_refl _)
  | selSdIgnore hc hf hi =>
    exact inv_move h (fun _ => Nat.le_refl _) (fun _ => Nat.le_refl _) (fun hk => ⟨hk, Or.inr hi⟩)
  | selSd hc hf hi => exact inv_move h (fun _ => Nat.le_refl _) (fun _ => Nat.le_refl _) (fun hk => hk)
  | selCancel hc =>
    exact inv_log1 (noElem_move h (fun _ => rfl) (fun _ => rfl) trivial) _ rfl rfl rfl rfl rfl rfl rfl (Nat.le_refl _)
  | selTimer hd =>
    exact inv_move h (fun _ => Nat.le_refl _) (fun _ => Nat.le_refl _) (fun hk => ⟨hk, Or.inl hd⟩)
  | selSDCancel hc =>
    exact inv_log1 (noElem_move h (fun _ => rfl) (fun _ => rfl) trivial) _ rfl rfl rfl rfl rfl rfl rfl (Nat.le_refl _)
  | selSDTimer hd =>
    exact inv_move h (fun _ => Nat.le_refl _) (fun _ => Nat.le_refl _) (fun hk => ⟨hk, Or.inl hd⟩)
  | chkSkip hc =>
    exact inv_log1 (noElem_move h (fun _ => rfl) (fun _ => rfl) trivial) _ rfl rfl rfl rfl rfl rfl rfl (Nat.le_refl _)
  | chkDeliver hnc => exact inv_deliver h hnc rfl rfl rfl rfl rfl rfl rfl
  | wrapRaw hid =>
    rename_i e
    have htok : Known s e ∧ Ready s e := h.th_ok (.wrap e) (by simp)
    have hidf : idOf e.serial s.log = some none := by rw [← hid]; exact htok.1.2.2
    refine inv_run h ?_ ?_ rfl rfl rfl rfl rfl rfl
    · cases hr : s.log.any (Ev.isRevoke e.serial) with
      | false => rfl
      | true =>
        obtain ⟨i, hi⟩ := h.rev_id _ hr
        rw [hidf] at hi; cases hi
    · intro j y hy
      refine ⟨hy, ?_⟩
      rintro rfl
      have := h.r_id j _ hy
      rw [hidf] at this; cases this
  | wrapRun hid hl hg =>
    rename_i e i
    refine inv_run h (h.r_rev i _ hg).1 ?_ rfl rfl rfl rfl rfl rfl
    intro j y hy
    obtain ⟨hji, hy'⟩ := regGet_regDel_some hy
    refine ⟨hy', ?_⟩
    rintro rfl
    exact hji (h.r_inj j i _ hy' hg)
  | wrapSkip hid hl hg =>
    exact inv_log1 (noElem_move h (fun _ => rfl) (fun _ => rfl) trivial) _ rfl rfl rfl rfl rfl rfl rfl (Nat.le_refl _)
  | cbDone _ => exact noElem_move h (fun _ => rfl) (fun _ => rfl) trivial
  | cbExec1 hk hid hl => exact noElem_move (inv_exec1 h _) (fun _ => rfl) (fun _ => rfl) trivial
  | cbExec2 hk hid =>
    rename_i e i due tag blk
    refine inv_exec2 (noElem_move h ?_ ?_ ?_) _ _ _ _
    · intro x; cases blk <;> rfl
    · intro x; cases blk <;> rfl
    · cases blk <;> trivial
  | cbCancel hk hid hl => exact noElem_move (inv_cancelId h _) (fun _ => rfl) (fun _ => rfl) trivial
  | ctlExec2 => exact noElem_move (inv_exec2 h _ _ _ _) (fun _ => rfl) (fun _ => rfl) trivial
  | ctlSd2 =>
    exact inv_same (noElem_move h (fun _ => rfl) (fun _ => rfl) trivial) rfl rfl rfl rfl rfl rfl (Nat.le_refl _)
  | ctlSd3 =>
    exact noElem_move (inv_same (inv_sd3 h) rfl rfl rfl rfl rfl rfl (Nat.le_refl _)) (fun _ => rfl) (fun _ => rfl) trivial
  | ctlSdWait hw =>
    exact inv_same (noElem_move h (fun _ => rfl) (fun _ => rfl) trivial) rfl rfl rfl rfl rfl rfl (Nat.le_refl _)
  | ctlWait ht => exact noElem_move h (fun _ => rfl) (fun _ => rfl) trivial
  | ctlAdd =>
    rename_i due tag kind rest
    refine inv_add (noElem_move h (fun _ => rfl) (fun _ => rfl) trivial) due none kind tag rfl rfl rfl rfl rfl rfl ?_
    show (add s due none kind tag).1.reg = _
    rw [add_reg]
    cases (add s due none kind tag).2 <;> rfl
  | ctlExec1 hl => exact noElem_move (inv_exec1 h _) (fun _ => rfl) (fun _ => rfl) trivial
  | ctlCancelElem hx =>
    exact noElem_move (inv_same (inv_cancelElem h _) rfl rfl rfl rfl rfl rfl (Nat.le_refl _)) (fun _ => rfl)
      (fun _ => rfl) trivial
  | ctlCancelNone =>
    exact inv_same (noElem_move h (fun _ => rfl) (fun _ => rfl) trivial) rfl rfl rfl rfl rfl rfl (Nat.le_refl _)
  | ctlCancelId hl => exact noElem_move (inv_cancelId h _) (fun _ => rfl) (fun _ => rfl) trivial
  | ctlSd1 hs =>
    obtain ⟨_, rfl⟩ := sd1_some hs
    exact inv_eff_sd1 (noElem_move h (fun _ => rfl) (fun _ => rfl) trivial) _ rfl rfl rfl rfl rfl rfl rfl
  | ctlSdAgain hs _ =>
    exact inv_same (noElem_move h (fun _ => rfl) (fun _ => rfl) trivial) rfl rfl rfl rfl rfl rfl (Nat.le_refl _)
  | ctlRelease =>
    exact inv_same (noElem_move h (fun _ => rfl) (fun _ => rfl) trivial) rfl rfl rfl rfl rfl rfl (Nat.le_refl _)
  | ctlArm =>
    exact inv_same (noElem_move h (fun _ => rfl) (fun _ => rfl) trivial) rfl rfl rfl rfl rfl rfl (Nat.le_refl _)
  | tick =>
    exact inv_same (noElem_move h (fun _ => rfl) (fun _ => rfl) trivial) rfl rfl rfl rfl rfl rfl (Nat.le_succ _)

/-- Configurations. -/
def InvC (c : Cfg Sh Th) : Prop := Inv c.1 c.2

theorem invC_step {a b : Cfg Sh Th} (h : InvC a) (st : Step sys a b) : InvC b := by
  obtain ⟨s, l, t, r, s', t', rfl, rfl, tr⟩ := Step.tr st
  exact inv_tr h tr

/-- Initial threads hold nothing. -/
theorem inv_init (maxSize : Nat) (ts : List Th) (hts : ∀ t ∈ ts, t.isInitial = true) : InvC (initCfg maxSize ts) := by
  have hp : ∀ x, tsum (pre x) ts = 0 := fun x => tsum_zero (fun t ht => by
    have := hts t ht; cases t <;> simp_all [Th.isInitial, pre])
  have hw : ∀ x, tsum (wr x) ts = 0 := fun x => tsum_zero (fun t ht => by
    have := hts t ht; cases t <;> simp_all [Th.isInitial, wr])
  constructor
  · intro x; simp [initCfg, hc, dc, hp x]
  · intro x; simp [initCfg, rc, dc, hw x]
  · intro x _; simp [initCfg, dc, dueOf]
  · intro e he; simp [initCfg] at he
  · intro t ht
    have := hts t (by simpa [initCfg] using ht)
    cases t <;> simp_all [Th.isInitial, TOk]
  · intro x hx; simp [initCfg] at hx
  · intro hi; simp [initCfg] at hi
  · intro i x hx; simp [initCfg, regGet] at hx
  · intro i x hx; simp [initCfg, regGet] at hx
  · intro i x hx; simp [initCfg, regGet] at hx
  · intro i j x hx; simp [initCfg, regGet] at hx
  · intro x hx; simp [initCfg] at hx
  · simp [initCfg, okLog]

theorem invC_reach {maxSize : Nat} {ts : List Th} (hts : ∀ t ∈ ts, t.isInitial = true) {c : Cfg Sh Th}
    (hr : Reach sys (initCfg maxSize ts) c) : InvC c :=
  inv_induction InvC (inv_init maxSize ts hts) (fun _ _ h st => invC_step h st) hr

end Hive.Timed
