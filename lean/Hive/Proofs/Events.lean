import Hive.Model.Events
/-!
# Sequential event machine: `Trigger` as one pass over the hook records, and what a history
without `LinkTo` says about those records
-/
namespace Hive.Events

/-- What visiting does to a hook record of event `e`'s registry (no link hooks). -/
def visitHook (e : Nat) (h : Hook) : Hook :=
  if h.ev != e || !h.attached then h
  else if exceeds h.max (h.count + 1) then { h with count := h.count + 1, attached := false }
  else { h with count := h.count + 1, fired := h.fired + 1 }

/-- The invocation (if any) that visiting a user hook produces (`evPooled`: the event has a pool,
`async`: the trigger itself runs in a pool worker). -/
def callOf (evPooled async : Bool) (e a : Nat) (h : Hook) : Option Call :=
  if h.ev != e || !h.attached then none
  else if exceeds h.max (h.count + 1) then none
  else some ⟨.call, h.handle, a, async || effPooled evPooled h⟩

/-- Everything visiting hook `h` appends to the log: the pre-trigger calls and the invocation. -/
def entriesOf (evPre evPooled async : Bool) (e a : Nat) (h : Hook) : List Call :=
  match callOf evPooled async e a h with
  | some c => preCalls evPre async e a h ++ [c]
  | none => []

theorem visitHook_pre (e : Nat) (h : Hook) : (visitHook e h).pre = h.pre := by
  unfold visitHook
  by_cases h1 : (h.ev != e || !h.attached) = true
  · simp [h1]
  · by_cases h2 : exceeds h.max (h.count + 1) = true <;> simp [h1, h2]

theorem visitHook_fields (e : Nat) (h : Hook) :
    (visitHook e h).ev = h.ev ∧ (visitHook e h).handle = h.handle ∧ (visitHook e h).max = h.max ∧
    (visitHook e h).pool = h.pool ∧ (visitHook e h).link = h.link := by
  unfold visitHook
  by_cases h1 : (h.ev != e || !h.attached) = true
  · simp [h1]
  · by_cases h2 : exceeds h.max (h.count + 1) = true <;> simp [h1, h2]

theorem visitHook_link (e : Nat) (h : Hook) : (visitHook e h).link = h.link := (visitHook_fields e h).2.2.2.2

theorem visitKey_nolink (trigRec : St → Nat → Nat → Bool → St × List Call) (e a : Nat) (async : Bool) (s : St)
    (log : List Call) (k : Nat) (h : Hook) (hk : s.hooks[k]? = some h) (hl : h.link = none) :
    let r := visitKey trigRec e a async (s, log) k
    r.1.hooks = s.hooks.set k (visitHook e h) ∧ r.1.evs = s.evs ∧ r.1.user = s.user ∧
      r.2 = log ++ entriesOf (evPreOf s e) (evPooledOf s e) async e a h := by
  have hself : s.hooks.set k h = s.hooks := by
    apply List.ext_getElem?
    intro j
    rw [List.getElem?_set]
    by_cases hj : k = j
    · subst hj
      have hlt : k < s.hooks.length := by
        rcases Nat.lt_or_ge k s.hooks.length with h' | h'
        · exact h'
        · rw [List.getElem?_eq_none h'] at hk; cases hk
      obtain ⟨_, hh⟩ := List.getElem?_eq_some_iff.mp hk
      simp [hlt, hh]
    · simp [hj]
  simp only [visitKey, hk]
  by_cases h1 : (h.ev != e || !h.attached) = true
  · simp [h1, visitHook, callOf, entriesOf, hself]
  · by_cases h2 : exceeds h.max (h.count + 1) = true
    · simp [h1, h2, visitHook, callOf, entriesOf, setHook]
    · simp [h1, h2, hl, visitHook, callOf, entriesOf, setHook]

theorem visitKey_none (trigRec : St → Nat → Nat → Bool → St × List Call) (e a : Nat) (async : Bool)
    (acc : St × List Call) (k : Nat) (hk : acc.1.hooks[k]? = none) : visitKey trigRec e a async acc k = acc := by
  simp [visitKey, hk]

theorem flatMap_congr' {α β : Type} {l : List α} {f g : α → List β} (h : ∀ x ∈ l, f x = g x) :
    l.flatMap f = l.flatMap g := by
  induction l with
  | nil => rfl
  | cons a l ih =>
    simp only [List.flatMap_cons]
    rw [h a (by simp), ih (fun x hx => h x (by simp [hx]))]

def perKey {α β : Type} (l : List α) (f : α → List β) (k : Nat) : List β :=
  match l[k]? with
  | some h => f h
  | none => []

/-- No link hooks anywhere. -/
def NoLinks (s : St) : Prop := ∀ (k : Nat) (h : Hook), s.hooks[k]? = some h → h.link = none

/-- The fold of `Trigger` over any duplicate-free list of keys, when there are no link hooks. -/
theorem fold_visit (trigRec : St → Nat → Nat → Bool → St × List Call) (e a : Nat) (async : Bool) (ks : List Nat)
    (hnd : ks.Nodup) (s : St) (log : List Call) (hnl : NoLinks s) :
    let r := ks.foldl (visitKey trigRec e a async) (s, log)
    r.1.evs = s.evs ∧ r.1.user = s.user ∧ r.1.hooks.length = s.hooks.length ∧
    (∀ j, r.1.hooks[j]? = if j ∈ ks then (s.hooks[j]?).map (visitHook e) else s.hooks[j]?) ∧
    r.2 = log ++ ks.flatMap (perKey s.hooks (entriesOf (evPreOf s e) (evPooledOf s e) async e a)) := by
  induction ks generalizing s log with
  | nil => simp
  | cons k ks ih =>
    rw [List.nodup_cons] at hnd
    simp only [List.foldl_cons]
    cases hk : s.hooks[k]? with
    | none =>
      rw [visitKey_none trigRec e a async (s, log) k hk]
      obtain ⟨h1, h2, h3, h4, h5⟩ := ih hnd.2 s log hnl
      refine ⟨h1, h2, h3, ?_, ?_⟩
      · intro j
        rw [h4 j]
        by_cases hj : j = k
        · subst hj; simp [hnd.1, hk]
        · simp [hj]
      · rw [h5]; simp [perKey, hk]
    | some h =>
      obtain ⟨v1, v2, v3, v4⟩ := visitKey_nolink trigRec e a async s log k h hk (hnl k h hk)
      generalize visitKey trigRec e a async (s, log) k = r1 at v1 v2 v3 v4
      obtain ⟨s1, log1⟩ := r1
      simp only at v1 v2 v3 v4
      have hlt : k < s.hooks.length := by
        rcases Nat.lt_or_ge k s.hooks.length with h' | h'
        · exact h'
        · rw [List.getElem?_eq_none h'] at hk; cases hk
      have hget : ∀ j, s1.hooks[j]? = if k = j then some (visitHook e h) else s.hooks[j]? := by
        intro j; rw [v1, List.getElem?_set]; simp [hlt]
      have hnl1 : NoLinks s1 := by
        intro j hj hjs
        rw [hget j] at hjs
        by_cases hkj : k = j
        · simp [hkj] at hjs; subst hjs; rw [visitHook_link]; exact hnl k h hk
        · simp [hkj] at hjs; exact hnl j hj hjs
      obtain ⟨h1, h2, h3, h4, h5⟩ := ih hnd.2 s1 log1 hnl1
      have hpre : evPreOf s1 e = evPreOf s e := by simp [evPreOf, v2]
      have hpoo : evPooledOf s1 e = evPooledOf s e := by simp [evPooledOf, v2]
      rw [hpre, hpoo] at h5
      refine ⟨by rw [h1, v2], by rw [h2, v3], by rw [h3, v1]; simp, ?_, ?_⟩
      · intro j
        rw [h4 j, hget j]
        by_cases hjk : k = j
        · subst hjk; simp [hnd.1, hk]
        · have : ¬ j = k := fun x => hjk x.symm
          simp [hjk, this]
      · rw [h5, v4]
        simp only [List.flatMap_cons, perKey, hk, List.append_assoc]
        congr 1
        congr 1
        apply flatMap_congr'
        intro j hj
        have hjk : ¬ k = j := by intro x; subst x; exact hnd.1 hj
        simp only [perKey]
        rw [hget j]; simp [hjk]

theorem range_flatMap_getElem {α β : Type} (l : List α) (f : α → List β) :
    (List.range l.length).flatMap (perKey l f) = l.flatMap f := by
  induction l with
  | nil => rfl
  | cons a l ih =>
    rw [List.length_cons, List.range_succ_eq_map, List.flatMap_cons, List.flatMap_map]
    simp only [perKey, List.getElem?_cons_zero, List.flatMap_cons]
    congr 1

theorem getElem?_lt0 {α : Type} {l : List α} {k : Nat} {x : α} (h : l[k]? = some x) : k < l.length := by
  rcases Nat.lt_or_ge k l.length with h' | h'
  · exact h'
  · rw [List.getElem?_eq_none h'] at h; cases h

/-- `Trigger` on a state without link hooks: the event counter is bumped; if the limit is not
exceeded every hook record is visited once, in key order. -/
theorem trig_nolink (fuel : Nat) (s : St) (e a : Nat) (hnl : NoLinks s) (ev : Ev) (hev : s.evs[e]? = some ev) :
    let r := trig (fuel + 1) s e a false
    r.1.user = s.user ∧ r.1.hooks.length = s.hooks.length ∧
    if exceeds ev.max (ev.count + 1) then
      r.1.hooks = s.hooks ∧ r.1.evs = s.evs.set e { ev with count := ev.count + 1 } ∧ r.2 = []
    else
      r.1.evs = s.evs.set e { ev with count := ev.count + 1, passed := ev.passed + 1 } ∧
      (∀ j : Nat, r.1.hooks[j]? = (s.hooks[j]?).map (visitHook e)) ∧
      r.2 = s.hooks.flatMap (entriesOf ev.pre ev.pooled false e a) := by
  simp only [trig, hev]
  by_cases hx : exceeds ev.max (ev.count + 1) = true
  · simp [hx, setEv]
  · simp only [hx, Bool.false_eq_true, if_false]
    have hnl' : NoLinks (setEv s e { ev with count := ev.count + 1, passed := ev.passed + 1 }) := hnl
    obtain ⟨h1, h2, h3, h4, h5⟩ := fold_visit (trig fuel) e a false (List.range s.hooks.length) List.nodup_range
      (setEv s e { ev with count := ev.count + 1, passed := ev.passed + 1 }) [] hnl'
    refine ⟨h2, h3, h1, ?_, ?_⟩
    · intro j
      rw [h4 j]
      by_cases hj : j < s.hooks.length
      · simp [hj, setEv]
      · have hn : s.hooks[j]? = none := List.getElem?_eq_none (by omega)
        simp [hj, setEv]
    · rw [h5]
      have hlt := getElem?_lt0 hev
      have hpre : evPreOf (setEv s e { ev with count := ev.count + 1, passed := ev.passed + 1 }) e = ev.pre := by
        simp [evPreOf, setEv, hlt]
      have hpoo : evPooledOf (setEv s e { ev with count := ev.count + 1, passed := ev.passed + 1 }) e = ev.pooled := by
        simp [evPooledOf, setEv, hlt]
      rw [hpre, hpoo]
      simp only [List.nil_append, setEv]
      exact range_flatMap_getElem s.hooks (entriesOf ev.pre ev.pooled false e a)

/-! ## histories without `LinkTo` -/

def Op.isLink : Op → Bool
  | .link _ _ => true
  | .unlink _ => true
  | _ => false

/-- The hook's own limit is used up (it has been, or will be, unhooked by the trigger that exceeded it). -/
def exceeded (hk : Hook) : Prop := hk.max ≠ 0 ∧ hk.max < hk.count

structure NLInv (s : St) : Prop where
  nolinks : NoLinks s
  user : s.user = List.range s.hooks.length
  handle : ∀ (k : Nat) (hk : Hook), s.hooks[k]? = some hk → hk.handle = k

/-- How one operation changes the record with key `k`. -/
structure F (op : Op) (k : Nat) (hk hk' : Hook) : Prop where
  ev : hk'.ev = hk.ev
  max : hk'.max = hk.max
  pool : hk'.pool = hk.pool
  pre : hk'.pre = hk.pre
  handle : hk'.handle = hk.handle
  link : hk'.link = hk.link
  att_down : hk'.attached = true → hk.attached = true ∧ op ≠ .unhook k ∧ (¬ exceeded hk → ¬ exceeded hk')
  att_up : hk.attached = true → op ≠ .unhook k → ¬ exceeded hk' → hk'.attached = true
  exc : exceeded hk → exceeded hk'

theorem F.same {op : Op} {k : Nat} (hk : Hook) (hne : op ≠ .unhook k) : F op k hk hk :=
  ⟨rfl, rfl, rfl, rfl, rfl, rfl, fun h => ⟨h, hne, id⟩, fun h _ _ => h, id⟩

theorem F.visit (e a k : Nat) (hk : Hook) : F (.trigger e a) k hk (visitHook e hk) := by
  unfold visitHook
  by_cases h1 : (hk.ev != e || !hk.attached) = true
  · simp only [h1, if_true]; exact F.same hk (by simp)
  · simp only [h1, Bool.false_eq_true, if_false]
    have hatt : hk.attached = true := by
      cases hh : hk.attached with
      | true => rfl
      | false => simp [hh] at h1
    by_cases h2 : exceeds hk.max (hk.count + 1) = true
    · simp only [h2, if_true]
      have hx : hk.max ≠ 0 ∧ hk.max < hk.count + 1 := by
        simp only [exceeds, Bool.and_eq_true, decide_eq_true_eq, bne_iff_ne, ne_eq] at h2
        exact ⟨h2.2, h2.1⟩
      refine ⟨rfl, rfl, rfl, rfl, rfl, rfl, by simp, ?_, ?_⟩
      · intro _ _ hne; exact absurd hx hne
      · intro _; exact hx
    · simp only [h2, Bool.false_eq_true, if_false]
      have hx : ¬ (hk.max ≠ 0 ∧ hk.max < hk.count + 1) := by
        intro hh; apply h2
        simp only [exceeds, Bool.and_eq_true, decide_eq_true_eq, bne_iff_ne, ne_eq]
        exact ⟨hh.2, hh.1⟩
      refine ⟨rfl, rfl, rfl, rfl, rfl, rfl, ?_, ?_, ?_⟩
      · intro _; exact ⟨hatt, by simp, fun _ => hx⟩
      · intro _ _ _; exact hatt
      · intro hh; exact absurd ⟨hh.1, Nat.lt_succ_of_lt hh.2⟩ hx

theorem F.detach (k : Nat) (hk : Hook) : F (.unhook k) k hk { hk with attached := false } :=
  ⟨rfl, rfl, rfl, rfl, rfl, rfl, by simp, fun _ h => absurd rfl h, id⟩

/-- Relation between the hook records before and after one operation that is not a `LinkTo`. -/
structure HooksRel (op : Op) (s s' : St) : Prop where
  old : ∀ (k : Nat) (hk : Hook), s.hooks[k]? = some hk → ∃ hk', s'.hooks[k]? = some hk' ∧ F op k hk hk'
  new : ∀ (k : Nat) (hk' : Hook), s'.hooks[k]? = some hk' → s.hooks[k]? = none →
    ∃ e m b p, op = .hook e m b p ∧ (step s op).2 = .hk k ∧
      hk' = { ev := e, handle := k, link := none, max := m, count := 0, fired := 0, pool := b, pre := p,
              attached := true }
  created : ∀ e m b p k, op = .hook e m b p → (step s op).2 = .hk k →
    s.hooks[k]? = none ∧ (s'.hooks[k]?).isSome = true

theorem getElem?_lt {α : Type} {l : List α} {k : Nat} {x : α} (h : l[k]? = some x) : k < l.length := by
  rcases Nat.lt_or_ge k l.length with h' | h'
  · exact h'
  · rw [List.getElem?_eq_none h'] at h; cases h

theorem step_rel {s : St} (hs : NLInv s) (op : Op) (hop : op.isLink = false) :
    NLInv (step s op).1 ∧ HooksRel op s (step s op).1 := by
  have same : ∀ s' : St, s'.hooks = s.hooks → s'.user = s.user →
      (∀ (k : Nat) (hk : Hook), s.hooks[k]? = some hk → op ≠ .unhook k) →
      (∀ k, (step s op).2 ≠ .hk k) → NLInv s' ∧ HooksRel op s s' := by
    intro s' hh hu hne hnh
    refine ⟨⟨?_, by rw [hu, hh]; exact hs.user, ?_⟩, ⟨?_, ?_, ?_⟩⟩
    · intro k hk h; rw [hh] at h; exact hs.nolinks k hk h
    · intro k hk h; rw [hh] at h; exact hs.handle k hk h
    · intro k hk h; exact ⟨hk, by rw [hh]; exact h, F.same hk (hne k hk h)⟩
    · intro k hk' h hn; rw [hh, hn] at h; cases h
    · intro e m b p k _ h; exact absurd h (hnh k)
  cases op with
  | new m p q => exact same _ rfl rfl (by simp) (by simp [step])
  | tcount e =>
    have hout : ∀ k, (step s (.tcount e)).2 ≠ .hk k := by
      intro k; simp only [step]; cases s.evs[e]? <;> simp
    simp only [step]
    cases s.evs[e]? <;> exact same _ rfl rfl (by simp) hout
  | hcount h =>
    have hout : ∀ k, (step s (.hcount h)).2 ≠ .hk k := by
      intro k; simp only [step]
      cases s.user[h]? with
      | none => simp
      | some k' => simp only; split <;> simp
    simp only [step]
    cases s.user[h]? <;> exact same _ rfl rfl (by simp) hout
  | link a b => simp [Op.isLink] at hop
  | unlink a => simp [Op.isLink] at hop
  | hook e m b p =>
    simp only [step]
    by_cases he : e < s.evs.length
    · simp only [he, if_true]
      have hul : s.user.length = s.hooks.length := by rw [hs.user]; simp
      refine ⟨⟨?_, ?_, ?_⟩, ⟨?_, ?_, ?_⟩⟩
      · intro k hk h
        by_cases hlt : k < s.hooks.length
        · rw [List.getElem?_append_left hlt] at h; exact hs.nolinks k hk h
        · rw [List.getElem?_append_right (by omega)] at h
          have : k - s.hooks.length = 0 := by
            have := getElem?_lt h; simp at this; omega
          rw [this] at h; simp at h; subst h; rfl
      · simp only [List.length_append, List.length_singleton]
        rw [List.range_succ, hs.user]
      · intro k hk h
        by_cases hlt : k < s.hooks.length
        · rw [List.getElem?_append_left hlt] at h; exact hs.handle k hk h
        · rw [List.getElem?_append_right (by omega)] at h
          have : k - s.hooks.length = 0 := by
            have := getElem?_lt h; simp at this; omega
          rw [this] at h; simp at h; subst h
          simp only; omega
      · intro k hk h
        refine ⟨hk, ?_, F.same hk (by simp)⟩
        rw [List.getElem?_append_left (getElem?_lt h)]; exact h
      · intro k hk' h hn
        have hge : s.hooks.length ≤ k := by
          rcases Nat.lt_or_ge k s.hooks.length with h' | h'
          · rw [List.getElem?_eq_getElem h'] at hn; cases hn
          · exact h'
        rw [List.getElem?_append_right hge] at h
        have h0 : k - s.hooks.length = 0 := by
          have := getElem?_lt h; simp at this; omega
        rw [h0] at h; simp at h
        have hk : k = s.hooks.length := by omega
        refine ⟨e, m, b, p, rfl, ?_, ?_⟩
        · simp [step, he, hul, hk]
        · rw [← h, hul, hk]
      · intro e' m' b' p' k heq hout
        simp only [Op.hook.injEq] at heq
        obtain ⟨rfl, rfl, rfl, rfl⟩ := heq
        simp only [step, he, if_true, Out.hk.injEq] at hout
        subst hout
        rw [hul]
        constructor
        · exact List.getElem?_eq_none (Nat.le_refl _)
        · simp
    · simp only [he, if_false]
      exact same s rfl rfl (by simp) (by simp [step, he])
  | unhook h =>
    simp only [step]
    cases hu : s.user[h]? with
    | none =>
      refine same s rfl rfl ?_ (by simp [step, hu])
      intro k hk hh heq
      simp only [Op.unhook.injEq] at heq; subst heq
      rw [hs.user, List.getElem?_range (getElem?_lt hh)] at hu; cases hu
    | some k0 =>
      have hlt : h < s.hooks.length := by
        have := getElem?_lt hu; rw [hs.user] at this; simpa using this
      have hk0 : k0 = h := by
        rw [hs.user, List.getElem?_range hlt] at hu; cases hu; rfl
      subst hk0
      simp only [detach]
      obtain ⟨hk0, hhk0⟩ : ∃ x, s.hooks[k0]? = some x := ⟨s.hooks[k0], List.getElem?_eq_getElem hlt⟩
      simp only [hhk0, setHook]
      have hget : ∀ j : Nat, (s.hooks.set k0 { hk0 with attached := false })[j]? =
          if k0 = j then some { hk0 with attached := false } else s.hooks[j]? := by
        intro j; rw [List.getElem?_set]; simp [hlt]
      refine ⟨⟨?_, ?_, ?_⟩, ⟨?_, ?_, ?_⟩⟩
      · intro k hk hh
        simp only [hget k] at hh
        by_cases hkk : k0 = k
        · simp only [hkk, if_true, Option.some.injEq] at hh; subst hh; subst hkk; exact hs.nolinks _ hk0 hhk0
        · simp only [hkk, if_false] at hh; exact hs.nolinks k hk hh
      · simp only [List.length_set]; exact hs.user
      · intro k hk hh
        simp only [hget k] at hh
        by_cases hkk : k0 = k
        · simp only [hkk, if_true, Option.some.injEq] at hh; subst hh; subst hkk; exact hs.handle _ hk0 hhk0
        · simp only [hkk, if_false] at hh; exact hs.handle k hk hh
      · intro k hk hh
        by_cases hkk : k0 = k
        · subst hkk
          rw [hhk0] at hh; cases hh
          exact ⟨{ hk0 with attached := false }, by simp only [hget k0, if_true], F.detach k0 hk0⟩
        · exact ⟨hk, by simp only [hget k, hkk, if_false]; exact hh, F.same hk (by simp; exact hkk)⟩
      · intro k hk' hh hn
        have := getElem?_lt hh
        simp only [List.length_set] at this
        rw [List.getElem?_eq_getElem this] at hn; cases hn
      · intro e m b p k heq; cases heq
  | trigger e a =>
    simp only [step]
    by_cases he : e < s.evs.length
    · simp only [he, if_true]
      obtain ⟨ev, hev⟩ : ∃ x, s.evs[e]? = some x := ⟨s.evs[e], List.getElem?_eq_getElem he⟩
      obtain ⟨t1, t2, t3⟩ := trig_nolink s.evs.length s e a hs.nolinks ev hev
      generalize trig (s.evs.length + 1) s e a false = r at t1 t2 t3
      have hget : ∀ j : Nat, r.1.hooks[j]? = (s.hooks[j]?).map (visitHook e) ∨ r.1.hooks[j]? = s.hooks[j]? := by
        intro j
        by_cases hx : exceeds ev.max (ev.count + 1) = true
        · simp only [hx, if_true] at t3; right; rw [t3.1]
        · simp only [hx, Bool.false_eq_true, if_false] at t3; left; exact t3.2.1 j
      refine ⟨⟨?_, ?_, ?_⟩, ⟨?_, ?_, ?_⟩⟩
      · intro k hk hh
        rcases hget k with hg | hg
        · rw [hg] at hh
          simp only [Option.map_eq_some_iff] at hh
          obtain ⟨h0, hh0, rfl⟩ := hh
          rw [visitHook_link]; exact hs.nolinks k h0 hh0
        · rw [hg] at hh; exact hs.nolinks k hk hh
      · rw [t1, t2]; exact hs.user
      · intro k hk hh
        rcases hget k with hg | hg
        · rw [hg] at hh
          simp only [Option.map_eq_some_iff] at hh
          obtain ⟨h0, hh0, rfl⟩ := hh
          rw [(visitHook_fields e h0).2.1]; exact hs.handle k h0 hh0
        · rw [hg] at hh; exact hs.handle k hk hh
      · intro k hk hh
        rcases hget k with hg | hg
        · exact ⟨visitHook e hk, by rw [hg, hh]; rfl, F.visit e a k hk⟩
        · exact ⟨hk, by rw [hg]; exact hh, F.same hk (by simp)⟩
      · intro k hk' hh hn
        have := getElem?_lt hh
        rw [t2] at this
        rw [List.getElem?_eq_getElem this] at hn; cases hn
      · intro e' m b p k heq; cases heq
    · simp only [he, if_false]
      exact same s rfl rfl (by simp) (by simp [step, he])

def noLink (ops : List Op) : Prop := ∀ op ∈ ops, op.isLink = false

theorem snoc_induction {α : Type} {P : List α → Prop} (h0 : P [])
    (hs : ∀ l a, P l → P (l ++ [a])) (l : List α) : P l := by
  have : ∀ r : List α, P r.reverse := by
    intro r
    induction r with
    | nil => exact h0
    | cons a r ih => rw [List.reverse_cons]; exact hs _ _ ih
  simpa using this l.reverse

theorem snoc_eq_append_cons {α : Type} {pre p1 p2 : List α} {op x : α} (h : pre ++ [op] = p1 ++ x :: p2) :
    (p2 = [] ∧ p1 = pre ∧ x = op) ∨ ∃ p2', p2 = p2' ++ [op] ∧ pre = p1 ++ x :: p2' := by
  have hsplit : p2 = [] ∨ ∃ q y, p2 = q ++ [y] := by
    induction p2 using snoc_induction with
    | h0 => exact Or.inl rfl
    | hs l a _ => exact Or.inr ⟨l, a, rfl⟩
  rcases hsplit with rfl | ⟨q, y, rfl⟩
  · left
    have := List.append_inj' (s₁ := pre) (t₁ := [op]) (s₂ := p1) (t₂ := [x]) h rfl
    obtain ⟨h1, h2⟩ := this
    simp at h2
    exact ⟨rfl, h1.symm, h2.symm⟩
  · right
    have h' : pre ++ [op] = (p1 ++ x :: q) ++ [y] := by rw [h]; simp
    obtain ⟨h1, h2⟩ := List.append_inj' h' rfl
    simp at h2; subst h2
    exact ⟨q, rfl, h1⟩

theorem final_snoc (s : St) (pre : List Op) (op : Op) : final s (pre ++ [op]) = (step (final s pre) op).1 := by
  simp [final, List.foldl_append]

/-- What the history says about the hook records (histories without `LinkTo`). -/
structure HInv (pre : List Op) : Prop where
  nl : NLInv (final init pre)
  tracked : ∀ (p1 : List Op) (e m : Nat) (b : Option Bool) (p : Bool) (p2 : List Op) (k : Nat),
    pre = p1 ++ .hook e m b p :: p2 → (step (final init p1) (.hook e m b p)).2 = .hk k →
    ∃ hk, (final init pre).hooks[k]? = some hk ∧ hk.ev = e ∧ hk.max = m ∧ hk.pool = b ∧ hk.pre = p ∧
      (hk.attached = true ↔ (∀ op ∈ p2, op ≠ .unhook k) ∧ ¬ exceeded hk)
  origin : ∀ (k : Nat) (hk : Hook), (final init pre).hooks[k]? = some hk →
    ∃ p1 p2, pre = p1 ++ .hook hk.ev hk.max hk.pool hk.pre :: p2 ∧
      (step (final init p1) (.hook hk.ev hk.max hk.pool hk.pre)).2 = .hk k

theorem hinv_nil : HInv [] := by
  refine ⟨⟨?_, rfl, ?_⟩, ?_, ?_⟩
  · intro k h hh; simp [final, init] at hh
  · intro k h hh; simp [final, init] at hh
  · intro p1 e m b p p2 k h; simp at h
  · intro k hk hh; simp [final, init] at hh

theorem hinv_snoc {pre : List Op} (h : HInv pre) (op : Op) (hop : op.isLink = false) : HInv (pre ++ [op]) := by
  obtain ⟨hnl', hrel⟩ := step_rel h.nl op hop
  refine ⟨by rw [final_snoc]; exact hnl', ?_, ?_⟩
  · intro p1 e m b p p2 k hdec hout
    rw [final_snoc]
    rcases snoc_eq_append_cons hdec with ⟨rfl, rfl, rfl⟩ | ⟨p2', rfl, hpre⟩
    · obtain ⟨hnone, hsome⟩ := hrel.created e m b p k rfl hout
      obtain ⟨hk', hhk'⟩ := Option.isSome_iff_exists.mp hsome
      obtain ⟨e', m', b', p', heq, _, hrec⟩ := hrel.new k hk' hhk' hnone
      simp only [Op.hook.injEq] at heq
      obtain ⟨rfl, rfl, rfl, rfl⟩ := heq
      refine ⟨hk', hhk', by rw [hrec], by rw [hrec], by rw [hrec], by rw [hrec], ?_⟩
      rw [hrec]
      simp [exceeded]
    · obtain ⟨hk, hhk, h1, h2, h3, h3p, h4⟩ := h.tracked p1 e m b p p2' k hpre hout
      obtain ⟨hk', hhk', hf⟩ := hrel.old k hk hhk
      refine ⟨hk', hhk', by rw [hf.ev, h1], by rw [hf.max, h2], by rw [hf.pool, h3], by rw [hf.pre, h3p], ?_⟩
      constructor
      · intro hatt
        obtain ⟨ha, hne, hex⟩ := hf.att_down hatt
        obtain ⟨hno, hnex⟩ := h4.mp ha
        refine ⟨?_, hex hnex⟩
        intro o ho
        simp only [List.mem_append, List.mem_singleton] at ho
        rcases ho with ho | rfl
        · exact hno o ho
        · exact hne
      · intro ⟨hno, hnex⟩
        have hnex0 : ¬ exceeded hk := fun hx => hnex (hf.exc hx)
        have ha : hk.attached = true := h4.mpr ⟨fun o ho => hno o (by simp [ho]), hnex0⟩
        exact hf.att_up ha (hno op (by simp)) hnex
  · intro k hk' hhk'
    rw [final_snoc] at hhk'
    cases hold : (final init pre).hooks[k]? with
    | none =>
      obtain ⟨e, m, b, p, heq, hout, hrec⟩ := hrel.new k hk' hhk' hold
      subst heq
      refine ⟨pre, [], ?_, ?_⟩
      · rw [hrec]
      · rw [hrec]; exact hout
    | some hk =>
      obtain ⟨hk2, hhk2, hf⟩ := hrel.old k hk hold
      rw [hhk'] at hhk2; cases hhk2
      obtain ⟨p1, p2, hdec, hout⟩ := h.origin k hk hold
      refine ⟨p1, p2 ++ [op], ?_, ?_⟩
      · rw [hf.ev, hf.max, hf.pool, hf.pre, hdec]; simp
      · rw [hf.ev, hf.max, hf.pool, hf.pre]; exact hout

theorem hinv_of_noLink (pre : List Op) (hnl : noLink pre) : HInv pre := by
  induction pre using snoc_induction with
  | h0 => exact hinv_nil
  | hs l a ih =>
    exact hinv_snoc (ih (fun op ho => hnl op (by simp [ho]))) a (hnl a (by simp))

end Hive.Events
