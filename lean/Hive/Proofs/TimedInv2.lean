import Hive.Proofs.TimedInvStep
/-!
# The TaskExecutor's bookkeeping invariant

`Inv2 s ts` (on top of `Inv`):

* every live tracked element whose cancel channel is still open is the one registered under its
  identifier (`e1`, `e2`) — so two tasks of one identifier are never pending together, and an
  identifier without registration has nothing pending;
* while a goroutine is between the two halves of `ExecuteAt(id)` it holds the map's mutex and
  `id` has no registration (`lk`, `lkc`);
* a registered element with an open cancel channel is live: in the heap, held by a poller, or
  delivered and about to start (`f`) — the queue closes the channel of everything it drops;
* the context is cancelled only after the queue was marked shut down (`sdinv`, `sdpc`).
-/
namespace Hive.Timed
open Hive.Conc

def Th.held : Th → Option Elem
  | .hk e => some e
  | .sel e => some e
  | .selSD e => some e
  | .chk e => some e
  | .wrap e => some e
  | _ => none

/-- The identifier a goroutine is re-scheduling (it is between `exec1` and `exec2`). -/
def Th.pend : Th → Option Nat
  | .ctl (.exec2 i _ _ _) _ => some i
  | .cb e 1 =>
    match e.kind, e.id with
    | .resched _ _ _, some i => some i
    | _, _ => none
  | _ => none

def execPc (t : Th) : Nat := if t.pend.isSome then 1 else 0

def Th.sdPend : Th → Bool
  | .ctl (.sd2 _) _ => true
  | .ctl (.sd3 _) _ => true
  | _ => false

/-- A tracked element with an open cancel channel is the registered one of its identifier. -/
def Reg (s : Sh) (e : Elem) : Prop :=
  ∀ i, e.id = some i → e.serial ∉ s.closed → regGet s.reg i = some e.serial

/-- Number of places where `x` is live: heap, pollers, delivered-not-started. -/
def lv (x : Nat) (s : Sh) (ts : List Th) : Nat := hc x s.heap + tsum (pre x) ts + tsum (wr x) ts

structure Inv2 (s : Sh) (ts : List Th) : Prop where
  e1 : ∀ e ∈ s.heap, Reg s e
  e2 : ∀ t ∈ ts, ∀ e, t.held = some e → Reg s e
  lk : ∀ t ∈ ts, ∀ i, t.pend = some i → regGet s.reg i = none
  lkc : tsum execPc ts = if s.regLocked then 1 else 0
  f : ∀ i x, regGet s.reg i = some x → x ∉ s.closed → 1 ≤ lv x s ts
  sdinv : s.ctxDone = true → s.isShutdown = true
  sdpc : ∀ t ∈ ts, t.sdPend = true → s.isShutdown = true

theorem lv_le_one {s : Sh} {ts : List Th} (h : Inv s ts) (x : Nat) : lv x s ts ≤ 1 := by
  have := h.a1 x; have := h.b1 x; unfold lv; omega

theorem lv_mid (x : Nat) (s : Sh) (l r : List Th) (t : Th) :
    lv x s (l ++ t :: r) = hc x s.heap + (pre x t + wr x t) + (tsum (pre x) l + tsum (pre x) r + tsum (wr x) l + tsum (wr x) r) := by
  simp only [lv, tsum_mid]; omega

theorem forall_mid {P : Th → Prop} {l r : List Th} {t : Th} :
    (∀ u ∈ l ++ t :: r, P u) ↔ (∀ u ∈ l, P u) ∧ P t ∧ (∀ u ∈ r, P u) := by
  constructor
  · intro h
    exact ⟨fun u hu => h u (by simp [hu]), h t (by simp), fun u hu => h u (by simp [hu])⟩
  · rintro ⟨h1, h2, h3⟩ u hu
    simp only [List.mem_append, List.mem_cons] at hu
    rcases hu with hu | rfl | hu
    · exact h1 u hu
    · exact h2
    · exact h3 u hu

theorem Reg.mono {s s' : Sh} {e : Elem} (h : Reg s e) (hc : ∀ y ∈ s.closed, y ∈ s'.closed)
    (hr : ∀ i, e.id = some i → e.serial ∉ s'.closed → regGet s'.reg i = regGet s.reg i) : Reg s' e := by
  intro i hi hn
  rw [hr i hi hn]
  exact h i hi (fun hcl => hn (hc _ hcl))

/-- `Inv2` reads only these fields of the shared state. -/
theorem inv2_fields {s s' : Sh} {ts : List Th} (h : Inv2 s ts) (hh : s'.heap = s.heap) (hcl : s'.closed = s.closed)
    (hr : s'.reg = s.reg) (hlk : s'.regLocked = s.regLocked) (hsd : s'.isShutdown = s.isShutdown)
    (hcx : s'.ctxDone = s.ctxDone) (hm : s'.maxSize = s.maxSize) : Inv2 s' ts := by
  have hreg : ∀ e, Reg s e → Reg s' e := fun e he =>
    he.mono (by rw [hcl]; exact fun _ hy => hy) (by intro i _ _; rw [hr])
  constructor
  · intro e he; rw [hh] at he; exact hreg e (h.e1 e he)
  · intro t ht e hte; exact hreg e (h.e2 t ht e hte)
  · intro t ht i hp; rw [hr]; exact h.lk t ht i hp
  · rw [hlk]; exact h.lkc
  · intro i x hx hnc
    rw [hr] at hx; rw [hcl] at hnc
    have := h.f i x hx hnc
    simpa [lv, hh] using this
  · intro hc; rw [hcx] at hc; rw [hsd]; exact h.sdinv hc
  · intro t ht hp; rw [hsd]; exact h.sdpc t ht hp

/-- A thread changes its local state; the shared state stays. -/
theorem inv2_move {s : Sh} {l r : List Th} {t t' : Th} (h : Inv2 s (l ++ t :: r))
    (hheld : ∀ e, t'.held = some e → t.held = some e) (hpend : t'.pend = t.pend)
    (hsd : t'.sdPend = true → t.sdPend = true ∨ s.isShutdown = true)
    (hlv : ∀ i x, regGet s.reg i = some x → x ∉ s.closed →
      pre x t + wr x t ≤ pre x t' + wr x t') : Inv2 s (l ++ t' :: r) := by
  constructor
  · exact h.e1
  · rw [forall_mid]
    have := forall_mid.mp h.e2
    exact ⟨this.1, fun e he => this.2.1 e (hheld e he), this.2.2⟩
  · rw [forall_mid]
    have := forall_mid.mp h.lk
    exact ⟨this.1, fun i hi => this.2.1 i (hpend ▸ hi), this.2.2⟩
  · have := h.lkc
    simp only [tsum_mid, execPc, hpend] at *
    exact this
  · intro i x hx hnc
    have h2 := h.f i x hx hnc
    have h3 := hlv i x hx hnc
    rw [lv_mid] at *
    omega
  · exact h.sdinv
  · rw [forall_mid]
    have := forall_mid.mp h.sdpc
    exact ⟨this.1, fun hp => (hsd hp).elim this.2.1 id, this.2.2⟩

theorem held_none_zero {t : Th} (h : t.held = none) (x : Nat) : pre x t = 0 ∧ wr x t = 0 := by
  cases t <;> simp_all [Th.held, pre, wr]

theorem held_count {u : Th} {e : Elem} (h : u.held = some e) : pre e.serial u + wr e.serial u = 1 := by
  cases u <;> simp only [Th.held, Option.some.injEq, reduceCtorEq] at h <;> subst h <;> simp [pre, wr]

theorem no_pend_of_unlocked {s : Sh} {ts : List Th} (h : Inv2 s ts) (hl : s.regLocked = false) :
    ∀ u ∈ ts, u.pend = none := by
  intro u hu
  have h1 := h.lkc
  rw [hl] at h1
  simp only [Bool.false_eq_true, if_false] at h1
  have h2 := tsum_ge (f := execPc) hu
  cases hp : u.pend with
  | none => rfl
  | some i => simp only [execPc, hp, Option.isSome_some, if_true] at h2; omega

/-- Any live element with serial `x` other than the one thread `t` holds contradicts uniqueness. -/
theorem unique_live {s : Sh} {l r : List Th} {t : Th} {e : Elem} (hI : Inv s (l ++ t :: r))
    (ht : t.held = some e) :
    (∀ a ∈ s.heap, a.serial ≠ e.serial) ∧ (∀ u ∈ l, ∀ a, u.held = some a → a.serial ≠ e.serial) ∧
    (∀ u ∈ r, ∀ a, u.held = some a → a.serial ≠ e.serial) := by
  have h1 := lv_le_one hI e.serial
  rw [lv_mid] at h1
  have h2 := held_count ht
  refine ⟨?_, ?_, ?_⟩
  · intro a ha hx
    have := hc_ge_mem ha hx
    omega
  · intro u hu a hua hx
    have h3 := held_count hua
    rw [hx] at h3
    have h4 := tsum_ge (f := pre e.serial) hu
    have h5 := tsum_ge (f := wr e.serial) hu
    omega
  · intro u hu a hua hx
    have h3 := held_count hua
    rw [hx] at h3
    have h4 := tsum_ge (f := pre e.serial) hu
    have h5 := tsum_ge (f := wr e.serial) hu
    omega

/-- `Poll` pops the root. -/
theorem inv2_pop {s s' : Sh} {l r : List Th} {e : Elem} {h' : List Elem} {t' : Th}
    (h : Inv2 s (l ++ .idle :: r)) (hpop : Heap.pop s.heap = some (e, h')) (ht' : t' = .hk e ∨ t' = .sel e)
    (hh : s'.heap = h') (hcl : s'.closed = s.closed) (hr : s'.reg = s.reg) (hlk : s'.regLocked = s.regLocked)
    (hsd : s'.isShutdown = s.isShutdown) (hcx : s'.ctxDone = s.ctxDone) (hm : s'.maxSize = s.maxSize) :
    Inv2 s' (l ++ t' :: r) := by
  have hperm := Heap.pop_perm hpop
  have hsub : HSub h' s.heap := HSub.of_perm_cons hperm
  have hmem : e ∈ s.heap := hperm.mem_iff.mpr (by simp)
  have hreg : ∀ a, Reg s a → Reg s' a := fun a ha =>
    ha.mono (by rw [hcl]; exact fun _ hy => hy) (by intro i _ _; rw [hr])
  have hheld : t'.held = some e := by rcases ht' with rfl | rfl <;> rfl
  have hpend : t'.pend = none := by rcases ht' with rfl | rfl <;> rfl
  have hsdp : t'.sdPend = false := by rcases ht' with rfl | rfl <;> rfl
  have hpre : ∀ x, pre x t' + wr x t' = if e.serial = x then 1 else 0 := by
    intro x; rcases ht' with rfl | rfl <;> simp [pre, wr]
  constructor
  · intro a ha; rw [hh] at ha; exact hreg a (h.e1 a (hsub.mem ha))
  · rw [forall_mid]
    have := forall_mid.mp h.e2
    refine ⟨fun u hu a hua => hreg a (this.1 u hu a hua), ?_, fun u hu a hua => hreg a (this.2.2 u hu a hua)⟩
    intro a ha; rw [hheld] at ha; cases ha; exact hreg e (h.e1 e hmem)
  · rw [forall_mid]
    have := forall_mid.mp h.lk
    refine ⟨fun u hu i hi => by rw [hr]; exact this.1 u hu i hi, ?_, fun u hu i hi => by rw [hr]; exact this.2.2 u hu i hi⟩
    intro i hi; rw [hpend] at hi; cases hi
  · have := h.lkc
    rw [hlk]
    have e0 : execPc Th.idle = 0 := rfl
    have e1 : execPc t' = 0 := by simp [execPc, hpend]
    simp only [tsum_mid, e0, e1] at *
    exact this
  · intro i x hx hnc
    rw [hr] at hx; rw [hcl] at hnc
    have h2 := h.f i x hx hnc
    rw [lv_mid] at *
    rw [hc_perm hperm, hc_cons] at h2
    have h3 := hpre x
    have h4 : pre x Th.idle + wr x Th.idle = 0 := rfl
    rw [hh]
    omega
  · intro hc; rw [hcx] at hc; rw [hsd]; exact h.sdinv hc
  · rw [forall_mid]
    have := forall_mid.mp h.sdpc
    refine ⟨fun u hu hp => by rw [hsd]; exact this.1 u hu hp, ?_, fun u hu hp => by rw [hsd]; exact this.2.2 u hu hp⟩
    intro hp; rw [hsdp] at hp; cases hp

/-- The wrapper finds its own registration, drops it and starts the callback. -/
theorem inv2_run {s s' : Sh} {l r : List Th} {e : Elem} {i : Nat} (hI : Inv s (l ++ .wrap e :: r))
    (h : Inv2 s (l ++ .wrap e :: r)) (hid : e.id = some i) (hul : s.regLocked = false)
    (hg : regGet s.reg i = some e.serial)
    (hh : s'.heap = s.heap) (hcl : s'.closed = s.closed) (hr : s'.reg = regDel s.reg i)
    (hlk : s'.regLocked = s.regLocked) (hsd : s'.isShutdown = s.isShutdown) (hcx : s'.ctxDone = s.ctxDone)
    (hm : s'.maxSize = s.maxSize) : Inv2 s' (l ++ .cb e 0 :: r) := by
  obtain ⟨u1, u2, u3⟩ := unique_live hI (t := .wrap e) rfl
  have hnp := no_pend_of_unlocked h hul
  -- any other live element keeps its registration: it cannot have identifier `i`
  have hreg : ∀ a, a.serial ≠ e.serial → Reg s a → Reg s' a := by
    intro a hne ha j hj hnc
    rw [hcl] at hnc
    have h1 := ha j hj hnc
    rw [hr]
    by_cases hji : j = i
    · subst hji
      rw [hg] at h1
      exact absurd (Option.some.inj h1).symm hne
    · rw [regGet_regDel_ne _ hji]; exact h1
  constructor
  · intro a ha; rw [hh] at ha; exact hreg a (u1 a ha) (h.e1 a ha)
  · rw [forall_mid]
    have := forall_mid.mp h.e2
    refine ⟨fun u hu a hua => hreg a (u2 u hu a hua) (this.1 u hu a hua), ?_,
      fun u hu a hua => hreg a (u3 u hu a hua) (this.2.2 u hu a hua)⟩
    intro a ha; cases ha
  · intro u hu j hj
    simp only [List.mem_append, List.mem_cons] at hu
    rcases hu with hu | rfl | hu
    · have := hnp u (by simp [hu]); rw [this] at hj; cases hj
    · cases hj
    · have := hnp u (by simp [hu]); rw [this] at hj; cases hj
  · have := h.lkc
    rw [hlk]
    simp only [tsum_mid, execPc, Th.pend] at *
    exact this
  · intro j x hx hnc
    rw [hr] at hx; rw [hcl] at hnc
    obtain ⟨hji, hx'⟩ := regGet_regDel_some hx
    have hxe : e.serial ≠ x := by
      rintro rfl; exact hji (hI.r_inj j i _ hx' hg)
    have h2 := h.f j x hx' hnc
    rw [lv_mid] at *
    rw [hh]
    simp only [pre, wr, hxe, if_false] at *
    omega
  · intro hc; rw [hcx] at hc; rw [hsd]; exact h.sdinv hc
  · rw [forall_mid]
    have := forall_mid.mp h.sdpc
    refine ⟨fun u hu hp => by rw [hsd]; exact this.1 u hu hp, ?_, fun u hu hp => by rw [hsd]; exact this.2.2 u hu hp⟩
    intro hp; cases hp

theorem cancelElem_hc_ne (s : Sh) {x y : Nat} (h : y ≠ x) : hc y (cancelElem s x).heap = hc y s.heap := by
  rcases cancelElem_heap s x with ⟨he, _⟩ | ⟨e, hx, hp⟩
  · rw [he]
  · rw [hc_perm hp, hc_cons]
    have : ¬ e.serial = y := by rw [hx]; exact fun h' => h h'.symm
    simp [this]

theorem cancelElem_hsub (s : Sh) (x : Nat) : HSub (cancelElem s x).heap s.heap := by
  rcases cancelElem_heap s x with ⟨he, _⟩ | ⟨e, _, hp⟩
  · rw [he]; exact HSub.refl _
  · exact HSub.of_perm_cons hp

/-- `QueueElement.Cancel()` of `x`, optionally together with dropping the registration `i ↦ x`. -/
theorem inv2_cancel {s s' : Sh} {ts : List Th} (hI : Inv s ts) (h : Inv2 s ts) (x : Nat) (drop : Option Nat)
    (hdrop : ∀ i, drop = some i → regGet s.reg i = some x)
    (hh : s'.heap = (cancelElem s x).heap) (hcl : ∀ y, y ∈ s'.closed ↔ y = x ∨ y ∈ s.closed)
    (hr : s'.reg = match drop with | some i => regDel s.reg i | none => s.reg)
    (hlk : s'.regLocked = s.regLocked) (hsd : s'.isShutdown = s.isShutdown) (hcx : s'.ctxDone = s.ctxDone)
    (hm : s'.maxSize = s.maxSize) : Inv2 s' ts := by
  have hsub := cancelElem_hsub s x
  -- registrations other than a dropped one are unchanged
  have hreg' : ∀ j y, regGet s'.reg j = some y → regGet s.reg j = some y ∧ (y ∉ s'.closed → y ≠ x) := by
    intro j y hy
    rw [hr] at hy
    cases drop with
    | none => exact ⟨hy, fun hn hyx => hn ((hcl y).mpr (Or.inl hyx))⟩
    | some i => exact ⟨(regGet_regDel_some hy).2, fun hn hyx => hn ((hcl y).mpr (Or.inl hyx))⟩
  have hreg : ∀ a, Reg s a → Reg s' a := by
    intro a ha j hj hnc
    have hnx : a.serial ≠ x := fun hx => hnc ((hcl _).mpr (Or.inl hx))
    have hnc' : a.serial ∉ s.closed := fun hc => hnc ((hcl _).mpr (Or.inr hc))
    have h1 := ha j hj hnc'
    rw [hr]
    cases drop with
    | none => exact h1
    | some i =>
      by_cases hji : j = i
      · subst hji
        rw [hdrop j rfl] at h1
        exact absurd (Option.some.inj h1).symm hnx
      · simp only; rw [regGet_regDel_ne _ hji]; exact h1
  constructor
  · intro a ha; rw [hh] at ha; exact hreg a (h.e1 a (hsub.mem ha))
  · intro t ht a hta; exact hreg a (h.e2 t ht a hta)
  · intro t ht k hk
    have h1 := h.lk t ht k hk
    rw [hr]
    cases drop with
    | none => exact h1
    | some i =>
      by_cases hki : k = i
      · subst hki; simp
      · simp only; rw [regGet_regDel_ne _ hki]; exact h1
  · rw [hlk]; exact h.lkc
  · intro j y hy hnc
    obtain ⟨hy', hne⟩ := hreg' j y hy
    have hnc' : y ∉ s.closed := fun hc => hnc ((hcl _).mpr (Or.inr hc))
    have h2 := h.f j y hy' hnc'
    unfold lv at *
    rw [hh, cancelElem_hc_ne s (hne hnc)]
    exact h2
  · intro hc; rw [hcx] at hc; rw [hsd]; exact h.sdinv hc
  · intro t ht hp; rw [hsd]; exact h.sdpc t ht hp

/-- First half of `ExecuteAt(id)` done: the mutex is now held by this goroutine. -/
theorem inv2_lockmove {s s' : Sh} {l r : List Th} {t t' : Th} {i : Nat} (h : Inv2 s (l ++ t :: r))
    (hul : s.regLocked = false) (hg : regGet s.reg i = none) (ht : t.held = none) (ht' : t'.held = none)
    (hp' : t'.pend = some i) (hs : t'.sdPend = false) (hz : ∀ x, pre x t + wr x t = pre x t' + wr x t')
    (hh : s'.heap = s.heap) (hcl : s'.closed = s.closed) (hr : s'.reg = s.reg) (hlk : s'.regLocked = true)
    (hsd : s'.isShutdown = s.isShutdown) (hcx : s'.ctxDone = s.ctxDone) (hm : s'.maxSize = s.maxSize) :
    Inv2 s' (l ++ t' :: r) := by
  have hnp := no_pend_of_unlocked h hul
  have hreg : ∀ a, Reg s a → Reg s' a := fun a ha =>
    ha.mono (by rw [hcl]; exact fun _ hy => hy) (by intro i _ _; rw [hr])
  constructor
  · intro a ha; rw [hh] at ha; exact hreg a (h.e1 a ha)
  · rw [forall_mid]
    have := forall_mid.mp h.e2
    refine ⟨fun u hu a hua => hreg a (this.1 u hu a hua), ?_, fun u hu a hua => hreg a (this.2.2 u hu a hua)⟩
    intro a ha; rw [ht'] at ha; cases ha
  · rw [forall_mid]
    refine ⟨fun u hu k hk => ?_, ?_, fun u hu k hk => ?_⟩
    · have := hnp u (by simp [hu]); rw [this] at hk; cases hk
    · intro k hk; rw [hp'] at hk; cases hk; rw [hr]; exact hg
    · have := hnp u (by simp [hu]); rw [this] at hk; cases hk
  · have h1 := h.lkc
    rw [hul] at h1; rw [hlk]
    have e0 : execPc t = 0 := by simp [execPc, hnp t (by simp)]
    have e1 : execPc t' = 1 := by simp [execPc, hp']
    simp only [tsum_mid, e0, e1, Bool.false_eq_true, if_false, if_true] at *
    omega
  · intro j y hy hnc
    rw [hr] at hy; rw [hcl] at hnc
    have h2 := h.f j y hy hnc
    rw [lv_mid] at *
    rw [hh]; have := hz y; omega
  · intro hc; rw [hcx] at hc; rw [hsd]; exact h.sdinv hc
  · rw [forall_mid]
    have := forall_mid.mp h.sdpc
    refine ⟨fun u hu hp => by rw [hsd]; exact this.1 u hu hp, ?_, fun u hu hp => by rw [hsd]; exact this.2.2 u hu hp⟩
    intro hp; rw [hs] at hp; cases hp

/-- Second half of `ExecuteAt(id)`: the goroutine gives the mutex back. -/
theorem inv2_unlockmove {s s' : Sh} {l r : List Th} {t t' : Th} {i : Nat} (h : Inv2 s (l ++ t :: r))
    (hp : t.pend = some i) (ht : t.held = none) (ht' : t'.held = none)
    (hp' : t'.pend = none) (hs : t'.sdPend = false) (hz : ∀ x, pre x t + wr x t = pre x t' + wr x t')
    (hh : s'.heap = s.heap) (hcl : s'.closed = s.closed) (hr : s'.reg = s.reg) (hlk : s'.regLocked = false)
    (hsd : s'.isShutdown = s.isShutdown) (hcx : s'.ctxDone = s.ctxDone) (hm : s'.maxSize = s.maxSize) :
    Inv2 s' (l ++ t' :: r) ∧ regGet s'.reg i = none := by
  have hreg : ∀ a, Reg s a → Reg s' a := fun a ha =>
    ha.mono (by rw [hcl]; exact fun _ hy => hy) (by intro i _ _; rw [hr])
  have e1 : execPc t = 1 := by simp [execPc, hp]
  have e1' : execPc t' = 0 := by simp [execPc, hp']
  have hlk1 := h.lkc
  simp only [tsum_mid, e1] at hlk1
  have hlocked : s.regLocked = true := by
    cases hl : s.regLocked with
    | true => rfl
    | false => rw [hl] at hlk1; simp at hlk1
  rw [hlocked] at hlk1
  simp only [if_true] at hlk1
  have hl0 : tsum execPc l = 0 := by omega
  have hr0 : tsum execPc r = 0 := by omega
  have hnone : ∀ u, (u ∈ l ∨ u ∈ r) → u.pend = none := by
    intro u hu
    cases hpu : u.pend with
    | none => rfl
    | some k =>
      have : execPc u = 1 := by simp [execPc, hpu]
      rcases hu with hu | hu
      · have := tsum_ge (f := execPc) hu; omega
      · have := tsum_ge (f := execPc) hu; omega
  refine ⟨?_, by rw [hr]; exact h.lk t (by simp) i hp⟩
  constructor
  · intro a ha; rw [hh] at ha; exact hreg a (h.e1 a ha)
  · rw [forall_mid]
    have := forall_mid.mp h.e2
    refine ⟨fun u hu a hua => hreg a (this.1 u hu a hua), ?_, fun u hu a hua => hreg a (this.2.2 u hu a hua)⟩
    intro a ha; rw [ht'] at ha; cases ha
  · rw [forall_mid]
    refine ⟨fun u hu k hk => ?_, ?_, fun u hu k hk => ?_⟩
    · have := hnone u (Or.inl hu); rw [this] at hk; cases hk
    · intro k hk; rw [hp'] at hk; cases hk
    · have := hnone u (Or.inr hu); rw [this] at hk; cases hk
  · rw [hlk]
    simp only [tsum_mid, e1', Bool.false_eq_true, if_false]
    omega
  · intro j y hy hnc
    rw [hr] at hy; rw [hcl] at hnc
    have h2 := h.f j y hy hnc
    rw [lv_mid] at *
    rw [hh]; have := hz y; omega
  · intro hc; rw [hcx] at hc; rw [hsd]; exact h.sdinv hc
  · rw [forall_mid]
    have := forall_mid.mp h.sdpc
    refine ⟨fun u hu hp => by rw [hsd]; exact this.1 u hu hp, ?_, fun u hu hp => by rw [hsd]; exact this.2.2 u hu hp⟩
    intro hp; rw [hs] at hp; cases hp

/-- `Queue.Add` (no goroutine is inside `ExecuteAt`), with the registration of the accepted element. -/
theorem inv2_add {s s' : Sh} {ts : List Th} (hI : Inv s ts) (h : Inv2 s ts) (due : Nat) (id : Option Nat)
    (kind : Kind) (tag : Nat) (hul : ∀ i, id = some i → s.regLocked = false)
    (hnone : ∀ i, id = some i → regGet s.reg i = none)
    (hh : s'.heap = (add s due id kind tag).1.heap) (hcl : s'.closed = (add s due id kind tag).1.closed)
    (hr : s'.reg = match (add s due id kind tag).2 with
                   | .ok x => regAfter s.reg id x
                   | _ => s.reg)
    (hlk : s'.regLocked = s.regLocked) (hsd : s'.isShutdown = s.isShutdown) (hcx : s'.ctxDone = s.ctxDone)
    (hm : s'.maxSize = s.maxSize) : Inv2 s' ts := by
  rcases add_cases s due id kind tag with ⟨_, h1, hno⟩ | ⟨hns, hok, h2, new, cl, h1, hcase⟩
  · rw [h1] at hh hcl
    have hr' : s'.reg = s.reg := by
      rw [hr]; cases hres : (add s due id kind tag).2 with
      | ok x => exact absurd hres (hno x)
      | nil => rfl
      | panic => rfl
    exact inv2_fields h hh hcl hr' hlk hsd hcx hm
  · rw [h1] at hh hcl
    rw [hok] at hr
    simp only [signal_heap, signal_closed] at hh hcl
    have hclsub : ∀ y ∈ s.closed, y ∈ s'.closed := by
      intro y hy; rw [hcl]
      rcases hcase with ⟨_, rfl, _⟩ | ⟨d, _, rfl, _, _⟩
      · exact hy
      · exact List.mem_cons_of_mem _ hy
    -- the heap afterwards: inside `e :: heap`; an element that is missing has its channel closed
    have hsub : HSub s'.heap (newElem s due id kind tag :: s.heap) := by
      rw [hh]
      rcases hcase with ⟨_, _, hp⟩ | ⟨d, _, _, hp, _⟩
      · intro p; rw [hp.countP_eq]; exact Nat.le_refl _
      · exact HSub.of_perm_cons hp
    have hfull : ∀ y, y ∉ s'.closed → hc y s'.heap = hc y (newElem s due id kind tag :: s.heap) := by
      intro y hy
      rw [hh]
      rcases hcase with ⟨_, _, hp⟩ | ⟨d, _, rfl, hp, _⟩
      · exact hc_perm hp
      · rw [hc_perm hp, hc_cons]
        have : ¬ d.serial = y := by
          rintro rfl; exact hy (by rw [hcl]; exact List.mem_cons_self)
        simp [this]
    have hregget : ∀ j y, regGet s'.reg j = some y → (id = some j ∧ y = s.next) ∨ regGet s.reg j = some y := by
      intro j y hy
      rw [hr] at hy
      unfold regAfter at hy
      cases id with
      | none => exact Or.inr hy
      | some i =>
        by_cases hji : j = i
        · subst hji; simp only [regGet_regSet_self, Option.some.injEq] at hy; exact Or.inl ⟨rfl, hy.symm⟩
        · simp only [regGet_regSet_ne _ _ hji] at hy; exact Or.inr hy
    have hregold : ∀ a, Reg s a → Reg s' a := by
      intro a ha j hj hnc
      have hnc' : a.serial ∉ s.closed := fun hc => hnc (hclsub _ hc)
      have h3 := ha j hj hnc'
      rw [hr]
      unfold regAfter
      cases id with
      | none => exact h3
      | some i =>
        by_cases hji : j = i
        · subst hji; rw [hnone j rfl] at h3; cases h3
        · simp only; rw [regGet_regSet_ne _ _ hji]; exact h3
    have hregnew : Reg s' (newElem s due id kind tag) := by
      intro j hj _
      rw [hr]
      simp only [newElem] at hj
      subst hj
      simp [regAfter, newElem]
    constructor
    · intro a ha
      rcases List.mem_cons.mp (hsub.mem ha) with rfl | ha'
      · exact hregnew
      · exact hregold a (h.e1 a ha')
    · intro t ht a hta; exact hregold a (h.e2 t ht a hta)
    · intro t ht k hk
      cases hid : id with
      | none =>
        have : s'.reg = s.reg := by rw [hr, hid]; rfl
        rw [this]; exact h.lk t ht k hk
      | some i =>
        have := no_pend_of_unlocked h (hul i hid) t ht
        rw [this] at hk; cases hk
    · rw [hlk]; exact h.lkc
    · intro j y hy hnc
      unfold lv
      rw [hfull y hnc, hc_cons]
      rcases hregget j y hy with ⟨_, rfl⟩ | hy'
      · simp [newElem]; omega
      · have := h.f j y hy' (fun hc => hnc (hclsub _ hc))
        unfold lv at this
        omega
    · intro hc; rw [hcx] at hc; rw [hsd]; exact h.sdinv hc
    · intro t ht hp; rw [hsd]; exact h.sdpc t ht hp

/-- Effects that happen only once the queue is (being) shut down: elements may leave the heap, with their
cancel channels closed. -/
theorem inv2_shut {s s' : Sh} {ts : List Th} (h : Inv2 s ts) (hh : HSub s'.heap s.heap)
    (hcl : ∀ y ∈ s.closed, y ∈ s'.closed) (hdrop : ∀ y, y ∉ s'.closed → hc y s'.heap = hc y s.heap)
    (hr : s'.reg = s.reg) (hlk : s'.regLocked = s.regLocked) (hsd : s'.isShutdown = true)
    (hm : s'.maxSize = s.maxSize) : Inv2 s' ts := by
  have hreg : ∀ a, Reg s a → Reg s' a := fun a ha =>
    ha.mono hcl (by intro i _ _; rw [hr])
  constructor
  · intro a ha; exact hreg a (h.e1 a (hh.mem ha))
  · intro t ht a hta; exact hreg a (h.e2 t ht a hta)
  · intro t ht i hp; rw [hr]; exact h.lk t ht i hp
  · rw [hlk]; exact h.lkc
  · intro i x hx hnc
    rw [hr] at hx
    have := h.f i x hx (fun hc => hnc (hcl _ hc))
    unfold lv at *
    rw [hdrop x hnc]; exact this
  · intro _; exact hsd
  · intro _ _ _; exact hsd

/-- `add` does not look at the mutex of the identifier map. -/
theorem add_unlock (s : Sh) (b : Bool) (due : Nat) (id : Option Nat) (kind : Kind) (tag : Nat) :
    (add { s with regLocked := b } due id kind tag).1.heap = (add s due id kind tag).1.heap ∧
    (add { s with regLocked := b } due id kind tag).1.closed = (add s due id kind tag).1.closed ∧
    (add { s with regLocked := b } due id kind tag).2 = (add s due id kind tag).2 := by
  unfold add
  simp only
  split
  · exact ⟨rfl, rfl, rfl⟩
  · split
    · split <;> simp [signal_heap, signal_closed]
    · simp [signal_heap, signal_closed]

theorem add_fields (s : Sh) (due : Nat) (id : Option Nat) (kind : Kind) (tag : Nat) :
    (add s due id kind tag).1.isShutdown = s.isShutdown ∧
    (add s due id kind tag).1.ctxDone = s.ctxDone ∧ (add s due id kind tag).1.maxSize = s.maxSize ∧
    (add s due id kind tag).1.regLocked = s.regLocked := by
  rcases add_cases s due id kind tag with ⟨_, h1, _⟩ | ⟨_, _, h2, new, cl, h1, _⟩
  · rw [h1]; exact ⟨rfl, rfl, rfl, rfl⟩
  · rw [h1]; simp

end Hive.Timed
