import Hive.Model.DerivedSortedWin
/-! # The addSorted window: witness for the old code, locking invariant for the repaired code -/
namespace Hive.Derived.Win
open Hive.Conc

/-- Old code: all three calls return and the slice is `[3, 1, 2]` with weights 9, 1, 5 — not sorted. -/
theorem win_old_witness :
    let c := runSched (winSys false) (winInit, winThreads) winSched
    c.2 = [.fin, .fin, .fin] ∧ c.1.d.slice = [3, 1, 2] ∧ c.1.d.w 3 = 9 ∧ c.1.d.w 1 = 1 ∧ c.1.d.w 2 = 5 ∧
      c.1.d.sorted = false ∧ c.1.mutex = false ∧ c.1.exec = false := by
  decide

theorem win_old_reachable :
    Reach (winSys false) (winInit, winThreads) (runSched (winSys false) (winInit, winThreads) winSched) :=
  runSched_reach _ _ _

/-- Repaired code: the same prefix leaves the weight writer blocked at the mutex while the adder is parked. -/
theorem win_fixed_blocks :
    let c := runSched (winSys true) (winInit, winThreads) (winSched.take 3)
    c.2 = [.addHook 3, .cbLock 3 9, .other 1 1] ∧ wStep true c.1 (.cbLock 3 9) = [] := by
  decide

theorem win_fixed_example :
    let c := runSched (winSys true) (winInit, winThreads) winSchedFixed
    c.2 = [.fin, .fin, .fin] ∧ c.1.d.slice = [3, 2, 1] ∧ c.1.d.sorted = true := by
  decide

/-! ## repaired code: the callback's update section always holds the mutex -/

/-- the thread is inside the weight callback (holds the execution lock) -/
def inCb : WT → Bool
  | .cbLock .. | .cbWeight .. | .cbLeft .. | .cbLeftDec .. | .cbRight .. | .cbRightDec .. | .cbEnd .. => true
  | _ => false

/-- the thread is inside the part of the callback that touches the slice, and says it holds the mutex -/
def updLocked : WT → Option Bool
  | .cbWeight _ _ l => some l
  | .cbLeft _ l _ => some l
  | .cbLeftDec _ _ _ l _ => some l
  | .cbRight _ l => some l
  | .cbRightDec _ _ _ l => some l
  | .cbEnd _ l => some l
  | _ => none

/-- the thread holds `sortedSet.mutex` -/
def holdsMutex : WT → Bool
  | .addLocked _ | .addHook _ | .addUnlock _ => true
  | .cbWeight _ _ l => l
  | .cbLeft _ l _ => l
  | .cbLeftDec _ _ _ l _ => l
  | .cbRight _ l => l
  | .cbRightDec _ _ _ l => l
  | .cbEnd _ l => l
  | _ => false

structure WInv (c : Cfg SW WT) : Prop where
  reg : c.1.registered = true → c.1.initialDone = true
  cb : ∀ t ∈ c.2, inCb t = true → c.1.registered = true
  locked : ∀ t ∈ c.2, ∀ l, updLocked t = some l → l = true
  excl : c.2.countP holdsMutex = if c.1.mutex then 1 else 0

theorem wInv_step (a b : Cfg SW WT) (h : WInv a) (hs : Step (winSys true) a b) : WInv b := by
  cases hs with
  | mk s pre t post s' t' hmem =>
    have hex := h.excl
    rw [countP_mid] at hex
    have hcb : ∀ u, u ∈ pre ∨ u ∈ post → inCb u = true → s.registered = true := fun u hu =>
      h.cb u (by rcases hu with hu | hu <;> simp [hu])
    have hlk : ∀ u, u ∈ pre ∨ u ∈ post → ∀ l, updLocked u = some l → l = true := fun u hu =>
      h.locked u (by rcases hu with hu | hu <;> simp [hu])
    have hcbt := h.cb t (by simp)
    have hlkt := h.locked t (by simp)
    have hreg := h.reg
    have fin : ∀ (hr' : s'.registered = true → s'.initialDone = true) (hrm : s.registered = true → s'.registered = true)
        (hc : inCb t' = true → s'.registered = true) (hl : ∀ l, updLocked t' = some l → l = true)
        (he : (pre.countP holdsMutex + (if holdsMutex t' then 1 else 0) + post.countP holdsMutex) = if s'.mutex then 1 else 0),
        WInv (s', pre ++ t' :: post) := by
      intro hr' hrm hc hl he
      refine ⟨hr', ?_, ?_, by rw [countP_mid]; exact he⟩
      · intro u hu hin
        simp only [List.mem_append, List.mem_cons] at hu
        rcases hu with hu | rfl | hu
        · exact hrm (hcb u (Or.inl hu) hin)
        · exact hc hin
        · exact hrm (hcb u (Or.inr hu) hin)
      · intro u hu l hl'
        simp only [List.mem_append, List.mem_cons] at hu
        rcases hu with hu | rfl | hu
        · exact hlk u (Or.inl hu) l hl'
        · exact hl l hl'
        · exact hlk u (Or.inr hu) l hl'
    clear hcb hlk h
    cases t <;> simp only [winSys, wStep, if_true] at hmem
    all_goals (try (split at hmem)) <;> (try (split at hmem)) <;> (try (split at hmem)) <;>
      (try simp only [List.mem_singleton, List.mem_nil_iff, Prod.mk.injEq] at hmem) <;>
      (try (obtain ⟨rfl, rfl⟩ := hmem)) <;> (try contradiction)
    all_goals
      try subst_vars
    all_goals
      try simp only [inCb, updLocked, holdsMutex, Bool.false_eq_true, if_false, if_true, forall_const,
        Option.some.injEq, reduceCtorEq, false_implies, implies_true, beq_self_eq_true] at hex hcbt hlkt
      apply fin <;>
        (try simp only [inCb, updLocked, holdsMutex, Bool.false_eq_true, if_false, if_true, forall_const,
          Option.some.injEq, reduceCtorEq, false_implies, implies_true]) <;>
        (try (first | assumption | omega | (intro h1; exact hreg h1) | (clear fin; intros; simp_all; done) |
          (clear fin; (try simp at hex); (try (split at hex)) <;> first | omega | contradiction | (simp_all; done)) |
          (clear fin; (try simp at hex); (try simp at hreg); (try simp_all); (try omega); done)))

def WT.isStart : WT → Bool
  | .addStart _ | .setStart .. | .other .. | .fin => true
  | _ => false

theorem wInv_init (s : SW) (ts : List WT) (hm : s.mutex = false) (hr : s.registered = false)
    (hs : ∀ t ∈ ts, t.isStart = true) : WInv (s, ts) := by
  refine ⟨by simp [hr], ?_, ?_, ?_⟩
  · intro t ht hin
    have := hs t ht
    cases t <;> simp_all [WT.isStart, inCb]
  · intro t ht l hl
    have := hs t ht
    cases t <;> simp_all [WT.isStart, updLocked]
  · simp only [hm, Bool.false_eq_true, if_false, List.countP_eq_zero]
    intro t ht
    have := hs t ht
    cases t <;> simp_all [WT.isStart, holdsMutex]

/-- Repaired code, every pool of adders / weight writers / locked updates, every schedule: a goroutine
in the part of the weight callback that touches the slice holds `sortedSet.mutex`, and at most one
goroutine is inside a mutex section. -/
theorem win_fixed_locked (s : SW) (ts : List WT) (hm : s.mutex = false) (hr : s.registered = false)
    (hs : ∀ t ∈ ts, t.isStart = true) (c : Cfg SW WT) (hreach : Reach (winSys true) (s, ts) c) :
    (∀ t ∈ c.2, ∀ l, updLocked t = some l → l = true) ∧ c.2.countP holdsMutex ≤ 1 := by
  have h := inv_induction WInv (wInv_init s ts hm hr hs) wInv_step hreach
  refine ⟨h.locked, ?_⟩
  rw [h.excl]
  split <;> omega

end Hive.Derived.Win
