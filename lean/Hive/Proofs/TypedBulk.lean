import Hive.Model.TypedStore
/-! What a bulk deletion of the underlying store that fails part-way leaves behind (C06: `DeletePrefix`, `Clear`). -/
namespace Hive.Typed

theorem dropFirst_sublist (p : Bytes × Bytes → Bool) : ∀ (n : Nat) (m : Store), (Store.dropFirst p n m).Sublist m
  | 0, m => by cases m <;> simp [Store.dropFirst]
  | n + 1, [] => by simp [Store.dropFirst]
  | n + 1, e :: rest => by
    simp only [Store.dropFirst]
    split
    · exact (dropFirst_sublist p n rest).cons e
    · exact (dropFirst_sublist p (n + 1) rest).cons₂ e

/-- Entries outside the selection are untouched (same entries, same order). -/
theorem dropFirst_outside (p : Bytes × Bytes → Bool) : ∀ (n : Nat) (m : Store),
    (Store.dropFirst p n m).filter (fun e => !p e) = m.filter (fun e => !p e)
  | 0, m => by cases m <;> simp [Store.dropFirst]
  | n + 1, [] => by simp [Store.dropFirst]
  | n + 1, e :: rest => by
    simp only [Store.dropFirst]
    by_cases h : p e = true
    · simp [h, dropFirst_outside p n rest]
    · simp [h, dropFirst_outside p (n + 1) rest]

/-- Exactly `n` selected entries are gone (when there were at least `n`). -/
theorem dropFirst_count (p : Bytes × Bytes → Bool) : ∀ (n : Nat) (m : Store), n ≤ (m.filter p).length →
    ((Store.dropFirst p n m).filter p).length = (m.filter p).length - n
  | 0, m, _ => by cases m <;> simp [Store.dropFirst]
  | n + 1, [], h => by simp at h
  | n + 1, e :: rest, h => by
    simp only [Store.dropFirst]
    by_cases hp : p e = true
    · simp only [hp, if_true, List.filter_cons_of_pos hp, List.length_cons] at h ⊢
      rw [dropFirst_count p n rest (by omega)]; omega
    · have hp' : p e = false := by simpa using hp
      simp only [hp', Bool.false_eq_true, if_false, List.filter_cons, List.length_cons] at h ⊢
      exact dropFirst_count p (n + 1) rest h

/-- Everything about `bulkDelete` at once. -/
theorem bulkDelete_facts (m : Store) (p : Bytes × Bytes → Bool) (full : Store) (F : SFaults)
    (hfull : full = m.filter (fun e => !p e)) :
    let r := bulkDelete m p full F
    (r.2 = none → r.1 = full) ∧
    (∀ e, r.2 = some e → e = .kv) ∧
    r.1.Sublist m ∧
    r.1.filter (fun e => !p e) = m.filter (fun e => !p e) ∧
    (F.kv1 = true → r = (m, some .kv)) ∧
    (F.kv1 = false → r.2 ≠ none → ∃ n, F.kvAfter = some n ∧ n < (m.filter p).length ∧ r.1 = m.dropFirst p n ∧
      (r.1.filter p).length = (m.filter p).length - n) ∧
    (F.kv1 = false → (∀ n, F.kvAfter = some n → (m.filter p).length ≤ n) → r = (full, none)) := by
  have hfs : full.Sublist m := by rw [hfull]; exact List.filter_sublist
  have hff : full.filter (fun e => !p e) = m.filter (fun e => !p e) := by rw [hfull]; simp [List.filter_filter]
  unfold bulkDelete
  cases hk : F.kv1 with
  | true => simp
  | false =>
    cases ha : F.kvAfter with
    | none => simp [hfs, hff]
    | some n =>
      by_cases hn : n < (m.filter p).length
      · simp only [hn, if_true, Bool.false_eq_true, if_false]
        refine ⟨by simp, by simp, dropFirst_sublist p n m, dropFirst_outside p n m, by simp, ?_, ?_⟩
        · intro _ _
          exact ⟨n, rfl, hn, rfl, dropFirst_count p n m (by omega)⟩
        · intro _ h; have := h n rfl; omega
      · simp only [hn, if_false, Bool.false_eq_true]
        exact ⟨by simp, by simp, hfs, hff, by simp, by simp, by simp⟩

end Hive.Typed
