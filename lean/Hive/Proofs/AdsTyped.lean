import Hive.Model.AdsTyped
import Hive.Proofs.Ads
/-!
# The typed surface (C09): with round-tripping serializers the typed map is a plain map `K → Option V`
-/
namespace Hive.Ads

variable {K V R : Type}

/-- `bytesToKey (keyToBytes k) = k` wherever the encoder succeeds. -/
def KeyRT (cd : KVCodec K V) : Prop := ∀ k kb, cd.kenc k = some kb → cd.kdec kb = some k

/-- `bytesToValue (valueToBytes v) = v`, consuming everything, wherever the encoder succeeds. -/
def ValRT (cd : KVCodec K V) : Prop := ∀ v vb, cd.venc v = some vb → cd.vdec vb = some (v, vb.length)

theorem kenc_inj {cd : KVCodec K V} (hk : KeyRT cd) {k k' : K} {kb : Key}
    (h : cd.kenc k = some kb) (h' : cd.kenc k' = some kb) : k = k' := by
  have a := hk k kb h
  have b := hk k' kb h'
  rw [a] at b
  exact Option.some.inj b

/-- The stored plain map is the typed plain map seen through the serializers. -/
structure Rel (cd : KVCodec K V) (mB : Spec.SMap) (mT : K → Option V) : Prop where
  agree : ∀ k kb, cd.kenc k = some kb → mB kb = (mT k).bind cd.venc
  enc : ∀ k v, mT k = some v → (cd.venc v).isSome = true
  /-- every stored key is the stored form of a key -/
  img : ∀ kb, mB kb ≠ none → ∃ k, cd.kenc k = some kb
  /-- every key of the typed map encodes -/
  kencOk : ∀ k v, mT k = some v → (cd.kenc k).isSome = true

theorem rel_step [DecidableEq K] {cd : KVCodec K V} (hk : KeyRT cd) {mB : Spec.SMap} {mT : K → Option V}
    (h : Rel cd mB mT) (op : TyOp K V) : Rel cd (Spec.apply mB (encOp cd op)) (tapply cd mT op) := by
  cases op with
  | set k v =>
    cases hkb : cd.kenc k with
    | none => simpa [encOp, hkb, Spec.apply, tapply] using h
    | some kb0 =>
      cases hvb : cd.venc v with
      | none => simpa [encOp, hkb, hvb, Spec.apply, tapply] using h
      | some vb0 =>
        simp only [encOp, hkb, hvb, Spec.apply, tapply, Option.isSome_some, Bool.and_self, if_true]
        constructor
        · intro k' kb' hk'
          by_cases hkk : k' = k
          · subst hkk
            rw [hkb] at hk'
            have : kb' = kb0 := (Option.some.inj hk').symm
            subst this
            simp [Spec.put, hvb]
          · have hne : kb' ≠ kb0 := by
              intro he; subst he; exact hkk (kenc_inj hk hk' hkb)
            simp [Spec.put, hne, hkk, h.agree k' kb' hk']
        · intro k' v' hm
          by_cases hkk : k' = k
          · simp [hkk] at hm; subst hm; simp [hvb]
          · simp [hkk] at hm; exact h.enc k' v' hm
        · intro kb' hne
          by_cases hkb' : kb' = kb0
          · exact ⟨k, hkb' ▸ hkb⟩
          · simp [Spec.put, hkb'] at hne; exact h.img kb' hne
        · intro k' v' hm
          by_cases hkk : k' = k
          · subst hkk; simp [hkb]
          · simp [hkk] at hm; exact h.kencOk k' v' hm
  | del k =>
    cases hkb : cd.kenc k with
    | none => simpa [encOp, hkb, Spec.apply, tapply] using h
    | some kb0 =>
      simp only [encOp, hkb, Spec.apply, tapply, Option.isSome_some, if_true]
      constructor
      · intro k' kb' hk'
        by_cases hkk : k' = k
        · subst hkk
          rw [hkb] at hk'
          have : kb' = kb0 := (Option.some.inj hk').symm
          subst this
          simp [Spec.remove]
        · have hne : kb' ≠ kb0 := by
            intro he; subst he; exact hkk (kenc_inj hk hk' hkb)
          simp [Spec.remove, hne, hkk, h.agree k' kb' hk']
      · intro k' v' hm
        by_cases hkk : k' = k
        · simp [hkk] at hm
        · simp [hkk] at hm; exact h.enc k' v' hm
      · intro kb' hne
        by_cases hkb' : kb' = kb0
        · simp [Spec.remove, hkb'] at hne
        · simp [Spec.remove, hkb'] at hne; exact h.img kb' hne
      · intro k' v' hm
        by_cases hkk : k' = k
        · simp [hkk] at hm
        · simp [hkk] at hm; exact h.kencOk k' v' hm
  | get k => simpa [encOp, Spec.apply, tapply] using h
  | has k => simpa [encOp, Spec.apply, tapply] using h
  | size => simpa [encOp, Spec.apply, tapply] using h
  | stream n => simpa [encOp, Spec.apply, tapply] using h
  | commit => simpa [encOp, Spec.apply, tapply] using h
  | root => simpa [encOp, Spec.apply, tapply] using h
  | restored => simpa [encOp, Spec.apply, tapply] using h
  | reopen => simpa [encOp, Spec.apply, tapply] using h

theorem rel_final [DecidableEq K] {cd : KVCodec K V} (hk : KeyRT cd) (ops : List (TyOp K V)) :
    Rel cd (Spec.final (ops.map (encOp cd))) (tspec cd ops) := by
  suffices ∀ (mB : Spec.SMap) (mT : K → Option V), Rel cd mB mT →
      Rel cd ((ops.map (encOp cd)).foldl Spec.apply mB) (ops.foldl (tapply cd) mT) from
    this _ _ ⟨fun _ _ _ => rfl, fun _ _ h => by simp at h, fun _ h => absurd rfl h, fun _ _ h => by simp at h⟩
  induction ops with
  | nil => intro mB mT h; exact h
  | cons op ops ih => intro mB mT h; exact ih _ _ (rel_step hk h op)

theorem venc_inj {cd : KVCodec K V} (hv : ValRT cd) {v v' : V} {vb : Val}
    (h : cd.venc v = some vb) (h' : cd.venc v' = some vb) : v = v' := by
  have a := hv v vb h
  have b := hv v' vb h'
  rw [a] at b
  exact (Prod.mk.inj (Option.some.inj b)).1

/-- Equal typed maps ⇒ equal stored maps. -/
theorem stored_eq_of_typed_eq [DecidableEq K] {cd : KVCodec K V} (hk : KeyRT cd) (ops₁ ops₂ : List (TyOp K V))
    (heq : ∀ k, tspec cd ops₁ k = tspec cd ops₂ k) (kb : Key) :
    Spec.final (ops₁.map (encOp cd)) kb = Spec.final (ops₂.map (encOp cd)) kb := by
  have r₁ := rel_final hk ops₁
  have r₂ := rel_final hk ops₂
  by_cases hex : ∃ k, cd.kenc k = some kb
  · obtain ⟨k, hkb⟩ := hex
    rw [r₁.agree k kb hkb, r₂.agree k kb hkb, heq k]
  · have n₁ : Spec.final (ops₁.map (encOp cd)) kb = none := by
      apply Classical.byContradiction; intro hne; exact hex (r₁.img kb hne)
    have n₂ : Spec.final (ops₂.map (encOp cd)) kb = none := by
      apply Classical.byContradiction; intro hne; exact hex (r₂.img kb hne)
    rw [n₁, n₂]

/-- Equal stored maps ⇒ equal typed maps (the value serializer is injective because it round-trips). -/
theorem typed_eq_of_stored_eq [DecidableEq K] {cd : KVCodec K V} (hk : KeyRT cd) (hv : ValRT cd)
    (ops₁ ops₂ : List (TyOp K V))
    (heq : ∀ kb, Spec.final (ops₁.map (encOp cd)) kb = Spec.final (ops₂.map (encOp cd)) kb) (k : K) :
    tspec cd ops₁ k = tspec cd ops₂ k := by
  have r₁ := rel_final hk ops₁
  have r₂ := rel_final hk ops₂
  cases hkb : cd.kenc k with
  | none =>
    have n₁ : tspec cd ops₁ k = none := by
      cases h : tspec cd ops₁ k with
      | none => rfl
      | some v => have := r₁.kencOk k v h; simp [hkb] at this
    have n₂ : tspec cd ops₂ k = none := by
      cases h : tspec cd ops₂ k with
      | none => rfl
      | some v => have := r₂.kencOk k v h; simp [hkb] at this
    rw [n₁, n₂]
  | some kb =>
    have e := heq kb
    rw [r₁.agree k kb hkb, r₂.agree k kb hkb] at e
    cases h₁ : tspec cd ops₁ k with
    | none =>
      cases h₂ : tspec cd ops₂ k with
      | none => rfl
      | some v₂ =>
        obtain ⟨vb, hvb⟩ := Option.isSome_iff_exists.mp (r₂.enc k v₂ h₂)
        simp [h₁, h₂, hvb] at e
    | some v₁ =>
      obtain ⟨vb₁, hvb₁⟩ := Option.isSome_iff_exists.mp (r₁.enc k v₁ h₁)
      cases h₂ : tspec cd ops₂ k with
      | none => simp [h₁, h₂, hvb₁] at e
      | some v₂ =>
        simp only [h₁, h₂, Option.bind_some, hvb₁] at e
        rw [venc_inj hv hvb₁ e.symm]

theorem tfinal_eq (c : Cfg R) (cd : KVCodec K V) (s : St R) (ops : List (TyOp K V)) :
    tfinal c cd s ops = final { c with dec := cd.dec } s (ops.map (encOp cd)) := by
  simp [tfinal, final, tstep, List.foldl_map]

/-- Typed refinement at any state whose trie holds the stored plain map of the typed history. -/
theorem typed_refines_at [DecidableEq K] (c : Cfg R) (cd : KVCodec K V) (hk : KeyRT cd) (hv : ValRT cd)
    (ops : List (TyOp K V)) (s : St R)
    (hget0 : ∀ kb, s.trie.get kb = Spec.final (ops.map (encOp cd)) kb)
    (k : K) (kb : Key) (hkb : cd.kenc k = some kb) :
    (tstep c cd s (.get k)).2 = (match tspec cd ops k with | none => .out .notfound | some v => .found v) ∧
    (tstep c cd s (.has k)).2 = .out (.bool (tspec cd ops k).isSome) ∧
    (tstep c cd s (.del k)).2 = .out (.deleted (tspec cd ops k).isSome) := by
  have hget := hget0 kb
  have hrel := rel_final hk ops
  rw [hrel.agree k kb hkb] at hget
  cases hm : tspec cd ops k with
  | none =>
    rw [hm] at hget
    simp only [Option.bind_none] at hget
    have hh : has s kb = false := by simp [has, hget]
    refine ⟨?_, ?_, ?_⟩
    · simp [tstep, encOp, hkb, step, hget, tout]
    · simp [tstep, encOp, hkb, step, hh, tout]
    · simp [tstep, encOp, hkb, step, hh, tout]
  | some v =>
    rw [hm] at hget
    obtain ⟨vb, hvb⟩ := Option.isSome_iff_exists.mp (hrel.enc k v hm)
    simp only [Option.bind_some, hvb] at hget
    have hdec := hv v vb hvb
    have hh : has s kb = true := by simp [has, hget]
    refine ⟨?_, ?_, ?_⟩
    · simp [tstep, encOp, hkb, step, hget, tout, KVCodec.dec, hdec]
    · simp [tstep, encOp, hkb, step, hh, tout]
    · have hdel : s.trie.delete kb = some { s.trie with mem := kvErase kb s.trie.mem } := by
        have : (kvGet kb s.trie.mem).isSome = true := by simpa [has, Trie.get] using hh
        simp [Trie.delete, this]
      simp [tstep, encOp, hkb, step, hh, hdel, tout]

/-- **Typed refinement** (`Get`, `Has`, `Delete`): with round-tripping serializers the typed surface answers what the
plain typed map `K → Option V` says, for every key whose serializer succeeds. -/
theorem typed_refines [DecidableEq K] (c : Cfg R) (cd : KVCodec K V) (hk : KeyRT cd) (hv : ValRT cd)
    (ops : List (TyOp K V)) (hc : CleanFrom { c with dec := cd.dec } init (ops.map (encOp cd)))
    (k : K) (kb : Key) (hkb : cd.kenc k = some kb) :
    let s := tfinal c cd init ops
    (tstep c cd s (.get k)).2 = (match tspec cd ops k with | none => .out .notfound | some v => .found v) ∧
    (tstep c cd s (.has k)).2 = .out (.bool (tspec cd ops k).isSome) ∧
    (tstep c cd s (.del k)).2 = .out (.deleted (tspec cd ops k).isSome) := by
  intro s
  have hs : s = final { c with dec := cd.dec } init (ops.map (encOp cd)) := tfinal_eq c cd init ops
  exact typed_refines_at c cd hk hv ops s
    (fun kb' => by rw [hs]; exact congrFun (final_abs_init _ _ hc) kb') k kb hkb

/-! ## `Stream` -/

/-- A stored pair as the callback sees it. -/
def decPair (cd : KVCodec K V) (p : Key × Val) : Option (K × V) :=
  match cd.kdec p.1, cd.vdec p.2 with
  | some k, some (v, _) => some (k, v)
  | _, _ => none

def liftEnd : StreamEnd → TyStreamEnd
  | .ok => .ok
  | .errCb => .errCb
  | .errDec => .errDec

/-- Every raw key is the stored form of a key. -/
def RawImg (cd : KVCodec K V) (ks : List Key) : Prop := ∀ raw ∈ ks, ∃ k, cd.kenc k = some raw

theorem tstreamGo_eq (cd : KVCodec K V) (hk : KeyRT cd) (t : Trie) (stop : Nat) :
    ∀ (ks : List Key) (seenB : KV) (seen : List (K × V)), RawImg cd ks →
      seen = seenB.filterMap (decPair cd) → seen.length = seenB.length →
      (tstreamGo cd t stop ks seen).1 = (streamGo cd.dec t stop ks seenB).1.filterMap (decPair cd) ∧
      (tstreamGo cd t stop ks seen).1.length = (streamGo cd.dec t stop ks seenB).1.length ∧
      (tstreamGo cd t stop ks seen).2 = liftEnd (streamGo cd.dec t stop ks seenB).2 := by
  intro ks
  induction ks with
  | nil =>
    intro seenB seen _ hseen hlen
    refine ⟨?_, ?_, ?_⟩
    · simp only [tstreamGo, streamGo]; rw [List.filterMap_reverse, ← hseen]
    · simp only [tstreamGo, streamGo, List.length_reverse]; exact hlen
    · simp [tstreamGo, streamGo, liftEnd]
  | cons raw ks ih =>
    intro seenB seen himg hseen hlen
    obtain ⟨k0, hk0⟩ := himg raw (List.mem_cons_self ..)
    have hd := hk k0 raw hk0
    have himg' : RawImg cd ks := fun r hr => himg r (List.mem_cons_of_mem _ hr)
    cases hvd : cd.vdec ((t.get raw).getD []) with
    | none =>
      have hfail : cd.dec ((t.get raw).getD []) = .fail := by simp [KVCodec.dec, hvd]
      refine ⟨?_, ?_, ?_⟩
      · simp only [tstreamGo, streamGo, hd, hk0, hvd, hfail]; rw [List.filterMap_reverse, ← hseen]
      · simp only [tstreamGo, streamGo, hd, hk0, hvd, hfail, List.length_reverse]; exact hlen
      · simp [tstreamGo, streamGo, hd, hk0, hvd, hfail, liftEnd]
    | some vn =>
      obtain ⟨v, n⟩ := vn
      have hdec : cd.dec ((t.get raw).getD []) ≠ .fail := by
        intro hf
        simp only [KVCodec.dec, hvd] at hf
        split at hf <;> cases hf
      have hpair : decPair cd (raw, (t.get raw).getD []) = some (k0, v) := by simp [decPair, hd, hvd]
      have hseen' : (k0, v) :: seen = ((raw, (t.get raw).getD []) :: seenB).filterMap (decPair cd) := by
        simp [List.filterMap_cons, hpair, hseen]
      have hlen' : ((k0, v) :: seen).length = ((raw, (t.get raw).getD []) :: seenB).length := by simp [hlen]
      have ih' := ih ((raw, (t.get raw).getD []) :: seenB) ((k0, v) :: seen) himg' hseen' hlen'
      have hB : streamGo cd.dec t stop (raw :: ks) seenB =
          if ((raw, (t.get raw).getD []) :: seenB).length = stop then
            (((raw, (t.get raw).getD []) :: seenB).reverse, .errCb)
          else streamGo cd.dec t stop ks ((raw, (t.get raw).getD []) :: seenB) := by
        cases hdd : cd.dec ((t.get raw).getD []) with
        | fail => exact absurd hdd hdec
        | ok => simp [streamGo, hdd]
        | short => simp [streamGo, hdd]
      have hT : tstreamGo cd t stop (raw :: ks) seen =
          if ((k0, v) :: seen).length = stop then (((k0, v) :: seen).reverse, .errCb)
          else tstreamGo cd t stop ks ((k0, v) :: seen) := by
        simp [tstreamGo, hd, hk0, hvd]
      rw [hB, hT, hlen']
      split
      · refine ⟨?_, ?_, rfl⟩
        · show ((k0, v) :: seen).reverse = _
          rw [List.filterMap_reverse, ← hseen']
        · simp [hlen]
      · exact ih'

/-- `Set` / `Delete` keep "every raw key is the stored form of a key". -/
theorem rawImg_step (c : Cfg R) (cd : KVCodec K V) (s : St R) (op : TyOp K V) (h : RawImg cd s.rawKeys) :
    RawImg cd (tstep c cd s op).1.rawKeys := by
  cases op with
  | set k v =>
    cases hkb : cd.kenc k with
    | none => cases hvb : cd.venc v <;> simpa [tstep, encOp, hkb, hvb, step] using h
    | some kb =>
      cases hvb : cd.venc v with
      | none => simpa [tstep, encOp, hkb, hvb, step] using h
      | some vb =>
        intro raw hr
        have hr' : raw ∈ insertSorted kb s.rawKeys := by
          simp only [tstep, encOp, hkb, hvb, step] at hr
          split at hr <;> simpa [addSize] using hr
        rcases (mem_insertSorted kb raw s.rawKeys).mp hr' with rfl | hin
        · exact ⟨k, hkb⟩
        · exact h raw hin
  | del k =>
    cases hkb : cd.kenc k with
    | none => simpa [tstep, encOp, hkb, step] using h
    | some kb =>
      intro raw hr
      simp only [tstep, encOp, hkb, step] at hr
      split at hr
      · split at hr
        · exact h raw hr
        · simp only [addSize] at hr
          exact h raw (List.mem_filter.mp hr).1
      · exact h raw hr
  | get k =>
    have : (tstep c cd s (.get k)).1 = s := by simp [tstep, encOp, step_get_fst]
    rw [this]; exact h
  | has k => cases hkb : cd.kenc k <;> simpa [tstep, encOp, hkb, step] using h
  | size => simpa [tstep, encOp, step] using h
  | stream n => simpa [tstep, encOp, step] using h
  | commit => simpa [tstep, encOp, step] using h
  | root => simpa [tstep, encOp, step] using h
  | restored => simpa [tstep, encOp, step] using h
  | reopen => simpa [tstep, encOp, step] using h

/-- The typed keys of a list of stored keys. -/
def decKeys (cd : KVCodec K V) (ks : List Key) : List K := ks.filterMap cd.kdec

theorem mem_decKeys {cd : KVCodec K V} (hk : KeyRT cd) {ks : List Key} (himg : RawImg cd ks) (k : K) :
    k ∈ decKeys cd ks ↔ ∃ kb ∈ ks, cd.kenc k = some kb := by
  simp only [decKeys, List.mem_filterMap]
  constructor
  · rintro ⟨kb, hkb, hd⟩
    obtain ⟨k0, hk0⟩ := himg kb hkb
    have := hk k0 kb hk0
    rw [this] at hd
    exact ⟨kb, hkb, (Option.some.inj hd) ▸ hk0⟩
  · rintro ⟨kb, hkb, he⟩
    exact ⟨kb, hkb, hk k kb he⟩

theorem nodup_decKeys {cd : KVCodec K V} (hk : KeyRT cd) :
    ∀ {ks : List Key}, RawImg cd ks → ks.Nodup → (decKeys cd ks).Nodup ∧ (decKeys cd ks).length = ks.length := by
  intro ks
  induction ks with
  | nil => intro _ _; exact ⟨List.nodup_nil, rfl⟩
  | cons kb ks ih =>
    intro himg hnd
    obtain ⟨k0, hk0⟩ := himg kb (List.mem_cons_self ..)
    have hd := hk k0 kb hk0
    have himg' : RawImg cd ks := fun r hr => himg r (List.mem_cons_of_mem _ hr)
    have hnd' := (List.nodup_cons.mp hnd)
    obtain ⟨ih1, ih2⟩ := ih himg' hnd'.2
    have hcons : decKeys cd (kb :: ks) = k0 :: decKeys cd ks := by simp [decKeys, List.filterMap_cons, hd]
    rw [hcons]
    refine ⟨List.nodup_cons.mpr ⟨?_, ih1⟩, by simp [ih2]⟩
    intro hmem
    obtain ⟨kb', hkb', he⟩ := (mem_decKeys hk himg' k0).mp hmem
    rw [hk0] at he
    exact hnd'.1 ((Option.some.inj he) ▸ hkb')

theorem rawImg_final (c : Cfg R) (cd : KVCodec K V) (ops : List (TyOp K V)) :
    ∀ s : St R, RawImg cd s.rawKeys → RawImg cd (tfinal c cd s ops).rawKeys := by
  induction ops with
  | nil => intro s h; exact h
  | cons op ops ih => intro s h; exact ih _ (rawImg_step c cd s op h)

end Hive.Ads
