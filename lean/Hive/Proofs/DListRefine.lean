import Hive.Proofs.DListWF2
/-!
# Refinement: the pointer-level model implements the abstract list specification

`abs` forgets the pointers.  The lemmas of this file show that the *position* each operation derives
from pointers (`root.prev`, `mark.prev`, …) denotes the abstract position the specification talks
about (back of the list, just before the mark, …), so that the ghost sequence maintained next to
the splices equals the specification's list.
-/
namespace Hive.DList

def abs (s : St) : SSt :=
  { lst := s.seq, val := fun j => (s.heap j).val, fresh := s.fresh, stale := s.stale }

theorem SSt.ext' {a b : SSt} (h1 : a.lst = b.lst) (h2 : a.val = b.val) (h3 : a.fresh = b.fresh)
    (h4 : a.stale = b.stale) : a = b := by
  cases a; cases b; simp_all

/-! ### positions: pure list facts -/

/-- The last node of a ring `r :: ys`. -/
theorem last_decomp (r : Nat) (ys : List Nat) : ∃ Q, r :: ys = Q ++ [ys.getLast?.getD r] := by
  by_cases h : ys = []
  · subst h; exact ⟨[], by simp⟩
  · obtain ⟨Q, a, hQ⟩ := snoc_of_ne_nil h
    subst hQ
    exact ⟨r :: Q, by simp⟩

theorem insAfter_front (r e : Nat) (ys : List Nat) : (insAfter r e (r :: ys)).tail = e :: ys := by
  simp [insAfter]

theorem insAfter_inner {r m : Nat} (e : Nat) (ys : List Nat) (h : r ≠ m) :
    (insAfter m e (r :: ys)).tail = insAfter m e ys := by
  simp [insAfter, h]

/-- Inserting after the ring's last node appends. -/
theorem insAfter_last {r : Nat} (e : Nat) {ys : List Nat} (hnd : (r :: ys).Nodup) :
    (insAfter (ys.getLast?.getD r) e (r :: ys)).tail = ys ++ [e] := by
  obtain ⟨Q, hQ⟩ := last_decomp r ys
  have hn : ys.getLast?.getD r ∉ Q := by
    rw [hQ, List.nodup_append] at hnd
    intro m; exact hnd.2.2 _ m _ (List.mem_singleton.2 rfl) rfl
  rw [hQ, insAfter_decomp e [] hn]
  have : Q ++ [ys.getLast?.getD r, e] = (Q ++ [ys.getLast?.getD r]) ++ [e] := by simp
  rw [this, ← hQ]; rfl

/-- Inserting after the predecessor of `m` inserts before `m`. -/
theorem insAfter_pred {r m : Nat} (e : Nat) {pre post : List Nat} (hnd : (r :: (pre ++ m :: post)).Nodup) :
    (insAfter (pre.getLast?.getD r) e (r :: (pre ++ m :: post))).tail = insBefore m e (pre ++ m :: post) := by
  obtain ⟨Q, hQ⟩ := last_decomp r pre
  have hsplit : r :: (pre ++ m :: post) = Q ++ pre.getLast?.getD r :: m :: post := by
    have : r :: (pre ++ m :: post) = (r :: pre) ++ m :: post := by simp
    rw [this, hQ]; simp
  have hn : pre.getLast?.getD r ∉ Q := by
    rw [hsplit, List.nodup_append] at hnd
    intro k; exact hnd.2.2 _ k _ List.mem_cons_self rfl
  have hm : m ∉ pre := by
    rw [List.nodup_cons, List.nodup_append] at hnd
    intro k; exact hnd.2.2.2 _ k _ List.mem_cons_self rfl
  rw [hsplit, insAfter_decomp e _ hn, insBefore_decomp e post hm]
  have : Q ++ pre.getLast?.getD r :: e :: m :: post = (r :: pre) ++ e :: m :: post := by
    rw [hQ]; simp
  rw [this]; rfl

/-- Moving `e` before `m` when it already is there changes nothing. -/
theorem insBefore_erase_self {e m : Nat} {P post : List Nat} (hnd : (P ++ e :: m :: post).Nodup) :
    insBefore m e ((P ++ e :: m :: post).erase e) = P ++ e :: m :: post := by
  rw [List.nodup_append] at hnd
  obtain ⟨_, h2, h3⟩ := hnd
  have heP : e ∉ P := fun k => h3 _ k _ List.mem_cons_self rfl
  have hmP : m ∉ P := fun k => h3 _ k _ (List.mem_cons_of_mem _ List.mem_cons_self) rfl
  rw [erase_decomp _ heP, insBefore_decomp e post hmP]

theorem erase_last_append {e : Nat} {Q : List Nat} (hnd : (Q ++ [e]).Nodup) :
    (Q ++ [e]).erase e ++ [e] = Q ++ [e] := by
  rw [List.nodup_append] at hnd
  have heQ : e ∉ Q := fun k => hnd.2.2 _ k _ (List.mem_singleton.2 rfl) rfl
  rw [erase_decomp [] heQ]; simp

/-- `getLast? = some e` exposes the last element. -/
theorem eq_snoc_of_getLast? {l : List Nat} {e : Nat} (h : l.getLast? = some e) : ∃ Q, l = Q ++ [e] := by
  have hne : l ≠ [] := by intro k; subst k; simp at h
  obtain ⟨Q, a, hQ⟩ := snoc_of_ne_nil hne
  subst hQ
  simp at h
  exact ⟨Q, by rw [h]⟩

/-! ### insertValue -/

/-- What `insertValue` does, abstractly (no invariant needed: the ghost update sits next to the splice). -/
theorem abs_insertValue (s : St) (l : Bool) (v a : Nat) :
    abs (insertValue s l v a).1
      = (push (abs s) l v (fun e xs => (insAfter a e (root l :: xs)).tail)).1 := by
  apply SSt.ext'
  · rfl
  · funext j
    simp only [abs, insertValue, insert, alloc, push, setOwner_val, link_val]
    split <;> simp_all
  · rfl
  · rfl

theorem insertValue_snd (s : St) (l : Bool) (v a : Nat) : (insertValue s l v a).2 = s.fresh := rfl

theorem push_congr (t : SSt) (l : Bool) (v : Nat) {f g : Nat → List Nat → List Nat}
    (h : f t.fresh (t.lst l) = g t.fresh (t.lst l)) : push t l v f = push t l v g := by
  simp [push, h]

end Hive.DList
