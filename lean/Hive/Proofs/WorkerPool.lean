import Hive.Model.WorkerPool
/-!
# C16 — safety invariant of the WorkerPool protocol model

`SInv` ties the pool state to the state of the trace monitor (which is fed every emitted event):
the monitor never rejects, the pending counter equals the number of tasks in a pending phase, and a
completed shutdown means that no worker is alive.  Helper lemmas only; the property theorems are in
`Hive/Props/C16.lean`.
-/
set_option linter.unusedSimpArgs false
set_option linter.unusedVariables false

namespace Hive.WP
open Hive.Conc

/-! ## counting under `List.set` / append -/

def b2n (b : Bool) : Nat := if b then 1 else 0

@[simp] theorem b2n_true : b2n true = 1 := rfl
@[simp] theorem b2n_false : b2n false = 0 := rfl

theorem countP_set_add {α : Type} (f : α → Bool) (l : List α) (i : Nat) (x y : α) (h : l[i]? = some x) :
    (l.set i y).countP f + b2n (f x) = l.countP f + b2n (f y) := by
  induction l generalizing i with
  | nil => simp at h
  | cons a as ih =>
    cases i with
    | zero =>
      simp at h; subst h
      simp only [List.set_cons_zero, List.countP_cons, b2n]
      cases f a <;> cases f y <;> simp <;> omega
    | succ n =>
      simp at h
      have := ih n h
      simp only [List.set_cons_succ, List.countP_cons]
      omega

theorem countP_pos_of_get {α : Type} (f : α → Bool) (l : List α) (i : Nat) (x : α) (h : l[i]? = some x)
    (hf : f x = true) : 0 < l.countP f := by
  have hm : x ∈ l := List.mem_of_getElem? h
  exact List.countP_pos_iff.mpr ⟨x, hm, hf⟩

theorem countP_add_lt_of_get {α : Type} (f g : α → Bool) (l : List α) (i : Nat) (x : α) (h : l[i]? = some x)
    (hdis : ∀ a, ¬ (f a = true ∧ g a = true)) (hf : f x = false) (hg : g x = false) :
    l.countP f + l.countP g < l.length := by
  induction l generalizing i with
  | nil => simp at h
  | cons a as ih =>
    have hle : ∀ (l : List α), l.countP f + l.countP g ≤ l.length := by
      intro l
      induction l with
      | nil => simp
      | cons b bs ihb =>
        simp only [List.countP_cons, List.length_cons]
        have := hdis b
        cases hfb : f b <;> cases hgb : g b <;> simp_all <;> omega
    cases i with
    | zero =>
      simp at h; subst h
      simp only [List.countP_cons, List.length_cons, hf, hg]
      have := hle as
      simp; omega
    | succ n =>
      simp at h
      have := ih n h
      have hd := hdis a
      simp only [List.countP_cons, List.length_cons]
      cases hfa : f a <;> cases hga : g a <;> simp_all <;> omega

/-! ## predicates on tasks -/

def Phase.upd : Phase → Bool        -- the counter was increased for this task
  | .counted | .queued | .popped | .inchan | .running | .ran | .done | .cancelling | .cancelled => true
  | _ => false
def Phase.started : Phase → Bool
  | .running | .ran | .done => true
  | _ => false
def Phase.ended : Phase → Bool
  | .ran | .done => true
  | _ => false
def Phase.dnd : Phase → Bool        -- the counter was decreased for this task
  | .done | .cancelled => true
  | _ => false
def Phase.canc : Phase → Bool
  | .cancelling | .cancelled => true
  | _ => false
def Phase.isRej : Phase → Bool
  | .rejected => true
  | _ => false

/-- What the monitor knows about a task, as a function of its record. -/
def absT (x : Task) : MT :=
  { decided := if x.returned then some (!x.phase.isRej) else none,
    started := x.phase.started, ended := x.phase.ended }

def cnt (f : Task → Bool) (s : St) : Nat := s.tasks.countP f

def fPend (x : Task) : Bool := x.phase.pending
def fUp (x : Task) : Bool := x.phase.upd
def fDn (x : Task) : Bool := x.phase.dnd
def fRej (x : Task) : Bool := x.phase.isRej && x.returned
def fRs (x : Task) : Bool := x.phase.started
def fRe (x : Task) : Bool := x.phase.ended
def fCanc (x : Task) : Bool := x.phase.canc

/-- Worker program counters that exist only after a shutdown signal / a closed channel. -/
def WPc.late : WPc → Bool
  | .drain | .exited => true
  | .run _ _ _ dr => dr
  | .mark _ dr => dr
  | .signal dr => dr
  | _ => false

def DPc.early : DPc → Bool
  | .chk | .cond2 | .close => false
  | _ => true

structure MonRel (p : Params) (s : St) (m : Mon) : Prop where
  tasks : m.tasks = s.tasks.map absT
  ctr : m.ctr = s.pending
  ups : m.ups = cnt fUp s
  dns : m.dns = cnt fDn s
  rejs : m.rejs = cnt fRej s
  rss : m.rss = cnt fRs s
  res : m.res = cnt fRe s
  sdcalls : m.sdcalls = s.sdcalls
  completed : m.completed = true → ∀ w ∈ s.workers, w.isExited = true
  openc : 0 < m.openStarts → m.completed = false

structure SInv (p : Params) (s : St) : Prop where
  mon : ∃ m, s.mon = some m ∧ MonRel p s m
  cons : s.pending = cnt fPend s
  nocancel : p.cancel = false → cnt fCanc s = 0
  presd : s.sdcalls = 0 → s.sig = 0 ∧ s.closed = false ∧ (∀ w ∈ s.workers, w.late = false) ∧ cnt fCanc s = 0 ∧
            s.disp.early = true ∧ (s.disp ≠ .none → s.running = true)

end Hive.WP

namespace Hive.WP
open Hive.Conc

/-! ## task updates -/

theorem setPhase_eq {s : St} {t : Nat} {x : Task} (h : s.tasks[t]? = some x) (ph : Phase) :
    setPhase s t ph = { s with tasks := s.tasks.set t { x with phase := ph } } := by
  simp [setPhase, h]

theorem setReturned_eq {s : St} {t : Nat} {x : Task} (h : s.tasks[t]? = some x) :
    setReturned s t = { s with tasks := s.tasks.set t { x with returned := true } } := by
  simp [setReturned, h]

theorem map_set_absT (l : List Task) (t : Nat) (y : Task) :
    (l.set t y).map absT = (l.map absT).set t (absT y) := by
  simp [List.map_set]

theorem getT_abs {m : Mon} {l : List Task} {t : Nat} {x : Task} (hm : m.tasks = l.map absT) (h : l[t]? = some x) :
    getT m t = absT x := by
  simp [getT, hm, List.getD_eq_getElem?_getD, h]

theorem lt_of_get {α : Type} {l : List α} {t : Nat} {x : α} (h : l[t]? = some x) : t < l.length := by
  rcases Nat.lt_or_ge t l.length with h' | h'
  · exact h'
  · simp [List.getElem?_eq_none h'] at h

theorem set_same {α : Type} (l : List α) (t : Nat) (x : α) (h : l[t]? = some x) : l.set t x = l := by
  have hlt := lt_of_get h
  have hx : l[t] = x := by rw [List.getElem?_eq_getElem hlt] at h; exact Option.some.inj h
  rw [← hx]; exact List.set_getElem_self hlt

/-- All counters at once for an update of task `t` from `x` to `y`. -/
theorem cnt_set (f : Task → Bool) {s : St} {t : Nat} {x : Task} (h : s.tasks[t]? = some x) (y : Task) (s' : St)
    (hs : s'.tasks = s.tasks.set t y) : cnt f s' + b2n (f x) = cnt f s + b2n (f y) := by
  unfold cnt; rw [hs]; exact countP_set_add f s.tasks t x y h

theorem cnt_append (f : Task → Bool) (s s' : St) (y : Task) (hs : s'.tasks = s.tasks ++ [y]) :
    cnt f s' = cnt f s + b2n (f y) := by
  unfold cnt; rw [hs]; simp [List.countP_append, List.countP_cons, b2n]

/-- `SInv` only looks at these fields. -/
theorem SInv.congr {p : Params} {s s' : St} (h : SInv p s)
    (h1 : s'.mon = s.mon) (h2 : s'.tasks = s.tasks) (h3 : s'.pending = s.pending) (h4 : s'.sdcalls = s.sdcalls)
    (h5 : s'.workers = s.workers) (h6 : s'.sig = s.sig) (h7 : s'.closed = s.closed) (h8 : s'.disp = s.disp)
    (h9 : s'.running = s.running) : SInv p s' := by
  obtain ⟨⟨m, hm, R⟩, hc, hn, hp⟩ := h
  refine ⟨⟨m, by rw [h1, hm], ?_⟩, ?_, ?_, ?_⟩
  · exact ⟨by rw [h2]; exact R.tasks, by rw [h3]; exact R.ctr, by unfold cnt; rw [h2]; exact R.ups,
      by unfold cnt; rw [h2]; exact R.dns, by unfold cnt; rw [h2]; exact R.rejs, by unfold cnt; rw [h2]; exact R.rss,
      by unfold cnt; rw [h2]; exact R.res, by rw [h4]; exact R.sdcalls, by rw [h5]; exact R.completed, R.openc⟩
  · unfold cnt; rw [h3, h2]; exact hc
  · unfold cnt; rw [h2]; exact hn
  · unfold cnt; rw [h4, h6, h7, h5, h2, h8, h9]; exact hp


/-- How the monitor must have moved when task `t` changed from `x` to `y`. -/
structure MonUpd (m m' : Mon) (t : Nat) (x y : Task) (pend' : Nat) : Prop where
  tasks : m'.tasks = m.tasks.set t (absT y)
  ctr : m'.ctr = pend'
  ups : m'.ups + b2n (fUp x) = m.ups + b2n (fUp y)
  dns : m'.dns + b2n (fDn x) = m.dns + b2n (fDn y)
  rejs : m'.rejs + b2n (fRej x) = m.rejs + b2n (fRej y)
  rss : m'.rss + b2n (fRs x) = m.rss + b2n (fRs y)
  res : m'.res + b2n (fRe x) = m.res + b2n (fRe y)
  sdcalls : m'.sdcalls = m.sdcalls
  completed : m'.completed = m.completed
  openStarts : m'.openStarts = m.openStarts

def openOf (s : St) : Nat :=
  match s.mon with
  | some m => m.openStarts
  | none => 0

/-- What every step preserves / how it moves the bookkeeping used for the thread-level invariants. -/
structure Pres (p : Params) (s s' : St) : Prop where
  inv : SInv p s'
  openEq : openOf s' = openOf s
  sdmono : s.sdcalls ≤ s'.sdcalls

theorem sinv_task_update {p : Params} {s s' : St} {t : Nat} {x y : Task} (h : SInv p s)
    (ht : s.tasks[t]? = some x) (hts : s'.tasks = s.tasks.set t y)
    (h4 : s'.sdcalls = s.sdcalls) (h5 : s'.workers = s.workers) (h6 : s'.sig = s.sig) (h7 : s'.closed = s.closed)
    (h8 : s'.disp = s.disp) (h9 : s'.running = s.running)
    (hpend : s'.pending + b2n (fPend x) = s.pending + b2n (fPend y))
    (hcanc : fCanc y = true → fCanc x = true ∨ (p.cancel = true ∧ 0 < s.sdcalls))
    (hmon : ∀ m, s.mon = some m → MonRel p s m → ∃ m', s'.mon = some m' ∧ MonUpd m m' t x y s'.pending) :
    Pres p s s' := by
  obtain ⟨⟨m, hm, R⟩, hc, hn, hp⟩ := h
  obtain ⟨m', hm', U⟩ := hmon m hm R
  refine ⟨?_, by simp [openOf, hm, hm', U.openStarts], by omega⟩
  have C := fun f => cnt_set f ht y s' hts
  have Ppos := fun (f : Task → Bool) (hf : f x = true) => countP_pos_of_get f s.tasks t x ht hf
  have hcx : fCanc y = true → fCanc x = false → p.cancel = true ∧ 0 < s.sdcalls := by
    intro a b; rcases hcanc a with c | c
    · rw [b] at c; cases c
    · exact c
  refine ⟨⟨m', hm', ?_⟩, ?_, ?_, ?_⟩
  · refine ⟨?_, U.ctr, ?_, ?_, ?_, ?_, ?_, ?_, ?_, ?_⟩
    · rw [U.tasks, hts, map_set_absT, R.tasks]
    · have := C fUp; have := U.ups; have := R.ups; omega
    · have := C fDn; have := U.dns; have := R.dns; omega
    · have := C fRej; have := U.rejs; have := R.rejs; omega
    · have := C fRs; have := U.rss; have := R.rss; omega
    · have := C fRe; have := U.res; have := R.res; omega
    · rw [U.sdcalls, h4]; exact R.sdcalls
    · rw [U.completed, h5]; exact R.completed
    · rw [U.completed, U.openStarts]; exact R.openc
  · have := C fPend; omega
  · intro hcf
    have h0 := hn hcf
    have := C fCanc
    cases hy : fCanc y <;> cases hx : fCanc x <;> simp [hy, hx] at this <;> try omega
    · have := (hcx hy hx).1; simp [hcf] at this
  · intro h0
    rw [h4] at h0
    obtain ⟨a, b, c, d, e, f⟩ := hp h0
    refine ⟨by rw [h6]; exact a, by rw [h7]; exact b, by rw [h5]; exact c, ?_, by rw [h8]; exact e, by rw [h8, h9]; exact f⟩
    have := C fCanc
    cases hy : fCanc y <;> cases hx : fCanc x <;> simp [hy, hx] at this <;> try omega
    · have := (hcx hy hx).2; omega

/-- A worker moves (the state invariant already holds for the new shared state). -/
theorem sinv_set_worker {p : Params} {s : St} {i : Nat} {w w' : WPc} (h : SInv p s) (hi : s.workers[i]? = some w)
    (hw : w.isExited = false) (hlate : w'.late = true → 0 < s.sdcalls) :
    SInv p { s with workers := s.workers.set i w' } := by
  obtain ⟨⟨m, hm, R⟩, hc, hn, hp⟩ := h
  have hmem : w ∈ s.workers := List.mem_of_getElem? hi
  have hcf : m.completed = false := by
    cases hcm : m.completed with
    | false => rfl
    | true => have := R.completed hcm w hmem; rw [hw] at this; cases this
  refine ⟨⟨m, hm, ⟨R.tasks, R.ctr, R.ups, R.dns, R.rejs, R.rss, R.res, R.sdcalls, ?_, R.openc⟩⟩, hc, hn, ?_⟩
  · intro hcm; rw [hcf] at hcm; cases hcm
  · intro h0
    obtain ⟨a, b, c, d, e, f⟩ := hp h0
    refine ⟨a, b, ?_, d, e, f⟩
    intro v hv
    rcases List.mem_or_eq_of_mem_set hv with hv | hv
    · exact c v hv
    · subst hv
      cases hl : v.late with
      | false => rfl
      | true => have h0' : s.sdcalls = 0 := h0; have := hlate hl; omega



/-- Steps that leave monitor, tasks, counter and workers alone. -/
theorem pres_fields {p : Params} {s s' : St} (h : SInv p s)
    (h1 : s'.mon = s.mon) (h2 : s'.tasks = s.tasks) (h3 : s'.pending = s.pending) (h4 : s.sdcalls ≤ s'.sdcalls)
    (h5 : s'.workers = s.workers)
    (hpre : s'.sdcalls = 0 →
      (s.sig = 0 ∧ s.closed = false ∧ s.disp.early = true ∧ (s.disp ≠ .none → s.running = true)) →
      s'.sig = 0 ∧ s'.closed = false ∧ s'.disp.early = true ∧ (s'.disp ≠ .none → s'.running = true))
    (hsd : ∀ m, s.mon = some m → m.sdcalls = s'.sdcalls) : Pres p s s' := by
  obtain ⟨⟨m, hm, R⟩, hc, hn, hp⟩ := h
  refine ⟨⟨⟨m, by rw [h1, hm], ?_⟩, ?_, ?_, ?_⟩, by simp [openOf, h1], h4⟩
  · exact ⟨by rw [h2]; exact R.tasks, by rw [h3]; exact R.ctr, by unfold cnt; rw [h2]; exact R.ups,
      by unfold cnt; rw [h2]; exact R.dns, by unfold cnt; rw [h2]; exact R.rejs, by unfold cnt; rw [h2]; exact R.rss,
      by unfold cnt; rw [h2]; exact R.res, hsd m hm, by rw [h5]; exact R.completed, R.openc⟩
  · unfold cnt; rw [h3, h2]; exact hc
  · unfold cnt; rw [h2]; exact hn
  · intro h0
    have h0' : s.sdcalls = 0 := by omega
    obtain ⟨a, b, c, d, e, f⟩ := hp h0'
    obtain ⟨a', b', e', f'⟩ := hpre h0 ⟨a, b, e, f⟩
    exact ⟨a', b', by rw [h5]; exact c, by unfold cnt; rw [h2]; exact d, e', f'⟩

theorem pres_newTask {p : Params} {s : St} (h : SInv p s) (kids : List Body) : Pres p s (newTask p s kids).1 := by
  obtain ⟨⟨m, hm, R⟩, hc, hn, hp⟩ := h
  have hlen : m.tasks.length = s.tasks.length := by rw [R.tasks]; simp
  let y : Task := { phase := .fresh, returned := false, kids := kids }
  have A := fun f => cnt_append f s (newTask p s kids).1 y rfl
  have hmon : (newTask p s kids).1.mon = some { m with tasks := m.tasks ++ [({} : MT)] } := by
    simp [newTask, emit, hm, monStep, hlen]
  refine ⟨⟨⟨_, hmon, ?_⟩, ?_, ?_, ?_⟩, by simp [openOf, hmon, hm], Nat.le_refl _⟩
  · refine ⟨?_, R.ctr, ?_, ?_, ?_, ?_, ?_, R.sdcalls, R.completed, R.openc⟩
    · show m.tasks ++ [({} : MT)] = (s.tasks ++ [y]).map absT
      rw [List.map_append, R.tasks]; rfl
    · have := A fUp; exact R.ups.trans (by simpa [y, fUp, Phase.upd] using this.symm)
    · have := A fDn; exact R.dns.trans (by simpa [y, fDn, Phase.dnd] using this.symm)
    · have := A fRej; exact R.rejs.trans (by simpa [y, fRej, Phase.isRej] using this.symm)
    · have := A fRs; exact R.rss.trans (by simpa [y, fRs, Phase.started] using this.symm)
    · have := A fRe; exact R.res.trans (by simpa [y, fRe, Phase.ended] using this.symm)
  · have := A fPend; exact hc.trans (by simpa [y, fPend, Phase.pending] using this.symm)
  · intro hcf; have := A fCanc; have h0 := hn hcf
    simp [y, fCanc, Phase.canc] at this; omega
  · intro h0
    obtain ⟨a, b, c, d, e, f⟩ := hp h0
    refine ⟨a, b, c, ?_, e, f⟩
    have := A fCanc
    simp [y, fCanc, Phase.canc] at this; omega

/-- Events that only move the monitor's life-cycle bookkeeping. -/
theorem sinv_mon_only {p : Params} {s s' : St} {m' : Mon} (h : SInv p s)
    (h2 : s'.tasks = s.tasks) (h3 : s'.pending = s.pending) (h4 : s.sdcalls ≤ s'.sdcalls)
    (h5 : s'.workers = s.workers) (h6 : s'.sig = s.sig) (h7 : s'.closed = s.closed) (h8 : s'.disp = s.disp)
    (h9 : s'.running = s.running)
    (hmon : ∀ m, s.mon = some m → s'.mon = some m' ∧ m'.tasks = m.tasks ∧ m'.ctr = m.ctr ∧ m'.ups = m.ups ∧
      m'.dns = m.dns ∧ m'.rejs = m.rejs ∧ m'.rss = m.rss ∧ m'.res = m.res ∧ m'.sdcalls = s'.sdcalls ∧
      (m'.completed = true → m.completed = true ∨ ∀ w ∈ s.workers, w.isExited = true) ∧
      (0 < m'.openStarts → m'.completed = false)) : SInv p s' := by
  obtain ⟨⟨m, hm, R⟩, hc, hn, hp⟩ := h
  obtain ⟨a1, a2, a3, a4, a5, a6, a7, a8, a9, a10, a11⟩ := hmon m hm
  refine ⟨⟨m', a1, ?_⟩, ?_, ?_, ?_⟩
  · refine ⟨by rw [a2, h2]; exact R.tasks, by rw [a3, h3]; exact R.ctr, ?_, ?_, ?_, ?_, ?_, a9, ?_, a11⟩
    · unfold cnt; rw [a4, h2]; exact R.ups
    · unfold cnt; rw [a5, h2]; exact R.dns
    · unfold cnt; rw [a6, h2]; exact R.rejs
    · unfold cnt; rw [a7, h2]; exact R.rss
    · unfold cnt; rw [a8, h2]; exact R.res
    · intro hcm; rw [h5]; rcases a10 hcm with c | c
      · exact R.completed c
      · exact c
  · unfold cnt; rw [h3, h2]; exact hc
  · unfold cnt; rw [h2]; exact hn
  · intro h0
    have h0' : s.sdcalls = 0 := by omega
    obtain ⟨a, b, c, d, e, f⟩ := hp h0'
    exact ⟨by rw [h6]; exact a, by rw [h7]; exact b, by rw [h5]; exact c, by unfold cnt; rw [h2]; exact d,
      by rw [h8]; exact e, by rw [h8, h9]; exact f⟩

theorem sinv_spawn {p : Params} {s : St} (h : SInv p s) (hopen : 0 < openOf s) : SInv p (spawn p s) := by
  obtain ⟨⟨m, hm, R⟩, hc, hn, hp⟩ := h
  have ho : 0 < m.openStarts := by simpa [openOf, hm] using hopen
  have hcf := R.openc ho
  refine ⟨⟨m, hm, ⟨R.tasks, R.ctr, R.ups, R.dns, R.rejs, R.rss, R.res, R.sdcalls, ?_, R.openc⟩⟩, hc, hn, ?_⟩
  · intro hcm; rw [hcf] at hcm; cases hcm
  · intro h0
    obtain ⟨a, b, c, d, e, f⟩ := hp h0
    refine ⟨a, rfl, ?_, d, rfl, fun _ => rfl⟩
    intro w hw
    have : w = .sel := List.eq_of_mem_replicate hw
    subst this; rfl

theorem pres_set_worker {p : Params} {s s1 : St} {i : Nat} {w w' : WPc} (h : Pres p s s1)
    (hws : s1.workers = s.workers) (hi : s.workers[i]? = some w)
    (hw : w.isExited = false) (hlate : w'.late = true → 0 < s1.sdcalls) :
    Pres p s { s1 with workers := s1.workers.set i w' } :=
  ⟨sinv_set_worker h.inv (by rw [hws]; exact hi) hw hlate, h.openEq, h.sdmono⟩



/-! ## projections of `setT` and `emit` -/
section proj
variable (m : Mon) (t : Nat) (x : MT) (p : Params) (e : Ev) (s : St)
@[simp] theorem setT_tasks : (setT m t x).tasks = m.tasks.set t x := rfl
@[simp] theorem setT_ctr : (setT m t x).ctr = m.ctr := rfl
@[simp] theorem setT_ups : (setT m t x).ups = m.ups := rfl
@[simp] theorem setT_dns : (setT m t x).dns = m.dns := rfl
@[simp] theorem setT_rejs : (setT m t x).rejs = m.rejs := rfl
@[simp] theorem setT_rss : (setT m t x).rss = m.rss := rfl
@[simp] theorem setT_res : (setT m t x).res = m.res := rfl
@[simp] theorem setT_sdcalls : (setT m t x).sdcalls = m.sdcalls := rfl
@[simp] theorem setT_openStarts : (setT m t x).openStarts = m.openStarts := rfl
@[simp] theorem setT_completed : (setT m t x).completed = m.completed := rfl
@[simp] theorem emit_running : (emit p e s).running = s.running := rfl
@[simp] theorem emit_writer : (emit p e s).writer = s.writer := rfl
@[simp] theorem emit_pending : (emit p e s).pending = s.pending := rfl
@[simp] theorem emit_stackHeld : (emit p e s).stackHeld = s.stackHeld := rfl
@[simp] theorem emit_dwait : (emit p e s).dwait = s.dwait := rfl
@[simp] theorem emit_sig : (emit p e s).sig = s.sig := rfl
@[simp] theorem emit_closed : (emit p e s).closed = s.closed := rfl
@[simp] theorem emit_tasks : (emit p e s).tasks = s.tasks := rfl
@[simp] theorem emit_disp : (emit p e s).disp = s.disp := rfl
@[simp] theorem emit_workers : (emit p e s).workers = s.workers := rfl
@[simp] theorem emit_due : (emit p e s).due = s.due := rfl
@[simp] theorem emit_sent : (emit p e s).sent = s.sent := rfl
@[simp] theorem emit_broken : (emit p e s).broken = s.broken := rfl
@[simp] theorem emit_starts : (emit p e s).starts = s.starts := rfl
@[simp] theorem emit_sdcalls : (emit p e s).sdcalls = s.sdcalls := rfl
theorem emit_mon : (emit p e s).mon = s.mon.bind (fun m => monStep p.cancel m e) := rfl
end proj


theorem monUpd_same {m : Mon} {l : List Task} {t : Nat} {x : Task} (y : Task) (hm : m.tasks = l.map absT) (ht : l[t]? = some x)
    (habs : absT y = absT x) (h1 : fUp y = fUp x) (h2 : fDn y = fDn x) (h3 : fRej y = fRej x) (h4 : fRs y = fRs x)
    (h5 : fRe y = fRe x) (pend : Nat) (hp : m.ctr = pend) : MonUpd m m t x y pend := by
  refine ⟨?_, hp, by rw [h1], by rw [h2], by rw [h3], by rw [h4], by rw [h5], rfl, rfl, rfl⟩
  rw [habs]; exact (set_same _ _ _ (by rw [hm]; simp [ht])).symm

/-- `Submit`'s steps. -/
theorem pres_submitStep {p : Params} {s : St} {t : Nat} {r : St × Bool} (h : SInv p s)
    (hr : r ∈ submitStep p s t) : Pres p s r.1 ∧ r.1.workers = s.workers ∧ r.1.sdcalls = s.sdcalls := by
  unfold submitStep at hr
  cases ht : s.tasks[t]? with
  | none => simp [ht] at hr
  | some x =>
    obtain ⟨ph, ret, kids⟩ := x
    simp only [ht] at hr
    cases ret with
    | true => simp at hr
    | false =>
      simp only [Bool.false_eq_true, if_false] at hr
      cases ph
      case fresh =>
        by_cases hw : s.writer = true
        · simp [hw] at hr
        · by_cases hrun : s.running = true
          · simp [hw, hrun] at hr; subst hr
            rw [setPhase_eq ht]
            refine ⟨sinv_task_update (y := ⟨.counted, false, kids⟩) h ht rfl rfl rfl rfl rfl rfl rfl (by simp [fPend, Phase.pending, emit]) (by simp [fCanc, Phase.canc]) ?_, rfl, rfl⟩
            intro m hm R
            have hlen : m.tasks.length = s.tasks.length := by rw [R.tasks]; simp
            have hcond : m.ups + m.rejs < m.tasks.length := by
              rw [R.ups, R.rejs, hlen]
              exact countP_add_lt_of_get fUp fRej s.tasks t _ ht
                (by intro a; cases a with | mk ph r k => cases ph <;> simp [fUp, fRej, Phase.upd, Phase.isRej]) rfl rfl
            refine ⟨_, by simp [emit, hm, monStep, hcond, R.ctr]; rfl, ?_⟩
            refine ⟨?_, rfl, by simp [fUp, Phase.upd], by simp [fDn, Phase.dnd],
              by simp [fRej, Phase.isRej], by simp [fRs, Phase.started], by simp [fRe, Phase.ended], rfl, rfl, rfl⟩
            exact (set_same _ _ _ (by rw [R.tasks]; simp [ht]; rfl)).symm
          · simp [hw, hrun] at hr; subst hr
            rw [setPhase_eq ht]
            refine ⟨sinv_task_update (y := ⟨.rejected, false, kids⟩) h ht rfl rfl rfl rfl rfl rfl rfl (by simp [fPend, Phase.pending]) (by simp [fCanc, Phase.canc]) ?_, rfl, rfl⟩
            intro m hm R
            exact ⟨m, hm, monUpd_same ⟨.rejected, false, kids⟩ R.tasks ht rfl rfl rfl rfl rfl rfl _ R.ctr⟩
      case rejected =>
        simp at hr; subst hr
        rw [setReturned_eq ht]
        refine ⟨sinv_task_update (y := ⟨.rejected, true, kids⟩) h ht rfl rfl rfl rfl rfl rfl rfl (by simp [fPend, Phase.pending]) (by simp [fCanc, Phase.canc]) ?_, rfl, rfl⟩
        intro m hm R
        have hg := getT_abs R.tasks ht
        have hlt : t < m.tasks.length := by rw [R.tasks]; simpa using lt_of_get ht
        refine ⟨_, by simp [emit, hm, monStep, hlt, hg, absT, Phase.started]; rfl, ?_⟩
        exact ⟨by simp [setT, hg, absT, Phase.isRej, Phase.started, Phase.ended], R.ctr, by simp [fUp, Phase.upd], by simp [fDn, Phase.dnd],
          by simp [fRej, Phase.isRej], by simp [fRs, Phase.started], by simp [fRe, Phase.ended], rfl, rfl, rfl⟩
      case counted =>
        by_cases hsh : s.stackHeld = true
        · simp [hsh] at hr
        · simp [hsh] at hr; subst hr
          rw [setPhase_eq ht]
          refine ⟨sinv_task_update (y := ⟨.queued, false, kids⟩) h ht rfl rfl rfl rfl rfl rfl rfl (by simp [fPend, Phase.pending, bcast]) (by simp [fCanc, Phase.canc]) ?_, rfl, rfl⟩
          intro m hm R
          exact ⟨m, hm, monUpd_same ⟨.queued, false, kids⟩ R.tasks ht rfl rfl rfl rfl rfl rfl _ R.ctr⟩
      all_goals
        simp at hr; subst hr
        rw [setReturned_eq ht]
        refine ⟨sinv_task_update (y := ⟨_, true, kids⟩) h ht rfl rfl rfl rfl rfl rfl rfl (by simp [fPend, Phase.pending]) (by simp [fCanc, Phase.canc]) ?_, rfl, rfl⟩
        intro m hm R
        have hg := getT_abs R.tasks ht
        have hlt : t < m.tasks.length := by rw [R.tasks]; simpa using lt_of_get ht
        refine ⟨_, by simp [emit, hm, monStep, hlt, hg, absT]; rfl, ?_⟩
        exact ⟨by simp [setT, hg, absT, Phase.isRej, Phase.started, Phase.ended], R.ctr, by simp [fUp, Phase.upd], by simp [fDn, Phase.dnd],
          by simp [fRej, Phase.isRej], by simp [fRs, Phase.started], by simp [fRe, Phase.ended], rfl, rfl, rfl⟩

theorem Pres.trans {p : Params} {s s1 s2 : St} (a : Pres p s s1) (b : Pres p s1 s2) : Pres p s s2 :=
  ⟨b.inv, b.openEq.trans a.openEq, Nat.le_trans a.sdmono b.sdmono⟩

theorem idsIn_mem (ph : Phase) (l : List Task) (k t : Nat) (h : t ∈ idsIn ph l k) :
    k ≤ t ∧ ∃ x, l[t - k]? = some x ∧ x.phase = ph := by
  induction l generalizing k with
  | nil => simp [idsIn] at h
  | cons a as ih =>
    simp only [idsIn] at h
    by_cases ha : a.phase = ph
    · simp only [ha, if_true, List.mem_cons] at h
      rcases h with h | h
      · subst h; exact ⟨Nat.le_refl _, a, by simp, ha⟩
      · obtain ⟨h1, x, h2, h3⟩ := ih (k + 1) h
        refine ⟨by omega, x, ?_, h3⟩
        have : t - k = (t - (k + 1)) + 1 := by omega
        rw [this]; simpa using h2
    · simp only [ha, if_false] at h
      obtain ⟨h1, x, h2, h3⟩ := ih (k + 1) h
      refine ⟨by omega, x, ?_, h3⟩
      have : t - k = (t - (k + 1)) + 1 := by omega
      rw [this]; simpa using h2

theorem queued_get {s : St} {t : Nat} (h : t ∈ queuedIds s) : ∃ r k, s.tasks[t]? = some ⟨.queued, r, k⟩ := by
  obtain ⟨_, x, h2, h3⟩ := idsIn_mem _ _ _ _ h
  obtain ⟨ph, r, k⟩ := x
  simp at h3; subst h3
  exact ⟨r, k, by simpa using h2⟩

theorem chan_get {s : St} {t : Nat} (h : t ∈ chanIds s) : ∃ r k, s.tasks[t]? = some ⟨.inchan, r, k⟩ := by
  obtain ⟨_, x, h2, h3⟩ := idsIn_mem _ _ _ _ h
  obtain ⟨ph, r, k⟩ := x
  simp at h3; subst h3
  exact ⟨r, k, by simpa using h2⟩

/-- A phase change that the monitor does not see. -/
theorem pres_silent {p : Params} {s : St} {t : Nat} {ph ph' : Phase} {r : Bool} {k : List Body} (h : SInv p s)
    (ht : s.tasks[t]? = some ⟨ph, r, k⟩)
    (h0 : ph'.isRej = ph.isRej) (h1 : ph'.started = ph.started) (h2 : ph'.ended = ph.ended) (h3 : ph'.upd = ph.upd)
    (h4 : ph'.dnd = ph.dnd) (h5 : ph'.pending = ph.pending) (h6 : ph'.canc = true → ph.canc = true ∨ (p.cancel = true ∧ 0 < s.sdcalls)) :
    Pres p s (setPhase s t ph') := by
  rw [setPhase_eq ht]
  refine sinv_task_update (y := ⟨ph', r, k⟩) h ht rfl rfl rfl rfl rfl rfl rfl (by simp [fPend, h5]) (by simpa [fCanc] using h6) ?_
  intro m hm R
  exact ⟨m, hm, monUpd_same ⟨ph', r, k⟩ R.tasks ht (by simp [absT, h0, h1, h2]) (by simp [fUp, h3]) (by simp [fDn, h4])
    (by simp [fRej, h0]) (by simp [fRs, h1]) (by simp [fRe, h2]) _ R.ctr⟩

theorem pres_popOrCond {p : Params} {s s' : St} (h : SInv p s) (hd : s.disp = .pop ∨ s.disp = .waiting)
    (hs : s' ∈ popOrCond s) : Pres p s s' := by
  unfold popOrCond at hs
  by_cases hq : queuedIds s = []
  · simp [hq] at hs; subst hs
    refine pres_fields h rfl rfl rfl (Nat.le_refl _) rfl ?_ (fun m hm => ?_)
    · rintro h0 ⟨a, b, e, f⟩
      exact ⟨a, b, rfl, by rcases hd with hd | hd <;> simpa [hd] using f⟩
    · obtain ⟨m', hm', R⟩ := h.mon; rw [hm] at hm'; cases hm'; exact R.sdcalls
  · simp [hq] at hs
    obtain ⟨t, htq, rfl⟩ := hs
    obtain ⟨r, k, ht⟩ := queued_get htq
    have A := pres_silent (ph' := .popped) h ht rfl rfl rfl rfl rfl rfl (by simp [Phase.canc])
    refine A.trans (pres_fields A.inv rfl rfl rfl (Nat.le_refl _) rfl ?_ (fun m hm => ?_))
    · rintro h0 ⟨a, b, e, f⟩
      refine ⟨a, b, rfl, ?_⟩
      have : (setPhase s t .popped).disp = s.disp := by rw [setPhase_eq ht]
      rw [this] at f
      rcases hd with hd | hd <;> simpa [hd, setPhase_eq ht] using f
    · obtain ⟨m', hm', R⟩ := A.inv.mon; rw [hm] at hm'; cases hm'; exact R.sdcalls

/-- `pres_fields` for steps that do not touch `sdcalls`. -/
theorem pres_fields' {p : Params} {s s' : St} (h : SInv p s)
    (h1 : s'.mon = s.mon) (h2 : s'.tasks = s.tasks) (h3 : s'.pending = s.pending) (h4 : s'.sdcalls = s.sdcalls)
    (h5 : s'.workers = s.workers)
    (hpre : s.sdcalls = 0 →
      (s.sig = 0 ∧ s.closed = false ∧ s.disp.early = true ∧ (s.disp ≠ .none → s.running = true)) →
      s'.sig = 0 ∧ s'.closed = false ∧ s'.disp.early = true ∧ (s'.disp ≠ .none → s'.running = true)) : Pres p s s' := by
  refine pres_fields h h1 h2 h3 (by omega) h5 (fun h0 => hpre (by omega)) (fun m hm => ?_)
  obtain ⟨m', hm', R⟩ := h.mon; rw [hm] at hm'; cases hm'; rw [h4]; exact R.sdcalls

theorem pres_dispStep {p : Params} {s s' : St} (h : SInv p s) (hs : s' ∈ dispStep p s) :
    Pres p s s' ∧ s'.workers = s.workers := by
  unfold dispStep at hs
  cases hd : s.disp with
  | none => simp [hd] at hs
  | loop =>
    simp only [hd] at hs
    by_cases hw : s.writer = true
    · simp [hw] at hs
    · simp [hw] at hs; subst hs
      refine ⟨pres_fields' h rfl rfl rfl rfl rfl ?_, rfl⟩
      rintro h0 ⟨a, b, e, f⟩
      have hr : s.running = true := f (by simp [hd])
      exact ⟨a, b, by simp [hr, DPc.early], fun _ => hr⟩
  | chk =>
    simp only [hd] at hs
    simp at hs; subst hs
    refine ⟨pres_fields' h rfl rfl rfl rfl rfl ?_, rfl⟩
    rintro h0 ⟨a, b, e, f⟩
    simp [hd, DPc.early] at e
  | pop =>
    simp only [hd] at hs
    by_cases hw : s.stackHeld = true
    · simp [hw] at hs
    · simp [hw] at hs
      have := pres_popOrCond h (Or.inl hd) hs
      refine ⟨this, ?_⟩
      unfold popOrCond at hs
      by_cases hq : queuedIds s = []
      · simp [hq] at hs; subst hs; rfl
      · simp [hq] at hs; obtain ⟨t, _, rfl⟩ := hs; simp [setPhase]; split <;> rfl
  | cond =>
    simp only [hd] at hs
    by_cases hw : s.writer = true
    · simp [hw] at hs
    · simp [hw] at hs; subst hs
      refine ⟨pres_fields' h rfl rfl rfl rfl rfl ?_, rfl⟩
      rintro h0 ⟨a, b, e, f⟩
      have hr : s.running = true := f (by simp [hd])
      exact ⟨a, b, by simp [hr, DPc.early], fun _ => hr⟩
  | cond2 =>
    simp only [hd] at hs
    have hne : ∀ x, x ∈ (if 0 < s.pending then [{ s with disp := DPc.gap }]
        else [{ s with stackHeld := false, disp := DPc.loop }]) → Pres p s x ∧ x.workers = s.workers := by
      intro x hx
      split at hx <;> (simp at hx; subst hx)
      · refine ⟨pres_fields' h rfl rfl rfl rfl rfl ?_, rfl⟩
        rintro h0 ⟨a, b, e, f⟩; simp [hd, DPc.early] at e
      · refine ⟨pres_fields' h rfl rfl rfl rfl rfl ?_, rfl⟩
        rintro h0 ⟨a, b, e, f⟩; simp [hd, DPc.early] at e
    exact hne _ hs
  | gap =>
    simp only [hd] at hs
    simp at hs; subst hs
    refine ⟨pres_fields' h rfl rfl rfl rfl rfl ?_, rfl⟩
    rintro h0 ⟨a, b, e, f⟩
    exact ⟨a, b, rfl, fun _ => f (by simp [hd])⟩
  | waiting =>
    simp only [hd] at hs
    by_cases hw : (s.dwait || s.stackHeld) = true
    · simp [hw] at hs
    · simp [hw] at hs
      have := pres_popOrCond h (Or.inr hd) hs
      refine ⟨this, ?_⟩
      unfold popOrCond at hs
      by_cases hq : queuedIds s = []
      · simp [hq] at hs; subst hs; rfl
      · simp [hq] at hs; obtain ⟨t, _, rfl⟩ := hs; simp [setPhase]; split <;> rfl
  | send t =>
    simp only [hd] at hs
    by_cases hc : (chanIds s).length < p.W ∧ s.closed = false ∧ phaseOf s t = some .popped
    · simp [hc] at hs; subst hs
      obtain ⟨_, _, hph⟩ := hc
      unfold phaseOf at hph
      cases ht : s.tasks[t]? with
      | none => simp [ht] at hph
      | some x =>
        obtain ⟨ph, r, k⟩ := x
        simp [ht] at hph; subst hph
        have A := pres_silent (ph' := .inchan) h ht rfl rfl rfl rfl rfl rfl (by simp [Phase.canc])
        refine ⟨A.trans (pres_fields' A.inv rfl rfl rfl rfl rfl ?_), by rw [setPhase_eq ht]⟩
        rintro h0 ⟨a, b, e, f⟩
        refine ⟨a, b, rfl, fun _ => ?_⟩
        have := f (by rw [setPhase_eq ht]; simp [hd])
        simpa [setPhase_eq ht] using this
    · simp [hc] at hs
  | close =>
    simp only [hd] at hs
    simp at hs; subst hs
    refine ⟨pres_fields' h rfl rfl rfl rfl rfl ?_, rfl⟩
    rintro h0 ⟨a, b, e, f⟩
    simp [hd, DPc.early] at e

theorem countP_lin {α : Type} (l : List α) (f1 f2 f3 g1 g2 : α → Bool)
    (h : ∀ a, b2n (f1 a) + b2n (f2 a) + b2n (f3 a) ≤ b2n (g1 a) + b2n (g2 a)) :
    l.countP f1 + l.countP f2 + l.countP f3 ≤ l.countP g1 + l.countP g2 := by
  induction l with
  | nil => simp
  | cons a as ih =>
    have := h a
    simp only [List.countP_cons]
    revert this
    cases f1 a <;> cases f2 a <;> cases f3 a <;> cases g1 a <;> cases g2 a <;> simp [b2n] <;> omega

def Phase.isRan : Phase → Bool
  | .ran => true
  | _ => false
def Phase.isCing : Phase → Bool
  | .cancelling => true
  | _ => false
def fRan (x : Task) : Bool := x.phase.isRan
def fCing (x : Task) : Bool := x.phase.isCing
def fNone (_ : Task) : Bool := false

theorem lin_run (s : St) : cnt fDn s + cnt fRs s + cnt fRan s ≤ cnt fRe s + cnt fUp s :=
  countP_lin s.tasks fDn fRs fRan fRe fUp (by intro a; cases a with | mk ph r k => cases ph <;> simp [fDn, fRs, fRan, fRe, fUp, Phase.isRan, Phase.dnd, Phase.started, Phase.ended, Phase.upd])

theorem lin_nocanc (s : St) : cnt fDn s + cnt fRan s + cnt fNone s ≤ cnt fRe s + cnt fCanc s :=
  countP_lin s.tasks fDn fRan fNone fRe fCanc (by intro a; cases a with | mk ph r k => cases ph <;> simp [fDn, fRan, fRe, fCanc, fNone, Phase.isRan, Phase.dnd, Phase.ended, Phase.canc])

theorem lin_canc (s : St) : cnt fDn s + cnt fRs s + cnt fCing s ≤ cnt fRe s + cnt fUp s :=
  countP_lin s.tasks fDn fRs fCing fRe fUp (by intro a; cases a with | mk ph r k => cases ph <;> simp [fDn, fRs, fCing, fRe, fUp, Phase.isCing, Phase.dnd, Phase.started, Phase.ended, Phase.upd])

theorem lin_rs_up (s : St) : cnt fRs s + cnt fNone s + cnt fNone s ≤ cnt fUp s + cnt fNone s :=
  countP_lin s.tasks fRs fNone fNone fUp fNone (by intro a; cases a with | mk ph r k => cases ph <;> simp [fRs, fUp, fNone, Phase.started, Phase.upd])

theorem cnt_fNone (s : St) : cnt fNone s = 0 := by
  unfold cnt; induction s.tasks with
  | nil => rfl
  | cons a as ih => simp [List.countP_cons, fNone] at ih ⊢

/-- consequences of `presd` / `nocancel` read backwards -/
theorem SInv.sd_of_sig {p : Params} {s : St} (h : SInv p s) (hs : 0 < s.sig) : 0 < s.sdcalls := by
  rcases Nat.eq_zero_or_pos s.sdcalls with h0 | h0
  · have := (h.presd h0).1; omega
  · exact h0
theorem SInv.sd_of_closed {p : Params} {s : St} (h : SInv p s) (hs : s.closed = true) : 0 < s.sdcalls := by
  rcases Nat.eq_zero_or_pos s.sdcalls with h0 | h0
  · have := (h.presd h0).2.1; rw [hs] at this; cases this
  · exact h0
theorem SInv.sd_of_late {p : Params} {s : St} {w : WPc} (h : SInv p s) (hw : w ∈ s.workers) (hl : w.late = true) :
    0 < s.sdcalls := by
  rcases Nat.eq_zero_or_pos s.sdcalls with h0 | h0
  · have := (h.presd h0).2.2.1 w hw; rw [hl] at this; cases this
  · exact h0
theorem SInv.sd_of_canc {p : Params} {s : St} (h : SInv p s) (hc : 0 < cnt fCanc s) : 0 < s.sdcalls ∧ p.cancel = true := by
  constructor
  · rcases Nat.eq_zero_or_pos s.sdcalls with h0 | h0
    · have := (h.presd h0).2.2.2.1; omega
    · exact h0
  · cases hcc : p.cancel with
    | true => rfl
    | false => have := h.nocancel hcc; omega
theorem SInv.not_completed {p : Params} {s : St} {w : WPc} {m : Mon} (h : SInv p s) (hm : s.mon = some m)
    (hw : w ∈ s.workers) (he : w.isExited = false) : m.completed = false := by
  obtain ⟨m', hm', R⟩ := h.mon
  rw [hm] at hm'; cases hm'
  cases hcm : m.completed with
  | false => rfl
  | true => have := R.completed hcm w hw; rw [he] at this; cases this



theorem pres_rs {p : Params} {s : St} {t : Nat} {r : Bool} {k : List Body} (h : SInv p s)
    (ht : s.tasks[t]? = some ⟨.inchan, r, k⟩) (hc : ∀ m, s.mon = some m → m.completed = false) :
    Pres p s (emit p (.rs t) (setPhase s t .running)) := by
  rw [setPhase_eq ht]
  refine sinv_task_update (y := ⟨.running, r, k⟩) h ht rfl rfl rfl rfl rfl rfl rfl (by simp [fPend, Phase.pending]) (by simp [fCanc, Phase.canc]) ?_
  intro m hm R
  have hg := getT_abs R.tasks ht
  have hlt : t < m.tasks.length := by rw [R.tasks]; simpa using lt_of_get ht
  have hcm := hc m hm
  have hcond : t < m.tasks.length ∧ (getT m t).decided ≠ some false ∧ (getT m t).started = false ∧ m.completed = false := by
    rw [hg]; refine ⟨hlt, ?_, rfl, hcm⟩; cases r <;> simp [absT, Phase.isRej]
  refine ⟨{ setT m t { getT m t with started := true } with rss := m.rss + 1 }, by simp [emit, hm, monStep, hcond], ?_⟩
  refine ⟨?_, R.ctr, by simp [fUp, Phase.upd], by simp [fDn, Phase.dnd],
    by simp [fRej, Phase.isRej], by simp [fRs, Phase.started], by simp [fRe, Phase.ended], rfl, rfl, rfl⟩
  show m.tasks.set t { getT m t with started := true } = _
  rw [hg]; cases r <;> rfl

theorem pres_re {p : Params} {s : St} {t : Nat} {r : Bool} {k : List Body} (h : SInv p s)
    (ht : s.tasks[t]? = some ⟨.running, r, k⟩) (hc : ∀ m, s.mon = some m → m.completed = false) :
    Pres p s (emit p (.re t) (setPhase s t .ran)) := by
  rw [setPhase_eq ht]
  refine sinv_task_update (y := ⟨.ran, r, k⟩) h ht rfl rfl rfl rfl rfl rfl rfl (by simp [fPend, Phase.pending]) (by simp [fCanc, Phase.canc]) ?_
  intro m hm R
  have hg := getT_abs R.tasks ht
  have hlt : t < m.tasks.length := by rw [R.tasks]; simpa using lt_of_get ht
  have hcm := hc m hm
  have hcond : t < m.tasks.length ∧ (getT m t).started = true ∧ (getT m t).ended = false ∧ m.completed = false := by
    rw [hg]; exact ⟨hlt, rfl, rfl, hcm⟩
  refine ⟨{ setT m t { getT m t with ended := true } with res := m.res + 1 }, by simp [emit, hm, monStep, hcond], ?_⟩
  refine ⟨?_, R.ctr, by simp [fUp, Phase.upd], by simp [fDn, Phase.dnd],
    by simp [fRej, Phase.isRej], by simp [fRs, Phase.started], by simp [fRe, Phase.ended], rfl, rfl, rfl⟩
  show m.tasks.set t { getT m t with ended := true } = _
  rw [hg]; cases r <;> rfl

theorem pres_dn_run {p : Params} {s : St} {t : Nat} {r : Bool} {k : List Body} (h : SInv p s)
    (ht : s.tasks[t]? = some ⟨.ran, r, k⟩) (hc : ∀ m, s.mon = some m → m.completed = false) :
    ∀ d : Nat, Pres p s (emit p (.dn (s.pending - 1)) { setPhase s t .done with pending := s.pending - 1, due := d }) := by
  intro d
  have hpos : 0 < s.pending := by
    rw [h.cons]; exact countP_pos_of_get fPend s.tasks t _ ht rfl
  have hran : 0 < cnt fRan s := countP_pos_of_get fRan s.tasks t _ ht rfl
  rw [setPhase_eq ht]
  refine sinv_task_update (y := ⟨.done, r, k⟩) h ht rfl rfl rfl rfl rfl rfl rfl
    (by simp [fPend, Phase.pending]; omega) (by simp [fCanc, Phase.canc]) ?_
  intro m hm R
  have hcm := hc m hm
  have hbud : m.dns < m.res + cancelBudget p.cancel m := by
    rw [R.dns, R.res]
    unfold cancelBudget
    have l1 := lin_run s
    have l2 := lin_nocanc s
    have l3 := lin_rs_up s
    have l0 := cnt_fNone s
    by_cases hb : (p.cancel && decide (0 < m.sdcalls)) = true
    · simp only [hb, if_true]; rw [R.ups, R.rss]; omega
    · simp only [hb]
      have hz : cnt fCanc s = 0 := by
        rcases Nat.eq_zero_or_pos (cnt fCanc s) with hz | hz
        · exact hz
        · have := h.sd_of_canc hz; rw [R.sdcalls] at hb; simp [this.2, this.1] at hb
      simp; omega
  have hctr : s.pending - 1 + 1 = m.ctr := by rw [R.ctr]; omega
  refine ⟨{ m with ctr := s.pending - 1, dns := m.dns + 1 }, by simp [emit, hm, monStep, hcm, hbud, hctr], ?_⟩
  refine ⟨?_, rfl, by simp [fUp, Phase.upd], by simp [fDn, Phase.dnd],
    by simp [fRej, Phase.isRej], by simp [fRs, Phase.started], by simp [fRe, Phase.ended], rfl, rfl, rfl⟩
  exact (set_same _ _ _ (by rw [R.tasks]; simp [ht]; rfl)).symm

theorem pres_dn_cancel {p : Params} {s : St} {t : Nat} {r : Bool} {k : List Body} (h : SInv p s)
    (ht : s.tasks[t]? = some ⟨.cancelling, r, k⟩) (hc : ∀ m, s.mon = some m → m.completed = false) :
    ∀ d : Nat, Pres p s (emit p (.dn (s.pending - 1)) { setPhase s t .cancelled with pending := s.pending - 1, due := d }) := by
  intro d
  have hpos : 0 < s.pending := by
    rw [h.cons]; exact countP_pos_of_get fPend s.tasks t _ ht rfl
  have hcing : 0 < cnt fCing s := countP_pos_of_get fCing s.tasks t _ ht rfl
  have hcanc : 0 < cnt fCanc s := countP_pos_of_get fCanc s.tasks t _ ht rfl
  rw [setPhase_eq ht]
  refine sinv_task_update (y := ⟨.cancelled, r, k⟩) h ht rfl rfl rfl rfl rfl rfl rfl
    (by simp [fPend, Phase.pending]; omega) (by simp [fCanc, Phase.canc]) ?_
  intro m hm R
  have hcm := hc m hm
  have hbud : m.dns < m.res + cancelBudget p.cancel m := by
    rw [R.dns, R.res]
    unfold cancelBudget
    have l1 := lin_canc s
    have l3 := lin_rs_up s
    have l0 := cnt_fNone s
    have := h.sd_of_canc hcanc
    simp [this.2, R.sdcalls, this.1]; rw [R.ups, R.rss]; omega
  have hctr : s.pending - 1 + 1 = m.ctr := by rw [R.ctr]; omega
  refine ⟨{ m with ctr := s.pending - 1, dns := m.dns + 1 }, by simp [emit, hm, monStep, hcm, hbud, hctr], ?_⟩
  refine ⟨?_, rfl, by simp [fUp, Phase.upd], by simp [fDn, Phase.dnd],
    by simp [fRej, Phase.isRej], by simp [fRs, Phase.started], by simp [fRe, Phase.ended], rfl, rfl, rfl⟩
  exact (set_same _ _ _ (by rw [R.tasks]; simp [ht]; rfl)).symm



theorem pres_refl {p : Params} {s : St} (h : SInv p s) : Pres p s s :=
  pres_fields' h rfl rfl rfl rfl rfl (fun _ x => x)

theorem pres_sig_dec {p : Params} {s : St} (h : SInv p s) (hs : 0 < s.sig) :
    Pres p s { s with sig := s.sig - 1 } :=
  pres_fields' h rfl rfl rfl rfl rfl (fun h0 _ => by have := h.sd_of_sig hs; omega)

theorem pres_takeRun {p : Params} {s : St} {t : Nat} {dr : Bool} {w : WPc} (h : SInv p s) (hw : w ∈ s.workers)
    (he : w.isExited = false) (ht : t ∈ chanIds s) : Pres p s (takeRun p s dr t).1 := by
  obtain ⟨r, k, ht⟩ := chan_get ht
  exact pres_rs h ht (fun m hm => h.not_completed hm hw he)

/-- The steps of a worker (`r.1` still has the old worker list). -/
theorem pres_wStep {p : Params} {s : St} {w : WPc} {r : St × WPc} (h : SInv p s) (hw : w ∈ s.workers)
    (hr : r ∈ wStep p s w) :
    Pres p s r.1 ∧ r.1.workers = s.workers ∧ w.isExited = false ∧ (r.2.late = true → 0 < r.1.sdcalls) := by
  cases w with
  | exited => simp [wStep] at hr
  | sel =>
    simp only [wStep] at hr
    by_cases hs : 0 < s.sig
    · simp [hs] at hr; subst hr
      exact ⟨pres_sig_dec h hs, rfl, rfl, fun _ => h.sd_of_sig hs⟩
    · simp [hs] at hr; subst hr
      exact ⟨pres_refl h, rfl, rfl, by simp [WPc.late]⟩
  | sel2 =>
    simp only [wStep, List.mem_append] at hr
    rcases hr with (hr | hr) | hr
    · by_cases hs : 0 < s.sig
      · simp [hs] at hr; subst hr
        exact ⟨pres_sig_dec h hs, rfl, rfl, fun _ => h.sd_of_sig hs⟩
      · simp [hs] at hr
    · simp only [List.mem_map] at hr
      obtain ⟨t, ht, rfl⟩ := hr
      refine ⟨pres_takeRun h hw rfl ht, ?_, rfl, by simp [takeRun, WPc.late]⟩
      simp [takeRun, setPhase]; split <;> rfl
    · by_cases hc : s.closed = true ∧ chanIds s = []
      · simp [hc] at hr; subst hr
        exact ⟨pres_refl h, rfl, rfl, fun _ => h.sd_of_closed hc.1⟩
      · simp [hc] at hr
  | drain =>
    have hsd := h.sd_of_late hw rfl
    simp only [wStep, List.mem_append] at hr
    rcases hr with hr | hr
    · simp only [List.mem_map] at hr
      obtain ⟨t, ht, rfl⟩ := hr
      by_cases hcc : p.cancel = true
      · simp only [hcc, if_true]
        obtain ⟨r, k, ht'⟩ := chan_get ht
        refine ⟨pres_silent (ph' := .cancelling) h ht' rfl rfl rfl rfl rfl rfl (fun _ => Or.inr ⟨hcc, hsd⟩), ?_, rfl, ?_⟩
        · rw [setPhase_eq ht']
        · intro _; rw [setPhase_eq ht']; exact hsd
      · rw [if_neg hcc]
        refine ⟨pres_takeRun h hw rfl ht, ?_, rfl, fun _ => ?_⟩
        · simp [takeRun, setPhase]; split <;> rfl
        · have := (pres_takeRun (dr := true) h hw rfl ht).sdmono; omega
    · by_cases hc : s.closed = true ∧ chanIds s = []
      · simp [hc] at hr; subst hr
        exact ⟨pres_refl h, rfl, rfl, fun _ => hsd⟩
      · simp [hc] at hr
  | run t todo sub dr =>
    have hsd : dr = true → 0 < s.sdcalls := fun hd => h.sd_of_late hw (by simp [WPc.late, hd])
    simp only [wStep] at hr
    cases sub with
    | some c =>
      simp only [List.mem_map] at hr
      obtain ⟨q, hq, rfl⟩ := hr
      obtain ⟨a, b, c'⟩ := pres_submitStep h hq
      exact ⟨a, b, rfl, fun hl => by rw [c']; exact hsd (by simpa [WPc.late] using hl)⟩
    | none =>
      cases todo with
      | cons b rest =>
        simp at hr; subst hr
        exact ⟨pres_newTask h _, rfl, rfl, fun hl => hsd (by simpa [WPc.late] using hl)⟩
      | nil =>
        simp only at hr
        by_cases hph : phaseOf s t = some .running
        · simp [hph] at hr; subst hr
          unfold phaseOf at hph
          cases ht : s.tasks[t]? with
          | none => simp [ht] at hph
          | some x =>
            obtain ⟨ph, r, k⟩ := x
            simp [ht] at hph; subst hph
            refine ⟨pres_re h ht (fun m hm => h.not_completed hm hw rfl), by rw [setPhase_eq ht]; rfl, rfl, fun hl => ?_⟩
            rw [setPhase_eq ht]; exact hsd (by simpa [WPc.late] using hl)
        · simp [hph] at hr
  | mark t dr =>
    have hsd : dr = true → 0 < s.sdcalls := fun hd => h.sd_of_late hw (by simp [WPc.late, hd])
    simp only [wStep] at hr
    unfold phaseOf at hr
    cases ht : s.tasks[t]? with
    | none => simp [ht] at hr
    | some x =>
      obtain ⟨ph, r, k⟩ := x
      simp only [ht, Option.map_some] at hr
      cases ph <;> simp at hr
      case ran =>
        subst hr
        have hsame : (markDone p s t .done dr).1.workers = s.workers ∧ (markDone p s t .done dr).1.sdcalls = s.sdcalls := by
          unfold markDone; split <;> (rw [setPhase_eq ht]; exact ⟨rfl, rfl⟩)
        have hlate : (markDone p s t .done dr).2.late = true → dr = true := by
          unfold markDone; split <;> cases dr <;> simp [WPc.late]
        refine ⟨?_, hsame.1, rfl, fun hl => by rw [hsame.2]; exact hsd (hlate hl)⟩
        unfold markDone
        by_cases hp : s.pending = 1
        · rw [if_pos hp]
          have := pres_dn_run h ht (fun m hm => h.not_completed hm hw rfl) (s.due + 1)
          simpa [hp] using this
        · rw [if_neg hp]
          exact pres_dn_run h ht (fun m hm => h.not_completed hm hw rfl) (setPhase s t .done).due
      case cancelling =>
        subst hr
        have hcanc : 0 < cnt fCanc s := countP_pos_of_get fCanc s.tasks t _ ht rfl
        have hsame : (markDone p s t .cancelled true).1.workers = s.workers ∧ (markDone p s t .cancelled true).1.sdcalls = s.sdcalls := by
          unfold markDone; split <;> (rw [setPhase_eq ht]; exact ⟨rfl, rfl⟩)
        refine ⟨?_, hsame.1, rfl, fun _ => by rw [hsame.2]; exact (h.sd_of_canc hcanc).1⟩
        unfold markDone
        by_cases hp : s.pending = 1
        · rw [if_pos hp]
          have := pres_dn_cancel h ht (fun m hm => h.not_completed hm hw rfl) (s.due + 1)
          simpa [hp] using this
        · rw [if_neg hp]
          exact pres_dn_cancel h ht (fun m hm => h.not_completed hm hw rfl) (setPhase s t .cancelled).due
  | signal dr =>
    have hsd : dr = true → 0 < s.sdcalls := fun hd => h.sd_of_late hw (by simp [WPc.late, hd])
    simp only [wStep] at hr
    by_cases hsh : s.stackHeld = true
    · simp [hsh] at hr
    · simp [hsh] at hr; subst hr
      refine ⟨pres_fields' h rfl rfl rfl rfl rfl (fun _ x => x), rfl, rfl, fun hl => ?_⟩
      cases dr with
      | true => exact hsd rfl
      | false => simp [WPc.late] at hl

theorem pres_runnerStep {p : Params} {s s' : St} (h : SInv p s) (hs : s' ∈ runnerStep p s) : Pres p s s' := by
  unfold runnerStep at hs
  rcases List.mem_append.mp hs with hs | hs
  · exact (pres_dispStep h hs).1
  · obtain ⟨i, _, hi⟩ := List.mem_flatMap.mp hs
    cases hw : s.workers[i]? with
    | none => simp [hw] at hi
    | some w =>
      simp only [hw, List.mem_map] at hi
      obtain ⟨r, hr, rfl⟩ := hi
      obtain ⟨a, b, c, d⟩ := pres_wStep h (List.mem_of_getElem? hw) hr
      exact pres_set_worker a b hw c d

def CPc.inStart : CPc → Bool
  | .stTry | .stWait => true
  | _ => false

def CPc.inSd : CPc → Bool
  | .sd1 | .sdSend _ | .sdUnlockS | .sdUnlockN | .sdBcast => true
  | _ => false

/-- The steps of a client thread. -/
theorem pres_clientStep {p : Params} {s : St} {c : Client} {r : St × Client} (h : SInv p s)
    (hsd : c.pc.inSd = true → 0 < s.sdcalls) (hst : c.pc.inStart = true → 0 < openOf s)
    (hr : r ∈ clientStep p s c) :
    SInv p r.1 ∧ s.sdcalls ≤ r.1.sdcalls ∧ openOf r.1 + b2n c.pc.inStart = openOf s + b2n r.2.pc.inStart ∧
      (r.2.pc.inSd = true → 0 < r.1.sdcalls) := by
  obtain ⟨pc, script⟩ := c
  obtain ⟨m, hm, R⟩ := h.mon
  have hopen : openOf s = m.openStarts := by simp [openOf, hm]
  have fin : ∀ {s' : St} {c' : Client}, Pres p s s' → c'.pc.inStart = pc.inStart → (c'.pc.inSd = true → pc.inSd = true) →
      SInv p s' ∧ s.sdcalls ≤ s'.sdcalls ∧ openOf s' + b2n pc.inStart = openOf s + b2n c'.pc.inStart ∧
        (c'.pc.inSd = true → 0 < s'.sdcalls) := by
    intro s' c' P e1 e2
    exact ⟨P.inv, P.sdmono, by rw [P.openEq, e1], fun x => Nat.lt_of_lt_of_le (hsd (e2 x)) P.sdmono⟩
  cases pc
  case idle =>
    simp only [clientStep] at hr
    cases script with
    | nil => simp at hr
    | cons op rest =>
      cases op with
      | submit b => simp at hr; subst hr; exact fin (pres_newTask h _) rfl (by simp [CPc.inSd])
      | shutdown =>
        simp at hr; subst hr
        have I : SInv p (emit p .sdcall { s with sdcalls := s.sdcalls + 1 }) := by
          refine sinv_mon_only (m' := { m with sdcalls := m.sdcalls + 1 }) h rfl rfl (by simp) rfl rfl rfl rfl rfl ?_
          intro m0 hm0; rw [hm] at hm0; cases hm0
          exact ⟨by simp [emit, hm, monStep], rfl, rfl, rfl, rfl, rfl, rfl, rfl, by simp [R.sdcalls], fun x => Or.inl x, R.openc⟩
        refine ⟨I, by simp, ?_, fun _ => by simp⟩
        simp [openOf, emit, hm, monStep, CPc.inStart]
      | start =>
        simp at hr; subst hr
        have I : SInv p (emit p .startcall s) := by
          refine sinv_mon_only (m' := { m with openStarts := m.openStarts + 1, completed := false }) h rfl rfl (Nat.le_refl _) rfl rfl rfl rfl rfl ?_
          intro m0 hm0; rw [hm] at hm0; cases hm0
          exact ⟨by simp [emit, hm, monStep], rfl, rfl, rfl, rfl, rfl, rfl, rfl, R.sdcalls, fun x => (by simp at x), fun _ => rfl⟩
        refine ⟨I, by simp, ?_, by simp [CPc.inSd]⟩
        simp [openOf, emit, hm, monStep, CPc.inStart, b2n]
      | waitComplete => simp at hr; subst hr; exact fin (pres_refl h) rfl (by simp [CPc.inSd])
      | waitZero => simp at hr; subst hr; exact fin (pres_refl h) rfl (by simp [CPc.inSd])
      | waitAbove n => simp at hr; subst hr; exact fin (pres_refl h) rfl (by simp [CPc.inSd])
  case sub t =>
    simp only [clientStep, List.mem_map] at hr
    obtain ⟨q, hq, rfl⟩ := hr
    refine fin (pres_submitStep h hq).1 ?_ ?_
    · cases q.2 <;> rfl
    · cases q.2 <;> simp [CPc.inSd]
  case sd1 =>
    have hs0 := hsd rfl
    simp only [clientStep] at hr
    by_cases hw : s.writer = true
    · simp [hw] at hr
    · by_cases hrun : s.running = true
      · simp [hw, hrun] at hr; subst hr
        exact fin (pres_fields' h rfl rfl rfl rfl rfl (fun h0 _ => by omega)) rfl (fun _ => rfl)
      · simp [hw, hrun] at hr; subst hr
        exact fin (pres_fields' h rfl rfl rfl rfl rfl (fun h0 _ => by omega)) rfl (fun _ => rfl)
  case sdSend j =>
    have hs0 := hsd rfl
    simp only [clientStep] at hr
    by_cases hj : j < p.W
    · by_cases hsg : s.sig < p.W
      · simp [hj, hsg] at hr; subst hr
        exact fin (pres_fields' h rfl rfl rfl rfl rfl (fun h0 _ => by omega)) rfl (fun _ => rfl)
      · simp [hj, hsg] at hr
    · simp [hj] at hr; subst hr
      exact fin (pres_refl h) rfl (fun _ => rfl)
  case sdUnlockS =>
    simp only [clientStep] at hr
    simp at hr; subst hr
    exact fin (pres_fields' h rfl rfl rfl rfl rfl (fun _ x => x)) rfl (fun _ => rfl)
  case sdUnlockN =>
    simp only [clientStep] at hr
    simp at hr; subst hr
    have I : SInv p (emit p .sdret { s with writer := false }) := by
      refine sinv_mon_only (m' := m) h rfl rfl (Nat.le_refl _) rfl rfl rfl rfl rfl ?_
      intro m0 hm0; rw [hm] at hm0; cases hm0
      exact ⟨by simp [emit, hm, monStep], rfl, rfl, rfl, rfl, rfl, rfl, rfl, R.sdcalls, fun x => Or.inl x, R.openc⟩
    refine ⟨I, by simp, ?_, by simp [CPc.inSd]⟩
    simp [openOf, emit, hm, monStep, CPc.inStart]
  case sdBcast =>
    simp only [clientStep] at hr
    by_cases hsh : s.stackHeld = true
    · simp [hsh] at hr
    · rw [if_neg hsh] at hr; simp at hr; subst hr
      have I : SInv p (emit p .sdret { bcast s with due := s.due - 1 }) := by
        refine sinv_mon_only (m' := m) h rfl rfl (Nat.le_refl _) rfl rfl rfl rfl rfl ?_
        intro m0 hm0; rw [hm] at hm0; cases hm0
        exact ⟨by simp [emit, hm, monStep, bcast], rfl, rfl, rfl, rfl, rfl, rfl, rfl, R.sdcalls, fun x => Or.inl x, R.openc⟩
      refine ⟨I, by simp [bcast], ?_, by simp [CPc.inSd]⟩
      simp [openOf, emit, hm, monStep, CPc.inStart, bcast]
  case stTry =>
    have ho : 0 < m.openStarts := by rw [← hopen]; exact hst rfl
    simp only [clientStep] at hr
    by_cases hw : s.writer = true
    · simp [hw] at hr
    · have retI : ∀ s1 : St, SInv p s1 → s1.mon = s.mon → SInv p (emit p .startret s1) := by
        intro s1 h1 hm1
        obtain ⟨m1, hm1', R1⟩ := h1.mon
        have : m1 = m := by rw [hm1, hm] at hm1'; exact (Option.some.inj hm1').symm
        subst this
        refine sinv_mon_only (m' := { m1 with openStarts := m1.openStarts - 1 }) h1 rfl rfl (Nat.le_refl _) rfl rfl rfl rfl rfl ?_
        intro m0 hm0; rw [hm1'] at hm0; cases hm0
        exact ⟨by simp [emit, hm1', monStep], rfl, rfl, rfl, rfl, rfl, rfl, rfl, R1.sdcalls, fun x => Or.inl x, fun _ => R1.openc ho⟩
      by_cases hrun : s.running = true
      · simp [hw, hrun] at hr; subst hr
        refine ⟨retI s h rfl, by simp, ?_, by simp [CPc.inSd]⟩
        simp [openOf, emit, hm, monStep, CPc.inStart, b2n]; omega
      · by_cases hz : wg s = 0
        · simp [hw, hrun, hz] at hr; subst hr
          have hS := sinv_spawn h (hst rfl)
          refine ⟨retI (spawn p s) hS rfl, by simp [spawn], ?_, by simp [CPc.inSd]⟩
          simp [openOf, emit, spawn, hm, monStep, CPc.inStart, b2n]; omega
        · simp [hw, hrun, hz] at hr; subst hr
          exact fin (pres_refl h) rfl (by simp [CPc.inSd])
  case stWait =>
    simp only [clientStep] at hr
    by_cases hz : wg s = 0
    · simp [hz] at hr; subst hr; exact fin (pres_refl h) rfl (by simp [CPc.inSd])
    · simp [hz] at hr
  case wc =>
    simp only [clientStep] at hr
    by_cases hz : wg s = 0
    · simp [hz] at hr; subst hr
      have hall : ∀ w ∈ s.workers, w.isExited = true := by
        intro w hw
        cases he : w.isExited with
        | true => rfl
        | false =>
          have : 0 < wg s := List.countP_pos_iff.mpr ⟨w, hw, by simp [he]⟩
          omega
      have I : SInv p (emit p .complete s) := by
        refine sinv_mon_only (m' := if m.openStarts = 0 then { m with completed := true } else m) h rfl rfl (Nat.le_refl _) rfl rfl rfl rfl rfl ?_
        intro m0 hm0; rw [hm] at hm0; cases hm0
        refine ⟨by simp [emit, hm, monStep], ?_⟩
        by_cases h0 : m.openStarts = 0
        · rw [if_pos h0]
          exact ⟨rfl, rfl, rfl, rfl, rfl, rfl, rfl, R.sdcalls, fun _ => Or.inr hall, fun x => by have x' : 0 < m.openStarts := x; omega⟩
        · rw [if_neg h0]
          exact ⟨rfl, rfl, rfl, rfl, rfl, rfl, rfl, R.sdcalls, fun x => Or.inl x, R.openc⟩
      refine ⟨I, by simp, ?_, by simp [CPc.inSd]⟩
      simp [openOf, emit, hm, monStep, CPc.inStart]
      split <;> rfl
    · simp [hz] at hr
  case wz =>
    simp only [clientStep] at hr
    by_cases hz : s.pending = 0
    · simp [hz] at hr; subst hr; exact fin (pres_fields' h rfl rfl (by simp [hz]) rfl rfl (fun _ x => x)) rfl (by simp [CPc.inSd])
    · simp [hz] at hr
  case wa n =>
    simp only [clientStep] at hr
    split at hr
    · simp at hr
    · split at hr
      · simp at hr; subst hr; exact fin (pres_refl h) rfl (by simp [CPc.inSd])
      · simp at hr; subst hr; exact fin (pres_fields' h rfl rfl rfl rfl rfl (fun _ x => x)) rfl (by simp [CPc.inSd])
  case waSleep n =>
    simp only [clientStep] at hr
    split at hr
    · simp at hr; subst hr; exact fin (pres_fields' h rfl rfl rfl rfl rfl (fun _ x => x)) rfl (by simp [CPc.inSd])
    · simp at hr

def Thr.inStart : Thr → Bool
  | .client c => c.pc.inStart
  | .runner => false

def Thr.inSd : Thr → Bool
  | .client c => c.pc.inSd
  | .runner => false

/-- The invariant of whole configurations. -/
structure GInv (p : Params) (c : Cfg St Thr) : Prop where
  st : SInv p c.1
  sd : ∀ t ∈ c.2, t.inSd = true → 0 < c.1.sdcalls
  opens : openOf c.1 = c.2.countP Thr.inStart

theorem sinv_init (p : Params) : SInv p St.init := by
  refine ⟨⟨Mon.init, rfl, ?_⟩, rfl, fun _ => rfl, fun _ => ⟨rfl, rfl, ?_, rfl, rfl, fun x => absurd rfl x⟩⟩
  · exact ⟨rfl, rfl, rfl, rfl, rfl, rfl, rfl, rfl, fun x => (by simp [Mon.init] at x), fun x => (by simp [Mon.init] at x)⟩
  · intro w hw; simp [St.init] at hw

/-- Threads that have not started anything yet (any scripts). -/
def Thr.fresh : Thr → Bool
  | .client c => c.pc == .idle
  | .runner => true

theorem ginv_init (p : Params) (ts : List Thr) (h : ∀ t ∈ ts, t.fresh = true) : GInv p (St.init, ts) := by
  have hno : ∀ t ∈ ts, t.inStart = false ∧ t.inSd = false := by
    intro t ht
    have := h t ht
    cases t with
    | runner => exact ⟨rfl, rfl⟩
    | client c =>
      obtain ⟨pc, sc⟩ := c
      simp [Thr.fresh] at this; subst this; exact ⟨rfl, rfl⟩
  refine ⟨sinv_init p, ?_, ?_⟩
  · intro t ht hs; rw [(hno t ht).2] at hs; cases hs
  · show 0 = _
    symm; rw [List.countP_eq_zero]
    intro t ht; simp [(hno t ht).1]

theorem ginv_step (p : Params) (a b : Cfg St Thr) (h : GInv p a) (hs : Step (sys p) a b) : GInv p b := by
  cases hs with
  | mk s pre t post s' t' hmem =>
    obtain ⟨hst, hsd, hop⟩ := h
    simp only at hst hsd hop
    rw [countP_mid] at hop
    cases t with
    | runner =>
      simp only [sys, List.mem_map] at hmem
      obtain ⟨s'', hs'', heq⟩ := hmem
      cases heq
      have P := pres_runnerStep hst hs''
      refine ⟨P.inv, ?_, ?_⟩
      · intro u hu hus
        exact Nat.lt_of_lt_of_le (hsd u hu hus) P.sdmono
      · show openOf s' = _
        rw [countP_mid, P.openEq]; exact hop
    | client c =>
      simp only [sys, List.mem_map] at hmem
      obtain ⟨r, hr, heq⟩ := hmem
      cases heq
      have hin : Thr.client c ∈ pre ++ Thr.client c :: post := by simp
      have hopen : c.pc.inStart = true → 0 < openOf s := by
        intro hc; rw [hop]; simp [Thr.inStart, hc]; omega
      obtain ⟨I, mono, eqo, sd'⟩ := pres_clientStep hst (fun x => hsd _ hin x) hopen hr
      refine ⟨I, ?_, ?_⟩
      · intro u hu hus
        simp only [List.mem_append, List.mem_cons] at hu
        rcases hu with hu | hu | hu
        · exact Nat.lt_of_lt_of_le (hsd u (by simp [hu]) hus) mono
        · subst hu; exact sd' hus
        · exact Nat.lt_of_lt_of_le (hsd u (by simp [hu]) hus) mono
      · show openOf r.1 = _
        rw [countP_mid]
        have hop' : openOf s = pre.countP Thr.inStart + b2n c.pc.inStart + post.countP Thr.inStart := hop
        show openOf r.1 = pre.countP Thr.inStart + b2n r.2.pc.inStart + post.countP Thr.inStart
        omega

theorem ginv_reach (p : Params) (ts : List Thr) (h : ∀ t ∈ ts, t.fresh = true) (c : Cfg St Thr)
    (hr : Reach (sys p) (St.init, ts) c) : GInv p c :=
  inv_induction (GInv p) (ginv_init p ts h) (ginv_step p) hr


end Hive.WP
