import Hive.Model.WorkerPool
/-!
# C16 — safety invariant of the WorkerPool protocol model

`SInv` ties the pool state to the state of the trace monitor (which is fed every emitted event):
the monitor never rejects, the pending counter equals the number of tasks in a pending phase, and a
completed shutdown means that no worker is alive.  Helper lemmas only; the property theorems are in
`Hive/Props/C16.lean`.
-/
set_option linter.unusedSimpArgs false
set_option linter.unusedVariables false

namespace Hive.WP
open Hive.Conc

/-! ## counting under `List.set` / append -/

def b2n (b : Bool) : Nat := if b then 1 else 0

@[simp] theorem b2n_true : b2n true = 1 := rfl
@[simp] theorem b2n_false : b2n false = 0 := rfl

theorem countP_set_add {α : Type} (f : α → Bool) (l : List α) (i : Nat) (x y : α) (h : l[i]? = some x) :
    (l.set i y).countP f + b2n (f x) = l.countP f + b2n (f y) := by
  induction l generalizing i with
  | nil => simp at h
  | cons a as ih =>
    cases i with
    | zero =>
      simp at h; subst h
      simp only [List.set_cons_zero, List.countP_cons, b2n]
      cases f a <;> cases f y <;> simp <;> omega
    | succ n =>
      simp at h
      have := ih n h
      simp only [List.set_cons_succ, List.countP_cons]
      omega

theorem countP_pos_of_get {α : Type} (f : α → Bool) (l : List α) (i : Nat) (x : α) (h : l[i]? = some x)
    (hf : f x = true) : 0 < l.countP f := by
  have hm : x ∈ l := List.mem_of_getElem? h
  exact List.countP_pos_iff.mpr ⟨x, hm, hf⟩

theorem countP_add_lt_of_get {α : Type} (f g : α → Bool) (l : List α) (i : Nat) (x : α) (h : l[i]? = some x)
    (hdis : ∀ a, ¬ (f a = true ∧ g a = true)) (hf : f x = false) (hg : g x = false) :
    l.countP f + l.countP g < l.length := by
  induction l generalizing i with
  | nil => simp at h
  | cons a as ih =>
    have hle : ∀ (l : List α), l.countP f + l.countP g ≤ l.length := by
      intro l
      induction l with
      | nil => simp
      | cons b bs ihb =>
        simp only [List.countP_cons, List.length_cons]
        have := hdis b
        cases hfb : f b <;> cases hgb : g b <;> simp_all <;> omega
    cases i with
    | zero =>
      simp at h; subst h
      simp only [List.countP_cons, List.length_cons, hf, hg]
      have := hle as
      simp; omega
    | succ n =>
      simp at h
      have := ih n h
      have hd := hdis a
      simp only [List.countP_cons, List.length_cons]
      cases hfa : f a <;> cases hga : g a <;> simp_all <;> omega

/-! ## predicates on tasks -/

def Phase.upd : Phase → Bool        -- the counter was increased for this task
  | .counted | .queued | .popped | .inchan | .running | .ran | .done | .cancelling | .cancelled => true
  | _ => false
def Phase.started : Phase → Bool
  | .running | .ran | .done => true
  | _ => false
def Phase.ended : Phase → Bool
  | .ran | .done => true
  | _ => false
def Phase.dnd : Phase → Bool        -- the counter was decreased for this task
  | .done | .cancelled => true
  | _ => false
def Phase.canc : Phase → Bool
  | .cancelling | .cancelled => true
  | _ => false
def Phase.isRej : Phase → Bool
  | .rejected => true
  | _ => false

/-- What the monitor knows about a task, as a function of its record. -/
def absT (x : Task) : MT :=
  { decided := if x.returned then some (!x.phase.isRej) else none,
    started := x.phase.started, ended := x.phase.ended }

def cnt (f : Task → Bool) (s : St) : Nat := s.tasks.countP f

def fPend (x : Task) : Bool := x.phase.pending
def fUp (x : Task) : Bool := x.phase.upd
def fDn (x : Task) : Bool := x.phase.dnd
def fRej (x : Task) : Bool := x.phase.isRej && x.returned
def fRs (x : Task) : Bool := x.phase.started
def fRe (x : Task) : Bool := x.phase.ended
def fCanc (x : Task) : Bool := x.phase.canc

/-- Worker program counters that exist only after a shutdown signal / a closed channel. -/
def WPc.late : WPc → Bool
  | .drain | .exited => true
  | .run _ _ _ dr => dr
  | .mark _ dr => dr
  | _ => false

def DPc.early : DPc → Bool
  | .size | .waitZero | .close => false
  | _ => true

structure MonRel (p : Params) (s : St) (m : Mon) : Prop where
  tasks : m.tasks = s.tasks.map absT
  ctr : m.ctr = s.pending
  ups : m.ups = cnt fUp s
  dns : m.dns = cnt fDn s
  rejs : m.rejs = cnt fRej s
  rss : m.rss = cnt fRs s
  res : m.res = cnt fRe s
  sdcalls : m.sdcalls = s.sdcalls
  completed : m.completed = true → ∀ w ∈ s.workers, w.isExited = true
  openc : 0 < m.openStarts → m.completed = false

structure SInv (p : Params) (s : St) : Prop where
  mon : ∃ m, s.mon = some m ∧ MonRel p s m
  cons : s.pending = cnt fPend s
  nocancel : p.cancel = false → cnt fCanc s = 0
  presd : s.sdcalls = 0 → s.sig = 0 ∧ s.closed = false ∧ (∀ w ∈ s.workers, w.late = false) ∧ cnt fCanc s = 0 ∧
            s.disp.early = true ∧ (s.disp ≠ .none → s.running = true)

end Hive.WP

namespace Hive.WP
open Hive.Conc

/-! ## task updates -/

theorem setPhase_eq {s : St} {t : Nat} {x : Task} (h : s.tasks[t]? = some x) (ph : Phase) :
    setPhase s t ph = { s with tasks := s.tasks.set t { x with phase := ph } } := by
  simp [setPhase, h]

theorem setReturned_eq {s : St} {t : Nat} {x : Task} (h : s.tasks[t]? = some x) :
    setReturned s t = { s with tasks := s.tasks.set t { x with returned := true } } := by
  simp [setReturned, h]

theorem map_set_absT (l : List Task) (t : Nat) (y : Task) :
    (l.set t y).map absT = (l.map absT).set t (absT y) := by
  simp [List.map_set]

theorem getT_abs {m : Mon} {l : List Task} {t : Nat} {x : Task} (hm : m.tasks = l.map absT) (h : l[t]? = some x) :
    getT m t = absT x := by
  simp [getT, hm, List.getD_eq_getElem?_getD, h]

theorem lt_of_get {α : Type} {l : List α} {t : Nat} {x : α} (h : l[t]? = some x) : t < l.length := by
  rcases Nat.lt_or_ge t l.length with h' | h'
  · exact h'
  · simp [List.getElem?_eq_none h'] at h

theorem set_same {α : Type} (l : List α) (t : Nat) (x : α) (h : l[t]? = some x) : l.set t x = l := by
  have hlt := lt_of_get h
  have hx : l[t] = x := by rw [List.getElem?_eq_getElem hlt] at h; exact Option.some.inj h
  rw [← hx]; exact List.set_getElem_self hlt

/-- All counters at once for an update of task `t` from `x` to `y`. -/
theorem cnt_set (f : Task → Bool) {s : St} {t : Nat} {x : Task} (h : s.tasks[t]? = some x) (y : Task) (s' : St)
    (hs : s'.tasks = s.tasks.set t y) : cnt f s' + b2n (f x) = cnt f s + b2n (f y) := by
  unfold cnt; rw [hs]; exact countP_set_add f s.tasks t x y h

theorem cnt_append (f : Task → Bool) (s s' : St) (y : Task) (hs : s'.tasks = s.tasks ++ [y]) :
    cnt f s' = cnt f s + b2n (f y) := by
  unfold cnt; rw [hs]; simp [List.countP_append, List.countP_cons, b2n]

/-- `SInv` only looks at these fields. -/
theorem SInv.congr {p : Params} {s s' : St} (h : SInv p s)
    (h1 : s'.mon = s.mon) (h2 : s'.tasks = s.tasks) (h3 : s'.pending = s.pending) (h4 : s'.sdcalls = s.sdcalls)
    (h5 : s'.workers = s.workers) (h6 : s'.sig = s.sig) (h7 : s'.closed = s.closed) (h8 : s'.disp = s.disp)
    (h9 : s'.running = s.running) : SInv p s' := by
  obtain ⟨⟨m, hm, R⟩, hc, hn, hp⟩ := h
  refine ⟨⟨m, by rw [h1, hm], ?_⟩, ?_, ?_, ?_⟩
  · exact ⟨by rw [h2]; exact R.tasks, by rw [h3]; exact R.ctr, by unfold cnt; rw [h2]; exact R.ups,
      by unfold cnt; rw [h2]; exact R.dns, by unfold cnt; rw [h2]; exact R.rejs, by unfold cnt; rw [h2]; exact R.rss,
      by unfold cnt; rw [h2]; exact R.res, by rw [h4]; exact R.sdcalls, by rw [h5]; exact R.completed, R.openc⟩
  · unfold cnt; rw [h3, h2]; exact hc
  · unfold cnt; rw [h2]; exact hn
  · unfold cnt; rw [h4, h6, h7, h5, h2, h8, h9]; exact hp


/-- How the monitor must have moved when task `t` changed from `x` to `y`. -/
structure MonUpd (m m' : Mon) (t : Nat) (x y : Task) (pend' : Nat) : Prop where
  tasks : m'.tasks = m.tasks.set t (absT y)
  ctr : m'.ctr = pend'
  ups : m'.ups + b2n (fUp x) = m.ups + b2n (fUp y)
  dns : m'.dns + b2n (fDn x) = m.dns + b2n (fDn y)
  rejs : m'.rejs + b2n (fRej x) = m.rejs + b2n (fRej y)
  rss : m'.rss + b2n (fRs x) = m.rss + b2n (fRs y)
  res : m'.res + b2n (fRe x) = m.res + b2n (fRe y)
  sdcalls : m'.sdcalls = m.sdcalls
  completed : m'.completed = m.completed
  openStarts : m'.openStarts = m.openStarts

def openOf (s : St) : Nat :=
  match s.mon with
  | some m => m.openStarts
  | none => 0

/-- What every step preserves / how it moves the bookkeeping used for the thread-level invariants. -/
structure Pres (p : Params) (s s' : St) : Prop where
  inv : SInv p s'
  openEq : openOf s' = openOf s
  sdmono : s.sdcalls ≤ s'.sdcalls

theorem sinv_task_update {p : Params} {s s' : St} {t : Nat} {x y : Task} (h : SInv p s)
    (ht : s.tasks[t]? = some x) (hts : s'.tasks = s.tasks.set t y)
    (h4 : s'.sdcalls = s.sdcalls) (h5 : s'.workers = s.workers) (h6 : s'.sig = s.sig) (h7 : s'.closed = s.closed)
    (h8 : s'.disp = s.disp) (h9 : s'.running = s.running)
    (hpend : s'.pending + b2n (fPend x) = s.pending + b2n (fPend y))
    (hcanc : fCanc y = true → fCanc x = true ∨ (p.cancel = true ∧ 0 < s.sdcalls))
    (hmon : ∀ m, s.mon = some m → MonRel p s m → ∃ m', s'.mon = some m' ∧ MonUpd m m' t x y s'.pending) :
    Pres p s s' := by
  obtain ⟨⟨m, hm, R⟩, hc, hn, hp⟩ := h
  obtain ⟨m', hm', U⟩ := hmon m hm R
  refine ⟨?_, by simp [openOf, hm, hm', U.openStarts], by omega⟩
  have C := fun f => cnt_set f ht y s' hts
  have Ppos := fun (f : Task → Bool) (hf : f x = true) => countP_pos_of_get f s.tasks t x ht hf
  have hcx : fCanc y = true → fCanc x = false → p.cancel = true ∧ 0 < s.sdcalls := by
    intro a b; rcases hcanc a with c | c
    · rw [b] at c; cases c
    · exact c
  refine ⟨⟨m', hm', ?_⟩, ?_, ?_, ?_⟩
  · refine ⟨?_, U.ctr, ?_, ?_, ?_, ?_, ?_, ?_, ?_, ?_⟩
    · rw [U.tasks, hts, map_set_absT, R.tasks]
    · have := C fUp; have := U.ups; have := R.ups; omega
    · have := C fDn; have := U.dns; have := R.dns; omega
    · have := C fRej; have := U.rejs; have := R.rejs; omega
    · have := C fRs; have := U.rss; have := R.rss; omega
    · have := C fRe; have := U.res; have := R.res; omega
    · rw [U.sdcalls, h4]; exact R.sdcalls
    · rw [U.completed, h5]; exact R.completed
    · rw [U.completed, U.openStarts]; exact R.openc
  · have := C fPend; omega
  · intro hcf
    have h0 := hn hcf
    have := C fCanc
    cases hy : fCanc y <;> cases hx : fCanc x <;> simp [hy, hx] at this <;> try omega
    · have := (hcx hy hx).1; simp [hcf] at this
  · intro h0
    rw [h4] at h0
    obtain ⟨a, b, c, d, e, f⟩ := hp h0
    refine ⟨by rw [h6]; exact a, by rw [h7]; exact b, by rw [h5]; exact c, ?_, by rw [h8]; exact e, by rw [h8, h9]; exact f⟩
    have := C fCanc
    cases hy : fCanc y <;> cases hx : fCanc x <;> simp [hy, hx] at this <;> try omega
    · have := (hcx hy hx).2; omega

/-- A worker moves (the state invariant already holds for the new shared state). -/
theorem sinv_set_worker {p : Params} {s : St} {i : Nat} {w w' : WPc} (h : SInv p s) (hi : s.workers[i]? = some w)
    (hw : w.isExited = false) (hlate : w'.late = true → 0 < s.sdcalls) :
    SInv p { s with workers := s.workers.set i w' } := by
  obtain ⟨⟨m, hm, R⟩, hc, hn, hp⟩ := h
  have hmem : w ∈ s.workers := List.mem_of_getElem? hi
  have hcf : m.completed = false := by
    cases hcm : m.completed with
    | false => rfl
    | true => have := R.completed hcm w hmem; rw [hw] at this; cases this
  refine ⟨⟨m, hm, ⟨R.tasks, R.ctr, R.ups, R.dns, R.rejs, R.rss, R.res, R.sdcalls, ?_, R.openc⟩⟩, hc, hn, ?_⟩
  · intro hcm; rw [hcf] at hcm; cases hcm
  · intro h0
    obtain ⟨a, b, c, d, e, f⟩ := hp h0
    refine ⟨a, b, ?_, d, e, f⟩
    intro v hv
    rcases List.mem_or_eq_of_mem_set hv with hv | hv
    · exact c v hv
    · subst hv
      cases hl : v.late with
      | false => rfl
      | true => have h0' : s.sdcalls = 0 := h0; have := hlate hl; omega



/-- Steps that leave monitor, tasks, counter and workers alone. -/
theorem pres_fields {p : Params} {s s' : St} (h : SInv p s)
    (h1 : s'.mon = s.mon) (h2 : s'.tasks = s.tasks) (h3 : s'.pending = s.pending) (h4 : s.sdcalls ≤ s'.sdcalls)
    (h5 : s'.workers = s.workers)
    (hpre : s'.sdcalls = 0 →
      (s.sig = 0 ∧ s.closed = false ∧ s.disp.early = true ∧ (s.disp ≠ .none → s.running = true)) →
      s'.sig = 0 ∧ s'.closed = false ∧ s'.disp.early = true ∧ (s'.disp ≠ .none → s'.running = true))
    (hsd : ∀ m, s.mon = some m → m.sdcalls = s'.sdcalls) : Pres p s s' := by
  obtain ⟨⟨m, hm, R⟩, hc, hn, hp⟩ := h
  refine ⟨⟨⟨m, by rw [h1, hm], ?_⟩, ?_, ?_, ?_⟩, by simp [openOf, h1], h4⟩
  · exact ⟨by rw [h2]; exact R.tasks, by rw [h3]; exact R.ctr, by unfold cnt; rw [h2]; exact R.ups,
      by unfold cnt; rw [h2]; exact R.dns, by unfold cnt; rw [h2]; exact R.rejs, by unfold cnt; rw [h2]; exact R.rss,
      by unfold cnt; rw [h2]; exact R.res, hsd m hm, by rw [h5]; exact R.completed, R.openc⟩
  · unfold cnt; rw [h3, h2]; exact hc
  · unfold cnt; rw [h2]; exact hn
  · intro h0
    have h0' : s.sdcalls = 0 := by omega
    obtain ⟨a, b, c, d, e, f⟩ := hp h0'
    obtain ⟨a', b', e', f'⟩ := hpre h0 ⟨a, b, e, f⟩
    exact ⟨a', b', by rw [h5]; exact c, by unfold cnt; rw [h2]; exact d, e', f'⟩

theorem pres_newTask {p : Params} {s : St} (h : SInv p s) (kids : List Body) : Pres p s (newTask p s kids).1 := by
  obtain ⟨⟨m, hm, R⟩, hc, hn, hp⟩ := h
  have hlen : m.tasks.length = s.tasks.length := by rw [R.tasks]; simp
  let y : Task := { phase := .fresh, returned := false, kids := kids }
  have A := fun f => cnt_append f s (newTask p s kids).1 y rfl
  have hmon : (newTask p s kids).1.mon = some { m with tasks := m.tasks ++ [({} : MT)] } := by
    simp [newTask, emit, hm, monStep, hlen]
  refine ⟨⟨⟨_, hmon, ?_⟩, ?_, ?_, ?_⟩, by simp [openOf, hmon, hm], Nat.le_refl _⟩
  · refine ⟨?_, R.ctr, ?_, ?_, ?_, ?_, ?_, R.sdcalls, R.completed, R.openc⟩
    · show m.tasks ++ [({} : MT)] = (s.tasks ++ [y]).map absT
      rw [List.map_append, R.tasks]; rfl
    · have := A fUp; exact R.ups.trans (by simpa [y, fUp, Phase.upd] using this.symm)
    · have := A fDn; exact R.dns.trans (by simpa [y, fDn, Phase.dnd] using this.symm)
    · have := A fRej; exact R.rejs.trans (by simpa [y, fRej, Phase.isRej] using this.symm)
    · have := A fRs; exact R.rss.trans (by simpa [y, fRs, Phase.started] using this.symm)
    · have := A fRe; exact R.res.trans (by simpa [y, fRe, Phase.ended] using this.symm)
  · have := A fPend; exact hc.trans (by simpa [y, fPend, Phase.pending] using this.symm)
  · intro hcf; have := A fCanc; have h0 := hn hcf
    simp [y, fCanc, Phase.canc] at this; omega
  · intro h0
    obtain ⟨a, b, c, d, e, f⟩ := hp h0
    refine ⟨a, b, c, ?_, e, f⟩
    have := A fCanc
    simp [y, fCanc, Phase.canc] at this; omega

/-- Events that only move the monitor's life-cycle bookkeeping. -/
theorem sinv_mon_only {p : Params} {s s' : St} {m' : Mon} (h : SInv p s)
    (h2 : s'.tasks = s.tasks) (h3 : s'.pending = s.pending) (h4 : s.sdcalls ≤ s'.sdcalls)
    (h5 : s'.workers = s.workers) (h6 : s'.sig = s.sig) (h7 : s'.closed = s.closed) (h8 : s'.disp = s.disp)
    (h9 : s'.running = s.running)
    (hmon : ∀ m, s.mon = some m → s'.mon = some m' ∧ m'.tasks = m.tasks ∧ m'.ctr = m.ctr ∧ m'.ups = m.ups ∧
      m'.dns = m.dns ∧ m'.rejs = m.rejs ∧ m'.rss = m.rss ∧ m'.res = m.res ∧ m'.sdcalls = s'.sdcalls ∧
      (m'.completed = true → m.completed = true ∨ ∀ w ∈ s.workers, w.isExited = true) ∧
      (0 < m'.openStarts → m'.completed = false)) : SInv p s' := by
  obtain ⟨⟨m, hm, R⟩, hc, hn, hp⟩ := h
  obtain ⟨a1, a2, a3, a4, a5, a6, a7, a8, a9, a10, a11⟩ := hmon m hm
  refine ⟨⟨m', a1, ?_⟩, ?_, ?_, ?_⟩
  · refine ⟨by rw [a2, h2]; exact R.tasks, by rw [a3, h3]; exact R.ctr, ?_, ?_, ?_, ?_, ?_, a9, ?_, a11⟩
    · unfold cnt; rw [a4, h2]; exact R.ups
    · unfold cnt; rw [a5, h2]; exact R.dns
    · unfold cnt; rw [a6, h2]; exact R.rejs
    · unfold cnt; rw [a7, h2]; exact R.rss
    · unfold cnt; rw [a8, h2]; exact R.res
    · intro hcm; rw [h5]; rcases a10 hcm with c | c
      · exact R.completed c
      · exact c
  · unfold cnt; rw [h3, h2]; exact hc
  · unfold cnt; rw [h2]; exact hn
  · intro h0
    have h0' : s.sdcalls = 0 := by omega
    obtain ⟨a, b, c, d, e, f⟩ := hp h0'
    exact ⟨by rw [h6]; exact a, by rw [h7]; exact b, by rw [h5]; exact c, by unfold cnt; rw [h2]; exact d,
      by rw [h8]; exact e, by rw [h8, h9]; exact f⟩

theorem sinv_spawn {p : Params} {s : St} (h : SInv p s) (hopen : 0 < openOf s) : SInv p (spawn p s) := by
  obtain ⟨⟨m, hm, R⟩, hc, hn, hp⟩ := h
  have ho : 0 < m.openStarts := by simpa [openOf, hm] using hopen
  have hcf := R.openc ho
  refine ⟨⟨m, hm, ⟨R.tasks, R.ctr, R.ups, R.dns, R.rejs, R.rss, R.res, R.sdcalls, ?_, R.openc⟩⟩, hc, hn, ?_⟩
  · intro hcm; rw [hcf] at hcm; cases hcm
  · intro h0
    obtain ⟨a, b, c, d, e, f⟩ := hp h0
    refine ⟨a, rfl, ?_, d, rfl, fun _ => rfl⟩
    intro w hw
    have : w = .sel := List.eq_of_mem_replicate hw
    subst this; rfl

theorem pres_set_worker {p : Params} {s s1 : St} {i : Nat} {w w' : WPc} (h : Pres p s s1)
    (hws : s1.workers = s.workers) (hi : s.workers[i]? = some w)
    (hw : w.isExited = false) (hlate : w'.late = true → 0 < s1.sdcalls) :
    Pres p s { s1 with workers := s1.workers.set i w' } :=
  ⟨sinv_set_worker h.inv (by rw [hws]; exact hi) hw hlate, h.openEq, h.sdmono⟩



/-! ## projections of `setT` and `emit` -/
section proj
variable (m : Mon) (t : Nat) (x : MT) (p : Params) (e : Ev) (s : St)
@[simp] theorem setT_tasks : (setT m t x).tasks = m.tasks.set t x := rfl
@[simp] theorem setT_ctr : (setT m t x).ctr = m.ctr := rfl
@[simp] theorem setT_ups : (setT m t x).ups = m.ups := rfl
@[simp] theorem setT_dns : (setT m t x).dns = m.dns := rfl
@[simp] theorem setT_rejs : (setT m t x).rejs = m.rejs := rfl
@[simp] theorem setT_rss : (setT m t x).rss = m.rss := rfl
@[simp] theorem setT_res : (setT m t x).res = m.res := rfl
@[simp] theorem setT_sdcalls : (setT m t x).sdcalls = m.sdcalls := rfl
@[simp] theorem setT_openStarts : (setT m t x).openStarts = m.openStarts := rfl
@[simp] theorem setT_completed : (setT m t x).completed = m.completed := rfl
@[simp] theorem emit_running : (emit p e s).running = s.running := rfl
@[simp] theorem emit_writer : (emit p e s).writer = s.writer := rfl
@[simp] theorem emit_pending : (emit p e s).pending = s.pending := rfl
@[simp] theorem emit_stackHeld : (emit p e s).stackHeld = s.stackHeld := rfl
@[simp] theorem emit_dwait : (emit p e s).dwait = s.dwait := rfl
@[simp] theorem emit_sig : (emit p e s).sig = s.sig := rfl
@[simp] theorem emit_closed : (emit p e s).closed = s.closed := rfl
@[simp] theorem emit_tasks : (emit p e s).tasks = s.tasks := rfl
@[simp] theorem emit_disp : (emit p e s).disp = s.disp := rfl
@[simp] theorem emit_workers : (emit p e s).workers = s.workers := rfl
@[simp] theorem emit_inWindow : (emit p e s).inWindow = s.inWindow := rfl
@[simp] theorem emit_raced : (emit p e s).raced = s.raced := rfl
@[simp] theorem emit_lost : (emit p e s).lost = s.lost := rfl
@[simp] theorem emit_broken : (emit p e s).broken = s.broken := rfl
@[simp] theorem emit_starts : (emit p e s).starts = s.starts := rfl
@[simp] theorem emit_sdcalls : (emit p e s).sdcalls = s.sdcalls := rfl
theorem emit_mon : (emit p e s).mon = s.mon.bind (fun m => monStep p.cancel m e) := rfl
end proj


theorem monUpd_same {m : Mon} {l : List Task} {t : Nat} {x : Task} (y : Task) (hm : m.tasks = l.map absT) (ht : l[t]? = some x)
    (habs : absT y = absT x) (h1 : fUp y = fUp x) (h2 : fDn y = fDn x) (h3 : fRej y = fRej x) (h4 : fRs y = fRs x)
    (h5 : fRe y = fRe x) (pend : Nat) (hp : m.ctr = pend) : MonUpd m m t x y pend := by
  refine ⟨?_, hp, by rw [h1], by rw [h2], by rw [h3], by rw [h4], by rw [h5], rfl, rfl, rfl⟩
  rw [habs]; exact (set_same _ _ _ (by rw [hm]; simp [ht])).symm

/-- `Submit`'s steps. -/
theorem pres_submitStep {p : Params} {s : St} {t : Nat} {r : St × Bool} (h : SInv p s)
    (hr : r ∈ submitStep p s t) : Pres p s r.1 ∧ r.1.workers = s.workers ∧ r.1.sdcalls = s.sdcalls := by
  unfold submitStep at hr
  cases ht : s.tasks[t]? with
  | none => simp [ht] at hr
  | some x =>
    obtain ⟨ph, ret, kids⟩ := x
    simp only [ht] at hr
    cases ret with
    | true => simp at hr
    | false =>
      simp only [Bool.false_eq_true, if_false] at hr
      have hR := fun m (hm : s.mon = some m) (R : MonRel p s m) => R
      cases ph
      case fresh =>
        by_cases hw : s.writer = true
        · simp [hw] at hr
        · by_cases hrun : s.running = true
          · simp [hw, hrun] at hr; subst hr
            rw [setPhase_eq ht]
            refine ⟨sinv_task_update (y := ⟨.window, false, kids⟩) h ht rfl rfl rfl rfl rfl rfl rfl (by simp [fPend, Phase.pending]) (by simp [fCanc, Phase.canc]) ?_, rfl, rfl⟩
            intro m hm R
            exact ⟨m, hm, monUpd_same ⟨.window, false, kids⟩ R.tasks ht rfl rfl rfl rfl rfl rfl _ R.ctr⟩
          · simp [hw, hrun] at hr; subst hr
            rw [setPhase_eq ht]
            refine ⟨sinv_task_update (y := ⟨.rejected, false, kids⟩) h ht rfl rfl rfl rfl rfl rfl rfl (by simp [fPend, Phase.pending]) (by simp [fCanc, Phase.canc]) ?_, rfl, rfl⟩
            intro m hm R
            exact ⟨m, hm, monUpd_same ⟨.rejected, false, kids⟩ R.tasks ht rfl rfl rfl rfl rfl rfl _ R.ctr⟩
      case rejected =>
        simp at hr; subst hr
        rw [setReturned_eq ht]
        refine ⟨sinv_task_update (y := ⟨.rejected, true, kids⟩) h ht rfl rfl rfl rfl rfl rfl rfl (by simp [fPend, Phase.pending]) (by simp [fCanc, Phase.canc]) ?_, rfl, rfl⟩
        intro m hm R
        have hg := getT_abs R.tasks ht
        have hlt : t < m.tasks.length := by rw [R.tasks]; simpa using lt_of_get ht
        refine ⟨_, by simp [emit, hm, monStep, hlt, hg, absT, Phase.started]; rfl, ?_⟩
        exact ⟨by simp [setT, hg, absT, Phase.isRej, Phase.started, Phase.ended], R.ctr, by simp [fUp, Phase.upd], by simp [fDn, Phase.dnd],
          by simp [fRej, Phase.isRej], by simp [fRs, Phase.started], by simp [fRe, Phase.ended], rfl, rfl, rfl⟩
      case window =>
        simp at hr; subst hr
        rw [setPhase_eq ht]
        refine ⟨sinv_task_update (y := ⟨.counted, false, kids⟩) h ht rfl rfl rfl rfl rfl rfl rfl (by simp [fPend, Phase.pending, emit]) (by simp [fCanc, Phase.canc]) ?_, rfl, rfl⟩
        intro m hm R
        have hlen : m.tasks.length = s.tasks.length := by rw [R.tasks]; simp
        have hcond : m.ups + m.rejs < m.tasks.length := by
          rw [R.ups, R.rejs, hlen]
          exact countP_add_lt_of_get fUp fRej s.tasks t _ ht
            (by intro a; cases a with | mk ph r k => cases ph <;> simp [fUp, fRej, Phase.upd, Phase.isRej]) rfl rfl
        refine ⟨_, by simp [emit, hm, monStep, hcond, R.ctr]; rfl, ?_⟩
        refine ⟨?_, rfl, by simp [fUp, Phase.upd], by simp [fDn, Phase.dnd],
          by simp [fRej, Phase.isRej], by simp [fRs, Phase.started], by simp [fRe, Phase.ended], rfl, rfl, rfl⟩
        exact (set_same _ _ _ (by rw [R.tasks]; simp [ht]; rfl)).symm
      case counted =>
        by_cases hsh : s.stackHeld = true
        · simp [hsh] at hr
        · simp [hsh] at hr; subst hr
          rw [setPhase_eq ht]
          refine ⟨sinv_task_update (y := ⟨.queued, false, kids⟩) h ht rfl rfl rfl rfl rfl rfl rfl (by simp [fPend, Phase.pending]) (by simp [fCanc, Phase.canc]) ?_, rfl, rfl⟩
          intro m hm R
          exact ⟨m, hm, monUpd_same ⟨.queued, false, kids⟩ R.tasks ht rfl rfl rfl rfl rfl rfl _ R.ctr⟩
      all_goals
        simp at hr; subst hr
        rw [setReturned_eq ht]
        refine ⟨sinv_task_update (y := ⟨_, true, kids⟩) h ht rfl rfl rfl rfl rfl rfl rfl (by simp [fPend, Phase.pending]) (by simp [fCanc, Phase.canc]) ?_, rfl, rfl⟩
        intro m hm R
        have hg := getT_abs R.tasks ht
        have hlt : t < m.tasks.length := by rw [R.tasks]; simpa using lt_of_get ht
        refine ⟨_, by simp [emit, hm, monStep, hlt, hg, absT]; rfl, ?_⟩
        exact ⟨by simp [setT, hg, absT, Phase.isRej, Phase.started, Phase.ended], R.ctr, by simp [fUp, Phase.upd], by simp [fDn, Phase.dnd],
          by simp [fRej, Phase.isRej], by simp [fRs, Phase.started], by simp [fRe, Phase.ended], rfl, rfl, rfl⟩


end Hive.WP
