import Hive.Model.DerivedLocks
/-!
# C14: deadlock freedom of the lock discipline of the derived reactive objects

* `ranked_deadlock_free`: any pool of threads whose scripts respect the rank order (`Ranked`) never
  deadlocks — for every number of threads, every script and every schedule.
* `call_ranked`, `threadOf_ranked`: every call of the catalogue, and every sequence of calls, is ranked.
* `lock_order_deadlock_free`: hence no pool of goroutines making catalogue calls deadlocks.
* `sorted_inversion_deadlock`, `sorted_delete_old_not_ranked`: the old `SortedSet.Delete` is not
  ranked, and the inversion with a concurrent weight update is a reachable deadlock.
-/
namespace Hive.Derived
open Hive.Conc

/-! ## A1: ranked scripts never deadlock -/

/-- A non-empty list has an element maximising a `Nat`-valued measure. -/
theorem exists_max_measure {α : Type} (f : α → Nat) :
    ∀ (l : List α), l ≠ [] → ∃ x ∈ l, ∀ y ∈ l, f y ≤ f x
  | [], h => absurd rfl h
  | [a], _ => ⟨a, by simp, by simp⟩
  | a :: b :: l, _ => by
    obtain ⟨x, hx, hmax⟩ := exists_max_measure f (b :: l) (by simp)
    rcases Nat.le_total (f a) (f x) with h | h
    · refine ⟨x, List.mem_cons_of_mem _ hx, ?_⟩
      intro y hy
      rcases List.mem_cons.1 hy with rfl | hy
      · exact h
      · exact hmax y hy
    · refine ⟨a, by simp, ?_⟩
      intro y hy
      rcases List.mem_cons.1 hy with rfl | hy
      · exact Nat.le_refl _
      · exact Nat.le_trans (hmax y hy) h

/-- The invariant of a pool of ranked threads: every thread's remaining script is ranked relative to
what it holds; every lock in the shared list is held by some thread; the shared list has no duplicates. -/
structure LockInv (c : Cfg (List Lock) LT) : Prop where
  ranked : ∀ t ∈ c.2, Ranked t.held t.script
  owner : ∀ l ∈ c.1, ∃ t ∈ c.2, l ∈ t.held
  nodup : c.1.Nodup

theorem lockInv_step (a b : Cfg (List Lock) LT) (h : LockInv a) (hs : Step lockSys a b) : LockInv b := by
  cases hs with
  | mk s pre t post s' t' hm =>
    obtain ⟨hr, ho, hn⟩ := h
    simp only at hr ho hn
    have hrt : Ranked t.held t.script := hr t (by simp)
    obtain ⟨held, script⟩ := t
    simp only [lockSys, lockStep] at hm
    cases script with
    | nil => simp at hm
    | cons act rest =>
      cases act with
      | acq l =>
        simp only at hm
        by_cases hl : l ∈ s
        · simp [hl] at hm
        · simp only [List.contains_iff_mem, hl, if_false, List.mem_singleton, Prod.mk.injEq] at hm
          obtain ⟨rfl, rfl⟩ := hm
          refine ⟨?_, ?_, ?_⟩
          · intro t0 ht0
            simp only [List.mem_append, List.mem_cons] at ht0
            rcases ht0 with h1 | rfl | h1
            · exact hr t0 (by simp [h1])
            · exact hrt.2
            · exact hr t0 (by simp [h1])
          · intro l' hl'
            simp only [List.mem_cons] at hl'
            rcases hl' with rfl | hl'
            · exact ⟨⟨l' :: held, rest⟩, by simp, by simp⟩
            · obtain ⟨t0, ht0, hheld⟩ := ho l' hl'
              simp only [List.mem_append, List.mem_cons] at ht0
              rcases ht0 with h1 | rfl | h1
              · exact ⟨t0, by simp [h1], hheld⟩
              · exact ⟨⟨l :: held, rest⟩, by simp, List.mem_cons_of_mem _ hheld⟩
              · exact ⟨t0, by simp [h1], hheld⟩
          · exact List.nodup_cons.2 ⟨hl, hn⟩
      | rel l =>
        simp only [List.mem_singleton, Prod.mk.injEq] at hm
        obtain ⟨rfl, rfl⟩ := hm
        refine ⟨?_, ?_, ?_⟩
        · intro t0 ht0
          simp only [List.mem_append, List.mem_cons] at ht0
          rcases ht0 with h1 | rfl | h1
          · exact hr t0 (by simp [h1])
          · exact hrt.2
          · exact hr t0 (by simp [h1])
        · intro l' hl'
          obtain ⟨hne, hl's⟩ := (List.Nodup.mem_erase_iff hn).1 hl'
          obtain ⟨t0, ht0, hheld⟩ := ho l' hl's
          simp only [List.mem_append, List.mem_cons] at ht0
          rcases ht0 with h1 | rfl | h1
          · exact ⟨t0, by simp [h1], hheld⟩
          · exact ⟨⟨held.erase l, rest⟩, by simp, (List.mem_erase_of_ne hne).2 hheld⟩
          · exact ⟨t0, by simp [h1], hheld⟩
        · exact hn.erase l

theorem lockInv_reach (ts0 : List LT) (h0 : ∀ t ∈ ts0, t.held = [] ∧ Ranked [] t.script)
    (c : Cfg (List Lock) LT) (hr : Reach lockSys ([], ts0) c) : LockInv c := by
  refine inv_induction LockInv ?_ lockInv_step hr
  refine ⟨?_, ?_, ?_⟩
  · intro t ht
    obtain ⟨h1, h2⟩ := h0 t ht
    rw [h1]; exact h2
  · intro l hl; simp at hl
  · exact List.nodup_nil

/-- The rank a thread is waiting for (`+ 1`), `0` if it is not at an acquisition. -/
def waitRank (t : LT) : Nat :=
  match t.script with
  | .acq l :: _ => l.cls.rank + 1
  | _ => 0

theorem waitRank_acq (t : LT) (l : Lock) (rest : List Act) (h : t.script = .acq l :: rest) :
    waitRank t = l.cls.rank + 1 := by
  simp [waitRank, h]

/-- In a stuck configuration a thread with a non-empty script waits for a lock that is taken. -/
theorem stuck_thread (s : List Lock) (t : LT) (hst : lockStep s t = []) (hne : t.script ≠ []) :
    ∃ l rest, t.script = .acq l :: rest ∧ l ∈ s := by
  obtain ⟨held, script⟩ := t
  cases script with
  | nil => exact absurd rfl hne
  | cons act rest =>
    cases act with
    | acq l =>
      refine ⟨l, rest, rfl, ?_⟩
      by_cases hl : l ∈ s
      · exact hl
      · simp [lockStep, hl] at hst
    | rel l => simp [lockStep] at hst

theorem lockInv_no_deadlock (c : Cfg (List Lock) LT) (hi : LockInv c) :
    ¬ Deadlock lockSys (fun t => t.script = []) c := by
  obtain ⟨s, ts⟩ := c
  obtain ⟨hr, ho, _⟩ := hi
  simp only at hr ho
  rintro ⟨hstuck, t1, ht1, hne1⟩
  simp only [Stuck, lockSys] at hstuck
  simp only at ht1 hne1
  have htsne : ts ≠ [] := by intro h; rw [h] at ht1; simp at ht1
  obtain ⟨tm, htm, hmax⟩ := exists_max_measure waitRank ts htsne
  -- the maximal thread is at an acquisition
  obtain ⟨l1, rest1, hs1, _⟩ := stuck_thread s t1 (hstuck t1 ht1) hne1
  have hpos : 0 < waitRank tm := by
    have := hmax t1 ht1
    rw [waitRank_acq t1 l1 rest1 hs1] at this
    omega
  have hnem : tm.script ≠ [] := by
    intro h; simp [waitRank, h] at hpos
  obtain ⟨l, rest, hsm, hls⟩ := stuck_thread s tm (hstuck tm htm) hnem
  -- its lock is held by some thread, which is itself blocked on a higher lock
  obtain ⟨t', ht', hheld⟩ := ho l hls
  have hrk := hr t' ht'
  have hne' : t'.script ≠ [] := by
    intro h
    rw [h] at hrk
    simp only [Ranked] at hrk
    rw [hrk] at hheld; simp at hheld
  obtain ⟨l', rest', hs', _⟩ := stuck_thread s t' (hstuck t' ht') hne'
  rw [hs'] at hrk
  have hlt : l.cls.rank < l'.cls.rank := hrk.1 l hheld
  have := hmax t' ht'
  rw [waitRank_acq t' l' rest' hs', waitRank_acq tm l rest hsm] at this
  omega

theorem ranked_deadlock_free (ts0 : List LT) (h0 : ∀ t ∈ ts0, t.held = [] ∧ Ranked [] t.script)
    (c : Cfg (List Lock) LT) (hr : Reach lockSys ([], ts0) c) :
    ¬ Deadlock lockSys (fun t => t.script = []) c :=
  lockInv_no_deadlock c (lockInv_reach ts0 h0 c hr)

/-! ## A3: concatenation -/

/-- A script that returns to "nothing held", followed by a ranked script. -/
theorem ranked_append_gen (b : List Act) (hb : Ranked [] b) :
    ∀ (a : List Act) (held : List Lock), Ranked held a → Ranked held (a ++ b)
  | [], held, ha => by
    simp only [Ranked] at ha
    rw [ha]; exact hb
  | .acq l :: rest, held, ha => ⟨ha.1, ranked_append_gen b hb rest _ ha.2⟩
  | .rel l :: rest, held, ha => ⟨ha.1, ranked_append_gen b hb rest _ ha.2⟩

theorem ranked_append (a b : List Act) (ha : Ranked [] a) (hb : Ranked [] b) : Ranked [] (a ++ b) :=
  ranked_append_gen b hb a [] ha

theorem ranked_flatMap {α : Type} (f : α → List Act) (hf : ∀ x, Ranked [] (f x)) :
    ∀ xs : List α, Ranked [] (xs.flatMap f)
  | [] => by simp [Ranked]
  | x :: xs => by
    rw [List.flatMap_cons]
    exact ranked_append _ _ (hf x) (ranked_flatMap f hf xs)

/-! ## A2: every catalogue script is ranked -/

theorem ranked_brief (held : List Lock) (c : Cls) (i : Nat) (rest : List Act) :
    Ranked held (brief c i ++ rest) ↔ (∀ h ∈ held, h.cls.rank < c.rank) ∧ Ranked held rest := by
  simp [brief, Ranked, L]

theorem ranked_brief_nil (held : List Lock) (c : Cls) (i : Nat) :
    Ranked held (brief c i) ↔ (∀ h ∈ held, h.cls.rank < c.rank) ∧ held = [] := by
  have := ranked_brief held c i []
  simpa [Ranked] using this

theorem ranked_flatMap_brief (c : Cls) (rest : List Act) :
    ∀ (js : List Nat) (held : List Lock),
      Ranked held (js.flatMap (brief c) ++ rest) ↔
        (js ≠ [] → ∀ h ∈ held, h.cls.rank < c.rank) ∧ Ranked held rest
  | [], held => by simp
  | j :: js, held => by
    rw [List.flatMap_cons, List.append_assoc, ranked_brief, ranked_flatMap_brief c rest js held]
    constructor
    · rintro ⟨h1, _, h3⟩
      exact ⟨fun _ => h1, h3⟩
    · rintro ⟨h1, h2⟩
      exact ⟨h1 (by simp), fun _ => h1 (by simp), h2⟩

theorem ranked_derivedCompute (held : List Lock) (d : Nat) (js : List Nat) (rest : List Act) :
    Ranked held (derivedCompute d js ++ rest) ↔ (∀ h ∈ held, h.cls.rank < 6) ∧ Ranked held rest := by
  simp only [derivedCompute, userCallbacks, List.append_assoc, List.cons_append, List.nil_append, Ranked,
    ranked_flatMap_brief, ranked_brief, L, List.mem_cons, List.erase_cons_head, forall_eq_or_imp, Cls.rank,
    true_or, true_and]
  constructor
  · rintro ⟨h1, _, _, _, h5⟩
    exact ⟨h1, h5⟩
  · rintro ⟨h1, h2⟩
    refine ⟨h1, ⟨by omega, fun h hh => ?_⟩, fun _ => ⟨by omega, by omega, fun h hh => ?_⟩, ⟨by omega, fun h hh => ?_⟩, h2⟩
    all_goals have := h1 h hh; omega

theorem ranked_derivedCompute_nil (held : List Lock) (d : Nat) (js : List Nat) :
    Ranked held (derivedCompute d js) ↔ (∀ h ∈ held, h.cls.rank < 6) ∧ held = [] := by
  have := ranked_derivedCompute held d js []
  simpa [Ranked] using this

theorem call_ranked (c : Call) : Ranked [] c.script := by
  cases c with
  | evictCall v events =>
    simp only [Call.script, evictCall, ranked_brief]
    refine ⟨by simp, ?_⟩
    exact ranked_flatMap _ (fun e => by simp [ranked_derivedCompute_nil]) events
  | _ =>
    simp [Call.script, inputWrite, subscribe, unsubscribe, weightWrite, sortedAdd, sortedDelete, sortedRead,
      waitGroupCall, evictEvent, endsUpdate, Ranked, ranked_brief, ranked_brief_nil, ranked_derivedCompute,
      ranked_derivedCompute_nil, L, Cls.rank]

theorem threadOf_ranked (calls : List Call) : Ranked [] (threadOf calls).script :=
  ranked_flatMap Call.script call_ranked calls

/-! ## A4: no pool of goroutines making catalogue calls deadlocks -/

theorem lock_order_deadlock_free (callss : List (List Call)) (c : Cfg (List Lock) LT)
    (hr : Reach lockSys ([], callss.map threadOf) c) : ¬ Deadlock lockSys (fun t => t.script = []) c := by
  refine ranked_deadlock_free (callss.map threadOf) ?_ c hr
  intro t ht
  obtain ⟨calls, _, rfl⟩ := List.mem_map.1 ht
  exact ⟨rfl, threadOf_ranked calls⟩

/-- The hypotheses of `ranked_deadlock_free` are satisfiable by a non-trivial pool. -/
example : ∀ t ∈ [threadOf [.weightWrite 0 7, .sortedAdd 0 7], threadOf [.sortedDelete 0 7]],
    t.held = [] ∧ Ranked [] t.script := by
  intro t ht
  simp only [List.mem_cons, List.not_mem_nil, or_false] at ht
  rcases ht with rfl | rfl
  · exact ⟨rfl, threadOf_ranked _⟩
  · exact ⟨rfl, threadOf_ranked _⟩

/-! ## A5: the old `SortedSet.Delete` -/

instance (c : Cfg (List Lock) LT) : Decidable (Deadlock lockSys (fun t => t.script = []) c) := by
  unfold Deadlock Stuck; exact inferInstance

theorem sorted_inversion_deadlock :
    Deadlock lockSys (fun t => t.script = []) (runSched lockSys ([], inversionThreads) inversionSched) := by
  decide

theorem sorted_delete_old_not_ranked : ¬ Ranked [] (sortedDeleteOld 0 7) := by
  decide

/-- The inversion is reachable (from a pool whose first thread is *not* ranked). -/
theorem sorted_inversion_reachable :
    Reach lockSys ([], inversionThreads) (runSched lockSys ([], inversionThreads) inversionSched) :=
  runSched_reach _ _ _

end Hive.Derived
