import Hive.Proofs.WorkerPool
/-!
# C16 — invariants of the WorkerPool model used for the termination theorem

`LInv` collects the facts about the shared state alone (lock/condition bookkeeping, which phases can
coexist with which dispatcher state, who holds which task); the facts that tie client threads to the
shared state are in `Hive/Proofs/WorkerPoolLive2.lean`.
-/
set_option linter.unusedSimpArgs false
set_option linter.unusedVariables false
namespace Hive.WP
open Hive.Conc

def Phase.isQ : Phase → Bool
  | .queued => true
  | _ => false
def Phase.isCh : Phase → Bool
  | .inchan => true
  | _ => false
def Phase.isPop : Phase → Bool
  | .popped => true
  | _ => false
def Phase.isEarly : Phase → Bool
  | .fresh | .counted => true
  | _ => false
def Phase.isRunning : Phase → Bool
  | .running => true
  | _ => false
def Phase.isMarking : Phase → Bool
  | .ran | .cancelling => true
  | _ => false

def fQ (x : Task) : Bool := x.phase.isQ
def fCh (x : Task) : Bool := x.phase.isCh
def fPop (x : Task) : Bool := x.phase.isPop
def fER (x : Task) : Bool := x.phase.isEarly && x.returned

theorem idsIn_length (ph : Phase) (l : List Task) (k : Nat) :
    (idsIn ph l k).length = l.countP (fun x => decide (x.phase = ph)) := by
  induction l generalizing k with
  | nil => rfl
  | cons a as ih =>
    simp only [idsIn, List.countP_cons]
    by_cases h : a.phase = ph <;> simp [h, ih]

theorem queued_len (s : St) : (queuedIds s).length = s.tasks.countP fQ := by
  unfold queuedIds; rw [idsIn_length]; congr 1; funext x; cases x with | mk ph r k => cases ph <;> rfl

theorem chan_len (s : St) : (chanIds s).length = s.tasks.countP fCh := by
  unfold chanIds; rw [idsIn_length]; congr 1; funext x; cases x with | mk ph r k => cases ph <;> rfl

theorem queued_nil (s : St) : queuedIds s = [] ↔ s.tasks.countP fQ = 0 := by
  rw [← queued_len]; exact List.length_eq_zero_iff.symm

theorem chan_nil (s : St) : chanIds s = [] ↔ s.tasks.countP fCh = 0 := by
  rw [← chan_len]; exact List.length_eq_zero_iff.symm

def WPc.isSel : WPc → Bool
  | .sel => true
  | _ => false
def WPc.runs (t : Nat) : WPc → Bool
  | .run t' _ _ _ => t' == t
  | _ => false
def WPc.marks (t : Nat) : WPc → Bool
  | .mark t' _ => t' == t
  | _ => false
/-- the worker is inside a nested `Submit` for task `t` -/
def WPc.subs (t : Nat) : WPc → Bool
  | .run _ _ (some c) _ => c == t
  | _ => false

def DPc.isSend : DPc → Bool
  | .send _ => true
  | _ => false

def DPc.late : DPc → Bool
  | .chk | .cond2 | .close => true
  | _ => false

def WPc.isSignal : WPc → Bool
  | .signal _ => true
  | _ => false

def phL (l : List Task) (t : Nat) (f : Phase → Bool) : Bool :=
  match l[t]? with
  | some x => f x.phase
  | none => false

abbrev nQ (s : St) : Nat := s.tasks.countP fQ
abbrev nCh (s : St) : Nat := s.tasks.countP fCh
abbrev nPop (s : St) : Nat := s.tasks.countP fPop
abbrev nER (s : St) : Nat := s.tasks.countP fER

structure LInv (p : Params) (s : St) : Prop where
  h1 : s.stackHeld = true ↔ (s.disp = .cond ∨ s.disp = .cond2 ∨ s.disp = .gap)
  d1 : s.disp ≠ .none → s.closed = false
  d3 : s.closed = false → ∀ w ∈ s.workers, w.isExited = false
  wl : s.workers.length = p.W ∨ (s.workers = [] ∧ s.disp = .none ∧ s.running = false ∧ s.closed = false)
  d5 : (s.disp = .close ∨ s.disp = .none) → s.tasks.countP fCh = 0
  d9 : s.disp = .none → s.workers = [] ∨ s.closed = true
  q1 : (s.disp = .cond ∨ s.disp = .cond2 ∨ s.disp = .gap ∨ (s.disp = .waiting ∧ s.dwait = true)) → s.tasks.countP fQ = 0
  /-- a dispatcher that is (about to be) asleep has a reason to wait, or a wake-up is owed -/
  lw : (s.disp = .gap ∨ (s.disp = .waiting ∧ s.dwait = true)) → (s.running = true ∨ 0 < s.pending ∨ 0 < s.due)
  d7 : s.disp.late = true → s.running = false
  d8 : s.running = true → s.disp ≠ .none
  /-- a stopped pool whose dispatcher has seen (or is past seeing) "nothing pending" has nothing pending -/
  pz : (s.disp = .close ∨ s.disp = .none) → s.running = false → s.pending = 0
  n1 : s.sig ≤ s.sent + s.workers.countP WPc.isSel
  n2 : s.sig ≤ p.W
  sr : s.running = true → s.sent = 0
  p1 : s.tasks.countP fER = 0
  od1 : ∀ t, s.disp = .send t → phL s.tasks t Phase.isPop = true
  od2 : s.tasks.countP fPop = b2n s.disp.isSend
  oe1 : ∀ t, s.workers.countP (WPc.runs t) = b2n (phL s.tasks t Phase.isRunning)
  oe2 : ∀ t, s.workers.countP (WPc.marks t) = b2n (phL s.tasks t Phase.isMarking)

theorem linv_init (p : Params) : LInv p St.init := by
  refine ⟨by simp [St.init], by simp [St.init], ?_, Or.inr ⟨rfl, rfl, rfl, rfl⟩, fun _ => rfl, fun _ => Or.inl rfl,
    fun _ => rfl, ?_, fun _ => rfl, by simp [St.init], fun _ _ => rfl, by simp [St.init],
    by simp [St.init], by simp [St.init], rfl, by simp [St.init], rfl, ?_, ?_⟩
  · intro _ w hw; simp [St.init] at hw
  · intro a; simp [St.init] at a
  · intro t; simp [St.init, phL]
  · intro t; simp [St.init, phL]

theorem phL_set (l : List Task) (t0 : Nat) (x y : Task) (ht : l[t0]? = some x) (t : Nat) (f : Phase → Bool) :
    phL (l.set t0 y) t f = if t = t0 then f y.phase else phL l t f := by
  unfold phL
  by_cases h : t = t0
  · subst h; simp [List.getElem?_set, lt_of_get ht]
  · simp [List.getElem?_set, h, Ne.symm h]

theorem phL_append (l : List Task) (y : Task) (t : Nat) (f : Phase → Bool) :
    phL (l ++ [y]) t f = if t = l.length then f y.phase else phL l t f := by
  unfold phL
  rcases Nat.lt_trichotomy t l.length with h | h | h
  · simp [List.getElem?_append_left h, Nat.ne_of_lt h]
  · subst h; simp
  · have : ¬ t = l.length := by omega
    simp [this, List.getElem?_eq_none (show (l ++ [y]).length ≤ t by simp; omega), List.getElem?_eq_none (show l.length ≤ t by omega)]

theorem phL_get (l : List Task) (t : Nat) (x : Task) (ht : l[t]? = some x) (f : Phase → Bool) : phL l t f = f x.phase := by
  simp [phL, ht]

/-- the counters after an update of task `t`, solved for the new list -/
theorem countP_set' (f : Task → Bool) (l : List Task) (t : Nat) (x y : Task) (h : l[t]? = some x) :
    (l.set t y).countP f = l.countP f + b2n (f y) - b2n (f x) ∧ b2n (f x) ≤ l.countP f := by
  have := countP_set_add f l t x y h
  have hp : b2n (f x) ≤ l.countP f := by
    cases hf : f x with
    | false => simp
    | true => have := countP_pos_of_get f l t x h hf; simp only [b2n_true]; omega
  omega


structure UpdFacts (l l' : List Task) (t : Nat) (x y : Task) : Prop where
  q : l'.countP fQ = l.countP fQ + b2n (fQ y) - b2n (fQ x) ∧ b2n (fQ x) ≤ l.countP fQ
  ch : l'.countP fCh = l.countP fCh + b2n (fCh y) - b2n (fCh x) ∧ b2n (fCh x) ≤ l.countP fCh
  pop : l'.countP fPop = l.countP fPop + b2n (fPop y) - b2n (fPop x) ∧ b2n (fPop x) ≤ l.countP fPop
  er : l'.countP fER = l.countP fER + b2n (fER y) - b2n (fER x) ∧ b2n (fER x) ≤ l.countP fER
  ph : ∀ t' f, phL l' t' f = if t' = t then f y.phase else phL l t' f
  old : ∀ f, phL l t f = f x.phase

theorem updFacts (l : List Task) (t : Nat) (x y : Task) (ht : l[t]? = some x) : UpdFacts l (l.set t y) t x y :=
  ⟨countP_set' fQ l t x y ht, countP_set' fCh l t x y ht, countP_set' fPop l t x y ht,
   countP_set' fER l t x y ht, phL_set l t x y ht, phL_get l t x ht⟩

macro "phase_simp" "at" h:ident : tactic => `(tactic|
  simp only [fQ, fCh, fPop, fER, Phase.isQ, Phase.isCh, Phase.isPop, Phase.isEarly, b2n,
    Bool.and_true, Bool.and_false, Bool.false_and, Bool.true_and, if_true, if_false, Bool.false_eq_true,
    Nat.add_zero, Nat.sub_zero, Nat.zero_le, and_true, Nat.add_sub_cancel, reduceIte] at $h:ident)

set_option hygiene false in
macro "linv_open" h:ident : tactic => `(tactic|
  obtain ⟨h1, d1, d3, wl, d5, d9, q1, lw, d7, d8, pz, n1, n2, sr, p1, od1, od2, oe1, oe2⟩ := $h)

set_option hygiene false in
macro "upd_facts" ht:term "," y:term : tactic => `(tactic|
  (obtain ⟨fq, fch, fpop, fer, fph, fold⟩ := updFacts _ _ _ $y $ht
   phase_simp at fq; phase_simp at fch; phase_simp at fpop; phase_simp at fer))

/-- `LInv` only looks at these fields. -/
theorem LInv.congr {p : Params} {s s' : St} (h : LInv p s)
    (e1 : s'.stackHeld = s.stackHeld) (e2 : s'.disp = s.disp) (e3 : s'.closed = s.closed) (e4 : s'.workers = s.workers)
    (e5 : s'.running = s.running) (e6 : s'.dwait = s.dwait) (e7 : s'.due = s.due)
    (e8 : s'.pending = s.pending) (e11 : s'.sig = s.sig)
    (e12 : s'.sent = s.sent) (e13 : s'.tasks = s.tasks) : LInv p s' := by
  linv_open h
  refine ⟨?_, ?_, ?_, ?_, ?_, ?_, ?_, ?_, ?_, ?_, ?_, ?_, ?_, ?_, ?_, ?_, ?_, ?_, ?_⟩ <;>
    simp only [e1, e2, e3, e4, e5, e6, e7, e8, e11, e12, e13] <;> assumption

/-- the bits of a task record that `LInv` can see -/
def bits (x : Task) : List Bool :=
  [fQ x, fCh x, fPop x, fER x, x.phase.isRunning, x.phase.isMarking]

theorem linv_same_bits {p : Params} {s : St} {t : Nat} {x : Task} (y : Task) (h : LInv p s)
    (ht : s.tasks[t]? = some x) (hb : bits y = bits x) : LInv p { s with tasks := s.tasks.set t y } := by
  simp only [bits, List.cons.injEq, and_true] at hb
  obtain ⟨b1, b2, b4, b5, b6, b7⟩ := hb
  obtain ⟨fq, fch, fpop, fer, fph, fold⟩ := updFacts s.tasks t x y ht
  rw [b1] at fq; rw [b2] at fch; rw [b4] at fpop; rw [b5] at fer
  have e1 : (s.tasks.set t y).countP fQ = s.tasks.countP fQ := by omega
  have e2 : (s.tasks.set t y).countP fCh = s.tasks.countP fCh := by omega
  have e4 : (s.tasks.set t y).countP fPop = s.tasks.countP fPop := by omega
  have e5 : (s.tasks.set t y).countP fER = s.tasks.countP fER := by omega
  have g1 : ∀ t', phL (s.tasks.set t y) t' Phase.isPop = phL s.tasks t' Phase.isPop := by
    intro t'; rw [fph]; by_cases h' : t' = t
    · subst h'; simp [fold]; simpa [fPop] using b4
    · simp [h']
  have g2 : ∀ t', phL (s.tasks.set t y) t' Phase.isRunning = phL s.tasks t' Phase.isRunning := by
    intro t'; rw [fph]; by_cases h' : t' = t
    · subst h'; simp [fold]; exact b6
    · simp [h']
  have g3 : ∀ t', phL (s.tasks.set t y) t' Phase.isMarking = phL s.tasks t' Phase.isMarking := by
    intro t'; rw [fph]; by_cases h' : t' = t
    · subst h'; simp [fold]; exact b7
    · simp [h']
  linv_open h
  refine ⟨h1, d1, d3, wl, ?_, d9, ?_, lw, d7, d8, pz, n1, n2, sr, ?_, ?_, ?_, ?_, ?_⟩ <;> simp only [e1, e2, e4, e5, g1, g2, g3] <;> assumption

theorem not_send_of_phase {p : Params} {s : St} {t : Nat} {x : Task} (h : LInv p s) (ht : s.tasks[t]? = some x)
    (hp : x.phase.isPop = false) : s.disp ≠ .send t := by
  intro hd
  have := h.od1 t hd
  rw [phL_get _ _ _ ht] at this
  rw [hp] at this; cases this



/-- `Submit` found the pool running and counted its task (one step under the read lock). -/
theorem linv_count {p : Params} {s : St} {t : Nat} {kids : List Body} (h : LInv p s)
    (ht : s.tasks[t]? = some ⟨.fresh, false, kids⟩) (hrun : s.running = true) :
    LInv p { s with tasks := s.tasks.set t ⟨.counted, false, kids⟩, pending := s.pending + 1 } := by
  have h' := linv_same_bits ⟨.counted, false, kids⟩ h ht rfl
  linv_open h'
  refine ⟨h1, d1, d3, wl, d5, d9, q1, ?_, d7, d8, ?_, n1, n2, sr, p1, od1, od2, oe1, oe2⟩
  · intro _; right; left; show 0 < s.pending + 1; omega
  · intro _ hr; have : s.running = false := hr; rw [hrun] at this; cases this

/-- `Submit` pushes its task (and broadcasts `elementAdded`). -/
theorem linv_push {p : Params} {s : St} {t : Nat} {kids : List Body} (h : LInv p s)
    (ht : s.tasks[t]? = some ⟨.counted, false, kids⟩) (hsh : s.stackHeld = false) :
    LInv p { s with tasks := s.tasks.set t ⟨.queued, false, kids⟩, dwait := false } := by
  have hns := not_send_of_phase h ht rfl
  upd_facts ht, ⟨.queued, false, kids⟩
  linv_open h
  have hnc : ¬ (s.disp = .cond ∨ s.disp = .cond2 ∨ s.disp = .gap) := fun hc => by rw [h1.mpr hc] at hsh; cases hsh
  refine ⟨h1, d1, d3, wl, ?_, d9, ?_, ?_, d7, d8, pz, n1, n2, sr, ?_, ?_, ?_, ?_, ?_⟩
  · simpa [fch] using d5
  · intro hq
    rcases hq with hq | hq | hq | hq
    · exact absurd (Or.inl hq) hnc
    · exact absurd (Or.inr (Or.inl hq)) hnc
    · exact absurd (Or.inr (Or.inr hq)) hnc
    · simp at hq
  · intro hq
    rcases hq with hq | hq
    · exact absurd (Or.inr (Or.inr hq)) hnc
    · simp at hq
  · simpa [fer] using p1
  · intro t' hd; rw [fph]; by_cases h' : t' = t
    · subst h'; exact absurd hd hns
    · simp [h']; exact od1 t' hd
  · simpa [fpop] using od2
  · intro t'; rw [fph]; by_cases h' : t' = t
    · subst h'; simp [Phase.isRunning]; simpa [fold, Phase.isRunning] using oe1 t'
    · simp [h']; exact oe1 t'
  · intro t'; rw [fph]; by_cases h' : t' = t
    · subst h'; simp [Phase.isMarking]; simpa [fold, Phase.isMarking] using oe2 t'
    · simp [h']; exact oe2 t'

/-- `Submit`'s steps preserve `LInv`. -/
theorem linv_submitStep {p : Params} {s : St} {t : Nat} {r : St × Bool} (h : LInv p s)
    (hr : r ∈ submitStep p s t) : LInv p r.1 := by
  unfold submitStep at hr
  cases ht : s.tasks[t]? with
  | none => simp [ht] at hr
  | some x =>
    obtain ⟨ph, ret, kids⟩ := x
    simp only [ht] at hr
    cases ret with
    | true => simp at hr
    | false =>
      simp only [Bool.false_eq_true, if_false] at hr
      cases ph
      case fresh =>
        by_cases hw : s.writer = true
        · rw [if_pos hw] at hr; simp at hr
        · rw [if_neg hw] at hr
          by_cases hrun : s.running = true
          · rw [if_pos hrun] at hr; simp at hr; subst hr
            rw [setPhase_eq ht]
            exact (linv_count h ht hrun).congr rfl rfl rfl rfl rfl rfl rfl rfl rfl rfl rfl
          · rw [if_neg hrun] at hr; simp at hr; subst hr
            rw [setPhase_eq ht]
            exact linv_same_bits ⟨.rejected, false, kids⟩ h ht rfl
      case rejected =>
        simp at hr; subst hr
        rw [setReturned_eq ht]
        exact (linv_same_bits ⟨.rejected, true, kids⟩ h ht rfl).congr rfl rfl rfl rfl rfl rfl rfl rfl rfl rfl rfl
      case counted =>
        by_cases hsh : s.stackHeld = true
        · rw [if_pos hsh] at hr; simp at hr
        · rw [if_neg hsh] at hr; simp at hr; subst hr
          rw [setPhase_eq ht]
          exact (linv_push h ht (by simpa using hsh)).congr rfl rfl rfl rfl rfl rfl rfl rfl rfl rfl rfl
      all_goals
        simp at hr; subst hr
        rw [setReturned_eq ht]
        exact (linv_same_bits ⟨_, true, kids⟩ h ht rfl).congr rfl rfl rfl rfl rfl rfl rfl rfl rfl rfl rfl



macro "dsimp_all" : tactic => `(tactic|
  first
  | (simp_all [DPc.late, DPc.isSend, b2n]; done)
  | (simp_all [DPc.late, DPc.isSend, b2n]; omega))

set_option hygiene false in
macro "disp_fields" : tactic => `(tactic|
  refine ⟨?_, ?_, d3, ?_, ?_, ?_, ?_, ?_, ?_, ?_, ?_, n1, n2, sr, p1, ?_, ?_, oe1, oe2⟩)

theorem linv_d_loop {p : Params} {s : St} (h : LInv p s) (hd : s.disp = .loop) :
    LInv p { s with disp := if s.running then .pop else .chk } := by
  linv_open h
  disp_fields <;> (cases hr : s.running <;> dsimp_all)

theorem linv_d_chk {p : Params} {s : St} (h : LInv p s) (hd : s.disp = .chk)
    (hch : s.pending = 0 → s.tasks.countP fCh = 0) :
    LInv p { s with disp := if 0 < s.pending then .pop else .close } := by
  linv_open h
  by_cases hp : 0 < s.pending
  · simp only [hp, if_true]; disp_fields <;> dsimp_all
  · have hp0 : s.pending = 0 := by omega
    have := hch hp0
    simp only [hp, if_false]; disp_fields <;> dsimp_all

theorem linv_d_tocond {p : Params} {s : St} (h : LInv p s) (hd : s.disp = .pop ∨ s.disp = .waiting)
    (hq : queuedIds s = []) : LInv p { s with stackHeld := true, disp := .cond } := by
  have hq' := (queued_nil s).mp hq
  linv_open h
  rcases hd with hd | hd <;> disp_fields <;> dsimp_all

theorem linv_d_cond {p : Params} {s : St} (h : LInv p s) (hd : s.disp = .cond) :
    LInv p { s with disp := if s.running then .gap else .cond2 } := by
  linv_open h
  disp_fields <;> (cases hr : s.running <;> dsimp_all)

theorem linv_d_cond2_t {p : Params} {s : St} (h : LInv p s) (hd : s.disp = .cond2) (hp : 0 < s.pending) :
    LInv p { s with disp := .gap } := by
  linv_open h
  disp_fields <;> dsimp_all

theorem linv_d_cond2_f {p : Params} {s : St} (h : LInv p s) (hd : s.disp = .cond2) :
    LInv p { s with stackHeld := false, disp := .loop } := by
  linv_open h
  disp_fields <;> dsimp_all

theorem linv_d_gap {p : Params} {s : St} (h : LInv p s) (hd : s.disp = .gap) :
    LInv p { s with stackHeld := false, dwait := true, disp := .waiting } := by
  linv_open h
  disp_fields <;> dsimp_all

theorem linv_d_close {p : Params} {s : St} (h : LInv p s) (hd : s.disp = .close) :
    LInv p { s with closed := true, disp := .none } := by
  linv_open h
  refine ⟨?_, ?_, ?_, ?_, ?_, ?_, ?_, ?_, ?_, ?_, ?_, n1, n2, sr, p1, ?_, ?_, oe1, oe2⟩ <;> dsimp_all

theorem linv_d_pop {p : Params} {s : St} {t : Nat} {r : Bool} {k : List Body} (h : LInv p s)
    (hd : s.disp = .pop ∨ s.disp = .waiting) (hsh : s.stackHeld = false)
    (ht : s.tasks[t]? = some ⟨.queued, r, k⟩) :
    LInv p { s with tasks := s.tasks.set t ⟨.popped, r, k⟩, stackHeld := false, disp := .send t } := by
  upd_facts ht, ⟨.popped, r, k⟩
  linv_open h
  have hns : s.disp.isSend = false := by rcases hd with hd | hd <;> simp [hd, DPc.isSend]
  refine ⟨?_, ?_, d3, ?_, ?_, ?_, ?_, ?_, ?_, ?_, ?_, n1, n2, sr, ?_, ?_, ?_, ?_, ?_⟩
  · simp
  · intro _; exact d1 (by rcases hd with hd | hd <;> simp [hd])
  · rcases wl with wl | wl
    · exact Or.inl wl
    · rcases hd with hd | hd <;> simp [hd] at wl
  · simp
  · simp
  · simp
  · simp
  · simp [DPc.late]
  · intro a; simp
  · simp
  · simpa [fer] using p1
  · intro t' hd'; simp at hd'; subst hd'; rw [fph]; simp [Phase.isPop]
  · show _ = b2n (DPc.send t).isSend
    rw [fpop, od2, hns]; rfl
  · intro t'; rw [fph]; by_cases h' : t' = t
    · subst h'; simp [Phase.isRunning]; simpa [fold, Phase.isRunning] using oe1 t'
    · simp [h']; exact oe1 t'
  · intro t'; rw [fph]; by_cases h' : t' = t
    · subst h'; simp [Phase.isMarking]; simpa [fold, Phase.isMarking] using oe2 t'
    · simp [h']; exact oe2 t'

theorem linv_d_send {p : Params} {s : St} {t : Nat} {r : Bool} {k : List Body} (h : LInv p s)
    (hd : s.disp = .send t) (ht : s.tasks[t]? = some ⟨.popped, r, k⟩) :
    LInv p { s with tasks := s.tasks.set t ⟨.inchan, r, k⟩, disp := .loop } := by
  upd_facts ht, ⟨.inchan, r, k⟩
  linv_open h
  have hnc : s.closed = false := d1 (by simp [hd])
  refine ⟨?_, ?_, d3, ?_, ?_, ?_, ?_, ?_, ?_, ?_, ?_, n1, n2, sr, ?_, ?_, ?_, ?_, ?_⟩
  · simpa [hd] using h1
  · intro _; exact hnc
  · rcases wl with wl | wl
    · exact Or.inl wl
    · simp [hd] at wl
  · simp
  · simp
  · simp
  · simp
  · simp [DPc.late]
  · intro _; simp
  · simp
  · simpa [fer] using p1
  · intro t' hd'; simp at hd'
  · show _ = b2n DPc.loop.isSend
    rw [fpop.1, od2, hd]; rfl
  · intro t'; rw [fph]; by_cases h' : t' = t
    · subst h'; simp [Phase.isRunning]; simpa [fold, Phase.isRunning] using oe1 t'
    · simp [h']; exact oe1 t'
  · intro t'; rw [fph]; by_cases h' : t' = t
    · subst h'; simp [Phase.isMarking]; simpa [fold, Phase.isMarking] using oe2 t'
    · simp [h']; exact oe2 t'

theorem ch_le_pend (s : St) : s.tasks.countP fCh + cnt fNone s + cnt fNone s ≤ cnt fPend s + cnt fNone s :=
  countP_lin s.tasks fCh fNone fNone fPend fNone (by
    intro a; cases a with | mk ph r k => cases ph <;> simp [fCh, fPend, fNone, Phase.isCh, Phase.pending])

/-- The dispatcher's steps preserve `LInv` (the counter is the number of pending tasks: `SInv.cons`). -/
theorem linv_dispStep {p : Params} {s s' : St} (h : LInv p s) (hc : s.pending = cnt fPend s)
    (hs : s' ∈ dispStep p s) : LInv p s' := by
  unfold dispStep at hs
  cases hd : s.disp with
  | none => simp [hd] at hs
  | loop =>
    simp only [hd] at hs
    by_cases hw : s.writer = true
    · rw [if_pos hw] at hs; simp at hs
    · rw [if_neg hw] at hs; simp at hs; subst hs; exact linv_d_loop h hd
  | chk =>
    simp only [hd] at hs
    simp at hs; subst hs
    exact linv_d_chk h hd (fun hz => by have := ch_le_pend s; have := cnt_fNone s; omega)
  | pop =>
    simp only [hd] at hs
    by_cases hw : s.stackHeld = true
    · rw [if_pos hw] at hs; simp at hs
    · rw [if_neg hw] at hs
      unfold popOrCond at hs
      by_cases hq : queuedIds s = []
      · rw [if_pos hq] at hs; simp at hs; subst hs; exact linv_d_tocond h (Or.inl hd) hq
      · rw [if_neg hq] at hs; simp at hs
        obtain ⟨t, htq, rfl⟩ := hs
        obtain ⟨r, k, ht⟩ := queued_get htq
        rw [setPhase_eq ht]
        exact linv_d_pop h (Or.inl hd) (by simpa using hw) ht
  | cond =>
    simp only [hd] at hs
    by_cases hw : s.writer = true
    · rw [if_pos hw] at hs; simp at hs
    · rw [if_neg hw] at hs; simp at hs; subst hs; exact linv_d_cond h hd
  | cond2 =>
    simp only [hd] at hs
    by_cases hp : 0 < s.pending
    · rw [if_pos hp] at hs; simp at hs; subst hs; exact linv_d_cond2_t h hd hp
    · rw [if_neg hp] at hs; simp at hs; subst hs; exact linv_d_cond2_f h hd
  | gap =>
    simp only [hd] at hs
    simp at hs; subst hs; exact linv_d_gap h hd
  | waiting =>
    simp only [hd] at hs
    by_cases hw : (s.dwait || s.stackHeld) = true
    · rw [if_pos hw] at hs; simp at hs
    · rw [if_neg hw] at hs
      have hsh : s.stackHeld = false := by cases h1 : s.stackHeld <;> simp_all
      unfold popOrCond at hs
      by_cases hq : queuedIds s = []
      · rw [if_pos hq] at hs; simp at hs; subst hs; exact linv_d_tocond h (Or.inr hd) hq
      · rw [if_neg hq] at hs; simp at hs
        obtain ⟨t, htq, rfl⟩ := hs
        obtain ⟨r, k, ht⟩ := queued_get htq
        rw [setPhase_eq ht]
        exact linv_d_pop h (Or.inr hd) hsh ht
  | send t =>
    simp only [hd] at hs
    by_cases hcnd : (chanIds s).length < p.W ∧ s.closed = false ∧ phaseOf s t = some .popped
    · rw [if_pos hcnd] at hs; simp at hs; subst hs
      obtain ⟨_, _, hph⟩ := hcnd
      unfold phaseOf at hph
      cases ht : s.tasks[t]? with
      | none => simp [ht] at hph
      | some x =>
        obtain ⟨ph, r, k⟩ := x
        simp [ht] at hph; subst hph
        rw [setPhase_eq ht]
        exact linv_d_send h hd ht
    · rw [if_neg hcnd] at hs; simp at hs
  | close =>
    simp only [hd] at hs
    simp at hs; subst hs; exact linv_d_close h hd



theorem pres_submitStep_workers {p : Params} {s : St} {t : Nat} {r : St × Bool} (hr : r ∈ submitStep p s t) :
    r.1.workers = s.workers := by
  unfold submitStep at hr
  split at hr
  · simp at hr
  · split at hr
    · simp at hr
    · split at hr <;> (try split at hr) <;> (try split at hr) <;> simp at hr <;> subst hr <;> simp [setPhase, setReturned] <;> split <;> rfl

theorem wcount_set (g : WPc → Bool) (ws : List WPc) (i : Nat) (w w' : WPc) (hi : ws[i]? = some w) :
    (ws.set i w').countP g = ws.countP g + b2n (g w') - b2n (g w) ∧ b2n (g w) ≤ ws.countP g := by
  have := countP_set_add g ws i w w' hi
  have hp : b2n (g w) ≤ ws.countP g := by
    cases hf : g w with
    | false => simp
    | true => have := countP_pos_of_get g ws i w hi hf; simp only [b2n_true]; omega
  omega

/-- A worker moves while task `t` changes from `x` to `y`; the counter and the owed signals may change. -/
theorem linv_exec {p : Params} {s : St} {t i : Nat} {x y : Task} {w w' : WPc} (h : LInv p s)
    (ht : s.tasks[t]? = some x) (hi : s.workers[i]? = some w)
    (b1 : fQ y = fQ x) (b3 : fPop y = fPop x) (b4 : fER y = fER x)
    (b5 : fCh y = true → fCh x = true)
    (r1 : ∀ t', t' ≠ t → w'.runs t' = w.runs t')
    (r2 : b2n x.phase.isRunning + b2n (w'.runs t) = b2n y.phase.isRunning + b2n (w.runs t))
    (m1 : ∀ t', t' ≠ t → w'.marks t' = w.marks t')
    (m2 : b2n x.phase.isMarking + b2n (w'.marks t) = b2n y.phase.isMarking + b2n (w.marks t))
    (hx : w'.isExited = false) (sig' : Nat) (hsig : sig' ≤ s.sig)
    (hleave : w.isSel = true → w'.isSel = false → sig' + 1 ≤ s.sig ∨ sig' = 0)
    (pending' due' : Nat) (hp0 : s.pending = 0 → pending' = 0)
    (hlw : (s.running = true ∨ 0 < s.pending ∨ 0 < s.due) → (s.running = true ∨ 0 < pending' ∨ 0 < due')) :
    LInv p { s with tasks := s.tasks.set t y, workers := s.workers.set i w', sig := sig', pending := pending', due := due' } := by
  obtain ⟨fq, fch, fpop, fer, fph, fold⟩ := updFacts s.tasks t x y ht
  rw [b1] at fq; rw [b3] at fpop; rw [b4] at fer
  have e1 : (s.tasks.set t y).countP fQ = s.tasks.countP fQ := by omega
  have e4 : (s.tasks.set t y).countP fPop = s.tasks.countP fPop := by omega
  have e5 : (s.tasks.set t y).countP fER = s.tasks.countP fER := by omega
  have e2 : (s.tasks.set t y).countP fCh ≤ s.tasks.countP fCh := by
    cases hy : fCh y with
    | false => rw [hy] at fch; simp at fch; omega
    | true => rw [hy, b5 hy] at fch; omega
  have g1 : ∀ t', phL (s.tasks.set t y) t' Phase.isPop = phL s.tasks t' Phase.isPop := by
    intro t'; rw [fph]; by_cases h' : t' = t
    · subst h'; simp [fold]; simpa [fPop] using b3
    · simp [h']
  have cs := wcount_set WPc.isSel s.workers i w w' hi
  linv_open h
  refine ⟨h1, d1, ?_, ?_, ?_, ?_, ?_, ?_, d7, d8, ?_, ?_, ?_, sr, ?_, ?_, ?_, ?_, ?_⟩
  · intro hc v hv
    rcases List.mem_or_eq_of_mem_set hv with hv | hv
    · exact d3 hc v hv
    · subst hv; exact hx
  · rcases wl with wl | wl
    · left; simpa using wl
    · rw [wl.1] at hi; simp at hi
  · intro hd; have := d5 hd; simp only; omega
  · intro hd
    rcases d9 hd with a | a
    · rw [a] at hi; simp at hi
    · exact Or.inr a
  · simpa [e1] using q1
  · intro a; exact hlw (lw a)
  · intro a b; exact hp0 (pz a b)
  · show sig' ≤ s.sent + (s.workers.set i w').countP WPc.isSel
    cases hs' : w'.isSel with
    | false =>
      cases hs : w.isSel with
      | false => rw [hs', hs] at cs; simp at cs; omega
      | true =>
        rw [hs', hs] at cs; simp at cs
        rcases hleave hs hs' with a | a <;> omega
    | true => rw [hs'] at cs; cases hs : w.isSel <;> (rw [hs] at cs; simp at cs; omega)
  · show sig' ≤ p.W; omega
  · simpa [e5] using p1
  · intro t' hd; rw [g1]; exact od1 t' hd
  · simpa [e4] using od2
  · intro t'
    have c := wcount_set (WPc.runs t') s.workers i w w' hi
    rw [fph]
    by_cases h' : t' = t
    · subst h'
      have o := oe1 t'; rw [fold] at o
      simp only [if_true]; omega
    · simp only [h', if_false]; rw [r1 t' h'] at c; have o := oe1 t'; omega
  · intro t'
    have c := wcount_set (WPc.marks t') s.workers i w w' hi
    rw [fph]
    by_cases h' : t' = t
    · subst h'
      have o := oe2 t'; rw [fold] at o
      simp only [if_true]; omega
    · simp only [h', if_false]; rw [m1 t' h'] at c; have o := oe2 t'; omega

/-- A worker moves, the tasks stay as they are. -/
theorem linv_wmove {p : Params} {s : St} {i : Nat} {w w' : WPc} (h : LInv p s) (hi : s.workers[i]? = some w)
    (r1 : ∀ t', w'.runs t' = w.runs t') (m1 : ∀ t', w'.marks t' = w.marks t')
    (hx : w'.isExited = true → s.closed = true) (sig' : Nat) (hsig : sig' ≤ s.sig)
    (hleave : w.isSel = true → w'.isSel = false → sig' + 1 ≤ s.sig ∨ sig' = 0) :
    LInv p { s with workers := s.workers.set i w', sig := sig' } := by
  have cs := wcount_set WPc.isSel s.workers i w w' hi
  linv_open h
  refine ⟨h1, d1, ?_, ?_, d5, ?_, q1, lw, d7, d8, pz, ?_, ?_, sr, p1, od1, od2, ?_, ?_⟩
  · intro hc v hv
    rcases List.mem_or_eq_of_mem_set hv with hv | hv
    · exact d3 hc v hv
    · subst hv
      cases he : v.isExited with
      | false => rfl
      | true => have := hx he; rw [hc] at this; cases this
  · rcases wl with wl | wl
    · left; simpa using wl
    · rw [wl.1] at hi; simp at hi
  · intro hd
    rcases d9 hd with a | a
    · rw [a] at hi; simp at hi
    · exact Or.inr a
  · show sig' ≤ s.sent + (s.workers.set i w').countP WPc.isSel
    cases hs' : w'.isSel with
    | false =>
      cases hs : w.isSel with
      | false => rw [hs', hs] at cs; simp at cs; omega
      | true =>
        rw [hs', hs] at cs; simp at cs
        rcases hleave hs hs' with a | a <;> omega
    | true => rw [hs'] at cs; cases hs : w.isSel <;> (rw [hs] at cs; simp at cs; omega)
  · show sig' ≤ p.W; omega
  · intro t'
    have c := wcount_set (WPc.runs t') s.workers i w w' hi
    rw [r1 t'] at c; have o := oe1 t'
    show (s.workers.set i w').countP (WPc.runs t') = b2n (phL s.tasks t' Phase.isRunning); omega
  · intro t'
    have c := wcount_set (WPc.marks t') s.workers i w w' hi
    rw [m1 t'] at c; have o := oe2 t'
    show (s.workers.set i w').countP (WPc.marks t') = b2n (phL s.tasks t' Phase.isMarking); omega

/-- `Queue.SignalShutdown` (under the stack mutex): whoever sleeps is woken; any number of owed signals may remain. -/
theorem linv_bcast {p : Params} {s : St} (h : LInv p s) (hsh : s.stackHeld = false) (d : Nat) :
    LInv p { s with dwait := false, due := d } := by
  linv_open h
  have hnc : ¬ (s.disp = .cond ∨ s.disp = .cond2 ∨ s.disp = .gap) := fun hc => by rw [h1.mpr hc] at hsh; cases hsh
  refine ⟨h1, d1, d3, wl, d5, d9, ?_, ?_, d7, d8, pz, n1, n2, sr, p1, od1, od2, oe1, oe2⟩
  · intro hq
    rcases hq with hq | hq | hq | hq
    · exact q1 (Or.inl hq)
    · exact q1 (Or.inr (Or.inl hq))
    · exact q1 (Or.inr (Or.inr (Or.inl hq)))
    · simp at hq
  · intro hq
    rcases hq with hq | hq
    · exact absurd (Or.inr (Or.inr hq)) hnc
    · simp at hq




theorem linv_newTask {p : Params} {s : St} (h : LInv p s) (kids : List Body) : LInv p (newTask p s kids).1 := by
  have A := fun f => phL_append s.tasks ⟨.fresh, false, kids⟩ f
  linv_open h
  refine ⟨h1, d1, d3, wl, ?_, d9, ?_, lw, d7, d8, pz, n1, n2, sr, ?_, ?_, ?_, ?_, ?_⟩ <;>
    simp_all [newTask, emit, List.countP_append, fCh, fQ, fER, fPop, Phase.isCh, Phase.isQ,
      Phase.isEarly, Phase.isPop, Phase.isRunning, Phase.isMarking]
  · intro t hd; have := od1 t hd
    have hlt : t ≠ s.tasks.length := by
      intro e; subst e; simp [phL] at this
    simp [hlt, this]
  · intro t; by_cases ht : t = s.tasks.length <;> simp [ht]
    simp [phL]
  · intro t; by_cases ht : t = s.tasks.length <;> simp [ht]
    simp [phL]

theorem lw_keep {s : St} : (s.running = true ∨ 0 < s.pending ∨ 0 < s.due) → (s.running = true ∨ 0 < s.pending ∨ 0 < s.due) :=
  fun a => a

theorem linv_takeRun {p : Params} {s : St} {i t : Nat} {w : WPc} {dr : Bool} (h : LInv p s)
    (hi : s.workers[i]? = some w) (hw : w = .sel2 ∨ w = .drain) (ht : t ∈ chanIds s) :
    LInv p { (takeRun p s dr t).1 with workers := (takeRun p s dr t).1.workers.set i (takeRun p s dr t).2 } := by
  obtain ⟨r, k, ht⟩ := chan_get ht
  have hk : kidsOf s t = k := by simp [kidsOf, ht]
  simp only [takeRun]
  rw [setPhase_eq ht]
  have := linv_exec (y := ⟨.running, r, k⟩) (w' := .run t k none dr) h ht hi rfl rfl rfl (by simp [fCh, Phase.isCh])
    (by intro t' h'; rcases hw with hw | hw <;> subst hw <;> (simp [WPc.runs]; exact fun e => h' e.symm))
    (by rcases hw with hw | hw <;> subst hw <;> simp [WPc.runs, Phase.isRunning, b2n])
    (by intro t' h'; rcases hw with hw | hw <;> subst hw <;> simp [WPc.marks])
    (by rcases hw with hw | hw <;> subst hw <;> simp [WPc.marks, Phase.isMarking, b2n])
    rfl s.sig (Nat.le_refl _) (by rcases hw with hw | hw <;> subst hw <;> simp [WPc.isSel])
    s.pending s.due (fun a => a) lw_keep
  rw [hk]
  exact this.congr rfl rfl rfl rfl rfl rfl rfl rfl rfl rfl rfl

/-- `markDone` by worker `i` on task `t` (after a run: `x = ran`, `y = done`; cancelled: `cancelling`/`cancelled`). -/
theorem linv_markDone {p : Params} {s : St} {i t : Nat} {r : Bool} {k : List Body} {dr : Bool} {phx phy : Phase}
    (h : LInv p s) (ht : s.tasks[t]? = some ⟨phx, r, k⟩) (hi : s.workers[i]? = some (.mark t dr))
    (hx : phx.isMarking = true ∧ phx.isQ = false ∧ phx.isPop = false ∧ phx.isEarly = false ∧ phx.isRunning = false)
    (hy : phy.isMarking = false ∧ phy.isQ = false ∧ phy.isPop = false ∧ phy.isEarly = false ∧ phy.isRunning = false ∧ phy.isCh = false)
    (dr' : Bool) :
    LInv p { (markDone p s t phy dr').1 with workers := (markDone p s t phy dr').1.workers.set i (markDone p s t phy dr').2 } := by
  obtain ⟨x1, x2, x3, x4, x5⟩ := hx
  obtain ⟨y1, y2, y3, y4, y5, y6⟩ := hy
  unfold markDone
  by_cases hp : s.pending = 1
  · rw [if_pos hp]
    rw [setPhase_eq ht]
    have := linv_exec (y := ⟨phy, r, k⟩) (w' := .signal dr') h ht hi (by simp [fQ, x2, y2]) (by simp [fPop, x3, y3])
      (by simp [fER, x4, y4]) (by simp [fCh, y6])
      (by intro t' h'; simp [WPc.runs]) (by simp [WPc.runs, x5, y5])
      (by intro t' h'; simp [WPc.marks]; exact fun e => h' e.symm) (by simp [WPc.marks, x1, y1, b2n])
      rfl s.sig (Nat.le_refl _) (by simp [WPc.isSel]) 0 (s.due + 1) (fun _ => rfl) (fun _ => Or.inr (Or.inr (by omega)))
    exact this.congr rfl rfl rfl rfl rfl rfl rfl rfl rfl rfl rfl
  · rw [if_neg hp]
    rw [setPhase_eq ht]
    have := linv_exec (y := ⟨phy, r, k⟩) (w' := if dr' then .drain else .sel) h ht hi (by simp [fQ, x2, y2]) (by simp [fPop, x3, y3])
      (by simp [fER, x4, y4]) (by simp [fCh, y6])
      (by intro t' h'; cases dr' <;> simp [WPc.runs]) (by cases dr' <;> simp [WPc.runs, x5, y5])
      (by intro t' h'; cases dr' <;> (simp [WPc.marks]; exact fun e => h' e.symm))
      (by cases dr' <;> simp [WPc.marks, x1, y1, b2n])
      (by cases dr' <;> rfl) s.sig (Nat.le_refl _) (by simp [WPc.isSel]) (s.pending - 1) s.due (fun a => by omega)
      (fun a => by rcases a with a | a | a
                   · exact Or.inl a
                   · exact Or.inr (Or.inl (by omega))
                   · exact Or.inr (Or.inr a))
    exact this.congr rfl rfl rfl rfl rfl rfl rfl rfl rfl rfl rfl



/-- The steps of worker `i` preserve `LInv`. -/
theorem linv_wStep {p : Params} {s : St} {i : Nat} {w : WPc} {r : St × WPc} (h : LInv p s)
    (hi : s.workers[i]? = some w) (hr : r ∈ wStep p s w) :
    LInv p { r.1 with workers := r.1.workers.set i r.2 } := by
  cases w with
  | exited => simp [wStep] at hr
  | sel =>
    simp only [wStep] at hr
    by_cases hs : 0 < s.sig
    · rw [if_pos hs] at hr; simp at hr; subst hr
      exact (linv_wmove (w' := .drain) h hi (by simp [WPc.runs]) (by simp [WPc.marks]) (by simp [WPc.isExited])
        (s.sig - 1) (by omega) (fun _ _ => Or.inl (by omega))).congr rfl rfl rfl rfl rfl rfl rfl rfl rfl rfl rfl
    · rw [if_neg hs] at hr; simp at hr; subst hr
      exact (linv_wmove (w' := .sel2) h hi (by simp [WPc.runs]) (by simp [WPc.marks]) (by simp [WPc.isExited])
        s.sig (Nat.le_refl _) (fun _ _ => Or.inr (by omega))).congr rfl rfl rfl rfl rfl rfl rfl rfl rfl rfl rfl
  | sel2 =>
    simp only [wStep, List.mem_append] at hr
    rcases hr with (hr | hr) | hr
    · by_cases hs : 0 < s.sig
      · rw [if_pos hs] at hr; simp at hr; subst hr
        exact (linv_wmove (w' := .drain) h hi (by simp [WPc.runs]) (by simp [WPc.marks]) (by simp [WPc.isExited])
          (s.sig - 1) (by omega) (by simp [WPc.isSel])).congr rfl rfl rfl rfl rfl rfl rfl rfl rfl rfl rfl
      · rw [if_neg hs] at hr; simp at hr
    · simp only [List.mem_map] at hr
      obtain ⟨t, ht, rfl⟩ := hr
      exact linv_takeRun h hi (Or.inl rfl) ht
    · by_cases hc : s.closed = true ∧ chanIds s = []
      · rw [if_pos hc] at hr; simp at hr; subst hr
        exact (linv_wmove (w' := .drain) h hi (by simp [WPc.runs]) (by simp [WPc.marks]) (by simp [WPc.isExited])
          s.sig (Nat.le_refl _) (by simp [WPc.isSel])).congr rfl rfl rfl rfl rfl rfl rfl rfl rfl rfl rfl
      · rw [if_neg hc] at hr; simp at hr
  | drain =>
    simp only [wStep, List.mem_append] at hr
    rcases hr with hr | hr
    · simp only [List.mem_map] at hr
      obtain ⟨t, ht, rfl⟩ := hr
      by_cases hcc : p.cancel = true
      · rw [if_pos hcc]
        obtain ⟨r, k, ht'⟩ := chan_get ht
        rw [setPhase_eq ht']
        have := linv_exec (y := ⟨.cancelling, r, k⟩) (w' := .mark t true) h ht' hi rfl rfl rfl (by simp [fCh, Phase.isCh])
          (by intro t' h'; simp [WPc.runs]) (by simp [WPc.runs, Phase.isRunning, b2n])
          (by intro t' h'; simp [WPc.marks]; exact fun e => h' e.symm) (by simp [WPc.marks, Phase.isMarking, b2n])
          rfl s.sig (Nat.le_refl _) (by simp [WPc.isSel]) s.pending s.due (fun a => a) lw_keep
        exact this.congr rfl rfl rfl rfl rfl rfl rfl rfl rfl rfl rfl
      · rw [if_neg hcc]
        exact linv_takeRun h hi (Or.inr rfl) ht
    · by_cases hc : s.closed = true ∧ chanIds s = []
      · rw [if_pos hc] at hr; simp at hr; subst hr
        exact (linv_wmove (w' := .exited) h hi (by simp [WPc.runs]) (by simp [WPc.marks]) (fun _ => hc.1)
          s.sig (Nat.le_refl _) (by simp [WPc.isSel])).congr rfl rfl rfl rfl rfl rfl rfl rfl rfl rfl rfl
      · rw [if_neg hc] at hr; simp at hr
  | run t todo sub dr =>
    simp only [wStep] at hr
    cases sub with
    | some c =>
      simp only [List.mem_map] at hr
      obtain ⟨q, hq, rfl⟩ := hr
      have hws : q.1.workers = s.workers := (pres_submitStep_workers hq)
      have h1 := linv_submitStep h hq
      exact (linv_wmove (w' := .run t todo (if q.2 then none else some c) dr) h1 (by rw [hws]; exact hi)
        (by simp [WPc.runs]) (by simp [WPc.marks]) (by simp [WPc.isExited])
        q.1.sig (Nat.le_refl _) (by simp [WPc.isSel])).congr rfl rfl rfl rfl rfl rfl rfl rfl rfl rfl rfl
    | none =>
      cases todo with
      | cons b rest =>
        simp at hr; subst hr
        have h1 := linv_newTask h b.kids
        exact (linv_wmove (w' := .run t rest (some (newTask p s b.kids).2) dr) h1 hi
          (by simp [WPc.runs]) (by simp [WPc.marks]) (by simp [WPc.isExited])
          s.sig (Nat.le_refl _) (by simp [WPc.isSel])).congr rfl rfl rfl rfl rfl rfl rfl rfl rfl rfl rfl
      | nil =>
        simp only at hr
        by_cases hph : phaseOf s t = some .running
        · rw [if_pos hph] at hr; simp at hr; subst hr
          unfold phaseOf at hph
          cases ht : s.tasks[t]? with
          | none => simp [ht] at hph
          | some x =>
            obtain ⟨ph, r, k⟩ := x
            simp [ht] at hph; subst hph
            rw [setPhase_eq ht]
            have := linv_exec (y := ⟨.ran, r, k⟩) (w' := .mark t dr) h ht hi rfl rfl rfl (by simp [fCh, Phase.isCh])
              (by intro t' h'; simp [WPc.runs]; exact fun e => h' e.symm) (by simp [WPc.runs, Phase.isRunning, b2n])
              (by intro t' h'; simp [WPc.marks]; exact fun e => h' e.symm) (by simp [WPc.marks, Phase.isMarking, b2n])
              rfl s.sig (Nat.le_refl _) (by simp [WPc.isSel]) s.pending s.due (fun a => a) lw_keep
            exact this.congr rfl rfl rfl rfl rfl rfl rfl rfl rfl rfl rfl
        · rw [if_neg hph] at hr; simp at hr
  | mark t dr =>
    simp only [wStep] at hr
    unfold phaseOf at hr
    cases ht : s.tasks[t]? with
    | none => simp [ht] at hr
    | some x =>
      obtain ⟨ph, r, k⟩ := x
      simp only [ht, Option.map_some] at hr
      cases ph <;> simp at hr
      case ran =>
        subst hr
        exact linv_markDone h ht hi (by simp [Phase.isMarking, Phase.isQ, Phase.isPop, Phase.isEarly, Phase.isRunning])
          (by simp [Phase.isMarking, Phase.isQ, Phase.isPop, Phase.isEarly, Phase.isRunning, Phase.isCh]) dr
      case cancelling =>
        subst hr
        exact linv_markDone h ht hi (by simp [Phase.isMarking, Phase.isQ, Phase.isPop, Phase.isEarly, Phase.isRunning])
          (by simp [Phase.isMarking, Phase.isQ, Phase.isPop, Phase.isEarly, Phase.isRunning, Phase.isCh]) true
  | signal dr =>
    simp only [wStep] at hr
    by_cases hsh : s.stackHeld = true
    · rw [if_pos hsh] at hr; simp at hr
    · rw [if_neg hsh] at hr; simp at hr; subst hr
      have h1 := linv_bcast h (by simpa using hsh) (s.due - 1)
      exact (linv_wmove (w' := if dr then .drain else .sel) h1 hi (by cases dr <;> simp [WPc.runs])
        (by cases dr <;> simp [WPc.marks]) (by cases dr <;> simp [WPc.isExited])
        s.sig (Nat.le_refl _) (by simp [WPc.isSel])).congr rfl rfl rfl rfl rfl rfl rfl rfl rfl rfl rfl

theorem linv_runnerStep {p : Params} {s s' : St} (h : LInv p s) (hc : s.pending = cnt fPend s)
    (hs : s' ∈ runnerStep p s) : LInv p s' := by
  unfold runnerStep at hs
  rcases List.mem_append.mp hs with hs | hs
  · exact linv_dispStep h hc hs
  · obtain ⟨i, _, hi⟩ := List.mem_flatMap.mp hs
    cases hw : s.workers[i]? with
    | none => simp [hw] at hi
    | some w =>
      simp only [hw, List.mem_map] at hi
      obtain ⟨r, hr, rfl⟩ := hi
      exact linv_wStep h hw hr

theorem all_exited_of_wg {s : St} (h : wg s = 0) : ∀ w ∈ s.workers, w.isExited = true := by
  intro w hw
  cases he : w.isExited with
  | true => rfl
  | false =>
    have : 0 < wg s := List.countP_pos_iff.mpr ⟨w, hw, by simp [he]⟩
    omega


theorem linv_spawn {p : Params} {s : St} (h : LInv p s) (hW : 0 < p.W) (hz : wg s = 0) : LInv p (spawn p s) := by
  have hall := all_exited_of_wg hz
  linv_open h
  have hdn : s.disp = .none := by
    rcases wl with wl | wl
    · have hne : s.workers ≠ [] := by intro e; rw [e] at wl; simp at wl; omega
      obtain ⟨w, hw⟩ := List.exists_mem_of_ne_nil _ hne
      have he := hall w hw
      have hcl : s.closed = true := by
        cases hc : s.closed with
        | true => rfl
        | false => have := d3 hc w hw; rw [he] at this; cases this
      cases hd : s.disp with
      | none => rfl
      | _ => have := d1 (by simp [hd]); rw [hcl] at this; cases this
    · exact wl.2.1
  have hsh : s.stackHeld = false := by
    cases hh : s.stackHeld with
    | false => rfl
    | true => rcases h1.mp hh with a | a | a <;> simp [hdn] at a
  have hnr : ∀ t, s.workers.countP (WPc.runs t) = 0 := by
    intro t; rw [List.countP_eq_zero]; intro w hw
    have := hall w hw; cases w <;> simp [WPc.isExited] at this; simp [WPc.runs]
  have hnm : ∀ t, s.workers.countP (WPc.marks t) = 0 := by
    intro t; rw [List.countP_eq_zero]; intro w hw
    have := hall w hw; cases w <;> simp [WPc.isExited] at this; simp [WPc.marks]
  unfold spawn
  refine ⟨?_, ?_, ?_, ?_, ?_, ?_, ?_, ?_, ?_, ?_, ?_, ?_, n2, ?_, p1, ?_, ?_, ?_, ?_⟩
  · simp [hsh]
  · intro _; rfl
  · intro _ w hw; have := List.eq_of_mem_replicate hw; subst this; rfl
  · left; simp
  · simp
  · simp
  · simp
  · simp
  · simp [DPc.late]
  · intro _; simp
  · simp
  · show s.sig ≤ 0 + (List.replicate p.W WPc.sel).countP WPc.isSel
    have : (List.replicate p.W WPc.sel).countP WPc.isSel = p.W := by
      rw [List.countP_replicate]; simp [WPc.isSel]
    omega
  · intro _; rfl
  · intro t a; simp at a
  · simpa [hdn, DPc.isSend, b2n] using od2
  · intro t
    show (List.replicate p.W WPc.sel).countP (WPc.runs t) = _
    have := oe1 t; rw [hnr t] at this
    rw [← this, List.countP_replicate]; simp [WPc.runs]
  · intro t
    show (List.replicate p.W WPc.sel).countP (WPc.marks t) = _
    have := oe2 t; rw [hnm t] at this
    rw [← this, List.countP_replicate]; simp [WPc.marks]

theorem linv_sd1 {p : Params} {s : St} (h : LInv p s) (hr : s.running = true) :
    LInv p { s with writer := true, running := false, due := s.due + 1 } := by
  linv_open h
  refine ⟨h1, d1, d3, ?_, d5, d9, q1, ?_, ?_, ?_, ?_, n1, n2, ?_, p1, od1, od2, oe1, oe2⟩
  · rcases wl with wl | wl
    · exact Or.inl wl
    · rw [hr] at wl; simp at wl
  · intro _; right; right; show 0 < s.due + 1; omega
  · intro _; rfl
  · intro a; simp at a
  · intro c _
    rcases c with c | c
    · have c' : s.disp = .close := c
      have := d7 (by rw [c']; rfl); rw [hr] at this; cases this
    · exact absurd c (d8 hr)
  · intro a; simp at a

theorem linv_sdSend {p : Params} {s : St} (h : LInv p s) (hr : s.running = false) (hs : s.sig < p.W) :
    LInv p { s with sig := s.sig + 1, sent := s.sent + 1 } := by
  linv_open h
  refine ⟨h1, d1, d3, wl, d5, d9, q1, lw, d7, d8, pz, ?_, ?_, ?_, p1, od1, od2, oe1, oe2⟩
  · show s.sig + 1 ≤ s.sent + 1 + s.workers.countP WPc.isSel; omega
  · show s.sig + 1 ≤ p.W; omega
  · intro a; rw [hr] at a; cases a

/-- The steps of a client thread preserve `LInv`; a client in `Shutdown`'s send loop knows that the pool
is switched off (thread-level fact supplied by the caller). -/
theorem linv_clientStep {p : Params} {s : St} {c : Client} {r : St × Client} (h : LInv p s) (hW : 0 < p.W)
    (hsend : ∀ j, c.pc = .sdSend j → s.running = false) (hr : r ∈ clientStep p s c) : LInv p r.1 := by
  obtain ⟨pc, script⟩ := c
  cases pc
  case idle =>
    simp only [clientStep] at hr
    cases script with
    | nil => simp at hr
    | cons op rest =>
      cases op <;> (simp at hr; subst hr)
      · exact linv_newTask h _
      · exact h.congr rfl rfl rfl rfl rfl rfl rfl rfl rfl rfl rfl
      · exact h.congr rfl rfl rfl rfl rfl rfl rfl rfl rfl rfl rfl
      · exact h
      · exact h
      · exact h
  case sub t =>
    simp only [clientStep, List.mem_map] at hr
    obtain ⟨q, hq, rfl⟩ := hr
    exact linv_submitStep h hq
  case sd1 =>
    simp only [clientStep] at hr
    by_cases hw : s.writer = true
    · rw [if_pos hw] at hr; simp at hr
    · rw [if_neg hw] at hr
      by_cases hrun : s.running = true
      · rw [if_pos hrun] at hr; simp at hr; subst hr; exact linv_sd1 h hrun
      · rw [if_neg hrun] at hr; simp at hr; subst hr
        exact h.congr rfl rfl rfl rfl rfl rfl rfl rfl rfl rfl rfl
  case sdSend j =>
    simp only [clientStep] at hr
    by_cases hj : j < p.W
    · rw [if_pos hj] at hr
      by_cases hsg : s.sig < p.W
      · rw [if_pos hsg] at hr; simp at hr; subst hr; exact linv_sdSend h (hsend j rfl) hsg
      · rw [if_neg hsg] at hr; simp at hr
    · rw [if_neg hj] at hr; simp at hr; subst hr; exact h
  case sdUnlockS =>
    simp [clientStep] at hr; subst hr
    exact h.congr rfl rfl rfl rfl rfl rfl rfl rfl rfl rfl rfl
  case sdUnlockN =>
    simp [clientStep] at hr; subst hr
    exact h.congr rfl rfl rfl rfl rfl rfl rfl rfl rfl rfl rfl
  case sdBcast =>
    simp only [clientStep] at hr
    by_cases hsh : s.stackHeld = true
    · rw [if_pos hsh] at hr; simp at hr
    · rw [if_neg hsh] at hr; simp at hr; subst hr
      exact (linv_bcast h (by simpa using hsh) (s.due - 1)).congr rfl rfl rfl rfl rfl rfl rfl rfl rfl rfl rfl
  case stTry =>
    simp only [clientStep] at hr
    by_cases hw : s.writer = true
    · rw [if_pos hw] at hr; simp at hr
    · rw [if_neg hw] at hr
      by_cases hrun : s.running = true
      · rw [if_pos hrun] at hr; simp at hr; subst hr
        exact h.congr rfl rfl rfl rfl rfl rfl rfl rfl rfl rfl rfl
      · rw [if_neg hrun] at hr
        by_cases hz : wg s = 0
        · rw [if_pos hz] at hr; simp at hr; subst hr
          exact (linv_spawn h hW hz).congr rfl rfl rfl rfl rfl rfl rfl rfl rfl rfl rfl
        · rw [if_neg hz] at hr; simp at hr; subst hr; exact h
  case stWait =>
    simp only [clientStep] at hr
    by_cases hz : wg s = 0
    · rw [if_pos hz] at hr; simp at hr; subst hr; exact h
    · rw [if_neg hz] at hr; simp at hr
  case wc =>
    simp only [clientStep] at hr
    by_cases hz : wg s = 0
    · rw [if_pos hz] at hr; simp at hr; subst hr
      exact h.congr rfl rfl rfl rfl rfl rfl rfl rfl rfl rfl rfl
    · rw [if_neg hz] at hr; simp at hr
  case wz =>
    simp only [clientStep] at hr
    by_cases hz : s.pending = 0
    · rw [if_pos hz] at hr; simp at hr; subst hr; exact h
    · rw [if_neg hz] at hr; simp at hr
  case wa n =>
    simp only [clientStep] at hr
    split at hr
    · simp at hr
    · split at hr
      · simp at hr; subst hr; exact h
      · simp at hr; subst hr; exact h.congr rfl rfl rfl rfl rfl rfl rfl rfl rfl rfl rfl
  case waSleep n =>
    simp only [clientStep] at hr
    split at hr
    · simp at hr; subst hr; exact h.congr rfl rfl rfl rfl rfl rfl rfl rfl rfl rfl rfl
    · simp at hr


end Hive.WP
