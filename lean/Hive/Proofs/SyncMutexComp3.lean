import Hive.Proofs.SyncMutexComp2
/-!
Invariants of the composed DAGMutex, part 3: the remaining registry steps and the return from a method.
-/
namespace Hive.SyncMutex.Comp
open Hive.Conc
open Hive.SyncMutex.Dag (Mode DOp upd eraseAll below chain pushAll allHeld okD)
open Hive.SyncMutex.Wait (sumL sumL_mid sumL_ge sumL_zero)

theorem dm_release {s : CSh} {k : Nat} (hk : (if s.dm = true then 1 else 0) = k + 1) :
    (if false = true then 1 else 0) = k + 0 := by
  cases hd : s.dm <;> simp [hd] at hk ⊢ <;> omega

theorem cinv_rlockC_cons {s : CSh} {pre post : List CTh} {t : CTh} (h : CInv s (pre ++ t :: post))
    {xs : List Nat} (hc : t.ctl = .rlockC xs) {x o : Nat} {rest : List (Nat × Nat)}
    (hr : (regAll s xs).2 = (x, o) :: rest) :
    CInv { (regAll s xs).1 with dm := false } (pre ++ startInner t .rlock x o (.rl rest) :: post) := by
  have hti := h.th t (by simp)
  have hni : isInner t = false := by simp [isInner, hc]
  have hidle := hti.ci hni
  obtain ⟨hspec, hpairs, hmap⟩ := regAll_spec xs s h.rw
  rw [hr] at hpairs hmap
  simp only [List.map_cons] at hmap
  have hent : (regAll s xs).1.ent x = some o := hpairs (x, o) (by simp)
  have hsi := hti.si
  simp only [SI, hc] at hsi
  rw [← hmap] at hsi
  have hbelow : below t.held x = true := by
    have := hsi.1; simp only [chain, Bool.and_eq_true] at this; exact this.1
  have hz : cR t o = 0 ∧ cW t o = 0 := by
    apply counts_zero
    intro a ha ho
    have htl' : ∀ a ∈ t.held, (regAll s xs).1.ent a.1 = some (t.hobj a.1) :=
      fun a ha => hspec.mono _ _ (hti.tl.t1 a ha)
    have := held_ent hspec.rw htl' ha hent ho
    have := below_mem hbelow a ha
    omega
  have hv := (lk_outside_iff hni hidle).mp hti.lk o
  refine cinv_assemble h ?_ ?_ ?_ ⟨hspec.rw.z, hspec.rw.lt, hspec.rw.inj⟩ ?_ ?_
  · intro o' hw
    have : ({ (regAll s xs).1 with dm := false } : CSh).heap o' = s.heap o' := by
      show (regAll s xs).1.heap o' = s.heap o'
      rw [hspec.heap]
    rw [this]
    apply obj_start hidle .rlock x _ _ o' _ hw
    rw [hv.2, hz.2]
    simp [vinv, start]
  · intro k hk
    simp only [fDm, hc] at hk
    simp only [fDm, startInner]
    exact dm_release hk
  · intro y k hk
    have hun : unrg t = [] := by simp [unrg, hc]
    rw [regc_outside hni, hun] at hk
    have hcn := hspec.cnt y
    show (regAll s xs).1.cnt y = _
    rw [hcn, hk, ← hmap]
    simp only [regc, acq, isInner, startInner, restEnts, restPairs, unrg, List.count_cons]
    by_cases hy : x = y <;> simp [hy] <;> omega
  · intro u _ htl _
    exact tl_mono htl hspec.mono
  · refine ⟨?_, ?_, ?_, ?_, hti.so, ?_, by simp [unrg, startInner]⟩
    · intro hi; simp [isInner, startInner] at hi
    · simp [KOk, startInner]
    · exact lk_start_acq hni hidle hti.lk .rlock (Or.inr rfl) x _ _ (by simp [pend, startInner]) hz
    · simp only [SI, startInner, restEnts, restPairs]; exact hsi
    · refine ⟨fun a ha => hspec.mono _ _ (hti.tl.t1 a ha), fun _ => hent, ?_⟩
      intro p hp
      simp only [restPairs, startInner] at hp
      exact hpairs p (by simp [hp])

theorem cinv_rlockC_nil {s : CSh} {pre post : List CTh} {t : CTh} (h : CInv s (pre ++ t :: post))
    {xs : List Nat} (hc : t.ctl = .rlockC xs) (hr : (regAll s xs).2 = []) :
    CInv { (regAll s xs).1 with dm := false } (pre ++ { t with ctl := .idle } :: post) := by
  have hti := h.th t (by simp)
  have hni : isInner t = false := by simp [isInner, hc]
  obtain ⟨_, _, hmap⟩ := regAll_spec xs s h.rw
  rw [hr] at hmap
  simp only [List.map_nil] at hmap
  subst hmap
  have hsi := hti.si
  simp only [SI, hc, pushAll] at hsi
  have := cinv_ctl h .idle t.script false hni (by simp [isInner])
    (by intro k hk; simp only [fDm, hc] at hk; simp only [fDm]; exact dm_release hk)
    (by simp only [SI]; exact hsi.2) (by simp [unrg, hc])
  simpa [regAll] using this

theorem bonusR_start (t0 : CTh) (op : Op) (x o0 : Nat) (k : Kont) (o : Nat) :
    bonusR (startInner t0 op x o0 k) o = if o0 = o ∧ op = .rlock then 1 else 0 := by
  simp [bonusR, inA, isInner, startInner]

theorem bonusW_start (t0 : CTh) (op : Op) (x o0 : Nat) (k : Kont) (o : Nat) :
    bonusW (startInner t0 op x o0 k) o = ((o0 == o) && (op == .lock)) := by
  simp [bonusW, inA, isInner, startInner]

/-! ### Unlock: look the mutex up, then enter `StarvingMutex.Unlock` (the unregistration comes last) -/

theorem cR_erase_w {t : CTh} {x : Nat} (hm : (x, Mode.w) ∈ t.held) (o : Nat) :
    cR { t with held := t.held.erase (x, .w) } o = cR t o := by
  have := countP_erase_add (fun h : Nat × Mode => h.2 == .r && t.hobj h.1 == o) t.held (x, .w) hm
  simp only [cR]
  simpa using this

theorem cW_erase_w {t : CTh} {x : Nat} (hm : (x, Mode.w) ∈ t.held) (o : Nat) :
    cW { t with held := t.held.erase (x, .w) } o + (if t.hobj x = o then 1 else 0) = cW t o := by
  have := countP_erase_add (fun h : Nat × Mode => h.2 == .w && t.hobj h.1 == o) t.held (x, .w) hm
  simp only [cW]
  simpa using this

theorem cinv_unlockC {s : CSh} {pre post : List CTh} {t : CTh} (h : CInv s (pre ++ t :: post))
    {x : Nat} (hc : t.ctl = .unlockC x) :
    ∃ o, s.ent x = some o ∧
      CInv { s with dm := false }
        (pre ++ startInner { t with held := t.held.erase (x, .w) } .unlock x o (.ul x) :: post) := by
  have hti := h.th t (by simp)
  have hni : isInner t = false := by simp [isInner, hc]
  have hidle := hti.ci hni
  have hsi := hti.si
  simp only [SI, hc] at hsi
  obtain ⟨hmem, hok⟩ := hsi
  have hent : s.ent x = some (t.hobj x) := hti.tl.t1 (x, .w) hmem
  refine ⟨t.hobj x, hent, ?_⟩
  let t0 : CTh := { t with held := t.held.erase (x, .w) }
  have hni0 : isInner t0 = false := hni
  have hv := (lk_outside_iff hni hidle).mp hti.lk
  -- nothing else of t goes through the object
  have hz0 : cR t0 (t.hobj x) = 0 ∧ cW t0 (t.hobj x) = 0 := by
    apply counts_zero
    intro a ha ho
    have ha' : a ∈ t.held := List.mem_of_mem_erase ha
    have := held_ent h.rw hti.tl.t1 ha' hent ho
    exact hti.so.not_mem_erase hmem a ha this
  have hcRx : cR t (t.hobj x) = 0 := by rw [← cR_erase_w hmem]; exact hz0.1
  have hcWx : 0 < cW t (t.hobj x) := by
    have := cW_erase_w hmem (t.hobj x); simp at this; omega
  refine cinv_assemble h ?_ ?_ ?_ ⟨h.rw.z, h.rw.lt, h.rw.inj⟩
    (fun u _ htl _ => ⟨htl.t1, htl.t2, htl.t3⟩) ?_
  · intro o' hw
    have hp : proj o' t = proj o' t0 := rfl
    rw [hp] at hw
    apply obj_start (t := t0) hidle .unlock x _ (.ul x) o' _ hw
    show vinv ⟨start .unlock, t.rd (t.hobj x), t.wr (t.hobj x)⟩
    rw [(hv _).1, (hv _).2, hcRx]
    simp [vinv, start, hcWx]
  · intro k hk
    simp only [fDm, hc] at hk
    simp only [fDm, startInner]
    exact dm_release hk
  · intro y k hk
    have hun : unrg t = [] := by simp [unrg, hc]
    rw [regc_outside hni, hun] at hk
    show s.cnt y = _
    rw [hk]
    have := countP_erase_add (fun h : Nat × Mode => h.1 == y) t.held (x, .w) hmem
    simp only [regc, acq, isInner, startInner, restEnts, restPairs, unrg, List.count_cons, List.count_nil]
    by_cases hy : x = y <;> simp [hy] at this ⊢ <;> omega
  · refine ⟨?_, ?_, ?_, ?_, hti.so.erase _, ?_, by simp [unrg, startInner]⟩
    · intro hi; simp [isInner, startInner] at hi
    · simp [KOk, startInner]
    · -- LK
      have hin : ∀ o, inA (startInner t0 .unlock x (t.hobj x) (.ul x)) o = (t.hobj x == o) := by
        intro o; simp [inA, isInner, startInner]
      have hpend : pend (startInner t0 .unlock x (t.hobj x) (.ul x)) = [] := by simp [pend, startInner]
      have hcR : ∀ o, cR (startInner t0 .unlock x (t.hobj x) (.ul x)) o = cR t o := fun o => cR_erase_w hmem o
      have hcW : ∀ o, cW (startInner t0 .unlock x (t.hobj x) (.ul x)) o = cW t0 o := fun _ => rfl
      refine ⟨?_, ?_, ?_, ?_⟩
      · intro o
        rw [proj_startInner, hpend, hcR, hcW, bonusR_start, bonusW_start]
        by_cases ho : t.hobj x = o
        · subst ho
          simp [after, start, hcRx, hz0.2]
        · have := cW_erase_w hmem o
          simp only [ho, if_false, Nat.add_zero] at this
          obtain ⟨h1, h2⟩ := hv o
          show after ⟨if t.hobj x = o then start .unlock else .idle, t.rd o, t.wr o⟩ = _
          have this' : cW t0 o = cW t o := this
          rw [this']
          simp [ho, after, h1, h2]
      · intro o ho
        rw [hpend, hin] at ho
        simp at ho
        subst ho
        rw [hcR, hcW]
        exact ⟨hcRx, hz0.2⟩
      · intro o _; rw [hpend]; simp
      · rw [hpend]; exact List.nodup_nil
    · simp only [SI, startInner]; exact hok
    · refine ⟨?_, ?_, ?_⟩
      · intro a ha
        exact hti.tl.t1 a (List.mem_of_mem_erase ha)
      · intro ha; simp [acq, startInner] at ha
      · intro p hp; simp [restPairs, startInner] at hp

/-! ### the second critical section of `Unlock` / `RUnlock`: the unregistration -/

/-- A goroutine that stays outside a method and gives up registrations `xs` (all of them still counted in `unrg`):
what is needed of the new registry. -/
theorem cinv_unreg_assemble {s s1 : CSh} {pre post : List CTh} {t : CTh} (h : CInv s (pre ++ t :: post))
    {xs : List Nat} (hun : unrg t = xs) (hni : isInner t = false)
    (hok : okD t.held t.script = true) (u1 : UnregSpec s xs s1)
    (hdm : ∀ k : Nat, (if s.dm then 1 else 0) = k + fDm t → (if false then 1 else 0) = k + 0) :
    CInv { s1 with dm := false } (pre ++ { t with ctl := .idle } :: post) := by
  have hti := h.th t (by simp)
  have hidle := hti.ci hni
  have hni' : isInner { t with ctl := .idle } = false := by simp [isInner]
  have hreg' : ∀ y, regc y { t with ctl := .idle } = t.held.countP (fun h => h.1 == y) := by
    intro y; rw [regc_outside hni']; simp [unrg]
  -- an entity that is dropped was registered by t only, through `unrg`
  have hdrop : ∀ u : CTh, (∀ y, regc y u + xs.count y ≤ s.cnt y) → TL s u → TL { s1 with dm := false } u := by
    intro u hb htl
    apply tl_of_unreferenced htl
    intro y
    by_cases hy : y ∈ xs ∧ s.cnt y = 1
    · left
      have h1 := hb y
      have : 0 < xs.count y := List.count_pos_iff.mpr hy.1
      omega
    · right
      show s1.ent y = s.ent y
      rw [u1.ent]
      simp [hy]
  have hcntt : ∀ y, s.cnt y = (sumL (regc y) pre + sumL (regc y) post) + regc y t := by
    intro y
    have := h.cnt y
    simp only [sumL_mid] at this
    omega
  refine cinv_assemble h ?_ ?_ ?_ ⟨u1.rw.z, u1.rw.lt, u1.rw.inj⟩ ?_ ?_
  · intro o' hw
    have : ({ s1 with dm := false } : CSh).heap o' = s.heap o' := by
      show s1.heap o' = s.heap o'
      rw [u1.heap]
    rw [this]
    exact hw
  · intro k hk
    simp only [fDm]
    exact hdm k hk
  · intro y k hk
    rw [regc_outside hni, hun] at hk
    show s1.cnt y = _
    rw [u1.cnt, hk, hreg']
    omega
  · intro u _ htl hb
    apply hdrop u _ htl
    intro y
    have := hb y
    rw [regc_outside hni, hun] at this
    omega
  · refine ⟨fun _ => hidle, by simp [KOk], ?_, by simp only [SI]; exact hok, hti.so, ?_, by simp [unrg]⟩
    · rw [lk_outside_iff hni' hidle]
      exact (lk_outside_iff hni hidle).mp hti.lk
    · have o' := outside_of hni'
      have ot := outside_of hni
      have htl0 : TL s { t with ctl := .idle } := by
        refine ⟨hti.tl.t1, ?_, ?_⟩
        · intro ha; rw [o'.acq] at ha; cases ha
        · intro p hp; rw [o'.rest] at hp; cases hp
      apply hdrop _ _ htl0
      intro y
      have := hcntt y
      rw [regc_outside hni, hun] at this
      rw [hreg']
      omega

theorem ent_of_unrg {s : CSh} {pre post : List CTh} {t : CTh} (h : CInv s (pre ++ t :: post))
    {x : Nat} (hx : x ∈ unrg t) : s.ent x ≠ none := by
  intro he
  have h0 := (h.rw.z x).mpr he
  have := h.cnt x
  simp only [sumL_mid] at this
  have hp : 0 < (unrg t).count x := List.count_pos_iff.mpr hx
  simp only [regc] at this
  omega

theorem cinv_unregC {s : CSh} {pre post : List CTh} {t : CTh} (h : CInv s (pre ++ t :: post))
    {x : Nat} (hc : t.ctl = .unregC x) :
    ∃ s1 o, unregOne s x = some (s1, o) ∧ CInv { s1 with dm := false } (pre ++ { t with ctl := .idle } :: post) := by
  have hti := h.th t (by simp)
  have hni : isInner t = false := by simp [isInner, hc]
  have hun : unrg t = [x] := by simp [unrg, hc]
  have hsi := hti.si
  simp only [SI, hc] at hsi
  cases he : s.ent x with
  | none => exact absurd he (ent_of_unrg h (by rw [hun]; simp))
  | some o =>
    obtain ⟨s1, e1, u1⟩ := unregOne_spec s x o h.rw he
    refine ⟨s1, o, e1, cinv_unreg_assemble h hun hni hsi u1 ?_⟩
    intro k hk
    simp only [fDm, hc] at hk
    exact dm_release hk

theorem cinv_runregC {s : CSh} {pre post : List CTh} {t : CTh} (h : CInv s (pre ++ t :: post))
    {xs : List Nat} (hc : t.ctl = .runregC xs) :
    ∃ s1 os, unregAll s xs = some (s1, os) ∧ CInv { s1 with dm := false } (pre ++ { t with ctl := .idle } :: post) := by
  have hti := h.th t (by simp)
  have hni : isInner t = false := by simp [isInner, hc]
  have hun : unrg t = xs := by simp [unrg, hc]
  have hsi := hti.si
  simp only [SI, hc] at hsi
  have hnd : xs.Nodup := by have := hti.nd; rwa [hun] at this
  obtain ⟨s1, e1, u1⟩ := unregAll_spec xs s h.rw hnd (fun x hx => ent_of_unrg h (by rw [hun]; exact hx))
  refine ⟨s1, _, e1, cinv_unreg_assemble h hun hni hsi u1 ?_⟩
  intro k hk
  simp only [fDm, hc] at hk
  exact dm_release hk

end Hive.SyncMutex.Comp
