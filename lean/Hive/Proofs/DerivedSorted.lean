import Hive.Model.DerivedSorted
/-!
# `reactive.SortedSet`: the slice invariant (model `Hive.Model.DerivedSorted`)

`SS.Good`: the slice is sorted heaviest-first (w.r.t. the relation `swap` implements), every entry's
`index` field is its position, the cached weights are the weight variables' values, no element occurs
twice, and `heaviestElement` / `lightestElement` are the first / last element (zero value when empty).
It holds initially and is preserved by every operation (`SS.good_init`, `SS.good_step`, `SS.good_run`).
`SS.has_step`, `SS.weight_of_absent`, `SS.wv_step` describe membership, ignored weight updates and the
weight variables.
-/
namespace Hive.Derived

def ge (less : Bool) (a b : Ent) : Prop := swapc less a b = false

theorem ge_iff (less : Bool) (a b : Ent) :
    ge less a b ↔ (b.w < a.w ∨ (a.w = b.w ∧ (less = false ∨ b.el ≤ a.el))) := by
  unfold ge swapc
  cases less <;> simp <;> omega

theorem swapc_iff (less : Bool) (a b : Ent) :
    swapc less a b = true ↔ (a.w < b.w ∨ (a.w = b.w ∧ less = true ∧ a.el < b.el)) := by
  unfold swapc
  cases less <;> simp

theorem ge_total (less : Bool) (a b : Ent) : ge less a b ∨ ge less b a := by
  cases less <;> simp [ge_iff] <;> omega

theorem ge_trans {less : Bool} {a b c : Ent} (h1 : ge less a b) (h2 : ge less b c) : ge less a c := by
  cases less <;> simp [ge_iff] at * <;> omega

theorem ge_of_swapc {less : Bool} {x y : Ent} (h : swapc less y x = true) : ge less x y := by
  cases less <;> simp [ge_iff, swapc_iff] at * <;> omega

@[simp] theorem swapc_idx_l (less : Bool) (y x : Ent) (i : Nat) : swapc less { y with idx := i } x = swapc less y x := rfl
@[simp] theorem swapc_idx_r (less : Bool) (y x : Ent) (i : Nat) : swapc less y { x with idx := i } = swapc less y x := rfl
@[simp] theorem ge_idx_l (less : Bool) (y x : Ent) (i : Nat) : ge less { y with idx := i } x ↔ ge less y x := Iff.rfl
@[simp] theorem ge_idx_r (less : Bool) (y x : Ent) (i : Nat) : ge less y { x with idx := i } ↔ ge less y x := Iff.rfl

/-! ## The two bubbling loops -/

/-- Everything of an entry except its `index` field. -/
def core (e : Ent) : Nat × Int := (e.el, e.w)
@[simp] theorem core_idx (y : Ent) (i : Nat) : core { y with idx := i } = core y := rfl

theorem bubbleL_moved_true (less : Bool) (rp : List Ent) (x : Ent) (post : List Ent) :
    (bubbleL less rp x post true).2.2.2 = true := by
  induction rp generalizing x post with
  | nil => rfl
  | cons y rp ih =>
    simp only [bubbleL]; split
    · exact ih _ _
    · rfl

theorem bubbleR_moved_true (less : Bool) (rp : List Ent) (x : Ent) (post : List Ent) :
    (bubbleR less rp x post true).2.2.2 = true := by
  induction post generalizing x rp with
  | nil => rfl
  | cons z post ih =>
    simp only [bubbleR]; split
    · exact ih _ _
    · rfl

theorem bubbleL_idx (less : Bool) (rp : List Ent) (x : Ent) (post : List Ent) (moved : Bool) :
    (zip (bubbleL less rp x post moved).1 (bubbleL less rp x post moved).2.1
      (bubbleL less rp x post moved).2.2.1).map (·.idx) = (zip rp x post).map (·.idx) := by
  induction rp generalizing x post moved with
  | nil => rfl
  | cons y rp ih =>
    simp only [bubbleL]; split
    · rw [ih]; simp [zip]
    · rfl

theorem bubbleR_idx (less : Bool) (rp : List Ent) (x : Ent) (post : List Ent) (moved : Bool) :
    (zip (bubbleR less rp x post moved).1 (bubbleR less rp x post moved).2.1
      (bubbleR less rp x post moved).2.2.1).map (·.idx) = (zip rp x post).map (·.idx) := by
  induction post generalizing x rp moved with
  | nil => rfl
  | cons z post ih =>
    simp only [bubbleR]; split
    · rw [ih]; simp [zip]
    · rfl

theorem bubbleL_perm (less : Bool) (rp : List Ent) (x : Ent) (post : List Ent) (moved : Bool) :
    ((zip (bubbleL less rp x post moved).1 (bubbleL less rp x post moved).2.1
      (bubbleL less rp x post moved).2.2.1).map core).Perm ((zip rp x post).map core) := by
  induction rp generalizing x post moved with
  | nil => exact List.Perm.refl _
  | cons y rp ih =>
    simp only [bubbleL]; split
    · refine (ih _ _ _).trans ?_
      simp only [zip, List.map_append, List.map_cons, core_idx, List.reverse_cons, List.append_assoc,
        List.cons_append, List.nil_append]
      exact List.Perm.append_left _ (List.Perm.swap _ _ _)
    · exact List.Perm.refl _

theorem bubbleR_perm (less : Bool) (rp : List Ent) (x : Ent) (post : List Ent) (moved : Bool) :
    ((zip (bubbleR less rp x post moved).1 (bubbleR less rp x post moved).2.1
      (bubbleR less rp x post moved).2.2.1).map core).Perm ((zip rp x post).map core) := by
  induction post generalizing x rp moved with
  | nil => exact List.Perm.refl _
  | cons z post ih =>
    simp only [bubbleR]; split
    · refine (ih _ _ _).trans ?_
      simp only [zip, List.map_append, List.map_cons, core_idx, List.reverse_cons, List.append_assoc,
        List.cons_append, List.nil_append]
      exact List.Perm.append_left _ (List.Perm.swap _ _ _)
    · exact List.Perm.refl _

theorem bubbleL_xcore (less : Bool) (rp : List Ent) (x : Ent) (post : List Ent) (moved : Bool) :
    core (bubbleL less rp x post moved).2.1 = core x := by
  induction rp generalizing x post moved with
  | nil => rfl
  | cons y rp ih =>
    simp only [bubbleL]; split
    · rw [ih]; rfl
    · rfl

theorem bubbleR_xcore (less : Bool) (rp : List Ent) (x : Ent) (post : List Ent) (moved : Bool) :
    core (bubbleR less rp x post moved).2.1 = core x := by
  induction post generalizing x rp moved with
  | nil => rfl
  | cons z post ih =>
    simp only [bubbleR]; split
    · rw [ih]; rfl
    · rfl

/-- `bubbleL` leaves a suffix of `revPre` (so the first entry of the slice stays unless the element
reaches the front). -/
theorem bubbleL_head (less : Bool) (rp : List Ent) (x : Ent) (post : List Ent) (moved : Bool) :
    (bubbleL less rp x post moved).1 = [] ∨
      (rp ≠ [] ∧ (bubbleL less rp x post moved).1.getLast? = rp.getLast?) := by
  induction rp generalizing x post moved with
  | nil => left; rfl
  | cons y rp ih =>
    simp only [bubbleL]; split
    · rcases ih { x with idx := y.idx } ({ y with idx := x.idx } :: post) true with h | ⟨h1, h2⟩
      · left; exact h
      · right; refine ⟨by simp, ?_⟩
        rw [h2]; cases rp with
        | nil => exact absurd rfl h1
        | cons a rp => simp [List.getLast?_cons_cons]
    · right; exact ⟨by simp, rfl⟩

theorem bubbleL_last (less : Bool) (rp : List Ent) (x : Ent) (post : List Ent) (moved : Bool) :
    (bubbleL less rp x post moved).2.2.1 = [] ∨
      ((bubbleL less rp x post moved).2.2.2 = true ∧ post = []) ∨
      (post ≠ [] ∧ (bubbleL less rp x post moved).2.2.1.getLast? = post.getLast?) := by
  induction rp generalizing x post moved with
  | nil =>
    cases post with
    | nil => left; rfl
    | cons a post => right; right; exact ⟨by simp, rfl⟩
  | cons y rp ih =>
    simp only [bubbleL]; split
    · rcases ih { x with idx := y.idx } ({ y with idx := x.idx } :: post) true with h | ⟨_, h⟩ | ⟨_, h2⟩
      · left; exact h
      · exact absurd h (by simp)
      · cases post with
        | nil => right; left; exact ⟨bubbleL_moved_true _ _ _ _, rfl⟩
        | cons a post => right; right; refine ⟨by simp, ?_⟩; rw [h2]; simp [List.getLast?_cons_cons]
    · cases post with
      | nil => left; rfl
      | cons a post => right; right; exact ⟨by simp, rfl⟩

theorem bubbleR_last (less : Bool) (rp : List Ent) (x : Ent) (post : List Ent) (moved : Bool) :
    (bubbleR less rp x post moved).2.2.1 = [] ∨
      (post ≠ [] ∧ (bubbleR less rp x post moved).2.2.1.getLast? = post.getLast?) := by
  induction post generalizing x rp moved with
  | nil => left; rfl
  | cons z post ih =>
    simp only [bubbleR]; split
    · rcases ih ({ z with idx := x.idx } :: rp) { x with idx := z.idx } true with h | ⟨h1, h2⟩
      · left; exact h
      · right; refine ⟨by simp, ?_⟩
        rw [h2]; cases post with
        | nil => exact absurd rfl h1
        | cons a post => simp [List.getLast?_cons_cons]
    · right; exact ⟨by simp, rfl⟩

theorem bubbleR_head (less : Bool) (rp : List Ent) (x : Ent) (post : List Ent) (moved : Bool) :
    (bubbleR less rp x post moved).1 = [] ∨
      ((bubbleR less rp x post moved).2.2.2 = true ∧ rp = []) ∨
      (rp ≠ [] ∧ (bubbleR less rp x post moved).1.getLast? = rp.getLast?) := by
  induction post generalizing x rp moved with
  | nil =>
    cases rp with
    | nil => left; rfl
    | cons a rp => right; right; exact ⟨by simp, rfl⟩
  | cons z post ih =>
    simp only [bubbleR]; split
    · rcases ih ({ z with idx := x.idx } :: rp) { x with idx := z.idx } true with h | ⟨_, h⟩ | ⟨_, h2⟩
      · left; exact h
      · exact absurd h (by simp)
      · cases rp with
        | nil => right; left; exact ⟨bubbleR_moved_true _ _ _ _, rfl⟩
        | cons a rp => right; right; refine ⟨by simp, ?_⟩; rw [h2]; simp [List.getLast?_cons_cons]
    · cases rp with
      | nil => left; rfl
      | cons a rp => right; right; exact ⟨by simp, rfl⟩

/-! ## Sortedness -/

theorem bubbleL_sorted (less : Bool) (rp : List Ent) (x : Ent) (post : List Ent) (moved : Bool)
    (hs : (rp.reverse ++ post).Pairwise (ge less)) (hx : ∀ z ∈ post, ge less x z) :
    (zip (bubbleL less rp x post moved).1 (bubbleL less rp x post moved).2.1
      (bubbleL less rp x post moved).2.2.1).Pairwise (ge less) := by
  induction rp generalizing x post moved with
  | nil =>
    simp only [bubbleL, zip, List.reverse_nil, List.nil_append, List.pairwise_cons]
    exact ⟨hx, by simpa using hs⟩
  | cons y rp ih =>
    simp only [List.reverse_cons, List.append_assoc, List.cons_append, List.nil_append,
      List.pairwise_append, List.pairwise_cons, List.mem_cons, forall_eq_or_imp] at hs
    obtain ⟨hs1, ⟨hs2, hs3⟩, hs4⟩ := hs
    simp only [bubbleL]; split
    · rename_i hsw
      apply ih
      · simp only [List.pairwise_append, List.pairwise_cons, List.mem_cons, forall_eq_or_imp, ge_idx_l, ge_idx_r]
        exact ⟨hs1, ⟨hs2, hs3⟩, hs4⟩
      · simp only [List.mem_cons, forall_eq_or_imp, ge_idx_l, ge_idx_r]
        exact ⟨ge_of_swapc hsw, fun z hz => ge_trans (ge_of_swapc hsw) (hs2 z hz)⟩
    · simp only [zip, List.reverse_cons, List.append_assoc, List.cons_append, List.nil_append,
        List.pairwise_append, List.pairwise_cons, List.mem_cons, forall_eq_or_imp]
      rename_i hsw
      have hyx : ge less y x := by simpa [ge] using hsw
      refine ⟨hs1, ⟨⟨hyx, hs2⟩, hx, hs3⟩, fun a ha => ⟨(hs4 a ha).1, ge_trans (hs4 a ha).1 hyx, (hs4 a ha).2⟩⟩

theorem bubbleR_sorted (less : Bool) (rp : List Ent) (x : Ent) (post : List Ent) (moved : Bool)
    (hs : (rp.reverse ++ post).Pairwise (ge less)) (hx : ∀ y ∈ rp, ge less y x) :
    (zip (bubbleR less rp x post moved).1 (bubbleR less rp x post moved).2.1
      (bubbleR less rp x post moved).2.2.1).Pairwise (ge less) := by
  induction post generalizing x rp moved with
  | nil =>
    simp only [List.append_nil] at hs
    simp only [bubbleR, zip, List.pairwise_append, List.pairwise_cons, List.mem_cons, forall_eq_or_imp,
      List.mem_reverse]
    exact ⟨hs, ⟨by simp, List.Pairwise.nil⟩, fun a ha => ⟨hx a ha, by simp⟩⟩
  | cons z post ih =>
    simp only [List.pairwise_append, List.pairwise_cons, List.mem_cons, forall_eq_or_imp,
      List.mem_reverse] at hs
    obtain ⟨hs1, ⟨hs2, hs3⟩, hs4⟩ := hs
    simp only [bubbleR]; split
    · rename_i hsw
      apply ih
      · simp only [List.reverse_cons, List.append_assoc, List.cons_append, List.nil_append,
          List.pairwise_append, List.pairwise_cons, List.mem_cons, forall_eq_or_imp, ge_idx_l, ge_idx_r,
          List.mem_reverse]
        exact ⟨hs1, ⟨hs2, hs3⟩, hs4⟩
      · simp only [List.mem_cons, forall_eq_or_imp, ge_idx_l, ge_idx_r]
        exact ⟨ge_of_swapc hsw, hx⟩
    · rename_i hsw
      have hxz : ge less x z := by simpa [ge] using hsw
      simp only [zip, List.pairwise_append, List.pairwise_cons, List.mem_cons, forall_eq_or_imp,
        List.mem_reverse]
      exact ⟨hs1, ⟨⟨hxz, fun a ha => ge_trans hxz (hs2 a ha)⟩, hs2, hs3⟩,
        fun a ha => ⟨hx a ha, (hs4 a ha).1, (hs4 a ha).2⟩⟩

/-! ## `updatePosition` -/

/-- The result of the two loops of `updatePosition`. -/
def moveRes (less : Bool) (rp : List Ent) (x : Ent) (post : List Ent) : List Ent × Ent × List Ent × Bool :=
  let r1 := bubbleL less rp x post false
  if r1.2.2.2 then r1 else bubbleR less r1.1 r1.2.1 r1.2.2.1 false

theorem updatePosition_eq (less : Bool) (rp : List Ent) (x : Ent) (post : List Ent) (h l : Nat) :
    updatePosition less rp x post h l =
      (zip (moveRes less rp x post).1 (moveRes less rp x post).2.1 (moveRes less rp x post).2.2.1,
        (if (moveRes less rp x post).2.2.2 && x.idx == 0 then
            headEl (zip (moveRes less rp x post).1 (moveRes less rp x post).2.1 (moveRes less rp x post).2.2.1)
          else if (moveRes less rp x post).2.1.idx == 0 then (moveRes less rp x post).2.1.el else h),
        (if (moveRes less rp x post).2.2.2 && x.idx ==
              (zip (moveRes less rp x post).1 (moveRes less rp x post).2.1 (moveRes less rp x post).2.2.1).length - 1 then
            lastEl (zip (moveRes less rp x post).1 (moveRes less rp x post).2.1 (moveRes less rp x post).2.2.1)
          else if (moveRes less rp x post).2.1.idx ==
              (zip (moveRes less rp x post).1 (moveRes less rp x post).2.1 (moveRes less rp x post).2.2.1).length - 1 then
            (moveRes less rp x post).2.1.el else l)) := rfl

theorem moveRes_nil (less : Bool) (x : Ent) (post : List Ent) :
    moveRes less [] x post = bubbleR less [] x post false := rfl

theorem moveRes_cons_swap (less : Bool) (y : Ent) (rp : List Ent) (x : Ent) (post : List Ent)
    (h : swapc less y x = true) : moveRes less (y :: rp) x post = bubbleL less (y :: rp) x post false := by
  have : (bubbleL less (y :: rp) x post false).2.2.2 = true := by
    simp only [bubbleL, h, if_true]; exact bubbleL_moved_true _ _ _ _
  simp only [moveRes, this, if_true]

theorem moveRes_cons_noswap (less : Bool) (y : Ent) (rp : List Ent) (x : Ent) (post : List Ent)
    (h : swapc less y x = false) : moveRes less (y :: rp) x post = bubbleR less (y :: rp) x post false := by
  simp [moveRes, bubbleL, h]

/-- What the loops do to the slice, whatever the weights. -/
structure Moved (rp : List Ent) (x : Ent) (post : List Ent) (r : List Ent × Ent × List Ent × Bool) : Prop where
  idx : (zip r.1 r.2.1 r.2.2.1).map (·.idx) = (zip rp x post).map (·.idx)
  perm : ((zip r.1 r.2.1 r.2.2.1).map core).Perm ((zip rp x post).map core)
  xcore : core r.2.1 = core x
  head : r.1 = [] ∨ (r.2.2.2 = true ∧ rp = []) ∨ (rp ≠ [] ∧ r.1.getLast? = rp.getLast?)
  last : r.2.2.1 = [] ∨ (r.2.2.2 = true ∧ post = []) ∨ (post ≠ [] ∧ r.2.2.1.getLast? = post.getLast?)

theorem bubbleL_movedP (less : Bool) (rp : List Ent) (x : Ent) (post : List Ent) (moved : Bool) :
    Moved rp x post (bubbleL less rp x post moved) :=
  ⟨bubbleL_idx _ _ _ _ _, bubbleL_perm _ _ _ _ _, bubbleL_xcore _ _ _ _ _,
    (bubbleL_head less rp x post moved).imp id Or.inr, bubbleL_last _ _ _ _ _⟩

theorem bubbleR_movedP (less : Bool) (rp : List Ent) (x : Ent) (post : List Ent) (moved : Bool) :
    Moved rp x post (bubbleR less rp x post moved) :=
  ⟨bubbleR_idx _ _ _ _ _, bubbleR_perm _ _ _ _ _, bubbleR_xcore _ _ _ _ _,
    bubbleR_head _ _ _ _ _, (bubbleR_last less rp x post moved).imp id Or.inr⟩

theorem moveRes_movedP (less : Bool) (rp : List Ent) (x : Ent) (post : List Ent) :
    Moved rp x post (moveRes less rp x post) := by
  cases rp with
  | nil => rw [moveRes_nil]; exact bubbleR_movedP _ _ _ _ _
  | cons y rp =>
    cases h : swapc less y x with
    | true => rw [moveRes_cons_swap _ _ _ _ _ h]; exact bubbleL_movedP _ _ _ _ _
    | false => rw [moveRes_cons_noswap _ _ _ _ _ h]; exact bubbleR_movedP _ _ _ _ _

theorem moveRes_sorted (less : Bool) (rp : List Ent) (x : Ent) (post : List Ent)
    (hs : (rp.reverse ++ post).Pairwise (ge less)) :
    (zip (moveRes less rp x post).1 (moveRes less rp x post).2.1 (moveRes less rp x post).2.2.1).Pairwise
      (ge less) := by
  cases rp with
  | nil => rw [moveRes_nil]; exact bubbleR_sorted _ _ _ _ _ hs (by simp)
  | cons y rp =>
    have hs' := hs
    simp only [List.reverse_cons, List.append_assoc, List.cons_append, List.nil_append,
      List.pairwise_append, List.pairwise_cons, List.mem_cons, forall_eq_or_imp, List.mem_reverse] at hs'
    obtain ⟨hs1, ⟨hs2, hs3⟩, hs4⟩ := hs'
    cases h : swapc less y x with
    | true =>
      rw [moveRes_cons_swap _ _ _ _ _ h]
      exact bubbleL_sorted _ _ _ _ _ hs (fun z hz => ge_trans (ge_of_swapc h) (hs2 z hz))
    | false =>
      rw [moveRes_cons_noswap _ _ _ _ _ h]
      refine bubbleR_sorted _ _ _ _ _ hs ?_
      simp only [List.mem_cons, forall_eq_or_imp]
      exact ⟨h, fun a ha => ge_trans (hs4 a ha).1 h⟩

/-! ## Generic facts about the slice -/

theorem idx_focus (rp : List Ent) (x : Ent) (post : List Ent) (n : Nat)
    (h : (zip rp x post).map (·.idx) = List.range n) : x.idx = rp.length := by
  have h2 := congrArg (fun l => l[rp.length]?) h
  have hn : rp.length < n := by
    have := congrArg List.length h
    simp [zip] at this; omega
  simpa [zip, List.getElem?_append_right, hn] using h2

theorem zip_length (rp : List Ent) (x : Ent) (post : List Ent) :
    (zip rp x post).length = rp.length + 1 + post.length := by
  simp [zip]; omega

theorem headEl_zip_nil (x : Ent) (post : List Ent) : headEl (zip [] x post) = x.el := rfl

theorem headEl_zip_ne (rp : List Ent) (x : Ent) (post : List Ent) (h : rp ≠ []) :
    headEl (zip rp x post) = lastEl rp := by
  unfold headEl lastEl zip
  rw [List.head?_append, List.head?_reverse]
  cases h2 : rp.getLast? with
  | none => exact absurd (List.getLast?_eq_none_iff.mp h2) h
  | some a => rfl

theorem lastEl_zip_nil (rp : List Ent) (x : Ent) : lastEl (zip rp x []) = x.el := by
  simp [lastEl, zip]

theorem lastEl_zip_ne (rp : List Ent) (x : Ent) (post : List Ent) (h : post ≠ []) :
    lastEl (zip rp x post) = lastEl post := by
  unfold lastEl zip
  cases post with
  | nil => exact absurd rfl h
  | cons a post =>
    rw [List.getLast?_append, List.getLast?_cons_cons]
    cases h2 : (a :: post).getLast? with
    | none => simp at h2
    | some b => rfl

theorem lastEl_congr {l1 l2 : List Ent} (h : l1.getLast? = l2.getLast?) : lastEl l1 = lastEl l2 := by
  unfold lastEl; rw [h]

theorem heaviest_update (rp : List Ent) (x : Ent) (post : List Ent) (rp' : List Ent) (x' : Ent)
    (post' : List Ent) (mv : Bool) (h : Nat)
    (M : Moved rp x post (rp', x', post', mv))
    (hx : x.idx = rp.length) (hx' : x'.idx = rp'.length)
    (hh : rp ≠ [] → h = headEl (zip rp x post)) :
    (if mv && x.idx == 0 then headEl (zip rp' x' post') else if x'.idx == 0 then x'.el else h) =
      headEl (zip rp' x' post') := by
  rcases M.head with h1 | ⟨h1, h2⟩ | ⟨h1, h2⟩
  · simp only at h1; subst h1
    simp [hx', headEl_zip_nil]
  · simp only at h1 h2; subst h1; subst h2
    simp [hx]
  · simp only at h2
    have hne : rp' ≠ [] := by
      intro h3; subst h3
      exact h1 (List.getLast?_eq_none_iff.mp h2.symm)
    have e1 : (x.idx == 0) = false := by
      rw [hx]; cases rp with
      | nil => exact absurd rfl h1
      | cons a rp => simp
    have e2 : (x'.idx == 0) = false := by
      rw [hx']; cases rp' with
      | nil => exact absurd rfl hne
      | cons a rp => simp
    simp only [e1, e2, Bool.and_false, Bool.false_eq_true, if_false]
    rw [hh h1, headEl_zip_ne _ _ _ h1, headEl_zip_ne _ _ _ hne]
    exact lastEl_congr h2.symm

theorem lightest_update (rp : List Ent) (x : Ent) (post : List Ent) (rp' : List Ent) (x' : Ent)
    (post' : List Ent) (mv : Bool) (l : Nat)
    (M : Moved rp x post (rp', x', post', mv))
    (hx : x.idx = rp.length) (hx' : x'.idx = rp'.length)
    (hlen : (zip rp' x' post').length = (zip rp x post).length)
    (hl : post ≠ [] → l = lastEl (zip rp x post)) :
    (if mv && x.idx == (zip rp' x' post').length - 1 then lastEl (zip rp' x' post')
      else if x'.idx == (zip rp' x' post').length - 1 then x'.el else l) =
      lastEl (zip rp' x' post') := by
  have e0 : (x.idx == (zip rp' x' post').length - 1) = decide (post = []) := by
    rw [hlen, zip_length, hx]; cases post <;> simp; omega
  have e0' : (x'.idx == (zip rp' x' post').length - 1) = decide (post' = []) := by
    rw [zip_length, hx']; cases post' <;> simp; omega
  rw [e0, e0']
  rcases M.last with h1 | ⟨h1, h2⟩ | ⟨h1, h2⟩
  · simp only at h1; subst h1
    simp [lastEl_zip_nil]
  · simp only at h1 h2; subst h1; subst h2
    simp
  · simp only at h2
    have hne : post' ≠ [] := by
      intro h3; subst h3
      exact h1 (List.getLast?_eq_none_iff.mp h2.symm)
    simp only [h1, hne, decide_false, Bool.and_false, Bool.false_eq_true, if_false]
    rw [hl h1, lastEl_zip_ne _ _ _ h1, lastEl_zip_ne _ _ _ hne]
    exact lastEl_congr h2.symm

theorem updatePosition_good (less : Bool) (rp : List Ent) (x : Ent) (post : List Ent) (h l : Nat)
    (hs : (rp.reverse ++ post).Pairwise (ge less))
    (hi : (zip rp x post).map (·.idx) = List.range (zip rp x post).length)
    (hh : rp ≠ [] → h = headEl (zip rp x post))
    (hl : post ≠ [] → l = lastEl (zip rp x post)) :
    (updatePosition less rp x post h l).1.Pairwise (ge less) ∧
    (updatePosition less rp x post h l).1.map (·.idx) = List.range (updatePosition less rp x post h l).1.length ∧
    ((updatePosition less rp x post h l).1.map core).Perm ((zip rp x post).map core) ∧
    (updatePosition less rp x post h l).2.1 = headEl (updatePosition less rp x post h l).1 ∧
    (updatePosition less rp x post h l).2.2 = lastEl (updatePosition less rp x post h l).1 := by
  rw [updatePosition_eq]
  have M := moveRes_movedP less rp x post
  have S := moveRes_sorted less rp x post hs
  generalize moveRes less rp x post = r at M S
  obtain ⟨rp', x', post', mv⟩ := r
  simp only at S ⊢
  have hlen : (zip rp' x' post').length = (zip rp x post).length := by
    have := congrArg List.length M.idx
    simpa using this
  have hi' : (zip rp' x' post').map (·.idx) = List.range (zip rp' x' post').length := by
    rw [hlen, ← hi]; exact M.idx
  have hx := idx_focus _ _ _ _ hi
  have hx' := idx_focus _ _ _ _ hi'
  exact ⟨S, hi', M.perm, heaviest_update rp x post rp' x' post' mv h M hx hx' hh,
    lightest_update rp x post rp' x' post' mv l M hx hx' hlen hl⟩

/-! ## Locating an element -/

theorem splitAtEl_some {e : Nat} {acc l rp : List Ent} {x : Ent} {post : List Ent}
    (h : splitAtEl e acc l = some (rp, x, post)) :
    acc.reverse ++ l = rp.reverse ++ x :: post ∧ x.el = e := by
  induction l generalizing acc with
  | nil => simp [splitAtEl] at h
  | cons y rest ih =>
    simp only [splitAtEl] at h
    split at h
    · rename_i hy
      simp only [Option.some.injEq, Prod.mk.injEq] at h
      obtain ⟨h1, h2, h3⟩ := h
      subst h1; subst h2; subst h3
      exact ⟨rfl, by simpa using hy⟩
    · have := ih h
      simpa using this

theorem splitAtEl_none {e : Nat} {acc l : List Ent} :
    splitAtEl e acc l = none ↔ l.any (fun y => y.el == e) = false := by
  induction l generalizing acc with
  | nil => simp [splitAtEl]
  | cons y rest ih =>
    simp only [splitAtEl, List.any_cons]
    split
    · rename_i hy; simp [hy]
    · rename_i hy; simp [hy, ih]

theorem splitAtEl_app (e : Nat) (acc pre : List Ent) (x : Ent) (post : List Ent)
    (hpre : ∀ y ∈ pre, y.el ≠ e) (hx : x.el = e) :
    splitAtEl e acc (pre ++ x :: post) = some (pre.reverse ++ acc, x, post) := by
  induction pre generalizing acc with
  | nil => simp [splitAtEl, hx]
  | cons y pre ih =>
    have hy : (y.el == e) = false := by simpa using hpre y (by simp)
    simp only [List.cons_append, splitAtEl, hy, Bool.false_eq_true, if_false]
    rw [ih _ (fun z hz => hpre z (by simp [hz]))]
    simp

theorem splitAtEl_zip (rp : List Ent) (x : Ent) (post : List Ent)
    (hn : ((zip rp x post).map (·.el)).Nodup) :
    splitAtEl x.el [] (zip rp x post) = some (rp, x, post) := by
  have := splitAtEl_app x.el [] rp.reverse x post (by
    intro y hy heq
    simp only [zip, List.map_append, List.map_cons, List.nodup_append, List.nodup_cons, List.mem_map,
      List.mem_cons] at hn
    exact hn.2.2 y.el ⟨y, hy, rfl⟩ x.el (Or.inl rfl) heq) rfl
  simpa [zip] using this

theorem has_iff (s : SS) (e : Nat) : s.has e = true ↔ e ∈ s.ents.map (·.el) := by
  simp [SS.has]

theorem has_of_perm {s t : SS} (h : (t.ents.map (·.el)).Perm (s.ents.map (·.el))) (e : Nat) :
    t.has e = s.has e := by
  rw [Bool.eq_iff_iff, has_iff, has_iff]; exact h.mem_iff

theorem map_el_eq_core (l : List Ent) : l.map (·.el) = (l.map core).map Prod.fst := by
  simp [core, Function.comp_def]

/-! ## The invariant -/

structure SS.Good (s : SS) : Prop where
  sorted : s.ents.Pairwise (ge s.less)
  idx : s.ents.map (·.idx) = List.range s.ents.length
  weights : ∀ e ∈ s.ents, e.w = s.wv e.el
  nodup : (s.ents.map (·.el)).Nodup
  heaviest : s.heaviest = headEl s.ents
  lightest : s.lightest = lastEl s.ents

theorem SS.good_init (less : Bool) : (SS.init less).Good :=
  ⟨List.Pairwise.nil, rfl, by simp [SS.init], by simp [SS.init], rfl, rfl⟩

theorem updatePosition_perm (less : Bool) (rp : List Ent) (x : Ent) (post : List Ent) (h l : Nat) :
    ((updatePosition less rp x post h l).1.map core).Perm ((zip rp x post).map core) := by
  rw [updatePosition_eq]; exact (moveRes_movedP less rp x post).perm

theorem zip_map_el_w (rp : List Ent) (x : Ent) (post : List Ent) (w : Int) :
    (zip rp { x with w := w } post).map (·.el) = (zip rp x post).map (·.el) := by
  simp [zip]

/-- The callback never changes which elements are in the slice. -/
theorem weightCallback_els (s : SS) (e : Nat) (w : Int) :
    ((s.weightCallback e w).ents.map (·.el)).Perm (s.ents.map (·.el)) := by
  unfold SS.weightCallback
  split
  · exact List.Perm.refl _
  · rename_i rp x post hsp
    have h1 := (splitAtEl_some hsp).1
    simp only [List.reverse_nil, List.nil_append] at h1
    simp only
    rw [map_el_eq_core, h1, ← zip, ← zip_map_el_w rp x post w, map_el_eq_core (zip _ _ _)]
    exact (updatePosition_perm _ _ _ _ _ _).map _

theorem weightCallback_wv (s : SS) (e : Nat) (w : Int) : (s.weightCallback e w).wv = s.wv := by
  unfold SS.weightCallback; split <;> rfl

theorem weightCallback_less (s : SS) (e : Nat) (w : Int) : (s.weightCallback e w).less = s.less := by
  unfold SS.weightCallback; split <;> rfl

theorem weightCallback_zip (s : SS) (rp : List Ent) (x : Ent) (post : List Ent) (w : Int)
    (he : s.ents = zip rp x post) (hn : (s.ents.map (·.el)).Nodup) :
    s.weightCallback x.el w =
      { s with ents := (updatePosition s.less rp { x with w := w } post s.heaviest s.lightest).1,
               heaviest := (updatePosition s.less rp { x with w := w } post s.heaviest s.lightest).2.1,
               lightest := (updatePosition s.less rp { x with w := w } post s.heaviest s.lightest).2.2 } := by
  unfold SS.weightCallback
  rw [he] at hn ⊢
  rw [splitAtEl_zip rp x post hn]

theorem weightCallback_good (s : SS) (rp : List Ent) (x : Ent) (post : List Ent) (w : Int)
    (he : s.ents = zip rp x post) (hn : (s.ents.map (·.el)).Nodup)
    (hsort : (rp.reverse ++ post).Pairwise (ge s.less))
    (hidx : s.ents.map (·.idx) = List.range s.ents.length)
    (hw : ∀ y ∈ rp.reverse ++ post, y.w = s.wv y.el) (hwx : w = s.wv x.el)
    (hh : rp ≠ [] → s.heaviest = headEl s.ents) (hl : post ≠ [] → s.lightest = lastEl s.ents) :
    (s.weightCallback x.el w).Good := by
  rw [weightCallback_zip s rp x post w he hn]
  have hz : ∀ f : Ent → Nat, (∀ y i, f { y with w := i } = f y) →
      (zip rp { x with w := w } post).map f = (zip rp x post).map f := by
    intro f hf; simp [zip, hf]
  have G := updatePosition_good s.less rp { x with w := w } post s.heaviest s.lightest hsort
    (by rw [hz _ (fun _ _ => rfl), ← he, hidx]; congr 1; rw [he]; simp [zip])
    (by intro h; rw [hh h, he]; rw [headEl_zip_ne _ _ _ h, headEl_zip_ne _ _ _ h])
    (by intro h; rw [hl h, he]; rw [lastEl_zip_ne _ _ _ h, lastEl_zip_ne _ _ _ h])
  obtain ⟨G1, G2, G3, G4, G5⟩ := G
  refine ⟨G1, G2, ?_, ?_, G4, G5⟩
  · intro y hy
    have : core y ∈ (zip rp { x with w := w } post).map core :=
      G3.mem_iff.mp (List.mem_map_of_mem hy)
    obtain ⟨y', hy', hc⟩ := List.mem_map.mp this
    have h1 : y'.el = y.el := congrArg Prod.fst hc
    have h2 : y'.w = y.w := congrArg Prod.snd hc
    simp only [zip, List.mem_append, List.mem_cons] at hy'
    simp only
    rw [← h1, ← h2]
    rcases hy' with hy' | hy' | hy'
    · exact hw y' (by simp only [List.mem_append]; exact Or.inl hy')
    · subst hy'; exact hwx
    · exact hw y' (by simp only [List.mem_append]; exact Or.inr hy')
  · simp only
    rw [map_el_eq_core]
    refine (G3.map Prod.fst).nodup_iff.mpr ?_
    rw [← map_el_eq_core, zip_map_el_w, ← he]; exact hn

/-! ## `addSorted` -/

theorem headEl_append_ne (l1 l2 : List Ent) (h : l1 ≠ []) : headEl (l1 ++ l2) = headEl l1 := by
  cases l1 with
  | nil => exact absurd rfl h
  | cons a l1 => rfl

theorem lastEl_append_ne (l1 l2 : List Ent) (h : l2 ≠ []) : lastEl (l1 ++ l2) = lastEl l2 := by
  unfold lastEl
  rw [List.getLast?_append]
  cases h2 : l2.getLast? with
  | none => exact absurd (List.getLast?_eq_none_iff.mp h2) h
  | some b => rfl

theorem headEl_rev_append (rp l : List Ent) (h : rp ≠ []) : headEl (rp.reverse ++ l) = lastEl rp := by
  unfold headEl lastEl
  rw [List.head?_append, List.head?_reverse]
  cases h2 : rp.getLast? with
  | none => exact absurd (List.getLast?_eq_none_iff.mp h2) h
  | some a => rfl

theorem lastEl_map_dec (post : List Ent) :
    lastEl (post.map (fun y => { y with idx := y.idx - 1 })) = lastEl post := by
  unfold lastEl
  rw [List.getLast?_map]
  cases post.getLast? <;> rfl

theorem addSorted_wv (s : SS) (e : Nat) : (s.addSorted e).wv = s.wv := by
  unfold SS.addSorted; split
  · rfl
  · rw [weightCallback_wv]

theorem addSorted_less (s : SS) (e : Nat) : (s.addSorted e).less = s.less := by
  unfold SS.addSorted; split
  · rfl
  · rw [weightCallback_less]

theorem addSorted_has (s : SS) (e x : Nat) : (s.addSorted e).has x = (s.has x || x == e) := by
  unfold SS.addSorted; split
  · rename_i h
    by_cases hx : x = e
    · subst hx; simp [h]
    · simp [hx]
  · rw [has_of_perm (weightCallback_els _ _ _)]
    rw [Bool.eq_iff_iff, has_iff]
    simp only [List.map_append, List.map_cons, List.map_nil, List.mem_append, List.mem_singleton,
      Bool.or_eq_true, has_iff, beq_iff_eq]

theorem addSorted_good (s : SS) (e : Nat) (h : s.Good) : (s.addSorted e).Good := by
  unfold SS.addSorted; split
  · exact h
  · rename_i hne
    have hne' : e ∉ s.ents.map (·.el) := by
      intro hm; exact hne ((has_iff s e).mpr hm)
    have hz : s.ents ++ [{ el := e, w := 0, idx := s.ents.length }] =
        zip s.ents.reverse { el := e, w := 0, idx := s.ents.length } [] := by simp [zip]
    refine weightCallback_good { s with ents := s.ents ++ [{ el := e, w := 0, idx := s.ents.length }] }
      s.ents.reverse { el := e, w := 0, idx := s.ents.length } [] (s.wv e) hz ?_ ?_ ?_ ?_ rfl ?_ ?_
    · simp only [List.map_append, List.map_cons, List.map_nil]
      refine List.nodup_append.mpr ⟨h.nodup, by simp, ?_⟩
      intro a ha b hb hab
      simp only [List.mem_singleton] at hb
      subst hb; subst hab; exact hne' ha
    · simpa using h.sorted
    · simp only [List.map_append, List.map_cons, List.map_nil, List.length_append, List.length_cons,
        List.length_nil, h.idx, List.range_succ]
    · simpa using h.weights
    · intro hr
      have : s.ents ≠ [] := by simpa using hr
      simp only
      rw [headEl_append_ne _ _ this]; exact h.heaviest
    · intro hr; exact absurd rfl hr

/-! ## `deleteSorted` -/

theorem map_pred_range' (k n : Nat) : (List.range' (k + 1) n).map (· - 1) = List.range' k n := by
  induction n generalizing k with
  | zero => rfl
  | succ n ih => simp [List.range'_succ, ih]

theorem deleteSorted_wv (s : SS) (e : Nat) : (s.deleteSorted e).wv = s.wv := by
  unfold SS.deleteSorted; split <;> rfl

theorem deleteSorted_less (s : SS) (e : Nat) : (s.deleteSorted e).less = s.less := by
  unfold SS.deleteSorted; split <;> rfl

theorem deleteSorted_has (s : SS) (e x : Nat) (h : (s.ents.map (·.el)).Nodup) :
    (s.deleteSorted e).has x = (s.has x && !(x == e)) := by
  unfold SS.deleteSorted; split
  · rename_i hsp
    have : s.has e = false := splitAtEl_none.mp hsp
    by_cases hx : x = e
    · subst hx; simp [this]
    · simp [hx]
  · rename_i rp x0 post hsp
    obtain ⟨h1, h2⟩ := splitAtEl_some hsp
    simp only [List.reverse_nil, List.nil_append] at h1
    rw [Bool.eq_iff_iff]
    simp only [Bool.and_eq_true, has_iff, Bool.not_eq_true', beq_eq_false_iff_ne]
    rw [h1] at h ⊢
    simp only [List.map_append, List.map_cons, List.map_map, List.nodup_append, List.nodup_cons,
      List.mem_cons, List.mem_append, List.mem_map, Function.comp_def] at h ⊢
    subst h2
    constructor
    · rintro (⟨a, ha, rfl⟩ | ⟨a, ha, rfl⟩)
      · exact ⟨Or.inl ⟨a, ha, rfl⟩, fun heq => h.2.2 a.el ⟨a, ha, rfl⟩ x0.el (Or.inl rfl) heq⟩
      · exact ⟨Or.inr (Or.inr ⟨a, ha, rfl⟩), fun heq => h.2.1.1 ⟨a, ha, heq⟩⟩
    · rintro ⟨(⟨a, ha, rfl⟩ | rfl | ⟨a, ha, rfl⟩), hne⟩
      · exact Or.inl ⟨a, ha, rfl⟩
      · exact absurd rfl hne
      · exact Or.inr ⟨a, ha, rfl⟩

theorem deleteSorted_good (s : SS) (e : Nat) (h : s.Good) : (s.deleteSorted e).Good := by
  unfold SS.deleteSorted; split
  · exact h
  · rename_i rp x post hsp
    obtain ⟨h1, h2⟩ := splitAtEl_some hsp
    simp only [List.reverse_nil, List.nil_append] at h1
    obtain ⟨g1, g2, g3, g4, g5, g6⟩ := h
    have hxi : x.idx = rp.length := idx_focus rp x post _ (by rw [zip, ← h1]; exact g2)
    rw [h1] at g1 g2 g3 g4
    -- index fields of the three parts
    have hparts : rp.reverse.map (·.idx) = List.range' 0 rp.length ∧
        post.map (·.idx) = List.range' (rp.length + 1) post.length := by
      have e1 : (rp.reverse ++ x :: post).length = rp.length + (1 + post.length) := by simp; omega
      rw [e1, List.range_eq_range', ← List.range'_append (step := 1), ← List.range'_append (step := 1),
        List.map_append, List.map_cons] at g2
      have := List.append_inj g2 (by simp)
      refine ⟨this.1, ?_⟩
      have h3 := this.2
      simp only [List.range'_one, List.cons_append, List.nil_append, List.cons.injEq, Nat.mul_one,
        Nat.one_mul, Nat.zero_add] at h3
      exact h3.2
    constructor
    · -- sorted
      simp only [List.pairwise_append, List.pairwise_cons, List.mem_cons, forall_eq_or_imp,
        List.mem_reverse] at g1
      simp only [List.pairwise_append, List.pairwise_map, List.mem_map, List.mem_reverse, ge_idx_l, ge_idx_r]
      refine ⟨g1.1, g1.2.1.2, ?_⟩
      rintro a ha _ ⟨b, hb, rfl⟩
      exact (g1.2.2 a ha).2 b hb
    · -- idx
      simp only [List.map_append, List.map_map, Function.comp_def, List.length_append, List.length_map,
        List.length_reverse]
      rw [hparts.1]
      have : post.map (fun y => y.idx - 1) = (post.map (·.idx)).map (· - 1) := by
        simp [Function.comp_def]
      rw [this, hparts.2, map_pred_range', List.range_eq_range']
      rw [← List.range'_append (step := 1)]; simp
    · -- weights
      intro y hy
      simp only [List.mem_append, List.mem_map] at hy
      rcases hy with hy | ⟨z, hz, rfl⟩
      · exact g3 y (by simp only [List.mem_append]; exact Or.inl hy)
      · exact g3 z (by simp only [List.mem_append, List.mem_cons]; exact Or.inr (Or.inr hz))
    · -- nodup
      simp only [List.map_append, List.map_cons, List.map_map, List.nodup_append, List.nodup_cons,
        List.mem_cons, Function.comp_def] at g4 ⊢
      exact ⟨g4.1, g4.2.1.2, fun a ha b hb => g4.2.2 a ha b (Or.inr hb)⟩
    · -- heaviest
      simp only
      cases rp with
      | nil => simp [hxi]
      | cons a rp =>
        have hne : (a :: rp) ≠ [] := by simp
        have : (x.idx == 0) = false := by rw [hxi]; simp
        rw [this]; simp only [Bool.false_eq_true, if_false]
        rw [g5, h1, headEl_rev_append _ _ hne, headEl_rev_append _ _ hne]
    · -- lightest
      simp only [List.length_append, List.length_map, List.length_reverse]
      cases post with
      | nil => simp [hxi]
      | cons a post =>
        have : (x.idx == rp.length + (a :: post).length) = false := by rw [hxi]; simp
        rw [this]; simp only [Bool.false_eq_true, if_false]
        rw [g6, h1, lastEl_append_ne _ _ (by simp), lastEl_append_ne _ _ (by simp)]
        exact (lastEl_map_dec _).symm

/-! ## Steps and runs -/

theorem ssAdds_good (A : List Nat) (s : SS) (h : s.Good) : (ssAdds A s).Good := by
  induction A generalizing s with
  | nil => exact h
  | cons e es ih => exact ih _ (addSorted_good s e h)

theorem ssDels_good (D : List Nat) (s : SS) (h : s.Good) : (ssDels D s).Good := by
  induction D generalizing s with
  | nil => exact h
  | cons e es ih => exact ih _ (deleteSorted_good s e h)

theorem ssAdds_wv (A : List Nat) (s : SS) : (ssAdds A s).wv = s.wv := by
  induction A generalizing s with
  | nil => rfl
  | cons e es ih => simp only [ssAdds]; rw [ih, addSorted_wv]

theorem ssDels_wv (D : List Nat) (s : SS) : (ssDels D s).wv = s.wv := by
  induction D generalizing s with
  | nil => rfl
  | cons e es ih => simp only [ssDels]; rw [ih, deleteSorted_wv]

theorem ssAdds_has (A : List Nat) (s : SS) (x : Nat) : (ssAdds A s).has x = (s.has x || A.contains x) := by
  induction A generalizing s with
  | nil => simp [ssAdds]
  | cons e es ih =>
    simp only [ssAdds]; rw [ih, addSorted_has, List.contains_cons, Bool.or_assoc]

theorem ssDels_has (D : List Nat) (s : SS) (x : Nat) (h : s.Good) :
    (ssDels D s).has x = (s.has x && !D.contains x) := by
  induction D generalizing s with
  | nil => simp [ssDels]
  | cons e es ih =>
    simp only [ssDels]
    rw [ih _ (deleteSorted_good s e h), deleteSorted_has s e x h.nodup, List.contains_cons, Bool.not_or,
      Bool.and_assoc]

theorem SS.weight_step_good (s : SS) (e : Nat) (w : Int) (h : s.Good) : (s.step (.weight e w)).Good := by
  simp only [SS.step]
  split
  · exact h
  · split
    · rename_i hhas
      have hhas' : s.ents.any (fun y => y.el == e) = true := hhas
      cases hsp : splitAtEl e [] s.ents with
      | none => rw [splitAtEl_none.mp hsp] at hhas'; exact absurd hhas' (by simp)
      | some r =>
        obtain ⟨rp, x, post⟩ := r
        obtain ⟨h1, h2⟩ := splitAtEl_some hsp
        simp only [List.reverse_nil, List.nil_append] at h1
        subst h2
        obtain ⟨g1, g2, g3, g4, g5, g6⟩ := h
        have g1' := g1
        have g4' := g4
        rw [h1] at g1' g4'
        simp only [List.pairwise_append, List.pairwise_cons, List.mem_cons, forall_eq_or_imp,
          List.mem_reverse] at g1'
        simp only [List.map_append, List.map_cons, List.nodup_append, List.nodup_cons, List.mem_cons,
          List.mem_map] at g4'
        refine weightCallback_good { s with wv := setAt s.wv x.el w } rp x post w h1 g4 ?_ g2 ?_ ?_
          (fun _ => g5) (fun _ => g6)
        · simp only [List.pairwise_append, List.mem_reverse]
          exact ⟨g1'.1, g1'.2.1.2, fun a ha b hb => (g1'.2.2 a ha).2 b hb⟩
        · intro y hy
          have hym : y ∈ s.ents := by
            rw [h1]; simp only [List.mem_append, List.mem_cons] at hy ⊢
            rcases hy with hy | hy
            · exact Or.inl hy
            · exact Or.inr (Or.inr hy)
          have hne : y.el ≠ x.el := by
            simp only [List.mem_append] at hy
            rcases hy with hy | hy
            · exact fun heq => g4'.2.2 y.el ⟨y, hy, rfl⟩ x.el (Or.inl rfl) heq
            · exact fun heq => g4'.2.1.1 ⟨y, hy, heq⟩
          simp only [setAt]
          rw [g3 y hym]
          simp [hne]
        · simp [setAt]
    · rename_i hw hhas
      have hhas'' : SS.has { s with wv := setAt s.wv e w } e = false := by simpa using hhas
      have hhas' : s.has e = false := hhas''
      obtain ⟨g1, g2, g3, g4, g5, g6⟩ := h
      refine ⟨g1, g2, ?_, g4, g5, g6⟩
      intro y hy
      have hne : y.el ≠ e := by
        intro heq
        have : s.has e = true := (has_iff s e).mpr (List.mem_map.mpr ⟨y, hy, heq⟩)
        rw [hhas'] at this; exact absurd this (by simp)
      simp only [setAt]
      rw [g3 y hy]; simp [hne]

theorem SS.good_step (s : SS) (op : SSOp) (h : s.Good) : (s.step op).Good := by
  cases op with
  | apply A D => exact ssDels_good D _ (ssAdds_good A s h)
  | weight e w => exact SS.weight_step_good s e w h

theorem SS.good_run (s : SS) (ops : List SSOp) (h : s.Good) : (s.run ops).Good := by
  induction ops generalizing s with
  | nil => exact h
  | cons op ops ih => exact ih _ (SS.good_step s op h)

/-- Every reachable state satisfies the invariant. -/
theorem SS.good_reachable (less : Bool) (ops : List SSOp) : ((SS.init less).run ops).Good :=
  SS.good_run _ ops (SS.good_init less)

/-! ## Membership, ignored weight updates, weight variables -/

/-- Contents of the underlying set after an operation. -/
def memSpec (m : Nat → Bool) : SSOp → Nat → Bool
  | .apply A D => fun x => (applyBit (m x) (A.contains x) (D.contains x)).1
  | .weight _ _ => m

theorem SS.has_step (s : SS) (op : SSOp) (e : Nat) (h : s.Good) :
    (s.step op).has e = memSpec s.has op e := by
  cases op with
  | apply A D =>
    simp only [SS.step, memSpec, applyBit]
    rw [ssDels_has D _ e (ssAdds_good A s h), ssAdds_has]
  | weight e' w =>
    simp only [SS.step, memSpec]
    split
    · rfl
    · split
      · rw [has_of_perm (weightCallback_els _ _ _)]; rfl
      · rfl

theorem SS.weight_of_absent (s : SS) (e : Nat) (w : Int) (h : s.has e = false) :
    (s.step (.weight e w)).ents = s.ents ∧ (s.step (.weight e w)).heaviest = s.heaviest ∧
      (s.step (.weight e w)).lightest = s.lightest := by
  have h' : SS.has { s with wv := setAt s.wv e w } e = false := h
  simp only [SS.step]
  split
  · exact ⟨rfl, rfl, rfl⟩
  · rw [if_neg (by rw [h']; simp)]
    exact ⟨rfl, rfl, rfl⟩

theorem SS.wv_step (s : SS) :
    (∀ e w, (s.step (.weight e w)).wv = setAt s.wv e w) ∧
    (∀ A D, (s.step (.apply A D)).wv = s.wv) := by
  refine ⟨fun e w => ?_, fun A D => ?_⟩
  · simp only [SS.step]
    split
    · rename_i hw
      have hw' : s.wv e = w := by simpa using hw
      funext j
      simp only [setAt]
      split
      · rename_i hj
        have : j = e := by simpa using hj
        rw [this, hw']
      · rfl
    · split
      · rw [weightCallback_wv]
      · rfl
  · simp only [SS.step]; rw [ssDels_wv, ssAdds_wv]

theorem SS.wv_step_weight (s : SS) (e : Nat) (w : Int) : (s.step (.weight e w)).wv = setAt s.wv e w :=
  s.wv_step.1 e w

theorem SS.wv_step_apply (s : SS) (A D : List Nat) : (s.step (.apply A D)).wv = s.wv :=
  s.wv_step.2 A D

/-- Membership along a whole history from the empty set. -/
theorem SS.has_reachable_step (less : Bool) (ops : List SSOp) (op : SSOp) (e : Nat) :
    (((SS.init less).run ops).step op).has e = memSpec ((SS.init less).run ops).has op e :=
  SS.has_step _ op e (SS.good_reachable less ops)

/-! ## the tie-breaking mode never changes -/

theorem SS.less_step (s : SS) (op : SSOp) : (s.step op).less = s.less := by
  have hd : ∀ (D : List Nat) (t : SS), (ssDels D t).less = t.less := by
    intro D
    induction D with
    | nil => intro t; rfl
    | cons e es ih => intro t; simp only [ssDels]; rw [ih]; simp only [SS.deleteSorted]; split <;> rfl
  have ha : ∀ (A : List Nat) (t : SS), (ssAdds A t).less = t.less := by
    intro A
    induction A with
    | nil => intro t; rfl
    | cons e es ih =>
      intro t; simp only [ssAdds]; rw [ih]; simp only [SS.addSorted]; split
      · rfl
      · simp only [SS.weightCallback]; split <;> rfl
  cases op with
  | apply A D => simp only [SS.step]; rw [hd, ha]
  | weight e w =>
    simp only [SS.step]
    split
    · rfl
    · split
      · simp only [SS.weightCallback]; split <;> rfl
      · rfl

theorem SS.less_run (s : SS) (ops : List SSOp) : (s.run ops).less = s.less := by
  induction ops generalizing s with
  | nil => rfl
  | cons op ops ih => simp only [SS.run]; rw [ih, SS.less_step]

end Hive.Derived
