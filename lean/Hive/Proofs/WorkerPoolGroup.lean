import Hive.Model.WorkerPoolGroup
import Hive.Proofs.WorkerPool
/-!
# C16 — the group counter tree: a group's counter is the number of its children with a non-zero counter
-/
set_option linter.unusedSimpArgs false
set_option linter.unusedVariables false
namespace Hive.WPG
open Hive.WP (b2n countP_set_add lt_of_get)

def kid (g : Nat) (n : Node) : Bool := n.parent == some g && n.value != 0

def cntKids (t : Tree) (g : Nat) : Nat := t.countP (kid g)

structure WF (t : Tree) : Prop where
  par : ∀ i n g, t[i]? = some n → n.parent = some g → g < i ∧ isGroup t g = true

def EqAt (t : Tree) (g : Nat) : Prop := isGroup t g = true → val t g = cntKids t g

structure Inv (t : Tree) : Prop where
  wf : WF t
  eq : ∀ g, EqAt t g

theorem val_set (t : Tree) (i j : Nat) (n m : Node) (h : t[i]? = some n) :
    val (t.set i m) j = if j = i then m.value else val t j := by
  unfold val
  by_cases hj : j = i
  · subst hj; simp [List.getElem?_set, lt_of_get h]
  · simp [List.getElem?_set, hj, Ne.symm hj]

theorem isGroup_set (t : Tree) (i j : Nat) (n : Node) (v : Nat) (h : t[i]? = some n) :
    isGroup (t.set i { n with value := v }) j = isGroup t j := by
  unfold isGroup
  by_cases hj : j = i
  · subst hj
    have hlt := lt_of_get h
    have he : t[j] = n := by rw [List.getElem?_eq_getElem hlt] at h; exact Option.some.inj h
    simp [List.getElem?_set, hlt, h]
    rw [he]
  · simp [List.getElem?_set, hj, Ne.symm hj]

theorem wf_set (t : Tree) (i : Nat) (n : Node) (v : Nat) (h : t[i]? = some n) (w : WF t) :
    WF (t.set i { n with value := v }) := by
  constructor
  intro j m g hj hp
  rw [isGroup_set t i g n v h]
  by_cases hji : j = i
  · subst hji
    simp [List.getElem?_set, lt_of_get h] at hj
    subst hj
    exact w.par j n g h hp
  · simp [List.getElem?_set, hji, Ne.symm hji] at hj
    exact w.par j m g hj hp

theorem cnt_set (t : Tree) (i g : Nat) (n m : Node) (h : t[i]? = some n) :
    cntKids (t.set i m) g + b2n (kid g n) = cntKids t g + b2n (kid g m) :=
  countP_set_add (kid g) t i n m h

theorem val_eq (t : Tree) (i : Nat) (n : Node) (h : t[i]? = some n) : val t i = n.value := by
  simp [val, h]

/-- The chain restores the invariant: everything holds except that node `i`'s own counter still has
to move by one (`up`: it is one too small for its children / it is a pool that accepted a task). -/
theorem bump_fix (fuel : Nat) : ∀ (t : Tree) (i : Nat) (up : Bool), WF t → i < fuel → i < t.length →
    (∀ g, g ≠ i → EqAt t g) → (isGroup t i = true → val t i + b2n up = cntKids t i + b2n (!up)) →
    (up = false → 0 < val t i) → Inv (bump fuel t i up) := by
  induction fuel with
  | zero => intro t i up _ h; omega
  | succ fuel ih =>
    intro t i up w hif hil hoth hi hpos
    have hget : t[i]? = some t[i] := List.getElem?_eq_getElem hil
    generalize hn : t[i] = n at hget
    obtain ⟨par, isP, v0⟩ := n
    simp only [bump, hget]
    have hv : val t i = v0 := val_eq t i _ hget
    -- the new tree after the update at `i`
    have w' := fun v => wf_set t i ⟨par, isP, v0⟩ v hget w
    have hnp : ∀ g, par = some g → g < i ∧ isGroup t g = true := fun g hp => w.par i _ g hget hp
    have hself : ∀ v, kid i ⟨par, isP, v⟩ = false := by
      intro v
      unfold kid
      cases par with
      | none => simp
      | some g => have := (hnp g rfl).1; simp; intro h; omega
    -- equation at `i` after the update
    have eqi : ∀ v, (isGroup t i = true → v = cntKids t i) → EqAt (t.set i ⟨par, isP, v⟩) i := by
      intro v hvv hg
      rw [isGroup_set t i i ⟨par, isP, v0⟩ v hget] at hg
      rw [val_set t i i _ _ hget]; simp
      have := cnt_set t i i _ ⟨par, isP, v⟩ hget
      rw [hself, hself] at this
      have := hvv hg
      simp at *; omega
    -- equation at the other groups whose child count does not change
    have eqo : ∀ v g, g ≠ i → kid g ⟨par, isP, v⟩ = kid g ⟨par, isP, v0⟩ → EqAt (t.set i ⟨par, isP, v⟩) g := by
      intro v g hgi hk hg
      rw [isGroup_set t i g ⟨par, isP, v0⟩ v hget] at hg
      rw [val_set t i g _ _ hget]; simp [hgi]
      have := cnt_set t i g _ ⟨par, isP, v⟩ hget
      rw [hk] at this
      have e := hoth g hgi hg
      omega
    have hnew : isGroup t i = true → (if up = true then v0 + 1 else v0 - 1) = cntKids t i := by
      intro hg
      have := hi hg
      rw [hv] at this
      cases up with
      | true => simp [b2n] at this ⊢; omega
      | false => have := hpos rfl; simp [b2n] at *; omega
    cases par with
    | none =>
      try simp only
      refine ⟨w' _, fun g => ?_⟩
      by_cases hgi : g = i
      · subst hgi; exact eqi _ hnew
      · exact eqo _ g hgi (by simp [kid])
    | some g0 =>
      try simp only
      have hp : (some g0 : Option Nat) = some g0 := rfl
      obtain ⟨hg0i, hg0g⟩ := hnp g0 rfl
      have hg0ne : g0 ≠ i := by omega
      have hg0len : g0 < (t.set i ⟨some g0, isP, if up = true then v0 + 1 else v0 - 1⟩).length := by
        simp; omega
      by_cases hz : v0 = 0
      · -- oldValue == 0: the parent is increased
        have hup : up = true := by
          cases up with
          | true => rfl
          | false => have := hpos rfl; omega
        subst hup
        simp only [hz, if_true]
        refine ih _ g0 true (by simpa [hz] using w' (0 + 1)) (by omega) (by simpa [hz] using hg0len) ?_ ?_ (by simp)
        · intro g hg
          by_cases hgi : g = i
          · subst hgi; have := eqi (0 + 1) (by simpa [hz] using hnew); simpa [hz] using this
          · have := eqo (0 + 1) g hgi (by simp [kid, hp, hz]; intro h; exact absurd h.symm hg)
            simpa [hz] using this
        · intro hg
          rw [isGroup_set t i g0 ⟨some g0, isP, v0⟩ _ hget] at hg
          rw [val_set t i g0 _ _ hget]; simp [hg0ne]
          have := cnt_set t i g0 _ ⟨some g0, isP, 0 + 1⟩ hget
          simp [kid, hp, hz, b2n] at this
          have e := hoth g0 hg0ne hg
          first | (simp [b2n]; omega) | omega
      · simp only [hz, if_false]
        by_cases hnz : (if up = true then v0 + 1 else v0 - 1) = 0
        · -- newValue == 0: the parent is decreased
          have hup : up = false := by
            cases up with
            | false => rfl
            | true => simp at hnz
          subst hup
          simp only [Bool.false_eq_true, if_false] at hnz ⊢
          simp only [hnz, if_true]
          have e0 := hoth g0 hg0ne hg0g
          have c0 := cnt_set t i g0 _ ⟨some g0, isP, 0⟩ hget
          simp [kid, hp, hz, b2n] at c0
          refine ih _ g0 false (by simpa [hnz] using w' 0) (by omega) (by simpa [hnz] using hg0len) ?_ ?_ ?_
          · intro g hg
            by_cases hgi : g = i
            · subst hgi; have := eqi 0 (by simpa [hnz] using hnew); simpa using this
            · exact eqo 0 g hgi (by simp [kid, hp, hz]; intro h; exact absurd h.symm hg)
          · intro hg
            rw [val_set t i g0 _ _ hget]; simp [hg0ne, b2n]; omega
          · intro _
            rw [val_set t i g0 _ _ hget]; simp [hg0ne]; omega
        · simp only [hnz, if_false]
          refine ⟨w' _, fun g => ?_⟩
          by_cases hgi : g = i
          · subst hgi; exact eqi _ hnew
          · refine eqo _ g hgi ?_
            have hnz' : (if up = true then v0 + 1 else v0 - 1) ≠ 0 := hnz
            have a : ((if up = true then v0 + 1 else v0 - 1) != 0) = true := by simpa using hnz'
            have b : (v0 != 0) = true := by simpa using hz
            simp only [kid, a, b]


theorem inv_nil : Inv [] := by
  refine ⟨⟨?_⟩, ?_⟩
  · intro i n g h; simp at h
  · intro g h; simp [isGroup] at h

theorem isGroup_lt {t : Tree} {g : Nat} (h : isGroup t g = true) : g < t.length := by
  unfold isGroup at h
  rcases Nat.lt_or_ge g t.length with h' | h'
  · exact h'
  · simp [List.getElem?_eq_none h'] at h

theorem inv_append (t : Tree) (x : Node) (h : Inv t) (hv : x.value = 0)
    (hp : ∀ g, x.parent = some g → isGroup t g = true) : Inv (t ++ [x]) := by
  have hgrp : ∀ g, g < t.length → isGroup (t ++ [x]) g = isGroup t g := by
    intro g hg; simp [isGroup, List.getElem?_append_left hg]
  have hval : ∀ g, g < t.length → val (t ++ [x]) g = val t g := by
    intro g hg; simp [val, List.getElem?_append_left hg]
  refine ⟨⟨?_⟩, ?_⟩
  · intro i n g hi hpar
    rcases Nat.lt_or_ge i t.length with hil | hil
    · rw [List.getElem?_append_left hil] at hi
      obtain ⟨a, b⟩ := h.wf.par i n g hi hpar
      exact ⟨a, by rw [hgrp g (isGroup_lt b)]; exact b⟩
    · have hil' : i = t.length := by
        have := lt_of_get hi; simp at this; omega
      subst hil'
      simp at hi; subst hi
      have b := hp g hpar
      exact ⟨isGroup_lt b, by rw [hgrp g (isGroup_lt b)]; exact b⟩
  · intro g hg
    have hk : cntKids (t ++ [x]) g = cntKids t g := by
      simp [cntKids, List.countP_append, kid, hv]
    rw [hk]
    rcases Nat.lt_or_ge g t.length with hgl | hgl
    · rw [hval g hgl]; rw [hgrp g hgl] at hg; exact h.eq g hg
    · have hgl' : g = t.length := by
        have := isGroup_lt hg; simp at this; omega
      subst hgl'
      have h0 : cntKids t t.length = 0 := by
        unfold cntKids
        rw [List.countP_eq_zero]
        intro n hn
        obtain ⟨i, hi, rfl⟩ := List.mem_iff_getElem.mp hn
        simp only [kid, Bool.and_eq_true, beq_iff_eq, not_and]
        intro hpar
        have := (h.wf.par i t[i] t.length (List.getElem?_eq_getElem hi) hpar).1
        omega
      rw [h0]; simp [val, hv]

theorem inv_step (t : Tree) (op : Op) (h : Inv t) (hok : op.ok t = true) : Inv (step t op) := by
  cases op with
  | newGroup p =>
    cases p with
    | none => exact inv_append t _ h rfl (by intro g hg; cases hg)
    | some g0 => exact inv_append t _ h rfl (by intro g hg; cases hg; simpa [Op.ok] using hok)
  | newPool g0 => exact inv_append t _ h rfl (by intro g hg; cases hg; simpa [Op.ok] using hok)
  | inc q =>
    simp only [Op.ok] at hok
    have hq : q < t.length := by
      unfold isPoolAt at hok
      rcases Nat.lt_or_ge q t.length with h' | h'
      · exact h'
      · simp [List.getElem?_eq_none h'] at hok
    have hng : isGroup t q = false := by
      unfold isPoolAt at hok; unfold isGroup
      cases hh : t[q]? with
      | none => rfl
      | some n => simp [hh] at hok ⊢; exact hok
    exact bump_fix (q + 1) t q true h.wf (by omega) hq (fun g _ => h.eq g) (by simp [hng]) (by simp)
  | dec q =>
    simp only [Op.ok, Bool.and_eq_true, decide_eq_true_eq] at hok
    obtain ⟨hok, hpos⟩ := hok
    have hq : q < t.length := by
      unfold isPoolAt at hok
      rcases Nat.lt_or_ge q t.length with h' | h'
      · exact h'
      · simp [List.getElem?_eq_none h'] at hok
    have hng : isGroup t q = false := by
      unfold isPoolAt at hok; unfold isGroup
      cases hh : t[q]? with
      | none => rfl
      | some n => simp [hh] at hok ⊢; exact hok
    exact bump_fix (q + 1) t q false h.wf (by omega) hq (fun g _ => h.eq g) (by simp [hng]) (fun _ => hpos)

theorem inv_run (t : Tree) (ops : List Op) (h : Inv t) : Inv (run t ops) := by
  induction ops generalizing t with
  | nil => exact h
  | cons op ops ih =>
    simp only [run]
    split
    · rename_i hok; exact ih _ (inv_step t op h hok)
    · exact ih _ h

/-- A zero counter of a group forces a zero counter in each of its children. -/
theorem child_zero (t : Tree) (h : Inv t) (q g : Nat) (n : Node) (hq : t[q]? = some n) (hp : n.parent = some g)
    (hz : val t g = 0) : val t q = 0 := by
  have hg := (h.wf.par q n g hq hp).2
  have he := h.eq g hg
  rw [hz] at he
  have : kid g n = false := by
    cases hk : kid g n with
    | false => rfl
    | true =>
      have : 0 < cntKids t g := List.countP_pos_iff.mpr ⟨n, List.mem_of_getElem? hq, hk⟩
      omega
  simp [kid, hp] at this
  simp [val, hq, this]

theorem below_zero (fuel : Nat) (t : Tree) (h : Inv t) (g q : Nat) (hb : below fuel t g q = true)
    (hz : val t g = 0) : val t q = 0 := by
  induction fuel generalizing q with
  | zero => simp [below] at hb
  | succ fuel ih =>
    simp only [below] at hb
    cases hq : t[q]? with
    | none => simp [hq] at hb
    | some n =>
      simp only [hq] at hb
      cases hp : n.parent with
      | none => simp [hp] at hb
      | some p =>
        simp only [hp, Bool.or_eq_true, beq_iff_eq] at hb
        rcases hb with hb | hb
        · subst hb; exact child_zero t h q p n hq hp hz
        · exact child_zero t h q p n hq hp (ih p hb)



/-! ## subscriber streams -/

theorem streamOk_snoc (a v n : Nat) (st : List (Nat × Nat)) (h : streamOk a v st = true) (hne : v ≠ n) :
    streamOk a n (st ++ [(v, n)]) = true := by
  induction st generalizing a with
  | nil =>
    simp only [streamOk, beq_iff_eq] at h
    subst h
    simp [streamOk, hne]
  | cons x xs ih =>
    obtain ⟨o, m⟩ := x
    simp only [streamOk, List.cons_append, Bool.and_eq_true] at h ⊢
    exact ⟨h.1, ih m h.2⟩

theorem streamOk_recStep (a v n : Nat) (st : List (Nat × Nat)) (h : streamOk a v st = true) :
    streamOk a n (recStep st v n) = true := by
  unfold recStep
  by_cases e : v = n
  · subst e; simpa using h
  · simp only [e, if_false]; exact streamOk_snoc a v n st h e

theorem streamOk_recRun (a v : Nat) (vs : List Nat) (st : List (Nat × Nat)) (h : streamOk a v st = true) :
    streamOk a ((v :: vs).getLast (by simp)) (recRun v vs st) = true := by
  induction vs generalizing v st with
  | nil => simpa [recRun] using h
  | cons w ws ih =>
    simp only [recRun]
    have := ih w (recStep st v w) (streamOk_recStep a v w st h)
    simpa using this

end Hive.WPG
