import Hive.Proofs.TimedInv2Step
/-!
# Progress: a pending element is never left behind

`InvP` is the counting invariant of the condition variable and of the worker pool:

* `wake ≤ parked` and `parked` is the number of goroutines in `waitCond.Wait()`;
* a non-empty heap always has somebody who will come and poll it: a notified waiter, a worker
  that is not parked, or — with `CancelPendingElements` — the `Shutdown` call that is about to
  discard it (`p2`); workers leave only after Shutdown (`p3`);
* after `Shutdown` has gone through, every waiter has been notified (`p6`) and, with
  `CancelPendingElements`, the heap is empty (`p4`).
-/
namespace Hive.Timed
open Hive.Conc

def isActive : Th → Nat
  | .idle => 1
  | .hk _ => 1
  | .sel _ => 1
  | .selSD _ => 1
  | .chk _ => 1
  | .wrap _ => 1
  | .cb _ _ => 1
  | _ => 0

def isParked : Th → Nat
  | .parked => 1
  | _ => 0

def isExited : Th → Nat
  | .exited => 1
  | _ => 0

/-- inside `Queue.Shutdown` between marking the queue and handling the heap -/
def sdN : Th → Nat
  | .ctl (.sd2 _) _ => 1
  | .ctl (.sd3 _) _ => 1
  | _ => 0

/-- worker goroutines, in whatever state -/
def isWk (t : Th) : Nat := isActive t + isParked t + isExited t

structure InvP (s : Sh) (ts : List Th) : Prop where
  p1a : s.wake ≤ s.parked
  p1b : s.parked = tsum isParked ts
  p2 : 0 < s.heap.length → 0 < s.wake + tsum isActive ts ∨ (s.flags.cancel = true ∧ 0 < tsum sdN ts)
  p3 : s.isShutdown = false → tsum isExited ts = 0
  p4 : s.isShutdown = true → s.flags.cancel = true → tsum sdN ts = 0 → s.heap.length = 0
  p6 : s.isShutdown = true → tsum sdN ts = 0 → s.wake = s.parked
  pw : 0 < tsum isWk ts

theorem HSub.length {h' h : List Elem} (hs : HSub h' h) : h'.length ≤ h.length := by
  have := hs (fun _ => true)
  simpa using this

theorem pop_length {h h' : List Elem} {e : Elem} (hp : Heap.pop h = some (e, h')) : h.length = h'.length + 1 := by
  have := (Heap.pop_perm hp).length_eq
  simpa using this

theorem pop_none_length {h : List Elem} (hp : Heap.pop h = none) : h.length = 0 := by
  rw [Heap.pop_none.mp hp]; rfl

/-- Generic step: the thread changes class, the shared counters change as given. -/
theorem invP_gen {s s' : Sh} {l r : List Th} {t t' : Th} (h : InvP s (l ++ t :: r))
    (hwk : isWk t' = isWk t)
    (h1a : s'.wake ≤ s'.parked)
    (h1b : s'.parked + isParked t = s.parked + isParked t')
    (h2 : 0 < s'.heap.length → 0 < s'.wake + (tsum isActive l + isActive t' + tsum isActive r) ∨
        (s'.flags.cancel = true ∧ 0 < tsum sdN l + sdN t' + tsum sdN r))
    (h3 : s'.isShutdown = false → s.isShutdown = false ∧ isExited t' = isExited t)
    (h4 : s'.isShutdown = true → s'.flags.cancel = true → tsum sdN l + sdN t' + tsum sdN r = 0 → s'.heap.length = 0)
    (h6 : s'.isShutdown = true → tsum sdN l + sdN t' + tsum sdN r = 0 → s'.wake = s'.parked) :
    InvP s' (l ++ t' :: r) := by
  obtain ⟨p1a, p1b, p2, p3, p4, p6, pw⟩ := h
  simp only [tsum_mid] at *
  constructor
  · exact h1a
  · simp only [tsum_mid]; omega
  · simp only [tsum_mid]; exact h2
  · intro hs
    obtain ⟨hs0, he⟩ := h3 hs
    have := p3 hs0
    simp only [tsum_mid]; omega
  · simp only [tsum_mid]; exact h4
  · simp only [tsum_mid]; exact h6
  · simp only [tsum_mid]; omega

/-- Nothing the invariant reads changes (the heap may shrink) and the thread stays in its class. -/
theorem invP_keep {s s' : Sh} {l r : List Th} {t t' : Th} (h : InvP s (l ++ t :: r))
    (ha : isActive t' = isActive t) (hp : isParked t' = isParked t) (hx : isExited t' = isExited t)
    (hs : sdN t' = sdN t) (hw : s'.wake = s.wake) (hpk : s'.parked = s.parked)
    (hh : s'.heap.length ≤ s.heap.length) (hsd : s'.isShutdown = s.isShutdown)
    (hf : s'.flags.cancel = s.flags.cancel) : InvP s' (l ++ t' :: r) := by
  have h' := h
  obtain ⟨p1a, p1b, p2, p3, p4, p6, pw⟩ := h
  simp only [tsum_mid] at p1b p2 p3 p4 p6 pw
  refine invP_gen h' (by simp [isWk, ha, hp, hx]) (by omega) (by omega) ?_ ?_ ?_ ?_
  · intro hl; rw [hw, hf, ha, hs]; exact p2 (by omega)
  · intro h0; rw [hsd] at h0; exact ⟨h0, hx⟩
  · intro h0 h1 h2; rw [hsd] at h0; rw [hf] at h1; rw [hs] at h2
    have := p4 h0 h1 h2; omega
  · intro h0 h2; rw [hsd] at h0; rw [hs] at h2; rw [hw, hpk]; exact p6 h0 h2

theorem tsum_add (f g : Th → Nat) (ts : List Th) : tsum (fun t => f t + g t) ts = tsum f ts + tsum g ts := by
  induction ts with
  | nil => rfl
  | cons a l ih => simp only [tsum, List.map_cons, List.sum_cons] at *; omega

theorem tsum_isWk (ts : List Th) : tsum isWk ts = tsum isActive ts + tsum isParked ts + tsum isExited ts := by
  have : isWk = fun t => (isActive t + isParked t) + isExited t := rfl
  rw [this, tsum_add, tsum_add]

theorem signal_wake_cases (s : Sh) : ((signal s).wake = s.wake + 1 ∧ s.wake < s.parked) ∨
    ((signal s).wake = s.wake ∧ ¬ s.wake < s.parked) := by
  rw [signal_wake]; split
  · exact Or.inl ⟨rfl, ‹_›⟩
  · exact Or.inr ⟨rfl, ‹_›⟩

/-- `Queue.Add` (any caller whose class does not change; the caller may be an active worker). -/
theorem invP_add {s s' : Sh} {l r : List Th} {t t' : Th} (h : InvP s (l ++ t :: r)) (due : Nat) (id : Option Nat)
    (kind : Kind) (tag : Nat)
    (ha : isActive t' = isActive t) (hp : isParked t' = isParked t) (hx : isExited t' = isExited t)
    (hs : sdN t' = sdN t) (hw : s'.wake = (add s due id kind tag).1.wake)
    (hpk : s'.parked = (add s due id kind tag).1.parked) (hh : s'.heap = (add s due id kind tag).1.heap)
    (hsd : s'.isShutdown = (add s due id kind tag).1.isShutdown)
    (hf : s'.flags = (add s due id kind tag).1.flags) : InvP s' (l ++ t' :: r) := by
  rcases add_cases s due id kind tag with ⟨_, h1, _⟩ | ⟨hns, _, h2, new, cl, h1, _⟩
  · rw [h1] at hw hpk hh hsd hf
    exact invP_keep h ha hp hx hs hw hpk (by rw [hh]; exact Nat.le_refl _) hsd (by rw [hf])
  · rw [h1] at hw hpk hh hsd hf
    simp only [signal_parked, signal_heap, signal_isShutdown, signal_flags] at hpk hh hsd hf
    have h' := h
    obtain ⟨p1a, p1b, p2, p3, p4, p6, pw⟩ := h
    simp only [tsum_mid, isWk] at p1b p2 p3 p4 p6 pw
    have p3' := p3 hns
    simp only [tsum_isWk] at pw
    have hsw : (s'.wake = s.wake + 1 ∧ s.wake < s.parked) ∨ (s'.wake = s.wake ∧ ¬ s.wake < s.parked) := by
      rw [hw]
      exact signal_wake_cases
        ({ s with next := s.next + 1, heap := h2, closed := cl, log := new ++ Ev.sched s.next id due :: s.log })
    refine invP_gen h' (by simp [isWk, ha, hp, hx]) ?_ (by omega) ?_ ?_ ?_ ?_
    · rcases hsw with ⟨e1, e2⟩ | ⟨e1, e2⟩ <;> omega
    · intro _
      left
      rcases hsw with ⟨e1, e2⟩ | ⟨e1, e2⟩ <;> omega
    · intro h0; rw [hsd] at h0; exact ⟨hns, hx⟩
    · intro h0; rw [hsd, hns] at h0; cases h0
    · intro h0; rw [hsd, hns] at h0; cases h0

theorem cancelElem_length (s : Sh) (x : Nat) : (cancelElem s x).heap.length ≤ s.heap.length :=
  (cancelElem_hsub s x).length

theorem exec1_keep {s s' : Sh} {l r : List Th} {t t' : Th} (h : InvP s (l ++ t :: r)) (i : Nat)
    (ha : isActive t' = isActive t) (hp : isParked t' = isParked t) (hx : isExited t' = isExited t)
    (hs : sdN t' = sdN t) (he : s' = exec1 s i) : InvP s' (l ++ t' :: r) := by
  subst he
  unfold exec1
  cases regGet s.reg i with
  | none => exact invP_keep h ha hp hx hs rfl rfl (Nat.le_refl _) rfl rfl
  | some x => exact invP_keep h ha hp hx hs rfl rfl (cancelElem_length s x) rfl rfl

theorem cancelId_keep {s s' : Sh} {l r : List Th} {t t' : Th} (h : InvP s (l ++ t :: r)) (i : Nat)
    (ha : isActive t' = isActive t) (hp : isParked t' = isParked t) (hx : isExited t' = isExited t)
    (hs : sdN t' = sdN t) (he : s' = cancelId s i) : InvP s' (l ++ t' :: r) := by
  subst he
  unfold cancelId
  cases regGet s.reg i with
  | none => exact invP_keep h ha hp hx hs rfl rfl (Nat.le_refl _) rfl rfl
  | some x => exact invP_keep h ha hp hx hs rfl rfl (cancelElem_length s x) rfl rfl

theorem exec2_add {s s' : Sh} {l r : List Th} {t t' : Th} (h : InvP s (l ++ t :: r)) (i due : Nat) (kind : Kind)
    (tag : Nat) (ha : isActive t' = isActive t) (hp : isParked t' = isParked t) (hx : isExited t' = isExited t)
    (hs : sdN t' = sdN t) (he : s' = exec2 s i due kind tag) : InvP s' (l ++ t' :: r) := by
  subst he
  refine invP_add h due (some i) kind tag ha hp hx hs ?_ ?_ ?_ ?_ ?_ <;>
    (unfold exec2; cases hadd : add s due (some i) kind tag with
      | mk s1 r1 => cases r1 <;> rfl)

theorem invP_tr {s s' : Sh} {l r : List Th} {t t' : Th} (h2 : Inv2 s (l ++ t :: r)) (h : InvP s (l ++ t :: r))
    (tr : Tr s t s' t') : InvP s' (l ++ t' :: r) := by
  have h' := h
  obtain ⟨p1a, p1b, p2, p3, p4, p6, pw⟩ := h
  simp only [tsum_mid] at p1b p2 p3 p4 p6 pw
  cases tr with
  | idleExit hp hs =>
    have hl := pop_none_length hp
    refine invP_gen h' rfl p1a (by simp [isParked] <;> omega) ?_ ?_ ?_ ?_
    · intro h0; simp only at h0; omega
    · intro h0; simp only at h0; rw [hs] at h0; cases h0
    · intro _ _ _; exact hl
    · intro h0 h1; simp only [sdN, isActive] at *; exact p6 h0 h1
  | idlePark hp hs =>
    have hl := pop_none_length hp
    refine invP_gen h' rfl (by simp only; omega) (by simp [isParked]) ?_ ?_ ?_ ?_
    · intro h0; simp only at h0; omega
    · intro _; exact ⟨hs, rfl⟩
    · intro _ _ _; exact hl
    · intro h0; simp only at h0; rw [hs] at h0; cases h0
  | idlePop hp =>
    rename_i e hh
    have hl := pop_length hp
    have hc : ∀ (u : Th), (u = .hk e ∨ u = .sel e) → isActive u = 1 ∧ isParked u = 0 ∧ isExited u = 0 ∧ sdN u = 0 := by
      rintro u (rfl | rfl) <;> exact ⟨rfl, rfl, rfl, rfl⟩
    have ht' : (if e.tag ∈ s.armed then Th.hk e else Th.sel e) = .hk e ∨ (if e.tag ∈ s.armed then Th.hk e else Th.sel e) = .sel e := by
      split
      · exact Or.inl rfl
      · exact Or.inr rfl
    obtain ⟨c1, c2, c3, c4⟩ := hc _ ht'
    exact invP_keep h' (by rw [c1]; rfl) (by rw [c2]; rfl) (by rw [c3]; rfl) (by rw [c4]; rfl) rfl rfl
      (by simp only; omega) rfl rfl
  | wake hw =>
    refine invP_gen h' rfl (by simp only; omega) (by simp [isParked] <;> omega) ?_ ?_ ?_ ?_
    · intro _; left; simp [isActive]; omega
    · intro h0; exact ⟨h0, rfl⟩
    · intro h0 h1 h2; simp only [sdN, Nat.add_zero] at *; exact p4 h0 h1 h2
    · intro h0 h1; simp only [sdN, Nat.add_zero] at *; have := p6 h0 h1; omega
  | hkGo hr => exact invP_keep h' rfl rfl rfl rfl rfl rfl (Nat.le_refl _) rfl rfl
  | selSdCancel hc hf =>
    have hsd := h2.sdinv hc
    refine invP_gen h' rfl p1a (by simp [isParked]) ?_ ?_ ?_ ?_
    · intro h0
      right
      refine ⟨hf, ?_⟩
      simp only [sdN, isActive, Nat.add_zero] at *
      rcases Nat.eq_zero_or_pos (tsum sdN l + tsum sdN r) with hz | hz
      · have := p4 hsd hf (by omega); omega
      · omega
    · intro h0; simp only at h0; rw [hsd] at h0; cases h0
    · intro h0 h1 h3; simp only [sdN, Nat.add_zero] at *; exact p4 h0 h1 h3
    · intro h0 h1; simp only [sdN, Nat.add_zero] at *; exact p6 h0 h1
  | selSdIgnore hc hf hi => exact invP_keep h' rfl rfl rfl rfl rfl rfl (Nat.le_refl _) rfl rfl
  | selSd hc hf hi => exact invP_keep h' rfl rfl rfl rfl rfl rfl (Nat.le_refl _) rfl rfl
  | selCancel hc => exact invP_keep h' rfl rfl rfl rfl rfl rfl (Nat.le_refl _) rfl rfl
  | selTimer hd => exact invP_keep h' rfl rfl rfl rfl rfl rfl (Nat.le_refl _) rfl rfl
  | selSDCancel hc => exact invP_keep h' rfl rfl rfl rfl rfl rfl (Nat.le_refl _) rfl rfl
  | selSDTimer hd => exact invP_keep h' rfl rfl rfl rfl rfl rfl (Nat.le_refl _) rfl rfl
  | chkSkip hc => exact invP_keep h' rfl rfl rfl rfl rfl rfl (Nat.le_refl _) rfl rfl
  | chkDeliver hnc => exact invP_keep h' rfl rfl rfl rfl rfl rfl (Nat.le_refl _) rfl rfl
  | wrapRaw hid => exact invP_keep h' rfl rfl rfl rfl rfl rfl (Nat.le_refl _) rfl rfl
  | wrapRun hid hl hg => exact invP_keep h' rfl rfl rfl rfl rfl rfl (Nat.le_refl _) rfl rfl
  | wrapSkip hid hl hg => exact invP_keep h' rfl rfl rfl rfl rfl rfl (Nat.le_refl _) rfl rfl
  | cbDone hg => exact invP_keep h' rfl rfl rfl rfl rfl rfl (Nat.le_refl _) rfl rfl
  | cbExec1 hk hid hl => exact exec1_keep h' _ rfl rfl rfl rfl rfl
  | cbExec2 hk hid =>
    rename_i e i due tag blk
    exact exec2_add h' i due .plain tag (by cases blk <;> rfl) (by cases blk <;> rfl) (by cases blk <;> rfl)
      (by cases blk <;> rfl) rfl
  | cbCancel hk hid hl => exact cancelId_keep h' _ rfl rfl rfl rfl rfl
  | ctlExec2 => exact exec2_add h' _ _ _ _ rfl rfl rfl rfl rfl
  | ctlSd2 => exact invP_keep h' rfl rfl rfl rfl rfl rfl (Nat.le_refl _) rfl rfl
  | ctlSd3 =>
    rename_i dw script
    have hc : isActive (Th.ctl (if dw = true then CPc.ready else CPc.sdWait) script) = 0 ∧
        isParked (Th.ctl (if dw = true then CPc.ready else CPc.sdWait) script) = 0 ∧
        isExited (Th.ctl (if dw = true then CPc.ready else CPc.sdWait) script) = 0 ∧
        sdN (Th.ctl (if dw = true then CPc.ready else CPc.sdWait) script) = 0 := by
      cases dw <;> exact ⟨rfl, rfl, rfl, rfl⟩
    obtain ⟨c1, c2, c3, c4⟩ := hc
    have hsd3 : (sd3 s).wake = s.parked ∧ (sd3 s).parked = s.parked ∧ (sd3 s).isShutdown = s.isShutdown ∧
        (sd3 s).flags = s.flags ∧
        ((s.flags.cancel = true ∧ (sd3 s).heap.length = 0) ∨ (s.flags.cancel = false ∧ (sd3 s).heap = s.heap)) := by
      unfold sd3
      cases hf : s.flags.cancel with
      | true => simp [broadcast]
      | false => simp [broadcast]
    obtain ⟨w1, w2, w3, w4, w5⟩ := hsd3
    refine invP_gen h' (by simp [isWk, c1, c2, c3, isActive, isParked, isExited]) (by simp only [w1, w2]; omega)
      (by simp only [w2, c2, isParked]) ?_ ?_ ?_ ?_
    · intro h0
      simp only at h0
      rcases w5 with ⟨_, hz⟩ | ⟨hcf, hh⟩
      · omega
      · rw [hh] at h0
        left
        simp only [w1, c1]
        rcases p2 h0 with hp | ⟨hcc, _⟩
        · simp only [isActive, Nat.add_zero] at hp; omega
        · rw [hcf] at hcc; cases hcc
    · intro h0; simp only [w3] at h0; exact ⟨h0, by rw [c3]; rfl⟩
    · intro h0 h1 _
      simp only [w3, w4] at h0 h1
      rcases w5 with ⟨_, hz⟩ | ⟨hcf, _⟩
      · exact hz
      · rw [hcf] at h1; cases h1
    · intro _ _; simp only [w1, w2]
  | ctlSdWait hw => exact invP_keep h' rfl rfl rfl rfl rfl rfl (Nat.le_refl _) rfl rfl
  | ctlWait ht => exact invP_keep h' rfl rfl rfl rfl rfl rfl (Nat.le_refl _) rfl rfl
  | ctlAdd =>
    rename_i due tag kind rest
    exact invP_add h' due none kind tag rfl rfl rfl rfl rfl rfl rfl rfl rfl
  | ctlExec1 hl => exact exec1_keep h' _ rfl rfl rfl rfl rfl
  | ctlCancelElem hx =>
    rename_i x rest
    exact invP_keep h' rfl rfl rfl rfl rfl rfl (cancelElem_length s x) rfl rfl
  | ctlCancelNone => exact invP_keep h' rfl rfl rfl rfl rfl rfl (Nat.le_refl _) rfl rfl
  | ctlCancelId hl => exact cancelId_keep h' _ rfl rfl rfl rfl rfl
  | ctlSd1 hs =>
    rename_i f rest
    obtain ⟨hns, rfl⟩ := sd1_some hs
    refine invP_gen h' rfl p1a (by simp [isParked]) ?_ ?_ ?_ ?_
    · intro h0
      simp only [isActive, sdN, Nat.add_zero] at *
      rcases p2 h0 with hp | ⟨hcc, hp⟩
      · exact Or.inl hp
      · right; exact ⟨by simp [Flags.or, hcc], by omega⟩
    · intro h0; cases h0
    · intro _ _ h3; simp only [sdN] at h3; omega
    · intro _ h3; simp only [sdN] at h3; omega
  | ctlSdAgain hs hpc =>
    rename_i f rest res pc
    have hc : isActive (Th.ctl pc rest) = 0 ∧ isParked (Th.ctl pc rest) = 0 ∧ isExited (Th.ctl pc rest) = 0 ∧
        sdN (Th.ctl pc rest) = 0 := by
      rcases hpc with rfl | rfl <;> exact ⟨rfl, rfl, rfl, rfl⟩
    obtain ⟨c1, c2, c3, c4⟩ := hc
    exact invP_keep h' (by rw [c1]; rfl) (by rw [c2]; rfl) (by rw [c3]; rfl) (by rw [c4]; rfl) rfl rfl
      (Nat.le_refl _) rfl rfl
  | ctlRelease => exact invP_keep h' rfl rfl rfl rfl rfl rfl (Nat.le_refl _) rfl rfl
  | ctlArm => exact invP_keep h' rfl rfl rfl rfl rfl rfl (Nat.le_refl _) rfl rfl
  | tick => exact invP_keep h' rfl rfl rfl rfl rfl rfl (Nat.le_refl _) rfl rfl

end Hive.Timed
