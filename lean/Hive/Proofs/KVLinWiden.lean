import Hive.Proofs.KVLin
/-!
# Linearizability is monotone in the windows

A history stays linearizable when the windows of its operations are widened (invoked earlier, returned later), kinds and
answers unchanged: the same witness order works.  This is the link between the protocol model's history of a wrapped store
and what a harness records of it: the harness stamps a call through the `debug` wrapper before the access callback runs
(the model: a `callback` call of its own, then the wrapped call) and a call through `flushkv` after the trailing `Flush()`.
-/
namespace Hive.KV.Lin
open Hive.KV.Conc

theorem runSeq_congr (f g : Nat → HOp) : ∀ (w : List Nat) (st : SeqSt),
    (∀ i ∈ w, (f i).kind = (g i).kind ∧ (f i).out = (g i).out) → runSeq st (w.map f) = runSeq st (w.map g)
  | [], _, _ => rfl
  | i :: rest, st, h => by
    obtain ⟨hk, ho⟩ := h i (List.mem_cons_self ..)
    simp only [List.map_cons, runSeq, hk, ho]
    rw [runSeq_congr f g rest _ (fun j hj => h j (List.mem_cons_of_mem _ hj))]

/-- `wider a b`: `b` is the operation `a` with a window that contains `a`'s. -/
def wider (a b : HOp) : Prop := b.inv ≤ a.inv ∧ a.ret ≤ b.ret ∧ a.kind = b.kind ∧ a.out = b.out

theorem linearizable_widen (ops ops' : Array HOp) (hsize : ops.size = ops'.size)
    (hw : ∀ i, i < ops.size → wider (pick ops i) (pick ops' i)) (hl : Linearizable ops) : Linearizable ops' := by
  obtain ⟨w, hperm, hrt, hseq⟩ := hl
  have hmem : ∀ i ∈ w, i < ops.size := fun i hi => List.mem_range.mp (hperm.mem_iff.mp hi)
  refine ⟨w, hsize ▸ hperm, ?_, ?_⟩
  · rw [List.pairwise_map] at hrt ⊢
    refine hrt.imp_of_mem ?_
    intro a b ha hb hab
    obtain ⟨h1, _, _, _⟩ := hw a (hmem a ha)
    obtain ⟨_, h2, _, _⟩ := hw b (hmem b hb)
    omega
  · rw [← hseq]
    exact (runSeq_congr (pick ops) (pick ops') w seqInit (fun i hi => ⟨(hw i (hmem i hi)).2.2.1, (hw i (hmem i hi)).2.2.2⟩)).symm

end Hive.KV.Lin
