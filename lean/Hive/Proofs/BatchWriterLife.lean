import Hive.Proofs.BatchWriterPipe
/-!
# C08 proofs, part 3: life cycle (running / Once / start phases / Stop / WaitGroup) and per-thread facts

`TInv s t`: what thread `t` knows at its program point.  `LInv s`: shared-state facts about the life cycle,
in particular `fin_win`: once the writer has left its loop no producer is past a successful running check.  `CFacts s t`: consequences of the counting invariants for the stepping thread.
-/
namespace Hive.BatchWriter
open Hive.Conc Hive.Spec.BatchWriter

/-- What a thread knows at its program point (facts that other threads cannot invalidate). -/
def TInv (s : St) : Thread → Prop
  | .prod p pc cur _ =>
      ((pc ≠ .idle ∧ pc ≠ .send ∧ pc ≠ .undo ∧ pc ≠ .ret) → s.mon.mark p ≤ s.mon.wr cur) ∧
      (pc = .send → s.mon.mark p + 1 ≤ s.mon.sch cur) ∧
      ((pc = .undo ∨ pc = .ret) → s.mon.passed p = true → s.mon.mark p + 1 ≤ s.mon.sch cur) ∧
      ((pc ≠ .idle ∧ pc ≠ .cas ∧ pc ≠ .send ∧ pc ≠ .undo ∧ pc ≠ .ret) → s.mon.passed p = false) ∧
      ((pc = .inc ∨ pc = .chkRun ∨ pc = .cas ∨ pc = .send ∨ pc = .undo ∨ pc = .ret) → s.once = 3) ∧
      ((pc = .startUnlock ∨ pc = .onceEnd) → s.spawned = true)
  | .stopper id pc =>
      (pc ≠ .idle → s.mon.stopCalled = true) ∧
      (pc = .store → s.running = true ∧ s.added = true) ∧
      (pc = .wait → s.added = true) ∧
      ((pc = .unlock ∨ pc = .ret) → s.wpc = .exited ∨ ∀ o, (s.mon.snap id) o = 0)
  | _ => True

structure LInv (s : St) : Prop where
  stopped_run : s.stopped = true → s.running = false ∧ 2 ≤ s.once
  run_once : s.running = true → 2 ≤ s.once
  once_stopped : 2 ≤ s.once → s.running = false → s.stopped = true
  started_once : s.started = true → 2 ≤ s.once
  added_started : s.added = true → s.started = true
  spawned_added : s.spawned = true → s.added = true
  waited_stopped : s.waited = true → s.stopped = true
  waited_exited : s.waited = true → s.wpc = .exited
  w_spawned : s.wpc ≠ .notStarted → s.spawned = true
  w_stopped : (s.wpc = .loopCnt ∨ s.wpc = .wgDone ∨ s.wpc = .exited) → s.stopped = true
  wg : s.wg = if s.added = true ∧ s.wpc ≠ .exited then 1 else 0
  fin_win : (s.wpc = .wgDone ∨ s.wpc = .exited) → s.win = 0
  stopped_called : s.stopped = true → s.mon.stopCalled = true
  once_le : s.once ≤ 3
  run_started : s.running = true → s.started = true
  once3_spawned : s.once = 3 → s.spawned = true

/-- Facts about the stepping thread that follow from the counting invariants. -/
structure CFacts (s : St) (t : Thread) : Prop where
  pre : bodyPre t = true → s.once = 1
  post : bodyPost t = true → s.once = 2
  add : atAdd t = true → s.started = true ∧ s.added = false
  go : atGo t = true → s.added = true ∧ s.spawned = false
  wait : atWait t = true → s.stopped = true ∧ s.waited = false
  win : inWin t = true → 1 ≤ s.win

set_option hygiene false in
macro "heavyL" : tactic => `(tactic|
  ((try simp [emit, Mon.step, TInv, bodyPre, bodyPost, atAdd, atGo, atWait, inWin, *] at *) <;>
      (try split) <;> (try simp_all) <;> (try omega)))

set_option hygiene false in
theorem linv_step_prod {s s' : St} {id cur : Nat} {pc : PPc} {script : List Nat} {t' : Thread} (h : LInv s) (ht : TInv s (Thread.prod id pc cur script)) (hc : CFacts s (Thread.prod id pc cur script))
    (hexw : s.wpc = .loopCnt → s.count = 0 → s.win = 0)
    (hm : (s', t') ∈ step s (Thread.prod id pc cur script)) : LInv s' := by
  obtain ⟨h1, h2, h3, h4, h5, h6, h7, h8, h9, h10, h11, h12, h13, h14, h15, h16⟩ := h
  obtain ⟨c1, c2, c3, c4, c5, c6⟩ := hc
  cases pc <;> step_common
  all_goals (
    refine ⟨?_, ?_, ?_, ?_, ?_, ?_, ?_, ?_, ?_, ?_, ?_, ?_, ?_, ?_, ?_, ?_⟩
    · first | exact h1 | heavyL
    · first | exact h2 | heavyL
    · first | exact h3 | heavyL
    · first | exact h4 | heavyL
    · first | exact h5 | heavyL
    · first | exact h6 | heavyL
    · first | exact h7 | heavyL
    · first | exact h8 | heavyL
    · first | exact h9 | heavyL
    · first | exact h10 | heavyL
    · first | exact h11 | heavyL
    · first | exact h12 | heavyL
    · first | exact h13 | heavyL
    · first | exact h14 | heavyL
    · first | exact h15 | heavyL
    · first | exact h16 | heavyL)

set_option hygiene false in
theorem linv_step_stop {s s' : St} {id : Nat} {pc : SPc} {t' : Thread} (h : LInv s) (ht : TInv s (Thread.stopper id pc)) (hc : CFacts s (Thread.stopper id pc))
    (hexw : s.wpc = .loopCnt → s.count = 0 → s.win = 0)
    (hm : (s', t') ∈ step s (Thread.stopper id pc)) : LInv s' := by
  obtain ⟨h1, h2, h3, h4, h5, h6, h7, h8, h9, h10, h11, h12, h13, h14, h15, h16⟩ := h
  obtain ⟨c1, c2, c3, c4, c5, c6⟩ := hc
  cases pc <;> step_common
  all_goals (
    refine ⟨?_, ?_, ?_, ?_, ?_, ?_, ?_, ?_, ?_, ?_, ?_, ?_, ?_, ?_, ?_, ?_⟩
    · first | exact h1 | heavyL
    · first | exact h2 | heavyL
    · first | exact h3 | heavyL
    · first | exact h4 | heavyL
    · first | exact h5 | heavyL
    · first | exact h6 | heavyL
    · first | exact h7 | heavyL
    · first | exact h8 | heavyL
    · first | exact h9 | heavyL
    · first | exact h10 | heavyL
    · first | exact h11 | heavyL
    · first | exact h12 | heavyL
    · first | exact h13 | heavyL
    · first | exact h14 | heavyL
    · first | exact h15 | heavyL
    · first | exact h16 | heavyL)

set_option hygiene false in
theorem linv_step_flush {s s' : St} {l : Bool} {n : Nat} {t' : Thread} (h : LInv s) (ht : TInv s (Thread.flusher l n)) (hc : CFacts s (Thread.flusher l n))
    (hexw : s.wpc = .loopCnt → s.count = 0 → s.win = 0)
    (hm : (s', t') ∈ step s (Thread.flusher l n)) : LInv s' := by
  obtain ⟨h1, h2, h3, h4, h5, h6, h7, h8, h9, h10, h11, h12, h13, h14, h15, h16⟩ := h
  obtain ⟨c1, c2, c3, c4, c5, c6⟩ := hc
  step_common
  all_goals (
    refine ⟨?_, ?_, ?_, ?_, ?_, ?_, ?_, ?_, ?_, ?_, ?_, ?_, ?_, ?_, ?_, ?_⟩
    · first | exact h1 | heavyL
    · first | exact h2 | heavyL
    · first | exact h3 | heavyL
    · first | exact h4 | heavyL
    · first | exact h5 | heavyL
    · first | exact h6 | heavyL
    · first | exact h7 | heavyL
    · first | exact h8 | heavyL
    · first | exact h9 | heavyL
    · first | exact h10 | heavyL
    · first | exact h11 | heavyL
    · first | exact h12 | heavyL
    · first | exact h13 | heavyL
    · first | exact h14 | heavyL
    · first | exact h15 | heavyL
    · first | exact h16 | heavyL)

set_option hygiene false in
theorem linv_step_obs {s s' : St} {script : List Nat} {t' : Thread} (h : LInv s) (ht : TInv s (Thread.obs script)) (hc : CFacts s (Thread.obs script))
    (hexw : s.wpc = .loopCnt → s.count = 0 → s.win = 0)
    (hm : (s', t') ∈ step s (Thread.obs script)) : LInv s' := by
  obtain ⟨h1, h2, h3, h4, h5, h6, h7, h8, h9, h10, h11, h12, h13, h14, h15, h16⟩ := h
  obtain ⟨c1, c2, c3, c4, c5, c6⟩ := hc
  step_common
  all_goals (
    refine ⟨?_, ?_, ?_, ?_, ?_, ?_, ?_, ?_, ?_, ?_, ?_, ?_, ?_, ?_, ?_, ?_⟩
    · first | exact h1 | heavyL
    · first | exact h2 | heavyL
    · first | exact h3 | heavyL
    · first | exact h4 | heavyL
    · first | exact h5 | heavyL
    · first | exact h6 | heavyL
    · first | exact h7 | heavyL
    · first | exact h8 | heavyL
    · first | exact h9 | heavyL
    · first | exact h10 | heavyL
    · first | exact h11 | heavyL
    · first | exact h12 | heavyL
    · first | exact h13 | heavyL
    · first | exact h14 | heavyL
    · first | exact h15 | heavyL
    · first | exact h16 | heavyL)

set_option hygiene false in
theorem linv_step_writer {s s' : St} {t' : Thread} (h : LInv s)
    (hexw : s.wpc = .loopCnt → s.count = 0 → s.win = 0)
    (hm : (s', t') ∈ step s Thread.writer) : LInv s' := by
  obtain ⟨h1, h2, h3, h4, h5, h6, h7, h8, h9, h10, h11, h12, h13, h14, h15, h16⟩ := h
  rw [mem_step_writer] at hm
  obtain ⟨rfl, hm⟩ := hm
  simp only [stepWriter, recvStep, afterCommit] at hm
  split at hm <;> (repeat' split at hm) <;>
    simp only [List.mem_singleton, List.not_mem_nil, List.mem_nil_iff, List.mem_append, List.mem_cons,
      or_false, false_or, List.nil_append, List.append_nil] at hm <;> (try exact hm.elim) <;>
    (repeat' (first | subst hm | obtain hm | hm := hm))
  all_goals (
    refine ⟨?_, ?_, ?_, ?_, ?_, ?_, ?_, ?_, ?_, ?_, ?_, ?_, ?_, ?_, ?_, ?_⟩
    · first | exact h1 | heavyL
    · first | exact h2 | heavyL
    · first | exact h3 | heavyL
    · first | exact h4 | heavyL
    · first | exact h5 | heavyL
    · first | exact h6 | heavyL
    · first | exact h7 | heavyL
    · first | exact h8 | heavyL
    · first | exact h9 | heavyL
    · first | exact h10 | heavyL
    · first | exact h11 | heavyL
    · first | exact h12 | heavyL
    · first | exact h13 | heavyL
    · first | exact h14 | heavyL
    · first | exact h15 | heavyL
    · first | exact h16 | heavyL)

theorem linv_step {s s' : St} {t t' : Thread} (h : LInv s) (ht : TInv s t) (hc : CFacts s t)
    (hexw : s.wpc = .loopCnt → s.count = 0 → s.win = 0)
    (hm : (s', t') ∈ step s t) : LInv s' := by
  cases t with
  | prod id pc cur script => exact linv_step_prod h ht hc hexw hm
  | stopper id pc => exact linv_step_stop h ht hc hexw hm
  | flusher l n => exact linv_step_flush h ht hc hexw hm
  | writer => exact linv_step_writer h hexw hm
  | obs script => exact linv_step_obs h ht hc hexw hm

end Hive.BatchWriter
