import Hive.Model.Timed
/-!
# The heap operations of the timed queue rearrange, they do not lose or invent elements

`swap`, `up`, `down` are permutations; `push` adds exactly the new element; `pop` / `removeAt`
take out exactly one element (for `removeAt i` the one at position `i`).  The property theorems
need nothing about the *order* in which the heap yields its elements: they hold for whatever
`pop` returns.  (That `pop` yields an earliest element is the heap property of
`container/heap`, covered by the container check C12; here the order is validated by the
differential run.)
-/
namespace Hive.Timed.Heap

theorem swap_perm (h : List Elem) (i j : Nat) : (swap h i j).Perm h := by
  unfold swap
  cases hi : h[i]? with
  | none => simp
  | some a =>
    cases hj : h[j]? with
    | none => simp
    | some b =>
      simp only
      have hil : i < h.length := by
        rcases Nat.lt_or_ge i h.length with hlt | hge
        · exact hlt
        · simp [List.getElem?_eq_none hge] at hi
      have hjl : j < h.length := by
        rcases Nat.lt_or_ge j h.length with hlt | hge
        · exact hlt
        · simp [List.getElem?_eq_none hge] at hj
      have hia : h[i] = a := by
        rw [List.getElem?_eq_getElem hil] at hi; exact Option.some.inj hi
      have hjb : h[j] = b := by
        rw [List.getElem?_eq_getElem hjl] at hj; exact Option.some.inj hj
      rw [List.perm_iff_count]
      intro c
      have hjl' : j < (h.set i b).length := by simpa using hjl
      have e1 : List.count c ((h.set i b).set j a) =
          (List.count c (h.set i b) - if ((h.set i b)[j] == c) = true then 1 else 0) +
            if (a == c) = true then 1 else 0 := List.count_set hjl'
      have e2 : List.count c (h.set i b) =
          (List.count c h - if (h[i] == c) = true then 1 else 0) + if (b == c) = true then 1 else 0 :=
        List.count_set hil
      have hA : (if (h[i] == c) = true then 1 else 0) ≤ List.count c h := by
        have := List.boole_getElem_le_countP (p := fun x => x == c) hil
        simpa [List.count_eq_countP] using this
      rw [hia] at e2 hA
      by_cases hij : i = j
      · subst hij
        have hab : a = b := by rw [← hia, ← hjb]
        subst hab
        rw [List.getElem_set_self] at e1
        rw [e1, e2]
        generalize (if (a == c) = true then 1 else 0) = A at *
        omega
      · rw [List.getElem_set_ne (by omega), hjb] at e1
        rw [e1, e2]
        generalize (if (a == c) = true then 1 else 0) = A at *
        generalize (if (b == c) = true then 1 else 0) = B at *
        omega

theorem length_swap (h : List Elem) (i j : Nat) : (swap h i j).length = h.length :=
  (swap_perm h i j).length_eq

theorem up_perm (fuel : Nat) (h : List Elem) (j : Nat) : (up fuel h j).Perm h := by
  induction fuel generalizing h j with
  | zero => exact List.Perm.refl _
  | succ fuel ih =>
    simp only [up]
    split
    · exact List.Perm.refl _
    · split
      · exact (ih _ _).trans (swap_perm h _ _)
      · exact List.Perm.refl _

theorem down_perm (fuel : Nat) (h : List Elem) (i n : Nat) : (down fuel h i n).1.Perm h := by
  induction fuel generalizing h i with
  | zero => exact List.Perm.refl _
  | succ fuel ih =>
    simp only [down]
    split
    · split
      · exact (ih _ _).trans (swap_perm h _ _)
      · exact List.Perm.refl _
    · exact List.Perm.refl _

theorem push_perm (h : List Elem) (e : Elem) : (push h e).Perm (e :: h) := by
  unfold push
  exact (up_perm _ _ _).trans (List.perm_append_comm.trans (by simp))

theorem pop_none {h : List Elem} : pop h = none ↔ h = [] := by
  cases h with
  | nil => simp [pop]
  | cons e rest =>
    simp only [pop]
    cases rest.getLast? <;> simp

theorem pop_perm {h h' : List Elem} {e : Elem} (hp : pop h = some (e, h')) : h.Perm (e :: h') := by
  cases h with
  | nil => simp [pop] at hp
  | cons a rest =>
    simp only [pop] at hp
    cases hl : rest.getLast? with
    | none =>
      simp only [hl, Option.some.injEq, Prod.mk.injEq] at hp
      have : rest = [] := by simpa using hl
      obtain ⟨rfl, rfl⟩ := hp
      simp [this]
    | some last =>
      simp only [hl, Option.some.injEq, Prod.mk.injEq] at hp
      obtain ⟨rfl, rfl⟩ := hp
      have hne : rest ≠ [] := by intro h0; simp [h0] at hl
      have hlast : rest.getLast hne = last := by
        rw [List.getLast?_eq_some_getLast hne] at hl; exact Option.some.inj hl
      have hr : rest = rest.dropLast ++ [last] := by
        rw [← hlast]; exact (List.dropLast_concat_getLast hne).symm
      have hperm : (last :: rest.dropLast).Perm rest := by
        conv => rhs; rw [hr]
        exact (List.perm_append_comm (l₁ := [last]) (l₂ := rest.dropLast))
      exact List.Perm.cons _ ((down_perm _ _ _ _).trans hperm).symm

/-- Cutting the last slot off and putting its element at position `i` takes out the element at `i`. -/
theorem set_dropLast_perm {h : List Elem} {i : Nat} {e last : Elem} (hi : h[i]? = some e)
    (hl : h.getLast? = some last) (hne : i ≠ h.length - 1) :
    h.Perm (e :: h.dropLast.set i last) := by
  have hil : i < h.length := by
    rcases Nat.lt_or_ge i h.length with hlt | hge
    · exact hlt
    · simp [List.getElem?_eq_none hge] at hi
  have hnn : h ≠ [] := by intro h0; simp [h0] at hil
  have hlast : h.getLast hnn = last := by
    rw [List.getLast?_eq_some_getLast hnn] at hl; exact Option.some.inj hl
  have hr : h = h.dropLast ++ [last] := by
    rw [← hlast]; exact (List.dropLast_concat_getLast hnn).symm
  have hid : i < h.dropLast.length := by simp; omega
  have hget : h.dropLast[i] = e := by
    rw [List.getElem_dropLast]
    rw [List.getElem?_eq_getElem hil] at hi; exact Option.some.inj hi
  -- h ~ last :: dropLast ~ last :: (e :: erase) ; set i last of dropLast ~ last :: erase
  rw [List.perm_iff_count]
  intro c
  have h1 : List.count c h = List.count c h.dropLast + (if (last == c) = true then 1 else 0) := by
    have : List.count c (h.dropLast ++ [last]) =
        List.count c h.dropLast + (if (last == c) = true then 1 else 0) := by
      rw [List.count_append, List.count_cons, List.count_nil]; simp
    rw [← hr] at this
    exact this
  have e2 : List.count c (h.dropLast.set i last) =
      (List.count c h.dropLast - if (h.dropLast[i] == c) = true then 1 else 0) +
        if (last == c) = true then 1 else 0 := List.count_set hid
  have hb : (if (h.dropLast[i] == c) = true then 1 else 0) ≤ List.count c h.dropLast := by
    have := List.boole_getElem_le_countP (p := fun x => x == c) hid
    simpa [List.count_eq_countP] using this
  rw [hget] at e2 hb
  rw [List.count_cons, h1, e2]
  generalize (if (e == c) = true then 1 else 0) = A at *
  generalize (if (last == c) = true then 1 else 0) = B at *
  omega

theorem removeAt_perm {h h' : List Elem} {i : Nat} {e : Elem} (hr : removeAt h i = some (e, h')) :
    h[i]? = some e ∧ h.Perm (e :: h') := by
  unfold removeAt at hr
  cases hi : h[i]? with
  | none => simp [hi] at hr
  | some a =>
    cases hl : h.getLast? with
    | none => simp [hi, hl] at hr
    | some last =>
      simp only [hi, hl] at hr
      have hil : i < h.length := by
        rcases Nat.lt_or_ge i h.length with hlt | hge
        · exact hlt
        · simp [List.getElem?_eq_none hge] at hi
      have hnn : h ≠ [] := by intro h0; simp [h0] at hil
      by_cases hlast : i = h.length - 1
      · simp only [hlast, if_true, Option.some.injEq, Prod.mk.injEq] at hr
        obtain ⟨rfl, rfl⟩ := hr
        refine ⟨rfl, ?_⟩
        have hlst : h.getLast hnn = a := by
          rw [List.getLast_eq_getElem]
          have : h[h.length - 1]? = some a := by rw [← hlast]; exact hi
          rw [List.getElem?_eq_getElem (by omega)] at this
          exact Option.some.inj this
        have : h = h.dropLast ++ [a] := by
          rw [← hlst]; exact (List.dropLast_concat_getLast hnn).symm
        conv => lhs; rw [this]
        exact List.perm_append_comm
      · simp only [hlast, if_false, Option.some.injEq, Prod.mk.injEq] at hr
        obtain ⟨rfl, rfl⟩ := hr
        refine ⟨rfl, ?_⟩
        have hbase := set_dropLast_perm hi hl hlast
        refine hbase.trans (List.Perm.cons _ ?_)
        split
        · exact (down_perm _ _ _ _).symm
        · exact ((up_perm _ _ _).trans (down_perm _ _ _ _)).symm

theorem removeAt_isSome {h : List Elem} {i : Nat} (hi : i < h.length) : (removeAt h i).isSome = true := by
  unfold removeAt
  have hnn : h ≠ [] := by intro h0; simp [h0] at hi
  rw [List.getElem?_eq_getElem hi, List.getLast?_eq_some_getLast hnn]
  simp only
  split <;> simp

theorem length_push (h : List Elem) (e : Elem) : (push h e).length = h.length + 1 := by
  rw [(push_perm h e).length_eq]; simp

theorem indexOf_some {h : List Elem} {x i : Nat} (hx : indexOf h x = some i) :
    ∃ e, h[i]? = some e ∧ e.serial = x := by
  unfold indexOf at hx
  have hlt := List.findIdx?_eq_some_iff_getElem.mp hx
  obtain ⟨hl, hp, _⟩ := hlt
  exact ⟨h[i], by simp [hl], by simpa using hp⟩

theorem indexOf_none {h : List Elem} {x : Nat} (hx : indexOf h x = none) : ∀ e ∈ h, e.serial ≠ x := by
  unfold indexOf at hx
  intro e he
  have := List.findIdx?_eq_none_iff.mp hx e he
  simpa using this

end Hive.Timed.Heap
