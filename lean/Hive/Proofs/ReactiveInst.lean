import Hive.Proofs.Reactive
/-!
# Instance lemmas: what the notes of a Variable / Set history look like

Sequential facts about `varObj.upd`, `applyMut`, `replaceMut` (the diff semantics tied to the real
code by the differential run) and their lifting along a linked history.
-/
namespace Hive.Reactive

/-! ## Variable -/
section Var
variable {V : Type} [DecidableEq V]

theorem var_entry {zero init : V} {e : Entry V (V × V)}
    (h : ∃ w, (varObj V zero init).upd e.before w = .change e.after e.note) :
    e.note = (e.before, e.after) ∧ e.before ≠ e.after := by
  obtain ⟨f, hf⟩ := h
  simp only [varObj] at hf
  split at hf
  · cases hf
  · next hne =>
    injection hf with h1 h2
    refine ⟨by rw [← h2, ← h1], ?_⟩
    rw [← h1]; exact fun h => hne h.symm

theorem chain_take {a b : V} {l : List (Entry V (V × V))} (hl : linked a l b)
    (hn : ∀ e ∈ l, e.note = (e.before, e.after)) (d : Nat) :
    chainFrom a ((l.take d).map (·.note)) = true := by
  induction l generalizing a d with
  | nil => simp [chainFrom]
  | cons e r ih =>
    cases d with
    | zero => simp [chainFrom]
    | succ d =>
      have he := hn e (by simp)
      simp only [List.take_succ_cons, List.map_cons, he, chainFrom, hl.1, decide_true, Bool.true_and]
      exact ih hl.2 (fun x hx => hn x (List.mem_cons_of_mem _ hx)) d

theorem lastNew_append_one (z : V) (pre : List (V × V)) (p : V × V) : lastNew z (pre ++ [p]) = p.2 := by
  simp [lastNew]

theorem lastNew_linked {a b : V} {l : List (Entry V (V × V))} (hl : linked a l b)
    (hn : ∀ e ∈ l, e.note = (e.before, e.after)) (z : V) (pre : List (V × V)) :
    lastNew z (pre ++ l.map (·.note)) = if l = [] then lastNew z pre else b := by
  induction l generalizing a pre with
  | nil => simp
  | cons e r ih =>
    have he := hn e (by simp)
    have := ih hl.2 (fun x hx => hn x (List.mem_cons_of_mem _ hx)) (pre ++ [e.note])
    simp only [List.map_cons, List.append_assoc, List.singleton_append] at this ⊢
    rw [this, lastNew_append_one, he]
    simp only [reduceCtorEq, if_false]
    split
    · next hr => subst hr; exact hl.2
    · rfl

end Var

/-! ## Set -/

theorem mem_foldStep (t : List Nat) (m : Mut) (x : Nat) : x ∈ foldStep t m ↔ (x ∈ t ∨ x ∈ m.1) ∧ x ∉ m.2 := by
  simp only [foldStep, List.mem_filter, List.mem_append, List.contains_eq_mem, Bool.not_eq_true',
    decide_eq_false_iff_not]

/-- **Apply reports the true difference**: folding the applied mutation into the previous contents
gives the new contents. -/
theorem applyMut_fold (s : List Nat) (m : Mut) (x : Nat) :
    x ∈ (applyMut s m).1 ↔ x ∈ foldStep s (applyMut s m).2 := by
  simp only [applyMut, mem_foldStep, List.mem_filter, List.mem_append, List.contains_eq_mem,
    Bool.not_eq_true', decide_eq_false_iff_not, decide_eq_true_eq]

/-- **Replace (repaired) reports the true difference.** -/
theorem replaceMut_fold (s els : List Nat) (x : Nat) :
    x ∈ (replaceMut s els).1 ↔ x ∈ foldStep s (replaceMut s els).2 := by
  simp only [replaceMut, mem_foldStep, List.mem_filter, List.contains_eq_mem, Bool.not_eq_true',
    decide_eq_false_iff_not]
  constructor
  · intro h
    by_cases hs : x ∈ s
    · exact ⟨Or.inl hs, fun hh => hh.2 h⟩
    · exact ⟨Or.inr ⟨h, hs⟩, fun hh => hs hh.1⟩
  · rintro ⟨h1, h2⟩
    rcases h1 with h | h
    · exact Classical.byContradiction fun hn => h2 ⟨h, hn⟩
    · exact h.1

/-- The unrepaired `Replace` did not: retained elements are lost by the fold. -/
theorem replaceMutOld_witness :
    (replaceMutOld [1, 2] [2, 3]).1 = [2, 3] ∧ foldStep [1, 2] (replaceMutOld [1, 2] [2, 3]).2 = [3] := by
  decide

/-- Why `replace` snapshots its argument: with the live argument read three times, `s.Replace(s)` on
`{1,2}` (reads: `{1,2}`, `{1,2}`, then `∅` because `value.Replace` has cleared the set) empties the
set while reporting no change. -/
theorem replaceMutLive_self_witness :
    replaceMutLive [1, 2] [1, 2] [1, 2] [] = ([], ([], [])) ∧ foldStep [1, 2] (replaceMutLive [1, 2] [1, 2] [1, 2] []).2 = [1, 2] := by
  decide

/-- With one consistent snapshot the three reads agree and `replaceMutLive` is `replaceMut`. -/
theorem replaceMutLive_snapshot (s els : List Nat) : replaceMutLive s els els els = replaceMut s els := rfl

theorem set_entry {init : List Nat} {e : Entry (List Nat) Mut}
    (h : ∃ w, (setObj init).upd e.before w = .change e.after e.note) :
    ∀ x, x ∈ e.after ↔ x ∈ foldStep e.before e.note := by
  obtain ⟨w, hw⟩ := h
  intro x
  cases w with
  | apply m =>
    simp only [setObj, setUpd] at hw
    split at hw
    · cases hw
    · split at hw
      · cases hw
      · injection hw with h1 h2
        rw [← h1, ← h2]; exact applyMut_fold _ _ x
  | compute g =>
    simp only [setObj, setUpd] at hw
    injection hw with h1 h2
    rw [← h1, ← h2]; exact applyMut_fold _ _ x
  | replace els =>
    simp only [setObj, setUpd] at hw
    injection hw with h1 h2
    rw [← h1, ← h2]; exact replaceMut_fold _ _ x
  | replaceView g =>
    simp only [setObj, setUpd] at hw
    injection hw with h1 h2
    rw [← h1, ← h2]; exact replaceMut_fold _ _ x

theorem fold_linked {a b : List Nat} {l : List (Entry (List Nat) Mut)} (hl : linked a l b)
    (hn : ∀ e ∈ l, ∀ x, x ∈ e.after ↔ x ∈ foldStep e.before e.note) (T : List Nat)
    (hT : ∀ x, x ∈ T ↔ x ∈ a) : ∀ x, x ∈ (l.map (·.note)).foldl foldStep T ↔ x ∈ b := by
  induction l generalizing a T with
  | nil => simp only [linked] at hl; subst hl; simpa using hT
  | cons e r ih =>
    simp only [List.map_cons, List.foldl_cons]
    apply ih hl.2 (fun y hy => hn y (List.mem_cons_of_mem _ hy))
    intro x
    rw [hn e (by simp) x, mem_foldStep, mem_foldStep, hT x, hl.1]

theorem sameSet_iff (a b : List Nat) : sameSet a b = true ↔ ∀ x, x ∈ a ↔ x ∈ b := by
  simp only [sameSet, Bool.and_eq_true, List.all_eq_true, List.contains_eq_mem, decide_eq_true_eq]
  constructor
  · rintro ⟨h1, h2⟩ x; exact ⟨h1 x, h2 x⟩
  · intro h; exact ⟨fun x hx => (h x).1 hx, fun x hx => (h x).2 hx⟩

end Hive.Reactive
