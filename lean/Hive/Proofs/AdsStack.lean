import Hive.Proofs.AdsId
import Hive.Proofs.AdsTyped
/-!
# The whole stack (C09): typed calls, through the root cell with its serializers, on the sequential model

A typed history is encoded (`encOp`), run on the instance with its root cell (`irunG … id`: `Commit`s whose identifier
encoder fails are no-ops), and read back (`tstep` on the sequential component).  For serializers that round-trip — all
three pairs, whatever their stored forms — the answers are those of the plain typed map.
-/
namespace Hive.Ads

variable {K V R B : Type}

/-- Removing failed `Commit`s does not change the plain map of a history. -/
theorem spec_dropFailed (c : Cfg R) (ic : IdCodec R B) (same : R → R → Bool) (ops : List Op) :
    ∀ (st : ISt R B) (m : Spec.SMap),
      (dropFailed c ic same st ops).foldl Spec.apply m = ops.foldl Spec.apply m := by
  induction ops with
  | nil => intro st m; rfl
  | cons op ops ih =>
    intro st m
    cases op with
    | commit =>
      simp only [dropFailed]
      split
      · simp only [List.foldl_cons]; exact ih _ _
      · simp only [List.foldl_cons, Spec.apply]; exact ih _ _
    | set k v => simp only [dropFailed, List.foldl_cons]; exact ih _ _
    | get k => simp only [dropFailed, List.foldl_cons]; exact ih _ _
    | has k => simp only [dropFailed, List.foldl_cons]; exact ih _ _
    | del k => simp only [dropFailed, List.foldl_cons]; exact ih _ _
    | size => simp only [dropFailed, List.foldl_cons]; exact ih _ _
    | stream n => simp only [dropFailed, List.foldl_cons]; exact ih _ _
    | root => simp only [dropFailed, List.foldl_cons]; exact ih _ _
    | restored => simp only [dropFailed, List.foldl_cons]; exact ih _ _
    | reopen => simp only [dropFailed, List.foldl_cons]; exact ih _ _

/-- The state of the instance after a typed history run through the root-cell layer. -/
def sfinal (c : Cfg R) (ic : IdCodec R B) (same : R → R → Bool) (cd : KVCodec K V) (ops : List (TyOp K V)) : ISt R B :=
  (irunG { c with dec := cd.dec } ic same id ISt.init (ops.map (encOp cd))).1

theorem stack_refines [DecidableEq K] (c : Cfg R) (ic : IdCodec R B) (same : R → R → Bool) (cd : KVCodec K V)
    (hid : RoundTrip ic) (hs : LawfulSame same) (hk : KeyRT cd) (hv : ValRT cd) (ops : List (TyOp K V))
    (hc : CleanFrom { c with dec := cd.dec } init
      (dropFailed { c with dec := cd.dec } ic same ISt.init (ops.map (encOp cd))))
    (k : K) (kb : Key) (hkb : cd.kenc k = some kb) :
    let st := sfinal c ic same cd ops
    IdInv ic st ∧
    (tstep c cd st.s (.get k)).2 = (match tspec cd ops k with | none => .out .notfound | some v => .found v) ∧
    (tstep c cd st.s (.has k)).2 = .out (.bool (tspec cd ops k).isSome) ∧
    (tstep c cd st.s (.del k)).2 = .out (.deleted (tspec cd ops k).isSome) := by
  intro st
  obtain ⟨hinv, hst⟩ := irun_sim { c with dec := cd.dec } ic same hid hs (ops.map (encOp cd)) ISt.init (idInv_init ic)
  have hget : ∀ kb', st.s.trie.get kb' = Spec.final (ops.map (encOp cd)) kb' := by
    intro kb'
    have h1 : st.s = final { c with dec := cd.dec } init
        (dropFailed { c with dec := cd.dec } ic same ISt.init (ops.map (encOp cd))) := hst
    rw [h1]
    have h2 : (final { c with dec := cd.dec } init
        (dropFailed { c with dec := cd.dec } ic same ISt.init (ops.map (encOp cd)))).trie.get kb'
        = Spec.final (dropFailed { c with dec := cd.dec } ic same ISt.init (ops.map (encOp cd))) kb' :=
      congrFun (final_abs_init _ _ hc) kb'
    rw [h2]
    exact congrFun (spec_dropFailed { c with dec := cd.dec } ic same (ops.map (encOp cd)) ISt.init Spec.empty) kb'
  exact ⟨hinv, typed_refines_at c cd hk hv ops st.s hget k kb hkb⟩

end Hive.Ads
