import Hive.Model.SyncMutexWait
/-! Invariants of the Counter/Stack wait monitor: a parked waiter whose condition is met always has a
broadcast on its way. -/
namespace Hive.SyncMutex.Wait
open Hive.Conc

theorem sumL_mid {α : Type} (f : α → Nat) (pre post : List α) (v : α) :
    sumL f (pre ++ v :: post) = sumL f pre + f v + sumL f post := by
  simp [sumL, List.map_append, List.sum_append]; omega

theorem sumL_ge {α : Type} {f : α → Nat} {vs : List α} {v : α} (h : v ∈ vs) : f v ≤ sumL f vs := by
  induction vs with
  | nil => simp at h
  | cons a l ih =>
    simp only [sumL, List.map_cons, List.sum_cons]
    rcases List.mem_cons.mp h with rfl | h'
    · omega
    · have := ih h'; simp only [sumL] at this; omega

theorem sumL_zero {α : Type} {f : α → Nat} {vs : List α} (h : ∀ v ∈ vs, f v = 0) : sumL f vs = 0 := by
  induction vs with
  | nil => rfl
  | cons a l ih =>
    simp only [sumL, List.map_cons, List.sum_cons]
    have h1 := h a (by simp)
    have h2 : sumL f l = 0 := ih (fun v hv => h v (by simp [hv]))
    simp only [sumL] at h2
    omega

/-- What the program point of a waiter says.  `nI`/`nD` = number of goroutines that have released the
lock and still owe their `Broadcast` on the increased/decreased condition. -/
def tinv (s : Mon) (nI nD : Nat) (t : WTh) : Prop :=
  match t.pc with
  | .critW => s.value ≤ 0
  | .parkI op g => g ≤ s.genI ∧ (op = .popOrWait ∨ ∃ thr, op = .waitAbove thr) ∧
      (g = s.genI → mustWait op s.value ∨ 0 < nI)
  | .parkD op g => g ≤ s.genD ∧ (∃ thr, op = .waitBelow thr) ∧
      (g = s.genD → mustWait op s.value ∨ 0 < nD)
  | _ => True

structure Inv (s : Mon) (ts : List WTh) : Prop where
  hm : (if s.m then 1 else 0) = sumL fCrit ts
  loc : ∀ t ∈ ts, tinv s (sumL fBcI ts) (sumL fBcD ts) t

/-- What one step does to the quantities the parked waiters depend on. -/
structure Mono (s : Mon) (t : WTh) (s' : Mon) (t' : WTh) : Prop where
  gI : s.genI ≤ s'.genI
  gD : s.genD ≤ s'.genD
  bI : s'.genI = s.genI → (s'.value ≤ s.value ∧ fBcI t ≤ fBcI t') ∨ 0 < fBcI t'
  bD : s'.genD = s.genD → (s.value ≤ s'.value ∧ fBcD t ≤ fBcD t') ∨ 0 < fBcD t'
  cr : s'.value = s.value ∨ fCrit t = 1
  self : ∀ nI nD, tinv s (nI + fBcI t) (nD + fBcD t) t → tinv s' (nI + fBcI t') (nD + fBcD t') t'
  hm : ∀ k : Nat, (if s.m then 1 else 0) = k + fCrit t → (if s'.m then 1 else 0) = k + fCrit t'

theorem step_mono {s : Mon} {t : WTh} {s' : Mon} {t' : WTh} (h : (s', t') ∈ step s t) : Mono s t s' t' := by
  obtain ⟨pc, script, res, cb⟩ := t
  obtain ⟨m, value, genI, genD⟩ := s
  cases pc with
  | idle =>
    cases script with
    | nil => simp [step] at h
    | cons op rest =>
      cases op <;> simp [step] at h <;> obtain ⟨rfl, rfl⟩ := h <;>
        constructor <;> simp [fBcI, fBcD, fCrit, tinv]
  | acq op =>
    cases m <;> simp [step] at h
    obtain ⟨rfl, rfl⟩ := h
    constructor <;> simp [fBcI, fBcD, fCrit, tinv]
  | crit op =>
    cases op with
    | add d =>
      simp [step, critStep] at h
      obtain ⟨rfl, rfl⟩ := h
      by_cases h1 : 1 ≤ d
      · constructor <;> simp [fBcI, fBcD, fCrit, tinv, h1]
        · omega
        · intro k hk; cases m <;> simp at hk ⊢ <;> omega
      · by_cases h2 : d ≤ -1
        · constructor <;> simp [fBcI, fBcD, fCrit, tinv, h1, h2]
          · omega
          · intro k hk; cases m <;> simp at hk ⊢ <;> omega
        · have : d = 0 := by omega
          subst this
          constructor <;> simp [fBcI, fBcD, fCrit, tinv]
          · intro k hk; cases m <;> simp at hk ⊢ <;> omega
    | set v =>
      simp [step, critStep] at h
      obtain ⟨rfl, rfl⟩ := h
      by_cases h1 : value < v
      · constructor <;> simp [fBcI, fBcD, fCrit, tinv, h1]
        · omega
        · intro k hk; cases m <;> simp at hk ⊢ <;> omega
      · by_cases h2 : v < value
        · constructor <;> simp [fBcI, fBcD, fCrit, tinv, h1, h2]
          · omega
          · intro k hk; cases m <;> simp at hk ⊢ <;> omega
        · have : v = value := by omega
          subst this
          constructor <;> simp [fBcI, fBcD, fCrit, tinv]
          · intro k hk; cases m <;> simp at hk ⊢ <;> omega
    | tryPop =>
      simp [step, critStep] at h
      split at h <;> simp at h <;> obtain ⟨rfl, rfl⟩ := h <;>
        constructor <;> simp [fBcI, fBcD, fCrit, tinv] <;>
        first | omega | (intro k hk; cases m <;> simp at hk ⊢ <;> omega)
    | waitBelow thr =>
      simp [step, critStep] at h
      split at h <;> simp at h <;> obtain ⟨rfl, rfl⟩ := h <;>
        constructor <;> simp [fBcI, fBcD, fCrit, tinv, mustWait] <;>
        first | (intros; left; assumption) | (intro k hk; cases m <;> simp at hk ⊢ <;> omega)
    | waitAbove thr =>
      simp [step, critStep] at h
      split at h <;> simp at h <;> obtain ⟨rfl, rfl⟩ := h <;>
        constructor <;> simp [fBcI, fBcD, fCrit, tinv, mustWait] <;>
        first | (intros; left; assumption) | (intro k hk; cases m <;> simp at hk ⊢ <;> omega)
    | popOrWait =>
      simp [step, critStep] at h
      split at h
      · simp at h
        rcases h with ⟨rfl, rfl⟩ | ⟨rfl, rfl⟩ <;>
          constructor <;> simp [fBcI, fBcD, fCrit, tinv] <;>
          first | assumption | (intro k hk; cases m <;> simp at hk ⊢ <;> omega)
      · simp at h
        obtain ⟨rfl, rfl⟩ := h
        constructor <;> simp [fBcI, fBcD, fCrit, tinv] <;>
          first | omega | (intro k hk; cases m <;> simp at hk ⊢ <;> omega)
    | shutdown =>
      simp [step, critStep] at h
      obtain ⟨rfl, rfl⟩ := h
      constructor <;> simp [fBcI, fBcD, fCrit, tinv]
      · intro k hk; cases m <;> simp at hk ⊢ <;> omega
  | critW =>
    simp [step] at h
    obtain ⟨rfl, rfl⟩ := h
    constructor <;> simp [fBcI, fBcD, fCrit, tinv, mustWait]
    · intros; left; assumption
    · intro k hk; cases m <;> simp at hk ⊢ <;> omega
  | parkI op g =>
    simp [step] at h
    obtain ⟨_, rfl, rfl⟩ := h
    constructor <;> simp [fBcI, fBcD, fCrit, tinv]
  | parkD op g =>
    simp [step] at h
    obtain ⟨_, rfl, rfl⟩ := h
    constructor <;> simp [fBcI, fBcD, fCrit, tinv]
  | bcI =>
    simp [step] at h
    obtain ⟨rfl, rfl⟩ := h
    constructor <;> simp [fBcI, fBcD, fCrit, tinv]
  | bcD =>
    simp [step] at h
    obtain ⟨rfl, rfl⟩ := h
    constructor <;> simp [fBcI, fBcD, fCrit, tinv]

theorem mustWait_mono {op : WOp} {v v' : Int} (h : mustWait op v) :
    ((op = .popOrWait ∨ ∃ thr, op = .waitAbove thr) → v' ≤ v → mustWait op v') ∧
    ((∃ thr, op = .waitBelow thr) → v ≤ v' → mustWait op v') := by
  cases op <;> simp [mustWait] at h ⊢ <;> omega

theorem tinv_other {s s' : Mon} {t t' u : WTh} {A B : Nat} (hmono : Mono s t s' t')
    (hu : tinv s (A + fBcI t) (B + fBcD t) u) (hcr : fCrit u = 0 ∨ s'.value = s.value) :
    tinv s' (A + fBcI t') (B + fBcD t') u := by
  obtain ⟨pc, script, res, cb⟩ := u
  cases pc with
  | critW =>
    simp only [tinv] at hu ⊢
    rcases hcr with h | h
    · simp [fCrit] at h
    · omega
  | parkI op g =>
    simp only [tinv] at hu ⊢
    obtain ⟨h1, h2, h3⟩ := hu
    refine ⟨Nat.le_trans h1 hmono.gI, h2, ?_⟩
    intro hg
    have hgen : s'.genI = s.genI := by have := hmono.gI; omega
    rcases hmono.bI hgen with ⟨hv, hb⟩ | hb
    · rcases h3 (by omega) with hw | hn
      · exact Or.inl ((mustWait_mono hw).1 h2 hv)
      · right; omega
    · right; omega
  | parkD op g =>
    simp only [tinv] at hu ⊢
    obtain ⟨h1, h2, h3⟩ := hu
    refine ⟨Nat.le_trans h1 hmono.gD, h2, ?_⟩
    intro hg
    have hgen : s'.genD = s.genD := by have := hmono.gD; omega
    rcases hmono.bD hgen with ⟨hv, hb⟩ | hb
    · rcases h3 (by omega) with hw | hn
      · exact Or.inl ((mustWait_mono hw).2 h2 hv)
      · right; omega
    · right; omega
  | idle => trivial
  | acq _ => trivial
  | crit _ => trivial
  | bcI => trivial
  | bcD => trivial

theorem inv_step {a b : Cfg Mon WTh} (h : Inv a.1 a.2) (hs : Step sys a b) : Inv b.1 b.2 := by
  cases hs with
  | mk s pre t post s' t' hmem =>
    have hmono := step_mono hmem
    obtain ⟨hm, hloc⟩ := h
    simp only [sumL_mid] at hm hloc ⊢
    have hm' := hmono.hm (sumL fCrit pre + sumL fCrit post) (by omega)
    have hothers : ∀ u, (u ∈ pre ∨ u ∈ post) →
        tinv s' (sumL fBcI pre + fBcI t' + sumL fBcI post) (sumL fBcD pre + fBcD t' + sumL fBcD post) u := by
      intro u hu
      have h0 := hloc u (by simp only [List.mem_append, List.mem_cons]; rcases hu with h | h; exact Or.inl h; exact Or.inr (Or.inr h))
      have hcr : fCrit u = 0 ∨ s'.value = s.value := by
        rcases hmono.cr with hv | hc
        · exact Or.inr hv
        · left
          have : fCrit u ≤ sumL fCrit pre + sumL fCrit post := by
            rcases hu with hu | hu
            · have := sumL_ge (f := fCrit) hu; omega
            · have := sumL_ge (f := fCrit) hu; omega
          cases hmm : s.m <;> simp [hmm] at hm <;> omega
      have := tinv_other (A := sumL fBcI pre + sumL fBcI post) (B := sumL fBcD pre + sumL fBcD post) hmono
        (by rw [show sumL fBcI pre + sumL fBcI post + fBcI t = sumL fBcI pre + fBcI t + sumL fBcI post by omega,
                show sumL fBcD pre + sumL fBcD post + fBcD t = sumL fBcD pre + fBcD t + sumL fBcD post by omega]
            exact h0) hcr
      rw [show sumL fBcI pre + fBcI t' + sumL fBcI post = sumL fBcI pre + sumL fBcI post + fBcI t' by omega,
          show sumL fBcD pre + fBcD t' + sumL fBcD post = sumL fBcD pre + sumL fBcD post + fBcD t' by omega]
      exact this
    refine ⟨by simp only [sumL_mid]; omega, ?_⟩
    intro u hu
    simp only [sumL_mid]
    simp only [List.mem_append, List.mem_cons] at hu
    rcases hu with hu | rfl | hu
    · exact hothers u (Or.inl hu)
    · have h0 := hloc t (by simp)
      have := hmono.self (sumL fBcI pre + sumL fBcI post) (sumL fBcD pre + sumL fBcD post)
        (by rw [show sumL fBcI pre + sumL fBcI post + fBcI t = sumL fBcI pre + fBcI t + sumL fBcI post by omega,
                show sumL fBcD pre + sumL fBcD post + fBcD t = sumL fBcD pre + fBcD t + sumL fBcD post by omega]
            exact h0)
      rw [show sumL fBcI pre + fBcI u + sumL fBcI post = sumL fBcI pre + sumL fBcI post + fBcI u by omega,
          show sumL fBcD pre + fBcD u + sumL fBcD post = sumL fBcD pre + sumL fBcD post + fBcD u by omega]
      exact this
    · exact hothers u (Or.inr hu)

theorem inv_init (v : Int) (scripts : List (List WOp)) : Inv (initCfg v scripts).1 (initCfg v scripts).2 := by
  have hidle : ∀ t ∈ (initCfg v scripts).2, t.pc = .idle := by
    intro t ht
    simp only [initCfg, List.mem_map] at ht
    obtain ⟨sc, _, rfl⟩ := ht
    rfl
  constructor
  · rw [sumL_zero]; · rfl
    intro t ht; simp [fCrit, hidle t ht]
  · intro t ht; simp [tinv, hidle t ht]

theorem inv_reach {v : Int} {scripts : List (List WOp)} {c : Cfg Mon WTh}
    (hr : Reach sys (initCfg v scripts) c) : Inv c.1 c.2 :=
  inv_induction (fun c => Inv c.1 c.2) (inv_init v scripts) (fun _ _ h hs => inv_step h hs) hr

/-! ## Quiescence: who is still waiting has a reason to -/

theorem stuck_flags {s : Mon} {t : WTh} (h : step s t = []) : fCrit t = 0 ∧ fBcI t = 0 ∧ fBcD t = 0 := by
  obtain ⟨pc, script, res, cb⟩ := t
  cases pc <;> simp [fCrit, fBcI, fBcD] <;> simp [step] at h
  case crit op =>
    cases op <;> simp [critStep] at h <;> (try split at h) <;> simp at h

theorem stuck_shape {s : Mon} {t : WTh} (h : step s t = []) (hm : s.m = false) :
    t.done ∨ (∃ op g, t.pc = .parkI op g ∧ s.genI ≤ g) ∨ (∃ op g, t.pc = .parkD op g ∧ s.genD ≤ g) := by
  have hf := stuck_flags h
  obtain ⟨pc, script, res, cb⟩ := t
  cases pc <;> simp [fCrit, fBcI, fBcD, WTh.done] at hf ⊢
  case idle =>
    cases script with
    | nil => rfl
    | cons op rest => cases op <;> simp [step] at h
  case acq op => simp [step, hm] at h
  case parkI op g => simp [step] at h; exact ⟨op, g, ⟨rfl, rfl⟩, h⟩
  case parkD op g => simp [step] at h; exact ⟨op, g, ⟨rfl, rfl⟩, h⟩

theorem stuck_waiters {s : Mon} {ts : List WTh} (h : Inv s ts) (hst : Stuck sys (s, ts)) :
    ∀ t ∈ ts, t.done ∨ ∃ op g, (t.pc = .parkI op g ∨ t.pc = .parkD op g) ∧ mustWait op s.value := by
  obtain ⟨hm, hloc⟩ := h
  have hstk : ∀ t ∈ ts, step s t = [] := fun t ht => hst t ht
  have z1 : sumL fCrit ts = 0 := sumL_zero (fun t ht => (stuck_flags (hstk t ht)).1)
  have z2 : sumL fBcI ts = 0 := sumL_zero (fun t ht => (stuck_flags (hstk t ht)).2.1)
  have z3 : sumL fBcD ts = 0 := sumL_zero (fun t ht => (stuck_flags (hstk t ht)).2.2)
  have hm0 : s.m = false := by
    rw [z1] at hm; cases hmm : s.m <;> simp [hmm] at hm ⊢
  intro t ht
  have hl := hloc t ht
  rw [z2, z3] at hl
  rcases stuck_shape (hstk t ht) hm0 with hd | ⟨op, g, hp, hg⟩ | ⟨op, g, hp, hg⟩
  · exact Or.inl hd
  · right
    simp only [tinv, hp] at hl
    obtain ⟨h1, _, h3⟩ := hl
    rcases h3 (by omega) with hw | hn
    · exact ⟨op, g, Or.inl hp, hw⟩
    · omega
  · right
    simp only [tinv, hp] at hl
    obtain ⟨h1, _, h3⟩ := hl
    rcases h3 (by omega) with hw | hn
    · exact ⟨op, g, Or.inr hp, hw⟩
    · omega

theorem fBcI_pos {t : WTh} (h : 0 < fBcI t) : t.pc = .bcI := by
  obtain ⟨pc, script, res, cb⟩ := t; cases pc <;> simp [fBcI] at h ⊢

theorem fBcD_pos {t : WTh} (h : 0 < fBcD t) : t.pc = .bcD := by
  obtain ⟨pc, script, res, cb⟩ := t; cases pc <;> simp [fBcD] at h ⊢

end Hive.SyncMutex.Wait
