import Hive.Model.WorkerPoolGroupSd
import Hive.Proofs.WorkerPoolGroup
/-!
# C16 — the group counter tree during and after `Group.Shutdown`: the counter invariant does not depend on the flags
-/
set_option linter.unusedSimpArgs false
set_option linter.unusedVariables false
namespace Hive.WPG

theorem shutdownAll_tree (s : GS) (g : Nat) : (shutdownAll s g).tree = s.tree := by
  unfold shutdownAll
  split <;> rfl

theorem inv_stepS (s : GS) (op : SOp) (h : Inv s.tree) (hok : op.ok s = true) : Inv (stepS s op).tree := by
  cases op with
  | base o =>
    have hok' : o.ok s.tree = true := hok
    cases o with
    | inc q =>
      simp only [stepS]
      split
      · exact h
      · exact inv_step s.tree _ h hok'
    | dec q => exact inv_step s.tree _ h hok'
    | newGroup p => exact inv_step s.tree _ h hok'
    | newPool g => exact inv_step s.tree _ h hok'
  | flag g => exact h
  | stop q => exact h
  | shutdown g => simp only [stepS, shutdownAll_tree]; exact h
  | restart q => exact h

theorem inv_runS (s : GS) (ops : List SOp) (h : Inv s.tree) : Inv (runS s ops).tree := by
  induction ops generalizing s with
  | nil => exact h
  | cons op ops ih =>
    simp only [runS]
    split
    · rename_i hok; exact ih _ (inv_stepS s op h hok)
    · exact ih _ h

/-! ## flags are never reset -/

theorem getD_set_true (l : List Bool) (i j : Nat) (h : (l[j]?).getD false = true) :
    ((l.set i true)[j]?).getD false = true := by
  by_cases e : i = j
  · subst e
    rcases Nat.lt_or_ge i l.length with hl | hl
    · simp [List.getElem?_set, hl]
    · simp [List.getElem?_eq_none hl] at h
  · simp [List.getElem?_set, e, h]

theorem sdVisit_mono (t : Tree) (st : List Nat × List Bool) (i j : Nat) (h : (st.2[j]?).getD false = true) :
    (((sdVisit t st i).2)[j]?).getD false = true := by
  unfold sdVisit
  split
  · exact h
  · split
    · exact h
    · split
      · split
        · exact getD_set_true _ _ _ h
        · split
          · exact h
          · exact getD_set_true _ _ _ h
      · exact h

theorem foldl_sdVisit_mono (t : Tree) (is : List Nat) (st : List Nat × List Bool) (j : Nat)
    (h : (st.2[j]?).getD false = true) : (((is.foldl (sdVisit t) st).2)[j]?).getD false = true := by
  induction is generalizing st with
  | nil => exact h
  | cons i is ih => exact ih _ (sdVisit_mono t st i j h)

theorem getD_append_false (l : List Bool) (j : Nat) (h : (l[j]?).getD false = true) :
    (((l ++ [false])[j]?).getD false) = true := by
  rcases Nat.lt_or_ge j l.length with hl | hl
  · rw [List.getElem?_append_left hl]; exact h
  · simp [List.getElem?_eq_none hl] at h

theorem getD_set_other (l : List Bool) (i j : Nat) (b : Bool) (hne : i ≠ j) (h : (l[j]?).getD false = true) :
    ((l.set i b)[j]?).getD false = true := by
  rw [List.getElem?_set_ne hne]; exact h

/-- `isShutdown` of a group and "stopped" of a pool are never reset by any operation of the model other than an explicit
restart of that very pool (the group API has no way back: `Group.shutdown` only ever swaps the flag to true). -/
theorem isShut_stepS (s : GS) (op : SOp) (j : Nat) (h : isShut s j = true) (hnr : op.restarts j = false) :
    isShut (stepS s op) j = true := by
  unfold isShut at h ⊢
  cases op with
  | restart q =>
    have hne : q ≠ j := by
      intro e; subst e; simp [SOp.restarts] at hnr
    exact getD_set_other _ _ _ _ hne h
  | base o =>
    cases o with
    | inc q => simp only [stepS]; split <;> exact h
    | dec q => exact h
    | newGroup p => exact getD_append_false _ _ h
    | newPool g => exact getD_append_false _ _ h
  | flag g => exact getD_set_true _ _ _ h
  | stop q => exact getD_set_true _ _ _ h
  | shutdown g =>
    simp only [stepS, shutdownAll]
    split
    · exact h
    · exact foldl_sdVisit_mono _ _ _ _ (getD_set_true _ _ _ h)

theorem isShut_runS (s : GS) (ops : List SOp) (j : Nat) (h : isShut s j = true)
    (hnr : ∀ op ∈ ops, op.restarts j = false) : isShut (runS s ops) j = true := by
  induction ops generalizing s with
  | nil => exact h
  | cons op ops ih =>
    simp only [runS]
    have hnr' : ∀ o ∈ ops, o.restarts j = false := fun o ho => hnr o (List.mem_cons_of_mem _ ho)
    split
    · exact ih _ (isShut_stepS s op j h (hnr op (List.mem_cons_self ..))) hnr'
    · exact ih _ h hnr'

/-- A stopped pool rejects: `inc` on it changes nothing. -/
theorem stepS_inc_stopped (s : GS) (q : Nat) (h : isShut s q = true) : stepS s (.base (.inc q)) = s := by
  simp [stepS, h]

/-! ## a stopped pool only drains -/

theorem isPoolAt_set (t : Tree) (i j : Nat) (n : Node) (v : Nat) (h : t[i]? = some n) :
    isPoolAt (t.set i { n with value := v }) j = isPoolAt t j := by
  unfold isPoolAt
  by_cases hj : j = i
  · subst hj
    have hlt := Hive.WP.lt_of_get h
    have he : t[j] = n := by rw [List.getElem?_eq_getElem hlt] at h; exact Option.some.inj h
    simp [List.getElem?_set, hlt, h]
    rw [he]
  · simp [List.getElem?_set, hj, Ne.symm hj]

theorem pool_not_group {t : Tree} {j : Nat} (h : isPoolAt t j = true) : isGroup t j = false := by
  unfold isPoolAt at h; unfold isGroup
  cases hh : t[j]? with
  | none => rfl
  | some n => simp [hh] at h ⊢; exact h

theorem isPoolAt_lt {t : Tree} {j : Nat} (h : isPoolAt t j = true) : j < t.length := by
  unfold isPoolAt at h
  rcases Nat.lt_or_ge j t.length with h' | h'
  · exact h'
  · simp [List.getElem?_eq_none h'] at h

/-- One unfolding of `bump`: the node is updated, and the chain either ends there or goes on at the parent. -/
theorem bump_cases (fuel : Nat) (t : Tree) (i : Nat) (up : Bool) (n : Node) (h : t[i]? = some n) :
    bump (fuel + 1) t i up = t.set i { n with value := if up then n.value + 1 else n.value - 1 } ∨
    ∃ g b, n.parent = some g ∧
      bump (fuel + 1) t i up = bump fuel (t.set i { n with value := if up then n.value + 1 else n.value - 1 }) g b := by
  obtain ⟨par, isP, v0⟩ := n
  simp only [bump, h]
  cases par with
  | none => left; rfl
  | some g =>
    simp only
    by_cases hz : v0 = 0
    · right; exact ⟨g, true, rfl, by simp only [hz, if_true]⟩
    · by_cases hnz : (if up = true then v0 + 1 else v0 - 1) = 0
      · right; exact ⟨g, false, rfl, by simp only [hz, hnz, if_true, if_false]⟩
      · left; simp only [hz, hnz, if_false]

theorem isPoolAt_bump (fuel : Nat) : ∀ (t : Tree) (i : Nat) (up : Bool) (j : Nat),
    isPoolAt (bump fuel t i up) j = isPoolAt t j := by
  induction fuel with
  | zero => intro t i up j; rfl
  | succ fuel ih =>
    intro t i up j
    cases hget : t[i]? with
    | none => simp [bump, hget]
    | some n =>
      have hs := isPoolAt_set t i j n (if up then n.value + 1 else n.value - 1) hget
      rcases bump_cases fuel t i up n hget with e | ⟨g, b, _, e⟩
      · rw [e]; exact hs
      · rw [e, ih]; exact hs

/-- `Counter.Update` at node `i` with its subscriber chain never touches another POOL: the chain runs through the
parents, which are groups. -/
theorem bump_val_pool (fuel : Nat) : ∀ (t : Tree) (i : Nat) (up : Bool) (j : Nat), WF t → isPoolAt t j = true → j ≠ i →
    val (bump fuel t i up) j = val t j := by
  induction fuel with
  | zero => intro t i up j _ _ _; rfl
  | succ fuel ih =>
    intro t i up j w hj hne
    cases hget : t[i]? with
    | none => simp [bump, hget]
    | some n =>
      have hv : val (t.set i { n with value := if up then n.value + 1 else n.value - 1 }) j = val t j := by
        rw [val_set t i j n _ hget]; simp [hne]
      have w' := wf_set t i n (if up then n.value + 1 else n.value - 1) hget w
      have hj' := (isPoolAt_set t i j n (if up then n.value + 1 else n.value - 1) hget).trans hj
      rcases bump_cases fuel t i up n hget with e | ⟨g, b, hp, e⟩
      · rw [e]; exact hv
      · have hg := (w.par i n g hget hp).2
        have hgj : j ≠ g := by
          intro e'; subst e'
          rw [pool_not_group hj] at hg; cases hg
        rw [e, ih _ g b j w' hj' hgj]; exact hv

/-- The pool's own counter after its `Update(±1)`. -/
theorem bump_val_self (fuel : Nat) (t : Tree) (i : Nat) (up : Bool) (w : WF t) (hi : isPoolAt t i = true) :
    val (bump (fuel + 1) t i up) i = if up then val t i + 1 else val t i - 1 := by
  have hlt := isPoolAt_lt hi
  have hget : t[i]? = some t[i] := List.getElem?_eq_getElem hlt
  generalize hn : t[i] = n at hget
  have hv0 : val t i = n.value := val_eq t i _ hget
  have hv : val (t.set i { n with value := if up then n.value + 1 else n.value - 1 }) i =
      if up then n.value + 1 else n.value - 1 := by
    rw [val_set t i i n _ hget]; simp
  have w' := wf_set t i n (if up then n.value + 1 else n.value - 1) hget w
  have hi' := (isPoolAt_set t i i n (if up then n.value + 1 else n.value - 1) hget).trans hi
  rw [hv0]
  rcases bump_cases fuel t i up n hget with e | ⟨g, b, hp, e⟩
  · rw [e]; exact hv
  · have hg := (w.par i n g hget hp).2
    have hgi : i ≠ g := by
      intro e'
      have h2 := hg
      rw [← e', pool_not_group hi] at h2; cases h2
    rw [e, bump_val_pool fuel _ g b i w' hi' hgi]; exact hv

theorem val_append_left (t : Tree) (x : Node) (j : Nat) (h : j < t.length) : val (t ++ [x]) j = val t j := by
  simp [val, List.getElem?_append_left h]

theorem isPoolAt_append_left (t : Tree) (x : Node) (j : Nat) (h : j < t.length) :
    isPoolAt (t ++ [x]) j = isPoolAt t j := by
  simp [isPoolAt, List.getElem?_append_left h]

theorem isPoolAt_stepS (s : GS) (op : SOp) (q : Nat) (hq : isPoolAt s.tree q = true) :
    isPoolAt (stepS s op).tree q = true := by
  have hlt := isPoolAt_lt hq
  cases op with
  | base o =>
    cases o with
    | inc q' =>
      simp only [stepS]
      split
      · exact hq
      · simp only [step]; rw [isPoolAt_bump]; exact hq
    | dec q' => simp only [stepS, step]; rw [isPoolAt_bump]; exact hq
    | newGroup p => simp only [stepS, step]; rw [isPoolAt_append_left _ _ _ hlt]; exact hq
    | newPool g => simp only [stepS, step]; rw [isPoolAt_append_left _ _ _ hlt]; exact hq
  | flag g => exact hq
  | stop q' => exact hq
  | shutdown g => simp only [stepS, shutdownAll_tree]; exact hq
  | restart q' => exact hq

/-- One step never increases the counter of a stopped pool. -/
theorem val_stepS_stopped (s : GS) (op : SOp) (q : Nat) (h : Inv s.tree) (hq : isPoolAt s.tree q = true)
    (hs : isShut s q = true) : val (stepS s op).tree q ≤ val s.tree q := by
  have hlt := isPoolAt_lt hq
  cases op with
  | base o =>
    cases o with
    | inc q' =>
      simp only [stepS]
      split
      · exact Nat.le_refl _
      · rename_i hns
        have hne : q ≠ q' := by intro e; subst e; exact hns hs
        simp only [step]
        rw [bump_val_pool _ _ _ _ _ h.wf hq hne]
        exact Nat.le_refl _
    | dec q' =>
      simp only [stepS, step]
      by_cases hne : q = q'
      · subst hne
        rw [bump_val_self _ _ _ _ h.wf hq]
        simp
      · rw [bump_val_pool _ _ _ _ _ h.wf hq hne]
        exact Nat.le_refl _
    | newGroup p => simp only [stepS, step]; rw [val_append_left _ _ _ hlt]; exact Nat.le_refl _
    | newPool g => simp only [stepS, step]; rw [val_append_left _ _ _ hlt]; exact Nat.le_refl _
  | flag g => exact Nat.le_refl _
  | stop q' => exact Nat.le_refl _
  | shutdown g => simp only [stepS, shutdownAll_tree]; exact Nat.le_refl _
  | restart q' => exact Nat.le_refl _

theorem val_runS_stopped (s : GS) (ops : List SOp) (q : Nat) (h : Inv s.tree) (hq : isPoolAt s.tree q = true)
    (hs : isShut s q = true) (hnr : ∀ op ∈ ops, op.restarts q = false) : val (runS s ops).tree q ≤ val s.tree q := by
  induction ops generalizing s with
  | nil => exact Nat.le_refl _
  | cons op ops ih =>
    simp only [runS]
    have hnr' : ∀ o ∈ ops, o.restarts q = false := fun o ho => hnr o (List.mem_cons_of_mem _ ho)
    split
    · rename_i hok
      exact Nat.le_trans
        (ih _ (inv_stepS s op h hok) (isPoolAt_stepS s op q hq)
          (isShut_stepS s op q hs (hnr op (List.mem_cons_self ..))) hnr')
        (val_stepS_stopped s op q h hq hs)
    · exact ih _ h hq hs hnr'

/-! ## a whole `Group.Shutdown` flags the group and stops / flags each of its direct children -/

theorem sdVisit_marks (t : Tree) (st : List Nat × List Bool) (k g : Nat) (h : g ∈ st.1) : g ∈ (sdVisit t st k).1 := by
  unfold sdVisit
  split
  · exact h
  · split
    · exact h
    · split
      · split
        · exact h
        · split
          · exact h
          · exact List.mem_cons_of_mem _ h
      · exact h

theorem sdVisit_length (t : Tree) (st : List Nat × List Bool) (k : Nat) : (sdVisit t st k).2.length = st.2.length := by
  unfold sdVisit
  split
  · rfl
  · split
    · rfl
    · split
      · split
        · simp
        · split
          · rfl
          · simp
      · rfl

theorem foldl_sdVisit_marks (t : Tree) (is : List Nat) (st : List Nat × List Bool) (g : Nat) (h : g ∈ st.1) :
    g ∈ (is.foldl (sdVisit t) st).1 := by
  induction is generalizing st with
  | nil => exact h
  | cons i is ih => exact ih _ (sdVisit_marks t st i g h)

theorem foldl_sdVisit_length (t : Tree) (is : List Nat) (st : List Nat × List Bool) :
    (is.foldl (sdVisit t) st).2.length = st.2.length := by
  induction is generalizing st with
  | nil => rfl
  | cons i is ih => rw [List.foldl_cons, ih, sdVisit_length]

theorem getD_set_self (l : List Bool) (i : Nat) (h : i < l.length) : ((l.set i true)[i]?).getD false = true := by
  simp [List.getElem?_set, h]

/-- Visiting a child of a group whose `shutdown()` body runs: afterwards its flag is set. -/
theorem sdVisit_sets (t : Tree) (st : List Nat × List Bool) (i p : Nat) (n : Node) (hi : t[i]? = some n)
    (hp : n.parent = some p) (hm : p ∈ st.1) (hl : i < st.2.length) : (((sdVisit t st i).2)[i]?).getD false = true := by
  unfold sdVisit
  simp only [hi, hp]
  have hc : st.1.contains p = true := by simpa using hm
  simp only [hc, if_true]
  split
  · exact getD_set_self _ _ hl
  · split
    · rename_i h; exact h
    · exact getD_set_self _ _ hl

theorem foldl_sdVisit_sets (t : Tree) (is : List Nat) (st : List Nat × List Bool) (i p : Nat) (n : Node)
    (hmem : i ∈ is) (hi : t[i]? = some n) (hp : n.parent = some p) (hm : p ∈ st.1) (hl : i < st.2.length) :
    (((is.foldl (sdVisit t) st).2)[i]?).getD false = true := by
  obtain ⟨l1, l2, rfl⟩ := List.append_of_mem hmem
  rw [List.foldl_append, List.foldl_cons]
  apply foldl_sdVisit_mono
  apply sdVisit_sets t _ i p n hi hp
  · exact foldl_sdVisit_marks t l1 st p hm
  · rw [foldl_sdVisit_length]; exact hl

theorem shutdownAll_sets (s : GS) (g i : Nat) (n : Node) (hg : isShut s g = false) (hi : s.tree[i]? = some n)
    (hp : n.parent = some g) (hlen : s.shut.length = s.tree.length) (hgl : g < s.tree.length) :
    isShut (shutdownAll s g) i = true ∧ isShut (shutdownAll s g) g = true := by
  have hil := Hive.WP.lt_of_get hi
  unfold shutdownAll isShut
  unfold isShut at hg
  simp only [hg, Bool.false_eq_true, if_false]
  constructor
  · exact foldl_sdVisit_sets s.tree _ _ i g n (by simp [hil]) hi hp (by simp) (by simp [hlen, hil])
  · exact foldl_sdVisit_mono _ _ _ _ (getD_set_self _ _ (by omega))

/-! the flag list is as long as the tree -/

theorem bump_length (fuel : Nat) : ∀ (t : Tree) (i : Nat) (up : Bool), (bump fuel t i up).length = t.length := by
  induction fuel with
  | zero => intro t i up; rfl
  | succ fuel ih =>
    intro t i up
    cases hget : t[i]? with
    | none => simp [bump, hget]
    | some n =>
      rcases bump_cases fuel t i up n hget with e | ⟨g, b, _, e⟩
      · rw [e]; simp
      · rw [e, ih]; simp

theorem shutdownAll_length (s : GS) (g : Nat) : (shutdownAll s g).shut.length = s.shut.length := by
  unfold shutdownAll
  split
  · rfl
  · simp only [foldl_sdVisit_length]; simp

theorem len_stepS (s : GS) (op : SOp) (h : s.shut.length = s.tree.length) :
    (stepS s op).shut.length = (stepS s op).tree.length := by
  cases op with
  | base o =>
    cases o with
    | inc q => simp only [stepS]; split; exact h; simp only [step]; rw [bump_length]; exact h
    | dec q => simp only [stepS, step]; rw [bump_length]; exact h
    | newGroup p => simp [stepS, step, h]
    | newPool g => simp [stepS, step, h]
  | flag g => simp [stepS, h]
  | stop q => simp [stepS, h]
  | shutdown g => simp only [stepS, shutdownAll_tree, shutdownAll_length]; exact h
  | restart q => simp [stepS, h]

theorem len_runS (s : GS) (ops : List SOp) (h : s.shut.length = s.tree.length) :
    (runS s ops).shut.length = (runS s ops).tree.length := by
  induction ops generalizing s with
  | nil => exact h
  | cons op ops ih =>
    simp only [runS]
    split
    · exact ih _ (len_stepS s op h)
    · exact ih _ h

end Hive.WPG
