import Hive.Model.WorkerPoolGroupSd
import Hive.Proofs.WorkerPoolGroup
/-!
# C16 — the group counter tree during and after `Group.Shutdown`: the counter invariant does not depend on the flags
-/
set_option linter.unusedSimpArgs false
set_option linter.unusedVariables false
namespace Hive.WPG

theorem shutdownAll_tree (s : GS) (g : Nat) : (shutdownAll s g).tree = s.tree := by
  unfold shutdownAll
  split <;> rfl

theorem inv_stepS (s : GS) (op : SOp) (h : Inv s.tree) (hok : op.ok s = true) : Inv (stepS s op).tree := by
  cases op with
  | base o =>
    have hok' : o.ok s.tree = true := hok
    cases o with
    | inc q =>
      simp only [stepS]
      split
      · exact h
      · exact inv_step s.tree _ h hok'
    | dec q => exact inv_step s.tree _ h hok'
    | newGroup p => exact inv_step s.tree _ h hok'
    | newPool g => exact inv_step s.tree _ h hok'
  | flag g => exact h
  | stop q => exact h
  | shutdown g => simp only [stepS, shutdownAll_tree]; exact h

theorem inv_runS (s : GS) (ops : List SOp) (h : Inv s.tree) : Inv (runS s ops).tree := by
  induction ops generalizing s with
  | nil => exact h
  | cons op ops ih =>
    simp only [runS]
    split
    · rename_i hok; exact ih _ (inv_stepS s op h hok)
    · exact ih _ h

/-! ## flags are never reset -/

theorem getD_set_true (l : List Bool) (i j : Nat) (h : (l[j]?).getD false = true) :
    ((l.set i true)[j]?).getD false = true := by
  by_cases e : i = j
  · subst e
    rcases Nat.lt_or_ge i l.length with hl | hl
    · simp [List.getElem?_set, hl]
    · simp [List.getElem?_eq_none hl] at h
  · simp [List.getElem?_set, e, h]

theorem sdVisit_mono (t : Tree) (st : List Nat × List Bool) (i j : Nat) (h : (st.2[j]?).getD false = true) :
    (((sdVisit t st i).2)[j]?).getD false = true := by
  unfold sdVisit
  split
  · exact h
  · split
    · exact h
    · split
      · split
        · exact getD_set_true _ _ _ h
        · split
          · exact h
          · exact getD_set_true _ _ _ h
      · exact h

theorem foldl_sdVisit_mono (t : Tree) (is : List Nat) (st : List Nat × List Bool) (j : Nat)
    (h : (st.2[j]?).getD false = true) : (((is.foldl (sdVisit t) st).2)[j]?).getD false = true := by
  induction is generalizing st with
  | nil => exact h
  | cons i is ih => exact ih _ (sdVisit_mono t st i j h)

theorem getD_append_false (l : List Bool) (j : Nat) (h : (l[j]?).getD false = true) :
    (((l ++ [false])[j]?).getD false) = true := by
  rcases Nat.lt_or_ge j l.length with hl | hl
  · rw [List.getElem?_append_left hl]; exact h
  · simp [List.getElem?_eq_none hl] at h

/-- `isShutdown` of a group and "stopped" of a pool are never reset by any operation of the model (the group API has
no way back: `Group.shutdown` only ever swaps the flag to true). -/
theorem isShut_stepS (s : GS) (op : SOp) (j : Nat) (h : isShut s j = true) : isShut (stepS s op) j = true := by
  unfold isShut at h ⊢
  cases op with
  | base o =>
    cases o with
    | inc q => simp only [stepS]; split <;> exact h
    | dec q => exact h
    | newGroup p => exact getD_append_false _ _ h
    | newPool g => exact getD_append_false _ _ h
  | flag g => exact getD_set_true _ _ _ h
  | stop q => exact getD_set_true _ _ _ h
  | shutdown g =>
    simp only [stepS, shutdownAll]
    split
    · exact h
    · exact foldl_sdVisit_mono _ _ _ _ (getD_set_true _ _ _ h)

theorem isShut_runS (s : GS) (ops : List SOp) (j : Nat) (h : isShut s j = true) : isShut (runS s ops) j = true := by
  induction ops generalizing s with
  | nil => exact h
  | cons op ops ih =>
    simp only [runS]
    split
    · exact ih _ (isShut_stepS s op j h)
    · exact ih _ h

/-- A stopped pool rejects: `inc` on it changes nothing. -/
theorem stepS_inc_stopped (s : GS) (q : Nat) (h : isShut s q = true) : stepS s (.base (.inc q)) = s := by
  simp [stepS, h]

end Hive.WPG
