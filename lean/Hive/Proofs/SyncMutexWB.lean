import Hive.Proofs.SyncMutex
/-!
Well-bracketed goroutines: the counters of the monitor equal the holds of the goroutines, nobody panics,
and no reachable configuration is a deadlock.
-/
namespace Hive.SyncMutex
open Hive.Conc

/-- What the program point says about the holds of the goroutine. -/
def vinv (v : V) : Prop :=
  match v.pc with
  | .idle => True
  | .rlA | .rlC => v.wr = false
  | .rlP => v.wr = false ∧ v.rd = 0
  | .lkA | .lkI | .lkC | .lkP | .lkR => v.wr = false ∧ v.rd = 0
  | .ruA | .ruC => v.wr = false ∧ 0 < v.rd
  | .ruS => v.wr = false
  | .ulA | .ulC => v.wr = true ∧ v.rd = 0
  | .ulB | .ulS => v.wr = false ∧ v.rd = 0
  | .dead => False

/-- The holds of the goroutine once the method it is in has returned. -/
def after (v : V) : Nat × Bool :=
  match v.pc with
  | .idle | .dead => (v.rd, v.wr)
  | .rlA | .rlC | .rlP => (v.rd + 1, false)
  | .lkA | .lkI | .lkC | .lkP | .lkR => (0, true)
  | .ruA | .ruC => (v.rd - 1, false)
  | .ruS => (v.rd, false)
  | .ulA | .ulC | .ulB | .ulS => (0, false)

/-- Invariant for goroutines that unlock only what they hold. -/
structure WInv (s : Mx) (vs : List V) : Prop where
  g : GInv s vs
  hrd : s.readers = sumV fRd vs
  hwr : (if s.writer then 1 else 0) = sumV fWr vs
  loc : ∀ v ∈ vs, vinv v

theorem forall_mid {p : V → Prop} {pre post : List V} {v : V} :
    (∀ u ∈ pre ++ v :: post, p u) ↔ (∀ u ∈ pre, p u) ∧ p v ∧ (∀ u ∈ post, p u) := by
  simp only [List.mem_append, List.mem_cons]
  constructor
  · intro h
    exact ⟨fun u hu => h u (Or.inl hu), h v (Or.inr (Or.inl rfl)), fun u hu => h u (Or.inr (Or.inr hu))⟩
  · rintro ⟨h1, h2, h3⟩ u (hu | rfl | hu)
    · exact h1 u hu
    · exact h2
    · exact h3 u hu

theorem winv_step {s : Mx} {pre post : List V} {v : V} {s' : Mx} {v' : V}
    (h : WInv s (pre ++ v :: post)) (hmem : (s', v') ∈ mxStep s v) :
    WInv s' (pre ++ v' :: post) ∧ after v' = after v := by
  have hg := ginv_step h.g hmem
  obtain ⟨⟨h1, _, _, _, _, _, _⟩, h8, h9, h10⟩ := h
  rw [forall_mid] at h10
  obtain ⟨hpre, hv, hpost⟩ := h10
  suffices hh : (s'.readers = sumV fRd (pre ++ v' :: post) ∧
      (if s'.writer then 1 else 0) = sumV fWr (pre ++ v' :: post)) ∧ vinv v' ∧ after v' = after v from
    ⟨⟨hg, hh.1.1, hh.1.2, forall_mid.mpr ⟨hpre, hh.2.1, hpost⟩⟩, hh.2.2⟩
  clear hg hpre hpost
  obtain ⟨pc, rd, wr⟩ := v
  obtain ⟨m, readers, writer, pending, waitR, wakeR, waitW, wakeW⟩ := s
  simp only [sumV_mid] at h8 h9 ⊢
  cases pc <;> cases m <;> cases writer <;> cases wr <;>
    simp [mxStepG, ulCStep, signalW, broadcastR] at hmem <;>
    (repeat' split at hmem) <;>
    (try simp at hmem) <;>
    (try (first | (obtain ⟨rfl, rfl⟩ := hmem) | (obtain ⟨hg, rfl, rfl⟩ := hmem)
          simp [vinv, after, fRd, fWr] at * <;> omega))

theorem winv_start {s : Mx} {pre post : List V} {v : V} {op : Op} {rest : List Op}
    (h : WInv s (pre ++ v :: post)) (hv : v.pc = .idle) (hwb : wb v.rd v.wr (op :: rest) = true) :
    WInv s (pre ++ { v with pc := start op } :: post) ∧
      wb (after { v with pc := start op }).1 (after { v with pc := start op }).2 rest = true := by
  have hg := ginv_start op h.g hv
  obtain ⟨_, h8, h9, h10⟩ := h
  rw [forall_mid] at h10
  obtain ⟨hpre, _, hpost⟩ := h10
  obtain ⟨pc, rd, wr⟩ := v
  simp only at hv; subst hv
  have hh : vinv { pc := start op, rd := rd, wr := wr } ∧
      wb (after { pc := start op, rd := rd, wr := wr }).1 (after { pc := start op, rd := rd, wr := wr }).2 rest = true := by
    cases op <;> simp [wb, start, vinv, after] at hwb ⊢
    · obtain ⟨⟨rfl, rfl⟩, h3⟩ := hwb; exact ⟨⟨rfl, rfl⟩, h3⟩
    · obtain ⟨⟨rfl, rfl⟩, h3⟩ := hwb; exact ⟨⟨rfl, rfl⟩, h3⟩
    · exact hwb
    · obtain ⟨⟨rfl, h2⟩, h3⟩ := hwb; exact ⟨⟨rfl, h2⟩, h3⟩
  refine ⟨⟨hg, ?_, ?_, forall_mid.mpr ⟨hpre, hh.1, hpost⟩⟩, hh.2⟩
  · simpa only [sumV_mid, fRd] using h8
  · simpa only [sumV_mid, fWr] using h9

/-- Thread-level invariant of the single-mutex system for well-bracketed scripts. -/
def WInvC (c : Cfg Mx Th) : Prop :=
  WInv c.1 (views c.2) ∧ ∀ t ∈ c.2, wb (after t.v).1 (after t.v).2 t.script = true

def WB (scripts : List (List Op)) : Prop := ∀ sc ∈ scripts, wb 0 false sc = true

theorem forall_midT {p : Th → Prop} {pre post : List Th} {v : Th} :
    (∀ u ∈ pre ++ v :: post, p u) ↔ (∀ u ∈ pre, p u) ∧ p v ∧ (∀ u ∈ post, p u) := by
  simp only [List.mem_append, List.mem_cons]
  constructor
  · intro h
    exact ⟨fun u hu => h u (Or.inl hu), h v (Or.inr (Or.inl rfl)), fun u hu => h u (Or.inr (Or.inr hu))⟩
  · rintro ⟨h1, h2, h3⟩ u (hu | rfl | hu)
    · exact h1 u hu
    · exact h2
    · exact h3 u hu

theorem winvC_step {a b : Cfg Mx Th} (h : WInvC a) (hs : Step sys a b) : WInvC b := by
  cases hs with
  | mk s pre t post s' t' hmem =>
    obtain ⟨hw, hsc⟩ := h
    simp only [views_mid] at hw
    rw [forall_midT] at hsc
    obtain ⟨hpre, ht, hpost⟩ := hsc
    simp only [WInvC, views_mid]
    rw [forall_midT]
    rcases smStep_cases hmem with ⟨op, rest, hpc, hscr, rfl, rfl⟩ | ⟨_, hm, hscr⟩
    · have hwb : wb t.v.rd t.v.wr (op :: rest) = true := by
        have : after t.v = (t.v.rd, t.v.wr) := by simp [after, hpc]
        rw [this, hscr] at ht; exact ht
      obtain ⟨h1, h2⟩ := winv_start hw hpc hwb
      exact ⟨h1, hpre, h2, hpost⟩
    · obtain ⟨h1, h2⟩ := winv_step hw hm
      refine ⟨h1, hpre, ?_, hpost⟩
      rw [h2, hscr]; exact ht

theorem winvC_init {scripts : List (List Op)} (hwb : WB scripts) : WInvC (initCfg scripts) := by
  have hidle : ∀ v ∈ views (initCfg scripts).2, v = V.init := by
    intro v hv
    simp only [initCfg, views, List.map_map, List.mem_map] at hv
    obtain ⟨sc, _, rfl⟩ := hv
    rfl
  refine ⟨⟨ginvC_init scripts, ?_, ?_, ?_⟩, ?_⟩
  · rw [sumV_zero]; · rfl
    intro v hv; rw [hidle v hv]; rfl
  · rw [sumV_zero]; · rfl
    intro v hv; rw [hidle v hv]; rfl
  · intro v hv; rw [hidle v hv]; trivial
  · intro t ht
    simp only [initCfg, List.mem_map] at ht
    obtain ⟨sc, hsc, rfl⟩ := ht
    exact hwb sc hsc

theorem winvC_reach {scripts : List (List Op)} (hwb : WB scripts) {c : Cfg Mx Th}
    (hr : Reach sys (initCfg scripts) c) : WInvC c :=
  inv_induction WInvC (winvC_init hwb) (fun _ _ h hs => winvC_step h hs) hr

/-! ## No deadlock -/

theorem stuck_fM {s : Mx} {t : Th} (h : smStepG true s t = []) (hv : vinv t.v) : fM t.v = 0 := by
  obtain ⟨⟨pc, rd, wr⟩, script⟩ := t
  cases pc <;> simp [fM, vinv] at hv ⊢ <;>
    simp [smStepG, mxStepG, ulCStep] at h <;> (repeat' split at h) <;> simp at h

theorem stuck_shape {s : Mx} {t : Th} (h : smStepG true s t = []) (hm : s.m = false) (hv : vinv t.v) :
    t.done ∨ (t.v.pc = .rlP ∧ s.wakeR = 0) ∨ (t.v.pc = .lkP ∧ s.wakeW = 0) := by
  obtain ⟨⟨pc, rd, wr⟩, script⟩ := t
  cases pc
  case idle => cases script <;> simp [smStepG, Th.done] at h ⊢
  all_goals
    (simp [vinv, Th.done] at hv ⊢ <;>
      simp [smStepG, mxStepG, ulCStep, hm] at h <;> (repeat' split at h) <;> (try simp at h) <;> try assumption)

theorem sumV_views_zero {f : V → Nat} {ts : List Th} (h : ∀ t ∈ ts, f t.v = 0) : sumV f (views ts) = 0 := by
  apply sumV_zero
  intro v hv
  simp only [views, List.mem_map] at hv
  obtain ⟨t, ht, rfl⟩ := hv
  exact h t ht

theorem sumV_views_pos {f : V → Nat} {ts : List Th} (h : 0 < sumV f (views ts)) : ∃ t ∈ ts, 0 < f t.v := by
  obtain ⟨v, hv, hp⟩ := sumV_pos h
  simp only [views, List.mem_map] at hv
  obtain ⟨t, ht, rfl⟩ := hv
  exact ⟨t, ht, hp⟩

theorem stuck_all_done {s : Mx} {ts : List Th} (h : WInvC (s, ts)) (hst : Stuck sys (s, ts)) :
    ∀ t ∈ ts, t.done := by
  obtain ⟨⟨⟨_, g2, g3, g4, g5, g6, g7⟩, hrd, hwr, hloc⟩, hsc⟩ := h
  simp only at g2 g3 g4 g5 g6 g7 hrd hwr hloc hsc
  have hvinv : ∀ t ∈ ts, vinv t.v := fun t ht => hloc t.v (by simp only [views, List.mem_map]; exact ⟨t, ht, rfl⟩)
  have hstk : ∀ t ∈ ts, smStepG true s t = [] := fun t ht => hst t ht
  -- nobody holds the internal mutex
  have hm : s.m = false := by
    have : sumV fM (views ts) = 0 := sumV_views_zero (fun t ht => stuck_fM (hstk t ht) (hvinv t ht))
    rw [this] at g2
    cases hmm : s.m <;> simp [hmm] at g2 ⊢
  have hshape : ∀ t ∈ ts, t.done ∨ (t.v.pc = .rlP ∧ s.wakeR = 0) ∨ (t.v.pc = .lkP ∧ s.wakeW = 0) :=
    fun t ht => stuck_shape (hstk t ht) hm (hvinv t ht)
  -- nobody holds the lock
  have hnoW : sumV fWr (views ts) = 0 := by
    apply sumV_views_zero
    intro t ht
    have hv := hvinv t ht
    have hs := hsc t ht
    rcases hshape t ht with ⟨hp, hscr⟩ | ⟨hp, _⟩ | ⟨hp, _⟩
    · simp [after, hp, hscr, wb] at hs; simp [fWr, hs.2]
    · simp [vinv, hp] at hv; simp [fWr, hv.1]
    · simp [vinv, hp] at hv; simp [fWr, hv.1]
  have hnoR : sumV fRd (views ts) = 0 := by
    apply sumV_views_zero
    intro t ht
    have hv := hvinv t ht
    have hs := hsc t ht
    rcases hshape t ht with ⟨hp, hscr⟩ | ⟨hp, _⟩ | ⟨hp, _⟩
    · simp [after, hp, hscr, wb] at hs; simp [fRd, hs.1]
    · simp [vinv, hp] at hv; simp [fRd, hv.2]
    · simp [vinv, hp] at hv; simp [fRd, hv.2]
  have hwriter : s.writer = false := by
    rw [hnoW] at hwr; cases hw : s.writer <;> simp [hw] at hwr ⊢
  have hreaders : s.readers = 0 := by rw [hrd, hnoR]
  have hHW : sumV fHW (views ts) = 0 := by
    apply sumV_views_zero
    intro t ht
    rcases hshape t ht with ⟨hp, _⟩ | ⟨hp, _⟩ | ⟨hp, _⟩ <;> simp [fHW, hp]
  have hBR : sumV fBR (views ts) = 0 := by
    apply sumV_views_zero
    intro t ht
    rcases hshape t ht with ⟨hp, _⟩ | ⟨hp, _⟩ | ⟨hp, _⟩ <;> simp [fBR, hp]
  -- no parked writer
  have hPW : sumV fPW (views ts) = 0 := by
    rcases Nat.eq_zero_or_pos (sumV fPW (views ts)) with h0 | hpos
    · exact h0
    · exfalso
      obtain ⟨t, ht, hp⟩ := sumV_views_pos hpos
      have hwake : s.wakeW = 0 := by
        rcases hshape t ht with ⟨hp', _⟩ | ⟨hp', _⟩ | ⟨_, hw⟩
        · simp [fPW, hp'] at hp
        · simp [fPW, hp'] at hp
        · exact hw
      have := g6 hwriter hreaders (by omega)
      omega
  have hnolkP : ∀ t ∈ ts, t.v.pc ≠ .lkP := by
    intro t ht hp
    have := sumV_ge (f := fPW) (vs := views ts) (v := t.v) (by simp only [views, List.mem_map]; exact ⟨t, ht, rfl⟩)
    simp [fPW, hp, hPW] at this
  have hpend : s.pending = 0 := by
    rw [g3]
    apply sumV_views_zero
    intro t ht
    rcases hshape t ht with ⟨hp, _⟩ | ⟨hp, _⟩ | ⟨hp, _⟩
    · simp [fPend, hp]
    · simp [fPend, hp]
    · exact absurd hp (hnolkP t ht)
  -- no parked reader
  intro t ht
  rcases hshape t ht with hd | ⟨hp, hw⟩ | ⟨hp, _⟩
  · exact hd
  · exfalso
    have hge := sumV_ge (f := fPR) (vs := views ts) (v := t.v) (by simp only [views, List.mem_map]; exact ⟨t, ht, rfl⟩)
    simp [fPR, hp] at hge
    have := g7 hwriter (by omega)
    omega
  · exact absurd hp (hnolkP t ht)

/-! ## Small facts about the indicator functions, used by the property file -/

theorem fHW_pos {v : V} (h : 0 < fHW v) : v.pc = .ruS ∨ v.pc = .ulS ∨ v.pc = .lkR ∨ v.pc = .lkC := by
  obtain ⟨pc, rd, wr⟩ := v; cases pc <;> simp [fHW] at h ⊢

theorem fBR_pos {v : V} (h : 0 < fBR v) : v.pc = .ulB := by
  obtain ⟨pc, rd, wr⟩ := v; cases pc <;> simp [fBR] at h ⊢

theorem quiet_flags {v : V} (h : v.inFlight = false) : fHW v = 0 ∧ fBR v = 0 ∧ fPend v = fPW v := by
  obtain ⟨pc, rd, wr⟩ := v; cases pc <;> simp [V.inFlight, fHW, fBR, fPend, fPW] at h ⊢

theorem sumV_congr {f g : V → Nat} {vs : List V} (h : ∀ v ∈ vs, f v = g v) : sumV f vs = sumV g vs := by
  induction vs with
  | nil => rfl
  | cons a l ih =>
    have ha := h a (by simp)
    have hl := ih (fun v hv => h v (by simp [hv]))
    simp only [sumV, List.map_cons, List.sum_cons] at hl ⊢
    omega

end Hive.SyncMutex
