import Hive.Gen.C10_Code
import Hive.Proofs.DListObs
/-!
# The regenerated code of `ds/list_impl.go` means the hand-written model (C10)

`Hive/Gen/C10_Code.lean` is produced by `harness/c10/xlate` from the working tree (and from GOROOT's
`container/list`) on every run.  Here: for **every** state — well-formed or not, stale handles, negative `len`,
corrupted rings — executing the translated body of each function (`Hive.DList.IR.sem`) is the corresponding function
of `Hive/Model/DList.lean`.  The proofs are computations (`rfl` after exposing the guards), so any change of a load,
a store, a guard, an argument or the order of two statements in the Go source breaks them.

Everything is proved for an arbitrary library `lib` whose code agrees with the translated hive code
(`Agrees`); hive's own translation agrees trivially and `container/list`'s agrees by `std_agrees` — the two
translations are the same terms.
-/
namespace Hive.DList
open IR Hive.Gen.C10Code

def hiveLib : Lib := { code := hive_code, pushBackList := hive_PushBackList, pushFrontList := hive_PushFrontList }
def stdLib : Lib := { code := std_code, pushBackList := std_PushBackList, pushFrontList := std_PushFrontList }

/-- `lib` has the same function bodies as the translation of ds/list_impl.go (`Value()` aside: container/list's
element has a field instead). -/
structure Agrees (lib : Lib) : Prop where
  code : ∀ fn, fn ≠ .Value → lib.code fn = hive_code fn
  pbl : lib.pushBackList = hive_PushBackList
  pfl : lib.pushFrontList = hive_PushFrontList

theorem hive_agrees : Agrees hiveLib := ⟨fun _ _ => rfl, rfl, rfl⟩

theorem std_agrees : Agrees stdLib := by
  refine ⟨?_, rfl, rfl⟩
  intro fn h
  cases fn <;> first | rfl | exact absurd rfl h

section
variable {c : Fn → List Stmt} (hc : ∀ fn, fn ≠ .Value → c fn = hive_code fn)
include hc

/-! ## the internal functions, at any call depth that suffices -/

theorem insert_n (n : Nat) (s : St) (l : Bool) (e a : Nat) :
    semN c (n + 1) .insert [e, a] l (conc s) = (conc (insert s l e a), .word e) := by
  show exec _ l (c .insert) 0 _ _ = _; rw [hc _ (by decide)]; rfl

theorem remove_n (n : Nat) (s : St) (l : Bool) (e : Nat) :
    semN c (n + 1) .remove [e] l (conc s) = (conc (remove s l e), .none) := by
  show exec _ l (c .remove) 0 _ _ = _; rw [hc _ (by decide)]; rfl

theorem init_n (n : Nat) (s : St) (l : Bool) :
    semN c (n + 1) .Init [] l (conc s) = (conc (initL s l), .none) := by
  show exec _ l (c .Init) 0 _ _ = _; rw [hc _ (by decide)]; rfl

theorem move_n (n : Nat) (s : St) (l : Bool) (e a : Nat) :
    semN c (n + 1) .move [e, a] l (conc s) = (conc (move s l e a), .none) := by
  have key : semN c (n + 1) .move [e, a] l (conc s) =
      if (e == a) = true then (conc s, Val.none) else (conc { s with heap := link (unlink s.heap e) e a }, .none) := by
    show exec _ l (c .move) 0 _ _ = _; rw [hc _ (by decide)]; rfl
  rw [key]; unfold move; by_cases h : e = a <;> simp [h, conc]

theorem lazyInit_n (n : Nat) (s : St) (l : Bool) :
    semN c (n + 2) .lazyInit [] l (conc s) = (conc (lazyInit s l), .none) := by
  have key : semN c (n + 2) .lazyInit [] l (conc s) =
      if ((s.heap (root l)).next == 0) = true then ((semN c (n + 1) .Init [] l (conc s)).1, Val.none)
      else (conc s, .none) := by
    show exec _ l (c .lazyInit) 0 _ _ = _; rw [hc _ (by decide)]; rfl
  rw [key, init_n hc]; unfold lazyInit
  by_cases h : (s.heap (root l)).next = 0 <;> simp [h]

theorem insertValue_n (n : Nat) (s : St) (l : Bool) (v a : Nat) :
    semN c (n + 2) .insertValue [v, a] l (conc s)
      = (conc (insertValue s l v a).1, .word (insertValue s l v a).2) := by
  have key : semN c (n + 2) .insertValue [v, a] l (conc s) =
      semN c (n + 1) .insert [s.fresh, a] l (conc (alloc s v)) := by
    show exec _ l (c .insertValue) 0 _ _ = _; rw [hc _ (by decide)]; rfl
  rw [key, insert_n hc]; rfl


/-! ## the exported operations (call depth 3) -/

theorem pushFront_c (s : St) (l : Bool) (v : Nat) :
    sem c .PushFront [v] l (conc s)
      = (conc (step s (.pushFront l v)).1, outVal (step s (.pushFront l v)).2) := by
  have key : sem c .PushFront [v] l (conc s) =
      semN c 2 .insertValue [v, root l] l (semN c 2 .lazyInit [] l (conc s)).1 := by
    show exec _ l (c .PushFront) 0 _ _ = _; rw [hc _ (by decide)]; rfl
  rw [key, lazyInit_n hc, insertValue_n hc]; rfl

theorem pushBack_c (s : St) (l : Bool) (v : Nat) :
    sem c .PushBack [v] l (conc s)
      = (conc (step s (.pushBack l v)).1, outVal (step s (.pushBack l v)).2) := by
  have key : sem c .PushBack [v] l (conc s) =
      semN c 2 .insertValue [v, ((semN c 2 .lazyInit [] l (conc s)).1.heap (root l)).prev] l
        (semN c 2 .lazyInit [] l (conc s)).1 := by
    show exec _ l (c .PushBack) 0 _ _ = _; rw [hc _ (by decide)]; rfl
  rw [key, lazyInit_n hc, insertValue_n hc]; rfl

theorem remove_c (s : St) (l : Bool) (e : Nat) :
    sem c .Remove [e] l (conc s)
      = (conc (step s (.remove l e)).1, outVal (step s (.remove l e)).2) := by
  have key : sem c .Remove [e] l (conc s) =
      if ((s.heap e).owner == some l) = true
      then ((semN c 2 .remove [e] l (conc s)).1, Val.word (((semN c 2 .remove [e] l (conc s)).1.heap e).val))
      else (conc s, .word (s.heap e).val) := by
    show exec _ l (c .Remove) 0 _ _ = _; rw [hc _ (by decide)]; rfl
  rw [key, remove_n hc]; unfold step; simp only [owned]
  by_cases h : ((s.heap e).owner == some l) = true <;> simp [h, outVal, conc]

theorem insertBefore_c (s : St) (l : Bool) (v m : Nat) :
    sem c .InsertBefore [v, m] l (conc s)
      = (conc (step s (.insertBefore l v m)).1, outVal (step s (.insertBefore l v m)).2) := by
  have key : sem c .InsertBefore [v, m] l (conc s) =
      if (!((s.heap m).owner == some l)) = true then (conc s, Val.word 0)
      else semN c 2 .insertValue [v, (s.heap m).prev] l (conc s) := by
    show exec _ l (c .InsertBefore) 0 _ _ = _; rw [hc _ (by decide)]; rfl
  rw [key, insertValue_n hc]; unfold step; simp only [owned]
  by_cases h : ((s.heap m).owner == some l) = true <;> simp [h, outVal, handleOut]

theorem insertAfter_c (s : St) (l : Bool) (v m : Nat) :
    sem c .InsertAfter [v, m] l (conc s)
      = (conc (step s (.insertAfter l v m)).1, outVal (step s (.insertAfter l v m)).2) := by
  have key : sem c .InsertAfter [v, m] l (conc s) =
      if (!((s.heap m).owner == some l)) = true then (conc s, Val.word 0)
      else semN c 2 .insertValue [v, m] l (conc s) := by
    show exec _ l (c .InsertAfter) 0 _ _ = _; rw [hc _ (by decide)]; rfl
  rw [key, insertValue_n hc]; unfold step; simp only [owned]
  by_cases h : ((s.heap m).owner == some l) = true <;> simp [h, outVal, handleOut]

theorem moveToFront_c (s : St) (l : Bool) (e : Nat) :
    sem c .MoveToFront [e] l (conc s)
      = (conc (step s (.moveToFront l e)).1, outVal (step s (.moveToFront l e)).2) := by
  have key : sem c .MoveToFront [e] l (conc s) =
      if (!((s.heap e).owner == some l) || (s.heap (root l)).next == e) = true then (conc s, Val.none)
      else ((semN c 2 .move [e, root l] l (conc s)).1, Val.none) := by
    show exec _ l (c .MoveToFront) 0 _ _ = _; rw [hc _ (by decide)]; rfl
  rw [key, move_n hc]; unfold step; simp only [owned, outVal]
  split <;> simp [*]

theorem moveToBack_c (s : St) (l : Bool) (e : Nat) :
    sem c .MoveToBack [e] l (conc s)
      = (conc (step s (.moveToBack l e)).1, outVal (step s (.moveToBack l e)).2) := by
  have key : sem c .MoveToBack [e] l (conc s) =
      if (!((s.heap e).owner == some l) || (s.heap (root l)).prev == e) = true then (conc s, Val.none)
      else ((semN c 2 .move [e, (s.heap (root l)).prev] l (conc s)).1, Val.none) := by
    show exec _ l (c .MoveToBack) 0 _ _ = _; rw [hc _ (by decide)]; rfl
  rw [key, move_n hc]; unfold step; simp only [owned, outVal]
  split <;> simp [*]

theorem moveBefore_c (s : St) (l : Bool) (e m : Nat) :
    sem c .MoveBefore [e, m] l (conc s)
      = (conc (step s (.moveBefore l e m)).1, outVal (step s (.moveBefore l e m)).2) := by
  have key : sem c .MoveBefore [e, m] l (conc s) =
      if ((!((s.heap e).owner == some l) || e == m) || !((s.heap m).owner == some l)) = true then (conc s, Val.none)
      else ((semN c 2 .move [e, (s.heap m).prev] l (conc s)).1, Val.none) := by
    show exec _ l (c .MoveBefore) 0 _ _ = _; rw [hc _ (by decide)]; rfl
  rw [key, move_n hc]; unfold step; simp only [owned, outVal]
  split <;> simp [*]

theorem moveAfter_c (s : St) (l : Bool) (e m : Nat) :
    sem c .MoveAfter [e, m] l (conc s)
      = (conc (step s (.moveAfter l e m)).1, outVal (step s (.moveAfter l e m)).2) := by
  have key : sem c .MoveAfter [e, m] l (conc s) =
      if ((!((s.heap e).owner == some l) || e == m) || !((s.heap m).owner == some l)) = true then (conc s, Val.none)
      else ((semN c 2 .move [e, m] l (conc s)).1, Val.none) := by
    show exec _ l (c .MoveAfter) 0 _ _ = _; rw [hc _ (by decide)]; rfl
  rw [key, move_n hc]; unfold step; simp only [owned, outVal]
  split <;> simp [*]

/-! ## observers -/

theorem front_c (s : St) (l : Bool) : sem c .Front [] l (conc s) = (conc s, .word (front s l)) := by
  have key : sem c .Front [] l (conc s) =
      if (s.len l == 0) = true then (conc s, Val.word 0) else (conc s, .word (s.heap (root l)).next) := by
    show exec _ l (c .Front) 0 _ _ = _; rw [hc _ (by decide)]; rfl
  rw [key]; unfold front; by_cases h : s.len l = 0 <;> simp [h]

theorem back_c (s : St) (l : Bool) : sem c .Back [] l (conc s) = (conc s, .word (back s l)) := by
  have key : sem c .Back [] l (conc s) =
      if (s.len l == 0) = true then (conc s, Val.word 0) else (conc s, .word (s.heap (root l)).prev) := by
    show exec _ l (c .Back) 0 _ _ = _; rw [hc _ (by decide)]; rfl
  rw [key]; unfold back; by_cases h : s.len l = 0 <;> simp [h]

theorem len_c (s : St) (l : Bool) : sem c .Len [] l (conc s) = (conc s, .int (s.len l)) := by
  show exec _ l (c .Len) 0 _ _ = _; rw [hc _ (by decide)]; rfl

theorem next_c (s : St) (e : Nat) : semElem c .Next e (conc s) = .word (nextOf s e) := by
  have key : sem c .Next [e] false (conc s) =
      if (!((s.heap e).owner == Option.none) &&
          !((s.heap e).next == match (s.heap e).owner with | some k => root k | Option.none => 0)) = true
      then (conc s, Val.word (s.heap e).next) else (conc s, .word 0) := by
    show exec _ false (c .Next) 0 _ _ = _; rw [hc _ (by decide)]; rfl
  unfold semElem; rw [key]; unfold nextOf
  cases h : (s.heap e).owner <;> simp
  split <;> simp_all

theorem prev_c (s : St) (e : Nat) : semElem c .Prev e (conc s) = .word (prevOf s e) := by
  have key : sem c .Prev [e] false (conc s) =
      if (!((s.heap e).owner == Option.none) &&
          !((s.heap e).prev == match (s.heap e).owner with | some k => root k | Option.none => 0)) = true
      then (conc s, Val.word (s.heap e).prev) else (conc s, .word 0) := by
    show exec _ false (c .Prev) 0 _ _ = _; rw [hc _ (by decide)]; rfl
  unfold semElem; rw [key]; unfold prevOf
  cases h : (s.heap e).owner <;> simp
  split <;> simp_all


/-! ## the loops of the whole-list pushes -/

theorem pbl_iter (l : Bool) : ∀ (i e : Nat) (s : St),
    loopIter c hive_PushBackList l i e (conc s) = conc (pblLoop l i e s) := by
  intro i
  induction i with
  | zero => intro e s; rfl
  | succ i ih =>
    intro e s
    have body : (exec (sem c) l hive_PushBackList.body 0 [e] (conc s)).1
        = (semN c 3 .insertValue [(s.heap e).val, (s.heap (root l)).prev] l (conc s)).1 := rfl
    show loopIter c hive_PushBackList l i
      (semElem c .Next e (exec (sem c) l hive_PushBackList.body 0 [e] (conc s)).1).toWord
      (exec (sem c) l hive_PushBackList.body 0 [e] (conc s)).1 = _
    rw [body, insertValue_n hc, next_c hc, ih]; rfl

theorem pfl_iter (l : Bool) : ∀ (i e : Nat) (s : St),
    loopIter c hive_PushFrontList l i e (conc s) = conc (pflLoop l i e s) := by
  intro i
  induction i with
  | zero => intro e s; rfl
  | succ i ih =>
    intro e s
    have body : (exec (sem c) l hive_PushFrontList.body 0 [e] (conc s)).1
        = (semN c 3 .insertValue [(s.heap e).val, root l] l (conc s)).1 := rfl
    show loopIter c hive_PushFrontList l i
      (semElem c .Prev e (exec (sem c) l hive_PushFrontList.body 0 [e] (conc s)).1).toWord
      (exec (sem c) l hive_PushFrontList.body 0 [e] (conc s)).1 = _
    rw [body, insertValue_n hc, prev_c hc, ih]; rfl

theorem pbl_c (s : St) (l o : Bool) :
    runLoop c hive_PushBackList l o (conc s) = conc (step s (.pushBackList l o)).1 := by
  have key : runLoop c hive_PushBackList l o (conc s) =
      loopIter c hive_PushBackList l
        (sem c .Len [] o (semN c 3 .lazyInit [] l (conc s)).1).2.toInt.toNat
        (sem c .Front [] o (semN c 3 .lazyInit [] l (conc s)).1).2.toWord
        (semN c 3 .lazyInit [] l (conc s)).1 := rfl
  rw [key, lazyInit_n hc, len_c hc, front_c hc, pbl_iter hc]; rfl

theorem pfl_c (s : St) (l o : Bool) :
    runLoop c hive_PushFrontList l o (conc s) = conc (step s (.pushFrontList l o)).1 := by
  have key : runLoop c hive_PushFrontList l o (conc s) =
      loopIter c hive_PushFrontList l
        (sem c .Len [] o (semN c 3 .lazyInit [] l (conc s)).1).2.toInt.toNat
        (sem c .Back [] o (semN c 3 .lazyInit [] l (conc s)).1).2.toWord
        (semN c 3 .lazyInit [] l (conc s)).1 := rfl
  rw [key, lazyInit_n hc, len_c hc, back_c hc, pfl_iter hc]; rfl

end

/-! ## the traversals (hive only: `Range`, `RangeReverse`, `ForEach`, `ForEachReverse`) -/

theorem value_c (s : St) (e : Nat) : semElem hive_code .Value e (conc s) = .word (valueOf s e) := by
  have key : sem hive_code .Value [e] false (conc s) =
      if (decide (e < 3)) = true then (conc s, Val.word 0) else (conc s, .word (s.heap e).val) := rfl
  unfold semElem valueOf; rw [key]; by_cases h : e < 3 <;> simp [h]

theorem walk_fwd (w : WalkFn) (hw : w.adv = .Next) (s : St) : ∀ (fuel e : Nat),
    walkSem hive_code w (conc s) fuel e = walkF s fuel e := by
  intro fuel
  induction fuel with
  | zero => intro e; rfl
  | succ f ih =>
    intro e
    unfold walkSem walkF
    rw [value_c, hw, next_c (fun _ _ => rfl), ih]; rfl

theorem walk_bwd (w : WalkFn) (hw : w.adv = .Prev) (s : St) : ∀ (fuel e : Nat),
    walkSem hive_code w (conc s) fuel e = walkB s fuel e := by
  intro fuel
  induction fuel with
  | zero => intro e; rfl
  | succ f ih =>
    intro e
    unfold walkSem walkB
    rw [value_c, hw, prev_c (fun _ _ => rfl), ih]; rfl

/-- **Every operation of a library whose code is the translated code is the model's `step`** — on every state. -/
theorem code_step {lib : Lib} (a : Agrees lib) (s : St) (op : Op) :
    semOp lib op (conc s) = (conc (step s op).1, outVal (step s op).2) := by
  cases op with
  | pushFront l v => exact pushFront_c a.code s l v
  | pushBack l v => exact pushBack_c a.code s l v
  | remove l e => exact remove_c a.code s l e
  | insertBefore l v m => exact insertBefore_c a.code s l v m
  | insertAfter l v m => exact insertAfter_c a.code s l v m
  | moveToFront l e => exact moveToFront_c a.code s l e
  | moveToBack l e => exact moveToBack_c a.code s l e
  | moveBefore l e m => exact moveBefore_c a.code s l e m
  | moveAfter l e m => exact moveAfter_c a.code s l e m
  | pushBackList l o => show (runLoop lib.code lib.pushBackList l o (conc s), Val.none) = _; rw [a.pbl, pbl_c a.code]; rfl
  | pushFrontList l o => show (runLoop lib.code lib.pushFrontList l o (conc s), Val.none) = _; rw [a.pfl, pfl_c a.code]; rfl
  | init l => show ((sem lib.code .Init [] l (conc s)).1, Val.none) = _; rw [show sem lib.code = semN lib.code 3 from rfl, init_n a.code]; rfl

end Hive.DList
