import Hive.Model.EventsPromise
/-!
# Counting invariant of the promise-event protocol model
-/
namespace Hive.Promise
open Hive.Conc

def tot {τ : Type} (f : τ → Nat) (ts : List τ) : Nat := (ts.map f).sum

theorem tot_mid {τ : Type} (f : τ → Nat) (pre post : List τ) (t : τ) :
    tot f (pre ++ t :: post) = tot f pre + f t + tot f post := by
  simp [tot, List.sum_append]; omega

/-- Number of invocations of callback `c` so far. -/
def called (s : Sh) (c : Nat) : Nat := s.log.countP (fun x => x.1 == c)

/-- `c` is in the registered collection. -/
def inCb (s : Sh) (c : Nat) : Nat :=
  match s.cbs with
  | some l => l.count c
  | none => 0

/-- Invocations of `c` a thread still owes. -/
def owes (c : Nat) : Th → Nat
  | .regCall c' => if c' = c then 1 else 0
  | .trigCall _ rest => rest.count c
  | _ => 0

/-- The thread is a registrar of `c` that has passed its critical section. -/
def started (c : Nat) : Th → Nat
  | .regCall c' => if c' = c then 1 else 0
  | .regDone c' => if c' = c then 1 else 0
  | _ => 0

/-- The thread is a registrar of `c`. -/
def isReg (c : Nat) : Th → Nat
  | .reg c' => if c' = c then 1 else 0
  | .regCall c' => if c' = c then 1 else 0
  | .regDone c' => if c' = c then 1 else 0
  | _ => 0

def bal (s : Sh) (c : Nat) : Nat := called s c + inCb s c + s.removed.count c

theorem step_bal {s s' : Sh} {t t' : Th} (c : Nat) (hm : (s', t') ∈ step' s t) :
    bal s' c + owes c t' + started c t = bal s c + owes c t + started c t' ∧ isReg c t' = isReg c t := by
  cases t with
  | reg c' =>
    simp only [step'] at hm
    cases hc : s.cbs with
    | none =>
      simp only [hc, List.mem_singleton, Prod.mk.injEq] at hm
      obtain ⟨rfl, rfl⟩ := hm
      simp [owes, started, isReg]
    | some l =>
      simp only [hc, List.mem_singleton, Prod.mk.injEq] at hm
      obtain ⟨rfl, rfl⟩ := hm
      simp only [bal, called, inCb, hc, owes, started, isReg, List.count_cons, and_true]
      by_cases h : c' = c <;> simp [h] <;> omega
  | regCall c' =>
    simp only [step'] at hm
    cases hv : s.value with
    | none => simp [hv] at hm
    | some v =>
      simp only [hv, List.mem_singleton, Prod.mk.injEq] at hm
      obtain ⟨rfl, rfl⟩ := hm
      simp only [bal, called, inCb, owes, started, isReg, List.countP_cons, and_true]
      by_cases h : c' = c <;> simp [h] <;> omega
  | regDone c' => simp [step'] at hm
  | trig v =>
    simp only [step'] at hm
    cases hc : s.cbs with
    | none =>
      simp only [hc, List.mem_singleton, Prod.mk.injEq] at hm
      obtain ⟨rfl, rfl⟩ := hm
      simp [owes, started, isReg]
    | some l =>
      simp only [hc, List.mem_singleton, Prod.mk.injEq] at hm
      obtain ⟨rfl, rfl⟩ := hm
      simp only [bal, called, inCb, hc, owes, started, isReg, and_true]
      omega
  | trigCall v rest =>
    cases rest with
    | nil =>
      simp only [step', List.mem_singleton, Prod.mk.injEq] at hm
      obtain ⟨rfl, rfl⟩ := hm
      simp [owes, started, isReg]
    | cons x rest =>
      simp only [step', List.mem_singleton, Prod.mk.injEq] at hm
      obtain ⟨rfl, rfl⟩ := hm
      simp only [bal, called, inCb, owes, started, isReg, List.countP_cons, List.count_cons, and_true]
      by_cases h : x = c <;> simp [h] <;> omega
  | trigDone b => simp [step'] at hm
  | unsub c' =>
    simp only [step'] at hm
    cases hc : s.cbs with
    | none =>
      simp only [hc, List.mem_singleton, Prod.mk.injEq] at hm
      obtain ⟨rfl, rfl⟩ := hm
      simp [owes, started, isReg]
    | some l =>
      simp only [hc, List.mem_singleton, Prod.mk.injEq] at hm
      obtain ⟨rfl, rfl⟩ := hm
      simp only [bal, called, inCb, hc, owes, started, isReg, and_true, List.count_erase]
      by_cases hin : c' ∈ l
      · have hpos : 0 < l.count c' := List.count_pos_iff.mpr hin
        by_cases h : c' = c
        · subst h; simp [hin]; omega
        · simp [hin, h]
      · by_cases h : c' = c
        · subst h
          have : l.count c' = 0 := List.count_eq_zero.mpr hin
          simp [hin, this]
        · simp [hin, h]
  | unsubDone => simp [step'] at hm

/-- Value part of the invariant. -/
structure ValInv (c : Cfg Sh Th) : Prop where
  nil_val : c.1.cbs = none → c.1.value.isSome = true
  val_nil : c.1.value.isSome = true → c.1.cbs = none
  log_val : ∀ x ∈ c.1.log, c.1.value = some x.2
  trig_val : ∀ v rest, Th.trigCall v rest ∈ c.2 → c.1.value = some v

structure Inv (c : Cfg Sh Th) : Prop where
  count : ∀ k, bal c.1 k + tot (owes k) c.2 = tot (started k) c.2
  val : ValInv c

theorem tot_eq_zero {τ : Type} (f : τ → Nat) (ts : List τ) (h : ∀ t ∈ ts, f t = 0) : tot f ts = 0 := by
  induction ts with
  | nil => rfl
  | cons t ts ih =>
    simp only [tot, List.map_cons, List.sum_cons] at ih ⊢
    rw [h t (by simp), ih (fun x hx => h x (by simp [hx]))]

theorem inv_init (ts : List Th) (hts : ∀ t ∈ ts, t.initial = true) : Inv (init', ts) := by
  constructor
  · intro k
    have h1 : tot (owes k) ts = 0 := by
      apply tot_eq_zero
      intro t ht
      have := hts t ht
      cases t <;> simp_all [Th.initial, owes]
    have h2 : tot (started k) ts = 0 := by
      apply tot_eq_zero
      intro t ht
      have := hts t ht
      cases t <;> simp_all [Th.initial, started]
    simp [h1, h2, bal, called, inCb, init']
  · constructor
    · simp [init']
    · simp [init']
    · simp [init']
    · intro v rest h
      have := hts _ h
      simp [Th.initial] at this

theorem val_step {a b : Cfg Sh Th} (h : ValInv a) (hs : Step sys a b) : ValInv b := by
  cases hs with
  | mk s pre t post s' t' hm =>
    have hmem : ∀ x, x ∈ pre ++ t' :: post → x = t' ∨ x ∈ pre ++ t :: post := by
      intro x hx
      simp only [List.mem_append, List.mem_cons] at hx ⊢
      rcases hx with hx | rfl | hx
      · exact Or.inr (Or.inl hx)
      · exact Or.inl rfl
      · exact Or.inr (Or.inr (Or.inr hx))
    have htm : t ∈ pre ++ t :: post := by simp
    obtain ⟨h1, h2, h3, h4⟩ := h
    simp only at h1 h2 h3 h4
    simp only [sys] at hm
    cases t with
    | reg c' =>
      simp only [step'] at hm
      cases hc : s.cbs with
      | none =>
        simp only [hc, List.mem_singleton, Prod.mk.injEq] at hm
        obtain ⟨rfl, rfl⟩ := hm
        refine ⟨h1, h2, h3, ?_⟩
        intro v rest hx
        rcases hmem _ hx with hx | hx
        · cases hx
        · exact h4 v rest hx
      | some l =>
        simp only [hc, List.mem_singleton, Prod.mk.injEq] at hm
        obtain ⟨rfl, rfl⟩ := hm
        refine ⟨by simp, ?_, h3, ?_⟩
        · intro hv; have := h2 hv; rw [hc] at this; cases this
        · intro v rest hx
          rcases hmem _ hx with hx | hx
          · cases hx
          · exact h4 v rest hx
    | regCall c' =>
      simp only [step'] at hm
      cases hv : s.value with
      | none => simp [hv] at hm
      | some v =>
        simp only [hv, List.mem_singleton, Prod.mk.injEq] at hm
        obtain ⟨rfl, rfl⟩ := hm
        refine ⟨fun _ => rfl, fun _ => h2 (by rw [hv]; rfl), ?_, ?_⟩
        · intro x hx
          simp only [List.mem_cons] at hx
          rcases hx with rfl | hx
          · rfl
          · have := h3 x hx; rw [hv] at this; exact this
        · intro w rest hx
          rcases hmem _ hx with hx | hx
          · cases hx
          · have := h4 w rest hx; rw [hv] at this; exact this
    | regDone c' => simp [step'] at hm
    | trig v =>
      simp only [step'] at hm
      cases hc : s.cbs with
      | none =>
        simp only [hc, List.mem_singleton, Prod.mk.injEq] at hm
        obtain ⟨rfl, rfl⟩ := hm
        refine ⟨h1, h2, h3, ?_⟩
        intro v rest hx
        rcases hmem _ hx with hx | hx
        · cases hx
        · exact h4 v rest hx
      | some l =>
        simp only [hc, List.mem_singleton, Prod.mk.injEq] at hm
        obtain ⟨rfl, rfl⟩ := hm
        have hnv : s.value = none := by
          cases hv : s.value with
          | none => rfl
          | some w => have := h2 (by simp [hv]); rw [hc] at this; cases this
        refine ⟨by simp, by simp, ?_, ?_⟩
        · intro x hx
          have := h3 x hx
          rw [hnv] at this; cases this
        · intro v' rest hx
          rcases hmem _ hx with hx | hx
          · cases hx; rfl
          · have := h4 v' rest hx
            rw [hnv] at this; cases this
    | trigCall v rest =>
      have hval := h4 v rest htm
      cases rest with
      | nil =>
        simp only [step', List.mem_singleton, Prod.mk.injEq] at hm
        obtain ⟨rfl, rfl⟩ := hm
        refine ⟨h1, h2, h3, ?_⟩
        intro v rest hx
        rcases hmem _ hx with hx | hx
        · cases hx
        · exact h4 v rest hx
      | cons x rest =>
        simp only [step', List.mem_singleton, Prod.mk.injEq] at hm
        obtain ⟨rfl, rfl⟩ := hm
        refine ⟨h1, h2, ?_, ?_⟩
        · intro y hy
          simp only [List.mem_cons] at hy
          rcases hy with rfl | hy
          · exact hval
          · exact h3 y hy
        · intro v' rest' hx
          rcases hmem _ hx with hx | hx
          · cases hx; exact hval
          · exact h4 v' rest' hx
    | trigDone b => simp [step'] at hm
    | unsub c' =>
      simp only [step'] at hm
      cases hc : s.cbs with
      | none =>
        simp only [hc, List.mem_singleton, Prod.mk.injEq] at hm
        obtain ⟨rfl, rfl⟩ := hm
        refine ⟨h1, h2, h3, ?_⟩
        intro v rest hx
        rcases hmem _ hx with hx | hx
        · cases hx
        · exact h4 v rest hx
      | some l =>
        simp only [hc, List.mem_singleton, Prod.mk.injEq] at hm
        obtain ⟨rfl, rfl⟩ := hm
        refine ⟨by simp, ?_, h3, ?_⟩
        · intro hv; have := h2 hv; rw [hc] at this; cases this
        · intro v rest hx
          rcases hmem _ hx with hx | hx
          · cases hx
          · exact h4 v rest hx
    | unsubDone => simp [step'] at hm

theorem inv_step {a b : Cfg Sh Th} (h : Inv a) (hs : Step sys a b) : Inv b := by
  refine ⟨?_, val_step h.val hs⟩
  cases hs with
  | mk s pre t post s' t' hm =>
    intro k
    have hc := h.count k
    simp only [tot_mid] at hc ⊢
    have := (step_bal k hm).1
    omega

/-- The number of registrar threads per callback id never changes. -/
theorem isReg_step {a b : Cfg Sh Th} (hs : Step sys a b) (k : Nat) : tot (isReg k) b.2 = tot (isReg k) a.2 := by
  cases hs with
  | mk s pre t post s' t' hm =>
    simp only [tot_mid]
    have := (step_bal k hm).2
    omega

theorem started_le_isReg (k : Nat) (ts : List Th) : tot (started k) ts ≤ tot (isReg k) ts := by
  induction ts with
  | nil => simp [tot]
  | cons t ts ih =>
    simp only [tot, List.map_cons, List.sum_cons] at ih ⊢
    have : started k t ≤ isReg k t := by cases t <;> simp [started, isReg]
    omega

end Hive.Promise
